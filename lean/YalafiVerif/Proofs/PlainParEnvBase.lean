/-
  Proofs/PlainParEnvBase.lean — first half of the development of Proofs/PlainParEnv.lean (see the
  header there): the declarations `parDeclOk` (of `\par`) and `parEnvOk` (of a paragraph-forming
  environment with one mandatory argument, as `minipage` / `thebibliography` in the real tables), the
  expander level (`expandMacro_par`, `beginEnvironment_par`, `endEnvironment_par`), the steps of the
  loop (`seq_par_step`, `seq_pbeg_step`, `seq_pend_step`) and the loop on token buffers (`Piece`,
  `PiecesOk`, `outP`, `cost`, `seq_parenv`).
-/
import YalafiVerif.Proofs.PlainThmBase
import YalafiVerif.Proofs.PlainVanish
namespace Yalafi
namespace PlainParEnv

open M
open PlainMacro
open PlainThm (NameToks SpToks txtOf parTok plain_parTok getEnvironmentName_copy)
open PlainRef (not_active_long)
open PlainItem (begTok endTok)

/-! ### the declarations -/

/-- the name `par` -/
def parName : Str := "par".toList

/-- the declaration of `\par` the development relies on (as in the real tables): no arguments, no
    handler, no extraction; the replacement is ONE paragraph token `\n\n` -/
def parDeclOk (m : MacroDef) : Bool :=
  m.args.isEmpty && m.handler == .none && m.extract.isEmpty &&
  m.repl.map (restamp 0) == [parTok 0]

structure ParDecl (m : MacroDef) : Prop where
  args : m.args = []
  handler : m.handler = .none
  extract : m.extract = []
  repl : ∀ p, m.repl.map (restamp p) = [parTok p]
  noref : ∀ t ∈ m.repl, argRef t = none

theorem parDecl {m : MacroDef} (h : parDeclOk m = true) : ParDecl m := by
  simp only [parDeclOk, Bool.and_eq_true, beq_iff_eq, List.isEmpty_iff] at h
  obtain ⟨⟨⟨h1, h2⟩, h3⟩, h4⟩ := h
  have hr : ∃ t, m.repl = [t] ∧ t.kind = .par ∧ t.txt = [nl, nl] := by
    cases hm : m.repl with
    | nil => rw [hm] at h4; simp at h4
    | cons t ts =>
      rw [hm] at h4
      cases ts with
      | nil =>
        simp only [List.map_cons, List.map_nil, List.cons.injEq, and_true] at h4
        have hk := congrArg Tok.kind h4
        have ht := congrArg Tok.txt h4
        exact ⟨t, rfl, hk, ht⟩
      | cons _ _ => simp at h4
  obtain ⟨t, ht, hk, htx⟩ := hr
  refine ⟨h1, h2, h3, ?_, ?_⟩
  · intro p
    rw [ht]
    simp only [List.map_cons, List.map_nil, restamp, parTok, mkFix, hk, htx]
  · intro x hx
    rw [ht] at hx
    simp only [List.mem_singleton] at hx
    subst hx
    simp [argRef, hk]

/-- `\par` is declared as expected in `st` -/
def ParOk (st : PState) : Prop := ∃ m, lookupMacro st ('\\' :: parName) = some m ∧ parDeclOk m = true

def parOk (st : PState) : Bool :=
  match lookupMacro st ('\\' :: parName) with
  | some m => parDeclOk m
  | none => false

theorem ParOk_of_parOk {st : PState} (h : parOk st = true) : ParOk st := by
  unfold parOk at h
  split at h
  · exact ⟨_, ‹_›, h⟩
  · cases h

theorem ParOk.congr {st st' : PState} (hm : st'.macros = st.macros) (h : ParOk st) : ParOk st' := by
  obtain ⟨m, h1, h2⟩ := h
  exact ⟨m, by simpa [lookupMacro, hm] using h1, h2⟩

/-- the declaration of a paragraph-forming environment the development relies on (as `minipage`
    and `thebibliography` in the real tables): `add_pars`, one mandatory argument, no replacement,
    no extraction, no handlers, no item labels, no equation environment, not removed -/
def parEnvOk (env : MacroDef) : Bool :=
  env.addPars && env.args == ['A'] && env.repl.isEmpty && env.extract.isEmpty &&
  env.handler == .none && env.endFunc == .none && env.items.isNone && !env.isEqu && !env.remove

structure ParEnvFacts (env : MacroDef) : Prop where
  addPars : env.addPars = true
  args : env.args = ['A']
  repl : env.repl = []
  extract : env.extract = []
  handler : env.handler = .none
  endFunc : env.endFunc = .none
  items : env.items = none
  isEqu : env.isEqu = false
  remove : env.remove = false

theorem parEnvFacts {env : MacroDef} (h : parEnvOk env = true) : ParEnvFacts env := by
  simp only [parEnvOk, Bool.and_eq_true, beq_iff_eq, List.isEmpty_iff, Bool.not_eq_true',
    Option.isNone_iff_eq_none] at h
  obtain ⟨⟨⟨⟨⟨⟨⟨⟨h1, h2⟩, h3⟩, h4⟩, h5⟩, h6⟩, h7⟩, h8⟩, h9⟩ := h
  exact ⟨h1, h2, h3, h4, h5, h6, h7, h8, h9⟩

/-- `name` is declared as a paragraph-forming environment in `st` -/
def parEnvAt (st : PState) (name : Str) : Bool :=
  match lookupEnv st name with
  | some env => parEnvOk env
  | none => false

def ParEnvAt (st : PState) (name : Str) : Prop := ∃ env, lookupEnv st name = some env ∧ parEnvOk env = true

theorem ParEnvAt_of {st : PState} {name : Str} (h : parEnvAt st name = true) : ParEnvAt st name := by
  unfold parEnvAt at h
  split at h
  · exact ⟨_, ‹_›, h⟩
  · cases h

theorem ParEnvAt.congr {st st' : PState} (he : st'.envs = st.envs) {name : Str} (h : ParEnvAt st name) :
    ParEnvAt st' name := by
  obtain ⟨env, h1, h2⟩ := h
  exact ⟨env, by simpa [lookupEnv, he] using h1, h2⟩

/-! ### the expander level -/

/-- **`\par`**: an Action token and the paragraph token, both at the position of `\par`; the white
    space behind the name is skipped; the state is unchanged -/
theorem expandMacro_par (T : PTables) (fuel : Nat) (rest : Buf) (tok : Tok) (st : PState)
    (m : MacroDef) (hl : lookupMacro st tok.txt = some m) (D : ParDecl m) :
    expandMacro T (fuel + 2) rest tok false st
      = .ok (([mkAction tok.pos, parTok tok.pos], skipSpaceStopLangAct rest), st) := by
  rw [expandMacro.eq_2]
  refine (M.bind_ok _ _ _ _ _ (rfl : M.get st = _)).trans ?_
  simp only [hl]
  rw [expandArguments.eq_2]
  simp only [D.args, collectArgs]
  refine (M.bind_ok _ _ _ _ _ (rfl : (pure _ : M (Args × Buf)) st = _)).trans ?_
  simp only [D.extract, D.handler, List.isEmpty_nil, Bool.not_true, Bool.false_eq_true, if_false,
    show (Handler.none != Handler.none) = false by decide, genRepl_noref [] m.repl tok.pos D.noref,
    D.repl tok.pos]
  rfl

theorem vanDecl_of_parEnv {env : MacroDef} (F : ParEnvFacts env) : PlainVanish.VanDecl env :=
  ⟨F.args, F.handler, F.extract, by rw [F.repl]; intro t ht; simp at ht, by rw [F.repl]; simp⟩

/-- **`\begin{name}{arg}` of a paragraph-forming environment**: the paragraph token of `add_pars`
    and the Action token of the argument expansion, at the position of `\begin`; the argument is
    thrown away; nothing behind its closing brace is skipped; the state is unchanged -/
theorem beginEnvironment_par (T : PTables) (fuel : Nat) (p q p2 q2 : Nat) (nt ag : List Tok)
    (rest : Buf) (tok : Tok) (st : PState) (env : MacroDef) (h : NameToks T st nt)
    (hf : nt.length + 2 ≤ fuel) (hl : lookupEnv st (txtOf nt) = some env) (F : ParEnvFacts env)
    (hat : ∀ t ∈ ag, NoBrace t) :
    beginEnvironment T (fuel + 2) (lbr p :: (nt ++ rbr q :: lbr p2 :: (ag ++ rbr q2 :: rest))) tok
        false st
      = .ok (([parTok tok.pos, mkAction tok.pos], rest), st) := by
  obtain ⟨f, rfl⟩ : ∃ f, fuel = f + 1 := ⟨fuel - 1, by omega⟩
  rw [beginEnvironment.eq_2]
  refine (M.bind_ok _ _ _ _ _ (getEnvironmentName_copy T (f + 1) p q nt _ tok st h hf)).trans ?_
  refine (M.bind_ok _ _ _ _ _ (rfl : M.get st = _)).trans ?_
  simp only [hl, F.items]
  refine (M.bind_ok _ _ _ _ _ (PlainVanish.expandArguments_van T (f + 1) env (vanDecl_of_parEnv F)
    p2 q2 ag hat rest tok.pos st)).trans ?_
  simp only [F.isEqu, F.remove, Bool.false_eq_true, if_false]
  show Outcome.ok _ = _
  simp [F.addPars, F.repl, parTok]

/-- **`\end{name}` of a paragraph-forming environment**: the paragraph token; the state is
    unchanged -/
theorem endEnvironment_par (T : PTables) (fuel : Nat) (p q : Nat) (nt : List Tok) (rest : Buf)
    (tok : Tok) (st : PState) (env : MacroDef) (h : NameToks T st nt) (hf : nt.length + 2 ≤ fuel)
    (hl : lookupEnv st (txtOf nt) = some env) (F : ParEnvFacts env) :
    endEnvironment T (fuel + 2) (lbr p :: (nt ++ rbr q :: rest)) tok none st
      = .ok ((([parTok tok.pos], false), rest), st) := by
  rw [endEnvironment.eq_2]
  refine (M.bind_ok _ _ _ _ _ (getEnvironmentName_copy T fuel p q nt rest tok st h hf)).trans ?_
  refine (M.bind_ok _ _ _ _ _ (rfl : M.get st = _)).trans ?_
  simp only [hl, F.items, F.endFunc, Option.isSome_none, Bool.false_and, Bool.false_eq_true, if_false,
    beq_self_eq_true, if_true]
  show Outcome.ok _ = _
  simp [F.addPars, parTok]

/-! ### steps of `expandSequence` -/

/-- white-space tokens in front of a token that is no white space are skipped behind a macro name -/
theorem skipAct_sp : ∀ (sp rest : Buf), SpToks sp →
    (∀ t, rest.head? = some t → t.kind ≠ .space ∧ t.kind ≠ .comment ∧ t.kind ≠ .void ∧
      isLangK t = false) →
    skipSpaceStopLangAct (sp ++ rest) = rest
  | [], rest, _, hr => by
    cases rest with
    | nil => rfl
    | cons t ts =>
      obtain ⟨h1, h2, h3, h4⟩ := hr t rfl
      simp only [List.nil_append, skipSpaceStopLangAct, List.dropWhile_cons]
      have : (isSpaceTok t && !isLangK t && !(t.kind == .action)) = false := by
        cases hk : t.kind <;> simp_all [isSpaceTok, isLangK]
      rw [this]
      simp
  | s :: sp, rest, hs, hr => by
    have h1 : s.kind = .space := hs s (List.mem_cons_self ..)
    have := skipAct_sp sp rest (fun x hx => hs x (List.mem_cons_of_mem _ hx)) hr
    simp only [skipSpaceStopLangAct] at this ⊢
    have hd : (isSpaceTok s && !isLangK s && !(s.kind == .action)) = true := by
      simp [isSpaceTok, isLangK, h1]
    rw [List.cons_append, List.dropWhile_cons, hd]
    simpa using this

/-- the head of the buffer behind the white space that `\par` swallows: no white space, nothing
    else `skip_space` passes over -/
def HeadVis (rest : Buf) : Prop :=
  ∀ t, rest.head? = some t → t.kind ≠ .space ∧ t.kind ≠ .comment ∧ t.kind ≠ .void ∧ isLangK t = false

/-- **`\par` in the loop**: three iterations; the white space behind it is skipped -/
theorem seq_par_step (T : PTables) (fuel : Nat) (p : Nat) (sp rest : Buf) (envStop : Option Str)
    (out : List Tok) (st : PState) (hp : ParOk st) (ha : noEmptyActive T st = true)
    (hsp : SpToks sp) (hh : HeadVis rest) :
    expandSequence T (fuel + 3) (cwTok p parName :: (sp ++ rest)) envStop out st
      = expandSequence T fuel rest envStop (out ++ [mkAction p, parTok p]) st := by
  obtain ⟨m, hm, hmd⟩ := hp
  rw [PlainRef.cw_head T _ p parName _ envStop out st (by decide)]
  refine (M.bind_ok _ _ _ _ _ (expandMacro_par T fuel _ (cwTok p parName) st m hm (parDecl hmd))).trans ?_
  rw [skipAct_sp sp rest hsp hh]
  simp only [List.cons_append, List.nil_append, show (cwTok p parName).pos = p from rfl]
  rw [seq_action_step T _ p _ envStop out st ha,
    seq_plain_step T _ _ _ envStop _ st (plain_parTok p)
      (Or.inl (not_active_long T st _ (by simp [parTok, mkFix])))]
  simp

/-- **`\begin{name}{arg}` of a paragraph-forming environment in the loop** -/
theorem seq_pbeg_step (T : PTables) (fuel : Nat) (p q1 q2 q3 q4 : Nat) (nt ag : List Tok) (rest : Buf)
    (envStop : Option Str) (out : List Tok) (st : PState) (ha : noEmptyActive T st = true)
    (h : NameToks T st nt) (he : ParEnvAt st (txtOf nt)) (hat : ∀ t ∈ ag, NoBrace t)
    (hf : nt.length + 4 ≤ fuel) :
    expandSequence T (fuel + 1)
        (begTok p :: lbr q1 :: (nt ++ rbr q2 :: lbr q3 :: (ag ++ rbr q4 :: rest))) envStop out st
      = expandSequence T (fuel - 2) rest envStop (out ++ [parTok p, mkAction p]) st := by
  obtain ⟨env, hl, hok⟩ := he
  obtain ⟨f, rfl⟩ : ∃ f, fuel = f + 2 := ⟨fuel - 2, by omega⟩
  rw [expandSequence.eq_3]
  show M.bind' M.get _ st = _
  simp only [M.bind', M.get]
  have hk : (begTok p).kind = .xbegin := rfl
  simp only [hk, beq_self_eq_true, if_true]
  refine (M.bind_ok _ _ _ _ _ (beginEnvironment_par T f q1 q2 q3 q4 nt ag rest (begTok p) st env h
    (by omega) hl (parEnvFacts hok) hat)).trans ?_
  show expandSequence T (f + 1 + 1) (parTok p :: mkAction p :: rest) envStop out st = _
  rw [seq_plain_step T _ _ _ envStop _ st (plain_parTok p)
      (Or.inl (not_active_long T st _ (by simp [parTok, mkFix]))),
    seq_action_step T _ p _ envStop _ st ha]
  simp

/-- **`\end{name}` of a paragraph-forming environment in the loop** -/
theorem seq_pend_step (T : PTables) (fuel : Nat) (p q1 q2 : Nat) (nt : List Tok) (rest : Buf)
    (out : List Tok) (st : PState) (h : NameToks T st nt) (he : ParEnvAt st (txtOf nt))
    (hf : nt.length + 4 ≤ fuel) :
    expandSequence T (fuel + 1) (endTok p :: lbr q1 :: (nt ++ rbr q2 :: rest)) none out st
      = expandSequence T (fuel - 1) rest none (out ++ [parTok p]) st := by
  obtain ⟨env, hl, hok⟩ := he
  obtain ⟨f, rfl⟩ : ∃ f, fuel = f + 2 := ⟨fuel - 2, by omega⟩
  rw [expandSequence.eq_3]
  show M.bind' M.get _ st = _
  simp only [M.bind', M.get]
  have hk : (endTok p).kind = .xend := rfl
  simp only [hk, beq_self_eq_true, if_true, reduceCtorEq, beq_iff_eq, if_false]
  refine (M.bind_ok _ _ _ _ _ (endEnvironment_par T f q1 q2 nt rest (endTok p) st env h
    (by omega) hl (parEnvFacts hok))).trans ?_
  simp only [Bool.false_eq_true, if_false]
  show expandSequence T (f + 1 + 1) (parTok p :: rest) none out st = _
  rw [seq_plain_step T _ _ _ none _ st (plain_parTok p)
      (Or.inl (not_active_long T st _ (by simp [parTok, mkFix])))]
  rfl

/-! ### the token buffers -/

/-- the pieces of a token buffer: a token that is copied; `\par` and white space; `\begin { name }
    { arg }`; `\end { name }` -/
inductive Piece where
  | tok (t : Tok)
  | par (p : Nat) (sp : List Tok)
  | beg (p q1 q2 q3 q4 : Nat) (nt ag : List Tok)
  | en (p q1 q2 : Nat) (nt : List Tok)

def Piece.toks : Piece → List Tok
  | .tok t => [t]
  | .par p sp => cwTok p parName :: sp
  | .beg p q1 q2 q3 q4 nt ag => begTok p :: lbr q1 :: (nt ++ rbr q2 :: lbr q3 :: (ag ++ [rbr q4]))
  | .en p q1 q2 nt => endTok p :: lbr q1 :: (nt ++ [rbr q2])

/-- the token buffer -/
def flat : List Piece → List Tok
  | [] => []
  | p :: ps => p.toks ++ flat ps

def PiecesOk (T : PTables) (st : PState) : List Piece → Prop
  | [] => True
  | .tok t :: rest => PlainTok t ∧ PassTok T st t (flat rest) ∧ PiecesOk T st rest
  | .par _ sp :: rest => SpToks sp ∧ HeadVis (flat rest) ∧ PiecesOk T st rest
  | .beg _ _ _ _ _ nt ag :: rest =>
    NameToks T st nt ∧ ParEnvAt st (txtOf nt) ∧ (∀ t ∈ ag, NoBrace t ∧ t.kind ≠ .comment) ∧
      PiecesOk T st rest
  | .en _ _ _ nt :: rest => NameToks T st nt ∧ ParEnvAt st (txtOf nt) ∧ PiecesOk T st rest

/-- what `expandSequence` emits for the pieces before the blank-line removal -/
def outP : List Piece → List Tok
  | [] => []
  | .tok t :: rest => t :: outP rest
  | .par p _ :: rest => mkAction p :: parTok p :: outP rest
  | .beg p _ _ _ _ _ _ :: rest => parTok p :: mkAction p :: outP rest
  | .en p _ _ _ :: rest => parTok p :: outP rest

/-- iterations of `expandSequence` (and of the nested calls that read names) -/
def cost : List Piece → Nat
  | [] => 0
  | .tok _ :: rest => 1 + cost rest
  | .par _ _ :: rest => 3 + cost rest
  | .beg _ _ _ _ _ nt _ :: rest => nt.length + 5 + cost rest
  | .en _ _ _ nt :: rest => nt.length + 5 + cost rest

/-- **the loop on a buffer of plain tokens, `\par` and paragraph-forming environments.**  The
    output is the blank-line removal applied to `outP`; the state is unchanged. -/
theorem seq_parenv (T : PTables) (st : PState) (ha : noEmptyActive T st = true) (hp : ParOk st) :
    ∀ (ps : List Piece) (fuel : Nat) (out : List Tok),
      cost ps + 1 ≤ fuel → PiecesOk T st ps →
      expandSequence T fuel (flat ps) none out st
        = match removeLines (out ++ outP ps) with
          | some r => .ok ((r, []), st)
          | none => .outOfFuel := by
  intro ps
  induction ps with
  | nil =>
    intro fuel out hf _
    obtain ⟨f, rfl⟩ : ∃ f, fuel = f + 1 := ⟨fuel - 1, by omega⟩
    simp only [flat, outP, List.append_nil]
    rw [expandSequence.eq_2]
    cases removeLines out <;> rfl
  | cons pc ps ih =>
    intro fuel out hf hok
    cases pc with
    | tok t =>
      simp only [cost] at hf
      obtain ⟨f, rfl⟩ : ∃ f, fuel = f + 1 := ⟨fuel - 1, by omega⟩
      simp only [flat, Piece.toks, List.singleton_append]
      rw [seq_plain_step T f t (flat ps) none out st hok.1 hok.2.1,
        ih f (out ++ [t]) (by omega) hok.2.2]
      simp only [outP, List.append_assoc, List.singleton_append]
    | par p sp =>
      obtain ⟨hsp, hh, hrest⟩ := hok
      simp only [cost] at hf
      obtain ⟨f, rfl⟩ : ∃ f, fuel = f + 3 := ⟨fuel - 3, by omega⟩
      have hflat : flat (Piece.par p sp :: ps) = cwTok p parName :: (sp ++ flat ps) := by
        simp [flat, Piece.toks]
      rw [hflat, seq_par_step T f p sp (flat ps) none out st hp ha hsp hh,
        ih f _ (by omega) hrest]
      simp only [outP, List.append_assoc, List.cons_append, List.nil_append]
    | beg p q1 q2 q3 q4 nt ag =>
      obtain ⟨hn, he, hat, hrest⟩ := hok
      simp only [cost] at hf
      obtain ⟨f, rfl⟩ : ∃ f, fuel = f + 1 := ⟨fuel - 1, by omega⟩
      have hflat : flat (Piece.beg p q1 q2 q3 q4 nt ag :: ps)
          = begTok p :: lbr q1 :: (nt ++ rbr q2 :: lbr q3 :: (ag ++ rbr q4 :: flat ps)) := by
        simp [flat, Piece.toks]
      rw [hflat, seq_pbeg_step T f p q1 q2 q3 q4 nt ag (flat ps) none out st ha hn he
        (fun t ht => (hat t ht).1) (by omega),
        ih (f - 2) _ (by omega) hrest]
      simp only [outP, List.append_assoc, List.cons_append, List.nil_append]
    | en p q1 q2 nt =>
      obtain ⟨hn, he, hrest⟩ := hok
      simp only [cost] at hf
      obtain ⟨f, rfl⟩ : ∃ f, fuel = f + 1 := ⟨fuel - 1, by omega⟩
      have hflat : flat (Piece.en p q1 q2 nt :: ps)
          = endTok p :: lbr q1 :: (nt ++ rbr q2 :: flat ps) := by
        simp [flat, Piece.toks]
      rw [hflat, seq_pend_step T f p q1 q2 nt (flat ps) out st hn he (by omega),
        ih (f - 1) _ (by omega) hrest]
      simp only [outP, List.append_assoc, List.cons_append, List.nil_append]

theorem PiecesOk.notComment {T : PTables} {st : PState} : ∀ {ps : List Piece},
    PiecesOk T st ps → ∀ t ∈ flat ps, t.kind ≠ .comment
  | [], _, _, h => by simp [flat] at h
  | .tok t :: rest, hok, x, hx => by
    simp only [flat, Piece.toks, List.singleton_append, List.mem_cons] at hx
    rcases hx with rfl | hx
    · exact hok.1.notComment
    · exact PiecesOk.notComment hok.2.2 x hx
  | .par p sp :: rest, hok, x, hx => by
    obtain ⟨hsp, _, hrest⟩ := hok
    simp only [flat, Piece.toks, List.cons_append, List.mem_cons, List.mem_append] at hx
    rcases hx with rfl | hx | hx
    · simp [cwTok]
    · simp [hsp x hx]
    · exact PiecesOk.notComment hrest x hx
  | .beg p q1 q2 q3 q4 nt ag :: rest, hok, x, hx => by
    obtain ⟨hn, _, hat, hrest⟩ := hok
    simp only [flat, Piece.toks, List.cons_append, List.append_assoc, List.mem_cons,
      List.mem_append, List.nil_append] at hx
    rcases hx with rfl | rfl | hx | rfl | rfl | hx | rfl | hx
    · simp [begTok]
    · simp [lbr]
    · exact hn.notComment x hx
    · simp [rbr]
    · simp [lbr]
    · exact (hat x hx).2
    · simp [rbr]
    · exact PiecesOk.notComment hrest x hx
  | .en p q1 q2 nt :: rest, hok, x, hx => by
    obtain ⟨hn, _, hrest⟩ := hok
    simp only [flat, Piece.toks, List.cons_append, List.append_assoc, List.mem_cons,
      List.mem_append, List.nil_append] at hx
    rcases hx with rfl | rfl | hx | rfl | hx
    · simp [endTok]
    · simp [lbr]
    · exact hn.notComment x hx
    · simp [rbr]
    · exact PiecesOk.notComment hrest x hx

/-- the conditions depend on the state only through the language stack and the environments -/
theorem PiecesOk.congr {T : PTables} {st st' : PState} (hl : st'.langStack = st.langStack)
    (he : st'.envs = st.envs) : ∀ {ps : List Piece}, PiecesOk T st ps → PiecesOk T st' ps
  | [], _ => trivial
  | .tok _ :: _, h => ⟨h.1, PassTok_congr hl h.2.1, PiecesOk.congr hl he h.2.2⟩
  | .par _ _ :: _, h => ⟨h.1, h.2.1, PiecesOk.congr hl he h.2.2⟩
  | .beg _ _ _ _ _ _ _ :: _, h => ⟨h.1.congr hl, h.2.1.congr he, h.2.2.1, PiecesOk.congr hl he h.2.2.2⟩
  | .en _ _ _ _ :: _, h => ⟨h.1.congr hl, h.2.1.congr he, PiecesOk.congr hl he h.2.2⟩

end PlainParEnv
end Yalafi
