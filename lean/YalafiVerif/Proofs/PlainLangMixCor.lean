/-
  Proofs/PlainLangMixCor.lean — readings of the reference `PlainLangMix.refParts` (documents that mix
  `\selectlanguage`, `\foreignlanguage` and the `otherlanguage` environments):

    `textChars`            the text characters of the document with their source positions
    `stepStk`, `stkAfter`  the language stack behind a segment / a list of segments
    `langAt`               THE STACK DISCIPLINE ON THE DOCUMENT: the language code in force at a source
                           position — initial language; `sel` replaces the top; `frn` pushes for its
                           text and pops; `beg` pushes; `fin` pops (unless one entry is left)
    `refSecs_lang`         every character of a section is a text character of the source at its own
                           position, and the language of the section is `langAt` there
    `refParts_word_language`   every visible text character is filed under the code `langAt` of its
                           position, with its own position
    `refPlan_once`         the verbatim components of all pieces together hold every surviving text
                           character exactly once; everything else in a piece is a placeholder
    `stkAfter_env`, `langAt_env`   nesting: behind a closed environment the stack — hence the language
                           in force — is the one in front of it, whatever happened inside
-/
import YalafiVerif.Proofs.PlainLangMixE2E
namespace Yalafi
namespace PlainLangMix

open LinesLang (Item Mark ch isLg delLines)
open PlainLang (codeOfName selTok itemChars groupSecs shiftParts posText_mem posText_pairwise zip_fst_snd)
open PlainForeign (secsItems stepStack emitSec mkSec openTok backTok bodyOff frnLen partOf shiftTp
  partOf_groupSecs partOf_shiftParts lcOf)
open PlainFootnote (lastTokOff)

/-! ### the items of a document -/

/-- the items of a document that starts at position `p` (before the blank-line removal) -/
def segItems (T : PTables) : Nat → List Seg → List Item
  | _, [] => []
  | p, .txt s :: rest => ch (posText p s) ++ segItems T (p + s.length) rest
  | p, .sel name :: rest => .inr (selTok T p (codeOfName T name)) :: segItems T (p + (name.length + 17)) rest
  | p, .frn n b :: rest =>
    .inr (openTok T p (codeOfName T n)) :: (ch (posText (p + bodyOff n) b) ++
      .inr (backTok (p + bodyOff n + lastTokOff b)) :: segItems T (p + frnLen n b) rest)
  | p, .beg star n :: rest => .inr (obegTok T p (codeOfName T n)) :: segItems T (p + begLen star n) rest
  | p, .fin star sp :: rest =>
    .inr (backTok p) :: ((if swallow star sp then [] else ch (posText (p + ((envName star).length + 6)) sp)) ++
      segItems T (p + finLen star sp) rest)

theorem filterMap_id_map_some {α} (l : List α) : (l.map some).filterMap id = l := by
  induction l with
  | nil => rfl
  | cons a l ih => simp

theorem segMarks_items (T : PTables) : ∀ (segs : List Seg) (p : Nat),
    (segMarks T p segs).filterMap id = segItems T p segs
  | [], _ => rfl
  | .txt s :: rest, p => by
    simp only [segMarks, segItems, List.filterMap_append, filterMap_id_map_some, segMarks_items T rest]
  | .sel n :: rest, p => by
    simp [segMarks, segItems, segMarks_items T rest]
  | .frn n b :: rest, p => by
    have h1 : ∀ (x : Item) (l : List Mark), (some x :: l).filterMap id = x :: l.filterMap id := by
      intro x l; rfl
    simp only [segMarks, segItems]
    rw [List.filterMap_cons_none rfl, h1, List.filterMap_append, h1, filterMap_id_map_some,
      segMarks_items T rest]
  | .beg star n :: rest, p => by
    simp [segMarks, segItems, segMarks_items T rest]
  | .fin star sp :: rest, p => by
    have h1 : ∀ (x : Item) (l : List Mark), (some x :: l).filterMap id = x :: l.filterMap id := by
      intro x l; rfl
    simp only [segMarks, segItems]
    rw [List.filterMap_cons_none rfl, h1, List.filterMap_append, List.filterMap_append,
      segMarks_items T rest]
    congr 1
    cases star <;> cases swallow _ sp <;> simp

/-- the characters of the text of a document that starts at position `p`, each with its (0-based)
    source position: the text segments, the texts of the insertions, and the white space behind
    `\end{otherlanguage[*]}` unless it is swallowed -/
def textChars : Nat → List Seg → List (Char × Nat)
  | _, [] => []
  | p, .txt s :: rest => posText p s ++ textChars (p + s.length) rest
  | p, .sel name :: rest => textChars (p + (name.length + 17)) rest
  | p, .frn n b :: rest => posText (p + bodyOff n) b ++ textChars (p + frnLen n b) rest
  | p, .beg star n :: rest => textChars (p + begLen star n) rest
  | p, .fin star sp :: rest =>
    (if swallow star sp then [] else posText (p + ((envName star).length + 6)) sp) ++
      textChars (p + finLen star sp) rest

theorem itemChars_ch (l : List (Char × Nat)) (xs : List Item) :
    itemChars (ch l ++ xs) = l ++ itemChars xs := PlainLang.itemChars_ch l xs

theorem itemChars_inr (t : Tok) (xs : List Item) : itemChars (.inr t :: xs) = itemChars xs := by
  simp only [itemChars, List.filterMap_cons, Sum.getLeft?_inr]

theorem segItems_chars (T : PTables) : ∀ (segs : List Seg) (p : Nat),
    itemChars (segItems T p segs) = textChars p segs
  | [], _ => rfl
  | .txt s :: rest, p => by
    simp only [segItems, textChars, itemChars_ch, segItems_chars T rest]
  | .sel n :: rest, p => by
    simp only [segItems, textChars, itemChars_inr, segItems_chars T rest]
  | .frn n b :: rest, p => by
    simp only [segItems, textChars, itemChars_inr, itemChars_ch, segItems_chars T rest]
  | .beg star n :: rest, p => by
    simp only [segItems, textChars, itemChars_inr, segItems_chars T rest]
  | .fin star sp :: rest, p => by
    simp only [segItems, textChars, itemChars_inr]
    split
    · simp [segItems_chars T rest]
    · rw [itemChars_ch, segItems_chars T rest]

theorem textChars_ge : ∀ (segs : List Seg) (p : Nat) (cp : Char × Nat), cp ∈ textChars p segs → p ≤ cp.2
  | [], _, _, h => by cases h
  | .txt s :: rest, p, cp, h => by
    simp only [textChars] at h
    rcases List.mem_append.mp h with h | h
    · exact (posText_mem s p cp h).1
    · have := textChars_ge rest _ cp h; omega
  | .sel n :: rest, p, cp, h => by
    simp only [textChars] at h
    have := textChars_ge rest _ cp h; omega
  | .frn n b :: rest, p, cp, h => by
    simp only [textChars] at h
    rcases List.mem_append.mp h with h | h
    · have := (posText_mem b _ cp h).1; omega
    · have := textChars_ge rest _ cp h; simp only [frnLen] at this; omega
  | .beg star n :: rest, p, cp, h => by
    simp only [textChars] at h
    have := textChars_ge rest _ cp h; omega
  | .fin star sp :: rest, p, cp, h => by
    simp only [textChars] at h
    rcases List.mem_append.mp h with h | h
    · split at h
      · cases h
      · have := (posText_mem sp _ cp h).1; omega
    · have := textChars_ge rest _ cp h; omega

/-- the source positions of the text characters are strictly increasing -/
theorem textChars_pairwise : ∀ (segs : List Seg) (p : Nat),
    (textChars p segs).Pairwise (fun a b => a.2 < b.2)
  | [], _ => List.Pairwise.nil
  | .txt s :: rest, p => by
    simp only [textChars]
    rw [List.pairwise_append]
    refine ⟨posText_pairwise s p, textChars_pairwise rest _, ?_⟩
    intro a ha b hb
    have h1 := (posText_mem s p a ha).2
    have h2 := textChars_ge rest _ b hb
    omega
  | .sel n :: rest, p => by
    simp only [textChars]
    exact textChars_pairwise rest _
  | .frn n b :: rest, p => by
    simp only [textChars]
    rw [List.pairwise_append]
    refine ⟨posText_pairwise b _, textChars_pairwise rest _, ?_⟩
    intro a ha c hc
    have h1 := (posText_mem b _ a ha).2
    have h2 := textChars_ge rest _ c hc
    simp only [frnLen, bodyOff] at h1 h2
    omega
  | .beg star n :: rest, p => by
    simp only [textChars]
    exact textChars_pairwise rest _
  | .fin star sp :: rest, p => by
    simp only [textChars]
    rw [List.pairwise_append]
    refine ⟨?_, textChars_pairwise rest _, ?_⟩
    · split
      · exact List.Pairwise.nil
      · exact posText_pairwise sp _
    · intro a ha c hc
      have h2 := textChars_ge rest _ c hc
      split at ha
      · cases ha
      · have h1 := (posText_mem sp _ a ha).2
        simp only [finLen] at h2
        omega

/-! ### the stack discipline on the document -/

/-- the language stack behind a segment: `\selectlanguage` replaces the top, `\begin{otherlanguage}`
    pushes, `\end{otherlanguage}` pops unless one entry is left; behind `\foreignlanguage{…}{…}` the
    stack is what it was in front of it -/
def stepStk (T : PTables) (stk : List Str) : Seg → List Str
  | .txt _ => stk
  | .sel name => codeOfName T name :: stk.tail
  | .frn _ _ => stk
  | .beg _ name => codeOfName T name :: stk
  | .fin _ _ => if stk.length > 1 then stk.tail else stk

/-- the language stack behind a list of segments -/
def stkAfter (T : PTables) : List Str → List Seg → List Str
  | stk, [] => stk
  | stk, sg :: rest => stkAfter T (stepStk T stk sg) rest

/-- the language in force at position `q` INSIDE the segment `sg` that starts at `p`: the text of an
    insertion has the language of its name; the white space behind `\end{otherlanguage}` already has
    the language behind the environment (inside the commands themselves there is no text) -/
def langIn (T : PTables) (stk : List Str) (p : Nat) : Seg → Nat → Str
  | .txt _, _ => stackTop stk
  | .sel name, _ => codeOfName T name
  | .frn n b, q => if p + bodyOff n ≤ q ∧ q < p + bodyOff n + b.length then codeOfName T n else stackTop stk
  | .beg _ name, _ => codeOfName T name
  | .fin _ _, _ => stackTop (if stk.length > 1 then stk.tail else stk)

/-- **the language code in force at source position `q`** (`stk` = the language stack in front of the
    segment list, which starts at position `p`) -/
def langAt (T : PTables) : List Str → Nat → List Seg → Nat → Str
  | stk, _, [], _ => stackTop stk
  | stk, p, sg :: rest, q =>
    if q < p + sg.len then langIn T stk p sg q else langAt T (stepStk T stk sg) (p + sg.len) rest q

theorem stepStk_ne (T : PTables) (stk : List Str) (sg : Seg) (h : stk ≠ []) : stepStk T stk sg ≠ [] := by
  cases sg <;> simp only [stepStk] <;> try exact h
  · simp
  · simp
  · split
    · rename_i hl
      intro e
      have := congrArg List.length e
      simp at this
      omega
    · exact h

/-! ### characters paired with the language in force -/

/-- characters paired with the top of the language stack -/
def attrS : List Str → List Item → List (Str × (Char × Nat))
  | _, [] => []
  | stk, .inl cp :: xs => (stackTop stk, cp) :: attrS stk xs
  | stk, .inr t :: xs =>
    match t.kind with
    | .lang l b h _ => attrS (stepStack stk l b h) xs
    | _ => attrS stk xs

theorem attrS_ch : ∀ (l : List (Char × Nat)) (stk : List Str) (xs : List Item),
    attrS stk (ch l ++ xs) = l.map (fun cp => (stackTop stk, cp)) ++ attrS stk xs
  | [], _, _ => rfl
  | a :: l, stk, xs => by
    simp only [LinesLang.ch_cons, List.cons_append, attrS, List.map_cons, attrS_ch l stk xs]

theorem emitSec_attr (l : Str) (back brk : Bool) (acc : List (Char × Nat)) :
    ∀ s ∈ emitSec l back brk acc, s.lang = l ∧ ∀ cp ∈ secChars s, cp ∈ acc := by
  intro s hs
  unfold emitSec at hs
  split at hs
  · cases hs
  · rw [List.mem_singleton] at hs
    subst hs
    refine ⟨rfl, ?_⟩
    intro cp hcp
    simpa [secChars, mkSec, zip_fst_snd] using hcp

theorem emitSec_chars (l : Str) (back brk : Bool) (acc : List (Char × Nat)) :
    (emitSec l back brk acc).flatMap secChars = acc := by
  unfold emitSec
  split
  · rename_i h; simp at h; simp [h]
  · simp [secChars, mkSec, zip_fst_snd]

/-- the sections spell the character items, in order -/
theorem secsItems_chars : ∀ (items : List Item) (stk : List Str) (back brk : Bool) (acc : List (Char × Nat)),
    (secsItems stk back brk acc items).flatMap secChars = acc ++ itemChars items
  | [], stk, back, brk, acc => by simp [secsItems, emitSec_chars, itemChars]
  | .inl cp :: xs, stk, back, brk, acc => by
    simp only [secsItems]
    rw [secsItems_chars xs]
    simp [itemChars]
  | .inr t :: xs, stk, back, brk, acc => by
    simp only [secsItems]
    split
    · split
      · rw [secsItems_chars xs, itemChars_inr]
      · rw [List.flatMap_append, emitSec_chars, secsItems_chars xs, itemChars_inr]
        simp
    · rw [secsItems_chars xs, itemChars_inr]

/-- every character of a section belongs to the language on top of the stack where it stands -/
theorem secsItems_attr : ∀ (items : List Item) (stk : List Str) (back brk : Bool) (acc : List (Char × Nat)),
    ∀ s ∈ secsItems stk back brk acc items, ∀ cp ∈ secChars s,
      (s.lang = stackTop stk ∧ cp ∈ acc) ∨ (s.lang, cp) ∈ attrS stk items
  | [], stk, back, brk, acc => by
    intro s hs cp hcp
    obtain ⟨h1, h2⟩ := emitSec_attr _ _ _ _ s hs
    exact Or.inl ⟨h1, h2 cp hcp⟩
  | .inl c :: xs, stk, back, brk, acc => by
    intro s hs cp hcp
    simp only [secsItems] at hs
    rcases secsItems_attr xs stk back brk _ s hs cp hcp with ⟨h1, h2⟩ | h
    · rcases List.mem_append.mp h2 with h2 | h2
      · exact Or.inl ⟨h1, h2⟩
      · right
        simp only [List.mem_singleton] at h2
        rw [h1, h2]
        simp [attrS]
    · right; simp [attrS, h]
  | .inr t :: xs, stk, back, brk, acc => by
    intro s hs cp hcp
    simp only [secsItems] at hs
    split at hs
    · rename_i l b h k hk
      simp only [attrS, hk]
      split at hs
      · rename_i hsame
        rw [beq_iff_eq] at hsame
        rcases secsItems_attr xs _ back brk _ s hs cp hcp with ⟨h1, h2⟩ | h
        · exact Or.inl ⟨h1.trans hsame, h2⟩
        · exact Or.inr h
      · rcases List.mem_append.mp hs with hs | hs
        · obtain ⟨h1, h2⟩ := emitSec_attr _ _ _ _ s hs
          exact Or.inl ⟨h1, h2 cp hcp⟩
        · rcases secsItems_attr xs _ _ _ _ s hs cp hcp with ⟨_, h2⟩ | h
          · cases h2
          · exact Or.inr h
    · rename_i hk
      rcases secsItems_attr xs stk back brk _ s hs cp hcp with h | h
      · exact Or.inl h
      · right
        have e : attrS stk (Sum.inr t :: xs) = attrS stk xs := by
          simp only [attrS]
        rw [e]; exact h

/-- deleting characters (but no language token) does not change the language of the others -/
theorem attrS_sublist {l1 l2 : List Item} (h : List.Sublist l1 l2) :
    l1.filter isLg = l2.filter isLg → ∀ stk, List.Sublist (attrS stk l1) (attrS stk l2) := by
  induction h with
  | slnil => intro _ _; exact List.Sublist.refl _
  | @cons l1 l2 a hsub ih =>
    intro hf stk
    cases a with
    | inl cp =>
      have hf' : l1.filter isLg = l2.filter isLg := by
        rw [hf, List.filter_cons_of_neg (by simp [isLg])]
      simp only [attrS]
      exact List.Sublist.cons _ (ih hf' stk)
    | inr t =>
      exfalso
      have h1 := (hsub.filter isLg).length_le
      rw [hf, List.filter_cons_of_pos (by rfl)] at h1
      simp only [List.length_cons] at h1
      omega
  | @cons_cons l1 l2 a hsub ih =>
    intro hf stk
    cases a with
    | inl cp =>
      have hf' : l1.filter isLg = l2.filter isLg := by
        rw [List.filter_cons_of_neg (by simp [isLg]), List.filter_cons_of_neg (by simp [isLg])] at hf
        exact hf
      simp only [attrS]
      exact List.Sublist.cons_cons _ (ih hf' stk)
    | inr t =>
      have hf' : l1.filter isLg = l2.filter isLg := by
        rw [List.filter_cons_of_pos (by rfl), List.filter_cons_of_pos (by rfl)] at hf
        exact List.tail_eq_of_cons_eq hf
      simp only [attrS]
      split
      · exact ih hf' _
      · exact ih hf' _

theorem attrS_mem_chars : ∀ (l : List Item) (stk : List Str) (x : Str × (Char × Nat)),
    x ∈ attrS stk l → x.2 ∈ itemChars l
  | [], _, _, h => by cases h
  | .inl cp :: xs, stk, x, h => by
    simp only [attrS, List.mem_cons] at h
    simp only [itemChars, List.filterMap_cons, Sum.getLeft?_inl, List.mem_cons]
    rcases h with rfl | h
    · exact Or.inl rfl
    · exact Or.inr (attrS_mem_chars xs stk x h)
  | .inr t :: xs, stk, x, h => by
    simp only [attrS] at h
    rw [itemChars_inr]
    split at h
    · exact attrS_mem_chars xs _ x h
    · exact attrS_mem_chars xs _ x h

theorem attrS_lang (stk : List Str) (p : Nat) (l : Str) (b h k : Bool) (xs : List Item) :
    attrS stk (.inr (mkLang p l b h k) :: xs) = attrS (stepStack stk l b h) xs := rfl

/-- **a character of `attrS` on the items of a document belongs to `langAt` of its position** -/
theorem attrS_segItems (T : PTables) : ∀ (segs : List Seg) (stk : List Str) (p : Nat), stk ≠ [] →
    ∀ x ∈ attrS stk (segItems T p segs), x.1 = langAt T stk p segs x.2.2 ∧ p ≤ x.2.2
  | [], _, _, _ => by intro x h; cases h
  | .txt s :: rest, stk, p, hne => by
    intro x hx
    simp only [segItems, attrS_ch] at hx
    rcases List.mem_append.mp hx with hx | hx
    · obtain ⟨cp, hcp, rfl⟩ := List.mem_map.mp hx
      have := posText_mem s p cp hcp
      simp only [langAt, Seg.len, this.2, if_true, langIn]
      exact ⟨trivial, this.1⟩
    · have := attrS_segItems T rest stk _ hne x hx
      have hn : ¬ (x.2.2 < p + s.length) := by omega
      simp only [langAt, Seg.len, hn, if_false, stepStk]
      exact ⟨this.1, by omega⟩
  | .sel n :: rest, stk, p, hne => by
    intro x hx
    simp only [segItems, selTok, attrS_lang] at hx
    have hst : stepStack stk (codeOfName T n) false true = stepStk T stk (.sel n) := rfl
    rw [hst] at hx
    have := attrS_segItems T rest _ _ (stepStk_ne T stk _ hne) x hx
    have hn : ¬ (x.2.2 < p + (n.length + 17)) := by omega
    simp only [langAt, Seg.len, hn, if_false]
    exact ⟨this.1, by omega⟩
  | .frn n b :: rest, stk, p, hne => by
    intro x hx
    simp only [segItems, openTok, backTok, attrS_lang, attrS_ch] at hx
    have hback : stepStack (stepStack stk (codeOfName T n) false false) [] true false = stk := by
      have : 1 < stk.length + 1 := by
        have := List.length_pos_iff.mpr hne; omega
      simp [stepStack, this]
    rw [hback] at hx
    rcases List.mem_append.mp hx with hx | hx
    · obtain ⟨cp, hcp, rfl⟩ := List.mem_map.mp hx
      have := posText_mem b _ cp hcp
      have h1 : cp.2 < p + frnLen n b := by simp only [frnLen, bodyOff] at this ⊢; omega
      simp only [langAt, Seg.len, h1, if_true, langIn, this.1, this.2, and_self]
      refine ⟨?_, by omega⟩
      simp [stepStack, stackTop]
    · have := attrS_segItems T rest stk _ hne x hx
      have hn : ¬ (x.2.2 < p + frnLen n b) := by omega
      simp only [langAt, Seg.len, hn, if_false, stepStk]
      exact ⟨this.1, by omega⟩
  | .beg star n :: rest, stk, p, hne => by
    intro x hx
    simp only [segItems, obegTok, attrS_lang] at hx
    have hst : stepStack stk (codeOfName T n) false false = stepStk T stk (.beg star n) := rfl
    rw [hst] at hx
    have := attrS_segItems T rest _ _ (stepStk_ne T stk _ hne) x hx
    have hn : ¬ (x.2.2 < p + begLen star n) := by omega
    simp only [langAt, Seg.len, hn, if_false]
    exact ⟨this.1, by omega⟩
  | .fin star sp :: rest, stk, p, hne => by
    intro x hx
    simp only [segItems, backTok, attrS_lang] at hx
    have hst : stepStack stk [] true false = stepStk T stk (.fin star sp) := rfl
    rw [hst] at hx
    have hrest : ∀ x ∈ attrS (stepStk T stk (.fin star sp)) (segItems T (p + finLen star sp) rest),
        x.1 = langAt T stk p (.fin star sp :: rest) x.2.2 ∧ p ≤ x.2.2 := by
      intro x hx
      have := attrS_segItems T rest _ _ (stepStk_ne T stk _ hne) x hx
      have hn : ¬ (x.2.2 < p + finLen star sp) := by omega
      simp only [langAt, Seg.len, hn, if_false]
      exact ⟨this.1, by omega⟩
    split at hx
    · exact hrest x (by simpa using hx)
    · rw [attrS_ch] at hx
      rcases List.mem_append.mp hx with hx | hx
      · obtain ⟨cp, hcp, rfl⟩ := List.mem_map.mp hx
        have := posText_mem sp _ cp hcp
        have h1 : cp.2 < p + finLen star sp := by simp only [finLen]; omega
        simp only [langAt, Seg.len, h1, if_true, langIn, stepStk]
        exact ⟨trivial, by omega⟩
      · exact hrest x hx

/-! ### the sections of the document -/

theorem refItems_sublist (T : PTables) (segs : List Seg) :
    List.Sublist (refItems T segs) (segItems T 0 segs) := by
  rw [← segMarks_items]
  exact LinesLang.delLines_sublist _

theorem refItems_langs (T : PTables) (segs : List Seg) :
    (refItems T segs).filter isLg = (segItems T 0 segs).filter isLg := by
  rw [← segMarks_items]
  exact LinesLang.delLines_langs _

/-- the characters of the sections, in order: the surviving text characters, a sublist of the text
    characters -/
theorem refSecs_chars (T : PTables) (main : Str) (segs : List Seg) :
    (refSecs T main segs).flatMap secChars = itemChars (refItems T segs) ∧
    List.Sublist (itemChars (refItems T segs)) (textChars 0 segs) := by
  refine ⟨by simp [refSecs, secsOf, secsItems_chars], ?_⟩
  rw [← segItems_chars T segs 0]
  exact (refItems_sublist T segs).filterMap _

/-- a visible text character survives the blank-line removal -/
theorem refItems_visible (T : PTables) (segs : List Seg) (c : Char) (p : Nat)
    (h : (c, p) ∈ textChars 0 segs) (hv : isSpace c = false) : (c, p) ∈ itemChars (refItems T segs) := by
  have hm : some (Sum.inl (c, p)) ∈ segMarks T 0 segs := by
    rw [← segItems_chars T segs 0] at h
    simp only [itemChars, List.mem_filterMap] at h
    obtain ⟨i, hi, hg⟩ := h
    cases i with
    | inr t => simp at hg
    | inl cp =>
      simp only [Sum.getLeft?_inl, Option.some.injEq] at hg
      subst hg
      rw [← segMarks_items] at hi
      simp only [List.mem_filterMap] at hi
      obtain ⟨m, hm, hid⟩ := hi
      simp only [id] at hid
      rw [← hid]; exact hm
  have := LinesLang.delLines_visible (segMarks T 0 segs) (c, p) hm hv
  simp only [itemChars, List.mem_filterMap]
  exact ⟨_, this, rfl⟩

/-- **the language of a section**: a character of a section is a text character of the source at its
    own position `p`, and the language of the section is `langAt` at `p` -/
theorem refSecs_lang (T : PTables) (main : Str) (segs : List Seg) :
    ∀ s ∈ refSecs T main segs, ∀ cp ∈ secChars s,
      cp ∈ textChars 0 segs ∧ s.lang = langAt T [main] 0 segs cp.2 := by
  intro s hs cp hcp
  rcases secsItems_attr (refItems T segs) [main] false false [] s hs cp hcp with ⟨_, h⟩ | h
  · cases h
  · have hsub := (attrS_sublist (refItems_sublist T segs) (refItems_langs T segs) [main]).subset h
    have ha := attrS_segItems T segs [main] 0 (by simp) _ hsub
    have hc := attrS_mem_chars _ _ _ hsub
    rw [segItems_chars] at hc
    exact ⟨hc, ha.1⟩

/-! ### the plan mentions only sections of the input -/

def compSec : Comp → Sec
  | .own s => s
  | .ph s => s

theorem joinPlan_comp_mem (thresh : Nat) : ∀ (n : Nat) (rest : List Sec), rest.length ≤ n → ∀ (lang : Str),
    ∀ g ∈ joinPlan thresh lang rest, (∀ c ∈ g.comps, compSec c ∈ rest) ∧ ∀ s ∈ g.incls, s ∈ rest := by
  intro n
  induction n with
  | zero =>
    intro rest hn lang g hg
    have : rest = [] := by cases rest <;> simp_all
    subst this
    simp only [joinPlan, List.mem_singleton] at hg
    subst hg
    simp
  | succ n ih =>
    intro rest hn lang g hg
    cases rest with
    | nil =>
      simp only [joinPlan, List.mem_singleton] at hg
      subst hg
      simp
    | cons s1 rest2 =>
      simp only [List.length_cons] at hn
      rw [joinPlan_cons] at hg
      split at hg
      · cases rest2 with
        | nil =>
          simp only [List.mem_singleton] at hg
          subst hg
          simp [compSec]
        | cons s2 rest3 =>
          simp only [List.length_cons] at hn
          simp only [] at hg
          rcases mem_consHead hg with ⟨g0, gs', hg0, rfl⟩ | hg
          · obtain ⟨i1, i2⟩ := ih rest3 (by omega) lang g0 (by rw [hg0]; exact List.mem_cons_self ..)
            refine ⟨?_, ?_⟩
            · intro c hc
              simp only [List.mem_append, List.mem_cons, List.not_mem_nil, or_false] at hc
              rcases hc with (rfl | rfl) | hc
              · simp [compSec]
              · simp [compSec]
              · exact List.mem_cons_of_mem _ (List.mem_cons_of_mem _ (i1 c hc))
            · intro s hs
              simp only [List.mem_append, List.mem_singleton] at hs
              rcases hs with rfl | hs
              · simp
              · exact List.mem_cons_of_mem _ (List.mem_cons_of_mem _ (i2 s hs))
          · obtain ⟨i1, i2⟩ := ih rest3 (by omega) lang g (List.mem_of_mem_tail hg)
            exact ⟨fun c hc => List.mem_cons_of_mem _ (List.mem_cons_of_mem _ (i1 c hc)),
              fun s hs => List.mem_cons_of_mem _ (List.mem_cons_of_mem _ (i2 s hs))⟩
      · simp only [List.mem_cons] at hg
        rcases hg with rfl | hg
        · simp
        · rcases mem_consHead hg with ⟨g0, gs', hg0, rfl⟩ | hg
          · obtain ⟨i1, i2⟩ := ih rest2 (by omega) s1.lang g0 (by rw [hg0]; exact List.mem_cons_self ..)
            refine ⟨?_, ?_⟩
            · intro c hc
              simp only [List.mem_append, List.mem_singleton] at hc
              rcases hc with rfl | hc
              · simp [compSec]
              · exact List.mem_cons_of_mem _ (i1 c hc)
            · intro s hs
              simp only [List.nil_append] at hs
              exact List.mem_cons_of_mem _ (i2 s hs)
          · obtain ⟨i1, i2⟩ := ih rest2 (by omega) s1.lang g (List.mem_of_mem_tail hg)
            exact ⟨fun c hc => List.mem_cons_of_mem _ (i1 c hc), fun s hs => List.mem_cons_of_mem _ (i2 s hs)⟩

theorem planOf_comp_mem (thresh : Nat) (secs : List Sec) :
    ∀ g ∈ planOf thresh secs, ∀ c ∈ g.comps, compSec c ∈ secs := by
  intro g hg c hc
  cases secs with
  | nil => simp [planOf] at hg
  | cons s0 rest =>
    simp only [planOf] at hg
    rcases mem_consHead hg with ⟨g0, gs', hg0, rfl⟩ | hg
    · simp only [List.mem_append, List.mem_singleton] at hc
      rcases hc with rfl | hc
      · simp [compSec]
      · exact List.mem_cons_of_mem _ ((joinPlan_comp_mem thresh rest.length rest (Nat.le_refl _) s0.lang g0
          (by rw [hg0]; exact List.mem_cons_self ..)).1 c hc)
    · exact List.mem_cons_of_mem _ ((joinPlan_comp_mem thresh rest.length rest (Nat.le_refl _) s0.lang g
        (List.mem_of_mem_tail hg)).1 c hc)

theorem refPlan_wf (T : PTables) (main : Str) (thresh : Nat) (segs : List Seg) :
    ∀ g ∈ refPlan T main thresh segs, GroupWf g := by
  intro g hg c hc
  have hm := planOf_comp_mem thresh _ g hg c hc
  have hw := secsItems_wf _ _ _ _ _ _ hm
  cases c <;> exact hw

/-! ### every word under the language in force, with its own position -/

theorem tpChars_shiftTp (tp : Str × List Nat) :
    PlainForeign.tpChars (shiftTp tp) = (PlainForeign.tpChars tp).map (fun cp => (cp.1, cp.2 + 1)) := by
  simp only [PlainForeign.tpChars, shiftTp]
  rw [List.zip_map_right]
  rfl

/-- **every visible text character is filed under the language in force at its position**: under the
    key `langAt T [main] 0 segs p` there is a piece of text that holds the character `c` of source
    position `p` (0-based) with the position `p + 1` -/
theorem refParts_word_language (T : PTables) (main : Str) (thresh : Nat) (lc : LangChange)
    (segs : List Seg) (c : Char) (p : Nat) (h : (c, p) ∈ textChars 0 segs) (hv : isSpace c = false) :
    ∃ tp ∈ partOf (refParts T main thresh lc segs) (langAt T [main] 0 segs p),
      (c, p + 1) ∈ PlainForeign.tpChars tp := by
  -- the section that holds the character
  have hi := refItems_visible T segs c p h hv
  rw [← (refSecs_chars T main segs).1] at hi
  obtain ⟨s, hs, hcs⟩ := List.mem_flatMap.mp hi
  have hl := (refSecs_lang T main segs s hs (c, p) hcs).2
  -- its place in the plan
  have hperm := planOf_perm thresh (refSecs T main segs)
  have hsp : s ∈ planSecs (refPlan T main thresh segs) := (hperm.mem_iff).mpr hs
  simp only [planSecs, List.mem_flatMap, groupOwn, List.mem_append] at hsp
  obtain ⟨g, hg, hsg⟩ := hsp
  have hwf := refPlan_wf T main thresh segs
  obtain ⟨j1, j2⟩ := renderFrom_own (refPlan T main thresh segs) ⟨[], [], lc⟩ rfl hwf g hg
  obtain ⟨sec, hsec, hlang, hch⟩ : ∃ sec ∈ renderGroups lc (refPlan T main thresh segs),
      sec.lang = s.lang ∧ ∀ cp ∈ secChars s, cp ∈ secChars sec := by
    rcases hsg with ⟨cmp, hcmp, hown⟩ | hin
    · cases cmp with
      | ph x => simp [compOwn] at hown
      | own x =>
        simp only [compOwn, List.mem_singleton] at hown
        subst hown
        obtain ⟨sec, h1, h2, h3⟩ := j2 s hcmp
        exact ⟨sec, h1, by rw [h2, planOf_own_lang thresh _ g hg s hcmp], h3⟩
    · exact ⟨s, j1 s hin, rfl, fun cp h => h⟩
  refine ⟨shiftTp (sec.txt, sec.pos), ?_, ?_⟩
  · unfold refParts
    rw [partOf_shiftParts, partOf_groupSecs]
    refine List.mem_map.mpr ⟨(sec.txt, sec.pos), ?_, rfl⟩
    refine List.mem_map.mpr ⟨sec, ?_, rfl⟩
    exact List.mem_filter.mpr ⟨hsec, by rw [hlang, hl]; simp⟩
  · rw [tpChars_shiftTp]
    exact List.mem_map.mpr ⟨(c, p), hch _ hcs, rfl⟩

/-! ### every surviving character exactly once -/

/-- **the verbatim components of all pieces together hold every surviving text character exactly
    once.**  The sections that the plan holds verbatim (`planSecs`: the `own` components of the pieces
    and the inclusions, which are pieces of their own) spell — up to the order of the pieces — the
    text characters that survive the blank-line removal; no source position occurs twice among them;
    they are text characters of the source (a sublist: only white space is deleted, see
    `refItems_visible`).  Everything else in a piece is a placeholder (`Comp.ph`). -/
theorem refPlan_once (T : PTables) (main : Str) (thresh : Nat) (segs : List Seg) :
    List.Perm ((planSecs (refPlan T main thresh segs)).flatMap secChars) (itemChars (refItems T segs)) ∧
    ((itemChars (refItems T segs)).map (·.2)).Nodup ∧
    List.Sublist (itemChars (refItems T segs)) (textChars 0 segs) := by
  obtain ⟨h1, h2⟩ := refSecs_chars T main segs
  refine ⟨?_, ?_, h2⟩
  · rw [← h1]
    exact (planOf_perm thresh (refSecs T main segs)).flatMap_right _
  · have hpw := (textChars_pairwise segs 0).sublist h2
    rw [List.Nodup, List.pairwise_map]
    refine hpw.imp ?_
    intro a b hab
    omega

/-! ### nesting -/

/-- the segments between `\begin{otherlanguage}` and the matching `\end{otherlanguage}`: `d` = the number
    of environments that are open inside -/
def balanced : Nat → List Seg → Bool
  | d, [] => d == 0
  | d, .beg _ _ :: rest => balanced (d + 1) rest
  | d, .fin _ _ :: rest => decide (0 < d) && balanced (d - 1) rest
  | d, _ :: rest => balanced d rest

theorem stkAfter_balanced (T : PTables) (base : List Str) (hb : base ≠ []) :
    ∀ (body : List Seg) (d : Nat) (pre : List Str), pre.length = d + 1 → balanced d body = true →
      ∃ y, stkAfter T (pre ++ base) body = y :: base
  | [], d, pre, hl, h => by
    have hd : d = 0 := by simpa [balanced] using h
    subst hd
    obtain ⟨y, rfl⟩ : ∃ y, pre = [y] := by
      cases pre with
      | nil => simp at hl
      | cons y t => cases t with
        | nil => exact ⟨y, rfl⟩
        | cons z t => simp at hl
    exact ⟨y, rfl⟩
  | .txt s :: rest, d, pre, hl, h => stkAfter_balanced T base hb rest d pre hl h
  | .frn n b :: rest, d, pre, hl, h => stkAfter_balanced T base hb rest d pre hl h
  | .sel n :: rest, d, pre, hl, h => by
    obtain ⟨x, t, rfl⟩ : ∃ x t, pre = x :: t := by
      cases pre with
      | nil => simp at hl
      | cons x t => exact ⟨x, t, rfl⟩
    have := stkAfter_balanced T base hb rest d (codeOfName T n :: t) (by simpa using hl) h
    simpa [stkAfter, stepStk] using this
  | .beg star n :: rest, d, pre, hl, h => by
    have := stkAfter_balanced T base hb rest (d + 1) (codeOfName T n :: pre) (by simp [hl]) h
    simpa [stkAfter, stepStk] using this
  | .fin star sp :: rest, d, pre, hl, h => by
    simp only [balanced, Bool.and_eq_true, decide_eq_true_eq] at h
    obtain ⟨x, t, rfl⟩ : ∃ x t, pre = x :: t := by
      cases pre with
      | nil => simp at hl
      | cons x t => exact ⟨x, t, rfl⟩
    have hlen : ((x :: t) ++ base).length > 1 := by
      have := List.length_pos_iff.mpr hb
      simp; omega
    have := stkAfter_balanced T base hb rest (d - 1) t (by simp at hl; omega) h.2
    have e : stepStk T (x :: t ++ base) (.fin star sp) = t ++ base := by
      simp only [stepStk, if_pos hlen]; rfl
    simp only [stkAfter, e]
    exact this

theorem stkAfter_append (T : PTables) : ∀ (a b : List Seg) (stk : List Str),
    stkAfter T stk (a ++ b) = stkAfter T (stkAfter T stk a) b
  | [], _, _ => rfl
  | _ :: a, b, _ => stkAfter_append T a b _

/-- **nesting, the stack**: behind a closed environment the language stack is the one in front of it
    — whatever happened inside (`body` balanced: every `\begin{otherlanguage}` in it is closed in
    it), including a `\selectlanguage` inside the environment: it replaced the top that the
    environment had pushed, and that entry is popped by `\end{otherlanguage}` -/
theorem stkAfter_env (T : PTables) (stk : List Str) (hstk : stk ≠ []) (star star' : Bool) (name : Str)
    (body : List Seg) (sp : Str) (hb : balanced 0 body = true) :
    stkAfter T stk (.beg star name :: (body ++ [.fin star' sp])) = stk := by
  obtain ⟨y, hy⟩ := stkAfter_balanced T stk hstk body 0 [codeOfName T name] rfl hb
  simp only [stkAfter, stepStk, stkAfter_append]
  simp only [List.singleton_append] at hy
  rw [hy]
  have : (y :: stk).length > 1 := by
    have := List.length_pos_iff.mpr hstk
    simp; omega
  simp only [if_pos this, List.tail_cons]

/-- total length of the rendering -/
def lenSegs : List Seg → Nat
  | [] => 0
  | sg :: rest => sg.len + lenSegs rest

theorem langAt_append (T : PTables) : ∀ (a b : List Seg) (stk : List Str) (p q : Nat),
    p + lenSegs a ≤ q → langAt T stk p (a ++ b) q = langAt T (stkAfter T stk a) (p + lenSegs a) b q
  | [], _, _, _, _, _ => by simp [lenSegs, stkAfter]
  | sg :: a, b, stk, p, q, h => by
    simp only [lenSegs] at h
    have hn : ¬ (q < p + sg.len) := by omega
    simp only [List.cons_append, langAt, hn, if_false, stkAfter, lenSegs]
    rw [langAt_append T a b _ _ q (by omega), Nat.add_assoc]

/-- **nesting, the language in force**: at every position behind a closed environment the language
    in force is computed from the stack IN FRONT of the environment -/
theorem langAt_env (T : PTables) (stk : List Str) (hstk : stk ≠ []) (star star' : Bool) (name : Str)
    (body : List Seg) (sp : Str) (hb : balanced 0 body = true) (rest : List Seg) (p q : Nat)
    (hq : p + lenSegs (.beg star name :: (body ++ [.fin star' sp])) ≤ q) :
    langAt T stk p (.beg star name :: (body ++ [.fin star' sp]) ++ rest) q
      = langAt T stk (p + lenSegs (.beg star name :: (body ++ [.fin star' sp]))) rest q := by
  rw [langAt_append T _ rest stk p q hq, stkAfter_env T stk hstk star star' name body sp hb]

/-- `textChars` are characters of the source -/
theorem textChars_render : ∀ (segs : List Seg) (p0 : Nat) (cp : Char × Nat), cp ∈ textChars p0 segs →
    p0 ≤ cp.2 ∧ (render segs)[cp.2 - p0]? = some cp.1
  | [], _, _, h => by cases h
  | sg :: rest, p0, cp, h => by
    have hr : render (sg :: rest) = sg.render ++ render rest := rfl
    have hl := sg.render_length
    have tailCase : cp ∈ textChars (p0 + sg.len) rest →
        p0 ≤ cp.2 ∧ (render (sg :: rest))[cp.2 - p0]? = some cp.1 := by
      intro h
      have ih := textChars_render rest (p0 + sg.len) cp h
      refine ⟨by omega, ?_⟩
      rw [hr, List.getElem?_append_right (by omega), hl]
      rw [show cp.2 - p0 - sg.len = cp.2 - (p0 + sg.len) by omega]
      exact ih.2
    have inCase : ∀ (pre s post : Str), sg.render = pre ++ s ++ post → cp ∈ posText (p0 + pre.length) s →
        p0 ≤ cp.2 ∧ (render (sg :: rest))[cp.2 - p0]? = some cp.1 := by
      intro pre s post he hm
      have hb := posText_mem s _ cp hm
      have hg := PlainLang.posText_getElem s _ cp hm
      refine ⟨by omega, ?_⟩
      rw [hr, he, List.append_assoc, List.append_assoc, List.getElem?_append_right (by omega),
        List.getElem?_append_left (by omega)]
      rw [show cp.2 - p0 - pre.length = cp.2 - (p0 + pre.length) by omega]
      exact hg
    cases sg with
    | txt s =>
      simp only [textChars] at h
      rcases List.mem_append.mp h with h | h
      · exact inCase [] s [] (by simp [Seg.render]) (by simpa using h)
      · exact tailCase h
    | sel n => exact tailCase h
    | beg star n => exact tailCase h
    | frn n b =>
      simp only [textChars] at h
      rcases List.mem_append.mp h with h | h
      · refine inCase ('\\' :: (PlainForeign.frnName ++ '{' :: (n ++ ['}', '{']))) b ['}'] ?_ ?_
        · simp [Seg.render]
        · have : ('\\' :: (PlainForeign.frnName ++ '{' :: (n ++ ['}', '{']))).length = bodyOff n := by
            simp only [List.length_cons, List.length_append, PlainForeign.frnName_length, bodyOff,
              List.length_nil]
            omega
          rw [this]; exact h
      · exact tailCase h
    | fin star sp =>
      simp only [textChars] at h
      rcases List.mem_append.mp h with h | h
      · split at h
        · cases h
        · refine inCase ('\\' :: (PlainItem.nEnd ++ '{' :: (envName star ++ ['}']))) sp [] ?_ ?_
          · simp [Seg.render]
          · have : ('\\' :: (PlainItem.nEnd ++ '{' :: (envName star ++ ['}']))).length
                = (envName star).length + 6 := by
              simp only [List.length_cons, List.length_append, nEnd_length, List.length_nil]
              omega
            rw [this]; exact h
      · exact tailCase h

end PlainLangMix
end Yalafi
