/-
  Proofs/PlainUnkn2.lean — C19 "the unknowns list", expander level, for token buffers that mix
  plain tokens, undeclared control words, `\begin{name}` / `\end{name}` of undeclared environments,
  calls of declared (vanishing) macros, inline formulas whose body may contain undeclared control
  words and special tokens, and comments.  (The source level — documents, side conditions,
  scanner, `parserWork`, `parse`, `tex2txt` — is Proofs/PlainUnkn2Src.lean; the statements are in
  Properties/PlainUnkn2Stmt.lean.)

  What the model does (found with `#eval`, then proved)
    * `\name`, undeclared, in text: `expand_macro` records `\name` (with backslash) in `unknowns`
      unless it is there already, leaves an Action token and skips the white space AND the comments
      behind the name (`skip_space(stop_lang, stop_action)`; Proofs/PlainUnknown.lean);
    * `\begin{name}`, `name` undeclared: `begin_environment` reads the name (`arg_buffer`, then a
      nested `expand_sequence` on the name tokens), records `name` — WITHOUT backslash — and leaves an
      Action token; the body is expanded as ordinary text; `\end{name}` leaves an Action token and
      records nothing;
    * `\name{key}`, declared as a vanishing macro (`\label`, …; Proofs/PlainVanish.lean): nothing is
      recorded;
    * `$ … \alpha … $`: the section parser of `mathparser.py` calls `expand_macro(…, math=True)` for
      the control word: `add_unknown(name, math)` does nothing in maths mode; the control word
      becomes one maths token (operator or element) followed by an Action token that `skip_space`
      drops; special tokens (`^`, `_`, `&`, …) become maths tokens with the text of their table
      entry, those of `math_ignore` (`{`, `}`) vanish; the formula is replaced by the next
      placeholder of the rotating collection — the only change of state;
    * `% …`: the comment token is dropped by `expand_sequence`; nothing inside is looked at.

  Contents
    `seq_ubeg_step`, `seq_uend_step`      `\begin{name}` / `\end{name}` of an undeclared environment
    `McwTok`, `SpecTok`, `IgnTok`, `MItem`, `mcost`, `mout`, `mvis`
                                          the tokens of a formula body and what becomes of them
    `mathSection_cw_step`, `mathSection_spec_step`, `mathSection_ign_step`, `mathSection_mbody`
                                          the section parser (state unchanged)
    `inlineMath_cw`, `seq_math_step`      `expandInlineMath`: succeeds, rotates the collection once
    `Piece`, `flat`, `PiecesOk`, `names`, `cost`, `Ready`, `Same`, `dropSp`, `skip_flat`
                                          token buffers as lists of pieces
    `seq_u2`                              the loop `expandSequence` (envStop = none): it succeeds,
                                          `unknowns := (names ps).foldl addU unknowns`, besides that
                                          only the rotation records change.  The output tokens are
                                          left existential (no reference for the text).
  Fuel (`cost`): 1 per copied token / comment, 2 per control word, 4 per call of a vanishing macro,
  `#name tokens + 5` per `\begin` / `\end` (two iterations, the rest for the nested calls that read
  the name), `mcost + 2` per formula (`mcost`: 2 per control word, 1 per other token, 0 for white
  space); everything is bounded by the number of source characters.
-/
import YalafiVerif.Proofs.PlainUnknown
import YalafiVerif.Proofs.PlainVanish
import YalafiVerif.Proofs.PlainItem
import YalafiVerif.Proofs.PlainMath
import YalafiVerif.Proofs.PlainComment
namespace Yalafi
namespace PlainUnkn2

open M
open PlainMacro (lbr rbr NoBrace bodyTxt)
open PlainItem (begTok endTok NameToks getEnvironmentName_braced)
open PlainVanish (VanName seq_van_step replOf)
open PlainMath (DollarTok BodyTok mathTokOf)

/-! ### `\begin{name}` / `\end{name}` of an undeclared environment -/

theorem beginEnvironment_unknown (T : PTables) (fuel : Nat) (p q : Nat) (nt : List Tok) (rest : Buf)
    (tok : Tok) (st : PState) (h : NameToks T st nt) (hf : nt.length + 1 ≤ fuel)
    (hl : lookupEnv st (bodyTxt nt) = none) :
    beginEnvironment T (fuel + 3) (lbr p :: (nt ++ rbr q :: rest)) tok false st
      = .ok (([mkAction tok.pos], rest), { st with unknowns := addU st.unknowns (bodyTxt nt) }) := by
  rw [beginEnvironment.eq_2]
  refine (M.bind_ok _ _ _ _ _ (getEnvironmentName_braced T fuel p q nt rest tok st h hf)).trans ?_
  refine (M.bind_ok _ _ _ _ _ (rfl : M.get st = _)).trans ?_
  simp only [hl]
  show M.bind' (addUnknown (bodyTxt nt) false) _ st = _
  simp only [M.bind', addUnknown, M.modify, Bool.false_or, addU]
  split <;> rfl

theorem endEnvironment_unknown (T : PTables) (fuel : Nat) (p q : Nat) (nt : List Tok) (rest : Buf)
    (tok : Tok) (st : PState) (h : NameToks T st nt) (hf : nt.length + 1 ≤ fuel)
    (hl : lookupEnv st (bodyTxt nt) = none) :
    endEnvironment T (fuel + 3) (lbr p :: (nt ++ rbr q :: rest)) tok none st
      = .ok ((([mkAction tok.pos], false), rest), st) := by
  rw [endEnvironment.eq_2]
  refine (M.bind_ok _ _ _ _ _ (getEnvironmentName_braced T fuel p q nt rest tok st h hf)).trans ?_
  refine (M.bind_ok _ _ _ _ _ (rfl : M.get st = _)).trans ?_
  simp only [hl]
  rfl

/-- **`\begin{name}`, `name` undeclared, in the loop**: two iterations; the name (without
    backslash) is recorded; an Action token is left -/
theorem seq_ubeg_step (T : PTables) (fuel : Nat) (p q1 q2 : Nat) (nt : List Tok) (rest : Buf)
    (envStop : Option Str) (out : List Tok) (st : PState)
    (h : NameToks T st nt) (hf : nt.length + 3 ≤ fuel)
    (hl : lookupEnv st (bodyTxt nt) = none) (ha : noEmptyActive T st = true) :
    expandSequence T (fuel + 2) (begTok p :: lbr q1 :: (nt ++ rbr q2 :: rest)) envStop out st
      = expandSequence T fuel rest envStop (out ++ [mkAction p])
          { st with unknowns := addU st.unknowns (bodyTxt nt) } := by
  obtain ⟨f, rfl⟩ : ∃ f, fuel = f + 2 := ⟨fuel - 2, by omega⟩
  rw [expandSequence.eq_3]
  show M.bind' M.get _ st = _
  simp only [M.bind', M.get]
  have hk : (begTok p).kind = .xbegin := rfl
  simp only [hk, beq_self_eq_true, if_true]
  refine (M.bind_ok _ _ _ _ _ (beginEnvironment_unknown T f q1 q2 nt rest (begTok p) st h
    (by omega) hl)).trans ?_
  have ha' : noEmptyActive T { st with unknowns := addU st.unknowns (bodyTxt nt) } = true :=
    (noEmptyActive_congr T st _ rfl).trans ha
  show expandSequence T (f + 2 + 1) (mkAction p :: rest) envStop out _ = _
  exact seq_action_step T (f + 2) p rest envStop out _ ha'

/-- **`\end{name}`, `name` undeclared, in the loop**: two iterations; nothing is recorded -/
theorem seq_uend_step (T : PTables) (fuel : Nat) (p q1 q2 : Nat) (nt : List Tok) (rest : Buf)
    (out : List Tok) (st : PState)
    (h : NameToks T st nt) (hf : nt.length + 3 ≤ fuel)
    (hl : lookupEnv st (bodyTxt nt) = none) (ha : noEmptyActive T st = true) :
    expandSequence T (fuel + 2) (endTok p :: lbr q1 :: (nt ++ rbr q2 :: rest)) none out st
      = expandSequence T fuel rest none (out ++ [mkAction p]) st := by
  obtain ⟨f, rfl⟩ : ∃ f, fuel = f + 2 := ⟨fuel - 2, by omega⟩
  rw [expandSequence.eq_3]
  show M.bind' M.get _ st = _
  simp only [M.bind', M.get]
  have hk : (endTok p).kind = .xend := rfl
  simp only [hk, beq_self_eq_true, if_true, reduceCtorEq, beq_iff_eq, if_false]
  refine (M.bind_ok _ _ _ _ _ (endEnvironment_unknown T f q1 q2 nt rest (endTok p) st h
    (by omega) hl)).trans ?_
  simp only [Bool.false_eq_true, if_false]
  show expandSequence T (f + 2 + 1) (mkAction p :: rest) none out _ = _
  exact seq_action_step T (f + 2) p rest none out _ ha

/-! ### the maths section of a formula with control words -/

/-- an undeclared control word inside a formula: a macro token that neither ends the formula nor
    is a `\text`-like macro, is not declared, and is neither maths space nor ignored -/
structure McwTok (T : PTables) (st : PState) (t : Tok) : Prop where
  kind : t.kind = .xmacro
  nStop : ["$".toList, "\\)".toList].contains t.txt = false
  nText : st.mathTextMacros.contains t.txt = false
  undecl : lookupMacro st t.txt = none
  nSpace : T.mathSpace.contains t.txt = false
  nIgnore : T.mathIgnore.contains t.txt = false

/-- a special token inside a formula (`^`, `_`, `&`, `--`, …) that the maths parser turns into a
    maths token: it does not end the formula, is neither ignored nor maths space, and has an
    entry in `special_tokens` (Python: `KeyError` otherwise) -/
structure SpecTok (T : PTables) (t : Tok) : Prop where
  kind : t.kind = .special
  nStop : ["$".toList, "\\)".toList].contains t.txt = false
  nIgnore : T.mathIgnore.contains t.txt = false
  nSpace : T.mathSpace.contains t.txt = false
  val : ∃ v, T.toTables.specialVal t.txt = some v

/-- a special token the maths parser ignores (`math_ignore`: `{`, `}`, …) -/
structure IgnTok (T : PTables) (t : Tok) : Prop where
  kind : t.kind = .special
  nStop : ["$".toList, "\\)".toList].contains t.txt = false
  ignore : T.mathIgnore.contains t.txt = true

/-- a token of a formula body: a character token (`BodyTok` of Proofs/PlainMath.lean), white
    space, an undeclared control word, a special token that becomes a maths token, or an ignored
    special token -/
def MItem (T : PTables) (st : PState) (t : Tok) : Prop :=
  BodyTok T t ∨ t.kind = .space ∨ McwTok T st t ∨ SpecTok T t ∨ IgnTok T t

/-- iterations of the section parser: two for a control word (the second one for the element
    token pushed back), none for white space, one for a character -/
def mcost : List Tok → Nat
  | [] => 0
  | t :: ts => (if t.kind == .xmacro then 2 else if t.kind == .space then 0 else 1) + mcost ts

theorem expandMacro_unknown_math (T : PTables) (fuel : Nat) (rest : Buf) (tok : Tok) (st : PState)
    (h : lookupMacro st tok.txt = none) :
    expandMacro T (fuel + 1) rest tok true st
      = .ok (([mkAction tok.pos], skipSpaceStopLangAct rest), st) := by
  rw [expandMacro.eq_2]
  show M.bind' M.get _ st = _
  simp only [M.bind', M.get, h]
  show M.bind' (addUnknown tok.txt true) _ st = _
  simp only [M.bind', addUnknown, M.modify, Bool.true_or, if_true]
  rfl

/-- the section parser starts with `skip_space` -/
theorem mathSection_skip (T : PTables) (fuel : Nat) (b b' : Buf) (start : Nat) (stop : List Str)
    (envStop : Option Str) (out : List Tok) (h : skipSpace b = skipSpace b') :
    expandMathSection T fuel b start stop envStop out
      = expandMathSection T fuel b' start stop envStop out := by
  cases fuel with
  | zero => rw [expandMathSection.eq_1, expandMathSection.eq_1]
  | succ f => rw [expandMathSection.eq_2, expandMathSection.eq_2, h]

theorem skipSpace_action_skipAct (p : Nat) (rest : Buf) :
    skipSpace (mkAction p :: skipSpaceStopLangAct rest) = skipSpace rest := by
  have h1 : isSpaceTok (mkAction p) = true := rfl
  simp only [skipSpace, List.dropWhile_cons, h1, if_true, skipSpaceStopLangAct]
  induction rest with
  | nil => rfl
  | cons t ts ih =>
    simp only [List.dropWhile_cons]
    by_cases hs : isSpaceTok t = true
    · simp only [hs, Bool.true_and, if_true]
      split
      · exact ih
      · simp [hs]
    · have hs' : isSpaceTok t = false := by simpa using hs
      simp [hs']

/-- a maths token in the buffer is copied to the output of the section -/
theorem mathSection_mathtok_step (T : PTables) (fuel : Nat) (t : Tok) (rest : Buf) (start : Nat)
    (out : List Tok) (st : PState) (hm : isMathTok t = true)
    (hstop : ["$".toList, "\\)".toList].contains t.txt = false) :
    expandMathSection T (fuel + 1) (t :: rest) start ["$".toList, "\\)".toList] none out st
      = expandMathSection T fuel rest start ["$".toList, "\\)".toList] none (out ++ [t]) st := by
  have hsk : skipSpace (t :: rest) = t :: rest := by
    unfold isMathTok at hm
    cases hk : t.kind <;> simp_all [skipSpace, isSpaceTok]
  rw [expandMathSection.eq_2, hsk]
  have hk : t.kind = .mathElem ∨ t.kind = .mathOper ∨ t.kind = .mathSpace := by
    unfold isMathTok at hm
    cases hk : t.kind <;> simp_all
  have hv : isVerb t = false := by rcases hk with hk | hk | hk <;> simp [isVerb, hk]
  rcases hk with hk | hk | hk <;>
  · simp only [hk, hv, hstop, reduceCtorEq, beq_iff_eq, Bool.false_eq_true, if_false]
    show M.bind' M.get _ st = _
    simp only [M.bind', M.get, hm, if_true]

/-- an undeclared control word in a formula: nothing is recorded (`math = true`); it becomes one
    maths token -/
theorem mathSection_cw_step (T : PTables) (fuel : Nat) (t : Tok) (rest : Buf) (start : Nat)
    (out : List Tok) (st : PState) (h : McwTok T st t) :
    expandMathSection T (fuel + 2) (t :: rest) start ["$".toList, "\\)".toList] none out st
      = expandMathSection T fuel rest start ["$".toList, "\\)".toList] none
          (out ++ [mathTokOf st t]) st := by
  obtain ⟨hk, hstop, hnt, hun, hsp, hig⟩ := h
  have hsk : skipSpace (t :: rest) = t :: rest := by
    simp [skipSpace, isSpaceTok, hk]
  have hv : isVerb t = false := by simp [isVerb, hk]
  rw [expandMathSection.eq_2, hsk]
  simp only [hk, hv, hstop, reduceCtorEq, beq_iff_eq, Bool.false_eq_true, if_false, if_true,
    beq_self_eq_true]
  show M.bind' M.get _ st = _
  simp only [M.bind', M.get, hnt, Bool.false_eq_true, if_false]
  refine (M.bind_ok _ _ _ _ _ (expandMacro_unknown_math T fuel rest t st hun)).trans ?_
  refine (M.bind_ok _ _ _ _ _ (rfl : M.get st = _)).trans ?_
  simp only [hsp, hun, hig, Bool.false_eq_true, if_false, Option.isSome_none, Bool.or_self,
    Bool.not_false, if_true]
  have hpre : (if st.mathOperators.contains t.txt = true then [mkTok Kind.mathOper t.pos t.txt]
      else [mkTok Kind.mathElem t.pos t.txt]) = [mathTokOf st t] := by
    unfold mathTokOf; split <;> rfl
  rw [hpre]
  have hst2 : ["$".toList, "\\)".toList].contains (mathTokOf st t).txt = false := by
    unfold mathTokOf mkTok; exact hstop
  show expandMathSection T (fuel + 1) (mathTokOf st t :: mkAction t.pos :: skipSpaceStopLangAct rest) _ _ _ _ st = _
  rw [mathSection_mathtok_step T fuel _ _ start out st (PlainMath.isMathTok_mathTokOf st t) hst2]
  exact congrFun (mathSection_skip T fuel _ _ start _ none _ (skipSpace_action_skipAct t.pos rest)) st

/-- a special token that is not ignored becomes one maths token with the text of its table entry -/
theorem mathSection_spec_step (T : PTables) (fuel : Nat) (t : Tok) (rest : Buf) (start : Nat)
    (out : List Tok) (st : PState) (h : SpecTok T t) :
    expandMathSection T (fuel + 1) (t :: rest) start ["$".toList, "\\)".toList] none out st
      = expandMathSection T fuel rest start ["$".toList, "\\)".toList] none
          (out ++ [mkTok (if st.mathOperators.contains t.txt then .mathOper else .mathElem) t.pos
            ((T.toTables.specialVal t.txt).getD [])]) st := by
  obtain ⟨hk, hstop, hi, hs, ⟨v, hv⟩⟩ := h
  have hsk : skipSpace (t :: rest) = t :: rest := by simp [skipSpace, isSpaceTok, hk]
  have hvb : isVerb t = false := by simp [isVerb, hk]
  rw [expandMathSection.eq_2, hsk]
  simp only [hk, hvb, hstop, hi, hs, reduceCtorEq, beq_iff_eq, Bool.false_eq_true, if_false]
  show M.bind' M.get _ st = _
  simp only [M.bind', M.get]
  have hm : isMathTok t = false := by simp [isMathTok, hk]
  have hl : isLang t = false := by simp [isLang, hk]
  have hsp : mathSpecialTxt T t = some v := by simp [mathSpecialTxt, hk, hv]
  simp only [hm, hl, hsp, hv, Bool.false_eq_true, if_false, Option.getD_some]
  split <;> rfl

/-- an ignored special token (`{`, `}`) leaves nothing -/
theorem mathSection_ign_step (T : PTables) (fuel : Nat) (t : Tok) (rest : Buf) (start : Nat)
    (out : List Tok) (st : PState) (h : IgnTok T t) :
    expandMathSection T (fuel + 1) (t :: rest) start ["$".toList, "\\)".toList] none out st
      = expandMathSection T fuel rest start ["$".toList, "\\)".toList] none out st := by
  obtain ⟨hk, hstop, hi⟩ := h
  have hsk : skipSpace (t :: rest) = t :: rest := by simp [skipSpace, isSpaceTok, hk]
  have hvb : isVerb t = false := by simp [isVerb, hk]
  rw [expandMathSection.eq_2, hsk]
  simp only [hk, hvb, hstop, reduceCtorEq, beq_iff_eq, Bool.false_eq_true, if_false]
  show M.bind' M.get _ st = _
  simp only [M.bind', M.get]
  have hm : isMathTok t = false := by simp [isMathTok, hk]
  simp only [hm, hi, Bool.false_eq_true, if_false, if_true]

/-- the maths tokens the section parser makes of a body token -/
def mout (T : PTables) (st : PState) (t : Tok) : List Tok :=
  if t.kind == .space then []
  else if t.kind == .special then
    (if T.mathIgnore.contains t.txt then []
     else [mkTok (if st.mathOperators.contains t.txt then .mathOper else .mathElem) t.pos
            ((T.toTables.specialVal t.txt).getD [])])
  else [mathTokOf st t]

/-- the body token leaves a maths token: it is neither white space nor ignored -/
def mvis (T : PTables) (t : Tok) : Bool :=
  !(t.kind == .space) && !(t.kind == .special && T.mathIgnore.contains t.txt)

theorem mout_math (T : PTables) (st : PState) (t : Tok) :
    ∀ x ∈ mout T st t, isMathTok x = true ∧ x.kind ≠ .mathSpace := by
  intro x hx
  unfold mout at hx
  split at hx
  · simp at hx
  · split at hx
    · split at hx
      · simp at hx
      · simp only [List.mem_singleton] at hx
        subst hx
        cases hc : st.mathOperators.contains t.txt <;> simp [mkTok, isMathTok]
    · simp only [List.mem_singleton] at hx
      subst hx
      exact ⟨PlainMath.isMathTok_mathTokOf st t, PlainMath.mathTokOf_notSpace st t⟩

theorem mout_ne_nil (T : PTables) (st : PState) : ∀ (body : List Tok), body.any (mvis T) = true →
    body.flatMap (mout T st) ≠ []
  | [], h => by simp at h
  | t :: ts, h => by
    simp only [List.any_cons, Bool.or_eq_true] at h
    rcases h with h | h
    · simp only [mvis, Bool.and_eq_true, Bool.not_eq_true'] at h
      simp only [List.flatMap_cons, mout, h.1, Bool.false_eq_true, if_false]
      by_cases hk : (t.kind == Kind.special) = true
      · have : T.mathIgnore.contains t.txt = false := by simpa [hk] using h.2
        rw [this]; simp [hk]
      · simp [hk]
    · have := mout_ne_nil T st ts h
      simp only [List.flatMap_cons]
      intro e
      exact this (List.append_eq_nil_iff.mp e).2

/-- the section parser on a formula body: one maths token per character, control word and special
    token that is not ignored; the closing `$` ends the section; the state is unchanged (in
    particular nothing is recorded in `unknowns`) -/
theorem mathSection_mbody (T : PTables) (st : PState) (start : Nat) (d2 : Tok) (rest : Buf)
    (hd : DollarTok d2) :
    ∀ (body : List Tok) (fuel : Nat) (out : List Tok), mcost body + 1 ≤ fuel →
      (∀ t ∈ body, MItem T st t) → (∀ t ∈ out, isMathTok t = true) →
      expandMathSection T fuel (body ++ d2 :: rest) start ["$".toList, "\\)".toList] none out st
        = .ok ({ out := out ++ body.flatMap (mout T st), term := some d2, buf := rest }, st) := by
  intro body
  induction body with
  | nil =>
    intro fuel out hf _ ho
    have := PlainMath.mathSection_body T st start d2 rest hd [] fuel out (by simpa [mcost] using hf)
      (by simp) ho
    simpa [PlainMath.mathToks] using this
  | cons t ts ih =>
    intro fuel out hf hb ho
    have ho' : ∀ x ∈ out ++ mout T st t, isMathTok x = true := by
      intro x hx
      rcases List.mem_append.mp hx with hx | hx
      · exact ho x hx
      · exact (mout_math T st t x hx).1
    have hbs : ∀ x ∈ ts, MItem T st x := fun x hx => hb x (by simp [hx])
    rcases hb t (by simp) with hbt | hsp | hcw | hspec | hign
    · have hk := hbt.kind
      simp only [mcost, hk, reduceCtorEq, beq_iff_eq, if_false] at hf
      obtain ⟨f, rfl⟩ : ∃ f, fuel = f + 1 := ⟨fuel - 1, by omega⟩
      have e : mout T st t = [mathTokOf st t] := by simp [mout, hk]
      rw [e] at ho'
      rw [List.cons_append, PlainMath.mathSection_step T f t _ start out st hbt,
        ih f _ (by omega) hbs ho']
      simp [e]
    · simp only [mcost, hsp, reduceCtorEq, beq_iff_eq, if_false, beq_self_eq_true, if_true] at hf
      have e : mout T st t = [] := by simp [mout, hsp]
      rw [List.cons_append, PlainMath.mathSection_space_step T fuel t _ start _ none out hsp,
        ih fuel out (by omega) hbs ho]
      simp [e]
    · have hk := hcw.kind
      simp only [mcost, hk, beq_self_eq_true, if_true] at hf
      obtain ⟨f, rfl⟩ : ∃ f, fuel = f + 2 := ⟨fuel - 2, by omega⟩
      have e : mout T st t = [mathTokOf st t] := by simp [mout, hk]
      rw [e] at ho'
      rw [List.cons_append, mathSection_cw_step T f t _ start out st hcw,
        ih f _ (by omega) hbs ho']
      simp [e]
    · have hk := hspec.kind
      simp only [mcost, hk, reduceCtorEq, beq_iff_eq, if_false] at hf
      obtain ⟨f, rfl⟩ : ∃ f, fuel = f + 1 := ⟨fuel - 1, by omega⟩
      have e : mout T st t = [mkTok (if st.mathOperators.contains t.txt then .mathOper else .mathElem)
          t.pos ((T.toTables.specialVal t.txt).getD [])] := by
        unfold mout; rw [hspec.nIgnore]; simp [hk]
      rw [e] at ho'
      rw [List.cons_append, mathSection_spec_step T f t _ start out st hspec,
        ih f _ (by omega) hbs ho']
      simp [e]
    · have hk := hign.kind
      simp only [mcost, hk, reduceCtorEq, beq_iff_eq, if_false] at hf
      obtain ⟨f, rfl⟩ : ∃ f, fuel = f + 1 := ⟨fuel - 1, by omega⟩
      have e : mout T st t = [] := by unfold mout; rw [hign.ignore]; simp [hk]
      rw [List.cons_append, mathSection_ign_step T f t _ start out st hign,
        ih f out (by omega) hbs ho]
      simp [e]

/-- **`expandInlineMath` on a formula with control words.**  The call succeeds, consumes the
    formula, and changes the state only in the rotation record of the current language (the
    collection of placeholders is rotated once); `unknowns` and `diags` are untouched. -/
theorem inlineMath_cw (T : PTables) (st : PState) (fuel : Nat) (d1 d2 : Tok) (body : List Tok)
    (rest : Buf) (rot : Rot) (ls : LangSettings)
    (hd2 : DollarTok d2) (hne : body.any (mvis T) = true) (hb : ∀ t ∈ body, MItem T st t)
    (hf : mcost body + 1 ≤ fuel)
    (hrot : rotOf st (curSettings st) = some rot) (hls : settingsOf T (curSettings st) = some ls)
    (hr : rot.inl ≠ []) :
    ∃ o, expandInlineMath T (fuel + 1) (body ++ d2 :: rest) d1 st
      = .ok ((o, rest), setRot st { rot with inl := rotL rot.inl }) := by
  have hsec := mathSection_mbody T st d1.pos d2 rest hd2 body fuel [] hf hb (by simp)
  rw [List.nil_append] at hsec
  have hmne := mout_ne_nil T st body hne
  have hall : ∀ t ∈ body.flatMap (mout T st), isMathTok t = true ∧ t.kind ≠ .mathSpace := by
    intro t ht
    obtain ⟨u, _, hu⟩ := List.mem_flatMap.mp ht
    exact mout_math T st u t hu
  generalize body.flatMap (mout T st) = mb at hsec hmne hall
  have hmath : ∀ t ∈ mb, isMathTok t = true := fun t ht => (hall t ht).1
  have hns : ¬ ∀ t ∈ mb, t.kind = .mathSpace := by
    intro h0
    cases mb with
    | nil => exact hmne rfl
    | cons t ts => exact (hall t (by simp)).2 (h0 _ (by simp))
  obtain ⟨rs, hrs, hrepls, _, _⟩ := replaceSection_inline_mathToks T ls.opText ls.opDefault
    mb true true rot.inl hmath hmne hns hr
  refine ⟨(mkAction d1.pos :: rs.out) ++
    [mkAction ((((mkAction d1.pos :: rs.out).getLast?).map (·.pos)).getD d1.pos)], ?_⟩
  rw [expandInlineMath.eq_2]
  refine (M.bind_ok _ _ _ _ _ hsec).trans ?_
  refine (M.bind_ok _ _ _ _ _ (rfl : M.get st = _)).trans ?_
  simp only [hrot, hls, hrs]
  refine (M.bind_ok _ _ _ _ _ (rfl : M.modify _ _ = _)).trans ?_
  show Outcome.ok _ = _
  rw [hrepls]

/-- **a formula in the loop** -/
theorem seq_math_step (T : PTables) (fuel : Nat) (d1 d2 : Tok) (body : List Tok) (rest : Buf)
    (envStop : Option Str) (out : List Tok) (st : PState) (rot : Rot) (ls : LangSettings)
    (hd1 : DollarTok d1) (hd2 : DollarTok d2) (hne : body.any (mvis T) = true)
    (hb : ∀ t ∈ body, MItem T st t)
    (hf : mcost body + 1 ≤ fuel)
    (hrot : rotOf st (curSettings st) = some rot) (hls : settingsOf T (curSettings st) = some ls)
    (hr : rot.inl ≠ []) :
    ∃ o, expandSequence T (fuel + 2) (d1 :: (body ++ d2 :: rest)) envStop out st
      = expandSequence T (fuel + 1) rest envStop (out ++ o)
          (setRot st { rot with inl := rotL rot.inl }) := by
  obtain ⟨o, ho⟩ := inlineMath_cw T st fuel d1 d2 body rest rot ls hd2 hne hb hf hrot hls hr
  refine ⟨o, ?_⟩
  rw [PlainMath.seq_dollar_step T (fuel + 1) d1 _ envStop out st hd1]
  rw [M.bind_ok _ (fun r => expandSequence T (fuel + 1) r.2 envStop (out ++ r.1)) _ _ _ ho]

/-! ### the token buffers -/

/-- the pieces of a token buffer -/
inductive Piece where
  /-- a token that is copied -/
  | tok (t : Tok)
  /-- an undeclared control word -/
  | cw (t : Tok)
  /-- `\begin { name }` of an undeclared environment -/
  | beg (p q1 q2 : Nat) (nt : List Tok)
  /-- `\end { name }` of an undeclared environment -/
  | en (p q1 q2 : Nat) (nt : List Tok)
  /-- a call `\name { key }` of a declared vanishing macro -/
  | van (p q1 q2 : Nat) (name : Str) (key : List Tok)
  /-- an inline formula `$ body $` -/
  | math (d1 : Tok) (body : List Tok) (d2 : Tok)
  /-- a comment -/
  | com (t : Tok)

def Piece.toks : Piece → List Tok
  | .tok t => [t]
  | .cw t => [t]
  | .beg p q1 q2 nt => begTok p :: lbr q1 :: (nt ++ [rbr q2])
  | .en p q1 q2 nt => endTok p :: lbr q1 :: (nt ++ [rbr q2])
  | .van p q1 q2 name key => cwTok p name :: lbr q1 :: (key ++ [rbr q2])
  | .math d1 b d2 => d1 :: (b ++ [d2])
  | .com t => [t]

/-- the token buffer -/
def flat : List Piece → List Tok
  | [] => []
  | p :: ps => p.toks ++ flat ps

def PiecesOk (T : PTables) (st : PState) : List Piece → Prop
  | [] => True
  | .tok t :: rest => PlainTok t ∧ PassTok T st t (flat rest) ∧ PiecesOk T st rest
  | .cw t :: rest => CwTokOk st t ∧ PiecesOk T st rest
  | .beg _ _ _ nt :: rest =>
    NameToks T st nt ∧ lookupEnv st (bodyTxt nt) = none ∧ PiecesOk T st rest
  | .en _ _ _ nt :: rest =>
    NameToks T st nt ∧ lookupEnv st (bodyTxt nt) = none ∧ PiecesOk T st rest
  | .van _ _ _ name key :: rest =>
    VanName st name ∧ (∀ t ∈ key, NoBrace t ∧ t.kind ≠ .comment) ∧ PiecesOk T st rest
  | .math d1 b d2 :: rest =>
    DollarTok d1 ∧ b.any (mvis T) = true ∧ (∀ t ∈ b, MItem T st t) ∧ DollarTok d2 ∧
      PiecesOk T st rest
  | .com t :: rest => Comment.ComTok T st t ∧ PiecesOk T st rest

/-- the names `expandSequence` hands to `add_unknown` (in text mode), in order: the control words
    with backslash, the environment names of `\begin` without -/
def names : List Piece → List Str
  | [] => []
  | .cw t :: rest => t.txt :: names rest
  | .beg _ _ _ nt :: rest => bodyTxt nt :: names rest
  | _ :: rest => names rest

/-- fuel: iterations of the loop, plus what the nested calls need -/
def cost : List Piece → Nat
  | [] => 0
  | .tok _ :: rest => 1 + cost rest
  | .cw _ :: rest => 2 + cost rest
  | .beg _ _ _ nt :: rest => nt.length + 5 + cost rest
  | .en _ _ _ nt :: rest => nt.length + 5 + cost rest
  | .van .. :: rest => 4 + cost rest
  | .math _ b _ :: rest => mcost b + 2 + cost rest
  | .com _ :: rest => 1 + cost rest

/-- the state is ready for formulas: the language settings and a non-empty collection of inline
    placeholders exist (Python: `KeyError` / `IndexError` otherwise); and the empty string is no
    active character -/
structure Ready (T : PTables) (st : PState) (ls : LangSettings) : Prop where
  active : noEmptyActive T st = true
  settings : settingsOf T (curSettings st) = some ls
  rot : ∃ rot, rotOf st (curSettings st) = some rot ∧ rot.inl ≠ []

/-- the fields of the state the side conditions depend on -/
structure Same (st st' : PState) : Prop where
  lang : st'.langStack = st.langStack
  macros : st'.macros = st.macros
  envs : st'.envs = st.envs
  mtm : st'.mathTextMacros = st.mathTextMacros
  skipB : st'.skipBegin = st.skipBegin

theorem MItem.congr {T : PTables} {st st' : PState} (h : Same st st') {t : Tok} :
    MItem T st t → MItem T st' t := by
  rintro (hb | hs | hc | hx)
  · exact Or.inl hb
  · exact Or.inr (Or.inl hs)
  · refine Or.inr (Or.inr (Or.inl ⟨hc.kind, hc.nStop, ?_, ?_, hc.nSpace, hc.nIgnore⟩))
    · rw [h.mtm]; exact hc.nText
    · have := hc.undecl; simpa [lookupMacro, h.macros] using this
  · exact Or.inr (Or.inr (Or.inr hx))

theorem NameToks.congr {T : PTables} {st st' : PState} (hl : st'.langStack = st.langStack)
    {nt : List Tok} (h : NameToks T st nt) : NameToks T st' nt := by
  refine ⟨h.1, fun t ht => ?_⟩
  rw [activeChars_congr T st st' hl]
  exact h.2 t ht

theorem PiecesOk.congr {T : PTables} {st st' : PState} (h : Same st st') :
    ∀ {ps : List Piece}, PiecesOk T st ps → PiecesOk T st' ps
  | [], _ => trivial
  | .tok t :: rest, hp =>
    ⟨hp.1, PlainMacro.PassTok_congr h.lang hp.2.1, PiecesOk.congr h hp.2.2⟩
  | .cw t :: rest, hp =>
    ⟨⟨hp.1.kind, hp.1.nDef, by have := hp.1.undecl; simpa [lookupMacro, h.macros] using this⟩,
      PiecesOk.congr h hp.2⟩
  | .beg _ _ _ nt :: rest, hp =>
    ⟨NameToks.congr h.lang hp.1, by have := hp.2.1; simpa [lookupEnv, h.envs] using this,
      PiecesOk.congr h hp.2.2⟩
  | .en _ _ _ nt :: rest, hp =>
    ⟨NameToks.congr h.lang hp.1, by have := hp.2.1; simpa [lookupEnv, h.envs] using this,
      PiecesOk.congr h hp.2.2⟩
  | .van _ _ _ name key :: rest, hp => by
    refine ⟨?_, hp.2.1, PiecesOk.congr h hp.2.2⟩
    obtain ⟨h1, m, h2, h3⟩ := hp.1
    exact ⟨h1, m, by simpa [lookupMacro, h.macros] using h2, h3⟩
  | .math d1 b d2 :: rest, hp =>
    ⟨hp.1, hp.2.1, fun t ht => MItem.congr h (hp.2.2.1 t ht), hp.2.2.2.1,
      PiecesOk.congr h hp.2.2.2.2⟩
  | .com t :: rest, hp => by
    refine ⟨⟨hp.1.kind, hp.1.head, ?_, ?_⟩, PiecesOk.congr h hp.2⟩
    · rw [h.skipB]; exact hp.1.nskip
    · rw [activeChars_congr T st st' h.lang]; exact hp.1.nact

/-- what is left of the buffer behind an undeclared control word: `skip_space` drops the white
    space and the comments -/
def dropSp : List Piece → List Piece
  | .tok t :: rest => if isSpaceTok t then dropSp rest else .tok t :: rest
  | .com _ :: rest => dropSp rest
  | ps => ps

theorem skip_flat {T : PTables} {st : PState} : ∀ {ps : List Piece}, PiecesOk T st ps →
    skipSpaceStopLangAct (flat ps) = flat (dropSp ps) ∧ PiecesOk T st (dropSp ps) ∧
    names (dropSp ps) = names ps ∧ cost (dropSp ps) ≤ cost ps ∧ (dropSp ps).length ≤ ps.length
  | [], _ => ⟨rfl, trivial, rfl, Nat.le_refl _, Nat.le_refl _⟩
  | .tok t :: rest, hp => by
    have hl : isLangK t = false := by
      rcases hp.1.kind with hk | hk | hk <;> simp [isLangK, hk]
    have hac : (t.kind == Kind.action) = false := by
      rcases hp.1.kind with hk | hk | hk <;> simp [hk]
    by_cases hs : isSpaceTok t = true
    · obtain ⟨i1, i2, i3, i4, i5⟩ := skip_flat hp.2.2
      simp only [skipSpaceStopLangAct] at i1
      simp only [dropSp, hs, if_true, flat, Piece.toks, List.singleton_append, skipSpaceStopLangAct,
        List.dropWhile_cons, hl, hac, Bool.not_false, Bool.and_self, names, cost, List.length_cons]
      exact ⟨i1, i2, i3, by omega, by omega⟩
    · have hs' : isSpaceTok t = false := by simpa using hs
      simp only [dropSp, hs', Bool.false_eq_true, if_false, flat, Piece.toks, List.singleton_append,
        skipSpaceStopLangAct, List.dropWhile_cons, Bool.false_and]
      exact ⟨trivial, hp, trivial, Nat.le_refl _, Nat.le_refl _⟩
  | .com t :: rest, hp => by
    obtain ⟨i1, i2, i3, i4, i5⟩ := skip_flat hp.2
    simp only [skipSpaceStopLangAct] at i1
    have hk := hp.1.kind
    simp only [dropSp, flat, Piece.toks, List.singleton_append, skipSpaceStopLangAct,
      List.dropWhile_cons, isSpaceTok, isLangK, hk, Bool.not_false,
      Bool.and_self, names, cost, List.length_cons]
    exact ⟨i1, i2, i3, by omega, by omega⟩
  | .cw t :: rest, hp => by
    have hk := hp.1.kind
    refine ⟨?_, hp, rfl, Nat.le_refl _, Nat.le_refl _⟩
    simp [dropSp, flat, Piece.toks, skipSpaceStopLangAct, isSpaceTok, hk]
  | .beg p q1 q2 nt :: rest, hp => by
    refine ⟨?_, hp, rfl, Nat.le_refl _, Nat.le_refl _⟩
    simp [dropSp, flat, Piece.toks, skipSpaceStopLangAct, isSpaceTok, begTok]
  | .en p q1 q2 nt :: rest, hp => by
    refine ⟨?_, hp, rfl, Nat.le_refl _, Nat.le_refl _⟩
    simp [dropSp, flat, Piece.toks, skipSpaceStopLangAct, isSpaceTok, endTok]
  | .van p q1 q2 name key :: rest, hp => by
    refine ⟨?_, hp, rfl, Nat.le_refl _, Nat.le_refl _⟩
    simp [dropSp, flat, Piece.toks, skipSpaceStopLangAct, isSpaceTok, cwTok]
  | .math d1 b d2 :: rest, hp => by
    refine ⟨?_, hp, rfl, Nat.le_refl _, Nat.le_refl _⟩
    rcases hp.1.kind with hk | hk <;>
      simp [dropSp, flat, Piece.toks, skipSpaceStopLangAct, isSpaceTok, hk]

theorem MItem.notComment {T : PTables} {st : PState} {t : Tok} (h : MItem T st t) :
    t.kind ≠ .comment := by
  rcases h with h | h | h | h | h
  · simp [h.kind]
  · simp [h]
  · simp [h.kind]
  · simp [h.kind]
  · simp [h.kind]

theorem Same.refl (st : PState) : Same st st := ⟨rfl, rfl, rfl, rfl, rfl⟩

theorem Ready.unknowns {T : PTables} {st : PState} {ls : LangSettings} (h : Ready T st ls)
    (u : List Str) : Ready T { st with unknowns := u } ls :=
  ⟨(noEmptyActive_congr T st _ rfl).trans h.active, h.settings, h.rot⟩

theorem seq_u2_nil (T : PTables) (fuel : Nat) (out : List Tok) (st : PState) (hf : 1 ≤ fuel) :
    ∃ o st', expandSequence T fuel (flat []) none out st
        = (match removeLines (out ++ o) with
           | some r => .ok ((r, []), st')
           | none => .outOfFuel) ∧
      st' = { st with unknowns := (names []).foldl addU st.unknowns, rots := st'.rots } := by
  obtain ⟨f, rfl⟩ : ∃ f, fuel = f + 1 := ⟨fuel - 1, by omega⟩
  refine ⟨[], st, ?_, rfl⟩
  simp only [flat, List.append_nil]
  rw [expandSequence.eq_2]
  cases removeLines out <;> rfl

/-- **the loop on a mixed buffer.**  The run succeeds (as far as the blank-line removal does); the
    names of the undeclared control words and of the undeclared environments are recorded in order,
    each once (`addU`); nothing from formulas, declared macros or comments; besides `unknowns` only
    the rotation records change. -/
theorem seq_u2 (T : PTables) (ls : LangSettings) :
    ∀ (n : Nat) (ps : List Piece), ps.length ≤ n → ∀ (fuel : Nat) (out : List Tok) (st : PState),
      cost ps + 1 ≤ fuel → PiecesOk T st ps → Ready T st ls →
      ∃ o st', expandSequence T fuel (flat ps) none out st
          = (match removeLines (out ++ o) with
             | some r => .ok ((r, []), st')
             | none => .outOfFuel) ∧
        st' = { st with unknowns := (names ps).foldl addU st.unknowns, rots := st'.rots } := by
  intro n
  induction n with
  | zero =>
    intro ps hn fuel out st hf _ _
    cases ps with
    | nil => exact seq_u2_nil T fuel out st (by omega)
    | cons => simp at hn
  | succ n ih =>
    intro ps hn fuel out st hf hok hr
    cases ps with
    | nil => exact seq_u2_nil T fuel out st (by omega)
    | cons pc ps =>
      have hn' : ps.length ≤ n := by simpa using hn
      cases pc with
      | tok t =>
        simp only [cost] at hf
        obtain ⟨f, rfl⟩ : ∃ f, fuel = f + 1 := ⟨fuel - 1, by omega⟩
        simp only [flat, Piece.toks, List.singleton_append]
        rw [seq_plain_step T f t (flat ps) none out st hok.1 hok.2.1]
        obtain ⟨o, st', h1, h2⟩ := ih ps hn' f (out ++ [t]) st (by omega) hok.2.2 hr
        refine ⟨t :: o, st', ?_, by simpa [names] using h2⟩
        rw [h1]; simp
      | com t =>
        simp only [cost] at hf
        obtain ⟨f, rfl⟩ : ∃ f, fuel = f + 1 := ⟨fuel - 1, by omega⟩
        simp only [flat, Piece.toks, List.singleton_append]
        rw [Comment.seq_com_step T f t (flat ps) none out st hok.1]
        obtain ⟨o, st', h1, h2⟩ := ih ps hn' f out st (by omega) hok.2 hr
        exact ⟨o, st', h1, by simpa [names] using h2⟩
      | cw t =>
        simp only [cost] at hf
        obtain ⟨f, rfl⟩ : ∃ f, fuel = f + 2 := ⟨fuel - 2, by omega⟩
        simp only [flat, Piece.toks, List.singleton_append]
        rw [seq_cw_step T f t (flat ps) none out st hok.1 hr.active]
        obtain ⟨e1, e2, e3, e4, e5⟩ := skip_flat hok.2
        rw [e1]
        have hS : Same st { st with unknowns := addU st.unknowns t.txt } := ⟨rfl, rfl, rfl, rfl, rfl⟩
        obtain ⟨o, st', h1, h2⟩ := ih (dropSp ps) (by omega) f (out ++ [mkAction t.pos])
          { st with unknowns := addU st.unknowns t.txt } (by omega) (PiecesOk.congr hS e2)
          (hr.unknowns _)
        refine ⟨mkAction t.pos :: o, st', ?_, ?_⟩
        · rw [h1]; simp
        · rw [h2, e3]; simp [names]
      | beg p q1 q2 nt =>
        simp only [cost] at hf
        obtain ⟨f, rfl⟩ : ∃ f, fuel = f + 2 := ⟨fuel - 2, by omega⟩
        have hflat : flat (Piece.beg p q1 q2 nt :: ps)
            = begTok p :: lbr q1 :: (nt ++ rbr q2 :: flat ps) := by simp [flat, Piece.toks]
        rw [hflat, seq_ubeg_step T f p q1 q2 nt (flat ps) none out st hok.1 (by omega) hok.2.1 hr.active]
        have hS : Same st { st with unknowns := addU st.unknowns (bodyTxt nt) } :=
          ⟨rfl, rfl, rfl, rfl, rfl⟩
        obtain ⟨o, st', h1, h2⟩ := ih ps hn' f (out ++ [mkAction p])
          { st with unknowns := addU st.unknowns (bodyTxt nt) } (by omega)
          (PiecesOk.congr hS hok.2.2) (hr.unknowns _)
        refine ⟨mkAction p :: o, st', ?_, ?_⟩
        · rw [h1]; simp
        · rw [h2]; simp [names]
      | en p q1 q2 nt =>
        simp only [cost] at hf
        obtain ⟨f, rfl⟩ : ∃ f, fuel = f + 2 := ⟨fuel - 2, by omega⟩
        have hflat : flat (Piece.en p q1 q2 nt :: ps)
            = endTok p :: lbr q1 :: (nt ++ rbr q2 :: flat ps) := by simp [flat, Piece.toks]
        rw [hflat, seq_uend_step T f p q1 q2 nt (flat ps) out st hok.1 (by omega) hok.2.1 hr.active]
        obtain ⟨o, st', h1, h2⟩ := ih ps hn' f (out ++ [mkAction p]) st (by omega) hok.2.2 hr
        refine ⟨mkAction p :: o, st', ?_, by simpa [names] using h2⟩
        rw [h1]; simp
      | van p q1 q2 name key =>
        obtain ⟨hn1, hkey, hrest⟩ := hok
        simp only [cost] at hf
        have hlen := hn1.repl.2
        obtain ⟨f, hf'⟩ : ∃ f, fuel = f + 1 + (2 + (replOf st name).length) :=
          ⟨fuel - 1 - (2 + (replOf st name).length), by omega⟩
        have hflat : flat (Piece.van p q1 q2 name key :: ps)
            = cwTok p name :: lbr q1 :: (key ++ rbr q2 :: flat ps) := by simp [flat, Piece.toks]
        rw [hflat, hf', seq_van_step T f p q1 q2 name key (flat ps) none out st hn1
          (fun t ht => (hkey t ht).1) hr.active]
        obtain ⟨o, st', h1, h2⟩ := ih ps hn' (f + 1)
          (out ++ mkAction p :: (replOf st name).map (PlainMacro.restamp p)) st (by omega) hrest hr
        refine ⟨mkAction p :: ((replOf st name).map (PlainMacro.restamp p) ++ o), st', ?_,
          by simpa [names] using h2⟩
        rw [h1]; simp
      | math d1 b d2 =>
        obtain ⟨hd1, hbne, hb, hd2, hrest⟩ := hok
        obtain ⟨rot, hrot, hne⟩ := hr.rot
        simp only [cost] at hf
        obtain ⟨f, rfl⟩ : ∃ f, fuel = f + 2 := ⟨fuel - 2, by omega⟩
        have hflat : flat (Piece.math d1 b d2 :: ps) = d1 :: (b ++ d2 :: flat ps) := by
          simp [flat, Piece.toks]
        obtain ⟨o1, ho1⟩ := seq_math_step T f d1 d2 b (flat ps) none out st rot ls hd1 hd2 hbne hb
          (by omega) hrot hr.settings hne
        rw [hflat, ho1]
        have hS : Same st (setRot st { rot with inl := rotL rot.inl }) := ⟨rfl, rfl, rfl, rfl, rfl⟩
        have hr' : Ready T (setRot st { rot with inl := rotL rot.inl }) ls :=
          ⟨(noEmptyActive_congr T st _ rfl).trans hr.active, hr.settings,
            ⟨_, PlainMath.rotOf_setRot st (curSettings st) rot (rotL rot.inl) hrot, rotL_ne_nil _ hne⟩⟩
        obtain ⟨o, st', h1, h2⟩ := ih ps hn' (f + 1) (out ++ o1)
          (setRot st { rot with inl := rotL rot.inl }) (by omega) (PiecesOk.congr hS hrest) hr'
        refine ⟨o1 ++ o, st', ?_, ?_⟩
        · rw [h1]; simp
        · rw [h2]; simp [names, setRot]

end PlainUnkn2
end Yalafi
