/-
  Proofs/PlainLangMix.lean — C12 for documents that MIX the language constructs of package babel,
  END TO END on the model with `multi = true`: inert text, hard switches `\selectlanguage{name}`,
  insertions `\foreignlanguage{name}{text}` and the environments `otherlanguage`, `otherlanguage*`
  — in any order and nested to any depth.  (File header with grammar, reference and side
  conditions: Proofs/PlainLangMixE2E.lean.  This file: the expander.)

  Model facts used for the environments (`packages/babel.py`: `Environ(parms, 'otherlanguage',
  args='A', repl=h_begin_otherlang, add_pars=False, end_func=h_end_otherlang)`, the same with
  `h_end_otherlang_star` for `otherlanguage*`, `Macro(parms, '\\babel@skip@space', args='',
  repl='')`; `parser.py: begin_environment, end_environment, expand_macro`).
  * `\begin{otherlanguage}{name}`: the scanner yields the Begin token, `{`, the tokens of the
    environment name, `}`, `{`, the tokens of the language name, `}`.  `beginEnvironment` reads the
    environment name (`get_environment_name`), finds the declaration, leaves an Action token
    (`add_pars = False`), collects the argument, the handler returns ONE language token
    `LanguageToken(pos, lang=code, brk=otherlang_break)` (soft: it pushes), `expand_arguments` puts
    a second Action token in front.  The loop copies the two Action tokens, copies the language
    token and pushes the language: the text behind it is read with the settings of `name`.
  * `\end{otherlanguage*}`: `endEnvironment` leaves an Action token and the handler's
    `LanguageToken(pos, back=True)`; the loop copies both and pops the language.
  * `\end{otherlanguage}` (no star): the handler appends the macro token `\babel@skip@space`; the loop
    sends it to `expandMacro`, which SKIPS THE WHITE SPACE behind it (`skip_space`: a space token,
    i.e. a run of white space with at most one line break — a paragraph break is no space token)
    and returns a third Action token: the blank or the line break directly behind
    `\end{otherlanguage}` does not reach the output.
  * The language stack of the parser follows the same discipline as the one of `get_txt_pos_ml`
    (`changeParserLang`: push / replace the top / pop unless one entry is left).

  (1) `callHandler_begin`, `expandArguments_begin`, `beginEnvironment_other`, `endEnvironment_other`
  (2) `seq_obeg_step`, `seq_ofin_star_step`, `seq_ofin_step`
  (3) `Piece`, `PiecesOk`, `finalSt`, `outMain`, `cost`, `seq_mix`: the loop on a buffer of copied
      tokens, switches, insertions, `\begin{otherlanguage[*]}{name}` and `\end{otherlanguage[*]}`
-/
import YalafiVerif.Proofs.PlainLangMixML
import YalafiVerif.Proofs.PlainThmBase
namespace Yalafi
namespace PlainLangMix

open M
open PlainFootnote (CopyTok BraceTok argBuffer_braced skipSpace_brace skippedLangs_brace TextRun)
open PlainMacro (lbr rbr)
open PlainItem (begTok endTok expandArguments_noargs)
open PlainThm (NameToks txtOf getEnvironmentName_copy SpToks)
open PlainLang (setLang selTok codeOf SelTok seq_sel_step seq_lang_multi collectArgs_select)
open PlainForeign (pushLang pushLang_eq openTok backTok frnOut FrnTok seq_frn_step lastPos)

/-! ### the declarations -/

/-- the declaration `Environ(parms, 'otherlanguage[*]', args='A', repl=h_begin_otherlang,
    add_pars=False, end_func=h_end_otherlang[_star])` of `packages/babel.py` as far as the expander
    looks at it -/
def envDeclOk (star : Bool) (m : MacroDef) : Bool :=
  m.args == ['A'] && m.handler == Handler.beginOtherlang && m.extract.isEmpty && m.items.isNone &&
  !m.addPars && !m.isEqu && !m.remove &&
  m.endFunc == (if star then Handler.endOtherlangStar else Handler.endOtherlang)

structure EnvDecl (star : Bool) (m : MacroDef) : Prop where
  args : m.args = ['A']
  handler : m.handler = .beginOtherlang
  extract : m.extract = []
  items : m.items = none
  addPars : m.addPars = false
  isEqu : m.isEqu = false
  remove : m.remove = false
  endFunc : m.endFunc = (if star then Handler.endOtherlangStar else Handler.endOtherlang)

theorem envDecl {star : Bool} {m : MacroDef} (h : envDeclOk star m = true) : EnvDecl star m := by
  simp only [envDeclOk, Bool.and_eq_true, beq_iff_eq, List.isEmpty_iff, Option.isNone_iff_eq_none,
    Bool.not_eq_true'] at h
  obtain ⟨⟨⟨⟨⟨⟨⟨h1, h2⟩, h3⟩, h4⟩, h5⟩, h6⟩, h7⟩, h8⟩ := h
  exact ⟨h1, h2, h3, h4, h5, h6, h7, h8⟩

/-- `\babel@skip@space` (without backslash) -/
def skipName : Str := "babel@skip@space".toList

/-- the declaration `Macro(parms, '\\babel@skip@space', args='', repl='')` -/
def skipDeclOk (m : MacroDef) : Bool :=
  m.args.isEmpty && m.repl.isEmpty && m.extract.isEmpty && m.handler == Handler.none

/-- `Parameters.change_parser_lang(back=True)`: the language stack is popped unless one entry is left -/
def popLang (T : PTables) (st : PState) : PState := changeParserLang T st [] true false

theorem popLang_eq (T : PTables) (st : PState) :
    popLang T st = if st.langStack.length > 1 then { st with langStack := st.langStack.tail } else st := by
  simp [popLang, changeParserLang]

@[simp] theorem popLang_macros (T : PTables) (st : PState) : (popLang T st).macros = st.macros := by
  rw [popLang_eq]; split <;> rfl
@[simp] theorem popLang_envs (T : PTables) (st : PState) : (popLang T st).envs = st.envs := by
  rw [popLang_eq]; split <;> rfl
@[simp] theorem popLang_multi (T : PTables) (st : PState) :
    (popLang T st).multiLanguage = st.multiLanguage := by
  rw [popLang_eq]; split <;> rfl
@[simp] theorem pushLang_macros (T : PTables) (st : PState) (c : Str) : (pushLang T st c).macros = st.macros := by
  rw [pushLang_eq]
@[simp] theorem pushLang_envs (T : PTables) (st : PState) (c : Str) : (pushLang T st c).envs = st.envs := by
  rw [pushLang_eq]
@[simp] theorem pushLang_langStack (T : PTables) (st : PState) (c : Str) :
    (pushLang T st c).langStack = (checkLang T c, c) :: st.langStack := by
  rw [pushLang_eq]
@[simp] theorem setLang_envs (T : PTables) (st : PState) (c : Str) : (setLang T st c).envs = st.envs := by
  rw [PlainLang.setLang_eq]

theorem popLang_stack_ne (T : PTables) (st : PState) (h : st.langStack ≠ []) : (popLang T st).langStack ≠ [] := by
  rw [popLang_eq]
  split
  · rename_i hl
    show st.langStack.tail ≠ []
    intro e
    have := congrArg List.length e
    simp at this
    omega
  · exact h

theorem popLang_langStack_congr (T : PTables) (st st' : PState) (h : st'.langStack = st.langStack) :
    (popLang T st').langStack = (popLang T st).langStack := by
  rw [popLang_eq, popLang_eq, h]
  split <;> simp [h]

/-! ### (1) the handlers, `beginEnvironment`, `endEnvironment` -/

/-- the language token `h_begin_otherlang` returns: a soft switch to `code` at position `p` -/
def obegTok (T : PTables) (p : Nat) (code : Str) : Tok := mkLang p code false false T.otherBrk

theorem callHandler_begin (T : PTables) (fuel : Nat) (buf : Buf) (mac : MacroDef)
    (body : List Tok) (pos : Nat) (st : PState) (code : Str)
    (hb : ∀ t ∈ body, CopyTok T st t)
    (hc : translateLang T (strip (getTxtPos body).1) = some code) (hf : body.length + 3 ≤ fuel) :
    callHandler T fuel .beginOtherlang buf mac [body] pos st = .ok ([obegTok T pos code], st) := by
  obtain ⟨f, rfl⟩ : ∃ f, fuel = f + 1 := ⟨fuel - 1, by omega⟩
  rw [callHandler.eq_15]
  simp only [List.getElem?_cons_zero]
  refine (M.bind_ok _ _ _ _ _ (rfl : (pure body : M (List Tok)) st = _)).trans ?_
  refine (M.bind_ok _ _ _ _ _ (PlainHeading.getTextExpanded_copy T st body f hb (by omega))).trans ?_
  simp only [hc]
  rfl

theorem callHandler_end (T : PTables) (fuel : Nat) (buf : Buf) (mac : MacroDef) (pos : Nat) (st : PState) :
    callHandler T (fuel + 1) .endOtherlang buf mac [] pos st
      = .ok ([backTok pos, cwTok pos skipName], st) := by
  rw [callHandler.eq_16]
  rfl

theorem callHandler_endStar (T : PTables) (fuel : Nat) (buf : Buf) (mac : MacroDef) (pos : Nat)
    (st : PState) :
    callHandler T (fuel + 1) .endOtherlangStar buf mac [] pos st = .ok ([backTok pos], st) := by
  rw [callHandler.eq_17]
  rfl

theorem expandArguments_begin (T : PTables) (fuel : Nat) (mac : MacroDef) (star : Bool) (lb rb : Tok)
    (body : List Tok) (rest : Buf) (start : Nat) (st : PState) (code : Str) (hm : EnvDecl star mac)
    (hlb : BraceTok '{' lb) (hrb : BraceTok '}' rb)
    (hb : ∀ t ∈ body, CopyTok T st t) (hne : body ≠ [])
    (hc : translateLang T (strip (getTxtPos body).1) = some code)
    (hf : body.length + 4 ≤ fuel) :
    expandArguments T fuel (lb :: (body ++ rb :: rest)) mac start st
      = .ok (([mkAction start, obegTok T start code], rest), st) := by
  obtain ⟨f, rfl⟩ : ∃ f, fuel = f + 1 := ⟨fuel - 1, by omega⟩
  rw [expandArguments.eq_2, hm.args]
  refine (M.bind_ok _ _ _ _ _ (collectArgs_select T mac lb rb body rest start st hlb hrb
    (fun x hx => (hb x hx).plain) hne)).trans ?_
  simp only [hm.extract, hm.handler, List.isEmpty_nil, Bool.not_true, Bool.false_eq_true, if_false,
    show (Handler.beginOtherlang != Handler.none) = true by decide, if_true]
  refine (M.bind_ok _ _ _ _ _
    (callHandler_begin T f rest mac body start st code hb hc (by omega))).trans ?_
  show Outcome.ok _ = _
  simp

/-- **`\begin{otherlanguage[*]}{name}`**: two Action tokens and the language token, all at the position
    of `\begin`; the state is unchanged -/
theorem beginEnvironment_other (T : PTables) (fuel : Nat) (p q : Nat) (nt : List Tok) (lb rb : Tok)
    (body : List Tok) (rest : Buf) (tok : Tok) (st : PState) (env : MacroDef) (star : Bool) (code : Str)
    (h : NameToks T st nt) (hl : lookupEnv st (txtOf nt) = some env) (hm : EnvDecl star env)
    (hlb : BraceTok '{' lb) (hrb : BraceTok '}' rb)
    (hb : ∀ t ∈ body, CopyTok T st t) (hne : body ≠ [])
    (hc : translateLang T (strip (getTxtPos body).1) = some code)
    (hf : nt.length + body.length + 4 ≤ fuel) :
    beginEnvironment T (fuel + 2) (lbr p :: (nt ++ rbr q :: lb :: (body ++ rb :: rest))) tok false st
      = .ok (([mkAction tok.pos, mkAction tok.pos, obegTok T tok.pos code], rest), st) := by
  rw [beginEnvironment.eq_2]
  refine (M.bind_ok _ _ _ _ _ (getEnvironmentName_copy T fuel p q nt _ tok st h (by omega))).trans ?_
  refine (M.bind_ok _ _ _ _ _ (rfl : M.get st = _)).trans ?_
  simp only [hl, hm.items]
  refine (M.bind_ok _ _ _ _ _ (expandArguments_begin T (fuel + 1) env star lb rb body rest tok.pos st code
    hm hlb hrb hb hne hc (by omega))).trans ?_
  simp only [hm.addPars, hm.isEqu, hm.remove, Bool.false_eq_true, if_false]
  rfl

/-- **`\end{otherlanguage}`**: an Action token, the language token that switches back, the macro token
    `\babel@skip@space` -/
theorem endEnvironment_other (T : PTables) (fuel : Nat) (p q : Nat) (nt : List Tok) (rest : Buf)
    (tok : Tok) (st : PState) (env : MacroDef) (h : NameToks T st nt)
    (hl : lookupEnv st (txtOf nt) = some env) (hm : EnvDecl false env) (hf : nt.length + 2 ≤ fuel) :
    endEnvironment T (fuel + 2) (lbr p :: (nt ++ rbr q :: rest)) tok none st
      = .ok ((([mkAction tok.pos, backTok tok.pos, cwTok tok.pos skipName], false), rest), st) := by
  rw [endEnvironment.eq_2]
  refine (M.bind_ok _ _ _ _ _ (getEnvironmentName_copy T fuel p q nt rest tok st h hf)).trans ?_
  refine (M.bind_ok _ _ _ _ _ (rfl : M.get st = _)).trans ?_
  have hend : env.endFunc = .endOtherlang := by simpa using hm.endFunc
  simp only [hl, hm.items, hend, hm.addPars]
  obtain ⟨f, rfl⟩ : ∃ f, fuel = f + 1 := ⟨fuel - 1, by omega⟩
  simp only [Option.isSome_none, Bool.false_and, Bool.false_eq_true, if_false,
    show (Handler.endOtherlang == Handler.none) = false by decide]
  refine (M.bind_ok _ _ _ _ _ (callHandler_end T (f + 1) rest env tok.pos st)).trans ?_
  rfl

/-- **`\end{otherlanguage*}`**: an Action token and the language token that switches back -/
theorem endEnvironment_otherStar (T : PTables) (fuel : Nat) (p q : Nat) (nt : List Tok) (rest : Buf)
    (tok : Tok) (st : PState) (env : MacroDef) (h : NameToks T st nt)
    (hl : lookupEnv st (txtOf nt) = some env) (hm : EnvDecl true env) (hf : nt.length + 2 ≤ fuel) :
    endEnvironment T (fuel + 2) (lbr p :: (nt ++ rbr q :: rest)) tok none st
      = .ok ((([mkAction tok.pos, backTok tok.pos], false), rest), st) := by
  rw [endEnvironment.eq_2]
  refine (M.bind_ok _ _ _ _ _ (getEnvironmentName_copy T fuel p q nt rest tok st h hf)).trans ?_
  refine (M.bind_ok _ _ _ _ _ (rfl : M.get st = _)).trans ?_
  have hend : env.endFunc = .endOtherlangStar := by simpa using hm.endFunc
  simp only [hl, hm.items, hend, hm.addPars]
  obtain ⟨f, rfl⟩ : ∃ f, fuel = f + 1 := ⟨fuel - 1, by omega⟩
  simp only [Option.isSome_none, Bool.false_and, Bool.false_eq_true, if_false,
    show (Handler.endOtherlangStar == Handler.none) = false by decide]
  refine (M.bind_ok _ _ _ _ _ (callHandler_endStar T (f + 1) rest env tok.pos st)).trans ?_
  rfl

/-! ### (2) the steps of the loop -/

/-- **`\begin{otherlanguage[*]}{name}` in the loop**: four iterations (Begin token, two Action tokens,
    the language token); the language is pushed -/
theorem seq_obeg_step (T : PTables) (fuel : Nat) (p q1 q2 : Nat) (nt : List Tok) (lb rb : Tok)
    (body : List Tok) (code : Str) (rest : Buf) (envStop : Option Str) (out : List Tok) (st : PState)
    (env : MacroDef) (star : Bool)
    (hn : NameToks T st nt) (hl : lookupEnv st (txtOf nt) = some env) (hm : EnvDecl star env)
    (hml : st.multiLanguage = true) (hnea : noEmptyActive T st = true)
    (hlb : BraceTok '{' lb) (hrb : BraceTok '}' rb)
    (hb : ∀ t ∈ body, CopyTok T st t) (hne : body ≠ [])
    (hc : translateLang T (strip (getTxtPos body).1) = some code)
    (hf : nt.length + body.length + 3 ≤ fuel) :
    expandSequence T (fuel + 4) (begTok p :: lbr q1 :: (nt ++ rbr q2 :: lb :: (body ++ rb :: rest)))
        envStop out st
      = expandSequence T fuel rest envStop (out ++ [mkAction p, mkAction p, obegTok T p code])
          (pushLang T st code) := by
  rw [expandSequence.eq_3]
  show M.bind' M.get _ st = _
  simp only [M.bind', M.get]
  have hk : (begTok p).kind = .xbegin := rfl
  simp only [hk, beq_self_eq_true, if_true]
  refine (M.bind_ok _ _ _ _ _ (beginEnvironment_other T (fuel + 1) q1 q2 nt lb rb body rest (begTok p) st
    env star code hn hl hm hlb hrb hb hne hc (by omega))).trans ?_
  show expandSequence T (fuel + 2 + 1) (mkAction p :: mkAction p :: obegTok T p code :: rest) envStop out st = _
  rw [seq_action_step T (fuel + 2) p _ envStop out st hnea,
    seq_action_step T (fuel + 1) p _ envStop _ st hnea]
  unfold obegTok
  rw [seq_lang_multi T fuel p code false false T.otherBrk rest envStop _ st hml]
  simp [pushLang]

/-- **`\end{otherlanguage*}` in the loop**: three iterations; the language is popped -/
theorem seq_ofin_star_step (T : PTables) (fuel : Nat) (p q1 q2 : Nat) (nt : List Tok) (rest : Buf)
    (out : List Tok) (st : PState) (env : MacroDef)
    (hn : NameToks T st nt) (hl : lookupEnv st (txtOf nt) = some env) (hm : EnvDecl true env)
    (hml : st.multiLanguage = true) (hnea : noEmptyActive T st = true)
    (hf : nt.length + 2 ≤ fuel) :
    expandSequence T (fuel + 3) (endTok p :: lbr q1 :: (nt ++ rbr q2 :: rest)) none out st
      = expandSequence T fuel rest none (out ++ [mkAction p, backTok p]) (popLang T st) := by
  rw [expandSequence.eq_3]
  show M.bind' M.get _ st = _
  simp only [M.bind', M.get]
  have hk : (endTok p).kind = .xend := rfl
  simp only [hk, beq_self_eq_true, if_true, reduceCtorEq, beq_iff_eq, if_false]
  refine (M.bind_ok _ _ _ _ _ (endEnvironment_otherStar T fuel q1 q2 nt rest (endTok p) st env hn hl hm
    hf)).trans ?_
  simp only [Bool.false_eq_true, if_false]
  show expandSequence T (fuel + 1 + 1) (mkAction p :: backTok p :: rest) none out st = _
  rw [seq_action_step T (fuel + 1) p _ none out st hnea]
  unfold backTok
  rw [seq_lang_multi T fuel p [] true false false rest none _ st hml]
  simp [popLang]

theorem skipAct_sp : ∀ (sp rest : Buf), SpToks sp →
    (∀ t, rest.head? = some t → isSpaceTok t = false) → skipSpaceStopLangAct (sp ++ rest) = rest
  | [], rest, _, hr => by
    cases rest with
    | nil => rfl
    | cons t ts => simp [skipSpaceStopLangAct, hr t rfl]
  | s :: sp, rest, hs, hr => by
    have hk : s.kind = .space := hs s (List.mem_cons_self ..)
    have := skipAct_sp sp rest (fun x hx => hs x (List.mem_cons_of_mem _ hx)) hr
    have h1 : (isSpaceTok s && !isLangK s && !(s.kind == .action)) = true := by
      simp [isSpaceTok, isLangK, hk]
    simp only [skipSpaceStopLangAct] at this ⊢
    rw [List.cons_append, List.dropWhile_cons, if_pos h1]
    exact this

/-- the macro `\babel@skip@space` is declared as in `packages/babel.py` -/
def SkipOk (st : PState) : Prop := ∃ m, lookupMacro st ('\\' :: skipName) = some m ∧ skipDeclOk m = true

/-- **`\end{otherlanguage}` in the loop**: five iterations (End token, Action token, the language token
    — the language is popped —, the macro `\babel@skip@space`, which skips the white space `skip`, and
    its Action token) -/
theorem seq_ofin_step (T : PTables) (fuel : Nat) (p q1 q2 : Nat) (nt : List Tok) (skip rest : Buf)
    (out : List Tok) (st : PState) (env : MacroDef)
    (hn : NameToks T st nt) (hl : lookupEnv st (txtOf nt) = some env) (hm : EnvDecl false env)
    (hml : st.multiLanguage = true) (hnea : noEmptyActive T st = true)
    (hnea' : noEmptyActive T (popLang T st) = true) (hsk : SkipOk st)
    (hsp : SpToks skip) (hh : ∀ t, rest.head? = some t → isSpaceTok t = false)
    (hf : nt.length + 2 ≤ fuel) :
    expandSequence T (fuel + 5) (endTok p :: lbr q1 :: (nt ++ rbr q2 :: (skip ++ rest))) none out st
      = expandSequence T fuel rest none (out ++ [mkAction p, backTok p, mkAction p]) (popLang T st) := by
  obtain ⟨mac, hmac, hmok⟩ := hsk
  simp only [skipDeclOk, Bool.and_eq_true, List.isEmpty_iff, beq_iff_eq] at hmok
  obtain ⟨⟨⟨ha, hr⟩, he⟩, hh'⟩ := hmok
  rw [expandSequence.eq_3]
  show M.bind' M.get _ st = _
  simp only [M.bind', M.get]
  have hk : (endTok p).kind = .xend := rfl
  simp only [hk, beq_self_eq_true, if_true, reduceCtorEq, beq_iff_eq, if_false]
  refine (M.bind_ok _ _ _ _ _ (endEnvironment_other T (fuel + 2) q1 q2 nt (skip ++ rest) (endTok p) st env
    hn hl hm (by omega))).trans ?_
  simp only [Bool.false_eq_true, if_false]
  show expandSequence T (fuel + 3 + 1) (mkAction p :: backTok p :: cwTok p skipName :: (skip ++ rest)) none out st = _
  rw [seq_action_step T (fuel + 3) p _ none out st hnea]
  unfold backTok
  rw [seq_lang_multi T (fuel + 2) p [] true false false _ none _ st hml]
  change expandSequence T (fuel + 1 + 1) (cwTok p skipName :: (skip ++ rest)) none _ (popLang T st) = _
  rw [PlainRef.cw_head T (fuel + 1) p skipName _ none _ _ (by decide)]
  obtain ⟨f, rfl⟩ : ∃ f, fuel = f + 1 := ⟨fuel - 1, by omega⟩
  have hexp : expandMacro T (f + 1 + 1) (skip ++ rest) (cwTok p skipName) false (popLang T st)
      = .ok (([mkAction p], rest), popLang T st) := by
    rw [expandMacro.eq_2]
    show M.bind' M.get _ (popLang T st) = _
    have hmac' : lookupMacro (popLang T st) (cwTok p skipName).txt = some mac := by
      simpa [lookupMacro, cwTok] using hmac
    simp only [M.bind', M.get, hmac', skipAct_sp skip rest hsp hh]
    exact expandArguments_noargs T f rest mac p (popLang T st) ha hr he hh'
  refine (M.bind_ok _ _ _ _ _ hexp).trans ?_
  show expandSequence T (f + 1 + 1) (mkAction p :: rest) none _ (popLang T st) = _
  rw [seq_action_step T (f + 1) p _ none _ _ hnea']
  simp [mkLang]

/-! ### (3) the loop -/

/-- the pieces of a token buffer: a token that is copied; `\selectlanguage{name}`;
    `\foreignlanguage{name}{body}`; `\begin{otherlanguage[*]}{name}`; `\end{otherlanguage[*]}`
    followed by the white-space tokens `skip` that `\babel@skip@space` swallows -/
inductive Piece where
  | tok (t : Tok)
  | sel (hd lb : Tok) (body : List Tok) (rb : Tok)
  | frn (hd lb1 : Tok) (name : List Tok) (rb1 lb2 : Tok) (body : List Tok) (rb2 : Tok)
  | beg (p q1 : Nat) (en : List Tok) (q2 : Nat) (lb : Tok) (name : List Tok) (rb : Tok)
  | fin (p q1 : Nat) (en : List Tok) (q2 : Nat) (star : Bool) (skip : List Tok)

def Piece.toks : Piece → List Tok
  | .tok t => [t]
  | .sel hd lb b rb => hd :: lb :: (b ++ [rb])
  | .frn hd lb1 n rb1 lb2 b rb2 => hd :: lb1 :: (n ++ rb1 :: lb2 :: (b ++ [rb2]))
  | .beg p q1 en q2 lb n rb => begTok p :: lbr q1 :: (en ++ rbr q2 :: lb :: (n ++ [rb]))
  | .fin p q1 en q2 _ skip => endTok p :: lbr q1 :: (en ++ rbr q2 :: skip)

/-- the token buffer -/
def flat : List Piece → List Tok
  | [] => []
  | p :: ps => p.toks ++ flat ps

/-- the environment named by the tokens `en` is declared in `st` as babel's `otherlanguage[*]` -/
def EnvOk (st : PState) (en : List Tok) (star : Bool) : Prop :=
  ∃ env, lookupEnv st (txtOf en) = some env ∧ envDeclOk star env = true

/-- well-formed buffers; the parser state (its language stack) changes at every switch, at every
    `\begin{otherlanguage}` and at every `\end{otherlanguage}` -/
def PiecesOk (T : PTables) : PState → List Piece → Prop
  | _, [] => True
  | st, .tok t :: rest => CopyTok T st t ∧ PiecesOk T st rest
  | st, .sel hd lb b rb :: rest =>
    SelTok st hd ∧ BraceTok '{' lb ∧ BraceTok '}' rb ∧ b ≠ [] ∧ (∀ t ∈ b, CopyTok T st t) ∧
    (translateLang T (strip (getTxtPos b).1)).isSome = true ∧ noEmptyActive T st = true ∧
    PiecesOk T (setLang T st (codeOf T b)) rest
  | st, .frn hd lb1 n rb1 lb2 b rb2 :: rest =>
    FrnTok st hd ∧ BraceTok '{' lb1 ∧ BraceTok '}' rb1 ∧ BraceTok '{' lb2 ∧ BraceTok '}' rb2 ∧
    n ≠ [] ∧ (∀ t ∈ n, CopyTok T st t) ∧
    (translateLang T (strip (getTxtPos n).1)).isSome = true ∧ noEmptyActive T st = true ∧
    b ≠ [] ∧ (∀ t ∈ b, CopyTok T (pushLang T st (codeOf T n)) t) ∧ PiecesOk T st rest
  | st, .beg _ _ en _ lb n rb :: rest =>
    NameToks T st en ∧ (∃ star, EnvOk st en star) ∧ BraceTok '{' lb ∧ BraceTok '}' rb ∧
    n ≠ [] ∧ (∀ t ∈ n, CopyTok T st t) ∧
    (translateLang T (strip (getTxtPos n).1)).isSome = true ∧ noEmptyActive T st = true ∧
    PiecesOk T (pushLang T st (codeOf T n)) rest
  | st, .fin _ _ en _ star skip :: rest =>
    NameToks T st en ∧ EnvOk st en star ∧ noEmptyActive T st = true ∧
    (star = true → skip = []) ∧
    (star = false → noEmptyActive T (popLang T st) = true ∧ SkipOk st ∧ SpToks skip ∧
      ∀ t, (flat rest).head? = some t → isSpaceTok t = false) ∧
    PiecesOk T (popLang T st) rest

/-- the parser state behind the buffer -/
def finalSt (T : PTables) : PState → List Piece → PState
  | st, [] => st
  | st, .tok _ :: rest => finalSt T st rest
  | st, .sel _ _ b _ :: rest => finalSt T (setLang T st (codeOf T b)) rest
  | st, .frn _ _ _ _ _ _ _ :: rest => finalSt T st rest
  | st, .beg _ _ _ _ _ n _ :: rest => finalSt T (pushLang T st (codeOf T n)) rest
  | st, .fin _ _ _ _ _ _ :: rest => finalSt T (popLang T st) rest

/-- what `\end{otherlanguage[*]}` at `p` leaves -/
def finOut (p : Nat) (star : Bool) : List Tok :=
  mkAction p :: backTok p :: (if star then [] else [mkAction p])

/-- what the loop emits before the blank-line removal -/
def outMain (T : PTables) : List Piece → List Tok
  | [] => []
  | .tok t :: rest => t :: outMain T rest
  | .sel hd _ b _ :: rest => mkAction hd.pos :: selTok T hd.pos (codeOf T b) :: outMain T rest
  | .frn hd _ n _ _ b _ :: rest => frnOut T hd.pos (codeOf T n) b (lastPos b) ++ outMain T rest
  | .beg p _ _ _ _ n _ :: rest => mkAction p :: mkAction p :: obegTok T p (codeOf T n) :: outMain T rest
  | .fin p _ _ _ star _ :: rest => finOut p star ++ outMain T rest

/-- fuel: one unit per copied token; the other pieces are charged the number of their tokens plus a
    constant (the iterations of the loop and what the handlers need below the first of them) -/
def cost : List Piece → Nat
  | [] => 0
  | .tok _ :: rest => 1 + cost rest
  | .sel _ _ b _ :: rest => b.length + 6 + cost rest
  | .frn _ _ n _ _ b _ :: rest => n.length + b.length + 6 + cost rest
  | .beg _ _ en _ _ n _ :: rest => en.length + n.length + 7 + cost rest
  | .fin _ _ en _ _ skip :: rest => en.length + skip.length + 6 + cost rest

theorem changeLang_multi (T : PTables) (st : PState) (l : Str) (b h : Bool) :
    (changeParserLang T st l b h).multiLanguage = st.multiLanguage := by
  unfold changeParserLang
  split
  · split <;> rfl
  · split <;> rfl

/-- **(3) the loop on a buffer of copied tokens, switches, insertions, `\begin{otherlanguage}` and
    `\end{otherlanguage}`**: the output is the blank-line removal applied to `outMain`; the state is
    `finalSt`. -/
theorem seq_mix (T : PTables) :
    ∀ (ps : List Piece) (fuel : Nat) (out : List Tok) (st : PState),
      cost ps + 1 ≤ fuel → st.multiLanguage = true → st.langStack ≠ [] → PiecesOk T st ps →
      expandSequence T fuel (flat ps) none out st
        = match removeLines (out ++ outMain T ps) with
          | some r => .ok ((r, []), finalSt T st ps)
          | none => .outOfFuel := by
  intro ps
  induction ps with
  | nil =>
    intro fuel out st hf _ _ _
    obtain ⟨f, rfl⟩ : ∃ f, fuel = f + 1 := ⟨fuel - 1, by omega⟩
    simp only [flat, outMain, List.append_nil, finalSt]
    rw [expandSequence.eq_2]
    cases removeLines out <;> rfl
  | cons p ps ih =>
    intro fuel out st hf hml hstk hok
    cases p with
    | tok t =>
      simp only [cost] at hf
      obtain ⟨f, rfl⟩ : ∃ f, fuel = f + 1 := ⟨fuel - 1, by omega⟩
      show expandSequence T (f + 1) (t :: flat ps) none out st = _
      rw [seq_plain_step T f t (flat ps) none out st hok.1.plain (Or.inl hok.1.nact),
        ih f (out ++ [t]) st (by omega) hml hstk hok.2]
      simp only [outMain, finalSt, List.append_assoc, List.singleton_append]
    | sel hd lb b rb =>
      obtain ⟨hhd, hlb, hrb, hne, hb, hsome, hnea, hrest⟩ := hok
      simp only [cost] at hf
      obtain ⟨code, hc⟩ : ∃ code, translateLang T (strip (getTxtPos b).1) = some code :=
        Option.isSome_iff_exists.mp hsome
      have hcode : codeOf T b = code := by simp [codeOf, hc]
      obtain ⟨f, rfl⟩ : ∃ f, fuel = f + 3 := ⟨fuel - 3, by omega⟩
      have hflat : flat (Piece.sel hd lb b rb :: ps) = hd :: lb :: (b ++ rb :: flat ps) := by
        simp [flat, Piece.toks]
      rw [hflat, seq_sel_step T f hd lb rb b code (flat ps) none out st hhd hml hnea hlb hrb hb hne
        hc (by omega), ih _ _ _ (by omega) (by simpa using hml) (by simp)
        (by rw [← hcode]; exact hrest)]
      simp only [outMain, finalSt, hcode, List.append_assoc, List.cons_append, List.nil_append]
    | frn hd lb1 n rb1 lb2 b rb2 =>
      obtain ⟨hhd, hlb1, hrb1, hlb2, hrb2, hnne, hn, hsome, hnea, hbne, hb, hrest⟩ := hok
      simp only [cost] at hf
      obtain ⟨code, hc⟩ : ∃ code, translateLang T (strip (getTxtPos n).1) = some code :=
        Option.isSome_iff_exists.mp hsome
      have hcode : codeOf T n = code := by simp [codeOf, hc]
      obtain ⟨last, hlast⟩ : ∃ last, b.getLast? = some last := by
        cases h : b.getLast? with
        | none => exact absurd (List.getLast?_eq_none_iff.mp h) hbne
        | some l => exact ⟨l, rfl⟩
      have hlp : lastPos b = last.pos := by simp [lastPos, hlast]
      obtain ⟨f, rfl⟩ : ∃ f, fuel = f + b.length + 4 := ⟨fuel - b.length - 4, by omega⟩
      have hflat : flat (Piece.frn hd lb1 n rb1 lb2 b rb2 :: ps)
          = hd :: lb1 :: (n ++ rb1 :: lb2 :: (b ++ rb2 :: flat ps)) := by
        simp [flat, Piece.toks]
      rw [hflat, seq_frn_step T f hd lb1 rb1 lb2 rb2 n b last code (flat ps) none out st hhd hml hstk
        hnea hlb1 hrb1 hlb2 hrb2 hn hnne (by rw [← hcode]; exact hb) hlast hc (by omega),
        ih _ _ _ (by omega) hml hstk hrest]
      simp only [outMain, finalSt, hcode, hlp, List.append_assoc]
    | beg p q1 en q2 lb n rb =>
      obtain ⟨hen, ⟨star, env, hl, hdecl⟩, hlb, hrb, hnne, hn, hsome, hnea, hrest⟩ := hok
      simp only [cost] at hf
      obtain ⟨code, hc⟩ : ∃ code, translateLang T (strip (getTxtPos n).1) = some code :=
        Option.isSome_iff_exists.mp hsome
      have hcode : codeOf T n = code := by simp [codeOf, hc]
      obtain ⟨f, rfl⟩ : ∃ f, fuel = f + 4 := ⟨fuel - 4, by omega⟩
      have hflat : flat (Piece.beg p q1 en q2 lb n rb :: ps)
          = begTok p :: lbr q1 :: (en ++ rbr q2 :: lb :: (n ++ rb :: flat ps)) := by
        simp [flat, Piece.toks]
      rw [hflat, seq_obeg_step T f p q1 q2 en lb rb n code (flat ps) none out st env star hen hl
        (envDecl hdecl) hml hnea hlb hrb hn hnne hc (by omega),
        ih _ _ _ (by omega) (by simpa using hml) (by simp) (by rw [← hcode]; exact hrest)]
      simp only [outMain, finalSt, hcode, List.append_assoc, List.cons_append, List.nil_append]
    | fin p q1 en q2 star skip =>
      obtain ⟨hen, ⟨env, hl, hdecl⟩, hnea, hstar, hnostar, hrest⟩ := hok
      simp only [cost] at hf
      have hml' : (popLang T st).multiLanguage = true := by simpa using hml
      have hstk' := popLang_stack_ne T st hstk
      cases star with
      | true =>
        have hsk : skip = [] := hstar rfl
        subst hsk
        obtain ⟨f, rfl⟩ : ∃ f, fuel = f + 3 := ⟨fuel - 3, by omega⟩
        have hflat : flat (Piece.fin p q1 en q2 true [] :: ps)
            = endTok p :: lbr q1 :: (en ++ rbr q2 :: flat ps) := by
          simp [flat, Piece.toks]
        rw [hflat, seq_ofin_star_step T f p q1 q2 en (flat ps) out st env hen hl (envDecl hdecl) hml hnea
          (by omega), ih _ _ _ (by simp only [List.length_nil] at hf; omega) hml' hstk' hrest]
        simp only [outMain, finalSt, finOut, if_true, List.append_assoc, List.cons_append,
          List.nil_append]
      | false =>
        obtain ⟨hnea', hsko, hsp, hh⟩ := hnostar rfl
        obtain ⟨f, rfl⟩ : ∃ f, fuel = f + 5 := ⟨fuel - 5, by omega⟩
        have hflat : flat (Piece.fin p q1 en q2 false skip :: ps)
            = endTok p :: lbr q1 :: (en ++ rbr q2 :: (skip ++ flat ps)) := by
          simp [flat, Piece.toks]
        rw [hflat, seq_ofin_step T f p q1 q2 en skip (flat ps) out st env hen hl (envDecl hdecl) hml hnea
          hnea' hsko hsp hh (by omega), ih _ _ _ (by omega) hml' hstk' hrest]
        simp only [outMain, finalSt, finOut, Bool.false_eq_true, if_false, List.append_assoc,
          List.cons_append, List.nil_append]

/-- the state after the document: only the language stack changes -/
theorem finalSt_frame (T : PTables) : ∀ (ps : List Piece) (st : PState),
    ∃ ls, finalSt T st ps = { st with langStack := ls }
  | [], st => ⟨st.langStack, rfl⟩
  | .tok _ :: rest, st => finalSt_frame T rest st
  | .sel _ _ b _ :: rest, st => by
    obtain ⟨ls, h⟩ := finalSt_frame T rest (setLang T st (codeOf T b))
    refine ⟨ls, ?_⟩
    simp only [finalSt]
    rw [h, PlainLang.setLang_eq]
  | .frn _ _ _ _ _ _ _ :: rest, st => finalSt_frame T rest st
  | .beg _ _ _ _ _ n _ :: rest, st => by
    obtain ⟨ls, h⟩ := finalSt_frame T rest (pushLang T st (codeOf T n))
    refine ⟨ls, ?_⟩
    simp only [finalSt]
    rw [h, pushLang_eq]
  | .fin _ _ _ _ _ _ :: rest, st => by
    obtain ⟨ls, h⟩ := finalSt_frame T rest (popLang T st)
    refine ⟨ls, ?_⟩
    simp only [finalSt]
    rw [h, popLang_eq]
    split <;> rfl

end PlainLangMix
end Yalafi
