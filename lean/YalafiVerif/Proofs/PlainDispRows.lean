/-
  Proofs/PlainDispRows.lean — C11 "displayed equations follow the documented scheme and keep their
  punctuation", end to end on the model, for the ROW / SECTION STRUCTURE of displayed equations:
  documents of inert text (as in Proofs/PlainDisplay.lean) and displayed equations

      \[ body \]        or        \begin{name} body \end{name}          (name: equation environment)

      body ::= row (`\\` row)*        row ::= section (`&` section)*

  where every section is a (possibly empty) run of simple maths characters in the sense of
  Proofs/PlainMath.lean (`bodyOk`: letters, digits, `+ - = < > ( ) / * , . ; :` …, white space without
  paragraph break; no macro, so no `\text`, no `\le`): in particular
      section ::= [leading operator] simple maths [closing punctuation]
  but also operator-only sections as the `=` of `a &=& b` in an `eqnarray`, and empty sections.
  (Token level: Proofs/PlainDispRowsTok.lean; statements for Properties: Properties/PlainDispRowsStmt.lean.)

  What the model (= `mathparser.py`: `expand_display_math`, `replace_section`) does — found by `#eval`
  and comparison with the Python code, then proved:
    * the equation starts with two blanks (mapped to the `\` of `\[` / `\begin`); the rows are joined
      by line break + two blanks, the sections of a row by ONE blank; both separators carry the
      position of the last token generated before (`RefSt.last`); no line break is generated in
      front of or behind the equation;
    * a section that is only white space generates nothing and changes nothing;
    * otherwise, with `f` = position of its first character that is no white space:
        - if it is NOT the first section of its row and starts with an operator (`math_operators`):
          blank, the language's word for the operator (`math_op_text`, default `math_op_text[None]`:
          'en': `+` plus, `-` minus, `/` over, every other operator equal), blank — all three at `f`;
        - if it holds an element character (no white space, no operator, no punctuation mark): the
          current placeholder of the display collection, at the position of the first element
          character; the collection is ROTATED before, iff `next_repl` is set or the operator word
          has just been written: `next_repl` is set at the start of the equation, behind a closing
          punctuation mark, and behind a section that starts with an operator and has no element
          (e.g. the `=` of `&=&`); it is cleared by every other section that is not only white space;
        - if its last character that is no white space is a punctuation mark (`math_punctuation`:
          `. , ; :`): this mark, at `f` — directly behind the placeholder of the section;
    * the rotation of the collection goes on from equation to equation (`RefSt.k` counts the
      rotations: placeholder `k mod length`), `next_repl` is reset for every equation.
  So `\begin{eqnarray} a &=& b + c, \\ &=& d. \end{eqnarray}` ↦ `  V-V-V  equal  W-W-W,⏎    equal  X-X-X.`

  Source level (this file)
    `Row`, `Rows`, `rowsSrc`, `Seg`, `render`          documents
    `secOk`, `moreOk`, `rowOk`, `moreRowsOk`, `rowsOk`, `dispOk`, `envOk`, `segsOk`, `SegsOk`   conditions
    `RefSt`, `secRef`, `rowRef`, `rowsRef`, `eqnRef`, `refOut`     the reference output
    `Run`, `scanSteps_sec`, `scanSteps_rows`, `scanSteps_doc`, `scan_doc`   the scanner
    `sec_corr`, `row_corr`, `rows_corr`, `getTxtPos_eqnToks`       tokens ↔ reference
    `parserWork_rows`, `parse_rows`, `tex2txt_rows_src`, `tex2txt_display_rows`   the lifts

  Side conditions of `tex2txt_display_rows` (all computable; reasons)
    options / initialisation   as in `tex2txt_display`: no --defs, --extr, --repl, --unkn, --seqs
                               (`st1.displayedSimple = false`), single-language mode
    text segments `textOkD`    as in Proofs/PlainDisplay.lean
    `rowsOk` (the body)        * every section: `bodyOk` in its right context (no white space, none of
                                 `% # \ $ { }`, not in `math_ignore` / `math_space`, no special sequence
                                 matches; white-space runs with at most one line break) and no `&`;
                               * `ampAt` / `nlAt`: `&` and `\\` are scanned as the special tokens `&`, `\\`
                                 (they are special sequences of the real tables);
                               * a row behind `\\` does not start with `[` (it would be taken as the
                                 optional argument `\\[2ex]`: not covered);
    `eqnVis`                   the FIRST and the LAST row of the equation generate text (an element, a
                                 closing punctuation mark, or an operator word): otherwise
                                 `remove_pure_action_lines` may delete the line of that row together
                                 with the Action token at the start / end of the equation
                                 (`\[ = \\ a \\ b \]` ↦ `  V-V-V⏎  V-V-V`, one line less) — not covered;
    `dispOk` / `envOk`         the opening and closing commands as in Proofs/PlainDisplay.lean
    `rotOf …`, `repls ≠ []`, `VisibleRepls repls`   the display collection (as in `tex2txt_display`)
    `settingsOf … = some ls`, `ls.opDefault = some d`   the language settings exist and have a default
                               operator word (Python: `KeyError` otherwise)
    `VisWords ls.opText d`     no operator word is blank or contains a line break (blank-line removal)
    fuel                       `(render segs).length + 2 ≤ fuel`
  NOT covered: `$$ … $$`; `\text{…}` / `\mbox{…}` parts, macros (`\le`, `\alpha`, `\frac`), braces,
  sub- and superscripts, maths space (`~`, `\,`) inside sections; `\\[…]`; rows whose line vanishes
  (see `eqnVis`); environments with arguments (`alignat`; `align`, `gather` … are declared by the
  package amsmath only — once declared without arguments they are covered, the theorem is parametric in
  the state after initialisation);
  `--seqs`; equations inside macro arguments; multi-language mode.
-/
import YalafiVerif.Proofs.PlainDispRowsTok
namespace Yalafi
namespace PlainDispRows

open M
open PlainMath (BodyTok mathToks mathToks_cons_space mathToks_cons_body firstPos bodyTxt punctChar
  rotN VisibleRepls hasNl_single bodyOk mathAt mathAtFacts MathAtFacts bodyTokAt nextToken_body
  bodyTok_bodyTokAt bodyOk_drop takeWhile_append_stop' punctOf leadBlanks placeholder rotN_succ
  rotN_headD)
open PlainDisplay (DTok bodyToksOf bodyToksOf_space bodyTxt_bodyToksOf firstPos_bodyToksOf
  elemPos_bodyToksOf dTok_bodyTokAt elemChar elemOff openAt closeAt sOpen sClose nextToken_open
  nextToken_close okAtD textOkD isElemSrc defEnvOk equEnvAt endSrc firstTokTxtD okAtD_snd
  firstTokTxtD_of_text getTxtPos_action_cons inertChar_congr)
open PlainMacro (lbr rbr braceAt nextToken_brace scanSteps_step)
open PlainItem (begTok endTok NameToks nBegin nEnd nextToken_begin nextToken_end nameToks_of_bodyRun)

/-! ### the documents -/

/-- a row of an equation: its first section, and the further sections (each preceded by `&`) -/
abbrev Row := Str × List Str

/-- the body of an equation: its first row, and the further rows (each preceded by `\\`) -/
abbrev Rows := Row × List Row

def moreSrc (more : List Str) : Str := more.flatMap (fun s => '&' :: s)
def rowSrc (r : Row) : Str := r.1 ++ moreSrc r.2
def moreRowsSrc (m : List Row) : Str := m.flatMap (fun r => '\\' :: '\\' :: rowSrc r)
/-- the source text of the body -/
def rowsSrc (b : Rows) : Str := rowSrc b.1 ++ moreRowsSrc b.2

/-- rows given as lists of sections (an empty list counts as one empty section / row) -/
def rowOf (l : List Str) : Row := (l.headD [], l.tail)
def rowsOf (l : List (List Str)) : Rows := (rowOf (l.headD []), l.tail.map rowOf)

/-- number of rows -/
def nRows (b : Rows) : Nat := b.2.length + 1

/-- a segment of the source: a run of text, an equation `\[body\]`, or an equation
    `\begin{name}body\end{name}` -/
inductive Seg where
  | txt (s : Str)
  | disp (b : Rows)
  | env (name : Str) (b : Rows)
deriving Repr, DecidableEq

def Seg.render : Seg → Str
  | .txt s => s
  | .disp b => '\\' :: '[' :: (rowsSrc b ++ ['\\', ']'])
  | .env name b =>
    '\\' :: (nBegin ++ '{' :: (name ++ '}' :: (rowsSrc b ++ '\\' :: (nEnd ++ '{' :: (name ++ ['}'])))))

/-- the source text -/
def render : List Seg → Str
  | [] => []
  | s :: rest => s.render ++ render rest

/-! ### the side conditions -/

/-- `&`, followed by `rest`, is scanned as the special token `&` -/
def ampAt (T : PTables) (rest : Str) : Bool :=
  matchSpecial T.toTables ('&' :: rest) == some ['&']

/-- `\\`, followed by `rest`, is scanned as the special token `\\` -/
def nlAt (T : PTables) (rest : Str) : Bool :=
  matchSpecial T.toTables ('\\' :: '\\' :: rest) == some ['\\', '\\']

/-- the section `s`, followed by `ctx`: simple maths material (`bodyOk` of Proofs/PlainMath.lean)
    without `&` -/
def secOk (T : PTables) (s ctx : Str) : Bool :=
  bodyOk T s ctx && s.all (fun c => c != '&')

/-- the further sections of a row, followed by `R` -/
def moreOk (T : PTables) : List Str → Str → Bool
  | [], _ => true
  | s :: more, R =>
    ampAt T (s ++ (moreSrc more ++ R)) && secOk T s (moreSrc more ++ R) && moreOk T more R

def rowOk (T : PTables) (r : Row) (R : Str) : Bool :=
  secOk T r.1 (moreSrc r.2 ++ R) && moreOk T r.2 R

/-- the further rows of an equation, followed by `R`; a row does not start with `[` -/
def moreRowsOk (T : PTables) : List Row → Str → Bool
  | [], _ => true
  | r :: m, R =>
    nlAt T (rowSrc r ++ (moreRowsSrc m ++ R)) && r.1.head? != some '[' &&
      rowOk T r (moreRowsSrc m ++ R) && moreRowsOk T m R

def rowsOk (T : PTables) (b : Rows) (R : Str) : Bool :=
  rowOk T b.1 (moreRowsSrc b.2 ++ R) && moreRowsOk T b.2 R

/-- the first character of the section that is no white space -/
def leadChar (s : Str) : Option Char := (s.dropWhile isSpace).head?

/-- the section starts with an operator -/
def leadOp (ops : List Str) (s : Str) : Bool :=
  match leadChar s with
  | some c => ops.contains [c]
  | none => false

/-- the section generates text: it holds an element character, ends with a punctuation mark, or
    (not being the first of its row) starts with an operator -/
def secVis (T : PTables) (ops : List Str) (fs : Bool) (s : Str) : Bool :=
  s.any (elemChar T ops) || !(punctOf T s).isEmpty || (leadOp ops s && !fs)

def rowVis (T : PTables) (ops : List Str) (r : Row) : Bool :=
  secVis T ops true r.1 || r.2.any (secVis T ops false)

def lastRowS (b : Rows) : Row :=
  match b.2.getLast? with
  | some r => r
  | none => b.1

/-- the first and the last row of the equation generate text -/
def eqnVis (T : PTables) (ops : List Str) (b : Rows) : Bool :=
  rowVis T ops b.1 && rowVis T ops (lastRowS b)

/-- the equation `\[body\]`, followed by `R` -/
def dispOk (T : PTables) (st : PState) (b : Rows) (R : Str) : Bool :=
  defEnvOk T st && openAt T (rowsSrc b ++ '\\' :: ']' :: R) && rowsOk T b ('\\' :: ']' :: R) &&
  eqnVis T st.mathOperators b && closeAt T R

/-- the equation `\begin{name}body\end{name}`, followed by `R` (as `envOk` of
    Proofs/PlainDisplay.lean, with the new bodies) -/
def envOk (T : PTables) (st : PState) (name : Str) (b : Rows) (R : Str) : Bool :=
  noEmptyActive T st &&
  (matchSpecial T.toTables ('\\' :: (nBegin ++ '{' :: (name ++ '}' :: (rowsSrc b ++ endSrc name R))))).isNone &&
  !startsWith ('{' :: (name ++ '}' :: (rowsSrc b ++ endSrc name R))) sVerbatimArg &&
  braceAt T '{' (name ++ '}' :: (rowsSrc b ++ endSrc name R)) &&
  !name.isEmpty && name.all (inertChar T st) &&
  braceAt T '}' (rowsSrc b ++ endSrc name R) && equEnvAt st name &&
  rowsOk T b (endSrc name R) && eqnVis T st.mathOperators b &&
  (matchSpecial T.toTables (endSrc name R)).isNone &&
  braceAt T '{' (name ++ '}' :: R) && braceAt T '}' R

/-- well-formed documents: every segment is fine in front of the rendering of the following ones -/
def segsOk (T : PTables) (st : PState) : List Seg → Bool
  | [] => true
  | .txt s :: rest => textOkD T st s (render rest) && segsOk T st rest
  | .disp b :: rest => dispOk T st b (render rest) && segsOk T st rest
  | .env name b :: rest => envOk T st name b (render rest) && segsOk T st rest

/-! ### the reference output -/

/-- the state threaded through the sections of the equations: `next_repl`, the number of rotations
    of the display collection so far, the position of the last piece generated -/
structure RefSt where
  nr : Bool
  k : Nat
  last : Nat

/-- position of the last piece (`d` if there is none) -/
def lastP (d : Nat) (pcs : List (Str × Nat)) : Nat := (pcs.getLast?.map (·.2)).getD d

/-- the language's word for an operator -/
def opW (ls : LangSettings) (x : Str) : Str := opWord ls.opText (ls.opDefault.getD []) x

/-- **one section** `s` that starts at offset `q`; `fs` = it is the first section of its row.
    Pieces of output text, each with the one source position all its characters are mapped to. -/
def secRef (T : PTables) (ops : List Str) (ls : LangSettings) (repls : List Str) (fs : Bool)
    (σ : RefSt) (q : Nat) (s : Str) : List (Str × Nat) × RefSt :=
  if s.all isSpace then ([], σ) else
    let f := q + leadBlanks s
    let el := s.any (elemChar T ops)
    let word := leadOp ops s && !fs
    let k' := if (σ.nr || word) && el then σ.k + 1 else σ.k
    let pcs :=
      (if word then [([' '], f), (opW ls (leadChar s).toList, f), ([' '], f)] else [])
      ++ (if el then [(placeholder repls k', q + elemOff T ops s)] else [])
      ++ (if (punctOf T s).isEmpty then [] else [(punctOf T s, f)])
    (pcs, { nr := !(punctOf T s).isEmpty || (leadOp ops s && !el), k := k', last := lastP σ.last pcs })

/-- the further sections of a row; `q` = offset of the `&` in front of the next one: one blank at the
    position of the last piece, then the section -/
def moreRef (T : PTables) (ops : List Str) (ls : LangSettings) (repls : List Str) :
    RefSt → Nat → List Str → List (Str × Nat) × RefSt
  | σ, _, [] => ([], σ)
  | σ, q, s :: more =>
    (([' '], σ.last) :: (secRef T ops ls repls false σ (q + 1) s).1
        ++ (moreRef T ops ls repls (secRef T ops ls repls false σ (q + 1) s).2 (q + 1 + s.length) more).1,
     (moreRef T ops ls repls (secRef T ops ls repls false σ (q + 1) s).2 (q + 1 + s.length) more).2)

/-- **one row** that starts at offset `q` -/
def rowRef (T : PTables) (ops : List Str) (ls : LangSettings) (repls : List Str)
    (σ : RefSt) (q : Nat) (r : Row) : List (Str × Nat) × RefSt :=
  ((secRef T ops ls repls true σ q r.1).1
      ++ (moreRef T ops ls repls (secRef T ops ls repls true σ q r.1).2 (q + r.1.length) r.2).1,
   (moreRef T ops ls repls (secRef T ops ls repls true σ q r.1).2 (q + r.1.length) r.2).2)

/-- the further rows; `q` = offset of the `\\` in front of the next one: line break and indentation
    at the position of the last piece, then the row -/
def moreRowsRef (T : PTables) (ops : List Str) (ls : LangSettings) (repls : List Str) :
    RefSt → Nat → List Row → List (Str × Nat) × RefSt
  | σ, _, [] => ([], σ)
  | σ, q, r :: m =>
    (([nl, ' ', ' '], σ.last) :: (rowRef T ops ls repls σ (q + 2) r).1
        ++ (moreRowsRef T ops ls repls (rowRef T ops ls repls σ (q + 2) r).2 (q + 2 + (rowSrc r).length) m).1,
     (moreRowsRef T ops ls repls (rowRef T ops ls repls σ (q + 2) r).2 (q + 2 + (rowSrc r).length) m).2)

/-- **the rows** of an equation whose body starts at offset `q` -/
def rowsRef (T : PTables) (ops : List Str) (ls : LangSettings) (repls : List Str)
    (σ : RefSt) (q : Nat) (b : Rows) : List (Str × Nat) × RefSt :=
  ((rowRef T ops ls repls σ q b.1).1
      ++ (moreRowsRef T ops ls repls (rowRef T ops ls repls σ q b.1).2 (q + (rowSrc b.1).length) b.2).1,
   (moreRowsRef T ops ls repls (rowRef T ops ls repls σ q b.1).2 (q + (rowSrc b.1).length) b.2).2)

/-- **one equation**: `k` rotations so far, opening command at offset `p`, body at `p + o`:
    two blanks at `p`, then the rows (`next_repl` set) -/
def eqnRef (T : PTables) (ops : List Str) (ls : LangSettings) (repls : List Str) (k p o : Nat)
    (b : Rows) : List (Str × Nat) × RefSt :=
  (([' ', ' '], p) :: (rowsRef T ops ls repls { nr := true, k := k, last := p } (p + o) b).1,
   (rowsRef T ops ls repls { nr := true, k := k, last := p } (p + o) b).2)

/-- the characters of the pieces, each with the position of its piece -/
def spread (pcs : List (Str × Nat)) : List (Char × Nat) := pcs.flatMap (fun x => x.1.map (fun c => (c, x.2)))

/-- the rendering of an equation, as characters with their (0-based) source positions -/
def eqnOut (T : PTables) (ops : List Str) (ls : LangSettings) (repls : List Str) (k p o : Nat)
    (b : Rows) : List (Char × Nat) := spread (eqnRef T ops ls repls k p o b).1

/-- the number of rotations behind the equation -/
def eqnK (T : PTables) (ops : List Str) (ls : LangSettings) (repls : List Str) (k p o : Nat)
    (b : Rows) : Nat := (eqnRef T ops ls repls k p o b).2.k

/-- **the reference output** (characters with 0-based source positions) of the segments that start
    at offset `p`, the display collection having been rotated `k` times before: text is copied with
    its positions, an equation is rendered as `eqnOut` -/
def refOut (T : PTables) (ops : List Str) (ls : LangSettings) (repls : List Str) :
    Nat → Nat → List Seg → List (Char × Nat)
  | _, _, [] => []
  | k, p, .txt s :: rest => posText p s ++ refOut T ops ls repls k (p + s.length) rest
  | k, p, .disp b :: rest =>
    eqnOut T ops ls repls k p 2 b
      ++ refOut T ops ls repls (eqnK T ops ls repls k p 2 b) (p + ((rowsSrc b).length + 4)) rest
  | k, p, .env name b :: rest =>
    eqnOut T ops ls repls k p (name.length + 8) b
      ++ refOut T ops ls repls (eqnK T ops ls repls k p (name.length + 8) b)
          (p + (2 * name.length + (rowsSrc b).length + 14)) rest

/-! ### the scanner: runs -/

/-- the scanner loop runs through the text `s` (in front of `R`) and yields `steps` without
    diagnostics; one unit of fuel per step -/
def Run (T : Tables) (src : Str) (fuel pos : Nat) (s R : Str) (steps : List ScanStep) : Prop :=
  steps.length ≤ s.length ∧ (∀ x ∈ steps, x.diag = none ∧ x.extra = []) ∧
  scanSteps T src fuel pos (s ++ R)
    = (steps ++ (scanSteps T src (fuel - steps.length) (pos + s.length) R).1,
       (scanSteps T src (fuel - steps.length) (pos + s.length) R).2)

theorem Run.nil (T : Tables) (src : Str) (fuel pos : Nat) (R : Str) : Run T src fuel pos [] R [] :=
  ⟨Nat.le_refl _, by simp, by simp⟩

theorem Run.append {T : Tables} {src : Str} {fuel pos : Nat} {s1 s2 R : Str} {st1 st2 : List ScanStep}
    (h1 : Run T src fuel pos s1 (s2 ++ R) st1)
    (h2 : Run T src (fuel - st1.length) (pos + s1.length) s2 R st2) :
    Run T src fuel pos (s1 ++ s2) R (st1 ++ st2) := by
  obtain ⟨a1, b1, c1⟩ := h1
  obtain ⟨a2, b2, c2⟩ := h2
  refine ⟨by simp only [List.length_append]; omega, ?_, ?_⟩
  · intro x hx
    rcases List.mem_append.mp hx with hx | hx
    · exact b1 x hx
    · exact b2 x hx
  · rw [List.append_assoc, c1, c2]
    simp only [List.length_append, List.append_assoc, Nat.sub_sub, Nat.add_assoc]

theorem Run.one {T : Tables} {src : Str} {fuel pos : Nat} {s R : Str} (step : ScanStep)
    (hn : nextToken T src pos (s ++ R) = step) (hl : step.len = s.length) (hs : s ≠ [])
    (hd : step.diag = none) (he : step.extra = []) (hf : 1 ≤ fuel) :
    Run T src fuel pos s R [step] := by
  obtain ⟨f, rfl⟩ : ∃ f, fuel = f + 1 := ⟨fuel - 1, by omega⟩
  cases s with
  | nil => exact absurd rfl hs
  | cons c cs =>
    refine ⟨by simp, ?_, ?_⟩
    · intro x hx
      simp only [List.mem_singleton] at hx
      subst hx
      exact ⟨hd, he⟩
    · rw [List.cons_append] at hn ⊢
      rw [scanSteps_step T src f pos c _ step hn (by rw [hl]; simp), hl,
        show (c :: (cs ++ R)).drop (c :: cs).length = R by
          rw [← List.cons_append]; exact List.drop_left]
      simp

/-! ### the scanner on a section -/

/-- what the scanner loop yields on a section that starts at `pos` -/
structure SecRun (T : PTables) (pos : Nat) (s : Str) (steps : List ScanStep) : Prop where
  ok : ∀ x ∈ steps, SItem T x.tok
  toks : mathToks (steps.map (·.tok)) = bodyToksOf pos s
  head : ∀ x xs, steps = x :: xs → x.tok.txt = ['['] → s.head? = some '['

theorem SecRun.ok' {T : PTables} {pos : Nat} {s : Str} {steps : List ScanStep} (h : SecRun T pos s steps) :
    ∀ t ∈ steps.map (·.tok), SItem T t := by
  intro t ht
  obtain ⟨x, hx, rfl⟩ := List.mem_map.mp ht
  exact h.ok x hx

theorem secOk_iff {T : PTables} {s ctx : Str} (h : secOk T s ctx = true) :
    bodyOk T s ctx = true ∧ s.all (fun c => c != '&') = true := by
  simpa [secOk] using h

/-- the scanner loop runs through a section (which is followed by a character `x` that is no white
    space): one text token per character that is no white space, one space token per run of white
    space -/
theorem scanSteps_sec (T : PTables) (src : Str) (x : Char) (R : Str) (hx : isSpace x = false) :
    ∀ (n : Nat) (s : Str) (pos fuel : Nat), s.length ≤ n → s.length ≤ fuel →
      bodyOk T s (x :: R) = true → s.all (fun c => c != '&') = true →
      ∃ steps, SecRun T pos s steps ∧ Run T.toTables src fuel pos s (x :: R) steps := by
  intro n
  induction n with
  | zero =>
    intro s pos fuel hn _ _ _
    have : s = [] := by cases s <;> simp_all
    subst this
    exact ⟨[], ⟨by simp, rfl, by simp⟩, Run.nil _ _ _ _ _⟩
  | succ n ih =>
    intro s pos fuel hn hf hok hamp
    cases s with
    | nil => exact ⟨[], ⟨by simp, rfl, by simp⟩, Run.nil _ _ _ _ _⟩
    | cons c cs =>
      have hok0 := hok
      simp only [bodyOk, Bool.and_eq_true] at hok
      by_cases hsp : isSpace c = true
      · -- a run of white space
        simp only [hsp, if_true, decide_eq_true_eq] at hok
        have hwe : (c :: (cs ++ x :: R)).takeWhile isSpace = (c :: cs).takeWhile isSpace :=
          takeWhile_append_stop' isSpace x hx (c :: cs) R
        generalize hw : (c :: cs).takeWhile isSpace = w at hwe
        have hw' : w = c :: cs.takeWhile isSpace := by rw [← hw]; simp [hsp]
        have hall : ∀ d ∈ w, isSpace d = true := by
          intro d hd; rw [← hw] at hd; exact mem_takeWhile_imp _ _ _ hd
        have hsplit : w ++ (c :: cs).dropWhile isSpace = c :: cs := by
          rw [← hw]; exact List.takeWhile_append_dropWhile
        generalize hs' : (c :: cs).dropWhile isSpace = s' at hsplit
        have hlen : w.length + s'.length = cs.length + 1 := by
          rw [← List.length_append, hsplit]; rfl
        simp only [List.length_cons] at hn hf
        have hwpos : 1 ≤ w.length := by rw [hw']; simp
        have hnt : nextToken T.toTables src pos (w ++ (s' ++ x :: R))
            = { tok := { kind := .space, pos := pos, txt := w }, len := w.length } := by
          rw [← List.append_assoc, hsplit, List.cons_append]
          have h1 : nextToken T.toTables src pos (c :: (cs ++ x :: R))
              = scanSpace pos (c :: (cs ++ x :: R)) := by simp [nextToken, hsp]
          rw [h1]
          simp only [scanSpace, hwe]
          rw [hwe] at hok
          simp [hok.1]
        have hoks' : bodyOk T s' (x :: R) = true := by
          have := bodyOk_drop T (x :: R) w.length (c :: cs) hok0
          rw [← hsplit, List.drop_left] at this
          exact this
        have hamp' : s'.all (fun c => c != '&') = true := by
          rw [← hsplit, List.all_append, Bool.and_eq_true] at hamp
          exact hamp.2
        obtain ⟨steps', B, hrun⟩ := ih s' (pos + w.length) (fuel - 1) (by omega) (by omega) hoks' hamp'
        have hone : Run T.toTables src fuel pos w (s' ++ x :: R)
            [{ tok := { kind := .space, pos := pos, txt := w }, len := w.length }] :=
          Run.one _ hnt rfl (by rw [hw']; simp) rfl rfl (by omega)
        have hrun2 := Run.append hone hrun
        rw [hsplit] at hrun2
        refine ⟨_, ⟨?_, ?_, ?_⟩, hrun2⟩
        · intro y hy
          simp only [List.singleton_append, List.mem_cons] at hy
          rcases hy with rfl | hy
          · exact Or.inr ⟨rfl, by simpa [isBlank] using hall⟩
          · exact B.ok y hy
        · rw [List.singleton_append, List.map_cons, mathToks_cons_space _ _ rfl, B.toks, ← hsplit,
            bodyToksOf_space w s' pos hall]
        · intro y ys he hbr
          simp only [List.singleton_append, List.cons.injEq] at he
          rw [← he.1] at hbr
          have : isSpace '[' = true := hall '[' (by rw [show w = ['['] from hbr]; simp)
          exact absurd this (by decide)
      · -- a body character
        have hsp' : isSpace c = false := by simpa using hsp
        simp only [hsp', Bool.false_eq_true, if_false] at hok
        have facts := mathAtFacts hok.1
        have hnt := nextToken_body T src pos c (cs ++ x :: R) facts
        simp only [List.all_cons, Bool.and_eq_true, bne_iff_ne, ne_eq] at hamp
        simp only [List.length_cons] at hn hf
        obtain ⟨steps', B, hrun⟩ := ih cs (pos + 1) (fuel - 1) (by omega) (by omega) hok.2
          (by simpa using hamp.2)
        have hbt := dTok_bodyTokAt T pos c _ facts hamp.1
        have hone : Run T.toTables src fuel pos [c] (cs ++ x :: R) [{ tok := bodyTokAt pos c, len := 1 }] :=
          Run.one _ hnt rfl (by simp) rfl rfl (by omega)
        have hrun2 := Run.append hone hrun
        refine ⟨_, ⟨?_, ?_, ?_⟩, hrun2⟩
        · intro y hy
          simp only [List.singleton_append, List.mem_cons] at hy
          rcases hy with rfl | hy
          · exact Or.inl hbt
          · exact B.ok y hy
        · rw [List.singleton_append, List.map_cons, mathToks_cons_body T _ _ hbt.body, B.toks]
          simp [bodyToksOf, hsp']
        · intro y ys he hbr
          simp only [List.singleton_append, List.cons.injEq] at he
          rw [← he.1] at hbr
          have : c = '[' := by simpa [bodyTokAt] using hbr
          simp [this]

/-! ### the scanner on rows -/

/-- the tokens `b` are those of the section `s` at offset `p` -/
def SecCorr (T : PTables) (p : Nat) (s : Str) (b : List Tok) : Prop :=
  (∀ t ∈ b, SItem T t) ∧ mathToks b = bodyToksOf p s ∧
  (∀ t, b.head? = some t → t.txt = ['['] → s.head? = some '[')

def MoreCorr (T : PTables) : Nat → List Str → List (Tok × List Tok) → Prop
  | _, [], [] => True
  | p, s :: ss, x :: xs => AmpTok x.1 ∧ SecCorr T (p + 1) s x.2 ∧ MoreCorr T (p + 1 + s.length) ss xs
  | _, _, _ => False

def RowCorr (T : PTables) (p : Nat) (r : Row) (tr : RowT) : Prop :=
  SecCorr T p r.1 tr.1 ∧ MoreCorr T (p + r.1.length) r.2 tr.2

def MoreRowsCorr (T : PTables) : Nat → List Row → List (Tok × RowT) → Prop
  | _, [], [] => True
  | p, r :: rs, x :: xs =>
    NlTok x.1 ∧ RowCorr T (p + 2) r x.2 ∧ MoreRowsCorr T (p + 2 + (rowSrc r).length) rs xs
  | _, _, _ => False

def RowsCorr (T : PTables) (p : Nat) (b : Rows) (tr : RowsT) : Prop :=
  RowCorr T p b.1 tr.1 ∧ MoreRowsCorr T (p + (rowSrc b.1).length) b.2 tr.2

theorem nextToken_amp (T : PTables) (src : Str) (pos : Nat) (rest : Str) (h : ampAt T rest = true) :
    nextToken T.toTables src pos ('&' :: rest)
      = { tok := { kind := .special, pos := pos, txt := ['&'] }, len := 1 } := by
  have hm : matchSpecial T.toTables ('&' :: rest) = some ['&'] := by simpa [ampAt] using h
  unfold nextToken
  simp only [show isSpace '&' = false by decide, show ('&' == '%') = false by decide,
    show ('&' == '#') = false by decide, Bool.false_eq_true, if_false, hm]
  rfl

theorem nextToken_nl (T : PTables) (src : Str) (pos : Nat) (rest : Str) (h : nlAt T rest = true) :
    nextToken T.toTables src pos ('\\' :: '\\' :: rest)
      = { tok := { kind := .special, pos := pos, txt := ['\\', '\\'] }, len := 2 } := by
  have hm : matchSpecial T.toTables ('\\' :: '\\' :: rest) = some ['\\', '\\'] := by simpa [nlAt] using h
  unfold nextToken
  simp only [show isSpace '\\' = false by decide, show ('\\' == '%') = false by decide,
    show ('\\' == '#') = false by decide, Bool.false_eq_true, if_false, hm]
  rfl

/-- what follows a section inside a row: `&` or the `\` behind the row -/
theorem moreSrc_ctx (more : List Str) (R : Str) :
    ∃ x R', moreSrc more ++ '\\' :: R = x :: R' ∧ isSpace x = false := by
  cases more with
  | nil => exact ⟨'\\', R, rfl, by decide⟩
  | cons s ss => exact ⟨'&', s ++ moreSrc ss ++ '\\' :: R, by simp [moreSrc], by decide⟩

theorem scanSteps_more (T : PTables) (src : Str) (R : Str) :
    ∀ (more : List Str) (pos fuel : Nat), (moreSrc more).length ≤ fuel →
      moreOk T more ('\\' :: R) = true →
      ∃ steps xs, MoreCorr T pos more xs ∧ steps.map (·.tok) = moreBuf xs ∧
        moreCost xs ≤ (moreSrc more).length ∧
        Run T.toTables src fuel pos (moreSrc more) ('\\' :: R) steps
  | [], pos, fuel, _, _ => ⟨[], [], trivial, rfl, by simp [moreCost], Run.nil _ _ _ _ _⟩
  | s :: more, pos, fuel, hf, hok => by
    simp only [moreOk, Bool.and_eq_true] at hok
    obtain ⟨⟨hamp, hsec⟩, hmore⟩ := hok
    obtain ⟨hb, ha⟩ := secOk_iff hsec
    have hsrc : moreSrc (s :: more) = ['&'] ++ (s ++ moreSrc more) := by simp [moreSrc]
    rw [hsrc] at hf ⊢
    simp only [List.length_append, List.length_cons, List.length_nil] at hf
    obtain ⟨x, R', hctx, hx⟩ := moreSrc_ctx more R
    rw [hctx] at hb
    have hone : Run T.toTables src fuel pos ['&'] ((s ++ moreSrc more) ++ '\\' :: R)
        [{ tok := { kind := .special, pos := pos, txt := ['&'] }, len := 1 }] := by
      refine Run.one _ ?_ rfl (by simp) rfl rfl (by omega)
      rw [List.singleton_append, List.append_assoc]
      exact nextToken_amp T src pos _ hamp
    obtain ⟨st2, B, hrun2⟩ := scanSteps_sec T src x R' hx s.length s (pos + 1) (fuel - 1)
      (Nat.le_refl _) (by omega) hb ha
    rw [← hctx] at hrun2
    obtain ⟨st3, xs, hc, htoks, hcost, hrun3⟩ := scanSteps_more T src R more (pos + 1 + s.length)
      (fuel - 1 - st2.length) (by have := hrun2.1; omega) hmore
    have h12 := Run.append hone (by
      simp only [List.length_singleton]
      exact Run.append hrun2 hrun3)
    refine ⟨_, ({ kind := .special, pos := pos, txt := ['&'] }, st2.map (·.tok)) :: xs,
      ⟨⟨rfl, rfl⟩, ⟨B.ok', B.toks, ?_⟩, hc⟩, ?_, ?_, h12⟩
    · intro t ht
      cases st2 with
      | nil => simp at ht
      | cons y ys =>
        simp only [List.map_cons, List.head?_cons, Option.some.injEq] at ht
        subst ht
        exact B.head y ys rfl
    · simp [moreBuf, htoks]
    · have := hrun2.1
      simp only [moreCost, List.length_map, List.length_append, List.length_singleton]
      omega

theorem scanSteps_row (T : PTables) (src : Str) (R : Str) (r : Row) (pos fuel : Nat)
    (hf : (rowSrc r).length ≤ fuel) (hok : rowOk T r ('\\' :: R) = true) :
    ∃ steps tr, RowCorr T pos r tr ∧ steps.map (·.tok) = rowBuf tr ∧
      rowCost tr ≤ (rowSrc r).length + 1 ∧
      Run T.toTables src fuel pos (rowSrc r) ('\\' :: R) steps := by
  obtain ⟨s0, more⟩ := r
  simp only [rowOk, Bool.and_eq_true] at hok
  obtain ⟨hsec, hmore⟩ := hok
  obtain ⟨hb, ha⟩ := secOk_iff hsec
  simp only [rowSrc, List.length_append] at hf
  obtain ⟨x, R', hctx, hx⟩ := moreSrc_ctx more R
  rw [hctx] at hb
  obtain ⟨st1, B, hrun1⟩ := scanSteps_sec T src x R' hx s0.length s0 pos fuel (Nat.le_refl _) (by omega)
    hb ha
  rw [← hctx] at hrun1
  obtain ⟨st2, xs, hc, htoks, hcost, hrun2⟩ := scanSteps_more T src R more (pos + s0.length)
    (fuel - st1.length) (by have := hrun1.1; omega) hmore
  refine ⟨st1 ++ st2, (st1.map (·.tok), xs), ⟨⟨B.ok', B.toks, ?_⟩, hc⟩, ?_, ?_, Run.append hrun1 hrun2⟩
  · intro t ht
    cases st1 with
    | nil => simp at ht
    | cons y ys =>
      simp only [List.map_cons, List.head?_cons, Option.some.injEq] at ht
      subst ht
      exact B.head y ys rfl
  · simp [rowBuf, htoks]
  · have := hrun1.1
    simp only [rowCost, rowSrc, List.length_map, List.length_append]
    omega

/-- what follows a row: the `\\` in front of the next row, or the `\` of the closing command -/
theorem moreRowsSrc_ctx (m : List Row) (R : Str) :
    ∃ R', moreRowsSrc m ++ '\\' :: R = '\\' :: R' := by
  cases m with
  | nil => exact ⟨R, rfl⟩
  | cons r rs => exact ⟨'\\' :: (rowSrc r ++ moreRowsSrc rs ++ '\\' :: R), by simp [moreRowsSrc]⟩

theorem scanSteps_moreRows (T : PTables) (src : Str) (R : Str) :
    ∀ (m : List Row) (pos fuel : Nat), (moreRowsSrc m).length ≤ fuel →
      moreRowsOk T m ('\\' :: R) = true →
      ∃ steps xs, MoreRowsCorr T pos m xs ∧ steps.map (·.tok) = moreRowsBuf xs ∧
        moreRowsCost xs ≤ (moreRowsSrc m).length ∧
        (∀ x ∈ xs, RowHeadOk x.2) ∧
        Run T.toTables src fuel pos (moreRowsSrc m) ('\\' :: R) steps
  | [], pos, fuel, _, _ => ⟨[], [], trivial, rfl, by simp [moreRowsCost], by simp, Run.nil _ _ _ _ _⟩
  | r :: m, pos, fuel, hf, hok => by
    simp only [moreRowsOk, Bool.and_eq_true] at hok
    obtain ⟨⟨⟨hnl, hhead⟩, hrow⟩, hmore⟩ := hok
    have hsrc : moreRowsSrc (r :: m) = ['\\', '\\'] ++ (rowSrc r ++ moreRowsSrc m) := by
      simp [moreRowsSrc]
    rw [hsrc] at hf ⊢
    simp only [List.length_append, List.length_cons, List.length_nil] at hf
    obtain ⟨R', hctx⟩ := moreRowsSrc_ctx m R
    rw [hctx] at hrow
    have hone : Run T.toTables src fuel pos ['\\', '\\'] ((rowSrc r ++ moreRowsSrc m) ++ '\\' :: R)
        [{ tok := { kind := .special, pos := pos, txt := ['\\', '\\'] }, len := 2 }] := by
      refine Run.one _ ?_ rfl (by simp) rfl rfl (by omega)
      rw [List.append_assoc]
      exact nextToken_nl T src pos _ hnl
    obtain ⟨st2, tr, hc2, htoks2, hcost2, hrun2⟩ := scanSteps_row T src R' r (pos + 2) (fuel - 1)
      (by omega) hrow
    rw [← hctx] at hrun2
    obtain ⟨st3, xs, hc, htoks, hcost, hheads, hrun3⟩ := scanSteps_moreRows T src R m
      (pos + 2 + (rowSrc r).length) (fuel - 1 - st2.length) (by have := hrun2.1; omega) hmore
    have h12 := Run.append hone (by
      simp only [List.length_singleton]
      exact Run.append hrun2 hrun3)
    refine ⟨_, ({ kind := .special, pos := pos, txt := ['\\', '\\'] }, tr) :: xs,
      ⟨⟨rfl, rfl⟩, hc2, hc⟩, ?_, ?_, ?_, h12⟩
    · simp [moreRowsBuf, htoks, htoks2]
    · simp only [moreRowsCost, List.length_append, List.length_cons, List.length_nil]
      omega
    · intro y hy
      simp only [List.mem_cons] at hy
      rcases hy with rfl | hy
      · intro t ht hbr
        have := hc2.1.2.2 t ht hbr
        rw [this] at hhead
        simp at hhead
      · exact hheads y hy

theorem scanSteps_rows (T : PTables) (src : Str) (R : Str) (b : Rows) (pos fuel : Nat)
    (hf : (rowsSrc b).length ≤ fuel) (hok : rowsOk T b ('\\' :: R) = true) :
    ∃ steps tr, RowsCorr T pos b tr ∧ steps.map (·.tok) = rowsBuf tr ∧
      rowsCost tr ≤ (rowsSrc b).length + 1 ∧ (∀ x ∈ tr.2, RowHeadOk x.2) ∧
      Run T.toTables src fuel pos (rowsSrc b) ('\\' :: R) steps := by
  obtain ⟨r0, m⟩ := b
  simp only [rowsOk, Bool.and_eq_true] at hok
  obtain ⟨hrow, hmore⟩ := hok
  simp only [rowsSrc, List.length_append] at hf
  obtain ⟨R', hctx⟩ := moreRowsSrc_ctx m R
  rw [hctx] at hrow
  obtain ⟨st1, tr0, hc1, htoks1, hcost1, hrun1⟩ := scanSteps_row T src R' r0 pos fuel (by omega) hrow
  rw [← hctx] at hrun1
  obtain ⟨st2, xs, hc, htoks, hcost, hheads, hrun2⟩ := scanSteps_moreRows T src R m
    (pos + (rowSrc r0).length) (fuel - st1.length) (by have := hrun1.1; omega) hmore
  refine ⟨st1 ++ st2, (tr0, xs), ⟨hc1, hc⟩, ?_, ?_, hheads, Run.append hrun1 hrun2⟩
  · simp [rowsBuf, htoks, htoks1]
  · simp only [rowsCost, rowsSrc, List.length_append]
    omega

/-! ### the generated tokens and the reference output -/

/-- text and position of the tokens -/
def pcsOf (l : List Tok) : List (Str × Nat) := l.map (fun t => (t.txt, t.pos))

/-- the states of the token level and of the reference correspond: the stored collection is the
    initial one rotated `k` times -/
def StCorr (repls : List Str) (σt : SecSt) (σ : RefSt) : Prop :=
  σt.nr = σ.nr ∧ σt.r = rotN σ.k repls ∧ σt.last = σ.last

theorem lastPos_pcsOf (d : Nat) (l : List Tok) : lastPos d l = lastP d (pcsOf l) := by
  unfold lastPos lastP pcsOf
  rw [List.getLast?_map]
  cases l.getLast? <;> rfl

theorem bodyToksOf_blank : ∀ (s : Str) (q : Nat), s.all isSpace = true → bodyToksOf q s = []
  | [], _, _ => rfl
  | c :: cs, q, h => by
    simp only [List.all_cons, Bool.and_eq_true] at h
    simp only [bodyToksOf, h.1, if_true]
    exact bodyToksOf_blank cs (q + 1) h.2

theorem bodyToksOf_lead : ∀ (s : Str) (q : Nat), s.all isSpace = false →
    ∃ c l, bodyToksOf q s = bodyTokAt (q + leadBlanks s) c :: l ∧ leadChar s = some c
  | [], _, h => by simp at h
  | c :: cs, q, h => by
    by_cases hc : isSpace c = true
    · have h' : cs.all isSpace = false := by simpa [hc] using h
      obtain ⟨c', l, h1, h2⟩ := bodyToksOf_lead cs (q + 1) h'
      refine ⟨c', l, ?_, ?_⟩
      · simp only [bodyToksOf, hc, if_true, h1, leadBlanks, List.takeWhile_cons, List.length_cons]
        congr 2
        omega
      · simpa [leadChar, hc] using h2
    · have hc' : isSpace c = false := by simpa using hc
      exact ⟨c, bodyToksOf (q + 1) cs, by simp [bodyToksOf, hc', leadBlanks], by simp [leadChar, hc']⟩

theorem find_elem_none (T : PTables) (ops : List Str) : ∀ (s : Str) (q : Nat),
    s.any (elemChar T ops) = false → (bodyToksOf q s).find? (isElemSrc T ops) = none
  | [], _, _ => rfl
  | c :: cs, q, h => by
    simp only [List.any_cons, Bool.or_eq_false_iff] at h
    by_cases hc : isSpace c = true
    · simp only [bodyToksOf, hc, if_true]
      exact find_elem_none T ops cs (q + 1) h.2
    · have hc' : isSpace c = false := by simpa using hc
      have hs : isElemSrc T ops (bodyTokAt q c) = elemChar T ops c := by
        simp [isElemSrc, elemChar, bodyTokAt, hc']
      simp only [bodyToksOf, hc', Bool.false_eq_true, if_false, List.find?_cons, hs, h.1]
      exact find_elem_none T ops cs (q + 1) h.2

theorem rotN_rotL (k : Nat) (l : List Str) : rotL (rotN k l) = rotN (k + 1) l := (rotN_succ k l).symm

/-- **one section**: the tokens of the token level spell the pieces of the reference -/
theorem sec_corr (T : PTables) (ops : List Str) (ls : LangSettings) (d : Str) (repls : List Str)
    (hd : ls.opDefault = some d) (hne : repls ≠ []) (fs : Bool) (σt : SecSt) (σ : RefSt) (q : Nat)
    (s : Str) (hc : StCorr repls σt σ) :
    pcsOf (secNew T ops ls.opText d fs σt (bodyToksOf q s)).1 = (secRef T ops ls repls fs σ q s).1 ∧
    StCorr repls (secNew T ops ls.opText d fs σt (bodyToksOf q s)).2 (secRef T ops ls repls fs σ q s).2 := by
  obtain ⟨h1, h2, h3⟩ := hc
  by_cases hb : s.all isSpace = true
  · rw [bodyToksOf_blank s q hb]
    simp only [secNew, secRef, hb, if_true]
    exact ⟨rfl, h1, h2, h3⟩
  · have hb' : s.all isSpace = false := by simpa using hb
    obtain ⟨c, l, hl, hlc⟩ := bodyToksOf_lead s q hb'
    have hop : leadOp ops s = ops.contains [c] := by simp [leadOp, hlc]
    have hpc : punctOf T s = (punctChar T (bodyTxt (bodyToksOf q s))).toList := by
      rw [bodyTxt_bodyToksOf]; rfl
    have hw : opW ls (leadChar s).toList = opWord ls.opText d [c] := by
      simp [opW, hd, hlc]
    have hlast : ∀ toks : List Tok, lastPos σt.last toks = lastP σ.last (pcsOf toks) := by
      intro toks; rw [h3]; exact lastPos_pcsOf _ _
    rw [hl]
    simp only [secNew]
    rw [← hl]
    have htx : (bodyTokAt (q + leadBlanks s) c).txt = [c] := rfl
    have htp : (bodyTokAt (q + leadBlanks s) c).pos = q + leadBlanks s := rfl
    simp only [secRef, hb', Bool.false_eq_true, if_false, hop, hpc, hw, h1, hlast, htx, htp]
    generalize ops.contains [c] = oc
    by_cases hel : s.any (elemChar T ops) = true
    · obtain ⟨el, he1, he2⟩ := elemPos_bodyToksOf T ops s q hel
      simp only [he1, hel, Option.isSome_some, Option.isNone_some, Bool.and_true, Bool.and_false,
        Bool.not_true, if_true, Bool.or_false, h2]
      have hph : ∀ b : Bool, (if b then rotL (rotN σ.k repls) else rotN σ.k repls).headD []
          = placeholder repls (if b then σ.k + 1 else σ.k) := by
        intro b
        cases b
        · simp only [Bool.false_eq_true, if_false]; exact rotN_headD repls hne _
        · simp only [if_true, rotN_rotL]; exact rotN_headD repls hne _
      have hrr : ∀ b : Bool, (if b then rotL (rotN σ.k repls) else rotN σ.k repls)
          = rotN (if b then σ.k + 1 else σ.k) repls := by
        intro b
        cases b
        · simp
        · simp [rotN_rotL]
      rw [hph, hrr]
      cases punctChar T (bodyTxt (bodyToksOf q s)) <;> cases oc <;> cases fs <;>
        cases σ.nr <;>
        simp [pcsOf, StCorr, mkFix, mathSp, bodyTokAt, he2]
    · have hel' : s.any (elemChar T ops) = false := by simpa using hel
      simp only [find_elem_none T ops s q hel', hel', Option.isSome_none, Option.isNone_none,
        Bool.and_false, Bool.false_eq_true, if_false, Bool.and_true, Bool.not_false, h2]
      cases punctChar T (bodyTxt (bodyToksOf q s)) <;> cases oc <;> cases fs <;>
        simp [pcsOf, StCorr, mkFix, mathSp, bodyTokAt]

theorem pcsOf_append (a b : List Tok) : pcsOf (a ++ b) = pcsOf a ++ pcsOf b := by
  simp [pcsOf]

/-- **the sections of a row** -/
theorem more_corr (T : PTables) (ops : List Str) (ls : LangSettings) (d : Str) (repls : List Str)
    (hd : ls.opDefault = some d) (hne : repls ≠ []) :
    ∀ (more : List Str) (xs : List (Tok × List Tok)) (q : Nat), MoreCorr T q more xs →
      ∀ (fs : Bool) (σt : SecSt) (σ : RefSt) (b0 : List Tok) (s0 : Str) (p0 : Nat),
      mathToks b0 = bodyToksOf p0 s0 → StCorr repls σt σ →
      pcsOf (secsNew T ops ls.opText d fs σt b0 xs).1
        = (secRef T ops ls repls fs σ p0 s0).1
            ++ (moreRef T ops ls repls (secRef T ops ls repls fs σ p0 s0).2 q more).1 ∧
      StCorr repls (secsNew T ops ls.opText d fs σt b0 xs).2
        (moreRef T ops ls repls (secRef T ops ls repls fs σ p0 s0).2 q more).2
  | [], [], q, _, fs, σt, σ, b0, s0, p0, hb, hc => by
    simp only [secsNew, moreRef, List.append_nil, hb]
    exact sec_corr T ops ls d repls hd hne fs σt σ p0 s0 hc
  | [], _ :: _, _, h, _, _, _, _, _, _, _, _ => by simp [MoreCorr] at h
  | _ :: _, [], _, h, _, _, _, _, _, _, _, _ => by simp [MoreCorr] at h
  | s :: more, x :: xs, q, h, fs, σt, σ, b0, s0, p0, hb, hc => by
    obtain ⟨_, hsec, hmore⟩ := h
    obtain ⟨h1, h2⟩ := sec_corr T ops ls d repls hd hne fs σt σ p0 s0 hc
    obtain ⟨g1, g2⟩ := more_corr T ops ls d repls hd hne more xs (q + 1 + s.length) hmore false
      (secNew T ops ls.opText d fs σt (mathToks b0)).2 (secRef T ops ls repls fs σ p0 s0).2 x.2 s (q + 1)
      hsec.2.1 (by rw [hb]; exact h2)
    simp only [secsNew, moreRef]
    rw [hb] at g1 g2 ⊢
    refine ⟨?_, g2⟩
    rw [pcsOf_append, h1, show ∀ (t : Tok) (l : List Tok), pcsOf (t :: l) = (t.txt, t.pos) :: pcsOf l from
      fun _ _ => rfl, g1, h2.2.2]
    rfl

theorem row_corr (T : PTables) (ops : List Str) (ls : LangSettings) (d : Str) (repls : List Str)
    (hd : ls.opDefault = some d) (hne : repls ≠ []) (p : Nat) (r : Row) (tr : RowT)
    (h : RowCorr T p r tr) (σt : SecSt) (σ : RefSt) (hc : StCorr repls σt σ) :
    pcsOf (secsNew T ops ls.opText d true σt tr.1 tr.2).1 = (rowRef T ops ls repls σ p r).1 ∧
    StCorr repls (secsNew T ops ls.opText d true σt tr.1 tr.2).2 (rowRef T ops ls repls σ p r).2 :=
  more_corr T ops ls d repls hd hne r.2 tr.2 (p + r.1.length) h.2 true σt σ tr.1 r.1 p h.1.2.1 hc

/-- **the rows of an equation** -/
theorem moreRows_corr (T : PTables) (ops : List Str) (ls : LangSettings) (d : Str) (repls : List Str)
    (hd : ls.opDefault = some d) (hne : repls ≠ []) :
    ∀ (m : List Row) (xs : List (Tok × RowT)) (q : Nat), MoreRowsCorr T q m xs →
      ∀ (σt : SecSt) (σ : RefSt) (tr0 : RowT) (r0 : Row) (p0 : Nat),
      RowCorr T p0 r0 tr0 → StCorr repls σt σ →
      pcsOf (rowsNew T ops ls.opText d σt tr0 xs).1
        = (rowRef T ops ls repls σ p0 r0).1
            ++ (moreRowsRef T ops ls repls (rowRef T ops ls repls σ p0 r0).2 q m).1 ∧
      StCorr repls (rowsNew T ops ls.opText d σt tr0 xs).2
        (moreRowsRef T ops ls repls (rowRef T ops ls repls σ p0 r0).2 q m).2
  | [], [], q, _, σt, σ, tr0, r0, p0, hr, hc => by
    simp only [rowsNew, moreRowsRef, List.append_nil]
    exact row_corr T ops ls d repls hd hne p0 r0 tr0 hr σt σ hc
  | [], _ :: _, _, h, _, _, _, _, _, _, _ => by simp [MoreRowsCorr] at h
  | _ :: _, [], _, h, _, _, _, _, _, _, _ => by simp [MoreRowsCorr] at h
  | r :: m, x :: xs, q, h, σt, σ, tr0, r0, p0, hr, hc => by
    obtain ⟨_, hrow, hmore⟩ := h
    obtain ⟨h1, h2⟩ := row_corr T ops ls d repls hd hne p0 r0 tr0 hr σt σ hc
    obtain ⟨g1, g2⟩ := moreRows_corr T ops ls d repls hd hne m xs (q + 2 + (rowSrc r).length) hmore
      (secsNew T ops ls.opText d true σt tr0.1 tr0.2).2 (rowRef T ops ls repls σ p0 r0).2 x.2 r (q + 2)
      hrow h2
    simp only [rowsNew, moreRowsRef]
    refine ⟨?_, g2⟩
    rw [pcsOf_append, h1, show ∀ (t : Tok) (l : List Tok), pcsOf (t :: l) = (t.txt, t.pos) :: pcsOf l from
      fun _ _ => rfl, g1, h2.2.2]
    rfl

theorem rows_corr (T : PTables) (ops : List Str) (ls : LangSettings) (d : Str) (repls : List Str)
    (hd : ls.opDefault = some d) (hne : repls ≠ []) (p : Nat) (b : Rows) (tr : RowsT)
    (h : RowsCorr T p b tr) (σt : SecSt) (σ : RefSt) (hc : StCorr repls σt σ) :
    pcsOf (rowsNew T ops ls.opText d σt tr.1 tr.2).1 = (rowsRef T ops ls repls σ p b).1 ∧
    StCorr repls (rowsNew T ops ls.opText d σt tr.1 tr.2).2 (rowsRef T ops ls repls σ p b).2 :=
  moreRows_corr T ops ls d repls hd hne b.2 tr.2 (p + (rowSrc b.1).length) h.2 σt σ tr.1 b.1 p h.1 hc

/-! ### text and positions of the generated tokens -/

theorem secNew_fix (T : PTables) (ops : List Str) (opText : List (Str × Str)) (d : Str) (fs : Bool)
    (σ : SecSt) (mb : List Tok) : ∀ t ∈ (secNew T ops opText d fs σ mb).1, t.fix = true := by
  cases mb with
  | nil => intro t ht; simp [secNew] at ht
  | cons t0 l =>
    intro t ht
    simp only [secNew, List.mem_append] at ht
    rcases ht with (ht | ht) | ht
    · split at ht
      · simp only [List.mem_cons, List.not_mem_nil, or_false] at ht
        rcases ht with rfl | rfl | rfl <;> rfl
      · simp at ht
    · split at ht
      · simp only [List.mem_singleton] at ht; subst ht; rfl
      · simp at ht
    · split at ht
      · simp only [List.mem_singleton] at ht; subst ht; rfl
      · simp at ht

theorem secsNew_fix (T : PTables) (ops : List Str) (opText : List (Str × Str)) (d : Str) :
    ∀ (more : List (Tok × List Tok)) (fs : Bool) (σ : SecSt) (b0 : List Tok),
      ∀ t ∈ (secsNew T ops opText d fs σ b0 more).1, t.fix = true
  | [], fs, σ, b0 => secNew_fix T ops opText d fs σ _
  | x :: more, fs, σ, b0 => by
    intro t ht
    simp only [secsNew, List.mem_append, List.mem_cons] at ht
    rcases ht with ht | rfl | ht
    · exact secNew_fix T ops opText d fs σ _ t ht
    · rfl
    · exact secsNew_fix T ops opText d more false _ x.2 t ht

theorem rowsNew_fix (T : PTables) (ops : List Str) (opText : List (Str × Str)) (d : Str) :
    ∀ (moreR : List (Tok × RowT)) (σ : SecSt) (r0 : RowT),
      ∀ t ∈ (rowsNew T ops opText d σ r0 moreR).1, t.fix = true
  | [], σ, r0 => secsNew_fix T ops opText d r0.2 true σ r0.1
  | x :: moreR, σ, r0 => by
    intro t ht
    simp only [rowsNew, List.mem_append, List.mem_cons] at ht
    rcases ht with ht | rfl | ht
    · exact secsNew_fix T ops opText d r0.2 true σ r0.1 t ht
    · rfl
    · exact rowsNew_fix T ops opText d moreR _ x.2 t ht

theorem getTxtPos_fix : ∀ (l : List Tok) (rest : List Tok), (∀ t ∈ l, t.fix = true) →
    getTxtPos (l ++ rest)
      = ((spread (pcsOf l)).map (·.1) ++ (getTxtPos rest).1,
         (spread (pcsOf l)).map (·.2) ++ (getTxtPos rest).2)
  | [], rest, _ => by simp [spread, pcsOf]
  | t :: l, rest, h => by
    have ih := getTxtPos_fix l rest (fun x hx => h x (by simp [hx]))
    have hf : t.fix = true := h t (by simp)
    simp only [List.cons_append, getTxtPos, ih, tokPositions, hf, if_true]
    simp [spread, pcsOf, Function.comp_def, List.map_const']

theorem spread_cons (x : Str × Nat) (l : List (Str × Nat)) :
    spread (x :: l) = x.1.map (fun c => (c, x.2)) ++ spread l := by
  simp [spread]

theorem spread_append (a b : List (Str × Nat)) : spread (a ++ b) = spread a ++ spread b := by
  simp [spread]

/-- text and positions of an equation: those of the reference `eqnRef`; the collection behind the
    equation is the initial one rotated `eqnK` times -/
theorem getTxtPos_eqnToks (T : PTables) (ops : List Str) (ls : LangSettings) (d : Str)
    (repls : List Str) (hd : ls.opDefault = some d) (hne : repls ≠ []) (k p o : Nat) (b : Rows)
    (tr : RowsT) (h : RowsCorr T (p + o) b tr) (rest : List Tok) :
    getTxtPos (eqnToks T ops ls.opText d (rotN k repls) p tr ++ rest)
      = ((eqnOut T ops ls repls k p o b).map (·.1) ++ (getTxtPos rest).1,
         (eqnOut T ops ls repls k p o b).map (·.2) ++ (getTxtPos rest).2) ∧
    (eqnNew T ops ls.opText d (rotN k repls) p tr).2.r = rotN (eqnK T ops ls repls k p o b) repls := by
  obtain ⟨h1, h2⟩ := rows_corr T ops ls d repls hd hne (p + o) b tr h
    { nr := true, r := rotN k repls, last := p } { nr := true, k := k, last := p } ⟨rfl, rfl, rfl⟩
  refine ⟨?_, h2.2.1⟩
  unfold eqnToks eqnNew
  simp only [List.cons_append, List.nil_append, List.append_assoc]
  rw [getTxtPos_action_cons,
    show ∀ (t : Tok) (l : List Tok), t :: l = [t] ++ l from fun _ _ => rfl,
    getTxtPos_fix [mkFix .space p [' ', ' ']] _ (by simp [mkFix]),
    getTxtPos_fix _ _ (rowsNew_fix T ops ls.opText d tr.2 _ tr.1), h1]
  simp only [List.singleton_append, getTxtPos_action_cons]
  unfold eqnOut eqnRef
  rw [spread_cons]
  simp [spread, pcsOf, mkFix]

/-! ### the visibility conditions on tokens and on the source -/

theorem secVis_corr (T : PTables) (ops : List Str) (fs : Bool) (q : Nat) (s : Str) :
    secVisT T ops fs (bodyToksOf q s) = secVis T ops fs s := by
  by_cases hb : s.all isSpace = true
  · rw [bodyToksOf_blank s q hb]
    have h1 : s.any (elemChar T ops) = false := by
      rw [List.any_eq_false]
      intro c hc
      have := List.all_eq_true.mp hb c hc
      simp [elemChar, this]
    have h2 : s.filter (fun c => !isSpace c) = [] := by
      rw [List.filter_eq_nil_iff]
      intro c hc
      simp [List.all_eq_true.mp hb c hc]
    have h3 : s.dropWhile isSpace = [] := by
      clear h1 h2
      induction s with
      | nil => rfl
      | cons c cs ih =>
        simp only [List.all_cons, Bool.and_eq_true] at hb
        simp only [List.dropWhile_cons, hb.1, if_true]
        exact ih hb.2
    simp [secVisT, secVis, h1, punctOf, h2, punctChar, leadOp, leadChar, h3]
  · have hb' : s.all isSpace = false := by simpa using hb
    obtain ⟨c, l, hl, hlc⟩ := bodyToksOf_lead s q hb'
    have hop : leadOp ops s = ops.contains [c] := by simp [leadOp, hlc]
    have hpc : punctOf T s = (punctChar T (bodyTxt (bodyToksOf q s))).toList := by
      rw [bodyTxt_bodyToksOf]; rfl
    rw [hl]
    simp only [secVisT]
    rw [← hl]
    simp only [secVis, hop, hpc, show (bodyTokAt (q + leadBlanks s) c).txt = [c] from rfl]
    by_cases hel : s.any (elemChar T ops) = true
    · obtain ⟨el, he1, _⟩ := elemPos_bodyToksOf T ops s q hel
      simp [he1, hel]
    · have hel' : s.any (elemChar T ops) = false := by simpa using hel
      rw [find_elem_none T ops s q hel', hel']
      cases punctChar T (bodyTxt (bodyToksOf q s)) <;> simp

theorem moreVis_corr (T : PTables) (ops : List Str) :
    ∀ (more : List Str) (xs : List (Tok × List Tok)) (q : Nat), MoreCorr T q more xs →
      xs.any (fun x => secVisT T ops false (mathToks x.2)) = more.any (secVis T ops false)
  | [], [], _, _ => rfl
  | [], _ :: _, _, h => by simp [MoreCorr] at h
  | _ :: _, [], _, h => by simp [MoreCorr] at h
  | s :: more, x :: xs, q, h => by
    obtain ⟨_, hsec, hmore⟩ := h
    simp only [List.any_cons, hsec.2.1, secVis_corr, moreVis_corr T ops more xs _ hmore]

theorem rowVis_corr (T : PTables) (ops : List Str) (p : Nat) (r : Row) (tr : RowT)
    (h : RowCorr T p r tr) : rowVisT T ops tr = rowVis T ops r := by
  simp only [rowVisT, rowVis, h.1.2.1, secVis_corr, moreVis_corr T ops r.2 tr.2 _ h.2]

theorem lastRowS_cons (r0 r : Row) (m : List Row) : lastRowS (r0, r :: m) = lastRowS (r, m) := by
  unfold lastRowS
  cases m with
  | nil => rfl
  | cons y m' =>
    simp only [List.getLast?_cons_cons]
    cases h : (y :: m').getLast? with
    | none => simp at h
    | some z => rfl

theorem lastRow_corr (T : PTables) :
    ∀ (m : List Row) (xs : List (Tok × RowT)) (q : Nat), MoreRowsCorr T q m xs →
      ∀ (r0 : Row) (tr0 : RowT) (p0 : Nat), RowCorr T p0 r0 tr0 →
      ∃ p', RowCorr T p' (lastRowS (r0, m)) (lastRow (tr0, xs))
  | [], [], _, _, r0, tr0, p0, h0 => ⟨p0, h0⟩
  | [], _ :: _, _, h, _, _, _, _ => by simp [MoreRowsCorr] at h
  | _ :: _, [], _, h, _, _, _, _ => by simp [MoreRowsCorr] at h
  | r :: m, x :: xs, q, h, r0, tr0, p0, _ => by
    obtain ⟨_, hrow, hmore⟩ := h
    rw [lastRowS_cons, lastRow_cons]
    exact lastRow_corr T m xs _ hmore r x.2 _ hrow

theorem eqnVis_corr (T : PTables) (ops : List Str) (p : Nat) (b : Rows) (tr : RowsT)
    (h : RowsCorr T p b tr) (hv : eqnVis T ops b = true) : EqnVis T ops tr := by
  simp only [eqnVis, Bool.and_eq_true] at hv
  obtain ⟨p', hl⟩ := lastRow_corr T b.2 tr.2 _ h.2 b.1 tr.1 p h.1
  exact ⟨by rw [rowVis_corr T ops p b.1 tr.1 h.1]; exact hv.1,
    by rw [rowVis_corr T ops p' _ _ hl]; exact hv.2⟩

/-- the correspondence yields the token-level conditions -/
theorem rowOk_corr (T : PTables) :
    ∀ (more : List Str) (xs : List (Tok × List Tok)) (q : Nat), MoreCorr T q more xs →
      ∀ x ∈ xs, AmpTok x.1 ∧ ∀ t ∈ x.2, SItem T t
  | [], [], _, _ => by simp
  | [], _ :: _, _, h => by simp [MoreCorr] at h
  | _ :: _, [], _, h => by simp [MoreCorr] at h
  | s :: more, x :: xs, q, h => by
    obtain ⟨ha, hsec, hmore⟩ := h
    intro y hy
    simp only [List.mem_cons] at hy
    rcases hy with rfl | hy
    · exact ⟨ha, hsec.1⟩
    · exact rowOk_corr T more xs _ hmore y hy

theorem RowCorr.ok {T : PTables} {p : Nat} {r : Row} {tr : RowT} (h : RowCorr T p r tr) : RowOk T tr :=
  ⟨h.1.1, rowOk_corr T r.2 tr.2 _ h.2⟩

theorem rowsOk_corr (T : PTables) :
    ∀ (m : List Row) (xs : List (Tok × RowT)) (q : Nat), MoreRowsCorr T q m xs →
      (∀ x ∈ xs, RowHeadOk x.2) → ∀ x ∈ xs, NlTok x.1 ∧ RowOk T x.2 ∧ RowHeadOk x.2
  | [], [], _, _, _ => by simp
  | [], _ :: _, _, h, _ => by simp [MoreRowsCorr] at h
  | _ :: _, [], _, h, _ => by simp [MoreRowsCorr] at h
  | r :: m, x :: xs, q, h, hh => by
    obtain ⟨hn, hrow, hmore⟩ := h
    intro y hy
    simp only [List.mem_cons] at hy
    rcases hy with rfl | hy
    · exact ⟨hn, hrow.ok, hh _ (by simp)⟩
    · exact rowsOk_corr T m xs _ hmore (fun z hz => hh z (by simp [hz])) y hy

theorem RowsCorr.ok {T : PTables} {p : Nat} {b : Rows} {tr : RowsT} (h : RowsCorr T p b tr)
    (hh : ∀ x ∈ tr.2, RowHeadOk x.2) : RowsOk T tr :=
  ⟨h.1.ok, rowsOk_corr T b.2 tr.2 _ h.2 hh⟩

/-! ### the source as a list of items -/

/-- the source as a list of text characters (with their positions) and equations (with the position
    `p` of the opening `\[` / `\begin` and the offset `o` of the body from there) -/
inductive Item where
  | chr (c : Char) (p : Nat)
  | eqn (p o : Nat) (b : Rows)

def chrItems : Nat → Str → List Item
  | _, [] => []
  | p, c :: cs => .chr c p :: chrItems (p + 1) cs

def itemsOf : Nat → List Seg → List Item
  | _, [] => []
  | p, .txt s :: rest => chrItems p s ++ itemsOf (p + s.length) rest
  | p, .disp b :: rest => .eqn p 2 b :: itemsOf (p + ((rowsSrc b).length + 4)) rest
  | p, .env name b :: rest =>
    .eqn p (name.length + 8) b :: itemsOf (p + (2 * name.length + (rowsSrc b).length + 14)) rest

/-- the reference output for a list of items, the collection having been rotated `k` times -/
def refItems (T : PTables) (ops : List Str) (ls : LangSettings) (repls : List Str) :
    Nat → List Item → List (Char × Nat)
  | _, [] => []
  | k, .chr c p :: rest => (c, p) :: refItems T ops ls repls k rest
  | k, .eqn p o b :: rest =>
    eqnOut T ops ls repls k p o b ++ refItems T ops ls repls (eqnK T ops ls repls k p o b) rest

theorem refItems_chrItems (T : PTables) (ops : List Str) (ls : LangSettings) (repls : List Str)
    (k : Nat) (items : List Item) : ∀ (s : Str) (p : Nat),
    refItems T ops ls repls k (chrItems p s ++ items) = posText p s ++ refItems T ops ls repls k items
  | [], _ => rfl
  | c :: cs, p => by
    simp only [chrItems, List.cons_append, refItems, posText, refItems_chrItems T ops ls repls k items cs (p + 1)]

theorem refItems_itemsOf (T : PTables) (ops : List Str) (ls : LangSettings) (repls : List Str) :
    ∀ (segs : List Seg) (k p : Nat),
      refItems T ops ls repls k (itemsOf p segs) = refOut T ops ls repls k p segs
  | [], _, _ => rfl
  | .txt s :: rest, k, p => by
    simp only [itemsOf, refItems_chrItems, refOut, refItems_itemsOf T ops ls repls rest]
  | .disp b :: rest, k, p => by
    simp only [itemsOf, refItems, refOut, refItems_itemsOf T ops ls repls rest]
  | .env name b :: rest, k, p => by
    simp only [itemsOf, refItems, refOut, refItems_itemsOf T ops ls repls rest]

/-- well-formedness on the source text (which starts at position `p`) -/
inductive OkSrc (T : PTables) (st : PState) : Nat → Str → List Item → Prop
  | nil (p : Nat) : OkSrc T st p [] []
  | chr (p : Nat) (c : Char) (cs : Str) (items : List Item) :
      okAtD T st c cs = true → OkSrc T st (p + 1) cs items →
      OkSrc T st p (c :: cs) (.chr c p :: items)
  | disp (p : Nat) (b : Rows) (R : Str) (items : List Item) :
      dispOk T st b R = true → OkSrc T st (p + ((rowsSrc b).length + 4)) R items →
      OkSrc T st p ('\\' :: '[' :: (rowsSrc b ++ '\\' :: ']' :: R)) (.eqn p 2 b :: items)
  | env (p : Nat) (name : Str) (b : Rows) (R : Str) (items : List Item) :
      envOk T st name b R = true →
      OkSrc T st (p + (2 * name.length + (rowsSrc b).length + 14)) R items →
      OkSrc T st p ('\\' :: (nBegin ++ '{' :: (name ++ '}' :: (rowsSrc b ++ endSrc name R))))
        (.eqn p (name.length + 8) b :: items)

theorem OkSrc_text (T : PTables) (st : PState) (R : Str) (items : List Item) :
    ∀ (s : Str) (p : Nat), OkSrc T st (p + s.length) R items → textOkD T st s R = true →
      OkSrc T st p (s ++ R) (chrItems p s ++ items)
  | [], _, hR, _ => hR
  | c :: cs, p, hR, h => by
    simp only [textOkD, Bool.and_eq_true] at h
    have hR' : OkSrc T st (p + 1 + cs.length) R items := by
      have e : p + 1 + cs.length = p + (c :: cs).length := by simp; omega
      rw [e]; exact hR
    exact OkSrc.chr p c (cs ++ R) _ h.1 (OkSrc_text T st R items cs (p + 1) hR' h.2)

theorem OkSrc_of_segsOk (T : PTables) (st : PState) :
    ∀ (segs : List Seg) (p : Nat), segsOk T st segs = true →
      OkSrc T st p (render segs) (itemsOf p segs)
  | [], p, _ => .nil p
  | .txt s :: rest, p, h => by
    simp only [segsOk, Bool.and_eq_true] at h
    exact OkSrc_text T st _ _ s p (OkSrc_of_segsOk T st rest _ h.2) h.1
  | .disp b :: rest, p, h => by
    simp only [segsOk, Bool.and_eq_true] at h
    have := OkSrc.disp p b (render rest) _ h.1 (OkSrc_of_segsOk T st rest _ h.2)
    simpa [render, Seg.render, itemsOf] using this
  | .env name b :: rest, p, h => by
    simp only [segsOk, Bool.and_eq_true] at h
    have := OkSrc.env p name b (render rest) _ h.1 (OkSrc_of_segsOk T st rest _ h.2)
    simpa [render, Seg.render, itemsOf, endSrc] using this

/-- the conditions depend on the state only through the language stack, the operator list and the
    environment table -/
theorem OkSrc.congr {T : PTables} {st st' : PState} (hl : st'.langStack = st.langStack)
    (hm : st'.mathOperators = st.mathOperators) (he : st'.envs = st.envs)
    {p : Nat} {s : Str} {items : List Item}
    (h : OkSrc T st p s items) : OkSrc T st' p s items := by
  induction h with
  | nil p => exact .nil p
  | chr p c cs items hat _ ih =>
    refine .chr p c cs items ?_ ih
    rw [← hat]
    simp only [okAtD, activeChars_congr T st st' hl, shortKeys_congr T st st' hl]
  | disp p b R items hm' _ ih =>
    refine .disp p b R items ?_ ih
    rw [← hm']
    simp only [dispOk, hm, defEnvOk, lookupEnv, he]
  | env p name b R items hm' _ ih =>
    refine .env p name b R items ?_ ih
    rw [← hm']
    have hi : (name.all (inertChar T st')) = (name.all (inertChar T st)) := by
      congr 1; funext c; exact inertChar_congr T st st' hl c
    simp only [envOk, hm, hi, equEnvAt, lookupEnv, he, noEmptyActive_congr T st st' hl]

/-- white space in front can be dropped -/
theorem OkSrc_drop_space (T : PTables) (st : PState) :
    ∀ (k : Nat) (p : Nat) (s : Str) (items : List Item), k ≤ s.length → OkSrc T st p s items →
      (∀ x ∈ s.take k, isSpace x = true) →
      ∃ items', items = chrItems p (s.take k) ++ items' ∧ OkSrc T st (p + k) (s.drop k) items'
  | 0, _, _, items, _, h, _ => ⟨items, rfl, h⟩
  | k + 1, _, [], _, hk, _, _ => by simp at hk
  | k + 1, p, c :: cs, _, hk, h, hsp => by
    have hc : isSpace c = true := hsp c (by simp)
    cases h with
    | chr _ _ _ items0 _ h2 =>
      obtain ⟨items', e, h3⟩ := OkSrc_drop_space T st k (p + 1) cs items0 (by simpa using hk) h2
        (fun x hx => hsp x (by simp [hx]))
      refine ⟨items', by simp [chrItems, e], ?_⟩
      have e : p + (k + 1) = p + 1 + k := by omega
      rw [e]; exact h3
    | disp _ b R _ _ _ => exact absurd hc (by decide)
    | env _ name b R _ _ _ => exact absurd hc (by decide)

end PlainDispRows
end Yalafi
