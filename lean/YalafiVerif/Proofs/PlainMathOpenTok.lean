/-
  Proofs/PlainMathOpenTok.lean — token level of Proofs/PlainMathOpen.lean (C08 "an unterminated
  inline formula yields exactly one diagnostic at the line and column of its `$` and the complete
  error mark at that position; nothing behind the end of its paragraph is lost"): the mark tokens,
  the section parser and `expandInlineMath` on an open formula, the expander loop, the blank-line
  removal.  Source level and statements: Proofs/PlainMathOpen.lean.

  Documents: sequences of
    * inert text (as in Proofs/PlainUnknown.lean / Proofs/PlainMath.lean),
    * simple inline formulas `$body$` (as in Proofs/PlainMath.lean), and
    * OPEN formulas `$body w`: a `$` that is never closed; `body` is simple maths material, `w` is
      the paragraph break (a maximal run of white space with at least two line breaks) that cuts the
      formula, or `w = []` and the formula runs to the end of the text.

  What the model (and `mathparser.py:expand_math_section`) does with an open formula
    * the section parser reads maths tokens until it meets the end of the buffer or a paragraph
      token; it then calls `latex_error('missing end of maths', start)` with `start` = position of
      the opening `$`, puts the mark tokens IN FRONT of the maths tokens collected so far, and
      CONSUMES the paragraph token (`buf.next()`);
    * `expand_inline_math` then replaces the maths tokens behind the mark as for a closed formula:
      placeholder + closing punctuation, pinned to the first maths token; if there is no maths token
      (`$` directly followed by the paragraph break, or only white space up to the end of the text)
      nothing follows the mark and the placeholder collection is not rotated;
    * consequence (follows the model, differs from the wording of C08): the paragraph break `w` itself
      is LOST — the text behind it is glued to the placeholder (`"Abc $x\n\nNext"` ↦
      `"Abc  LATEXXXERROR C-C-CNext"`); everything behind `w` is kept with its own positions.
-/
import YalafiVerif.Proofs.PlainMath
import YalafiVerif.Proofs.PlainVerb
namespace Yalafi
namespace PlainMathOpen

open M PlainMath

/-- the message of the diagnostic -/
def errMathEnd : Str := "missing end of maths".toList

/-! ### the tokens of the error mark -/

theorem latexErrorToks_kind (T : Tables) (err : Str) (p n : Nat) :
    ∀ t ∈ latexErrorToks T err p n, t.kind = .text ∧ t.fix = true := by
  intro t ht
  unfold latexErrorToks at ht
  simp only [] at ht
  split at ht
  · simp only [List.mem_cons, List.not_mem_nil, or_false] at ht
    rcases ht with rfl | rfl <;> exact ⟨rfl, rfl⟩
  · simp only [List.mem_cons, List.not_mem_nil, or_false] at ht
    subst ht; exact ⟨rfl, rfl⟩

theorem latexErrorToks_noNl (T : Tables) (err : Str) (p n : Nat)
    (hnl : hasNl (errMark T err) = false) :
    ∀ t ∈ latexErrorToks T err p n, hasNl t.txt = false := by
  intro t ht
  have hsub : ∀ k, List.Sublist ((errMark T err).take k) (errMark T err) ∧
      List.Sublist ((errMark T err).drop k) (errMark T err) :=
    fun k => ⟨List.take_sublist _ _, List.drop_sublist _ _⟩
  unfold latexErrorToks at ht
  simp only [] at ht
  split at ht
  · simp only [List.mem_cons, List.not_mem_nil, or_false] at ht
    rcases ht with rfl | rfl
    · exact hasNl_false_of_sublist (hsub _).1 hnl
    · exact hasNl_false_of_sublist (hsub _).2 hnl
  · simp only [List.mem_cons, List.not_mem_nil, or_false] at ht
    subst ht
    exact hasNl_false_of_sublist (hsub _).1 hnl

/-- the positions of the characters of the mark for a problem at offset `p` of a source of length
    `n` (`utils.latex_error`): the first `mx = min |mark| (n - p)` characters sit at `p`, what does
    not fit in front of the end of the source at `p + mx - 1` -/
def markPos (T : Tables) (err : Str) (n p : Nat) : List Nat :=
  List.replicate (min (errMark T err).length (n - p)) p
    ++ List.replicate ((errMark T err).length - min (errMark T err).length (n - p))
        (p + min (errMark T err).length (n - p) - 1)

theorem latexErrorToks_txtpos (T : Tables) (err : Str) (p n : Nat) :
    getTxtPos (latexErrorToks T err p n) = (errMark T err, markPos T err n p) := by
  unfold latexErrorToks markPos
  simp only []
  have hmx : min (errMark T err).length (n - p) ≤ (errMark T err).length := Nat.min_le_left _ _
  generalize min (errMark T err).length (n - p) = mx at hmx
  generalize errMark T err = mark at hmx
  split
  · simp [getTxtPos, tokPositions, Nat.min_eq_left hmx]
  · rename_i h
    have h1 : mark.length ≤ mx := by omega
    simp [getTxtPos, tokPositions, Nat.le_antisymm hmx h1]

theorem markPos_length (T : Tables) (err : Str) (n p : Nat) :
    (markPos T err n p).length = (errMark T err).length := by
  unfold markPos
  have : min (errMark T err).length (n - p) ≤ (errMark T err).length := Nat.min_le_left _ _
  simp only [List.length_append, List.length_replicate]
  omega

theorem isBlank_getTxtPos (l : List Tok) (h : ∀ t ∈ l, isBlank t.txt = true) :
    isBlank (getTxtPos l).1 = true := by
  induction l with
  | nil => rfl
  | cons t ts ih =>
    simp only [getTxtPos, isBlank_append, h t (by simp), ih (fun x hx => h x (by simp [hx])),
      Bool.and_self]

/-- a run of text tokens without line break in the line automaton: visible text closes the line -/
theorem lineRun_texts : ∀ (l : List Tok) (σ : Option Bool) (tail : List LItem),
    (∀ t ∈ l, t.kind = .text ∧ hasNl t.txt = false) → tail ≠ [] →
    lineRun σ ((l.filter keepIn).map evalTok ++ tail)
      = lineRun (if l.all (fun t => isBlank t.txt) then σ else none) tail
  | [], σ, tail, _, _ => by simp
  | t :: ts, σ, tail, h, ht => by
    have ih := lineRun_texts ts
    by_cases hk : keepIn t = true
    · simp only [List.filter_cons, hk, if_true, List.map_cons, List.cons_append]
      rw [lineRun_txt t (h t (by simp)).1 (h t (by simp)).2 σ _ (by simp [ht]),
        ih _ tail (fun x hx => h x (by simp [hx])) ht]
      cases hb : isBlank t.txt <;> simp [hb]
    · have hk' : keepIn t = false := by simpa using hk
      have he := keepIn_txt t hk'
      simp only [List.filter_cons, hk', Bool.false_eq_true, if_false]
      rw [ih σ tail (fun x hx => h x (by simp [hx])) ht]
      simp [he, isBlank_nil]

/-- the mark tokens make their line visible -/
theorem lineRun_mark (T : Tables) (err : Str) (p n : Nat)
    (hnl : hasNl (errMark T err) = false) (hvis : isBlank (errMark T err) = false)
    (σ : Option Bool) (tail : List LItem) (ht : tail ≠ []) :
    lineRun σ (((latexErrorToks T err p n).filter keepIn).map evalTok ++ tail) = lineRun none tail := by
  rw [lineRun_texts _ σ tail
    (fun t h => ⟨(latexErrorToks_kind T err p n t h).1, latexErrorToks_noNl T err p n hnl t h⟩) ht]
  have : (latexErrorToks T err p n).all (fun t => isBlank t.txt) = false := by
    cases hall : (latexErrorToks T err p n).all (fun t => isBlank t.txt) with
    | false => rfl
    | true =>
      have := isBlank_getTxtPos _ (fun t h => List.all_eq_true.mp hall t h)
      rw [latexErrorToks_txtpos] at this
      rw [hvis] at this; cases this
  rw [this]
  rfl

/-! ### the section parser on an open formula -/

/-- what stops an open formula: the end of the buffer or a paragraph token -/
def OpenTail (tl : Buf) : Prop := tl = [] ∨ ∃ pt rest, tl = pt :: rest ∧ pt.kind = .par

theorem finFilter_mark (T : Tables) (err : Str) (p n : Nat) (out : List Tok)
    (ho : ∀ t ∈ out, isMathTok t = true) :
    (latexErrorToks T err p n ++ out).filter (fun t => !(t.kind == Kind.void || t.kind == Kind.action))
      = latexErrorToks T err p n ++ out := by
  rw [List.filter_append, finFilter_math out ho]
  congr 1
  rw [List.filter_eq_self]
  intro t ht
  simp [(latexErrorToks_kind T err p n t ht).1]

/-- the section parser on the body of an open formula: one maths token per character that is no
    white space; at the end of the buffer / at the paragraph token the error is reported, the mark
    tokens are put in front, the paragraph token is consumed -/
theorem mathSection_open (T : PTables) (st : PState) (start : Nat) (tl : Buf) (htl : OpenTail tl) :
    ∀ (body : List Tok) (fuel : Nat) (out : List Tok), body.length + 1 ≤ fuel →
      (∀ t ∈ body, BodyItem T t) → (∀ t ∈ out, isMathTok t = true) →
      expandMathSection T fuel (body ++ tl) start ["$".toList, "\\)".toList] none out st
        = .ok ({ out := latexErrorToks T.toTables errMathEnd start st.latex.length
                          ++ (out ++ (mathToks body).map (mathTokOf st)),
                 term := tl.head?, buf := tl.tail },
               { st with diags := st.diags ++ [latexErrorDiag errMathEnd start st.latex] }) := by
  intro body
  induction body with
  | nil =>
    intro fuel out hf _ ho
    obtain ⟨f, rfl⟩ : ∃ f, fuel = f + 1 := ⟨fuel - 1, by simp at hf; omega⟩
    rw [List.nil_append, expandMathSection.eq_2]
    rcases htl with rfl | ⟨pt, rest, rfl, hk⟩
    · simp only [skipSpace, List.dropWhile_nil]
      show M.bind' (latexError T.toTables errMathEnd start) _ st = _
      simp only [M.bind', latexError]
      show Outcome.ok _ = _
      simp only [mathToks, List.filter_nil, List.map_nil, List.append_nil, List.head?_nil,
        List.tail_nil]
      rw [finFilter_mark _ _ _ _ out ho]
    · have hsk : skipSpace (pt :: rest) = pt :: rest := by
        simp [skipSpace, isSpaceTok, hk]
      rw [hsk]
      simp only [hk, beq_self_eq_true, if_true]
      show M.bind' (latexError T.toTables errMathEnd start) _ st = _
      simp only [M.bind', latexError]
      show Outcome.ok _ = _
      simp only [mathToks, List.filter_nil, List.map_nil, List.append_nil, List.head?_cons,
        List.tail_cons]
      rw [finFilter_mark _ _ _ _ out ho]
  | cons t ts ih =>
    intro fuel out hf hb ho
    obtain ⟨f, rfl⟩ : ∃ f, fuel = f + 1 := ⟨fuel - 1, by simp at hf; omega⟩
    rcases hb t (by simp) with hbt | hsp
    · rw [List.cons_append, mathSection_step T f t _ start out st hbt]
      rw [ih f _ (by simp at hf ⊢; omega) (fun x hx => hb x (by simp [hx]))
        (by
          intro x hx
          rcases List.mem_append.mp hx with hx | hx
          · exact ho x hx
          · simp only [List.mem_singleton] at hx; subst hx; exact isMathTok_mathTokOf st t)]
      rw [mathToks_cons_body T t ts hbt]
      simp
    · rw [List.cons_append, mathSection_space_step T (f + 1) t _ start _ none out hsp]
      rw [ih (f + 1) out (by simp at hf ⊢; omega) (fun x hx => hb x (by simp [hx])) ho]
      rw [mathToks_cons_space t ts hsp]

/-! ### `expandInlineMath` on an open formula -/

theorem detectMathParts_text_prefix (e ts : List Tok) (he : ∀ t ∈ e, isMathTok t = false) :
    detectMathParts (e ++ ts) [] = e.map SecItem.tok ++ detectMathParts ts [] := by
  induction e with
  | nil => rfl
  | cons t e ih =>
    simp only [List.cons_append, detectMathParts, he t (by simp), Bool.false_eq_true, if_false,
      List.isEmpty_nil, if_true, List.nil_append, List.map_cons]
    rw [ih (fun x hx => he x (by simp [hx]))]

/-- non-maths tokens of a section are copied by `replace_section`; the placeholder collection is
    not touched -/
theorem replaceSteps_toks (T : PTables) (opText : List (Str × Str)) (opDefault : Option Str) :
    ∀ (e : List Tok) (s : RsState),
      ∃ s', (e.map SecItem.tok).foldlM (replaceStep T opText opDefault true) s = some s' ∧
        s'.out = s.out ++ e ∧ s'.repls = s.repls
  | [], s => ⟨s, rfl, by simp, rfl⟩
  | t :: e, s => by
    simp only [List.map_cons, List.foldlM_cons, replaceStep]
    obtain ⟨s', h1, h2, h3⟩ := replaceSteps_toks T opText opDefault e
      (if !isBlank t.txt then { s with out := s.out ++ [t], firstPart := false, nextRepl := true }
       else { s with out := s.out ++ [t] })
    refine ⟨s', ?_, ?_, ?_⟩
    · exact h1
    · rw [h2]; split <;> simp
    · rw [h3]; split <;> rfl

/-- what replaces the maths tokens `mb` of an open formula behind the mark: nothing if there are
    none, else the placeholder `ph` and the closing punctuation mark, pinned to the first token -/
def openShape (T : PTables) (ph : Str) (mb : List Tok) : List Tok :=
  if mb = [] then []
  else [mkFix .text (firstPos mb) ph]
    ++ (match punctChar T (bodyTxt mb) with | some c => [mkFix .text (firstPos mb) [c]] | none => [])

/-- the placeholder collection after an open formula: rotated iff there was a maths token -/
def openRot (mb : List Tok) (l : List Str) : List Str := if mb = [] then l else rotL l

/-- what `expand_inline_math` returns for an open formula whose `$` sits at `p`, in a source of
    length `n`: an Action token, the tokens of the error mark, the replacement of the maths tokens,
    an Action token at the position of the last of these tokens -/
def openCore (T : PTables) (n : Nat) (ph : Str) (p : Nat) (mb : List Tok) : List Tok :=
  mkAction p :: (latexErrorToks T.toTables errMathEnd p n ++ openShape T ph mb)

def openOut (T : PTables) (n : Nat) (ph : Str) (p : Nat) (mb : List Tok) : List Tok :=
  openCore T n ph p mb ++ [mkAction (((openCore T n ph p mb).getLast?.map (·.pos)).getD p)]

/-- **C08 on `expandInlineMath`.**  For an open formula (buffer = body tokens, then the end of the
    buffer or a paragraph token) the call reports `missing end of maths` at the position of the
    opening `$`, returns `openOut` and the buffer behind the paragraph token; the state changes
    in the diagnostics and the rotation record only. -/
theorem inlineMath_open (T : PTables) (st : PState) (fuel : Nat) (d1 : Tok) (body : List Tok)
    (tl : Buf) (rot : Rot) (ls : LangSettings) (r0 : Str)
    (htl : OpenTail tl) (hb : ∀ t ∈ body, BodyItem T t)
    (hf : body.length + 1 ≤ fuel)
    (hrot : rotOf st (curSettings st) = some rot) (hls : settingsOf T (curSettings st) = some ls)
    (hr : (rotL rot.inl).head? = some r0) :
    expandInlineMath T (fuel + 1) (body ++ tl) d1 st
      = .ok ((openOut T st.latex.length r0 d1.pos (mathToks body), tl.tail),
             setRot { st with diags := st.diags ++ [latexErrorDiag errMathEnd d1.pos st.latex] }
               { rot with inl := openRot (mathToks body) rot.inl }) := by
  have hsec := mathSection_open T st d1.pos tl htl body fuel [] hf hb (by simp)
  rw [List.nil_append] at hsec
  have hbm := mathToks_body T body hb
  generalize mathToks body = mb at hsec hbm
  generalize hst2 : ({ st with diags := st.diags ++ [latexErrorDiag errMathEnd d1.pos st.latex] } : PState)
    = st2 at hsec
  have hrot2 : rotOf st2 (curSettings st2) = some rot := by rw [← hst2]; exact hrot
  have hls2 : settingsOf T (curSettings st2) = some ls := by rw [← hst2]; exact hls
  generalize he : latexErrorToks T.toTables errMathEnd d1.pos st.latex.length = e at hsec
  have hem : ∀ t ∈ e, isMathTok t = false := by
    intro t ht
    rw [← he] at ht
    simp [isMathTok, (latexErrorToks_kind _ _ _ _ t ht).1]
  have hmath : ∀ t ∈ mb.map (mathTokOf st), isMathTok t = true := by
    intro t ht
    obtain ⟨u, _, rfl⟩ := List.mem_map.mp ht
    exact isMathTok_mathTokOf st u
  -- the replacement
  have hrs : ∃ rs, replaceSection T ls.opText ls.opDefault true
        (detectMathParts (e ++ mb.map (mathTokOf st)) []) true true rot.inl = some rs ∧
      rs.repls = openRot mb rot.inl ∧ rs.out = e ++ openShape T r0 mb := by
    rw [detectMathParts_text_prefix e _ hem]
    unfold replaceSection
    rw [List.foldlM_append]
    obtain ⟨s', h1, h2, h3⟩ := replaceSteps_toks T ls.opText ls.opDefault e
      { firstPart := !true, nextRepl := true, repls := rot.inl, out := [] }
    rw [h1]
    simp only [Option.bind_eq_bind, Option.bind_some]
    by_cases hne : mb = []
    · subst hne
      refine ⟨s', ?_, ?_, ?_⟩
      · simp [detectMathParts]
      · rw [h3]; simp [openRot]
      · rw [h2]; simp [openShape]
    · have hmne : mb.map (mathTokOf st) ≠ [] := by simpa using hne
      rw [detectMathParts_single _ hmath hmne]
      have hns : (mb.map (mathTokOf st)).all (·.kind == .mathSpace) = false := by
        cases mb with
        | nil => exact absurd rfl hne
        | cons t ts =>
          have := mathTokOf_notSpace st t
          simp [this]
      obtain ⟨nr, hstep⟩ := replaceStep_inline_part T ls.opText ls.opDefault s'
        (mb.map (mathTokOf st)) ((mb.map (mathTokOf st)).head hmne)
        ((mb.map (mathTokOf st)).getLast hmne) r0 (List.head?_eq_some_head hmne)
        (List.getLast?_eq_some_getLast hmne) hns (by rw [h3]; exact hr)
      refine ⟨{ firstPart := s'.firstPart, nextRepl := nr, repls := rotL s'.repls,
                out := s'.out ++ inlineShape T (mb.map (mathTokOf st))
                  ((mb.map (mathTokOf st)).head hmne) ((mb.map (mathTokOf st)).getLast hmne) r0 },
              ?_, ?_, ?_⟩
      · simp only [List.foldlM_cons, List.foldlM_nil, hstep]
        rfl
      · simp [openRot, hne, h3]
      · have h0k : ¬ ((mb.map (mathTokOf st)).head hmne).kind = .mathSpace := by
          cases mb with
          | nil => exact absurd rfl hne
          | cons t ts => exact mathTokOf_notSpace st t
        have hlk : ¬ ((mb.map (mathTokOf st)).getLast hmne).kind = .mathSpace := by
          obtain ⟨u, _, hu⟩ := List.mem_map.mp (List.getLast_mem hmne)
          rw [← hu]; exact mathTokOf_notSpace st u
        have hpos : ((mb.map (mathTokOf st)).head hmne).pos = firstPos mb := by
          cases mb with
          | nil => exact absurd rfl hne
          | cons t ts => rfl
        simp only [h2, List.nil_append]
        unfold inlineShape openShape
        rw [partPunct_mathToks T st mb hbm, if_neg h0k, if_neg hlk, hpos, if_neg hne]
        cases punctChar T (bodyTxt mb) <;> simp
  obtain ⟨rs, hrs1, hrs2, hrs3⟩ := hrs
  rw [expandInlineMath.eq_2]
  refine (M.bind_ok _ _ _ _ _ hsec).trans ?_
  refine (M.bind_ok _ _ _ _ _ (rfl : M.get st2 = _)).trans ?_
  simp only [hrot2, hls2, hrs1]
  refine (M.bind_ok _ _ _ _ _ (rfl : M.modify _ _ = _)).trans ?_
  show Outcome.ok _ = _
  rw [hrs2, hrs3]
  simp only [openOut, openCore, he]

/-! ### `expandSequence` on plain tokens, simple formulas and open formulas -/

/-- the pieces of a token buffer: a token that is copied, a simple formula, or an open formula
    (`par` = the paragraph token that cuts it; `none`: it runs to the end of the buffer) -/
inductive OPiece where
  | tok (t : Tok)
  | math (d1 : Tok) (body : List Tok) (d2 : Tok)
  | opn (d1 : Tok) (body : List Tok) (par : Option Tok)

def OPiece.toks : OPiece → List Tok
  | .tok t => [t]
  | .math d1 b d2 => d1 :: (b ++ [d2])
  | .opn d1 b par => d1 :: (b ++ par.toList)

/-- the token buffer -/
def oflat : List OPiece → List Tok
  | [] => []
  | p :: ps => p.toks ++ oflat ps

/-- a buffer of plain tokens (copied by `expandSequence`), simple formulas and open formulas; an
    open formula without paragraph token is the last piece -/
def OPiecesOk (T : PTables) (st : PState) : List OPiece → Prop
  | [] => True
  | .tok t :: rest => PlainTok t ∧ PassTok T st t (oflat rest) ∧ TokShape t ∧ OPiecesOk T st rest
  | .math d1 b d2 :: rest =>
    DollarTok d1 ∧ mathToks b ≠ [] ∧ (∀ t ∈ b, BodyItem T t) ∧ DollarTok d2 ∧ OPiecesOk T st rest
  | .opn d1 b par :: rest =>
    DollarTok d1 ∧ (∀ t ∈ b, BodyItem T t) ∧
    (match par with | some pt => pt.kind = .par | none => rest = []) ∧ OPiecesOk T st rest

/-- what `expandSequence` emits for the pieces before the blank-line removal; `n` = length of the
    source, `l` = the stored placeholder collection -/
def ooutP (T : PTables) (n : Nat) : List Str → List OPiece → List Tok
  | _, [] => []
  | l, .tok t :: rest => t :: ooutP T n l rest
  | l, .math d1 b _ :: rest =>
    formulaOut T ((rotL l).headD []) d1.pos (firstPos (mathToks b)) (bodyTxt (mathToks b))
      ++ ooutP T n (rotL l) rest
  | l, .opn d1 b _ :: rest =>
    openOut T n ((rotL l).headD []) d1.pos (mathToks b) ++ ooutP T n (openRot (mathToks b) l) rest

/-- the diagnostics: one per open formula, at the position of its `$` -/
def diagsP (src : Str) : List OPiece → List Diag
  | [] => []
  | .opn d1 _ _ :: rest => latexErrorDiag errMathEnd d1.pos src :: diagsP src rest
  | _ :: rest => diagsP src rest

/-- number of rotations of the placeholder collection: one per formula with a maths token -/
def nRot : List OPiece → Nat
  | [] => 0
  | .tok _ :: rest => nRot rest
  | .math .. :: rest => nRot rest + 1
  | .opn _ b _ :: rest => nRot rest + (if mathToks b = [] then 0 else 1)

theorem OPiecesOk.congr {T : PTables} {st st' : PState} (hl : st'.langStack = st.langStack) :
    ∀ {ps : List OPiece}, OPiecesOk T st ps → OPiecesOk T st' ps
  | [], _ => trivial
  | .tok t :: rest, h => by
    refine ⟨h.1, ?_, h.2.2.1, OPiecesOk.congr hl h.2.2.2⟩
    unfold PassTok
    rw [activeChars_congr T st st' hl, expandShortMacro_congr T st st' hl]
    exact h.2.1
  | .math d1 b d2 :: rest, h => ⟨h.1, h.2.1, h.2.2.1, h.2.2.2.1, OPiecesOk.congr hl h.2.2.2.2⟩
  | .opn d1 b par :: rest, h => ⟨h.1, h.2.1, h.2.2.1, OPiecesOk.congr hl h.2.2.2⟩

theorem rotN_openRot (mb : List Tok) (k : Nat) (l : List Str) :
    rotN (k + (if mb = [] then 0 else 1)) l = rotN k (openRot mb l) := by
  unfold openRot
  split
  · rfl
  · rfl

theorem openRot_ne_nil (mb : List Tok) (l : List Str) (h : l ≠ []) : openRot mb l ≠ [] := by
  unfold openRot
  split
  · exact h
  · exact rotL_ne_nil l h

/-- the loop on a buffer of plain tokens, simple formulas and open formulas: the output is the
    blank-line removal applied to `ooutP`; the state changes in the rotation records and the
    diagnostics only.  Fuel: one unit per token and two for the final calls. -/
theorem seq_open (T : PTables) (envStop : Option Str) (ls : LangSettings) :
    ∀ (ps : List OPiece) (fuel : Nat) (out : List Tok) (st : PState) (rot : Rot),
      (oflat ps).length + 2 ≤ fuel → OPiecesOk T st ps →
      rotOf st (curSettings st) = some rot → rot.inl ≠ [] →
      settingsOf T (curSettings st) = some ls →
      ∃ st', expandSequence T fuel (oflat ps) envStop out st
          = (match removeLines (out ++ ooutP T st.latex.length rot.inl ps) with
             | some r => .ok ((r, []), st')
             | none => .outOfFuel) ∧
        st' = { st with rots := st'.rots, diags := st.diags ++ diagsP st.latex ps } ∧
        rotOf st' (curSettings st) = some { rot with inl := rotN (nRot ps) rot.inl } := by
  intro ps
  induction ps with
  | nil =>
    intro fuel out st rot hf _ hrot _ _
    obtain ⟨f, rfl⟩ : ∃ f, fuel = f + 1 := ⟨fuel - 1, by omega⟩
    refine ⟨st, ?_, by simp [diagsP], hrot⟩
    simp only [oflat, ooutP, List.append_nil]
    rw [expandSequence.eq_2]
    cases removeLines out <;> rfl
  | cons p ps ih =>
    intro fuel out st rot hf hok hrot hne hls
    cases p with
    | tok t =>
      simp only [oflat, OPiece.toks, List.singleton_append, List.length_cons] at hf ⊢
      obtain ⟨f, rfl⟩ : ∃ f, fuel = f + 1 := ⟨fuel - 1, by omega⟩
      rw [seq_plain_step T f t (oflat ps) envStop out st hok.1 hok.2.1]
      obtain ⟨st', h1, h2, h3⟩ := ih f (out ++ [t]) st rot (by omega) hok.2.2.2 hrot hne hls
      refine ⟨st', ?_, h2, h3⟩
      rw [h1]
      simp only [ooutP, List.append_assoc, List.singleton_append]
    | math d1 b d2 =>
      obtain ⟨hd1, hbne, hb, hd2, hrest⟩ := hok
      have hflat : oflat (OPiece.math d1 b d2 :: ps) = d1 :: (b ++ d2 :: oflat ps) := by
        simp [oflat, OPiece.toks]
      rw [hflat] at hf ⊢
      simp only [List.length_cons, List.length_append] at hf
      obtain ⟨f, rfl⟩ : ∃ f, fuel = f + 2 := ⟨fuel - 2, by omega⟩
      have hr := headD_of_ne_nil _ (rotL_ne_nil _ hne)
      have him := inlineMath_simple T st f d1 d2 b (oflat ps) rot ls _ hd2 hbne hb (by omega) hrot hls hr
      rw [seq_dollar_step T (f + 1) d1 _ envStop out st hd1]
      rw [M.bind_ok _ (fun r => expandSequence T (f + 1) r.2 envStop (out ++ r.1)) _ _ _ him]
      simp only []
      have hrot2 := rotOf_setRot st (curSettings st) rot (rotL rot.inl) hrot
      obtain ⟨st', h1, h2, h3⟩ := ih (f + 1)
        (out ++ formulaOut T ((rotL rot.inl).headD []) d1.pos (firstPos (mathToks b))
          (bodyTxt (mathToks b)))
        (setRot st { rot with inl := rotL rot.inl }) { rot with inl := rotL rot.inl }
        (by omega) (OPiecesOk.congr (st := st) (st' := setRot st { rot with inl := rotL rot.inl }) rfl hrest) hrot2 (rotL_ne_nil _ hne) hls
      refine ⟨st', ?_, h2.trans rfl, ?_⟩
      · rw [h1]
        simp only [ooutP, List.append_assoc]
        rfl
      · rw [show curSettings st = curSettings (setRot st { rot with inl := rotL rot.inl }) from rfl, h3]
        simp only [nRot, rotN]
    | opn d1 b par =>
      obtain ⟨hd1, hb, hpar, hrest⟩ := hok
      have htl : OpenTail (par.toList ++ oflat ps) := by
        cases par with
        | none => left; simp only [] at hpar; subst hpar; rfl
        | some pt => right; exact ⟨pt, oflat ps, rfl, hpar⟩
      have htail : (par.toList ++ oflat ps).tail = oflat ps := by
        cases par with
        | none => simp only [] at hpar; subst hpar; rfl
        | some pt => rfl
      have hflat : oflat (OPiece.opn d1 b par :: ps) = d1 :: (b ++ (par.toList ++ oflat ps)) := by
        simp [oflat, OPiece.toks]
      rw [hflat] at hf ⊢
      simp only [List.length_cons, List.length_append] at hf
      obtain ⟨f, rfl⟩ : ∃ f, fuel = f + 2 := ⟨fuel - 2, by omega⟩
      have hr := headD_of_ne_nil _ (rotL_ne_nil _ hne)
      have him := inlineMath_open T st f d1 b (par.toList ++ oflat ps) rot ls _ htl hb (by omega)
        hrot hls hr
      rw [htail] at him
      rw [seq_dollar_step T (f + 1) d1 _ envStop out st hd1]
      rw [M.bind_ok _ (fun r => expandSequence T (f + 1) r.2 envStop (out ++ r.1)) _ _ _ him]
      simp only []
      generalize hst2 : ({ st with diags := st.diags ++ [latexErrorDiag errMathEnd d1.pos st.latex] } : PState)
        = st2
      have hrot0 : rotOf st2 (curSettings st2) = some rot := by rw [← hst2]; exact hrot
      have hrot2 := rotOf_setRot st2 (curSettings st2) rot (openRot (mathToks b) rot.inl) hrot0
      have hlen : (oflat ps).length + 2 ≤ f + 1 := by
        have : (par.toList ++ oflat ps).length = par.toList.length + (oflat ps).length := by simp
        omega
      obtain ⟨st', h1, h2, h3⟩ := ih (f + 1)
        (out ++ openOut T st.latex.length ((rotL rot.inl).headD []) d1.pos (mathToks b))
        (setRot st2 { rot with inl := openRot (mathToks b) rot.inl })
        { rot with inl := openRot (mathToks b) rot.inl }
        hlen
        (OPiecesOk.congr (st := st)
          (st' := setRot st2 { rot with inl := openRot (mathToks b) rot.inl })
          (by rw [← hst2]; rfl) hrest)
        hrot2 (openRot_ne_nil _ _ hne) (by rw [← hst2]; exact hls)
      have hlat : (setRot st2 { rot with inl := openRot (mathToks b) rot.inl }).latex = st.latex := by
        rw [← hst2]; rfl
      rw [hlat] at h1 h2
      refine ⟨st', ?_, ?_, ?_⟩
      · rw [h1]
        simp only [ooutP, List.append_assoc]
      · rw [h2, ← hst2]
        simp [setRot, diagsP, List.append_assoc]
      · have : curSettings st = curSettings (setRot st2 { rot with inl := openRot (mathToks b) rot.inl }) := by
          rw [← hst2]; rfl
        rw [this, h3]
        simp only [nRot, rotN_openRot]

/-! ### the blank-line removal deletes nothing -/

/-- the mark of `missing end of maths` is a visible one-line text (true whenever `T.mark` is) -/
def markVisible (T : Tables) : Bool :=
  !hasNl (errMark T errMathEnd) && !isBlank (errMark T errMathEnd)

theorem openShape_texts (T : PTables) (ph : Str) (mb : List Tok) (hph : hasNl ph = false)
    (hs : ∀ c ∈ bodyTxt mb, isSpace c = false) :
    ∀ t ∈ openShape T ph mb, t.kind = .text ∧ hasNl t.txt = false := by
  intro t ht
  unfold openShape at ht
  split at ht
  · simp at ht
  · cases hp : punctChar T (bodyTxt mb) with
    | none =>
      simp only [hp, List.append_nil, List.mem_singleton] at ht
      subst ht; exact ⟨rfl, hph⟩
    | some c =>
      simp only [hp, List.mem_append, List.mem_singleton] at ht
      rcases ht with rfl | rfl
      · exact ⟨rfl, hph⟩
      · exact ⟨rfl, hasNl_single c (hs c (punctChar_mem T _ c hp))⟩

/-- the line automaton passes an open formula and is behind visible text afterwards -/
theorem lineRun_open (T : PTables) (n : Nat) (ph : Str) (p : Nat) (mb : List Tok)
    (hm : markVisible T.toTables = true)
    (hph : hasNl ph = false) (hs : ∀ c ∈ bodyTxt mb, isSpace c = false)
    (σ : Option Bool) (tail : List LItem) (ht : tail ≠ []) :
    lineRun σ (((openOut T n ph p mb).filter keepIn).map evalTok ++ tail) = lineRun none tail := by
  simp only [markVisible, Bool.and_eq_true, Bool.not_eq_true'] at hm
  generalize hq : ((openCore T n ph p mb).getLast?.map (·.pos)).getD p = q
  have hfil : (openOut T n ph p mb).filter keepIn
      = mkAction p :: ((latexErrorToks T.toTables errMathEnd p n ++ openShape T ph mb).filter keepIn
          ++ [mkAction q]) := by
    unfold openOut
    rw [hq]
    unfold openCore
    simp [List.filter_append, keepIn, mkAction, isAction]
  rw [hfil]
  simp only [List.map_cons, List.map_append, List.cons_append, List.append_assoc, List.map_nil,
    List.nil_append]
  rw [lineRun_action (mkAction p) rfl σ _ (by simp)]
  have htx : ∀ t ∈ latexErrorToks T.toTables errMathEnd p n ++ openShape T ph mb,
      t.kind = .text ∧ hasNl t.txt = false := by
    intro t h
    rcases List.mem_append.mp h with h | h
    · exact ⟨(latexErrorToks_kind _ _ _ _ t h).1, latexErrorToks_noNl _ _ _ _ hm.1 t h⟩
    · exact openShape_texts T ph mb hph hs t h
  rw [lineRun_texts _ _ _ htx (by simp)]
  have hnb : (latexErrorToks T.toTables errMathEnd p n ++ openShape T ph mb).all
      (fun t => isBlank t.txt) = false := by
    cases hall : (latexErrorToks T.toTables errMathEnd p n ++ openShape T ph mb).all
        (fun t => isBlank t.txt) with
    | false => rfl
    | true =>
      have := isBlank_getTxtPos (latexErrorToks T.toTables errMathEnd p n)
        (fun t h => List.all_eq_true.mp hall t (List.mem_append_left _ h))
      rw [latexErrorToks_txtpos] at this
      rw [hm.2] at this; cases this
  rw [hnb]
  simp only [Bool.false_eq_true, if_false]
  rw [lineRun_action (mkAction q) rfl none tail ht]
  rfl

theorem lineRun_ooutP (T : PTables) (st : PState) (n : Nat) (hm : markVisible T.toTables = true) :
    ∀ (ps : List OPiece) (l : List Str) (σ : Option Bool) (tail : List LItem),
      OPiecesOk T st ps → VisibleRepls l → l ≠ [] → tail ≠ [] → σ ≠ some true →
      ∃ σ', σ' ≠ some true ∧
        lineRun σ (((ooutP T n l ps).filter keepIn).map evalTok ++ tail) = lineRun σ' tail := by
  intro ps
  induction ps with
  | nil =>
    intro l σ tail _ _ _ _ hσ
    exact ⟨σ, hσ, by simp [ooutP]⟩
  | cons p ps ih =>
    intro l σ tail hok hl hne ht hσ
    cases p with
    | tok t =>
      obtain ⟨hp, _, ⟨htne, hshape⟩, hrest⟩ := hok
      have hk : keepIn t = true := by
        cases hx : t.txt with
        | nil => exact absurd hx htne
        | cons => simp [keepIn, hx]
      simp only [ooutP, List.filter_cons, hk, if_true, List.map_cons, List.cons_append]
      have hne2 : ((ooutP T n l ps).filter keepIn).map evalTok ++ tail ≠ [] := by simp [ht]
      rcases hshape with ⟨hkind, hnl⟩ | ⟨hkind, hbl⟩
      · rw [lineRun_txt t hkind hnl σ _ hne2]
        refine ih l _ tail hrest hl hne ht ?_
        split
        · exact hσ
        · simp
      · rw [lineRun_ws t hkind hbl σ _ hne2]
        have hσ' : (σ == some true) = false := by
          cases σ with
          | none => rfl
          | some a => cases a <;> simp at hσ ⊢
        simp only [hσ', Bool.false_eq_true, if_false]
        split
        · exact ih l _ tail hrest hl hne ht (by simp)
        · exact ih l _ tail hrest hl hne ht hσ
    | math d1 b d2 =>
      obtain ⟨_, _, hb, _, hrest⟩ := hok
      simp only [ooutP, List.filter_append, List.map_append, List.append_assoc]
      have hne2 : ((ooutP T n (rotL l) ps).filter keepIn).map evalTok ++ tail ≠ [] := by simp [ht]
      have hmem : (rotL l).headD [] ∈ rotL l := by
        have := headD_of_ne_nil _ (rotL_ne_nil l hne)
        exact List.mem_of_mem_head? (by rw [this]; rfl)
      rw [lineRun_formula T _ d1.pos (firstPos (mathToks b)) (bodyTxt (mathToks b)) (hl.rotL _ hmem)
        (bodyTxt_nonspace T _ (mathToks_body T b hb)) σ _ hne2]
      exact ih (rotL l) none tail hrest hl.rotL (rotL_ne_nil l hne) ht (by simp)
    | opn d1 b par =>
      obtain ⟨_, hb, _, hrest⟩ := hok
      simp only [ooutP, List.filter_append, List.map_append, List.append_assoc]
      have hne2 : ((ooutP T n (openRot (mathToks b) l) ps).filter keepIn).map evalTok ++ tail ≠ [] := by
        simp [ht]
      have hmem : (rotL l).headD [] ∈ rotL l := by
        have := headD_of_ne_nil _ (rotL_ne_nil l hne)
        exact List.mem_of_mem_head? (by rw [this]; rfl)
      rw [lineRun_open T n _ d1.pos (mathToks b) hm (hl.rotL _ hmem).1
        (bodyTxt_nonspace T _ (mathToks_body T b hb)) σ _ hne2]
      have hl' : VisibleRepls (openRot (mathToks b) l) := by
        unfold openRot; split
        · exact hl
        · exact hl.rotL
      exact ih _ none tail hrest hl' (openRot_ne_nil _ l hne) ht (by simp)

/-- the blank-line removal only drops the (empty) Action tokens -/
theorem removeLines_ooutP (T : PTables) (st : PState) (n : Nat) (hm : markVisible T.toTables = true)
    (ps : List OPiece) (l : List Str)
    (hok : OPiecesOk T st ps) (hl : VisibleRepls l) (hne : l ≠ []) :
    removeLines (ooutP T n l ps) = some ((ooutP T n l ps).filter keepOut) := by
  apply removeLines_safe_id
  apply lineRun_linesInit
  intro p
  obtain ⟨σ', h1, h2⟩ := lineRun_ooutP T st n hm ps l (some false) [lastItem p] hok hl hne (by simp) (by simp)
  rw [h2, lineRun_lastItem]
  cases σ' with
  | none => rfl
  | some a => cases a <;> simp at h1 ⊢

end PlainMathOpen
end Yalafi
