/-
  Proofs/HtmlTextTag.lean — the tag of a match: what `begin_match` returns when it returns (`beginMatch_ok`), and
  that its pieces are well placed (`flow_spanOpen`, `flow_linkOpen`, `flow_linkClose`) and let the search for
  `<br>\n` through (`TagOk`, `beginMatch_tagOk`, `matchTags_tagOk`), for style strings without `"` and `<`
  (`VarsOk`).
-/
import YalafiVerif.Proofs.HtmlTextHl
namespace Yalafi
namespace HtmlText
open Html

/-! ### begin_match -/

theorem beginMatch_ok (V : Vars) (m : Json) (lin : Int) (unsure : Bool) (t : Tag)
    (h : beginMatch V m lin unsure = .ok t) :
    ∃ d style url, matchData m = .ok d ∧
      (if unsure then V.highlightStyleUnsure else some V.highlightStyle) = some style ∧
      ruleUrl V.link m = .ok url ∧
      t = (spanOpen style (titlePieces d lin unsure) ++ linkOpen url, linkClose url) := by
  unfold beginMatch at h
  split at h
  · rename_i d hd
    split at h
    · cases h
    · rename_i style hs
      split at h
      · rename_i url hu
        cases h
        exact ⟨d, style, url, hd, hs, hu, rfl⟩
      · cases h
      · cases h
  · cases h
  · cases h

/-- a piece that leaves the tokenizer inside a double-quoted attribute value -/
def dqStay : TPiece → Bool
  | .lit s => s.all (· != '"')
  | .raw s => s.all (· != '"')
  | .esc _ => false
  | .escTitle _ => true
  | .escAttr _ => true

theorem flow_dqStay (a : Str) (ps rest : List TPiece) (h : ps.all dqStay = true) :
    flow (.dq a) (ps ++ rest) = flow (.dq a) rest := by
  induction ps with
  | nil => rfl
  | cons p ps ih =>
    simp only [List.all_cons, Bool.and_eq_true] at h
    have := ih h.2
    cases p with
    | lit s =>
      have hq : ∀ c ∈ s, c ≠ '"' := by
        intro c hc; have := h.1; simp [dqStay] at this; exact this c hc
      simp only [flow, List.cons_append, List.map_cons, TPiece.shape, flowS, scan_dq_noQuote a s hq] at this ⊢
      exact this
    | raw s =>
      have hq : s.all (· != '"') = true := h.1
      simp only [flow, List.cons_append, List.map_cons, TPiece.shape, flowS, hq, if_true] at this ⊢
      exact this
    | esc s => simp [dqStay] at h
    | escTitle s => simpa [flow, flowS, TPiece.shape] using this
    | escAttr s => simpa [flow, flowS, TPiece.shape] using this

theorem titlePieces_dqStay (d : MatchData) (lin : Int) (unsure : Bool) : (titlePieces d lin unsure).all dqStay = true := by
  simp [titlePieces, dqStay, L]

/-- no `"` and no `<` in a style string of `vars` -/
def styleOk (s : Str) : Bool := s.all (fun c => c != '"' && c != '<')

structure VarsOk (V : Vars) : Prop where
  hs : styleOk V.highlightStyle = true
  hsu : ∀ s, V.highlightStyleUnsure = some s → styleOk s = true
  ns : styleOk V.numberStyle = true

theorem styleOk_noQuote (s : Str) (h : styleOk s = true) : s.all (· != '"') = true := by
  simp only [styleOk, List.all_eq_true, Bool.and_eq_true] at h ⊢
  exact fun c hc => (h c hc).1

theorem styleOk_noLt (s : Str) (h : styleOk s = true) : ∀ c ∈ s, c ≠ '<' := by
  simp only [styleOk, List.all_eq_true, Bool.and_eq_true] at h
  intro c hc; simpa using (h c hc).2

theorem flow_cons_L (st : TokSt) (s : String) (ps : List TPiece) :
    flow st (L s :: ps) = flow (scan st s.toList).1 ps := rfl

theorem flow_spanOpen (style : Str) (title : List TPiece) (rest : List TPiece) (hs : styleOk style = true)
    (ht : title.all dqStay = true) :
    flow .text (spanOpen style title ++ rest) = flow .text rest := by
  unfold spanOpen
  simp only [List.cons_append, List.nil_append, List.append_assoc, flow_cons_L]
  have h1 : (scan .text "<span style=\"".toList).1 = .dq "<span style=\"".toList := by decide
  rw [h1]
  have h2 := flow_dqStay "<span style=\"".toList [.lit style] (L "\" title=\"" :: (title ++ (L "\">" :: rest)))
    (by simp [dqStay, styleOk_noQuote style hs])
  simp only [List.cons_append, List.nil_append] at h2
  rw [h2, flow_cons_L]
  have h3 : (scan (.dq "<span style=\"".toList) "\" title=\"".toList).1 = .dq "<span style=\"\" title=\"".toList := by decide
  rw [h3, flow_dqStay _ _ _ ht, flow_cons_L]
  have h4 : (scan (.dq "<span style=\"\" title=\"".toList) "\">".toList).1 = .text := by decide
  rw [h4]

theorem flow_linkOpen (url : Option Str) (rest : List TPiece) : flow .text (linkOpen url ++ rest) = flow .text rest := by
  cases url with
  | none => rfl
  | some u =>
    simp only [linkOpen, List.cons_append, List.nil_append, flow_cons_L]
    have h1 : (scan .text "<a href=\"".toList).1 = .dq "<a href=\"".toList := by decide
    rw [h1]
    have h2 := flow_dqStay "<a href=\"".toList [.escAttr u] (L "\" target=\"_blank\">" :: rest) (by simp [dqStay])
    simp only [List.cons_append, List.nil_append] at h2
    rw [h2, flow_cons_L]
    have h3 : (scan (.dq "<a href=\"".toList) "\" target=\"_blank\">".toList).1 = .text := by decide
    rw [h3]

theorem flow_linkClose (url : Option Str) (rest : List TPiece) :
    flow .text (linkClose url ++ endMatch ++ rest) = flow .text rest := by
  cases url with
  | none =>
    simp only [linkClose, endMatch, List.nil_append, List.cons_append, flow_cons_L]
    have : (scan .text "</span>".toList).1 = .text := by decide
    rw [this]
  | some u =>
    simp only [linkClose, endMatch, List.nil_append, List.cons_append, flow_cons_L]
    have h1 : (scan .text "</a>".toList).1 = .text := by decide
    have h2 : (scan .text "</span>".toList).1 = .text := by decide
    rw [h1, h2]


/-! ### pieces through which the search for `<br>\n` runs -/

def brOkP : TPiece → Bool
  | .lit s => brFreeB s
  | .raw s => brFreeB s
  | .esc s => !s.contains '\n'
  | .escTitle _ => true
  | .escAttr _ => true

theorem protectHtml_noLt (s : Str) (h : '\n' ∉ s) : ∀ c ∈ protectHtml s, c ≠ '<' := by
  rw [protectHtml_eq]
  intro c hc
  simp only [List.mem_flatMap] at hc
  obtain ⟨d, hd, hc⟩ := hc
  exact phStep_noLt d (fun e => h (e ▸ hd)) c hc

theorem brOkP_sound (p : TPiece) (h : brOkP p = true) : BrFree p.render := by
  cases p with
  | lit s => exact BrFree.ofB h
  | raw s => exact BrFree.ofB h
  | esc s =>
    apply BrFree.noLt
    apply protectHtml_noLt
    simpa [brOkP] using h
  | escTitle s => exact BrFree.noLt (fun c hc => (protectTitle_safe s c hc).2.1)
  | escAttr s => exact BrFree.noLt (fun c hc => (htmlEscape_safe s c hc).2.1)

theorem renderPieces_append (a b : List TPiece) : renderPieces (a ++ b) = renderPieces a ++ renderPieces b := by
  simp [renderPieces]

theorem renderPieces_cons (p : TPiece) (ps : List TPiece) : renderPieces (p :: ps) = p.render ++ renderPieces ps := by
  simp [renderPieces]

theorem brFree_pieces (ps : List TPiece) (h : ps.all brOkP = true) : BrFree (renderPieces ps) := by
  induction ps with
  | nil => exact BrFree.nil
  | cons p ps ih =>
    simp only [List.all_cons, Bool.and_eq_true] at h
    rw [renderPieces_cons]
    exact (brOkP_sound p h.1).append (ih h.2)

theorem brFreeB_of_noLt (s : Str) (h : ∀ c ∈ s, c ≠ '<') : brFreeB s = true := by
  induction s with
  | nil => rfl
  | cons c cs ih =>
    have hc : (c == '<') = false := by simp [h c (by simp)]
    simp only [brFreeB, hc, Bool.false_eq_true, ↓reduceIte]
    exact ih (fun d hd => h d (by simp [hd]))

/-! ### the tags of a match -/

structure TagOk (t : Tag) : Prop where
  flowPre : ∀ rest, flow .text (t.1 ++ rest) = flow .text rest
  flowPost : ∀ rest, flow .text (t.2 ++ endMatch ++ rest) = flow .text rest
  brPre : BrFree t.pre
  brPost : BrFree t.post

theorem tagOk_default : TagOk ([], []) := by
  refine ⟨fun _ => rfl, ?_, BrFree.nil, ?_⟩
  · intro rest; exact flow_linkClose none rest
  · exact brFree_pieces _ (by decide)

theorem titlePieces_brOk (d : MatchData) (lin : Int) (unsure : Bool) : (titlePieces d lin unsure).all brOkP = true := by
  simp [titlePieces, brOkP, L]
  decide

theorem beginMatch_tagOk (V : Vars) (hV : VarsOk V) (m : Json) (lin : Int) (unsure : Bool) (t : Tag)
    (h : beginMatch V m lin unsure = .ok t) : TagOk t := by
  obtain ⟨d, style, url, _, hs, _, rfl⟩ := beginMatch_ok V m lin unsure t h
  have hst : styleOk style = true := by
    cases unsure with
    | true => exact hV.hsu style (by simpa using hs)
    | false =>
      simp only [Bool.false_eq_true, ↓reduceIte, Option.some.injEq] at hs
      rw [← hs]; exact hV.hs
  refine ⟨?_, ?_, ?_, ?_⟩
  · intro rest
    simp only [List.append_assoc]
    rw [flow_spanOpen _ _ _ hst (titlePieces_dqStay d lin unsure), flow_linkOpen]
  · intro rest; exact flow_linkClose url rest
  · apply brFree_pieces
    have h1 := titlePieces_brOk d lin unsure
    have h2 : brFreeB style = true := brFreeB_of_noLt style (styleOk_noLt style hst)
    cases url with
    | none =>
      simp only [spanOpen, linkOpen, List.append_nil, List.all_append, List.all_cons, List.all_nil, Bool.and_true,
        Bool.and_eq_true, h1, brOkP, L, h2]
      decide
    | some u =>
      simp only [spanOpen, linkOpen, List.all_append, List.all_cons, List.all_nil, Bool.and_true,
        Bool.and_eq_true, h1, brOkP, L, h2]
      decide
  · apply brFree_pieces
    cases url with
    | none => show (linkClose none ++ endMatch).all brOkP = true; decide
    | some u => show (linkClose (some u) ++ endMatch).all brOkP = true; simp only [linkClose]; decide

theorem matchTags_tagOk (V : Vars) (hV : VarsOk V) (ms : List Json) (hs : List HData) (tags : List Tag)
    (h : matchTags V ms hs = .ok tags) : ∀ t ∈ tags, TagOk t := by
  induction hs generalizing tags with
  | nil => simp [matchTags] at h; subst h; simp
  | cons hd hs ih =>
    unfold matchTags at h
    split at h
    · rename_i t ht
      split at h
      · rename_i ts hts
        cases h
        intro t' ht'
        simp only [List.mem_cons] at ht'
        rcases ht' with e | e
        · subst e; exact beginMatch_tagOk V hV _ _ _ _ ht
        · exact ih ts hts t' e
      · cases h
      · cases h
    · cases h
    · cases h

theorem tagOk_getD (tags : List Tag) (h : ∀ t ∈ tags, TagOk t) (idx : Nat) : TagOk (tags.getD idx ([], [])) := by
  rw [List.getD_eq_getElem?_getD]
  cases hg : tags[idx]? with
  | none => exact tagOk_default
  | some t => exact h t (List.mem_of_getElem? hg)

end HtmlText
end Yalafi
