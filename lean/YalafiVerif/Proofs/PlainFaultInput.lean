/-
  Proofs/PlainFaultInput.lean — C08 at `\LTinput{file}` WITH AN UNREADABLE FILE, end to end on the
  model.

  Document: `pre ++ \LTinput{file} ++ post` — `pre`, `post` inert text, `file` a non-empty word of
  inert characters without white space, and the file system of the parser state has no entry
  `file` (`st1.fs.find? (·.1 == file) = none`; the model's file system is the list `fs` of
  (name, content) pairs handed to `tex2txt`).

  What the model (= `handlers.h_load_defs`) does: the argument is expanded to the file name, the
  file cannot be read, `latex_error('could not read file ' + repr(file), pos of \LTinput)`; the call
  yields an Action token and the mark tokens, which the loop copies; nothing behind the call is
  touched.

  `callHandler_loadDefs_missing`, `expandMacro_input`, `seq_input_missing`   expander
  `scanRun_input`                                                         scanner
  `tex2txt_input_unreadable`                                              end to end

  Side conditions (reasons)
    `pre`, `post`    inert text in their right context
    `\LTinput`       (any control word `\name` is admitted) one macro token of the scanner; declared
                     with argument code `A`, handler `h_load_defs`, no extraction text
    `{`, `}`         scanned as special tokens
    `file`           `wordOk`: inert characters, no white space, not empty (an empty argument gives
                     a void token and the file name `''`)
    `st1.readMacros` the handler is active (it is switched off only while a file is being read)
    `st1.fs.find? (·.1 == file) = none`   the file is unreadable
    `noEmptyActive`, blank inactive       Action token and mark tokens pass `expand_sequence`
    `markFine`       the mark with this message is a visible one-line text
    fuel             `|src| + |file| + 8 ≤ fuel` (the file name is expanded in a nested loop)
  NOT covered: file names with white space, macros or special sequences; `\LTinput` inside a file
  that is being read (`readMacros = false`: the call is ignored).
-/
import YalafiVerif.Proofs.PlainFaultBase
import YalafiVerif.Proofs.PlainHeading
namespace Yalafi
namespace PlainFault

open M PlainMacro
open PlainFootnote (TextRun CopyTok lineC LinesOf)
open PlainAccent (ScanRun)
open PlainMathOpen (markPos)

/-- the first part of the message -/
def errReadHead : Str := "could not read file ".toList

/-- the message of the diagnostic: `could not read file '<file>'` -/
def errRead (file : Str) : Str := errReadHead ++ reprStr file

/-- the declaration of `\LTinput` the development relies on -/
def inputDeclOk (m : MacroDef) : Bool :=
  m.args == ['A'] && m.handler == .loadDefs && m.extract.isEmpty

structure InputDecl (m : MacroDef) : Prop where
  args : m.args = ['A']
  handler : m.handler = .loadDefs
  extract : m.extract = []

theorem inputDecl {m : MacroDef} (h : inputDeclOk m = true) : InputDecl m := by
  simp only [inputDeclOk, Bool.and_eq_true, beq_iff_eq, List.isEmpty_iff] at h
  exact ⟨h.1.1, h.1.2, h.2⟩

/-! ### the expander -/

/-- the state behind the call -/
def inputSt (st : PState) (file : Str) (pos : Nat) : PState :=
  { st with diags := st.diags ++ [latexErrorDiag (errRead file) pos st.latex] }

/-- `h_load_defs` on a file name that is not in the file system -/
theorem callHandler_loadDefs_missing (T : PTables) (fuel : Nat) (buf : Buf) (mac : MacroDef)
    (arg : List Tok) (file : Str) (pos : Nat) (st : PState)
    (harg : ∀ t ∈ arg, CopyTok T st t) (hfile : (getTxtPos arg).1 = file)
    (hrm : st.readMacros = true) (hfs : st.fs.find? (·.1 == file) = none)
    (hf : arg.length + 3 ≤ fuel) :
    callHandler T fuel .loadDefs buf mac [arg] pos st
      = .ok (latexErrorToks T.toTables (errRead file) pos st.latex.length, inputSt st file pos) := by
  obtain ⟨f, rfl⟩ : ∃ f, fuel = f + 1 := ⟨fuel - 1, by omega⟩
  simp only [callHandler]
  refine (M.bind_ok _ _ _ _ _ (rfl : M.get st = _)).trans ?_
  simp only [hrm, Bool.not_true, Bool.false_eq_true, if_false, List.getElem?_cons_zero]
  refine (M.bind_ok _ _ _ _ _ (rfl : (pure arg : M (List Tok)) st = _)).trans ?_
  refine (M.bind_ok _ _ _ _ _ (PlainHeading.getTextExpanded_copy T st arg f harg (by omega))).trans ?_
  refine (M.bind_ok _ _ _ _ _ (rfl : M.get st = _)).trans ?_
  rw [hfile]
  simp only [hfs]
  have e : "could not read file ".toList ++ reprStr file = errRead file := rfl
  rw [e]
  rfl

theorem collectArgs_A_braced (T : PTables) (mac : MacroDef) (p q : Nat) (arg : List Tok)
    (harg : ∀ t ∈ arg, NoBrace t) (hne : arg ≠ []) (rest : Buf) (start : Nat) (st : PState) :
    collectArgs T mac ['A'] 0 (lbr p :: (arg ++ rbr q :: rest)) start {} st
      = .ok (({ args := [arg], extr := [arg], langs := [] }, rest), st) := by
  have hl : isSpaceTok (lbr p) = false := rfl
  rw [collectArgs]
  simp only [skippedLangs_cons_of_not _ _ hl, skipSpace_cons_of_not _ _ hl, List.append_nil,
    List.head?_cons, show ('A' == '*') = false by decide, show ('A' == 'O') = false by decide,
    beq_self_eq_true, if_true, show txtIsNV (lbr p) "}" = false by rfl, Bool.false_eq_true, if_false]
  refine (M.bind_ok _ _ _ _ _ (argBuffer_brace T.toTables p q arg rest p st harg hne)).trans ?_
  rw [collectArgs]
  rfl

theorem expandMacro_input (T : PTables) (fuel : Nat) (mac : MacroDef) (hmac : InputDecl mac)
    (p q : Nat) (arg : List Tok) (file : Str) (rest : Buf) (tok : Tok) (st : PState)
    (hl : lookupMacro st tok.txt = some mac)
    (harg : ∀ t ∈ arg, CopyTok T st t) (hne : arg ≠ []) (hfile : (getTxtPos arg).1 = file)
    (hrm : st.readMacros = true) (hfs : st.fs.find? (·.1 == file) = none)
    (hf : arg.length + 3 ≤ fuel) :
    expandMacro T (fuel + 2) (lbr p :: (arg ++ rbr q :: rest)) tok false st
      = .ok ((mkAction tok.pos :: latexErrorToks T.toTables (errRead file) tok.pos st.latex.length, rest),
             inputSt st file tok.pos) := by
  rw [expandMacro.eq_2]
  refine (M.bind_ok _ _ _ _ _ (rfl : M.get st = _)).trans ?_
  simp only [hl, skipSpaceStopLang_cons_of_not _ _ (rfl : isSpaceTok (lbr p) = false)]
  rw [expandArguments.eq_2, hmac.args]
  refine (M.bind_ok _ _ _ _ _ (collectArgs_A_braced T mac p q arg
    (fun t ht => plainTok_noBrace (harg t ht).plain) hne rest tok.pos st)).trans ?_
  simp only [hmac.extract, hmac.handler, List.isEmpty_nil, Bool.not_true, Bool.false_eq_true, if_false,
    show (Handler.loadDefs != Handler.none) = true by decide, if_true]
  refine (M.bind_ok _ _ _ _ _ (callHandler_loadDefs_missing T fuel rest mac arg file tok.pos st harg hfile
    hrm hfs hf)).trans ?_
  rw [List.append_nil]
  rfl

/-- what the loop emits for the call -/
def inputOut (T : Tables) (n p : Nat) (file : Str) : List Tok :=
  mkAction p :: latexErrorToks T (errRead file) p n

/-- **the loop at `\LTinput{file}` with an unreadable file** -/
theorem seq_input_missing (T : PTables) (g : Nat) (p q1 q2 : Nat) (name : Str) (arg : List Tok)
    (file : Str) (B : List Tok) (envStop : Option Str) (out : List Tok) (st : PState) (mac : MacroDef)
    (hnd : ('\\' :: name) ≠ sDef)
    (hl : lookupMacro st ('\\' :: name) = some mac) (hmac : InputDecl mac)
    (harg : ∀ t ∈ arg, CopyTok T st t) (hne : arg ≠ []) (hfile : (getTxtPos arg).1 = file)
    (hrm : st.readMacros = true) (hfs : st.fs.find? (·.1 == file) = none)
    (ha : noEmptyActive T st = true) (hb : (activeChars T st).contains [' '] = false)
    (hp : p < st.latex.length) :
    ∃ g', g ≤ g' ∧
      expandSequence T (g + (arg.length + 6)) (cwTok p name :: lbr q1 :: (arg ++ rbr q2 :: B)) envStop out st
        = expandSequence T g' B envStop (out ++ inputOut T.toTables st.latex.length p file)
            (inputSt st file p) := by
  have hk : (cwTok p name).kind = .xmacro := rfl
  have hd : txtIs (cwTok p name) "\\def" = false := by
    simpa [txtIs, cwTok, sDef] using hnd
  generalize hst' : inputSt st file p = st'
  have ha' : noEmptyActive T st' = true := by
    rw [← hst']; exact (noEmptyActive_congr T st _ rfl).trans ha
  have hb' : (activeChars T st').contains [' '] = false := by
    rw [activeChars_congr T st st' (by rw [← hst']; rfl)]; exact hb
  obtain ⟨g', hg', hmark⟩ := seq_mark' T st' (errRead file) p st.latex.length hp hb' envStop B
    (g + arg.length + 2) (out ++ [mkAction p])
  refine ⟨g', by omega, ?_⟩
  rw [show g + (arg.length + 6) = (g + arg.length + 3) + 2 + 1 by omega, expandSequence.eq_3]
  show M.bind' M.get _ st = _
  simp only [M.bind', M.get]
  simp only [hk, hd, Bool.false_eq_true, if_false, if_true, reduceCtorEq, beq_iff_eq, beq_self_eq_true]
  refine (M.bind_ok _ _ _ _ _ (expandMacro_input T (g + arg.length + 3) mac hmac q1 q2 arg file B
    (cwTok p name) st hl harg hne hfile hrm hfs (by omega))).trans ?_
  simp only [List.cons_append, show (cwTok p name).pos = p from rfl, hst']
  rw [show g + arg.length + 3 + 2 = (g + arg.length + 2 + 2) + 1 by omega,
    seq_action_step T _ p _ envStop out st' ha', hmark]
  simp [inputOut, List.append_assoc]

/-! ### the scanner -/

/-- the source of the call -/
def inputSrc (name file : Str) : Str := '\\' :: (name ++ '{' :: (file ++ ['}']))

/-- the scanner steps of `\name{file}` -/
def inputSteps (pos : Nat) (name file : Str) : List ScanStep :=
  { tok := cwTok pos name, len := name.length + 1 } ::
    ({ tok := lbr (pos + (name.length + 1)), len := 1 } ::
      (wordSteps (pos + (name.length + 1) + 1) file
        ++ [{ tok := rbr (pos + (name.length + 1) + 1 + file.length), len := 1 }]))

/-- `\name{file}`, followed by `R` -/
def inputCallOk (T : PTables) (st : PState) (name file R : Str) : Bool :=
  !name.isEmpty && name.all macroChar &&
  (matchSpecial T.toTables ('\\' :: (name ++ '{' :: (file ++ '}' :: R)))).isNone &&
  ('\\' :: name) != sBegin && ('\\' :: name) != sEnd && ('\\' :: name) != sItem &&
  ('\\' :: name) != sVerb && !T.toTables.isAccent ('\\' :: name) && ('\\' :: name) != sDef &&
  braceAt T '{' (file ++ '}' :: R) && wordOk T st file ('}' :: R) && !file.isEmpty && braceAt T '}' R

structure InputCallFacts (T : PTables) (st : PState) (name file R : Str) : Prop where
  cw : CwFacts T ({ macros := [] } : PState) name ('{' :: (file ++ '}' :: R))
  b1 : braceAt T '{' (file ++ '}' :: R) = true
  word : wordOk T st file ('}' :: R) = true
  ne : file ≠ []
  b2 : braceAt T '}' R = true

theorem inputCallFacts {T : PTables} {st : PState} {name file R : Str}
    (h : inputCallOk T st name file R = true) : InputCallFacts T st name file R := by
  simp only [inputCallOk, Bool.and_eq_true, bne_iff_ne, ne_eq, Bool.not_eq_true',
    Option.isNone_iff_eq_none, List.all_eq_true, List.isEmpty_eq_false_iff] at h
  obtain ⟨⟨⟨⟨⟨⟨⟨⟨⟨⟨⟨⟨h1, h2⟩, h3⟩, h4⟩, h5⟩, h6⟩, h7⟩, h8⟩, h9⟩, h10⟩, h11⟩, h12⟩, h13⟩ := h
  refine ⟨⟨h1, ?_, h3, h4, h5, h6, h7, h8, h9, rfl⟩, h10, h11, h12, h13⟩
  exact takeWhile_append_stop _ _ _ (by rw [List.all_eq_true]; exact h2) rfl

theorem scanRun_input (T : PTables) (st : PState) (src : Str) (pos : Nat) (name file R : Str)
    (F : InputCallFacts T st name file R) :
    ScanRun T.toTables src (inputSteps pos name file) pos (inputSrc name file) R := by
  have r1 : ScanRun T.toTables src [{ tok := cwTok pos name, len := name.length + 1 }] pos
      ('\\' :: name) (('{' :: (file ++ ['}'])) ++ R) := by
    have := nextToken_cw T _ src pos name _ F.cw
    rw [show '{' :: (file ++ '}' :: R) = ('{' :: (file ++ ['}'])) ++ R by simp] at this
    exact ScanRun.one _ _ _ '\\' name _ _ this rfl
  have r2 : ScanRun T.toTables src [{ tok := lbr (pos + ('\\' :: name).length), len := 1 }]
      (pos + ('\\' :: name).length) ['{'] ((file ++ ['}']) ++ R) := by
    have hb := F.b1
    rw [show file ++ '}' :: R = (file ++ ['}']) ++ R by simp] at hb
    exact ScanRun.one _ _ _ '{' [] _ _ (nextToken_brace T src _ '{' _ (Or.inl rfl) hb) rfl
  have r3 : ScanRun T.toTables src (wordSteps (pos + ('\\' :: name).length + 1) file)
      (pos + ('\\' :: name).length + 1) file (['}'] ++ R) :=
    scanRun_word T st src _ file _ F.word
  have r4 : ScanRun T.toTables src [{ tok := rbr (pos + ('\\' :: name).length + 1 + file.length), len := 1 }]
      (pos + ('\\' :: name).length + 1 + file.length) ['}'] R :=
    ScanRun.one _ _ _ '}' [] _ _ (nextToken_brace T src _ '}' _ (Or.inr rfl) F.b2) rfl
  have r34 := ScanRun.append r3 r4
  have r234 := ScanRun.append r2 r34
  have r := ScanRun.append r1 r234
  exact r

theorem inputSteps_toks (pos : Nat) (name file : Str) :
    stepToks (inputSteps pos name file)
      = cwTok pos name :: lbr (pos + (name.length + 1)) ::
          (letToks (pos + (name.length + 1) + 1) file
            ++ [rbr (pos + (name.length + 1) + 1 + file.length)]) ∧
    stepDiags (inputSteps pos name file) = [] := by
  obtain ⟨w1, w2⟩ := stepToks_wordSteps (pos + (name.length + 1) + 1) file
  have e : inputSteps pos name file = [{ tok := cwTok pos name, len := name.length + 1 }] ++
      ([{ tok := lbr (pos + (name.length + 1)), len := 1 }] ++
        (wordSteps (pos + (name.length + 1) + 1) file
          ++ [{ tok := rbr (pos + (name.length + 1) + 1 + file.length), len := 1 }])) := rfl
  constructor
  · rw [e, stepToks_append, stepToks_append, stepToks_append, w1]
    rfl
  · rw [e, stepDiags_append, stepDiags_append, stepDiags_append, w2]
    rfl

/-! ### end to end -/

/-- all side conditions on `pre ++ \name{file} ++ post` -/
def inputFaultOk (T : PTables) (st : PState) (pre name file post : Str) : Bool :=
  PlainFootnote.textOk T st pre (inputSrc name file ++ post) &&
  PlainFootnote.textOk T st post [] &&
  inputCallOk T st name file post &&
  (match lookupMacro st ('\\' :: name) with
   | some m => inputDeclOk m
   | none => false) &&
  st.readMacros && (st.fs.find? (·.1 == file)).isNone &&
  noEmptyActive T st && !(activeChars T st).contains [' '] && markFine T.toTables (errRead file)

/-- **C08 at `\LTinput{file}` with an unreadable file, end to end.**
    `src = pre ++ \name{file} ++ post` (`inputFaultOk`; `\name` declared with the handler
    `h_load_defs`, i.e. `\LTinput`).  Then `tex2txt` succeeds and

    * the text is `pre`, the COMPLETE mark `errMark`, `post`;
    * `pre` and `post` keep their own positions; the mark is mapped to the backslash of the call
      (1-based `P + 1`; `markPos1`);
    * exactly one diagnostic is added: `could not read file '<file>'` at the line and column of the
      backslash; nothing is reported as unknown. -/
theorem tex2txt_input_unreadable (T : PTables) (o : Options) (fs : FS) (thresh : Nat)
    (pre name file post : Str) (fuel : Nat) (st1 : PState)
    (hdefs : o.defs = []) (hextr : o.extr = []) (hrepl : o.hasRepl = false) (hunkn : o.unkn = false)
    (hinit : initParser T fuel o (initialState T o false fs) = .ok ((), st1))
    (hok : inputFaultOk T st1 pre name file post = true)
    (hf : (pre ++ (inputSrc name file ++ post)).length + file.length + 8 ≤ fuel) :
    let src := pre ++ (inputSrc name file ++ post)
    let P := pre.length
    let d := latexErrorDiag (errRead file) P src
    ∃ r, tex2txt T fuel src o false thresh fs = .ok r ∧
      r.txt = pre ++ (errMark T.toTables (errRead file) ++ post) ∧
      r.pos = List.range' 1 pre.length ++ (markPos1 T.toTables (errRead file) src.length P
        ++ List.range' (P + (inputSrc name file).length + 1) post.length) ∧
      r.unknowns = [] ∧ r.diags = st1.diags ++ [d] ∧
      d.msg = errRead file ∧ d.line = countNl pre + 1 ∧ d.col = (afterLastNl pre).length + 1 := by
  intro src P d
  simp only [inputFaultOk, Bool.and_eq_true, Bool.not_eq_true', Option.isNone_iff_eq_none] at hok
  obtain ⟨⟨⟨⟨⟨⟨⟨⟨hpre, hpost⟩, hcall⟩, hdecl⟩, hrm⟩, hfs⟩, hnea⟩, hblank⟩, hmark⟩ := hok
  have F := inputCallFacts hcall
  have hPn : P < src.length := by
    simp only [src, P, List.length_append, inputSrc, List.length_cons]; omega
  obtain ⟨htk, hdg⟩ := inputSteps_toks P name file
  let stW := workState st1 src []
  obtain ⟨m, hm, hmd⟩ : ∃ m, lookupMacro stW ('\\' :: name) = some m ∧ inputDeclOk m = true := by
    have e : lookupMacro stW ('\\' :: name) = lookupMacro st1 ('\\' :: name) := rfl
    rw [e]
    split at hdecl
    · exact ⟨_, ‹_›, hdecl⟩
    · cases hdecl
  let stX : PState := inputSt stW file P
  have hargW : ∀ t ∈ letToks (P + (name.length + 1) + 1) file, CopyTok T stW t := fun t ht =>
    CopyTok.congr (st := st1) (st' := stW) rfl (letToks_copy T st1 _ file _ F.word t ht)
  have hlen : (letToks (P + (name.length + 1) + 1) file).length = file.length := letToks_length _ _
  obtain ⟨r, h, h1, h2, h3, h4⟩ := fault_frame T o fs thresh pre (inputSrc name file) post fuel st1 stX
    (inputSteps P name file) (inputOut T.toTables src.length P file) (file.length + 6)
    hdefs hextr hrepl hunkn hinit hpre (by simp [inputSrc, show isSpace '\\' = false by decide])
    (scanRun_input T st1 src P name file post F)
    (by simp [inputSteps, inputSrc, wordSteps, letToks_length])
    hpost
    (by
      rw [htk]
      intro t ht
      simp only [List.mem_cons, List.mem_append, List.not_mem_nil, or_false] at ht
      rcases ht with rfl | rfl | ht | rfl
      · simp [cwTok]
      · simp [lbr]
      · exact (letToks_copy T st1 _ file _ F.word t ht).plain.notComment
      · simp [rbr])
    rfl
    (by
      intro B _ g out
      rw [htk, hdg]
      have := seq_input_missing T g P (P + (name.length + 1)) (P + (name.length + 1) + 1 + file.length)
        name (letToks (P + (name.length + 1) + 1) file) file B none out stW m F.cw.nDef hm (inputDecl hmd)
        hargW (by
          intro e
          have := congrArg List.length e
          rw [hlen] at this
          exact F.ne (List.length_eq_zero_iff.mp this))
        (by rw [letToks_txtpos]) hrm hfs
        ((noEmptyActive_congr T st1 stW rfl).trans hnea)
        (by rw [activeChars_congr T st1 stW rfl]; exact hblank) hPn
      rw [hlen] at this
      simp only [List.cons_append, List.append_assoc, List.nil_append]
      exact this)
    (by
      intro A B a b hA hB hAc hBc
      refine removeLines_vis A _ B a b hA hB (fun t ht => (hAc t ht).ne) (fun t ht => (hBc t ht).ne) ?_
      unfold inputOut
      exact Vis.action _ (Vis.mark T.toTables _ P src.length hmark))
    (by omega)
  have htp : getTxtPos (inputOut T.toTables src.length P file)
      = (errMark T.toTables (errRead file), markPos T.toTables (errRead file) src.length P) := by
    unfold inputOut
    rw [show ∀ (x : Tok) (l : List Tok), x :: l = [x] ++ l from fun _ _ => rfl,
      getTxtPos_void_run [mkAction P] (by simp [mkAction]), PlainMathOpen.latexErrorToks_txtpos]
  obtain ⟨hl, hc⟩ := lineCol_after pre (inputSrc name file ++ post)
  refine ⟨r, h, ?_, ?_, h3, ?_, rfl, hl, hc⟩
  · rw [h1, htp]
    simp [flowsToks, stX, inputSt, stW, workState, rootState, getTxtPos]
  · rw [h2, htp]
    simp only [markPos_map T.toTables (errRead file) src.length P hPn]
    simp [flowsToks, stX, inputSt, stW, workState, rootState, getTxtPos, P]
  · rw [h4]
    simp [stX, inputSt, stW, workState, rootState, d]

end PlainFault
end Yalafi
