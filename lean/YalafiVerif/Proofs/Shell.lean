/-
  Proofs/Shell.lean — lemmas about the pure part of the shell (Model/Shell.lean).
-/
import YalafiVerif.Model.Shell
namespace Yalafi

/-! ### map_match_position (C14, C15) -/

/-- a position map is *contiguous* on `[o, o+l)`: a copied word -/
def Contiguous (cm : List Int) (o l : Nat) : Prop :=
  o + l ≤ cm.length ∧ ∀ i, i < l → cm[o + i]? = (cm[o]?).map (· + (i : Int))
theorem pyGet_nonneg (xs : List Int) (i : Int) (h : 0 ≤ i) : pyGet xs i = xs[i.toNat]? := by
  simp [pyGet, h]

theorem iabs_pos (c : Int) (h : 0 ≤ c) : iabs c = c := by
  unfold iabs; split <;> omega

/-- C14: for a copied word the mapped match is the word itself: offset `cm[o] − 1`, length `l`
    (up to the documented macro-name correction, which applies to a lone backslash only) -/
theorem mapMatch_word (cm : List Int) (latex : Str) (o l : Nat) (c : Int)
    (hl : 1 ≤ l) (hc : Contiguous cm o l) (h0 : cm[o]? = some c) (hpos : 1 ≤ c) :
    mapMatch cm latex (o : Int) (some (.int l)) = .ok (c - 1, correctMarkMacroname (c - 1) l latex) := by
  obtain ⟨hlen, hcont⟩ := hc
  have h1 := hcont (l - 1) (by omega)
  rw [h0] at h1
  simp only [Option.map_some] at h1
  have hb : min (max 0 (o : Int)) ((cm.length : Int) - 1) = (o : Int) := by omega
  have he : min (max 0 ((o : Int) + (l : Int) - 1)) ((cm.length : Int) - 1) = ((o + (l - 1) : Nat) : Int) := by omega
  simp only [mapMatch, Json.asInt, hb, he]
  rw [pyGet_nonneg _ _ (by omega), pyGet_nonneg _ _ (by omega)]
  simp only [Int.toNat_natCast, h0, h1]
  rw [iabs_pos c (by omega), iabs_pos _ (by omega)]
  have : c + ((l - 1 : Nat) : Int) - c + 1 = (l : Int) := by omega
  rw [this]

/-- C15: with an integer length and a non-empty map the function never raises -/
theorem mapMatch_total (cm : List Int) (latex : Str) (offset len : Int) (h : cm ≠ []) :
    ∃ r, mapMatch cm latex offset (some (.int len)) = .ok r := by
  have hn : 0 < cm.length := List.length_pos_iff.mpr h
  simp only [mapMatch, Json.asInt]
  rw [pyGet_nonneg _ _ (by omega), pyGet_nonneg _ _ (by omega)]
  have h1 : (min (max 0 offset) ((cm.length : Int) - 1)).toNat < cm.length := by omega
  have h2 : (min (max 0 (min (max 0 offset) ((cm.length : Int) - 1) + len - 1)) ((cm.length : Int) - 1)).toNat < cm.length := by omega
  rw [List.getElem?_eq_getElem h1, List.getElem?_eq_getElem h2]
  exact ⟨_, rfl⟩

theorem length_takeWhile_le' {α} (p : α → Bool) (l : List α) : (l.takeWhile p).length ≤ l.length := by
  induction l with
  | nil => simp
  | cons a l ih => simp only [List.takeWhile_cons]; split <;> simp <;> omega

theorem macroNameLen_le (s : Str) (n : Nat) (h : macroNameLen s = some n) : n ≤ s.length := by
  unfold macroNameLen at h
  split at h
  · simp only at h
    split at h
    · simp at h
    · simp only [Option.some.injEq] at h
      have := length_takeWhile_le' (fun c => ('a' ≤ c && c ≤ 'z') || ('A' ≤ c && c ≤ 'Z')) (by assumption)
      simp only [List.length_cons]; omega
  · simp at h

/-- the macro-name correction never leaves the text: the result is `length`, or the length of a
    macro name that stands at `offset` -/
theorem correctMarkMacroname_le (offset length : Int) (latex : Str) (h0 : 0 ≤ offset)
    (hl : offset + length ≤ latex.length) :
    offset + correctMarkMacroname offset length latex ≤ latex.length := by
  unfold correctMarkMacroname
  split
  · rename_i hc
    split
    · rename_i n hn
      have := macroNameLen_le _ _ hn
      simp only [List.length_drop] at this
      simp only [Bool.and_eq_true, decide_eq_true_eq] at hc
      omega
    · exact hl
  · exact hl

/-- C15: if every map entry lies in `1 … |latex|` (C01), the reported offset lies inside the file
    and `offset + length` does not pass its end — for every offset and every integer length the
    proofreader may send -/
theorem mapMatch_in_file (cm : List Int) (latex : Str) (offset len : Int) (r : Int × Int)
    (hcm : ∀ p ∈ cm, 1 ≤ iabs p ∧ iabs p ≤ latex.length)
    (h : mapMatch cm latex offset (some (.int len)) = .ok r) :
    0 ≤ r.1 ∧ r.1 < latex.length ∧ r.1 + r.2 ≤ latex.length := by
  simp only [mapMatch, Json.asInt] at h
  split at h
  · rename_i cb ce hb he
    simp only [SOut.ok.injEq] at h
    subst h
    have hcb : cb ∈ cm := by
      unfold pyGet at hb
      split at hb
      · exact List.mem_of_getElem? hb
      · split at hb
        · exact List.mem_of_getElem? hb
        · simp at hb
    have hce : ce ∈ cm := by
      unfold pyGet at he
      split at he
      · exact List.mem_of_getElem? he
      · split at he
        · exact List.mem_of_getElem? he
        · simp at he
    have h1 := hcm cb hcb
    have h2 := hcm ce hce
    refine ⟨by simp only; omega, by simp only; omega, ?_⟩
    simp only
    apply correctMarkMacroname_le
    · omega
    · omega
  · simp at h

/-! ### typed JSON access (C15), assembly and sorting (C14) -/

theorem jsonGet_typed (dic : Json) (item : Str) (typ : JType) (v : Json) (h : jsonGet dic item typ = .ok v) :
    v.hasType typ = true ∧ dic.get item = some v := by
  unfold jsonGet at h
  split at h
  · split at h
    · split at h
      · simp only [SOut.ok.injEq] at h; subst h; exact ⟨by assumption, by assumption⟩
      · simp at h
    · simp at h
  · simp at h

theorem jsonGet_no_crash (dic : Json) (item : Str) (typ : JType) : ∀ s, jsonGet dic item typ ≠ .crash s := by
  intro s h
  unfold jsonGet at h
  split at h
  · split at h
    · split at h <;> simp at h
    · simp at h
  · simp at h

theorem insertByKey_perm (key : RawMatch → Int) (m : RawMatch) (l : List RawMatch) :
    (insertByKey key m l).Perm (m :: l) := by
  induction l with
  | nil => simp [insertByKey]
  | cons x xs ih =>
    simp only [insertByKey]
    split
    · exact List.Perm.refl _
    · exact (List.Perm.cons x ih).trans (List.Perm.swap m x xs)

theorem insertByKey_sorted (key : RawMatch → Int) (m : RawMatch) (l : List RawMatch)
    (h : l.Pairwise (fun a b => key a ≤ key b)) :
    (insertByKey key m l).Pairwise (fun a b => key a ≤ key b) := by
  induction l with
  | nil => simp [insertByKey]
  | cons x xs ih =>
    simp only [insertByKey]
    rw [List.pairwise_cons] at h
    split
    · rename_i hlt
      rw [List.pairwise_cons]
      refine ⟨?_, List.pairwise_cons.mpr h⟩
      intro a ha
      rcases List.mem_cons.mp ha with rfl | ha
      · omega
      · have := h.1 a ha; omega
    · rename_i hge
      rw [List.pairwise_cons]
      refine ⟨?_, ih h.2⟩
      intro a ha
      have := (insertByKey_perm key m xs).mem_iff.mp ha
      rcases List.mem_cons.mp this with rfl | ha
      · omega
      · exact h.1 a ha

theorem foldl_insertByKey (key : RawMatch → Int) (ms acc : List RawMatch)
    (h : acc.Pairwise (fun a b => key a ≤ key b)) :
    (ms.foldl (fun acc m => insertByKey key m acc) acc).Perm (ms ++ acc) ∧
    (ms.foldl (fun acc m => insertByKey key m acc) acc).Pairwise (fun a b => key a ≤ key b) := by
  induction ms generalizing acc with
  | nil => exact ⟨List.Perm.refl _, h⟩
  | cons m ms ih =>
    simp only [List.foldl_cons]
    obtain ⟨h1, h2⟩ := ih (insertByKey key m acc) (insertByKey_sorted key m acc h)
    refine ⟨h1.trans ?_, h2⟩
    refine ((insertByKey_perm key m acc).append_left ms).trans ?_
    exact List.perm_middle

/-- C14: the messages come out ordered by position in the LaTeX file, none lost or invented -/
theorem sortMatches_sorted (cmt : List Int) (ms out : List RawMatch) (h : sortMatches cmt ms = .ok out) :
    out.Perm ms ∧
    out.Pairwise (fun a b => iabs ((cmt[a.offset.toNat]?).getD 0) ≤ iabs ((cmt[b.offset.toNat]?).getD 0)) ∧
    ∀ m ∈ out, 0 ≤ m.offset ∧ m.offset < cmt.length := by
  unfold sortMatches at h
  split at h
  · simp at h
  · rename_i hany
    simp only [SOut.ok.injEq] at h
    subst h
    obtain ⟨h1, h2⟩ := foldl_insertByKey (fun m => iabs ((cmt[m.offset.toNat]?).getD 0)) ms [] List.Pairwise.nil
    simp only [List.append_nil] at h1
    refine ⟨h1, h2, ?_⟩
    intro m hm
    have hm' := h1.mem_iff.mp hm
    simp only [List.any_eq_true, Bool.or_eq_true, decide_eq_true_eq, not_exists, not_and, not_or] at hany
    have := hany m hm'
    omega

theorem assembleStep_lengths (a : Assembled) (p : Part × List RawMatch)
    (h : p.1.plain.length = p.1.charmap.length) (ha : a.plainTot.length = a.charmapTot.length) :
    (assembleStepNB a p).plainTot.length = (assembleStepNB a p).charmapTot.length := by
  simp [assembleStepNB, h, ha]

theorem foldl_assemble_lengths (ps : List (Part × List RawMatch)) (a : Assembled)
    (h : ∀ p ∈ ps, p.1.plain.length = p.1.charmap.length) (ha : a.plainTot.length = a.charmapTot.length) :
    (ps.foldl assembleStepNB a).plainTot.length = (ps.foldl assembleStepNB a).charmapTot.length := by
  induction ps generalizing a with
  | nil => exact ha
  | cons p ps ih =>
    simp only [List.foldl_cons]
    apply ih
    · intro q hq; exact h q (List.mem_cons_of_mem _ hq)
    · exact assembleStep_lengths a p (h p List.mem_cons_self) ha

/-- C14: text and map stay in lock step through the assembly -/
theorem assemble_lengths (ps : List (Part × List RawMatch)) (h : ∀ p ∈ ps, p.1.plain.length = p.1.charmap.length) :
    (assembleNB ps).plainTot.length = (assembleNB ps).charmapTot.length := by
  exact foldl_assemble_lengths ps _ h rfl

/-- C14: the offsets of the matches of the first part are unchanged, those of a later part are
    shifted by the length of everything before it (text plus the two-character delimiter) -/
theorem assemble_append (ps : List (Part × List RawMatch)) (p : Part × List RawMatch) :
    assembleNB (ps ++ [p]) =
      { plainTot := (assembleNB ps).plainTot ++ p.1.plain ++ ['\n', '\n'],
        charmapTot := ((assembleNB ps).charmapTot ++ p.1.charmap) ++
          [(((assembleNB ps).charmapTot ++ p.1.charmap).getLast?).getD 0, (((assembleNB ps).charmapTot ++ p.1.charmap).getLast?).getD 0],
        hits := (assembleNB ps).hits ++ p.2.map (fun m => { m with offset := m.offset + ((assembleNB ps).plainTot.length : Int) }) } := by
  simp [assembleNB, List.foldl_append, assembleStepNB]

/-! ### blank parts are not submitted (`if not plain.strip(): continue`) -/

theorem foldl_assembleStep_filter (ps : List (Part × List RawMatch)) (a : Assembled) :
    ps.foldl assembleStep a = (ps.filter (fun p => !isBlank p.1.plain)).foldl assembleStepNB a := by
  induction ps generalizing a with
  | nil => rfl
  | cons p ps ih =>
    by_cases hb : isBlank p.1.plain = true
    · simp [List.foldl_cons, assembleStep, hb, ih]
    · have hb' : isBlank p.1.plain = false := by simpa using hb
      simp [List.foldl_cons, assembleStep, hb', ih]

/-- C14: the loop over the parts is the assembly of the non-blank parts, in order -/
theorem assemble_eq_filter (ps : List (Part × List RawMatch)) :
    assemble ps = assembleNB (ps.filter (fun p => !isBlank p.1.plain)) := by
  simp [assemble, assembleNB, foldl_assembleStep_filter]

theorem assemble_nonblank (ps : List (Part × List RawMatch)) (h : ∀ p ∈ ps, isBlank p.1.plain = false) :
    assemble ps = assembleNB ps := by
  rw [assemble_eq_filter]
  congr 1
  apply List.filter_eq_self.mpr
  intro p hp; simp [h p hp]

/-! ### HTML escaping (C16) -/

def phStep (c : Char) : Str :=
    if c == '&' then "&amp;".toList
    else if c == '"' then "&quot;".toList
    else if c == '<' then "&lt;".toList
    else if c == '>' then "&gt;".toList
    else if c == '\t' then (List.replicate 8 "&ensp;".toList).flatten
    else if c == ' ' then "&ensp;".toList
    else if c == '\n' then "<br>\n".toList
    else [c]

theorem protectHtml_eq (s : Str) : protectHtml s = s.flatMap phStep := rfl

theorem phStep_no_quote (c : Char) : '"' ∉ phStep c := by
  unfold phStep
  split; · decide
  split; · decide
  split; · decide
  split; · decide
  split; · decide
  split; · decide
  split; · decide
  rename_i h1 h2 h3 h4 h5 h6 h7; simp only [beq_iff_eq] at h2
  simp only [List.mem_singleton]
  intro h'; exact h2 (h'.symm)

/-- no double quote survives; `<` and `>` occur only as part of the `<br>` that stands for a line break -/
theorem protectHtml_no_quote (s : Str) : '"' ∉ protectHtml s := by
  rw [protectHtml_eq]
  simp only [List.mem_flatMap, not_exists, not_and]
  intro c _
  exact phStep_no_quote c

theorem phStep_count_lt (c : Char) : (phStep c).count '<' = if c = '\n' then 1 else 0 := by
  unfold phStep
  split; · rename_i h; simp only [beq_iff_eq] at h; subst h; decide
  split; · rename_i h; simp only [beq_iff_eq] at h; subst h; decide
  split; · rename_i h; simp only [beq_iff_eq] at h; subst h; decide
  split; · rename_i h; simp only [beq_iff_eq] at h; subst h; decide
  split; · rename_i h; simp only [beq_iff_eq] at h; subst h; decide
  split; · rename_i h; simp only [beq_iff_eq] at h; subst h; decide
  split; · rename_i h; simp only [beq_iff_eq] at h; subst h; decide
  rename_i h1 h2 h3 h4 h5 h6 h7
  simp only [beq_iff_eq] at h3 h7
  simp [h7, h3]

theorem phStep_count_gt (c : Char) : (phStep c).count '>' = if c = '\n' then 1 else 0 := by
  unfold phStep
  split; · rename_i h; simp only [beq_iff_eq] at h; subst h; decide
  split; · rename_i h; simp only [beq_iff_eq] at h; subst h; decide
  split; · rename_i h; simp only [beq_iff_eq] at h; subst h; decide
  split; · rename_i h; simp only [beq_iff_eq] at h; subst h; decide
  split; · rename_i h; simp only [beq_iff_eq] at h; subst h; decide
  split; · rename_i h; simp only [beq_iff_eq] at h; subst h; decide
  split; · rename_i h; simp only [beq_iff_eq] at h; subst h; decide
  rename_i h1 h2 h3 h4 h5 h6 h7
  simp only [beq_iff_eq] at h4 h7
  simp [h7, h4]

theorem count_flatMap_ind (f : Char → Str) (a : Char) (s : Str)
    (h : ∀ c, (f c).count a = if c = '\n' then 1 else 0) :
    (s.flatMap f).count a = s.count '\n' := by
  induction s with
  | nil => simp
  | cons c cs ih =>
    simp only [List.flatMap_cons, List.count_append, ih, h, List.count_cons, beq_iff_eq]
    omega

theorem protectHtml_lt_count (s : Str) :
    (protectHtml s).count '<' = s.count '\n' ∧ (protectHtml s).count '>' = s.count '\n' := by
  rw [protectHtml_eq]
  exact ⟨count_flatMap_ind _ _ _ phStep_count_lt, count_flatMap_ind _ _ _ phStep_count_gt⟩

theorem protectHtml_append (a b : Str) : protectHtml (a ++ b) = protectHtml a ++ protectHtml b := by
  rw [protectHtml_eq, protectHtml_eq, protectHtml_eq, List.flatMap_append]

/-! ### the --include work list (C18) -/

/-- the list of new files found in one file -/
def inclNew (skip : Str → Bool) (base : List Str) (gs : List Str) (acc : List Str) : List Str :=
  gs.foldl (fun acc g => if (base ++ acc).contains g || skip g then acc else acc ++ [g]) acc

theorem includeLoop_succ (includes : Str → List Str) (skip : Str → Bool) (fuel : Nat) (f : Str) (todo done : List Str) :
    includeLoop includes skip (fuel + 1) (f :: todo) done =
      if done.contains f || skip f then includeLoop includes skip fuel todo done
      else includeLoop includes skip fuel (todo ++ inclNew skip ((done ++ [f]) ++ todo) (includes f) []) (done ++ [f]) := by
  simp only [includeLoop, inclNew]

theorem inclNew_spec (skip : Str → Bool) (base gs acc : List Str) :
    (∀ g, g ∈ inclNew skip base gs acc → g ∈ acc ∨ (g ∈ gs ∧ skip g = false)) ∧
    (∀ g, g ∈ acc → g ∈ inclNew skip base gs acc) ∧
    (∀ g, g ∈ gs → skip g = false → g ∈ base ∨ g ∈ inclNew skip base gs acc) := by
  induction gs generalizing acc with
  | nil => simp [inclNew]
  | cons x xs ih =>
    have e : inclNew skip base (x :: xs) acc =
        inclNew skip base xs (if (base ++ acc).contains x || skip x then acc else acc ++ [x]) := by
      simp only [inclNew, List.foldl_cons]
    rw [e]
    obtain ⟨h1, h2, h3⟩ := ih (if (base ++ acc).contains x || skip x then acc else acc ++ [x])
    refine ⟨?_, ?_, ?_⟩
    · intro g hg
      rcases h1 g hg with h | h
      · split at h
        · exact Or.inl h
        · rename_i hc
          simp only [Bool.or_eq_true, not_or, Bool.not_eq_true] at hc
          rcases List.mem_append.mp h with h | h
          · exact Or.inl h
          · simp only [List.mem_singleton] at h; subst h
            exact Or.inr ⟨List.mem_cons_self, hc.2⟩
      · exact Or.inr ⟨List.mem_cons_of_mem _ h.1, h.2⟩
    · intro g hg
      apply h2
      split
      · exact hg
      · exact List.mem_append_left _ hg
    · intro g hg hs
      rcases List.mem_cons.mp hg with rfl | hg
      · by_cases hc : ((base ++ acc).contains g || skip g) = true
        · simp only [Bool.or_eq_true, hs, Bool.false_eq_true, or_false, List.contains_eq_mem,
            List.mem_append, decide_eq_true_eq] at hc
          rcases hc with hc | hc
          · exact Or.inl hc
          · exact Or.inr (h2 g (by split <;> simp [hc]))
        · refine Or.inr (h2 g ?_)
          rw [if_neg hc]; simp
      · exact h3 g hg hs

theorem includeLoop_prefix (includes : Str → List Str) (skip : Str → Bool) (fuel : Nat) (todo done out : List Str)
    (h : includeLoop includes skip fuel todo done = some out) : done <+: out := by
  induction fuel generalizing todo done with
  | zero =>
    cases todo with
    | nil => simp only [includeLoop, Option.some.injEq] at h; subst h; exact List.prefix_refl _
    | cons f todo => simp [includeLoop] at h
  | succ fuel ih =>
    cases todo with
    | nil => simp only [includeLoop, Option.some.injEq] at h; subst h; exact List.prefix_refl _
    | cons f todo =>
      rw [includeLoop_succ] at h
      split at h
      · exact ih _ _ h
      · exact (List.prefix_append done [f]).trans (ih _ _ h)

/-- the files that get checked: no duplicates, none skipped -/
theorem includeLoop_nodup (includes : Str → List Str) (skip : Str → Bool) (fuel : Nat) (todo done out : List Str)
    (hd : done.Nodup) (hs : ∀ f ∈ done, skip f = false)
    (h : includeLoop includes skip fuel todo done = some out) :
    out.Nodup ∧ (∀ f ∈ out, skip f = false) ∧ done <+: out := by
  refine ⟨?_, ?_, includeLoop_prefix _ _ _ _ _ _ h⟩
  · induction fuel generalizing todo done with
    | zero =>
      cases todo with
      | nil => simp only [includeLoop, Option.some.injEq] at h; subst h; exact hd
      | cons f todo => simp [includeLoop] at h
    | succ fuel ih =>
      cases todo with
      | nil => simp only [includeLoop, Option.some.injEq] at h; subst h; exact hd
      | cons f todo =>
        rw [includeLoop_succ] at h
        split at h
        · exact ih _ _ hd hs h
        · rename_i hc
          simp only [Bool.or_eq_true, List.contains_eq_mem, decide_eq_true_eq, not_or, Bool.not_eq_true] at hc
          refine ih _ _ ?_ ?_ h
          · rw [List.nodup_append]
            refine ⟨hd, (by simp), ?_⟩
            intro a ha b hb
            simp only [List.mem_singleton] at hb; subst hb
            intro e; subst e; exact hc.1 ha
          · intro g hg
            rcases List.mem_append.mp hg with hg | hg
            · exact hs g hg
            · simp only [List.mem_singleton] at hg; subst hg; exact hc.2
  · induction fuel generalizing todo done with
    | zero =>
      cases todo with
      | nil => simp only [includeLoop, Option.some.injEq] at h; subst h; exact hs
      | cons f todo => simp [includeLoop] at h
    | succ fuel ih =>
      cases todo with
      | nil => simp only [includeLoop, Option.some.injEq] at h; subst h; exact hs
      | cons f todo =>
        rw [includeLoop_succ] at h
        split at h
        · exact ih _ _ hd hs h
        · rename_i hc
          simp only [Bool.or_eq_true, List.contains_eq_mem, decide_eq_true_eq, not_or, Bool.not_eq_true] at hc
          refine ih _ _ ?_ ?_ h
          · rw [List.nodup_append]
            refine ⟨hd, (by simp), ?_⟩
            intro a ha b hb
            simp only [List.mem_singleton] at hb; subst hb
            intro e; subst e; exact hc.1 ha
          · intro g hg
            rcases List.mem_append.mp hg with hg | hg
            · exact hs g hg
            · simp only [List.mem_singleton] at hg; subst hg; exact hc.2

/-- every given file that is not skipped is checked, and the result is closed under inclusion
    (through non-skipped files) -/
theorem includeLoop_closed (includes : Str → List Str) (skip : Str → Bool) (fuel : Nat) (todo done out : List Str)
    (hinv : ∀ f ∈ done, ∀ g ∈ includes f, skip g = false → g ∈ done ∨ g ∈ todo)
    (h : includeLoop includes skip fuel todo done = some out) :
    (∀ f ∈ todo, skip f = false → f ∈ out) ∧
    (∀ f ∈ out, ∀ g ∈ includes f, skip g = false → g ∈ out) := by
  induction fuel generalizing todo done with
  | zero =>
    cases todo with
    | nil =>
      simp only [includeLoop, Option.some.injEq] at h; subst h
      refine ⟨by simp, ?_⟩
      intro f hf g hg hs
      rcases hinv f hf g hg hs with h | h
      · exact h
      · simp at h
    | cons f todo => simp [includeLoop] at h
  | succ fuel ih =>
    cases todo with
    | nil =>
      simp only [includeLoop, Option.some.injEq] at h; subst h
      refine ⟨by simp, ?_⟩
      intro f hf g hg hs
      rcases hinv f hf g hg hs with h | h
      · exact h
      · simp at h
    | cons f todo =>
      have hpre := includeLoop_prefix _ _ _ _ _ _ h
      rw [includeLoop_succ] at h
      split at h
      · rename_i hc
        simp only [Bool.or_eq_true, List.contains_eq_mem, decide_eq_true_eq] at hc
        have hinv' : ∀ f' ∈ done, ∀ g ∈ includes f', skip g = false → g ∈ done ∨ g ∈ todo := by
          intro f' hf' g hg hs
          rcases hinv f' hf' g hg hs with h1 | h1
          · exact Or.inl h1
          · rcases List.mem_cons.mp h1 with rfl | h1
            · rcases hc with hc | hc
              · exact Or.inl hc
              · rw [hs] at hc; simp at hc
            · exact Or.inr h1
        obtain ⟨h1, h2⟩ := ih _ _ hinv' h
        refine ⟨?_, h2⟩
        intro g hg hs
        rcases List.mem_cons.mp hg with rfl | hg
        · rcases hc with hc | hc
          · exact hpre.subset hc
          · rw [hs] at hc; simp at hc
        · exact h1 g hg hs
      · rename_i hc
        have hpre' := includeLoop_prefix _ _ _ _ _ _ h
        obtain ⟨n1, n2, n3⟩ := inclNew_spec skip ((done ++ [f]) ++ todo) (includes f) []
        have hinv' : ∀ f' ∈ done ++ [f], ∀ g ∈ includes f', skip g = false →
            g ∈ done ++ [f] ∨ g ∈ todo ++ inclNew skip ((done ++ [f]) ++ todo) (includes f) [] := by
          intro f' hf' g hg hs
          rcases List.mem_append.mp hf' with hf' | hf'
          · rcases hinv f' hf' g hg hs with h1 | h1
            · exact Or.inl (List.mem_append_left _ h1)
            · rcases List.mem_cons.mp h1 with rfl | h1
              · exact Or.inl (List.mem_append_right _ (List.mem_singleton.mpr rfl))
              · exact Or.inr (List.mem_append_left _ h1)
          · simp only [List.mem_singleton] at hf'; subst hf'
            rcases n3 g hg hs with h1 | h1
            · rcases List.mem_append.mp h1 with h1 | h1
              · exact Or.inl h1
              · exact Or.inr (List.mem_append_left _ h1)
            · exact Or.inr (List.mem_append_right _ h1)
        obtain ⟨h1, h2⟩ := ih _ _ hinv' h
        refine ⟨?_, h2⟩
        intro g hg hs
        rcases List.mem_cons.mp hg with rfl | hg
        · exact hpre'.subset (List.mem_append_right _ (List.mem_singleton.mpr rfl))
        · exact h1 g (List.mem_append_left _ hg) hs

/-- everything checked is reachable from the given files -/
theorem includeLoop_reachable (includes : Str → List Str) (skip : Str → Bool) (fuel : Nat) (todo done out : List Str)
    (R : Str → Prop) (hR : ∀ f, R f → ∀ g ∈ includes f, R g)
    (ht : ∀ f ∈ todo, R f) (hd : ∀ f ∈ done, R f)
    (h : includeLoop includes skip fuel todo done = some out) : ∀ f ∈ out, R f := by
  induction fuel generalizing todo done with
  | zero =>
    cases todo with
    | nil => simp only [includeLoop, Option.some.injEq] at h; subst h; exact hd
    | cons f todo => simp [includeLoop] at h
  | succ fuel ih =>
    cases todo with
    | nil => simp only [includeLoop, Option.some.injEq] at h; subst h; exact hd
    | cons f todo =>
      rw [includeLoop_succ] at h
      split at h
      · exact ih _ _ (fun g hg => ht g (List.mem_cons_of_mem _ hg)) hd h
      · obtain ⟨n1, n2, n3⟩ := inclNew_spec skip ((done ++ [f]) ++ todo) (includes f) []
        have hf : R f := ht f List.mem_cons_self
        refine ih _ _ ?_ ?_ h
        · intro g hg
          rcases List.mem_append.mp hg with hg | hg
          · exact ht g (List.mem_cons_of_mem _ hg)
          · rcases n1 g hg with h1 | h1
            · simp at h1
            · exact hR f hf g h1.1
        · intro g hg
          rcases List.mem_append.mp hg with hg | hg
          · exact hd g hg
          · simp only [List.mem_singleton] at hg; subst hg; exact hf

theorem addTex_suffix (f : Str) : (addTex f).drop ((addTex f).length - 4) = ".tex".toList ∧
    (addTex f = f ∨ addTex f = f ++ ".tex".toList) := by
  unfold addTex
  simp only
  split
  · rename_i h
    simp only [Bool.and_eq_true, beq_iff_eq] at h
    exact ⟨h.2, Or.inl rfl⟩
  · refine ⟨?_, Or.inr rfl⟩
    have : (".tex".toList).length = 4 := by decide
    rw [List.length_append, this, Nat.add_sub_cancel, List.drop_left]

/-! ### --single-letters and the context excerpt (C20) -/

theorem singleLetters_ge (T : Tables) (plain : Str) (prev : Option Char) (base i : Nat)
    (h : i ∈ singleLetters T prev base plain) : base ≤ i := by
  induction plain generalizing prev base with
  | nil => simp [singleLetters] at h
  | cons c cs ih =>
    simp only [singleLetters, List.mem_append] at h
    rcases h with h | h
    · split at h
      · simp only [List.mem_singleton] at h; omega
      · simp at h
    · have := ih _ _ h; omega

/-- the scan reports exactly the isolated letters: `i` is reported iff the character at `i` is
    letter-like and neither neighbour is a word character -/
theorem singleLetters_exact (T : Tables) (plain : Str) (prev : Option Char) (base i : Nat) :
    i ∈ singleLetters T prev base plain ↔
      base ≤ i ∧ i - base < plain.length ∧
      singleAt T (if i = base then prev else plain[i - base - 1]?) (plain.getD (i - base) ' ') (plain[i - base + 1]?) = true := by
  induction plain generalizing prev base with
  | nil => simp [singleLetters]
  | cons c cs ih =>
    simp only [singleLetters, List.mem_append, ih]
    by_cases hib : i = base
    · subst hib
      have : ¬ (i + 1 ≤ i) := by omega
      simp only [this, false_and, or_false, Nat.le_refl, Nat.sub_self, List.length_cons,
        Nat.zero_lt_succ, if_true, true_and, List.getD_cons_zero, Nat.zero_add, List.getElem?_cons_succ]
      rw [← List.head?_eq_getElem?]
      split <;> simp_all
    · have h1 : ¬ (i ∈ (if singleAt T prev c cs.head? = true then [base] else [])) := by
        split <;> simp [hib]
      simp only [h1, false_or, hib, if_false]
      by_cases hlt : base + 1 ≤ i
      · obtain ⟨k, rfl⟩ : ∃ k, i = base + 1 + k := ⟨i - (base + 1), by omega⟩
        have e1 : base + 1 + k - (base + 1) = k := by omega
        have e2 : base + 1 + k - base = k + 1 := by omega
        simp only [e1, e2, List.length_cons, Nat.add_lt_add_iff_right, List.getD_cons_succ,
          List.getElem?_cons_succ, Nat.add_sub_cancel]
        have : base ≤ base + 1 + k := by omega
        simp only [hlt, this, true_and]
        cases k with
        | zero => simp
        | succ k =>
          have : ¬ (base + 1 + (k + 1) = base + 1) := by omega
          simp only [this, if_false, List.getElem?_cons_succ, Nat.add_sub_cancel]
      · have : ¬ (base ≤ i) := by omega
        simp [hlt, this]

/-- each offset is reported once, in increasing order -/
theorem singleLetters_sorted (T : Tables) (plain : Str) (prev : Option Char) (base : Nat) :
    (singleLetters T prev base plain).Pairwise (· < ·) := by
  induction plain generalizing prev base with
  | nil => simp [singleLetters]
  | cons c cs ih =>
    simp only [singleLetters]
    rw [List.pairwise_append]
    refine ⟨by split <;> simp, ih _ _, ?_⟩
    intro a ha b hb
    have := singleLetters_ge T cs _ _ _ hb
    split at ha
    · simp only [List.mem_singleton] at ha; omega
    · simp at ha

/-- accepted patterns: a letter is suppressed iff it lies inside a hit of the accept scan -/
theorem singleLetterOffsets_spec (T : Tables) (plain : Str) (hits : List (Nat × Nat)) (i : Nat) :
    i ∈ singleLetterOffsets T plain hits ↔
      i ∈ singleLetters T none 0 plain ∧ ∀ h ∈ hits, ¬ (h.1 ≤ i ∧ i < h.2) := by
  simp [singleLetterOffsets, notCovered, List.mem_filter]

/-- the context excerpt marks the same characters as offset/length select in the text
    (tabs and line breaks shown as blanks), also at both ends of the text -/
theorem createContext_marks (txt : Str) (offset length : Nat) (h : offset + length ≤ txt.length) :
    let c := createContext txt offset length
    ((c.text.drop c.offset).take c.length) =
      ((txt.drop offset).take length).map (fun ch => if ch == '\t' || ch == '\n' then ' ' else ch) := by
  simp only [createContext]
  have h3 : ("...".toList).length = 3 := by decide
  rw [List.append_assoc, Nat.add_comm, ← List.drop_drop, List.drop_left' h3]
  have hle : offset - (offset - 45) ≤ (List.map (fun c => if (c == '\t' || c == '\n') = true then ' ' else c)
      (List.drop (offset - 45) (List.take (min (max (offset + 45) (offset + length)) txt.length) txt))).length := by
    simp only [List.length_map, List.length_drop, List.length_take]; omega
  rw [List.drop_append_of_le_length hle, List.take_append_of_le_length]
  · rw [← List.map_drop, ← List.map_take, List.drop_drop]
    have e : offset - 45 + (offset - (offset - 45)) = offset := by omega
    rw [e, List.drop_take, List.take_take]
    congr 2
    omega
  · simp only [List.length_drop, List.length_map, List.length_take]; omega

end Yalafi
