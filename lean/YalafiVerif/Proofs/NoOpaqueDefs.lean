/-
  Proofs/NoOpaqueDefs.lean — the THIRD invariant of C07 over the mutual block of Model/Expander.lean:
  no macro or environment definition of the parser state has handler or `end_func` `.opaqueH _`.

  * `opq`          the test "is `.opaqueH _`"
  * `DOk d`        neither `d.handler` nor `d.endFunc` is opaque
  * `StOk st`      every definition in `st.macros` and `st.envs` is `DOk` (no other field of `PState`
                   stores a definition: `glossary` stores token lists, `packages` option lists)
  * `ModOk md`     `md.isOpaque = false`, all its macros / environments `DOk`
  * `TOk T`        the decidable table condition `noOpaqueB T = true` as a Prop
  * `Good x`       for every `StOk` state: `x` ends in `ok` with an `StOk` state, or in a crash that is none of the
                   two `opaque …` markers, or in `fatal` / `outOfFuel` (nothing claimed)
  * `AllGood T fuel`  the 21 specifications (one per function of the mutual block)
  * tactic `good`  unfolds the monadic structure (`bind`, `get`, `pure`, `crash`, `if`, `match`)
-/
import YalafiVerif.Model.Tex2txt
set_option linter.unusedVariables false
namespace Yalafi
namespace NoOpaque
open M

def mMod : String := "opaque module (not modelled)"
def mHan : String := "opaque handler (not modelled)"

def opq : Handler → Bool
  | .opaqueH _ => true
  | _ => false

def dOkB (d : MacroDef) : Bool := !opq d.handler && !opq d.endFunc
def modOkB (md : ModuleDef) : Bool := !md.isOpaque && md.macros.all dOkB && md.envs.all dOkB

/-- the NEW decidable table condition: no module is marked opaque, and no macro or environment declared in the
    tables or in a module has an opaque handler / `end_func` -/
def noOpaqueB (T : PTables) : Bool :=
  (T.packageModules ++ T.classModules).all modOkB
  && (T.macroDefsPython ++ T.noSpecialsMacros ++ T.environmentDefs).all dOkB

def DOk (d : MacroDef) : Prop := opq d.handler = false ∧ opq d.endFunc = false
def AOk (ds : List MacroDef) : Prop := ∀ d ∈ ds, DOk d

structure StOk (st : PState) : Prop where
  macros : AOk st.macros
  envs : AOk st.envs

structure ModOk (md : ModuleDef) : Prop where
  notOpaque : md.isOpaque = false
  macros : AOk md.macros
  envs : AOk md.envs

theorem dOkB_DOk (d : MacroDef) (h : dOkB d = true) : DOk d := by
  simpa [dOkB, DOk] using h

theorem modOkB_ModOk (md : ModuleDef) (h : modOkB md = true) : ModOk md := by
  simp only [modOkB, Bool.and_eq_true, Bool.not_eq_true', List.all_eq_true] at h
  exact ⟨h.1.1, fun d hd => dOkB_DOk d (h.1.2 d hd), fun d hd => dOkB_DOk d (h.2 d hd)⟩

@[simp] theorem AOk_nil : AOk [] := fun _ h => by cases h
theorem AOk_append {a b : List MacroDef} (ha : AOk a) (hb : AOk b) : AOk (a ++ b) := by
  intro d hd
  rcases List.mem_append.1 hd with h | h
  · exact ha d h
  · exact hb d h

theorem AOk_setMacro {ms : List MacroDef} {m : MacroDef} (h : AOk ms) (hm : DOk m) : AOk (setMacro ms m) := by
  unfold setMacro
  split
  · intro d hd
    obtain ⟨x, hx, rfl⟩ := List.mem_map.1 hd
    split
    · exact hm
    · exact h x hx
  · exact AOk_append h (fun d hd => by simp only [List.mem_singleton] at hd; subst hd; exact hm)

theorem AOk_foldl_setMacro (ds : List MacroDef) (hd : AOk ds) : ∀ (ms : List MacroDef), AOk ms →
    AOk (ds.foldl setMacro ms) := by
  induction ds with
  | nil => intro ms h; exact h
  | cons d rest ih =>
    intro ms h
    exact ih (fun x hx => hd x (List.mem_cons_of_mem _ hx)) _
      (AOk_setMacro h (hd d (List.mem_cons_self ..)))

theorem lookupMacro_DOk {st : PState} (h : StOk st) {name : Str} {m : MacroDef}
    (hm : lookupMacro st name = some m) : DOk m :=
  h.macros m (List.mem_of_find?_eq_some hm)

theorem lookupEnv_DOk {st : PState} (h : StOk st) {name : Str} {m : MacroDef}
    (hm : lookupEnv st name = some m) : DOk m :=
  h.envs m (List.mem_of_find?_eq_some hm)

/-! ### table condition as a Prop -/

structure TOk (T : PTables) : Prop where
  mods : ∀ md ∈ T.packageModules ++ T.classModules, ModOk md
  defs : AOk (T.macroDefsPython ++ T.noSpecialsMacros ++ T.environmentDefs)

theorem noOpaqueB_TOk (T : PTables) (h : noOpaqueB T = true) : TOk T := by
  simp only [noOpaqueB, Bool.and_eq_true, List.all_eq_true] at h
  exact ⟨fun md hmd => modOkB_ModOk md (h.1 md hmd), fun d hd => dOkB_DOk d (h.2 d hd)⟩

theorem emptyModule_ModOk (name : Str) : ModOk (emptyModule name) :=
  ⟨rfl, AOk_nil, AOk_nil⟩

theorem findModule_ModOk {T : PTables} (h : TOk T) (cls : Bool) (name : Str) :
    ModOk ((findModule T cls name).getD (emptyModule name)) := by
  unfold findModule
  split
  · exact emptyModule_ModOk name
  · cases hf : (if cls = true then T.classModules else T.packageModules).find? (·.name == _) with
    | none => exact emptyModule_ModOk name
    | some md =>
      have hm := List.mem_of_find?_eq_some hf
      apply h.mods md
      cases cls <;> simp_all

/-! ### postcondition -/

def GoodO {α} (x : Outcome (α × PState)) : Prop :=
  match x with
  | .ok r => StOk r.2
  | .crash c => c ≠ mMod ∧ c ≠ mHan
  | _ => True

/-- `x` keeps the invariant and never ends in one of the two opaque markers -/
structure Good {α} (x : M α) : Prop where
  run : ∀ st, StOk st → GoodO (x st)

theorem Good_pure {α} (a : α) : Good (pure a : M α) := ⟨fun st h => h⟩

theorem Good_bind {α β} {x : M α} {f : α → M β} (hx : Good x) (hf : ∀ a, Good (f a)) : Good (x >>= f) := by
  refine ⟨fun st hs => ?_⟩
  show GoodO (M.bind' x f st)
  unfold M.bind'
  have h1 := hx.run st hs
  cases hxs : x st with
  | ok r => rw [hxs] at h1; exact (hf r.1).run r.2 h1
  | fatal m => trivial
  | crash c => rw [hxs] at h1; exact h1
  | outOfFuel => trivial

theorem Good_get_bind {β} {f : PState → M β} (h : ∀ s, StOk s → Good (f s)) : Good (M.get >>= f) := by
  refine ⟨fun st hs => ?_⟩
  exact (h st hs).run st hs

theorem Good_get : Good M.get := ⟨fun st h => h⟩
theorem Good_modify {f : PState → PState} (h : ∀ s, StOk s → StOk (f s)) : Good (M.modify f) :=
  ⟨fun st hs => h st hs⟩
theorem Good_crash {α} (s : String) (h : s ≠ mMod ∧ s ≠ mHan) : Good (M.crash s : M α) := ⟨fun _ _ => h⟩
theorem Good_fatal {α} (msg : Str) : Good (M.fatal msg : M α) := ⟨fun _ _ => trivial⟩
theorem Good_outOfFuel {α} : Good (M.outOfFuel : M α) := ⟨fun _ _ => trivial⟩
theorem Good_catchAll {α} {x : M α} (msg : Str) (h : Good x) : Good (catchAll x msg) := by
  refine ⟨fun st hs => ?_⟩
  have h1 := h.run st hs
  unfold catchAll
  cases hxs : x st with
  | ok r => rw [hxs] at h1; exact h1
  | fatal m => trivial
  | crash c => trivial
  | outOfFuel => trivial

theorem Good_ite {α} {c : Prop} [Decidable c] {x y : M α} (hx : Good x) (hy : Good y) :
    Good (if c then x else y) := by
  split
  · exact hx
  · exact hy

theorem Good_foldlM {α β} (f : β → α → M β) (h : ∀ b a, Good (f b a)) : ∀ (l : List α) (b : β),
    Good (l.foldlM f b) := by
  intro l
  induction l with
  | nil => intro b; exact Good_pure b
  | cons a rest ih =>
    intro b
    rw [List.foldlM_cons]
    exact Good_bind (h b a) (fun b' => ih b')

theorem Good_forM {α} (f : α → M PUnit) (h : ∀ a, Good (f a)) : ∀ (l : List α), Good (l.forM f) := by
  intro l
  induction l with
  | nil => exact Good_pure _
  | cons a rest ih =>
    show Good (f a >>= fun _ => rest.forM f)
    exact Good_bind (h a) (fun _ => ih)

/-- state updates that leave `macros` and `envs` alone -/
theorem StOk_same {s s' : PState} (h : StOk s) (hm : s'.macros = s.macros) (he : s'.envs = s.envs) : StOk s' :=
  ⟨by rw [hm]; exact h.macros, by rw [he]; exact h.envs⟩

/-! ### leaf functions -/

theorem StOk_withMacros {s : PState} (hs : StOk s) {ms : List MacroDef} (h : AOk ms) :
    StOk { s with macros := ms } := ⟨h, hs.envs⟩
theorem StOk_withEnvs {s : PState} (hs : StOk s) {ms : List MacroDef} (h : AOk ms) :
    StOk { s with envs := ms } := ⟨hs.macros, h⟩

theorem Good_latexError (T : Tables) (err : Str) (pos : Nat) : Good (latexError T err pos) :=
  ⟨fun st hs => StOk_same hs rfl rfl⟩

theorem Good_addUnknown (name : Str) (math : Bool) : Good (addUnknown name math) := by
  unfold addUnknown
  apply Good_modify
  intro s hs
  split
  · exact hs
  · exact StOk_same hs rfl rfl

theorem Good_argBuffer (T : Tables) (buf : Buf) (start : Nat) (endBrace : Bool) :
    Good (argBuffer T buf start endBrace) := by
  unfold argBuffer
  dsimp only
  split
  · exact Good_pure _
  · apply Good_bind (Good_latexError ..)
    intro e
    split <;> exact Good_pure _

theorem Good_parseNewlineOption (T : PTables) (buf : Buf) (skip : Bool) : Good (parseNewlineOption T buf skip) := by
  unfold parseNewlineOption
  dsimp only
  split
  · split
    · exact Good_bind (Good_argBuffer ..) (fun _ => Good_pure _)
    · exact Good_pure _
  · exact Good_pure _

theorem Good_collectArgs (T : PTables) (mac : MacroDef) (codes : List Char) :
    ∀ (n : Nat) (buf : Buf) (pos : Nat) (acc : Args), Good (collectArgs T mac codes n buf pos acc) := by
  induction codes with
  | nil => intro n buf pos acc; simp only [collectArgs]; exact Good_pure _
  | cons c cs ih =>
    intro n buf pos acc
    simp only [collectArgs]
    repeat' first
      | exact ih ..
      | exact Good_fatal _
      | exact Good_bind (Good_argBuffer ..) (fun _ => ih ..)
      | split

theorem Good_parseDefMacro (T : PTables) (buf : Buf) (start : Nat) : Good (parseDefMacro T buf start) := by
  simp only [parseDefMacro]
  repeat' first
    | exact Good_pure _
    | exact Good_bind (Good_latexError ..) (fun _ => Good_pure _)
    | split
  all_goals
    refine Good_bind (Good_argBuffer ..) ?_
    intro r
    repeat' first
      | exact Good_pure _
      | exact Good_bind (Good_latexError ..) (fun _ => Good_pure _)
      | (refine Good_bind (Good_modify ?_) (fun _ => Good_pure _); intro s hs;
         exact StOk_withMacros hs (AOk_setMacro hs.macros ⟨rfl, rfl⟩))
      | split

theorem Good_defineSedMacro (T : PTables) (m : Cleveref.SedMacro) : Good (defineSedMacro T m) := by
  unfold defineSedMacro
  dsimp only
  refine Good_bind (Good_modify ?_) ?_
  · intro s hs; exact StOk_same hs rfl rfl
  intro _
  split
  · exact Good_fatal _
  · apply Good_modify
    intro s hs
    exact StOk_withMacros hs (AOk_setMacro hs.macros ⟨rfl, rfl⟩)

theorem AOk_crefMacros (ls : List Cleveref.SedLine) : AOk (crefMacros ls) := by
  intro d hd
  simp only [crefMacros, List.mem_cons, List.not_mem_nil, or_false] at hd
  rcases hd with rfl | rfl | rfl | rfl <;> exact ⟨rfl, rfl⟩

theorem Good_readSedText (T : PTables) (sed : Str) : Good (readSedText T sed) := by
  unfold readSedText
  dsimp only
  apply Good_bind (Good_forM _ (fun m => Good_defineSedMacro T m) _)
  intro _
  apply Good_modify
  intro s hs
  exact StOk_withMacros hs (AOk_foldl_setMacro _ (AOk_crefMacros _) _ hs.macros)

theorem Good_crefToks (T : PTables) (str : Str) (pos : Nat) : Good (crefToks T str pos) := by
  unfold crefToks
  dsimp only
  refine Good_bind (Good_modify ?_) (fun _ => Good_pure _)
  intro s hs; exact StOk_same hs rfl rfl

theorem StOk_changeParserLang (T : PTables) (s : PState) (l : Str) (back hard : Bool) (h : StOk s) :
    StOk (changeParserLang T s l back hard) := by
  unfold changeParserLang
  repeat' split
  all_goals first | exact h | exact StOk_same h rfl rfl

theorem StOk_setRot (s : PState) (r : Rot) (h : StOk s) : StOk (setRot s r) := StOk_same h rfl rfl

theorem StOk_initExtractions (T : PTables) (st : PState) (extracts : List Str) (h : StOk st) :
    StOk (initExtractions T st extracts) := by
  unfold initExtractions
  refine ⟨?_, h.envs⟩
  dsimp only
  apply AOk_append
  · intro d hd
    obtain ⟨x, hx, rfl⟩ := List.mem_map.1 hd
    have := h.macros x hx
    split
    · exact ⟨rfl, this.2⟩
    · exact ⟨rfl, this.2⟩
  · intro d hd
    obtain ⟨x, hx, rfl⟩ := List.mem_map.1 hd
    exact ⟨rfl, rfl⟩

/-! ### the 21 specifications -/

section
variable (T : PTables)

structure AllGood (fuel : Nat) : Prop where
  seq : ∀ buf envStop out, Good (expandSequence T fuel buf envStop out)
  text : ∀ toks, Good (getTextExpanded T fuel toks)
  envName : ∀ buf tok, Good (getEnvironmentName T fuel buf tok)
  begin_ : ∀ buf tok math, Good (beginEnvironment T fuel buf tok math)
  end_ : ∀ buf tok envStop, Good (endEnvironment T fuel buf tok envStop)
  macro_ : ∀ buf tok math, Good (expandMacro T fuel buf tok math)
  args : ∀ buf mac start, DOk mac → Good (expandArguments T fuel buf mac start)
  item : ∀ buf tok out, Good (expandItem T fuel buf tok out)
  accent : ∀ buf tok, Good (expandAccent T fuel buf tok)
  work : ∀ latex, Good (parserWork T fuel latex)
  init : ∀ name md builtin options position, ModOk md → Good (initPackage T fuel name md builtin options position)
  modParams : ∀ md options position, ModOk md → Good (modifyParameters T fuel md options position)
  keyvals : ∀ buf acc, Good (parseKeyvals T fuel buf acc)
  value : ∀ buf val, Good (parseValue T fuel buf val)
  expandKv : ∀ kvs, Good (expandKeyvals T fuel kvs)
  modDesc : ∀ toks, Good (modifyDescription T fuel toks)
  handler : ∀ h buf mac args pos, opq h = false → Good (callHandler T fuel h buf mac args pos)
  mathSec : ∀ buf start toksStop envStop out, Good (expandMathSection T fuel buf start toksStop envStop out)
  inline : ∀ buf tok, Good (expandInlineMath T fuel buf tok)
  dispLoop : ∀ buf start envName first next out, Good (displayLoop T fuel buf start envName first next out)
  display : ∀ buf tok envName remove, Good (expandDisplayMath T fuel buf tok envName remove)

end

/-- marker for side goals the tactic `good` leaves to the user -/
structure Stop (p : Prop) : Prop where
  out : p

theorem Good_modify_stop {f : PState → PState} (h : Stop (∀ s, StOk s → StOk (f s))) : Good (M.modify f) :=
  Good_modify h.out

theorem lookupMacro_DOk' {st : PState} {name : Str} {m : MacroDef}
    (hm : lookupMacro st name = some m) (h : StOk st) : DOk m := lookupMacro_DOk h hm
theorem lookupEnv_DOk' {st : PState} {name : Str} {m : MacroDef}
    (hm : lookupEnv st name = some m) (h : StOk st) : DOk m := lookupEnv_DOk h hm

/-- a state update that does not touch `macros` / `envs` -/
syntax "good_mod" : tactic
macro_rules
  | `(tactic| good_mod) => `(tactic| (intro s hs; first
      | exact hs
      | exact StOk_same hs rfl rfl
      | exact StOk_changeParserLang _ _ _ _ _ hs
      | exact StOk_setRot _ _ hs))

/-- side conditions of the induction hypotheses -/
syntax "good_side" : tactic
macro_rules
  | `(tactic| good_side) => `(tactic| first
      | exact lookupMacro_DOk' (by assumption) (by assumption)
      | exact lookupEnv_DOk' (by assumption) (by assumption)
      | exact (lookupEnv_DOk' (by assumption) (by assumption)).2
      | exact (lookupMacro_DOk' (by assumption) (by assumption)).1
      | exact (lookupEnv_DOk' (by assumption) (by assumption)).1
      | exact ⟨rfl, rfl⟩
      | exact rfl
      | assumption)

/-- unfold the monadic structure; `IH` is the bundle for the smaller fuel.  Every lemma is tried with reducible
    transparency only (otherwise a failing attempt unfolds the functions of the mutual block). -/
syntax "good " term : tactic
macro_rules
  | `(tactic| good $IH) => `(tactic| repeat' first
      | with_reducible exact Good_pure _
      | with_reducible exact Good_fatal _
      | with_reducible exact Good_outOfFuel
      | ((with_reducible refine Good_crash _ ?_); decide)
      | with_reducible exact Good_latexError _ _ _
      | with_reducible exact Good_argBuffer _ _ _ _
      | with_reducible exact Good_addUnknown _ _
      | with_reducible exact Good_parseNewlineOption _ _ _
      | with_reducible exact Good_collectArgs _ _ _ _ _ _ _
      | with_reducible exact Good_parseDefMacro _ _ _
      | with_reducible exact Good_crefToks _ _ _
      | with_reducible exact Good_readSedText _ _
      | with_reducible exact ($IH).seq _ _ _
      | with_reducible exact ($IH).text _
      | with_reducible exact ($IH).envName _ _
      | with_reducible exact ($IH).begin_ _ _ _
      | with_reducible exact ($IH).end_ _ _ _
      | with_reducible exact ($IH).macro_ _ _ _
      | with_reducible exact ($IH).item _ _ _
      | with_reducible exact ($IH).accent _ _
      | with_reducible exact ($IH).work _
      | with_reducible exact ($IH).keyvals _ _
      | with_reducible exact ($IH).value _ _
      | with_reducible exact ($IH).expandKv _
      | with_reducible exact ($IH).modDesc _
      | with_reducible exact ($IH).mathSec _ _ _ _ _
      | with_reducible exact ($IH).inline _ _
      | with_reducible exact ($IH).dispLoop _ _ _ _ _ _
      | with_reducible exact ($IH).display _ _ _ _
      | ((with_reducible refine ($IH).args _ _ _ ?_); good_side)
      | ((with_reducible refine ($IH).handler _ _ _ _ _ ?_); good_side)
      | (with_reducible refine ($IH).args _ _ _ (Stop.out ?_))
      | (with_reducible refine ($IH).handler _ _ _ _ _ (Stop.out ?_))
      | (with_reducible refine ($IH).init _ _ _ _ _ (Stop.out ?_))
      | (with_reducible refine ($IH).modParams _ _ _ (Stop.out ?_))
      | ((with_reducible refine Good_get_bind ?_); intro _ _)
      | (with_reducible refine Good_bind ?_ ?_)
      | ((with_reducible refine Good_modify ?_); good_mod)
      | (with_reducible refine Good_modify_stop ?_)
      | (with_reducible refine Good_catchAll _ ?_)
      | (with_reducible refine Good_ite ?_ ?_)
      | intro _
      | split)

end NoOpaque
end Yalafi
