/-
  Proofs/PlainParaMix3.lean — C05 "text flow is preserved": the PARAGRAPH RELATION between two words
  of a document of the THIRD union grammar (`PlainMix3.Seg`, twenty-two kinds, Proofs/PlainMix3E2E.lean:
  the fourteen kinds of `PlainMix2` plus accent calls, rich inline formulas in both delimiters,
  `\newcommand` with parameters and uses, `\[…\]` and equation environments, list environments with
  `\item`), a corollary layer over `PlainMix3.tex2txt_mix3` and the mark-level facts of
  Proofs/PlainPara.lean.  The lift of Proofs/PlainParaSrc.lean.

  Setting (as there).  The document is

        docAB A u a Mid b v B = A ++ .txt (u ++ [a]) :: (Mid ++ .txt (b :: v) :: B)

  with two VISIBLE text characters `a` (0-based source position `posA A u`) and `b` (`posB A u Mid`);
  the source between them is `render Mid`.  The reference of `Mid` depends on what stands in front:
  `midMarks` = the marks of `Mid` with the definitions in force behind `A` (`envAfter`), the label
  generators behind `A` (`stkAfter`), the numbers of formulas and displayed equations of `A`.

  `ref_docAB`: the reference output is `pre front ++ a :: (between ++ b :: post back)`,
  `between = PlainPara.sep (midMarks …)` = the output characters strictly between `a` and `b`.

  The source side is read through `srcView Mid : List Cls` as in Proofs/PlainParaSrc.lean: text by
  the class of its characters, comments dropped, EVERY OTHER CONSTRUCT ONE INK BLOB — also a
  definition, a use with its arguments, an accent call, a displayed equation from `\[` to `\]` resp.
  `\begin{equation}` to `\end{equation}`, `\begin{itemize}`, `\item` WITH the white space behind it,
  `\end{itemize}`.

  WHAT THE MODEL DOES WITH THE NEW KINDS (found by evaluation, then proved).  In the model a simple
  displayed equation does NOT generate a line break: it leaves `mark, two blanks, placeholder,
  punctuation, mark` IN THE LINE where it stands (`a \[x.\] b` gives `a   V-V-V. b`); the line breaks
  around a display in the output are those of the source.  `\item` leaves `mark, blank, label,
  blank`, no line break.  `\begin{name}` / `\end{name}` of a list environment leave a text-less mark —
  unless the environment is declared with `add_pars`, then TWO LINE BREAKS (`PlainItem.envMarks`): a
  blank line that the source does not have.  On the tables of the current /repo no list environment
  has `add_pars` (`enumerate`, `itemize`: `false`), so this cannot happen there.  Hence:

    (i)+(ii)  `between_blank`: `hasBlank (S classes) = hasBlank (srcView Mid)` — the "iff" HOLDS on the
              22-kind grammar, displayed equations and list environments included, under the
              computable condition `viewOk … Mid`: for every construct of `Mid` other than text and
              comments, the classes of ITS marks (in its context) read as ONE INK BLOB whatever
              stands around it (`blobOk`: no blank line inside, no leading `white space* line
              break`, the last character that is no blank exists and is visible — this is exact:
              a construct that violates it reads differently from one ink in some context).
              READABLE SUFFICIENT CONDITION `outNoNl` (`viewOk_of_outNoNl`): no construct of `Mid`
              OUTPUTS a line break (`PlainMix3.plain` of the construct: special value, `\verb`
              content, placeholders, punctuation, note, title, expansion of a use, label, the two
              line breaks of `add_pars`), and the value of an accent call holds a visible character.
              The EXACT EXCEPTIONS (what makes `viewOk` false): `\begin` / `\end` of a list
              environment with `add_pars` (generates a blank line: direction "no invented break"
              fails — none on the real tables); an accent call whose table value is empty or white
              space (none on the real tables); a construct whose output holds a blank line or
              starts / ends with a line break — e.g. a use whose argument holds a blank line
              (`\p{x⏎⏎y}`: the source view has ONE blob, the output has the blank line; the raw
              source has it too); a single line break inside an argument (`\p{x⏎y}`) is fine.
              `viewOk_of_gap`: vanishing constructs never violate it.
              `between_blank_marks`: WITHOUT any condition `S` holds a blank line iff the MARKS of
              `Mid` do (a text-less mark counts as ink).
    (i) raw   `between_blank_raw`: under `viewOk`, if `render Mid` with the comments cut out holds no
              blank line, `S` holds none.
    (iii)     `between_space`: white space in the view gives white space in `S`.
    `between_sublist`: `S` is a subsequence of `PlainMix3.plain … Mid`.
    gaps      `gap st Mid`: white space, comments, undeclared control words, vanishing calls, braces,
              footnotes, DEFINITIONS, and `\begin` / `\end` of list environments without `add_pars`:
              then `S` is white space only (`between_gap`) and `viewOk` holds.

  NOT covered (in contrast to Proofs/PlainParaSrc.lean): the position bound `between_pos` (the
  positions in `S` lie between those of `a` and `b`) for arbitrary `Mid` (for gaps:
  `between_gap_pos`) — for a
  displayed equation `\[= a.\]` the punctuation is pinned in front of the placeholder, for a use the
  body characters carry the position of the use or of an argument; both stay inside the construct,
  but this is not proved here.  End points `a`, `b` outside `txt` segments.
-/
import YalafiVerif.Proofs.PlainParaSrc
import YalafiVerif.Proofs.SystemWordMix3
namespace Yalafi
namespace PlainMix3
namespace Para

open PlainMacro (Mark delLines)
open PlainPara
open SystemWord (envAfter stkAfter marks_append3' marks_append3 render_append3)
open PlainMix2.Para (clsM_posText any_space_posText any_nonink_str posText_space blankGo_prefix_eq)

/-! ### one segment in its context -/

/-- the marks of the segment `s` alone, in the context `env stk k k2 p` -/
def segMarks (T : PTables) (st : PState) (repls drepls : List Str) (env : Env) (stk : List ItemGen)
    (k k2 p : Nat) (s : Seg) : List Mark :=
  marks T st repls drepls env stk k k2 p [s]

theorem marks_cons3 (T : PTables) (st : PState) (repls drepls : List Str) (env : Env)
    (stk : List ItemGen) (k k2 p : Nat) (s : Seg) (rest : List Seg) :
    marks T st repls drepls env stk k k2 p (s :: rest)
      = segMarks T st repls drepls env stk k k2 p s
        ++ marks T st repls drepls (envAfter env [s]) (stkAfter st stk [s]) (k + nFormulas [s])
            (k2 + nDisplays [s]) (p + s.len) rest := by
  have := marks_append3' T st repls drepls rest [s] env stk k k2 p _ _ (p + s.len) rfl rfl
    (by simp [render, Seg.len])
  simpa [segMarks] using this

/-! ### the source view -/

/-- **the layout of the source as TeX sees it**: text by the class of its characters, comments
    dropped, every other construct one ink blob -/
def srcView : List Seg → List Cls
  | [] => []
  | .txt s :: rest => s.map clsC ++ srcView rest
  | .com _ :: rest => srcView rest
  | _ :: rest => .ink :: srcView rest

/-- the state of the blank-line scanner `blankGo` behind `x`: "a line break has been seen, and
    nothing but white space since" -/
def finGo : Bool → List Cls → Bool
  | s, [] => s
  | _, .nl :: r => finGo true r
  | s, .ws :: r => finGo s r
  | _, .ink :: r => finGo false r

/-- a list of classes that reads as ONE ink blob, whatever stands in front of it and behind it:
    it holds no blank line, does not start with white space and a line break, and its last
    character that is no white space (other than a line break) exists and is ink.  (Sufficient:
    no line break and at least one ink, `inkBlob`.) -/
def blobOk (x : List Cls) : Bool := !blankGo true x && !finGo true x

/-- no line break, at least one ink -/
def inkBlob (x : List Cls) : Bool := !x.contains .nl && x.contains .ink

/-- **what the constructs between `a` and `b` must satisfy for the "iff"**: the marks of every
    construct other than text and comments, in its context, read as one ink blob -/
def viewOk (T : PTables) (st : PState) (repls drepls : List Str) :
    Env → List ItemGen → Nat → Nat → Nat → List Seg → Bool
  | _, _, _, _, _, [] => true
  | env, stk, k, k2, p, .txt s :: rest => viewOk T st repls drepls env stk k k2 (p + s.length) rest
  | env, stk, k, k2, p, .com body :: rest =>
    viewOk T st repls drepls env stk k k2 (p + (Seg.com body).len) rest
  | env, stk, k, k2, p, s :: rest =>
    blobOk ((segMarks T st repls drepls env stk k k2 p s).map clsM) &&
      viewOk T st repls drepls (envAfter env [s]) (stkAfter st stk [s]) (k + nFormulas [s])
        (k2 + nDisplays [s]) (p + s.len) rest

/-- the scanner on a concatenation -/
theorem blankGo_append : ∀ (x : List Cls) (s : Bool) (r : List Cls),
    blankGo s (x ++ r) = (blankGo s x || blankGo (finGo s x) r)
  | [], s, r => by simp [blankGo, finGo]
  | .nl :: x, s, r => by
    simp only [List.cons_append, blankGo, finGo, blankGo_append x true r, Bool.or_assoc]
  | .ws :: x, s, r => by
    simp only [List.cons_append, blankGo, finGo, blankGo_append x s r]
  | .ink :: x, s, r => by
    simp only [List.cons_append, blankGo, finGo, blankGo_append x false r]

theorem finGo_mono : ∀ (x : List Cls) (s : Bool), finGo true x = false → finGo s x = false
  | [], s, h => by simp [finGo] at h
  | .nl :: x, s, h => by simpa [finGo] using h
  | .ws :: x, s, h => by
    simp only [finGo] at h ⊢
    exact finGo_mono x s h
  | .ink :: x, s, h => by simpa [finGo] using h

/-- an ink blob reads as one ink -/
theorem blankGo_blob3 (x : List Cls) (s : Bool) (r : List Cls) (h : blobOk x = true) :
    blankGo s (x ++ r) = blankGo false r := by
  simp only [blobOk, Bool.and_eq_true, Bool.not_eq_true'] at h
  rw [blankGo_append, finGo_mono x s h.2]
  cases hb : blankGo s x with
  | false => rfl
  | true =>
    cases s with
    | true => rw [h.1] at hb; cases hb
    | false => rw [blankGo_mono x true hb] at h; exact absurd h.1 (by simp)

theorem blankGo_nonl : ∀ (x : List Cls) (s : Bool), x.contains .nl = false → blankGo s x = false
  | [], _, _ => rfl
  | c :: x, s, h => by
    simp only [List.contains_cons, Bool.or_eq_false_iff] at h
    cases c with
    | nl => simp at h
    | ws => simp only [blankGo]; exact blankGo_nonl x s h.2
    | ink => simp only [blankGo]; exact blankGo_nonl x false h.2

theorem finGo_nonl_false : ∀ (x : List Cls), x.contains .nl = false → finGo false x = false
  | [], _ => rfl
  | c :: x, h => by
    simp only [List.contains_cons, Bool.or_eq_false_iff] at h
    cases c with
    | nl => simp at h
    | ws => simp only [finGo]; exact finGo_nonl_false x h.2
    | ink => simp only [finGo]; exact finGo_nonl_false x h.2

theorem finGo_inkBlob : ∀ (x : List Cls) (s : Bool), inkBlob x = true → finGo s x = false
  | [], _, h => by simp [inkBlob] at h
  | c :: x, s, h => by
    simp only [inkBlob, List.contains_cons, Bool.and_eq_true, Bool.not_eq_true',
      Bool.or_eq_false_iff, Bool.or_eq_true] at h
    cases c with
    | nl => simp at h
    | ws =>
      simp only [finGo]
      refine finGo_inkBlob x s ?_
      simp only [inkBlob, Bool.and_eq_true, Bool.not_eq_true']
      refine ⟨h.1.2, ?_⟩
      rcases h.2 with h2 | h2
      · simp at h2
      · exact h2
    | ink => simp only [finGo]; exact finGo_nonl_false x h.1.2

/-- the sufficient condition: no line break, at least one ink -/
theorem blobOk_of_inkBlob (x : List Cls) (h : inkBlob x = true) : blobOk x = true := by
  have h1 : x.contains .nl = false := by
    simp only [inkBlob, Bool.and_eq_true, Bool.not_eq_true'] at h
    exact h.1
  simp [blobOk, blankGo_nonl x true h1, finGo_inkBlob x true h]

/-- **the marks of `Mid`, read for blank lines, are the source view** -/
theorem marks_view (T : PTables) (st : PState) (repls drepls : List Str) :
    ∀ (Mid : List Seg) (env : Env) (stk : List ItemGen) (k k2 p : Nat) (s : Bool),
      viewOk T st repls drepls env stk k k2 p Mid = true →
      blankGo s ((marks T st repls drepls env stk k k2 p Mid).map clsM) = blankGo s (srcView Mid) := by
  intro Mid
  induction Mid with
  | nil => intros; rfl
  | cons x rest ih =>
    intro env stk k k2 p s h
    cases x
    case txt t =>
      simp only [viewOk] at h
      simp only [marks, srcView, List.map_append, clsM_posText]
      exact blankGo_prefix_eq _ _ _ s (fun s' => ih env stk k k2 _ s' h)
    case com body =>
      simp only [viewOk] at h
      simp only [marks, fixOf, List.nil_append, srcView]
      exact ih env stk k k2 _ s h
    all_goals
      simp only [viewOk, Bool.and_eq_true] at h
      rw [marks_cons3, List.map_append, blankGo_blob3 _ s _ h.1]
      simp only [srcView, blankGo]
      exact ih _ _ _ _ _ false h.2

/-! ### white space -/

/-- white space in the view is a white-space character among the marks -/
theorem view_space (T : PTables) (st : PState) (repls drepls : List Str) :
    ∀ (Mid : List Seg) (env : Env) (stk : List ItemGen) (k k2 p : Nat),
      (srcView Mid).any (fun c => c != .ink) = true →
      (marks T st repls drepls env stk k k2 p Mid).any spaceMark = true := by
  intro Mid
  induction Mid with
  | nil => intro env stk k k2 p h; simp [srcView] at h
  | cons x rest ih =>
    intro env stk k k2 p h
    cases x
    case txt t =>
      simp only [srcView, List.any_append, any_nonink_str, Bool.or_eq_true] at h
      simp only [marks, List.any_append, any_space_posText, Bool.or_eq_true]
      rcases h with h | h
      · exact Or.inl h
      · exact Or.inr (ih env stk k k2 _ h)
    case com body =>
      simp only [srcView] at h
      simp only [marks, fixOf, List.nil_append]
      exact ih env stk k k2 _ h
    all_goals
      simp only [srcView, List.any_cons, bne_self_eq_false, Bool.false_or] at h
      rw [marks_cons3, List.any_append, Bool.or_eq_true]
      exact Or.inr (ih _ _ _ _ _ h)

/-! ### two characters of a document -/

/-- the (0-based) source position of `a` in `A ++ .txt (u ++ [a]) :: …` -/
def posA (A : List Seg) (u : Str) : Nat := (render A).length + u.length

/-- the (0-based) source position of `b` in `A ++ .txt (u ++ [a]) :: (Mid ++ .txt (b :: v) :: B)` -/
def posB (A : List Seg) (u : Str) (Mid : List Seg) : Nat := posA A u + 1 + (render Mid).length

/-- the document with the two marked characters -/
def docAB (A : List Seg) (u : Str) (a : Char) (Mid : List Seg) (b : Char) (v : Str) (B : List Seg) :
    List Seg :=
  A ++ .txt (u ++ [a]) :: (Mid ++ .txt (b :: v) :: B)

/-- the marks of `Mid` in its place: the definitions in force, the label generators and the numbers
    of formulas and displayed equations are those behind `A` -/
def midMarks (T : PTables) (st : PState) (repls drepls : List Str) (A : List Seg) (u : Str)
    (Mid : List Seg) : List Mark :=
  marks T st repls drepls (envAfter [] A) (stkAfter st st.itemStack A) (nFormulas A) (nDisplays A)
    (posA A u + 1) Mid

/-- `viewOk` for `Mid` in its place -/
def midViewOk (T : PTables) (st : PState) (repls drepls : List Str) (A : List Seg) (u : Str)
    (Mid : List Seg) : Bool :=
  viewOk T st repls drepls (envAfter [] A) (stkAfter st st.itemStack A) (nFormulas A) (nDisplays A)
    (posA A u + 1) Mid

/-- **the output characters strictly between `a` and `b`**, with 0-based positions -/
def between (T : PTables) (st : PState) (repls drepls : List Str) (A : List Seg) (u : Str)
    (Mid : List Seg) : List (Char × Nat) :=
  sep (midMarks T st repls drepls A u Mid)

/-- the marks in front of `a` -/
def frontMarks (T : PTables) (st : PState) (repls drepls : List Str) (A : List Seg) (u : Str) :
    List Mark :=
  marks T st repls drepls [] st.itemStack 0 0 0 A ++ (posText (render A).length u).map some

/-- the marks behind `b` -/
def backMarks (T : PTables) (st : PState) (repls drepls : List Str) (A : List Seg) (u : Str)
    (Mid : List Seg) (v : Str) (B : List Seg) : List Mark :=
  (posText (posB A u Mid + 1) v).map some
    ++ marks T st repls drepls (envAfter (envAfter [] A) Mid) (stkAfter st (stkAfter st st.itemStack A) Mid)
        (nFormulas A + nFormulas Mid) (nDisplays A + nDisplays Mid) (posB A u Mid + 1 + v.length) B

/-- the marks of the document, cut at `a` and `b` -/
theorem marks_docAB (T : PTables) (st : PState) (repls drepls : List Str) (A : List Seg) (u : Str)
    (a : Char) (Mid : List Seg) (b : Char) (v : Str) (B : List Seg) :
    marks T st repls drepls [] st.itemStack 0 0 0 (docAB A u a Mid b v B)
      = frontMarks T st repls drepls A u ++ some (a, posA A u)
          :: (midMarks T st repls drepls A u Mid ++ some (b, posB A u Mid)
            :: backMarks T st repls drepls A u Mid v B) := by
  unfold docAB frontMarks midMarks backMarks posB posA
  rw [marks_append3]
  simp only [marks]
  rw [marks_append3' T st repls drepls _ Mid _ _ _ _ _ (nFormulas A + nFormulas Mid)
    (nDisplays A + nDisplays Mid) ((render A).length + u.length + 1 + (render Mid).length) rfl rfl
    (by simp; omega)]
  simp only [marks, posText_append, List.map_append, posText, List.map_cons, List.map_nil,
    List.append_assoc, List.cons_append, List.length_append,
    List.length_cons, List.length_nil, List.nil_append]
  have e1 : (render A).length + (u.length + (0 + 1)) = (render A).length + u.length + 1 := by omega
  have e2 : (render A).length + u.length + 1 + (render Mid).length + (v.length + 1)
      = (render A).length + u.length + 1 + (render Mid).length + 1 + v.length := by omega
  rw [e1, e2]

/-- **the paragraph relation, reference level**: the reference output of the document, cut at `a`
    and `b` -/
theorem ref_docAB (T : PTables) (st : PState) (repls drepls : List Str) (A : List Seg) (u : Str)
    (a : Char) (Mid : List Seg) (b : Char) (v : Str) (B : List Seg)
    (ha : isSpace a = false) (hb : isSpace b = false) :
    delLines (marks T st repls drepls [] st.itemStack 0 0 0 (docAB A u a Mid b v B))
      = pre (frontMarks T st repls drepls A u) ++ (a, posA A u)
          :: (between T st repls drepls A u Mid ++ (b, posB A u Mid)
            :: post (backMarks T st repls drepls A u Mid v B)) := by
  rw [marks_docAB]
  exact delLines_between (frontMarks T st repls drepls A u) (midMarks T st repls drepls A u Mid)
    (backMarks T st repls drepls A u Mid v B) (a, posA A u) (b, posB A u Mid) ha hb

/-- (i) + (ii) on the document level -/
theorem between_blank (T : PTables) (st : PState) (repls drepls : List Str) (A : List Seg) (u : Str)
    (Mid : List Seg) (h : midViewOk T st repls drepls A u Mid = true) :
    hasBlank ((between T st repls drepls A u Mid).map clsP) = hasBlank (srcView Mid) := by
  unfold between
  rw [sep_blank]
  exact marks_view T st repls drepls Mid _ _ _ _ _ false h

/-- (i) + (ii) without any condition, on the level of marks: the output between `a` and `b` holds a
    blank line iff the MARKS of `Mid` do (a text-less mark counts as ink) -/
theorem between_blank_marks (T : PTables) (st : PState) (repls drepls : List Str) (A : List Seg)
    (u : Str) (Mid : List Seg) :
    hasBlank ((between T st repls drepls A u Mid).map clsP)
      = hasBlank ((midMarks T st repls drepls A u Mid).map clsM) := by
  unfold between
  exact sep_blank _

/-- (iii) on the document level -/
theorem between_space (T : PTables) (st : PState) (repls drepls : List Str) (A : List Seg) (u : Str)
    (Mid : List Seg) (h : (srcView Mid).any (fun c => c != .ink) = true) :
    (between T st repls drepls A u Mid).any (fun cp => isSpace cp.1) = true := by
  unfold between
  rw [sep_space]
  exact view_space T st repls drepls Mid _ _ _ _ _ h

/-- nothing is added between `a` and `b`: the characters between them are output characters of
    `Mid` (`PlainMix3.plain`), in order -/
theorem between_sublist (T : PTables) (st : PState) (repls drepls : List Str) (A : List Seg) (u : Str)
    (Mid : List Seg) :
    List.Sublist (between T st repls drepls A u Mid)
      (plain T st repls drepls (envAfter [] A) (stkAfter st st.itemStack A) (nFormulas A) (nDisplays A)
        (posA A u + 1) Mid) := by
  have := sep_sublist (midMarks T st repls drepls A u Mid)
  unfold midMarks at this
  rw [marks_chars] at this
  exact this

/-! ### gaps -/

/-- `Mid` consists of white space, comments and vanishing constructs only: undeclared control
    words, vanishing calls, braces, footnotes, definitions, `\begin` / `\end` of list environments
    that are declared without `add_pars` -/
def gap (st : PState) : List Seg → Bool
  | [] => true
  | .txt s :: rest => s.all isSpace && gap st rest
  | .opn :: rest => gap st rest
  | .cls :: rest => gap st rest
  | .cw _ _ :: rest => gap st rest
  | .van _ _ :: rest => gap st rest
  | .com _ :: rest => gap st rest
  | .foot _ :: rest => gap st rest
  | .defn _ _ _ :: rest => gap st rest
  | .beg name :: rest => !(PlainItem.envOf st name).addPars && gap st rest
  | .en name :: rest => !(PlainItem.envOf st name).addPars && gap st rest
  | _ :: _ => false

/-- vanishing constructs are ink blobs -/
theorem viewOk_of_gap (T : PTables) (st : PState) (repls drepls : List Str) :
    ∀ (Mid : List Seg) (env : Env) (stk : List ItemGen) (k k2 p : Nat), gap st Mid = true →
      viewOk T st repls drepls env stk k k2 p Mid = true := by
  intro Mid
  induction Mid with
  | nil => intros; rfl
  | cons x rest ih =>
    intro env stk k k2 p h
    cases x
    case txt t =>
      simp only [gap, Bool.and_eq_true] at h
      simp only [viewOk]
      exact ih _ _ _ _ _ h.2
    case com body =>
      simp only [gap] at h
      simp only [viewOk]
      exact ih _ _ _ _ _ h
    case beg name =>
      simp only [gap, Bool.and_eq_true, Bool.not_eq_true'] at h
      simp only [viewOk, Bool.and_eq_true]
      refine ⟨?_, ih _ _ _ _ _ h.2⟩
      simp [segMarks, marks, PlainItem.envMarks, h.1, clsM, blobOk, blankGo, finGo]
    case en name =>
      simp only [gap, Bool.and_eq_true, Bool.not_eq_true'] at h
      simp only [viewOk, Bool.and_eq_true]
      refine ⟨?_, ih _ _ _ _ _ h.2⟩
      simp [segMarks, marks, PlainItem.envMarks, h.1, clsM, blobOk, blankGo, finGo]
    case opn | cls | cw | van | foot | defn =>
      simp only [gap] at h
      simp only [viewOk, Bool.and_eq_true]
      refine ⟨?_, ih _ _ _ _ _ h⟩
      simp [segMarks, marks, fixOf, clsM, blobOk, blankGo, finGo]
    all_goals simp [gap] at h

/-- the output characters of a gap are white space -/
theorem marks_gap (T : PTables) (st : PState) (repls drepls : List Str) :
    ∀ (Mid : List Seg) (env : Env) (stk : List ItemGen) (k k2 p : Nat), gap st Mid = true →
      ∀ cp ∈ (marks T st repls drepls env stk k k2 p Mid).filterMap id, isSpace cp.1 = true := by
  intro Mid
  induction Mid with
  | nil => intro env stk k k2 p _ cp hcp; simp [marks] at hcp
  | cons x rest ih =>
    intro env stk k k2 p h cp hcp
    cases x
    case txt t =>
      simp only [gap, Bool.and_eq_true] at h
      simp only [marks, List.filterMap_append, PlainMacro.filterMap_map_some, List.mem_append] at hcp
      rcases hcp with hcp | hcp
      · exact posText_space t p h.1 cp hcp
      · exact ih _ _ _ _ _ h.2 cp hcp
    case com body =>
      simp only [gap] at h
      simp only [marks, fixOf, List.nil_append] at hcp
      exact ih _ _ _ _ _ h cp hcp
    case beg name =>
      simp only [gap, Bool.and_eq_true, Bool.not_eq_true'] at h
      simp only [marks, PlainItem.envMarks, h.1, Bool.false_eq_true, if_false, List.cons_append,
        List.nil_append, List.filterMap_cons, id] at hcp
      exact ih _ _ _ _ _ h.2 cp hcp
    case en name =>
      simp only [gap, Bool.and_eq_true, Bool.not_eq_true'] at h
      simp only [marks, PlainItem.envMarks, h.1, Bool.false_eq_true, if_false, List.cons_append,
        List.nil_append, List.filterMap_cons, id] at hcp
      exact ih _ _ _ _ _ h.2 cp hcp
    case opn | cls | cw | van | foot | defn =>
      simp only [gap] at h
      simp only [marks, fixOf, List.cons_append, List.nil_append, List.filterMap_cons, id] at hcp
      exact ih _ _ _ _ _ h cp hcp
    all_goals simp [gap] at h

/-- between two words that are separated by a gap the output holds white space only -/
theorem between_gap (T : PTables) (st : PState) (repls drepls : List Str) (A : List Seg) (u : Str)
    (Mid : List Seg) (h : gap st Mid = true) :
    ∀ cp ∈ between T st repls drepls A u Mid, isSpace cp.1 = true := by
  intro cp hcp
  have hs := sep_sublist (midMarks T st repls drepls A u Mid)
  exact marks_gap T st repls drepls Mid _ _ _ _ _ h cp (hs.subset hcp)

open PlainVanish (mem_posText) in
/-- the output characters of a gap carry positions inside the source of the gap -/
theorem marks_gap_pos (T : PTables) (st : PState) (repls drepls : List Str) :
    ∀ (Mid : List Seg) (env : Env) (stk : List ItemGen) (k k2 p : Nat), gap st Mid = true →
      ∀ cp ∈ (marks T st repls drepls env stk k k2 p Mid).filterMap id,
        p ≤ cp.2 ∧ cp.2 < p + (render Mid).length := by
  intro Mid
  induction Mid with
  | nil => intro env stk k k2 p _ cp hcp; simp [marks] at hcp
  | cons x rest ih =>
    intro env stk k k2 p h cp hcp
    have hlen : (render (x :: rest)).length = x.len + (render rest).length := by
      simp [render, Seg.len]
    rw [hlen]
    cases x
    case txt t =>
      simp only [gap, Bool.and_eq_true] at h
      simp only [marks, List.filterMap_append, PlainMacro.filterMap_map_some, List.mem_append] at hcp
      have hl : (Seg.txt t).len = t.length := rfl
      rw [hl]
      rcases hcp with hcp | hcp
      · have := mem_posText hcp; omega
      · have := ih _ _ _ _ _ h.2 cp hcp; omega
    case com body =>
      simp only [gap] at h
      simp only [marks, fixOf, List.nil_append] at hcp
      have := ih _ _ _ _ _ h cp hcp; omega
    case beg name =>
      simp only [gap, Bool.and_eq_true, Bool.not_eq_true'] at h
      simp only [marks, PlainItem.envMarks, h.1, Bool.false_eq_true, if_false, List.cons_append,
        List.nil_append, List.filterMap_cons, id] at hcp
      have := ih _ _ _ _ _ h.2 cp hcp; omega
    case en name =>
      simp only [gap, Bool.and_eq_true, Bool.not_eq_true'] at h
      simp only [marks, PlainItem.envMarks, h.1, Bool.false_eq_true, if_false, List.cons_append,
        List.nil_append, List.filterMap_cons, id] at hcp
      have := ih _ _ _ _ _ h.2 cp hcp; omega
    case opn | cls | cw | van | foot | defn =>
      simp only [gap] at h
      simp only [marks, fixOf, List.cons_append, List.nil_append, List.filterMap_cons, id] at hcp
      have := ih _ _ _ _ _ h cp hcp; omega
    all_goals simp [gap] at h

/-- … every position between two words that are separated by a gap lies strictly between the
    positions of the words -/
theorem between_gap_pos (T : PTables) (st : PState) (repls drepls : List Str) (A : List Seg) (u : Str)
    (Mid : List Seg) (h : gap st Mid = true) :
    ∀ cp ∈ between T st repls drepls A u Mid, posA A u < cp.2 ∧ cp.2 < posB A u Mid := by
  intro cp hcp
  have hs := sep_sublist (midMarks T st repls drepls A u Mid)
  have := marks_gap_pos T st repls drepls Mid _ _ _ _ _ h cp (hs.subset hcp)
  unfold posB
  omega

/-! ### the view and the raw source -/

/-- the document without its comments -/
def stripCom : List Seg → List Seg
  | [] => []
  | .com _ :: rest => stripCom rest
  | s :: rest => s :: stripCom rest

/-- every special sequence starts with a visible character -/
def spcVis : List Seg → Bool
  | [] => true
  | .spc key :: rest => key.head?.any (fun c => !isSpace c) && spcVis rest
  | _ :: rest => spcVis rest

theorem spcVis_of_segsOk (T : PTables) (st : PState) (R : List Seg) : ∀ (Mid : List Seg),
    segsOk T st (Mid ++ R) = true → spcVis Mid = true
  | [], _ => rfl
  | s :: Mid, h => by
    cases s
    case spc key =>
      simp only [List.cons_append, segsOk, Bool.and_eq_true] at h
      cases key with
      | nil => exact absurd rfl (PlainMix.spcOk_ne h.1)
      | cons c tl => simp [spcVis, (PlainMix.spcOk_head h.1).1, spcVis_of_segsOk T st R Mid h.2]
    all_goals
      simp only [List.cons_append, segsOk, Bool.and_eq_true] at h
      simp only [spcVis]
      exact spcVis_of_segsOk T st R Mid h.2

open PlainMix2.Para (blankGo_prefix blankGo_blob) in
/-- **a blank line of the view is a blank line of the raw source without its comments** -/
theorem view_raw : ∀ (Mid : List Seg) (s : Bool), spcVis Mid = true →
    blankGo s (srcView Mid) = true → blankGo s ((render (stripCom Mid)).map clsC) = true := by
  intro Mid
  induction Mid with
  | nil => intro s _ h; exact h
  | cons x rest ih =>
    intro s hv h
    cases x
    case txt t =>
      simp only [spcVis] at hv
      simp only [srcView] at h
      simp only [stripCom, render, Seg.render, List.map_append]
      exact blankGo_prefix _ _ _ s (fun s' => ih s' hv) h
    case com body =>
      simp only [spcVis] at hv
      simp only [srcView] at h
      simp only [stripCom]
      exact ih s hv h
    case spc key =>
      simp only [spcVis, Bool.and_eq_true] at hv
      cases key with
      | nil => simp at hv
      | cons c tl =>
        have hc : isSpace c = false := by simpa using hv.1
        simp only [srcView] at h
        simp only [stripCom, render, Seg.render, List.map_append]
        exact blankGo_blob c tl _ _ s hc (fun s' => ih s' hv.2) h
    case opn =>
      simp only [spcVis] at hv
      simp only [srcView] at h
      simp only [stripCom, render, Seg.render, List.map_append]
      exact blankGo_blob '{' [] _ _ s (by decide) (fun s' => ih s' hv) h
    case cls =>
      simp only [spcVis] at hv
      simp only [srcView] at h
      simp only [stripCom, render, Seg.render, List.map_append]
      exact blankGo_blob '}' [] _ _ s (by decide) (fun s' => ih s' hv) h
    case math par body =>
      simp only [spcVis] at hv
      simp only [srcView] at h
      cases par
      · simp only [stripCom, render, Seg.render, PlainMathRich.opn, Bool.false_eq_true, if_false,
          List.cons_append, List.nil_append]
        have e := blankGo_blob '$' (PlainUnkn2.renderM body ++ PlainMathRich.cls false) _ _ s (by decide)
          (fun s' => ih s' hv) h
        rw [← List.map_append, List.cons_append] at e
        exact e
      · simp only [stripCom, render, Seg.render, PlainMathRich.opn, if_true,
          List.cons_append, List.nil_append]
        have e := blankGo_blob '\\' ('(' :: (PlainUnkn2.renderM body ++ PlainMathRich.cls true)) _ _ s
          (by decide) (fun s' => ih s' hv) h
        rw [← List.map_append, List.cons_append, List.cons_append] at e
        exact e
    all_goals
      simp only [spcVis] at hv
      simp only [srcView] at h
      simp only [stripCom, render, Seg.render, List.map_append]
      exact blankGo_blob '\\' _ _ _ s (by decide) (fun s' => ih s' hv) h

/-- (i), raw source -/
theorem between_blank_raw (T : PTables) (st : PState) (repls drepls : List Str) (A : List Seg) (u : Str)
    (Mid : List Seg) (h : midViewOk T st repls drepls A u Mid = true) (hv : spcVis Mid = true)
    (hraw : hasBlankLine (render (stripCom Mid)) = false) :
    hasBlank ((between T st repls drepls A u Mid).map clsP) = false := by
  rw [between_blank T st repls drepls A u Mid h]
  cases hb : hasBlank (srcView Mid) with
  | false => rfl
  | true =>
    have := view_raw Mid false hv hb
    unfold hasBlankLine hasBlank at hraw
    rw [this] at hraw
    exact absurd hraw (by simp)

/-- the special sequences between `a` and `b` start with a visible character -/
theorem spcVis_mid (T : PTables) (st : PState) (A : List Seg) (u : Str) (a : Char) (Mid : List Seg)
    (b : Char) (v : Str) (B : List Seg) (h : segsOk T st (docAB A u a Mid b v B) = true) :
    spcVis Mid = true := by
  unfold docAB at h
  have h1 := SystemWord.segsOk_drop3 T st _ A h
  simp only [segsOk, Bool.and_eq_true] at h1
  exact spcVis_of_segsOk T st _ Mid h1.2

/-! ### a readable sufficient condition: no construct between `a` and `b` OUTPUTS a line break -/

/-- the output characters of the segment `s` alone, in its context (`PlainMix3.plain`) -/
def segOut (T : PTables) (st : PState) (repls drepls : List Str) (env : Env) (stk : List ItemGen)
    (k k2 p : Nat) (s : Seg) : Str :=
  (plain T st repls drepls env stk k k2 p [s]).map (·.1)

/-- **no construct of `Mid` outputs a line break** (and the value of an accent call holds a visible
    character): the special values, `\verb` contents, placeholders and punctuation of formulas and
    displayed equations, reference placeholders, notes, titles, the EXPANSIONS of the uses (body and
    arguments), the labels of the items, the marks of `\begin` / `\end` of list environments (no
    `add_pars`) -/
def outNoNl (T : PTables) (st : PState) (repls drepls : List Str) :
    Env → List ItemGen → Nat → Nat → Nat → List Seg → Bool
  | _, _, _, _, _, [] => true
  | env, stk, k, k2, p, .txt s :: rest => outNoNl T st repls drepls env stk k k2 (p + s.length) rest
  | env, stk, k, k2, p, .com body :: rest =>
    outNoNl T st repls drepls env stk k k2 (p + (Seg.com body).len) rest
  | env, stk, k, k2, p, .acc name ws bo l :: rest =>
    (!hasNl (PlainAccent.accVal T name l) && (PlainAccent.accVal T name l).any (fun c => !isSpace c)) &&
      outNoNl T st repls drepls env stk k k2 (p + (Seg.acc name ws bo l).len) rest
  | env, stk, k, k2, p, s :: rest =>
    !hasNl (segOut T st repls drepls env stk k k2 p s) &&
      outNoNl T st repls drepls (envAfter env [s]) (stkAfter st stk [s]) (k + nFormulas [s])
        (k2 + nDisplays [s]) (p + s.len) rest

theorem clsC_eq_nl (c : Char) : (clsC c == Cls.nl) = (c == nl) := by
  unfold clsC
  by_cases h1 : (c == nl) = true
  · simp [h1]
  · by_cases h2 : isSpace c = true <;> simp [h1, h2]

/-- the classes of a mark list hold a line break iff its characters do -/
theorem clsM_contains_nl : ∀ (M : List Mark),
    (M.map clsM).contains .nl = hasNl ((M.filterMap id).map (·.1))
  | [] => rfl
  | none :: M => by
    have := clsM_contains_nl M
    simp only [List.map_cons, List.contains_cons, clsM, List.filterMap_cons, id]
    rw [show (Cls.nl == Cls.ink) = false from rfl, Bool.false_or]
    exact this
  | some cp :: M => by
    have := clsM_contains_nl M
    simp only [hasNl] at this ⊢
    simp only [List.map_cons, List.contains_cons, clsM, List.filterMap_cons, id, this]
    have e : (Cls.nl == clsC cp.1) = (nl == cp.1) := by
      rw [Bool.beq_comm, clsC_eq_nl, Bool.beq_comm]
    rw [e]

theorem ink_of_none (M : List Mark) (h : none ∈ M) : (M.map clsM).contains .ink = true := by
  rw [List.contains_iff_mem]
  exact List.mem_map.mpr ⟨none, h, rfl⟩

theorem blob_of_none (M : List Mark) (h : none ∈ M)
    (hn : hasNl ((M.filterMap id).map (·.1)) = false) : blobOk (M.map clsM) = true := by
  apply blobOk_of_inkBlob
  unfold inkBlob
  rw [clsM_contains_nl, hn, ink_of_none M h]
  rfl

theorem segOut_eq (T : PTables) (st : PState) (repls drepls : List Str) (env : Env) (stk : List ItemGen)
    (k k2 p : Nat) (s : Seg) :
    ((segMarks T st repls drepls env stk k k2 p s).filterMap id).map (·.1)
      = segOut T st repls drepls env stk k k2 p s := by
  unfold segMarks segOut
  rw [marks_chars]

/-- **if no construct outputs a line break, every construct reads as one ink blob** -/
theorem viewOk_of_outNoNl (T : PTables) (st : PState) (repls drepls : List Str) :
    ∀ (Mid : List Seg) (env : Env) (stk : List ItemGen) (k k2 p : Nat),
      outNoNl T st repls drepls env stk k k2 p Mid = true →
      viewOk T st repls drepls env stk k k2 p Mid = true := by
  intro Mid
  induction Mid with
  | nil => intros; rfl
  | cons x rest ih =>
    intro env stk k k2 p h
    cases x
    case txt t =>
      simp only [outNoNl] at h
      simp only [viewOk]
      exact ih _ _ _ _ _ h
    case com body =>
      simp only [outNoNl] at h
      simp only [viewOk]
      exact ih _ _ _ _ _ h
    case acc name ws bo l =>
      simp only [outNoNl, Bool.and_eq_true, Bool.not_eq_true', List.any_eq_true] at h
      obtain ⟨⟨h1, c, hc, hv⟩, h2⟩ := h
      simp only [viewOk, Bool.and_eq_true]
      have hlen : p + (Seg.acc name ws bo l).len = p + (Seg.acc name ws bo l).len := rfl
      refine ⟨?_, ?_⟩
      · apply blobOk_of_inkBlob
        have hnl : ((segMarks T st repls drepls env stk k k2 p (.acc name ws bo l)).map clsM).contains .nl
            = false := by
          rw [clsM_contains_nl, segOut_eq]
          simp only [segOut, plain, List.append_nil, List.map_map, Function.comp_def, List.map_id']
          exact h1
        have hink : ((segMarks T st repls drepls env stk k k2 p (.acc name ws bo l)).map clsM).contains .ink
            = true := by
          rw [List.contains_iff_mem]
          simp only [segMarks, marks, fixOf, List.append_nil, List.map_map, List.mem_map,
            Function.comp_def, clsM]
          refine ⟨c, hc, ?_⟩
          have hv' : isSpace c = false := by simpa using hv
          simp [clsC, nl_of_vis hv', hv']
        unfold inkBlob
        rw [hnl, hink]
        rfl
      · have := ih _ _ _ _ _ h2
        simpa [envAfter, stkAfter, nFormulas, nDisplays] using this
    case en name =>
      simp only [outNoNl, Bool.and_eq_true, Bool.not_eq_true'] at h
      simp only [viewOk, Bool.and_eq_true]
      refine ⟨?_, ih _ _ _ _ _ h.2⟩
      have h1 := h.1
      cases hp : (PlainItem.envOf st name).addPars with
      | true =>
        simp [segOut, plain, PlainItem.envMarks, hp, hasNl] at h1
      | false =>
        simp [segMarks, marks, PlainItem.envMarks, hp, clsM, blobOk, blankGo, finGo]
    all_goals
      simp only [outNoNl, Bool.and_eq_true, Bool.not_eq_true'] at h
      simp only [viewOk, Bool.and_eq_true]
      refine ⟨blob_of_none _ ?_ (by rw [segOut_eq]; exact h.1), ih _ _ _ _ _ h.2⟩
      simp [segMarks, marks, fixOf, mathMarksR, dispMarks, itemMarks]

/-- `outNoNl` for `Mid` in its place -/
def midOutNoNl (T : PTables) (st : PState) (repls drepls : List Str) (A : List Seg) (u : Str)
    (Mid : List Seg) : Bool :=
  outNoNl T st repls drepls (envAfter [] A) (stkAfter st st.itemStack A) (nFormulas A) (nDisplays A)
    (posA A u + 1) Mid

theorem midViewOk_of_outNoNl (T : PTables) (st : PState) (repls drepls : List Str) (A : List Seg) (u : Str)
    (Mid : List Seg) (h : midOutNoNl T st repls drepls A u Mid = true) :
    midViewOk T st repls drepls A u Mid = true :=
  viewOk_of_outNoNl T st repls drepls Mid _ _ _ _ _ h

end Para
end PlainMix3
end Yalafi
