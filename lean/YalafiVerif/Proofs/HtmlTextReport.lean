/-
  Proofs/HtmlTextReport.lean — the page text of one file as pieces (`reportPieces`): equal to the model's string
  (`assemble_pieces`, `generateHtmlText_ok`) and well placed (`flow_reportPieces`).
-/
import YalafiVerif.Proofs.HtmlTextRows
namespace Yalafi
namespace HtmlText
open Html

/-! ### the report of one file as pieces -/

/-- `generate_highlight` as pieces (a cell of the table of overlapping messages: the `<br>\n` stay
    inside the cell) -/
def hlPieces (t : Tag) (s : Str) : List TPiece := itemPieces (lineItems (wrap t) s)

theorem render_hlPieces (t : Tag) (s : Str) : renderPieces (hlPieces t s) = highlightWith t.pre t.post s := by
  rw [hlPieces, renderPieces_itemPieces, renderItems_wrap]

/-- the big table (or, without any line number, the bare text — which is empty then) -/
def tablePieces (V : Vars) (tags : List Tag) (rep : Report) : List TPiece :=
  if rep.lineNumbers.isEmpty then itemPieces (resItems tags rep)
  else [tableOpen] ++ numberedP V.numberStyle (rowsP [] (resItems tags rep)) rep.lineNumbers ++ [tableClose]

def overlapRow (V : Vars) (tags : List Tag) (o : Overlap) : List TPiece :=
  overlapRowHead V.numberStyle o.lin ++ hlPieces (tags.getD o.idx ([], [])) o.text ++ overlapRowTail

/-- `postfix` -/
def overlapPieces (V : Vars) (file : Str) (tags : List Tag) (ov : List Overlap) : List TPiece :=
  if ov.isEmpty then [] else postfixHead file ++ ov.flatMap (overlapRow V tags) ++ postfixTail

/-- the page text of one file: `prefix + res_tot + postfix` -/
def reportPieces (V : Vars) (file : Str) (n : Nat) (rep : Report) (tags : List Tag) : List TPiece :=
  prefixPieces file n (!rep.overlaps.isEmpty) ++ tablePieces V tags rep ++ overlapPieces V file tags rep.overlaps

theorem render_overlapRows (V : Vars) (tags : List Tag) (ov : List Overlap) :
    renderPieces (ov.flatMap (overlapRow V tags)) =
      ov.flatMap (fun o => renderPieces (overlapRowHead V.numberStyle o.lin) ++ hlText tags o.idx o.text
                            ++ renderPieces overlapRowTail) := by
  induction ov with
  | nil => rfl
  | cons o ov ih =>
    simp only [List.flatMap_cons]
    rw [renderPieces_append, ih, overlapRow, renderPieces_append, renderPieces_append, render_hlPieces]
    rfl

/-- the model's string is the rendering of the pieces -/
theorem assemble_pieces (V : Vars) (hV : VarsOk V) (ms : List Json) (file : Str) (rep : Report) (r : FileReport)
    (h : assemble V ms file rep = .ok r) :
    ∃ tags, matchTags V ms rep.hdata = .ok tags ∧
      r.body = renderPieces (reportPieces V file ms.length rep tags) ∧
      r.title = protectHtml (titleText file ms.length) ∧ r.anchor = file ∧ r.count = ms.length := by
  unfold assemble at h
  split at h
  · rename_i tags htags
    refine ⟨tags, htags, ?_⟩
    have hto := matchTags_tagOk V hV ms rep.hdata tags htags
    have hio := itemsOk_res tags hto rep
    simp only [] at h
    split at h
    · rename_i tab htab
      cases h
      refine ⟨?_, rfl, rfl, rfl⟩
      simp only [reportPieces, renderPieces_append]
      congr 1
      · congr 1
        unfold tablePieces
        split at htab
        · rename_i he
          cases htab
          rw [if_pos he, renderPieces_itemPieces, renderItems_res]
        · rename_i he
          rw [if_neg he]
          rw [← renderItems_res] at htab
          exact addLineNumbers_pieces _ _ hio _ _ htab
      · unfold overlapPieces
        split
        · rfl
        · simp only [renderPieces_append, render_overlapRows]
    · cases h
    · cases h
  · cases h
  · cases h

theorem olPrefix_length (ms : List Json) : (olPrefix ms).length ≤ ms.length := by
  induction ms with
  | nil => simp [olPrefix]
  | cons m ms ih =>
    unfold olPrefix
    split <;> simp <;> omega

theorem generateHtmlText_ok (T : Tables) (V : Vars) (tex : Str) (charmap : List Int) (ms : List Json) (file : Str)
    (context : Nat) (r : FileReport) (h : generateHtmlText T V tex charmap ms file context = .ok r) :
    ∃ rep, (olPrefix ms).length = ms.length ∧ generateHtml T tex charmap (olPrefix ms) context = .ok rep ∧
      assemble V ms file rep = .ok r := by
  unfold generateHtmlText at h
  simp only [] at h
  split at h
  · cases h
  · cases h
  · split at h
    · cases h
    · rename_i hl
      split at h
      · rename_i rep hrep
        exact ⟨rep, by have := olPrefix_length ms; omega, hrep, h⟩
      · cases h
      · cases h

/-! ### the pieces are well placed -/

theorem flow_text_lit (s : Str) (h : ∀ c ∈ s, c ≠ '<') (rest : List TPiece) :
    flow .text (.lit s :: rest) = flow .text rest := by
  simp only [flow, List.map_cons, TPiece.shape, flowS, scan_text_noLt s h]

theorem natToStr_noLt (n : Nat) : ∀ c ∈ natToStr n, c ≠ '<' := by
  intro c hc
  have hd : c.isDigit = true := by
    have : natToStr n = Nat.toDigits 10 n := by simp [natToStr, Nat.toString_eq_repr, Nat.toList_repr]
    rw [this] at hc
    exact Nat.isDigit_of_mem_toDigits (by decide) (by decide) hc
  intro e; subst e; exact absurd hd (by decide)

theorem lineLabel_noLt (n : Int) : ∀ c ∈ lineLabel n, c ≠ '<' := by
  unfold lineLabel
  split
  · exact natToStr_noLt _
  · simp

theorem flow_rowHead (ns : Str) (hns : styleOk ns = true) (n : Int) (rest : List TPiece) :
    flow .text (rowHead ns n ++ rest) = flow .text rest := by
  simp only [rowHead, List.cons_append, List.nil_append, flow_cons_L]
  have h1 : (scan .text "<tr>\n<td style=\"".toList).1 = .dq "<td style=\"".toList := by decide
  rw [h1]
  have h2 := flow_dqStay "<td style=\"".toList [.lit ns]
    (L "\" align=\"right\" valign=\"top\">" :: .lit (lineLabel n) :: L "&nbsp;&nbsp;</td>\n<td>" :: rest)
    (by simp [dqStay, styleOk_noQuote ns hns])
  simp only [List.cons_append, List.nil_append] at h2
  rw [h2, flow_cons_L]
  have h3 : (scan (.dq "<td style=\"".toList) "\" align=\"right\" valign=\"top\">".toList).1 = .text := by decide
  rw [h3, flow_text_lit _ (lineLabel_noLt n), flow_cons_L]
  have h4 : (scan .text "&nbsp;&nbsp;</td>\n<td>".toList).1 = .text := by decide
  rw [h4]

theorem flow_rowTail (rest : List TPiece) : flow .text (rowTail ++ rest) = flow .text rest := by
  simp only [rowTail, List.cons_append, List.nil_append, flow_cons_L]
  have : (scan .text "</td>\n</tr>\n".toList).1 = .text := by decide
  rw [this]

theorem flow_numberedP (ns : Str) (hns : styleOk ns = true) (rows : List (List TPiece × Bool))
    (hrows : ∀ r ∈ rows, ∀ rest, flow .text (r.1 ++ rest) = flow .text rest) (nums : List Int) (rest : List TPiece) :
    flow .text (numberedP ns rows nums ++ rest) = flow .text rest := by
  induction rows generalizing nums with
  | nil => rfl
  | cons r rs ih =>
    cases nums with
    | nil => rfl
    | cons n nums =>
      simp only [numberedP, List.append_assoc]
      rw [flow_rowHead ns hns, hrows r (by simp), flow_rowTail]
      exact ih (fun r' hr' => hrows r' (by simp [hr'])) nums

theorem flow_itemPieces (its : List Item) (h : ItemsOk its) (rest : List TPiece) :
    flow .text (itemPieces its ++ rest) = flow .text rest := by
  induction its with
  | nil => rfl
  | cons i its ih =>
    simp only [itemPieces, List.flatMap_cons, List.append_assoc] at ih ⊢
    cases i with
    | brk => simp only [Item.pieces, List.cons_append, List.nil_append, flow_esc]; exact ih h.tail
    | chunk ps => simp only [Item.pieces]; rw [h.flow ps (by simp)]; exact ih h.tail

theorem flow_tablePieces (V : Vars) (hV : VarsOk V) (tags : List Tag) (ht : ∀ t ∈ tags, TagOk t) (rep : Report)
    (rest : List TPiece) : flow .text (tablePieces V tags rep ++ rest) = flow .text rest := by
  have hio := itemsOk_res tags ht rep
  unfold tablePieces
  split
  · exact flow_itemPieces _ hio rest
  · simp only [List.cons_append, List.nil_append, List.append_assoc, tableOpen, tableClose, flow_cons_L]
    have h1 : (scan .text "<table cellspacing=\"0\">\n".toList).1 = .text := by decide
    have h2 : (scan .text "</table>\n".toList).1 = .text := by decide
    rw [h1, flow_numberedP _ hV.ns _ (rowsP_flow _ hio [] (fun _ => rfl)), flow_cons_L, h2]

theorem flow_prefix (file : Str) (hf : file.all (· != '"') = true) (n : Nat) (b : Bool) (rest : List TPiece) :
    flow .text (prefixPieces file n b ++ rest) = flow .text rest := by
  have hraw : ∀ a rest', flow (.dq a) (.raw file :: rest') = flow (.dq a) rest' := by
    intro a rest'
    have := flow_dqStay a [.raw file] rest' (by simp [dqStay, hf])
    simpa using this
  have h1 : (scan .text "<a id=\"".toList).1 = .dq "<a id=\"".toList := by decide
  have h2 : (scan (.dq "<a id=\"".toList) "\"></a><H3>".toList).1 = .text := by decide
  have h3 : (scan .text "</H3>\n".toList).1 = .text := by decide
  cases b with
  | false =>
    simp only [prefixPieces, Bool.false_eq_true, ↓reduceIte, List.append_nil, List.cons_append, List.nil_append, flow_cons_L]
    rw [h1, hraw, flow_cons_L, h2, flow_esc, flow_cons_L, h3]
  | true =>
    simp only [prefixPieces, ↓reduceIte, List.cons_append, List.nil_append, flow_cons_L]
    rw [h1, hraw, flow_cons_L, h2, flow_esc, flow_cons_L, h3]
    have h4 : (scan .text "<a href=\"#".toList).1 = .dq "<a href=\"".toList := by decide
    have h5 : (scan (.dq "<a href=\"".toList) "-@@@".toList).1 = .dq "<a href=\"".toList := by decide
    have h6 : (scan (.dq "<a href=\"".toList) "\">".toList).1 = .text := by decide
    have h7 : (scan .text "<H3>Overlapping message(s) found:".toList).1 = .text := by decide
    have h8 : (scan .text " see here</H3></a>\n".toList).1 = .text := by decide
    rw [flow_cons_L, h4, hraw, flow_cons_L, h5, flow_cons_L, h6, flow_cons_L, h7, flow_cons_L, h8]

theorem flow_overlapRow (V : Vars) (hV : VarsOk V) (tags : List Tag) (ht : ∀ t ∈ tags, TagOk t) (o : Overlap)
    (rest : List TPiece) : flow .text (overlapRow V tags o ++ rest) = flow .text rest := by
  simp only [overlapRow, overlapRowHead, overlapRowTail, List.cons_append, List.nil_append, List.append_assoc, flow_cons_L]
  have h1 : (scan .text "<tr><td style=\"".toList).1 = .dq "<td style=\"".toList := by decide
  rw [h1]
  have h2 := flow_dqStay "<td style=\"".toList [.lit V.numberStyle]
    (L "\" align=\"right\" valign=\"top\">" :: .lit (natToStr o.lin) :: L "&nbsp;&nbsp;</td><td>" ::
      (hlPieces (tags.getD o.idx ([], [])) o.text ++ (L "</td></tr>\n" :: rest)))
    (by simp [dqStay, styleOk_noQuote _ hV.ns])
  simp only [List.cons_append, List.nil_append] at h2
  rw [h2, flow_cons_L]
  have h3 : (scan (.dq "<td style=\"".toList) "\" align=\"right\" valign=\"top\">".toList).1 = .text := by decide
  rw [h3, flow_text_lit _ (natToStr_noLt _), flow_cons_L]
  have h4 : (scan .text "&nbsp;&nbsp;</td><td>".toList).1 = .text := by decide
  rw [h4, hlPieces, flow_itemPieces _ (itemsOk_wrap _ (tagOk_getD tags ht o.idx) _), flow_cons_L]
  have h5 : (scan .text "</td></tr>\n".toList).1 = .text := by decide
  rw [h5]

theorem flow_overlapPieces (V : Vars) (hV : VarsOk V) (file : Str) (hf : file.all (· != '"') = true)
    (tags : List Tag) (ht : ∀ t ∈ tags, TagOk t) (ov : List Overlap) (rest : List TPiece) :
    flow .text (overlapPieces V file tags ov ++ rest) = flow .text rest := by
  unfold overlapPieces
  split
  · rfl
  · have hraw : ∀ a rest', flow (.dq a) (.raw file :: rest') = flow (.dq a) rest' := by
      intro a rest'
      have := flow_dqStay a [.raw file] rest' (by simp [dqStay, hf])
      simpa using this
    simp only [postfixHead, postfixTail, List.cons_append, List.nil_append, List.append_assoc, flow_cons_L]
    have h1 : (scan .text "<a id=\"".toList).1 = .dq "<a id=\"".toList := by decide
    have h2 : (scan (.dq "<a id=\"".toList) "-@@@".toList).1 = .dq "<a id=\"".toList := by decide
    have h3 : (scan (.dq "<a id=\"".toList) "\"></a><H3>".toList).1 = .text := by decide
    have h4 : (scan .text " overlapping message(s)</H3>\n".toList).1 = .text := by decide
    have h5 : (scan .text "<table cellspacing=\"0\">\n".toList).1 = .text := by decide
    have h6 : (scan .text "</table>\n".toList).1 = .text := by decide
    rw [h1, hraw, flow_cons_L, h2, flow_cons_L, h3, flow_esc, flow_cons_L, h4, flow_cons_L, h5]
    have : ∀ (ov' : List Overlap) rest', flow .text (ov'.flatMap (overlapRow V tags) ++ rest') = flow .text rest' := by
      intro ov' rest'
      induction ov' with
      | nil => rfl
      | cons o ov ih =>
        simp only [List.flatMap_cons, List.append_assoc]
        rw [flow_overlapRow V hV tags ht]; exact ih
    rw [this, flow_cons_L, h6]

/-- **all data stands where it is harmless**: in the report of one file every `esc` piece stands in text,
    every `escTitle`/`escAttr` piece inside a double-quoted attribute value, and the page ends in text -/
theorem flow_reportPieces (V : Vars) (hV : VarsOk V) (file : Str) (hf : file.all (· != '"') = true) (n : Nat)
    (rep : Report) (tags : List Tag) (ht : ∀ t ∈ tags, TagOk t) :
    flow .text (reportPieces V file n rep tags) = some .text := by
  have := flow_prefix file hf n (!rep.overlaps.isEmpty) (tablePieces V tags rep ++ (overlapPieces V file tags rep.overlaps ++ []))
  simp only [List.append_nil] at this
  unfold reportPieces
  rw [List.append_assoc, this, flow_tablePieces V hV tags ht]
  have h2 := flow_overlapPieces V hV file hf tags ht rep.overlaps []
  simp only [List.append_nil] at h2
  rw [h2]; rfl

end HtmlText
end Yalafi
