/-
  Proofs/Reports.lean — theorems about the position arithmetic of the reports (Model/Reports.lean):
  text report, JSON `priv`, XML / XML-b, the `--nums` file, `translate_numbers`.
  All statements hold for ALL texts, offsets, lengths and maps; hypotheses are stated where needed.

  Layers
  * `lastLineStart` (`s.rfind('\n') + 1`): `lastLineStart_snoc` (one more character),
    `_le`, `_no_nl`, `_prev`; `starts_eq_lastLineStart`: the entry of `get_line_starts` for the line
    that holds offset `b` IS `tex.rfind('\n', 0, b) + 1` (ties Model/Reports to Model/Html).
  * natural offsets: the Int model = `lineIdx` / `colIdx` / `textLineCol` / `xmlFields` of
    Model/Shell.lean (`textReport_nat`, `jsonPriv_nat`, `colIdx_eq`).
  * (a) `linecol_roundtrip`  — (lin, col) is THE line and column of the offset (existence +
        uniqueness); holds for every natural offset, also behind the end of the text.
  * (b) `formats_agree`, `html_agrees`, `html_end_agrees`.
  * (c) `utf8Size_bounds`, `xmlb_from`, `xmlb_to`.
  * (d) `InText`, `InFileLC`, `lineAt`; `located_in_file`, `report_in_file`, `xmlb_from_le`,
        `xmlb_to_le`; `mapMatch_end_in_file` (with a C01 map `1 ≤ offset + length` — the Python
        expression `end = beg + length - 1` is never negative), `mapped_report_in_file`;
        `mapMatch_zero_length`, `zero_length_report` and two `example`s: what a zero-length
        answer gives.
  * (e) `nums_lines`, `writeOutput_lines` (decimal digits via `Nat.toDigits` lemmas of core).
  * (f) `translateNumbers_eq` (one case distinction), `translate_numbers_some`,
        `translate_position`, `translate_numbers_none`.

  NOT covered: the texts of the reports other than the numbers (rule id, message, context line —
  C15's oracle checks them end to end); `str.encode()` of unpaired surrogates (no `Char`);
  `generate_html` beyond `computeH` (Proofs/Html.lean).

  Behaviour worth knowing (each is a theorem or an `example` below / in Properties/C14, C15):
  * an offset BEHIND the text still satisfies (a) (the column passes the end of the last line);
    the byte column of xml-b is then SMALLER than it would be for that character column (the
    slice is clamped) — only reachable with a map entry behind the text (no C01 map).
  * `translate_numbers` reports a map entry that points to a LINE BREAK of the LaTeX text as
    column 1 of the FOLLOWING line (`len(s) - (s.rfind('\n') + 1) = 0`, then `max(1, col)`), and it
    cannot be asked for the column of a line break of the plain text (`col > i` is rejected).
  * zero-length answer: mapped length `|cm[o-1]| - |cm[o]| + 1 ≤ 0`; negative when markup was
    removed in between — JSON prints a negative `length`, XML `tox < fromx` (or `toy < fromy`);
    both ends are characters of the file.
-/
import YalafiVerif.Model.Reports
import YalafiVerif.Proofs.Shell
import YalafiVerif.Proofs.Html
namespace Yalafi
namespace Reports
open Html

/-! ### induction from the right -/

theorem snoc_induction {α} {P : List α → Prop} (hnil : P []) (hsnoc : ∀ l a, P l → P (l ++ [a])) : ∀ l, P l := by
  intro l
  have h : ∀ r : List α, P r.reverse := by
    intro r
    induction r with
    | nil => exact hnil
    | cons a r ih => rw [List.reverse_cons]; exact hsnoc _ _ ih
  have := h l.reverse
  rwa [List.reverse_reverse] at this

/-! ### `lastLineStart` -/

theorem lastLineStart_nil : lastLineStart [] = 0 := by simp [lastLineStart]

theorem lastLineStart_snoc (s : Str) (c : Char) :
    lastLineStart (s ++ [c]) = if c = '\n' then s.length + 1 else lastLineStart s := by
  unfold lastLineStart
  rw [List.reverse_append, List.reverse_singleton, List.singleton_append, List.idxOf?_cons]
  by_cases hc : c = '\n'
  · simp [hc]
  · have : (c == '\n') = false := by simpa using hc
    simp only [this, hc, if_false, Bool.false_eq_true]
    cases h : List.idxOf? '\n' s.reverse with
    | none => simp
    | some k => simp [List.length_append] <;> omega

theorem lastLineStart_le (s : Str) : lastLineStart s ≤ s.length := by
  induction s using snoc_induction with
  | hnil => simp [lastLineStart_nil]
  | hsnoc l a ih => rw [lastLineStart_snoc]; split <;> simp <;> omega

/-- no line break behind the begin of the last line -/
theorem lastLineStart_no_nl (s : Str) : '\n' ∉ s.drop (lastLineStart s) := by
  induction s using snoc_induction with
  | hnil => simp
  | hsnoc l a ih =>
    rw [lastLineStart_snoc]
    split
    · simp
    · rename_i hc
      rw [List.drop_append_of_le_length (lastLineStart_le l)]
      simp only [List.mem_append, List.mem_singleton, not_or]
      exact ⟨ih, fun h => hc h.symm⟩

/-- the character in front of the last line is a line break -/
theorem lastLineStart_prev (s : Str) : lastLineStart s = 0 ∨ s[lastLineStart s - 1]? = some '\n' := by
  induction s using snoc_induction with
  | hnil => simp [lastLineStart_nil]
  | hsnoc l a ih =>
    rw [lastLineStart_snoc]
    split
    · rename_i hc
      right; simp [hc]
    · rcases ih with h | h
      · left; exact h
      · right
        have := lastLineStart_le l
        by_cases h0 : lastLineStart l = 0
        · simp [h0] at h ⊢
          cases l with
          | nil => simp at h
          | cons x xs => simpa using h
        · rw [List.getElem?_append_left (by omega)]; exact h

/-- the last entry of the line starts of a text is the begin of its last line -/
theorem starts_getLast (p : Str) : (0 :: lineStartsAux 0 p).getLast? = some (lastLineStart p) := by
  induction p using snoc_induction with
  | hnil => simp [lineStartsAux, lastLineStart_nil]
  | hsnoc l a ih =>
    rw [aux_append, lastLineStart_snoc]
    by_cases hc : a = '\n'
    · subst hc
      simp only [lineStartsAux, beq_self_eq_true, if_true, Nat.zero_add]
      rw [← List.cons_append, List.getLast?_append]
      simp
    · have : (a == '\n') = false := by simpa using hc
      simp only [lineStartsAux, this, hc, if_false, Bool.false_eq_true, List.append_nil]
      exact ih

/-- **line start = begin of the last line of the prefix**: the entry of `get_line_starts` for the
    line that holds offset `b` is `tex.rfind('\n', 0, b) + 1` -/
theorem starts_eq_lastLineStart (tex : Str) (b : Nat) :
    (getLineStarts tex).getD ((tex.take b).count '\n') 0 = lastLineStart (tex.take b) := by
  have h := starts_getLast (tex.take b)
  have ht : getLineStarts tex = (0 :: lineStartsAux 0 (tex.take b)) ++ lineStartsAux (0 + (tex.take b).length) (tex.drop b) := by
    unfold getLineStarts
    conv => lhs; rw [← List.take_append_drop b tex, aux_append]
    rfl
  have hl : (0 :: lineStartsAux 0 (tex.take b)).length = (tex.take b).count '\n' + 1 := by
    simp [aux_length]
  rw [List.getLast?_eq_getElem?, hl] at h
  simp only [Nat.add_sub_cancel] at h
  rw [ht, List.getD_eq_getElem?_getD, List.getElem?_append_left (by omega), h]
  rfl

/-! ### the model's Int arithmetic on natural offsets = `lineIdx` / `colIdx` of Model/Shell.lean -/

theorem pyEnd_nat (tex : Str) (o : Nat) : pyEnd tex (o : Int) = o := by
  simp only [pyEnd]; split <;> omega

theorem pyEnd_nonneg (tex : Str) (o : Int) (h : 0 ≤ o) : pyEnd tex o = o.toNat := by
  simp [pyEnd]; omega

theorem pyCountNl_nat (tex : Str) (o : Nat) : pyCountNl tex (o : Int) = lineIdx tex o := by
  simp [pyCountNl, lineIdx, pyEnd_nat]

theorem pyNl_nat (tex : Str) (o : Nat) : pyNl tex (o : Int) = lastLineStart (tex.take o) := by
  simp [pyNl, pyEnd_nat]

theorem colIdx_eq (tex : Str) (o : Nat) : colIdx tex o = o - lastLineStart (tex.take o) := by
  simp only [colIdx, lastLineStart, List.length_take]
  cases List.idxOf? '\n' (List.take o tex).reverse <;> rfl

theorem lastLineStart_take_le (tex : Str) (o : Nat) : lastLineStart (tex.take o) ≤ o := by
  have := lastLineStart_le (tex.take o)
  simp only [List.length_take] at this
  omega

/-- on a natural offset the text report is `textLineCol` of Model/Shell.lean -/
theorem textReport_nat (tex : Str) (o : Nat) :
    textReport tex (o : Int) = (((textLineCol tex o).1 : Int), ((textLineCol tex o).2 : Int)) := by
  have := lastLineStart_take_le tex o
  simp only [textReport, textLineCol, pyCountNl_nat, pyNl_nat, colIdx_eq]
  refine Prod.ext ?_ ?_ <;> simp only <;> omega

/-- JSON / XML on natural offset and end = `xmlFields` of Model/Shell.lean -/
theorem jsonPriv_nat (tex : Str) (o l : Nat) (hl : 1 ≤ l) :
    jsonPriv tex (o : Int) (l : Int) =
      { fromy := ((xmlFields tex o l).1 : Nat), fromx := ((xmlFields tex o l).2.1 : Nat),
        toy := ((xmlFields tex o l).2.2.1 : Nat), tox := ((xmlFields tex o l).2.2.2 : Nat) } := by
  have h1 := lastLineStart_take_le tex o
  have h2 := lastLineStart_take_le tex (o + l - 1)
  have he : (o : Int) + (l : Int) - 1 = ((o + l - 1 : Nat) : Int) := by omega
  simp only [jsonPriv, xmlFields, he, pyCountNl_nat, pyNl_nat, colIdx_eq]
  congr 1 <;> omega

/-! ### (a) the line and column of the text report are THE line and column of the offset -/

theorem count_take_eq_of_slice (tex : Str) (a b : Nat) (hab : a ≤ b) (h : '\n' ∉ slice tex a b) :
    (tex.take b).count '\n' = (tex.take a).count '\n' := by
  have h1 := count_slice tex a b hab
  have h2 : (slice tex a b).count '\n' = 0 := List.count_eq_zero.mpr h
  have h3 : (tex.take a).count '\n' ≤ (tex.take b).count '\n' := by
    have : tex.take a = (tex.take b).take a := by rw [List.take_take, Nat.min_eq_left hab]
    rw [this]; exact List.Sublist.count_le '\n' (List.take_sublist a _)
  omega

theorem linecol_roundtrip (tex : Str) (offset : Nat) :
    let lc := textLineCol tex offset
    let starts := getLineStarts tex
    1 ≤ lc.1 ∧ lc.1 ≤ starts.length ∧ 1 ≤ lc.2 ∧
    starts.getD (lc.1 - 1) 0 + (lc.2 - 1) = offset ∧
    '\n' ∉ slice tex (starts.getD (lc.1 - 1) 0) offset ∧
    ∀ l c, 1 ≤ l → l ≤ starts.length → 1 ≤ c → starts.getD (l - 1) 0 + (c - 1) = offset →
      '\n' ∉ slice tex (starts.getD (l - 1) 0) offset → (l, c) = lc := by
  intro lc starts
  have hle := lastLineStart_take_le tex offset
  have hst : starts.getD (lc.1 - 1) 0 = lastLineStart (tex.take offset) := by
    simp only [lc, starts, textLineCol, lineIdx, Nat.add_sub_cancel]
    exact starts_eq_lastLineStart tex offset
  have hc : lc.2 = offset - lastLineStart (tex.take offset) + 1 := by
    simp only [lc, textLineCol, colIdx_eq]
  refine ⟨by simp [lc, textLineCol], ?_, by simp [lc, textLineCol], ?_, ?_, ?_⟩
  · have := count_take_le tex offset
    simp only [lc, starts, textLineCol, lineIdx, starts_length]
    omega
  · rw [hst, hc]; omega
  · rw [hst]
    exact lastLineStart_no_nl (tex.take offset)
  · intro l c hl1 hl2 hc1 hsum hno
    have hk : (tex.take (starts.getD (l - 1) 0)).count '\n' = l - 1 := starts_count_take tex (l - 1) (by simp only [starts] at hl2; omega)
    have := count_take_eq_of_slice tex (starts.getD (l - 1) 0) offset (by omega) hno
    have hl : l = lc.1 := by
      simp only [lc, textLineCol, lineIdx]; omega
    subst hl
    rw [hst] at hsum
    refine Prod.ext rfl ?_
    simp only [hc]; omega

/-! ### (b) the formats describe the same place -/

theorem formats_agree (tex : Str) (offset length : Int) :
    let t := textReport tex offset
    let j := jsonPriv tex offset length
    j.fromy + 1 = t.1 ∧ j.fromx + 1 = t.2 ∧
    (j.toy + 1, j.tox) = textReport tex (offset + length - 1) ∧
    xmlReport tex false offset length = j ∧
    (xmlReport tex true offset length).fromy = j.fromy ∧ (xmlReport tex true offset length).toy = j.toy := by
  simp [textReport, jsonPriv, xmlReport]

/-- the HTML report (`Html.computeH`) and `map_match_position` + text / JSON / XML report under the
    same map: the highlight begins at the reported offset, its title names the reported line -/
theorem html_agrees (T : Tables) (tex : Str) (cm : List Int) (idx : Nat) (o l : Int) (h : HData) (r : Int × Int)
    (hh : computeH T tex cm idx o l = .ok h) (hm : mapMatch cm tex o (some (.int l)) = .ok r) :
    h.beg = r.1 ∧ (h.lin : Int) = (jsonPriv tex r.1 r.2).fromy ∧ (h.lin : Int) + 1 = (textReport tex r.1).1 := by
  unfold computeH at hh
  simp only at hh
  split at hh
  · cases hh
  · rename_i hrange
    split at hh
    · rename_i cb ce hcb hce
      split at hh
      · cases hh
      · simp only [SOut.ok.injEq] at hh
        subst hh
        simp only [Bool.or_eq_true, decide_eq_true_eq, not_or, Int.not_lt] at hrange
        have hb : min (max 0 o) ((cm.length : Int) - 1) = o := by omega
        simp only [mapMatch, Json.asInt, hb] at hm
        rw [pyGet_nonneg _ _ (by omega), hcb] at hm
        split at hm
        · rename_i cb' ce' h1 h2
          cases h1
          simp only [SOut.ok.injEq] at hm
          subst hm
          simp [jsonPriv, textReport, pyCountNl]
        · cases hm
    · cases hh

theorem correctMark_ne_one (off len : Int) (tex : Str) (h : len ≠ 1) : correctMarkMacroname off len tex = len := by
  unfold correctMarkMacroname
  split
  · rename_i hc
    simp only [Bool.and_eq_true, beq_iff_eq] at hc
    exact absurd hc.1.1.1 h
  · rfl

theorem correctMark_not_backslash (off : Int) (tex : Str) (h : 0 ≤ off → tex[off.toNat]? ≠ some '\\') :
    correctMarkMacroname off 1 tex = 1 := by
  unfold correctMarkMacroname
  split
  · rename_i hc
    simp only [Bool.and_eq_true, beq_iff_eq, decide_eq_true_eq] at hc
    exact absurd hc.2 (h hc.1.1.2)
  · rfl

/-- for a sure match of positive mapped length the highlight also ENDS where the JSON report says
    (`offset + length`, macro-name correction included) -/
theorem html_end_agrees (T : Tables) (tex : Str) (cm : List Int) (idx : Nat) (o l : Int) (h : HData) (r : Int × Int)
    (hh : computeH T tex cm idx o l = .ok h) (hm : mapMatch cm tex o (some (.int l)) = .ok r)
    (hsure : ∀ c ∈ cm, 0 ≤ c) (hl : 1 ≤ l) (hr : 1 ≤ r.2) :
    h.unsure = false ∧ (h.fin : Int) = r.1 + r.2 := by
  unfold computeH at hh
  simp only at hh
  split at hh
  · cases hh
  · rename_i hrange
    split at hh
    · rename_i cb ce hcb hce
      simp only [Bool.or_eq_true, decide_eq_true_eq, not_or, Int.not_lt] at hrange
      have hb : min (max 0 o) ((cm.length : Int) - 1) = o := by omega
      have he : min (max 0 (o + l - 1)) ((cm.length : Int) - 1) = o + l - 1 := by omega
      have hi : (max o (o + max 1 l - 1)).toNat = (o + l - 1).toNat := by congr 1; omega
      rw [hi] at hce
      simp only [mapMatch, Json.asInt, hb, he] at hm
      rw [pyGet_nonneg _ _ (by omega), pyGet_nonneg _ _ (by omega), hcb, hce] at hm
      simp only [SOut.ok.injEq] at hm
      subst hm
      simp only at hr
      have hcb0 := hsure cb (List.mem_of_getElem? hcb)
      have hce0 := hsure ce (List.mem_of_getElem? hce)
      have hu : (decide (cb < 0) || decide (ce < 0)) = false := by simp; omega
      rw [iabs_pos cb hcb0, iabs_pos ce hce0] at hr hh ⊢
      have hge : cb ≤ ce := by
        by_cases h1 : ce - cb + 1 = 1
        · omega
        · rw [correctMark_ne_one _ _ _ h1] at hr; omega
      have hle : (false || decide (ce ≤ cb - 1)) = false := by simp; omega
      simp only [hu] at hh
      split at hh
      · cases hh
      · rename_i cOpt hc
        simp only [SOut.ok.injEq] at hh
        subst hh
        refine ⟨rfl, ?_⟩
        simp only
        simp only [hle, Bool.false_eq_true, if_false] at hc ⊢
        by_cases h1 : ce = cb
        · subst h1
          have h2 : (ce == ce - 1 + 1) = true := by simp
          have h3 : ce - ce + 1 = 1 := by omega
          simp only [h2, if_true] at hc ⊢
          rw [h3]
          cases hp : pyIndex tex (ce - 1) with
          | none => exact absurd hp (by intro h; exact hc (by rw [h]))
          | some c =>
            simp only [hackEnd, h2, Bool.true_and, Bool.false_and, Bool.false_eq_true, if_false]
            have hpos := correctMark_pos (ce - 1) tex
            split
            · omega
            · rename_i hcc
              rw [correctMark_not_backslash]
              · omega
              · intro h0 hx
                simp only [pyIndex, h0, if_true, hx, Option.some.injEq] at hp
                subst hp
                simp at hcc
        · have h2 : (ce == cb - 1 + 1) = false := by simp; omega
          simp only [h2, Bool.false_eq_true, if_false]
          rw [correctMark_ne_one _ _ _ (by omega)]
          omega
    · cases hh

/-! ### (c) byte columns of `--output xml-b` -/

theorem utf8Len_bounds (c : Char) : 1 ≤ utf8Len c ∧ utf8Len c ≤ 4 ∧ (utf8Len c = 1 ↔ c.toNat < 128) := by
  unfold utf8Len
  simp only
  split
  · omega
  · split
    · omega
    · split <;> omega

theorem utf8Size_cons (c : Char) (s : Str) : utf8Size (c :: s) = utf8Len c + utf8Size s := by
  simp [utf8Size]

theorem utf8Size_bounds (s : Str) :
    s.length ≤ utf8Size s ∧ utf8Size s ≤ 4 * s.length ∧ (utf8Size s = s.length ↔ ∀ c ∈ s, c.toNat < 128) := by
  induction s with
  | nil => simp [utf8Size]
  | cons c s ih =>
    have ⟨h1, h2, h3⟩ := utf8Len_bounds c
    obtain ⟨i1, i2, i3⟩ := ih
    rw [utf8Size_cons]
    refine ⟨by simp only [List.length_cons]; omega, by simp only [List.length_cons]; omega, ?_⟩
    simp only [List.length_cons, List.mem_cons, forall_eq_or_imp]
    constructor
    · intro h
      have ha : utf8Len c = 1 := by omega
      have hb : utf8Size s = s.length := by omega
      exact ⟨h3.mp ha, i3.mp hb⟩
    · intro ⟨ha, hb⟩
      have := h3.mpr ha
      have := i3.mpr hb
      omega

theorem utf8Size_append (a b : Str) : utf8Size (a ++ b) = utf8Size a + utf8Size b := by
  simp [utf8Size]

theorem sliceE_nat (tex : Str) (a b : Nat) : sliceE tex a (b : Int) = slice tex a b := by
  simp [sliceE, slice, pyEnd_nat]

/-- the byte columns are the UTF-8 lengths of the slices whose character lengths are the character
    columns: begin of the match at `b ≤ len(tex)` -/
theorem xmlb_from (tex : Str) (b : Nat) (len : Int) (hb : b ≤ tex.length) :
    let s := slice tex (lastLineStart (tex.take b)) b
    (xmlReport tex true b len).fromx = utf8Size s ∧
    (xmlReport tex false b len).fromx = s.length ∧
    (xmlReport tex false b len).fromx ≤ (xmlReport tex true b len).fromx ∧
    (xmlReport tex true b len).fromx ≤ 4 * (xmlReport tex false b len).fromx ∧
    ((xmlReport tex true b len).fromx = (xmlReport tex false b len).fromx ↔ ∀ c ∈ s, c.toNat < 128) := by
  intro s
  have hle := lastLineStart_take_le tex b
  have hlen : s.length = b - lastLineStart (tex.take b) := by
    simp only [s, slice, List.length_drop, List.length_take]; omega
  have ⟨h1, h2, h3⟩ := utf8Size_bounds s
  have e1 : (xmlReport tex true b len).fromx = utf8Size s := by
    simp only [xmlReport, if_true, pyNl_nat, sliceE_nat, s]
  have e2 : (xmlReport tex false b len).fromx = s.length := by
    simp only [xmlReport, pyNl_nat, hlen]; simp; omega
  rw [e1, e2]
  refine ⟨rfl, rfl, by omega, by omega, ?_⟩
  rw [← h3]; omega

/-- the same for the end of the match: last character at `e < len(tex)` -/
theorem xmlb_to (tex : Str) (b len : Int) (e : Nat) (he : b + len - 1 = e) (hlt : e < tex.length) :
    let s := slice tex (lastLineStart (tex.take e)) (e + 1)
    (xmlReport tex true b len).tox = utf8Size s ∧
    (xmlReport tex false b len).tox = s.length ∧
    (xmlReport tex false b len).tox ≤ (xmlReport tex true b len).tox ∧
    (xmlReport tex true b len).tox ≤ 4 * (xmlReport tex false b len).tox ∧
    ((xmlReport tex true b len).tox = (xmlReport tex false b len).tox ↔ ∀ c ∈ s, c.toNat < 128) := by
  intro s
  have hle := lastLineStart_take_le tex e
  have hlen : s.length = e + 1 - lastLineStart (tex.take e) := by
    simp only [s, slice, List.length_drop, List.length_take]; omega
  have ⟨h1, h2, h3⟩ := utf8Size_bounds s
  have e1 : (xmlReport tex true b len).tox = utf8Size s := by
    have : ((e : Int) + 1) = ((e + 1 : Nat) : Int) := by omega
    simp only [xmlReport, if_true, he, pyNl_nat, this, sliceE_nat, s]
  have e2 : (xmlReport tex false b len).tox = s.length := by
    simp only [xmlReport, he, pyNl_nat, hlen]; simp; omega
  rw [e1, e2]
  refine ⟨rfl, rfl, by omega, by omega, ?_⟩
  rw [← h3]; omega

/-! ### (d) every reported location lies inside the file -/

/-- the line (without its line break) that begins at `n0` -/
def lineAt (s : Str) (n0 : Nat) : Str := (s.drop n0).takeWhile (· != '\n')

/-- a 1-based (line, column) names a place of the file: an existing line, and a column on it or
    directly behind its last character (the place of its line break) -/
def InFileLC (tex : Str) (lin col : Int) : Prop :=
  1 ≤ lin ∧ lin ≤ (getLineStarts tex).length ∧ 1 ≤ col ∧
  col - 1 ≤ (lineAt tex ((getLineStarts tex).getD (lin - 1).toNat 0)).length

/-- a slice without line break that begins at `a` is a prefix of the line that begins at `a` -/
theorem slice_prefix_line (tex : Str) (a b : Nat) (hab : a ≤ b) (h : '\n' ∉ slice tex a b) :
    lineAt tex a = slice tex a b ++ lineAt tex b := by
  unfold lineAt
  rw [← slice_append_drop tex a b hab, List.takeWhile_append_of_pos]
  intro c hc
  simp only [bne_iff_ne, ne_eq]
  intro hcn; subst hcn; exact h hc

/-- one more character: line count and line start -/
theorem step_facts (tex : Str) (k : Nat) (c : Char) (hc : tex[k]? = some c) :
    (tex.take (k + 1)).count '\n' = (tex.take k).count '\n' + (if c = '\n' then 1 else 0) ∧
    lastLineStart (tex.take (k + 1)) = if c = '\n' then k + 1 else lastLineStart (tex.take k) := by
  have hk : k < tex.length := by
    rcases Nat.lt_or_ge k tex.length with h | h
    · exact h
    · rw [List.getElem?_eq_none h] at hc; cases hc
  rw [List.take_add_one, hc]
  simp only [Option.toList_some]
  rw [lastLineStart_snoc, List.count_append]
  have : (tex.take k).length = k := by simp only [List.length_take]; omega
  rw [this]
  refine ⟨?_, rfl⟩
  by_cases h : c = '\n' <;> simp [h]

/-- the place the text report names for an offset inside the text is a place of the file, and it
    is the place of that very character -/
theorem located_in_file (tex : Str) (p : Nat) (hp : p < tex.length) :
    let lc := textLineCol tex p
    InFileLC tex lc.1 lc.2 ∧
    (EndsNl tex → lc.1 ≤ tex.count '\n') ∧
    tex[(getLineStarts tex).getD (lc.1 - 1) 0 + (lc.2 - 1)]? = tex[p]? ∧
    ((lc.2 - 1 = (lineAt tex ((getLineStarts tex).getD (lc.1 - 1) 0)).length) ↔ tex[p]? = some '\n') := by
  intro lc
  have ⟨h1, h2, h3, h4, h5, _⟩ := linecol_roundtrip tex p
  have hlc : textLineCol tex p = lc := rfl
  simp only [hlc] at h1 h2 h3 h4 h5

  have hr := slice_prefix_line tex _ p (by omega) h5
  have hsl : (slice tex ((getLineStarts tex).getD (lc.1 - 1) 0) p).length = lc.2 - 1 := by
    simp only [slice, List.length_drop, List.length_take]; omega
  refine ⟨⟨by omega, by omega, by omega, ?_⟩, ?_, by rw [h4], ?_⟩
  · have : (lc.1 : Int) - 1 = ((lc.1 - 1 : Nat) : Int) := by omega
    rw [this, Int.toNat_natCast, hr, List.length_append, hsl]; omega
  · rintro ⟨t, rfl⟩
    simp only [lc, textLineCol, lineIdx]
    have : (List.take p (t ++ ['\n'])).count '\n' ≤ t.count '\n' := by
      have : List.take p (t ++ ['\n']) = List.take p t := by
        rw [List.take_append_of_le_length]; simp at hp; omega
      rw [this]; exact count_take_le t p
    simp only [List.count_append, List.count_singleton_self]; omega
  · rw [hr, List.length_append, hsl]
    have hd : tex.drop p = tex[p] :: tex.drop (p + 1) := List.drop_eq_getElem_cons hp
    rw [List.getElem?_eq_getElem hp]
    unfold lineAt
    rw [hd, List.takeWhile_cons]
    by_cases hc : tex[p] = '\n'
    · simp [hc]
    · have : (tex[p] != '\n') = true := by simpa using hc
      simp only [this, if_true, List.length_cons, Option.some.injEq, hc, iff_false]
      omega

/-- an offset of a character of the text -/
def InText (tex : Str) (p : Int) : Prop := 0 ≤ p ∧ p < tex.length

theorem textReport_in_file (tex : Str) (p : Int) (h : InText tex p) :
    InFileLC tex (textReport tex p).1 (textReport tex p).2 ∧
    (EndsNl tex → (textReport tex p).1 ≤ tex.count '\n') := by
  obtain ⟨h0, h1⟩ := h
  have hp : p = (p.toNat : Int) := by omega
  rw [hp, textReport_nat]
  have ⟨a, b, _, _⟩ := located_in_file tex p.toNat (by omega)
  exact ⟨a, fun hn => by have := b hn; simp only; omega⟩

/-- byte column of the begin: at most the UTF-8 length of its line -/
theorem xmlb_from_le (tex : Str) (b : Nat) (len : Int) :
    0 ≤ (xmlReport tex true b len).fromx ∧
    (xmlReport tex true b len).fromx ≤ utf8Size (lineAt tex ((getLineStarts tex).getD (lineIdx tex b) 0)) := by
  have hle := lastLineStart_take_le tex b
  have e1 : (xmlReport tex true b len).fromx = utf8Size (slice tex (lastLineStart (tex.take b)) b) := by
    simp only [xmlReport, if_true, pyNl_nat, sliceE_nat]
  have hs : (getLineStarts tex).getD (lineIdx tex b) 0 = lastLineStart (tex.take b) := starts_eq_lastLineStart tex b
  rw [e1, hs, slice_prefix_line tex _ b hle (lastLineStart_no_nl (tex.take b)), utf8Size_append]
  omega

/-- byte column of the end: at most the UTF-8 length of its line plus one (the line break) -/
theorem xmlb_to_le (tex : Str) (b len : Int) (e : Nat) (he : b + len - 1 = e) (hlt : e < tex.length) :
    0 ≤ (xmlReport tex true b len).tox ∧
    (xmlReport tex true b len).tox ≤ utf8Size (lineAt tex ((getLineStarts tex).getD (lineIdx tex e) 0)) + 1 := by
  have hle := lastLineStart_take_le tex e
  have e1 : (xmlReport tex true b len).tox = utf8Size (slice tex (lastLineStart (tex.take e)) (e + 1)) := by
    have : ((e : Int) + 1) = ((e + 1 : Nat) : Int) := by omega
    simp only [xmlReport, if_true, he, pyNl_nat, this, sliceE_nat]
  have hs : (getLineStarts tex).getD (lineIdx tex e) 0 = lastLineStart (tex.take e) := starts_eq_lastLineStart tex e
  have hsp : slice tex (lastLineStart (tex.take e)) (e + 1) = slice tex (lastLineStart (tex.take e)) e ++ [tex[e]] := by
    rw [← slice_append tex _ e (e + 1) hle (by omega), slice_one tex e tex[e] (List.getElem?_eq_getElem hlt)]
  rw [e1, hs, hsp, utf8Size_append, slice_prefix_line tex _ e hle (lastLineStart_no_nl (tex.take e)), utf8Size_append]
  have hd : tex.drop e = tex[e] :: tex.drop (e + 1) := List.drop_eq_getElem_cons hlt
  by_cases hc : tex[e] = '\n'
  · rw [hc]; simp [utf8Size, utf8Len]; omega
  · have : (tex[e] != '\n') = true := by simpa using hc
    have h2 : lineAt tex e = tex[e] :: lineAt tex (e + 1) := by
      unfold lineAt; rw [hd, List.takeWhile_cons]; simp [this]
    rw [h2, utf8Size_cons]
    simp only [utf8Size, List.map_cons, List.map_nil, List.sum_cons, List.sum_nil]
    omega

/-- **(d)** a match whose first and last character are characters of the text is reported, in
    every format, at places of the file -/
theorem report_in_file (tex : Str) (offset length : Int) (h0 : InText tex offset) (he : InText tex (offset + length - 1)) :
    let L := locate tex offset length
    let starts := getLineStarts tex
    InFileLC tex L.lin L.col ∧
    InFileLC tex (L.json.fromy + 1) (L.json.fromx + 1) ∧ InFileLC tex (L.json.toy + 1) L.json.tox ∧
    L.xml = L.json ∧ L.xmlb.fromy = L.json.fromy ∧ L.xmlb.toy = L.json.toy ∧
    0 ≤ L.xmlb.fromx ∧ L.xmlb.fromx ≤ utf8Size (lineAt tex (starts.getD L.json.fromy.toNat 0)) ∧
    0 ≤ L.xmlb.tox ∧ L.xmlb.tox ≤ utf8Size (lineAt tex (starts.getD L.json.toy.toNat 0)) + 1 ∧
    (EndsNl tex → L.lin ≤ tex.count '\n' ∧ L.json.fromy + 1 ≤ tex.count '\n' ∧ L.json.toy + 1 ≤ tex.count '\n') := by
  intro L starts
  have ⟨a1, a2⟩ := textReport_in_file tex offset h0
  have ⟨b1, b2⟩ := textReport_in_file tex (offset + length - 1) he
  have ⟨f1, f2, f3, f4, f5, f6⟩ := formats_agree tex offset length

  obtain ⟨n, hn⟩ : ∃ n : Nat, offset = n := ⟨offset.toNat, by have := h0.1; omega⟩
  obtain ⟨m, hm⟩ : ∃ m : Nat, offset + length - 1 = m := ⟨(offset + length - 1).toNat, by have := he.1; omega⟩
  have g1 := xmlb_from_le tex n length
  have g2 := xmlb_to_le tex offset length m hm (by have := he.2; omega)
  rw [← hn] at g1
  have hy1 : L.json.fromy.toNat = lineIdx tex n := by
    simp only [L, locate, jsonPriv]; rw [hn, pyCountNl_nat]; simp
  have hy2 : L.json.toy.toNat = lineIdx tex m := by
    simp only [L, locate, jsonPriv]; rw [hm, pyCountNl_nat]; simp
  simp only [starts, hy1, hy2]
  refine ⟨a1, ?_, ?_, f4, f5, f6, g1.1, g1.2, g2.1, g2.2, ?_⟩
  · simp only [L, locate]; rw [f1, f2]; exact a1
  · simp only [L, locate]
    have : (jsonPriv tex offset length).tox = (textReport tex (offset + length - 1)).2 := by rw [← f3]
    have h2 : (jsonPriv tex offset length).toy + 1 = (textReport tex (offset + length - 1)).1 := by rw [← f3]
    rw [this, h2]; exact b1
  · intro hn
    have h2 : (jsonPriv tex offset length).toy + 1 = (textReport tex (offset + length - 1)).1 := by rw [← f3]
    simp only [L, locate]
    rw [f1, h2]
    exact ⟨a2 hn, a2 hn, b2 hn⟩

theorem pyGet_mem (xs : List Int) (i c : Int) (h : pyGet xs i = some c) : c ∈ xs := by
  unfold pyGet at h
  split at h
  · exact List.mem_of_getElem? h
  · split at h
    · exact List.mem_of_getElem? h
    · simp at h

theorem correctMark_ge (off len : Int) (tex : Str) : len ≤ correctMarkMacroname off len tex ∨ 1 ≤ correctMarkMacroname off len tex := by
  unfold correctMarkMacroname
  split
  · split
    · rename_i n hn
      right; have := macroNameLen_pos _ _ hn; omega
    · left; omega
  · left; omega

/-- with a C01 map also the LAST character of the mapped match is a character of the text, whatever
    offset and length the proofreader sent (zero and negative lengths included) -/
theorem mapMatch_end_in_file (cm : List Int) (latex : Str) (offset len : Int) (r : Int × Int)
    (hcm : ∀ p ∈ cm, 1 ≤ iabs p ∧ iabs p ≤ latex.length)
    (h : mapMatch cm latex offset (some (.int len)) = .ok r) :
    InText latex r.1 ∧ InText latex (r.1 + r.2 - 1) := by
  have ⟨a, b, c⟩ := mapMatch_in_file cm latex offset len r hcm h
  refine ⟨⟨a, b⟩, ?_, by omega⟩
  simp only [mapMatch, Json.asInt] at h
  split at h
  · rename_i cb ce hb he
    simp only [SOut.ok.injEq] at h
    subst h
    have h1 := hcm cb (pyGet_mem _ _ _ hb)
    have h2 := hcm ce (pyGet_mem _ _ _ he)
    simp only
    rcases correctMark_ge (iabs cb - 1) (iabs ce - iabs cb + 1) latex with g | g <;> omega
  · simp at h

/-- **(d), composed**: whatever the proofreader answers (any offset, any integer length), with a
    C01 map every location of every report lies inside the file -/
theorem mapped_report_in_file (cm : List Int) (tex : Str) (offset len : Int) (L : Located)
    (hcm : ∀ p ∈ cm, 1 ≤ iabs p ∧ iabs p ≤ tex.length)
    (h : reportAll cm tex offset (some (.int len)) = .ok L) :
    InText tex L.offset ∧ InText tex (L.offset + L.length - 1) ∧ L = locate tex L.offset L.length := by
  unfold reportAll at h
  split at h
  · rename_i off l hm
    simp only [SOut.ok.injEq] at h
    subst h
    have := mapMatch_end_in_file cm tex offset len _ hcm hm
    exact ⟨this.1, this.2, rfl⟩
  · cases h
  · cases h

/-- a zero-length match at plain offset `o ≥ 1`: the mapped length is `|cm[o-1]| - |cm[o]| + 1`:
    `0` if the two characters are neighbours in the LaTeX text, NEGATIVE if markup was removed
    between them — the reported end then lies in front of the reported begin -/
theorem mapMatch_zero_length (cm : List Int) (tex : Str) (o : Nat) (cp cb : Int) (ho : 1 ≤ o)
    (h1 : cm[o - 1]? = some cp) (h2 : cm[o]? = some cb) :
    mapMatch cm tex o (some (.int 0)) =
      .ok (iabs cb - 1, correctMarkMacroname (iabs cb - 1) (iabs cp - iabs cb + 1) tex) := by
  have hlt : o < cm.length := by
    rcases Nat.lt_or_ge o cm.length with h | h
    · exact h
    · rw [List.getElem?_eq_none h] at h2; cases h2
  have hb : min (max 0 (o : Int)) ((cm.length : Int) - 1) = (o : Int) := by omega
  have he : min (max 0 ((o : Int) + 0 - 1)) ((cm.length : Int) - 1) = ((o - 1 : Nat) : Int) := by omega
  simp only [mapMatch, Json.asInt, hb, he]
  rw [pyGet_nonneg _ _ (by omega), pyGet_nonneg _ _ (by omega)]
  simp only [Int.toNat_natCast, h1, h2]

/-- where a zero-length match (mapped length 0, offset `b ≥ 1`) "ends": at the character in front
    of it — on the same line (`tox = fromx`), or, for a match at the begin of a line, behind the
    last character of the line above -/
theorem zero_length_report (tex : Str) (b : Nat) (hb : 1 ≤ b) (hlt : b ≤ tex.length) :
    let j := jsonPriv tex b 0
    (tex[b - 1]? ≠ some '\n' → j.toy = j.fromy ∧ j.tox = j.fromx) ∧
    (tex[b - 1]? = some '\n' → j.toy = j.fromy - 1 ∧ j.fromx = 0 ∧
       j.tox = (lineAt tex ((getLineStarts tex).getD j.toy.toNat 0)).length + 1) := by
  intro j
  have hk : b - 1 < tex.length := by omega
  have hc := List.getElem?_eq_getElem hk
  have ⟨s1, s2⟩ := step_facts tex (b - 1) tex[b - 1] hc
  have hb1 : b - 1 + 1 = b := by omega
  rw [hb1] at s1 s2
  have he : (b : Int) + 0 - 1 = ((b - 1 : Nat) : Int) := by omega
  have hle := lastLineStart_take_le tex (b - 1)
  have hj : j = { fromy := ((tex.take b).count '\n' : Nat), fromx := (b : Int) - (lastLineStart (tex.take b) : Nat),
                  toy := ((tex.take (b - 1)).count '\n' : Nat), tox := ((b - 1 : Nat) : Int) - (lastLineStart (tex.take (b - 1)) : Nat) + 1 } := by
    simp only [j, jsonPriv, he, pyCountNl_nat, pyNl_nat, lineIdx]
  rw [hj, hc]
  simp only [Option.some.injEq, ne_eq]
  constructor
  · intro hne
    simp only [hne, if_false, Nat.add_zero] at s1 s2
    rw [s1, s2]; omega
  · intro heq
    simp only [heq, if_true] at s1 s2
    rw [s1, s2]
    refine ⟨by omega, by omega, ?_⟩
    have ⟨_, _, _, h4⟩ := located_in_file tex (b - 1) hk
    rw [hc, heq] at h4
    have h5 := h4.mpr rfl
    simp only [textLineCol, Nat.add_sub_cancel, colIdx_eq, lineIdx] at h5
    simp only [Int.toNat_natCast]
    rw [← h5]; omega

/-- a zero-length match at offset 0 of a text of several lines would be reported OUTSIDE the file
    (Python's negative end index: line = last line, column negative) … -/
example : jsonPriv "a\nb\n".toList 0 0 = { fromy := 0, fromx := 0, toy := 1, tox := -2 } := by decide

/-- … but `map_match_position` never delivers it: at plain offset 0 the length becomes 1 -/
example : mapMatch [1, 2, 3, 4] "a\nb\n".toList 0 (some (.int 0)) = .ok (0, 1) := by decide

/-! ### (e) the `--nums` file -/

theorem natToStr_eq (n : Nat) : natToStr n = Nat.toDigits 10 n := by
  simp [natToStr, Nat.toString_eq_repr, Nat.toList_repr]

theorem natToStr_digits (n : Nat) : ∀ c ∈ natToStr n, c.isDigit = true := by
  intro c hc
  rw [natToStr_eq] at hc
  exact Nat.isDigit_of_mem_toDigits (by decide) (by decide) hc

theorem natToStr_ne_nil (n : Nat) : natToStr n ≠ [] := by
  rw [natToStr_eq]; exact Nat.toDigits_ne_nil

theorem natToStr_inj (a b : Nat) (h : natToStr a = natToStr b) : a = b := by
  rw [natToStr_eq, natToStr_eq] at h
  have := congrArg (fun l => Nat.ofDigitChars 10 l 0) h
  simpa [Nat.ofDigitChars_ten_toDigits] using this

theorem numLine_no_nl (n : Int) : '\n' ∉ numLine n ∧ numLine n ≠ [] := by
  unfold numLine
  refine ⟨?_, by simp [natToStr_ne_nil]⟩
  intro h
  rcases List.mem_append.mp h with h | h
  · have := natToStr_digits _ _ h
    revert this; decide
  · split at h <;> simp at h

theorem numLine_inj (a b : Int) (h : numLine a = numLine b) : a = b := by
  unfold numLine at h
  have plus_not : ∀ n, '+' ∉ natToStr n := by
    intro n hm
    have := natToStr_digits _ _ hm
    revert this; decide
  by_cases ha : a < 0 <;> by_cases hb : b < 0
  · simp only [ha, hb, if_true] at h
    have := natToStr_inj _ _ (List.append_cancel_right h)
    omega
  · simp only [ha, hb, if_true, if_false, List.append_nil] at h
    exact absurd (h ▸ List.mem_append_right _ (List.mem_singleton.mpr rfl)) (plus_not _)
  · simp only [ha, hb, if_true, if_false, List.append_nil] at h
    exact absurd (h ▸ List.mem_append_right _ (List.mem_singleton.mpr rfl)) (plus_not _)
  · simp only [ha, hb, if_false, List.append_nil] at h
    have := natToStr_inj _ _ h
    omega

theorem numsFile_count (nums : List Int) : (numsFile nums).count '\n' = nums.length := by
  unfold numsFile writeNums
  induction nums with
  | nil => simp
  | cons n ns ih =>
    simp only [List.map_cons, List.flatMap_cons, List.count_append, ih, List.length_cons]
    have := List.count_eq_zero.mpr (numLine_no_nl n).1
    simp [this]; omega

/-- **(e)** the `--nums` file: one line per number; every line is the decimal `|n|`, followed by
    `+` iff `n < 0`; a line holds no line break and is not empty (so the file has exactly
    `len(nums)` line breaks, each ending one line); different numbers give different lines -/
theorem nums_lines (nums : List Int) :
    (writeNums nums).length = nums.length ∧
    (∀ i : Nat, (writeNums nums)[i]? = (nums[i]?).map (fun (n : Int) => natToStr n.natAbs ++ (if n < 0 then ['+'] else []))) ∧
    (∀ l ∈ writeNums nums, '\n' ∉ l ∧ l ≠ []) ∧
    numsFile nums = (writeNums nums).flatMap (· ++ ['\n']) ∧
    (numsFile nums).count '\n' = nums.length ∧
    (∀ a b, numLine a = numLine b → a = b) := by
  refine ⟨by simp [writeNums], ?_, ?_, rfl, numsFile_count nums, numLine_inj⟩
  · intro i; simp only [writeNums, List.getElem?_map]; rfl
  · intro l hl
    simp only [writeNums, List.mem_map] at hl
    obtain ⟨n, _, rfl⟩ := hl
    exact numLine_no_nl n

/-- `write_output`: the text goes to the one file unchanged; if text and numbers have equal length
    (C01), the `--nums` file has exactly one line per character written -/
theorem writeOutput_lines (text : Str × List Int) (h : (textGetTxt text).length = (textGetNum text).length) :
    (writeOutput text).1 = textGetTxt text ∧
    (writeOutput text).2 = numsFile (textGetNum text) ∧
    (writeOutput text).2.count '\n' = (writeOutput text).1.length := by
  refine ⟨rfl, rfl, ?_⟩
  simp only [writeOutput, numsFile_count]; omega

/-! ### (f) `translate_numbers` -/

theorem idxOf_takeWhile (s : Str) :
    (match s.idxOf? '\n' with | some i => i | none => s.length) = (s.takeWhile (· != '\n')).length := by
  induction s with
  | nil => simp
  | cons c s ih =>
    rw [List.idxOf?_cons, List.takeWhile_cons]
    by_cases hc : c = '\n'
    · simp [hc]
    · have h1 : (c == '\n') = false := by simpa using hc
      have h2 : (c != '\n') = true := by simpa using hc
      simp only [h1, h2, Bool.false_eq_true, if_false, if_true, List.length_cons]
      rw [← ih]
      cases List.idxOf? '\n' s <;> simp

/-- the test "line is not that long" of `translate_numbers` -/
theorem tooLong_eq (s : Str) (col : Int) :
    (match s.idxOf? '\n' with
      | some i => decide (col > (i : Int))
      | none => decide (col > (s.length : Int))) = decide (col > ((s.takeWhile (· != '\n')).length : Int)) := by
  rw [← idxOf_takeWhile]
  cases List.idxOf? '\n' s <;> rfl

/-- the result of `translate_numbers`, as one case distinction -/
theorem translateNumbers_eq (tex plain : Str) (cm : List Int) (starts : List Nat) (lin col : Int) :
    translateNumbers tex plain cm starts lin col =
      if lin < 1 ∨ col < 1 ∨ lin > (starts.length : Int) then none else
      match starts[(lin - 1).toNat]? with
      | none => none
      | some n0 =>
        if col > ((lineAt plain n0).length : Int) then none else
        match cm[n0 + (col - 1).toNat]? with
        | none => none
        | some c =>
          if c.natAbs > tex.length then none else
          some { lin := lineIdx tex c.natAbs + 1, col := max 1 (colIdx tex c.natAbs), flag := decide (c < 0) } := by
  unfold translateNumbers
  by_cases h1 : lin < 1 ∨ col < 1
  · have : (decide (lin < 1) || decide (col < 1)) = true := by simpa using h1
    rw [if_pos this, if_pos (by rcases h1 with h | h <;> simp [h])]
  · have : ¬ ((decide (lin < 1) || decide (col < 1)) = true) := by simpa using h1
    rw [if_neg this]
    by_cases h2 : lin > (starts.length : Int)
    · rw [if_pos h2, if_pos (by simp [h2])]
    · rw [if_neg h2, if_neg (by simp only [not_or] at h1 ⊢; exact ⟨h1.1, h1.2, h2⟩)]
      cases hs : starts[(lin - 1).toNat]? with
      | none => rfl
      | some n0 =>
        have hlen := idxOf_takeWhile (plain.drop n0)
        have hfin : ∀ (b : Bool), (b = true ↔ col > ((lineAt plain n0).length : Int)) →
            (if b = true then none
             else if n0 + (col - 1).toNat ≥ cm.length then none
             else match cm[n0 + (col - 1).toNat]? with
               | none => none
               | some c =>
                 if c.natAbs > tex.length then none else
                 (some { lin := (tex.take c.natAbs).count '\n' + 1,
                         col := max 1 ((tex.take c.natAbs).length - lastLineStart (tex.take c.natAbs)),
                         flag := decide (c < 0) } : Option TNum)) =
            if col > ((lineAt plain n0).length : Int) then none else
            match cm[n0 + (col - 1).toNat]? with
              | none => none
              | some c =>
                if c.natAbs > tex.length then none else
                some { lin := lineIdx tex c.natAbs + 1, col := max 1 (colIdx tex c.natAbs), flag := decide (c < 0) } := by
          intro b hb
          by_cases hcol : col > ((lineAt plain n0).length : Int)
          · rw [if_pos (hb.mpr hcol), if_pos hcol]
          · rw [if_neg (fun h => hcol (hb.mp h)), if_neg hcol]
            split
            · rename_i hge
              rw [List.getElem?_eq_none (by omega)]
            · cases hc : cm[n0 + (col - 1).toNat]? with
              | none => rfl
              | some c =>
                simp only [lineIdx, colIdx_eq, List.length_take]
                split
                · rfl
                · rename_i hle
                  have : min c.natAbs tex.length = c.natAbs := by omega
                  rw [this]
        cases hi : List.idxOf? '\n' (List.drop n0 plain) with
        | none =>
          rw [hi] at hlen
          exact hfin _ (by rw [hi]; simp only [decide_eq_true_eq, lineAt]; simp only at hlen; rw [← hlen])
        | some k =>
          rw [hi] at hlen
          exact hfin _ (by rw [hi]; simp only [decide_eq_true_eq, lineAt]; simp only at hlen; rw [← hlen])

theorem takeWhile_take_all {α} (p : α → Bool) (l : List α) (k : Nat) (hk : k ≤ (l.takeWhile p).length) :
    ∀ x ∈ l.take k, p x = true := by
  induction l generalizing k with
  | nil => simp
  | cons a l ih =>
    cases k with
    | zero => simp
    | succ k =>
      rw [List.takeWhile_cons] at hk
      split at hk
      · rename_i ha
        simp only [List.length_cons] at hk
        intro x hx
        simp only [List.take_succ_cons, List.mem_cons] at hx
        rcases hx with rfl | hx
        · exact ha
        · exact ih k (by omega) x hx
      · simp at hk

/-- the place in the LaTeX text that `translate_numbers` reports for a map entry `n = |charmap[p]|`
    (1-based position of a character): the line and column of that character `n - 1` in the sense
    of `linecol_roundtrip` — except for a LINE BREAK of the LaTeX text, which is reported as the
    first column of the following line, and for the entry `0`, reported as `(1, 1)` -/
theorem translate_position (tex : Str) (n : Nat) (hn : n ≤ tex.length) :
    (n = 0 → (lineIdx tex n + 1, max 1 (colIdx tex n)) = (1, 1)) ∧
    (1 ≤ n → tex[n - 1]? ≠ some '\n' → (lineIdx tex n + 1, max 1 (colIdx tex n)) = textLineCol tex (n - 1)) ∧
    (1 ≤ n → tex[n - 1]? = some '\n' →
      (lineIdx tex n + 1, max 1 (colIdx tex n)) = ((textLineCol tex (n - 1)).1 + 1, 1)) := by
  refine ⟨?_, ?_, ?_⟩
  · rintro rfl; simp [lineIdx, colIdx_eq]
  · intro h1 hne
    have hk : n - 1 < tex.length := by omega
    have hc := List.getElem?_eq_getElem hk
    have ⟨s1, s2⟩ := step_facts tex (n - 1) tex[n - 1] hc
    have hb1 : n - 1 + 1 = n := by omega
    rw [hb1] at s1 s2
    rw [hc] at hne
    simp only [Option.some.injEq, ne_eq] at hne
    simp only [hne, if_false, Nat.add_zero] at s1 s2
    have hle := lastLineStart_take_le tex (n - 1)
    simp only [textLineCol, lineIdx, colIdx_eq, s1, s2]
    refine Prod.ext rfl ?_
    simp only; omega
  · intro h1 heq
    have hk : n - 1 < tex.length := by omega
    have hc := List.getElem?_eq_getElem hk
    have ⟨s1, s2⟩ := step_facts tex (n - 1) tex[n - 1] hc
    have hb1 : n - 1 + 1 = n := by omega
    rw [hb1] at s1 s2
    rw [hc] at heq
    simp only [Option.some.injEq] at heq
    simp only [heq, if_true] at s1 s2
    simp only [textLineCol, lineIdx, colIdx_eq, s1, s2]
    refine Prod.ext rfl ?_
    simp only; omega

/-- **(f)** whenever `translate_numbers` answers, the plain position it started from is
    `p = starts[lin-1] + col-1`, a character of the plain text on that very line (with
    `starts = get_line_starts(plain)`: THE character at line `lin`, column `col`), `p` lies
    inside the map, and the answer is computed from the entry `charmap[p]` alone: flag = the entry
    is negative, line / column = those of `translate_position` for `|charmap[p]|` -/
theorem translate_numbers_some (tex plain : Str) (cm : List Int) (starts : List Nat) (lin col : Int) (r : TNum)
    (h : translateNumbers tex plain cm starts lin col = some r) :
    1 ≤ lin ∧ lin ≤ starts.length ∧ 1 ≤ col ∧
    ∃ n0 c, starts[(lin - 1).toNat]? = some n0 ∧
      n0 + (col - 1).toNat < plain.length ∧
      '\n' ∉ slice plain n0 (n0 + (col - 1).toNat + 1) ∧
      (starts = getLineStarts plain → textLineCol plain (n0 + (col - 1).toNat) = (lin.toNat, col.toNat)) ∧
      cm[n0 + (col - 1).toNat]? = some c ∧ c.natAbs ≤ tex.length ∧ r.flag = decide (c < 0) ∧
      r.lin = lineIdx tex c.natAbs + 1 ∧ r.col = max 1 (colIdx tex c.natAbs) := by
  rw [translateNumbers_eq] at h
  split at h
  · cases h
  · rename_i h1
    simp only [not_or, Int.not_lt, gt_iff_lt] at h1
    obtain ⟨a1, a2, a3⟩ := h1
    refine ⟨a1, a3, a2, ?_⟩
    split at h
    · cases h
    · rename_i n0 hs
      split at h
      · cases h
      · rename_i hcol
        split at h
        · cases h
        · rename_i c hc
          split at h
          · cases h
          · rename_i hle
            simp only [Option.some.injEq] at h
            subst h
            have hk : (col - 1).toNat + 1 ≤ (lineAt plain n0).length := by omega
            have hall := takeWhile_take_all (· != '\n') (plain.drop n0) _ hk
            have hlen : (lineAt plain n0).length ≤ plain.length - n0 := by
              have := length_takeWhile_le' (· != '\n') (plain.drop n0)
              simpa [lineAt] using this
            have hno : '\n' ∉ slice plain n0 (n0 + (col - 1).toNat + 1) := by
              intro hm
              have : slice plain n0 (n0 + (col - 1).toNat + 1) = (plain.drop n0).take ((col - 1).toNat + 1) := by
                unfold slice
                rw [List.take_drop]
                congr 2
              rw [this] at hm
              have := hall _ hm
              simp at this
            refine ⟨n0, c, hs, by omega, hno, ?_, hc, by omega, rfl, rfl, rfl⟩
            intro hst
            subst hst
            have ⟨_, _, _, _, _, huniq⟩ := linecol_roundtrip plain (n0 + (col - 1).toNat)
            have hidx : (lin - 1).toNat = lin.toNat - 1 := by omega
            have hn0 : (getLineStarts plain).getD (lin.toNat - 1) 0 = n0 := by
              rw [List.getD_eq_getElem?_getD, ← hidx, hs]; rfl
            refine (huniq lin.toNat col.toNat (by omega) (by omega) (by omega) ?_ ?_).symm
            · rw [hn0]; omega
            · rw [hn0]
              intro hm
              apply hno
              have hsp := slice_append plain n0 (n0 + (col - 1).toNat) (n0 + (col - 1).toNat + 1) (by omega) (by omega)
              rw [← hsp]
              exact List.mem_append_left _ hm

/-- `translate_numbers` returns `None` exactly in the documented cases: line or column below 1;
    line number behind the last line; the line is not that long; the position is not covered by
    the map; the map entry points behind the LaTeX text -/
theorem translate_numbers_none (tex plain : Str) (cm : List Int) (starts : List Nat) (lin col : Int) :
    translateNumbers tex plain cm starts lin col = none ↔
      lin < 1 ∨ col < 1 ∨ lin > (starts.length : Int) ∨
      ∃ n0, starts[(lin - 1).toNat]? = some n0 ∧
        (col > ((lineAt plain n0).length : Int) ∨ n0 + (col - 1).toNat ≥ cm.length ∨
         ∃ c, cm[n0 + (col - 1).toNat]? = some c ∧ c.natAbs > tex.length) := by
  rw [translateNumbers_eq]
  by_cases h1 : lin < 1 ∨ col < 1 ∨ lin > (starts.length : Int)
  · rw [if_pos h1]
    simp only [true_iff]
    rcases h1 with h | h | h
    · exact Or.inl h
    · exact Or.inr (Or.inl h)
    · exact Or.inr (Or.inr (Or.inl h))
  · rw [if_neg h1]
    simp only [not_or, Int.not_lt, gt_iff_lt] at h1
    have hlt : (lin - 1).toNat < starts.length := by omega
    have hs := List.getElem?_eq_getElem hlt
    rw [hs]
    simp only
    constructor
    · intro h
      refine Or.inr (Or.inr (Or.inr ⟨_, rfl, ?_⟩))
      split at h
      · left; assumption
      · right
        cases hc : cm[starts[(lin - 1).toNat] + (col - 1).toNat]? with
        | none =>
          left
          exact List.getElem?_eq_none_iff.mp hc
        | some c =>
          right
          rw [hc] at h
          simp only at h
          split at h
          · exact ⟨c, rfl, by assumption⟩
          · cases h
    · intro h
      rcases h with h | h | h | ⟨n0, hn0, h⟩
      · omega
      · omega
      · omega
      · simp only [Option.some.injEq] at hn0
        subst hn0
        rcases h with h | h | ⟨c, hc, h⟩
        · rw [if_pos h]
        · split
          · rfl
          · rw [List.getElem?_eq_none h]
        · split
          · rfl
          · rw [hc]; simp only; rw [if_pos h]

end Reports
end Yalafi
