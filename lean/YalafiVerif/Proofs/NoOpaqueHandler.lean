/-
  Proofs/NoOpaqueHandler.lean — step lemma of the NoOpaque bundle for `callHandler`: one case per handler.
  The only handler that ends in the marker `opaque handler (not modelled)` is `.opaqueH _`, excluded by the
  precondition `opq h = false`; the handlers that create definitions (`\newcommand`, `\newtheorem`, `h_read_sed`)
  create them with handler `.none`, `.theorem _`, `.cref ..`, `.crefrange ..`, never `.opaqueH _`.
-/
import YalafiVerif.Proofs.NoOpaqueDefs
set_option linter.unusedVariables false
namespace Yalafi
namespace NoOpaque
open M

variable {T : PTables}

theorem handler_step (hT : TOk T) (fuel : Nat) (IH : AllGood T fuel) :
    ∀ h buf mac args pos, opq h = false → Good (callHandler T (fuel + 1) h buf mac args pos) := by
  intro h buf mac args pos hq
  cases h with
  | opaqueH name => cases hq
  | newcommand =>
    simp only [callHandler]
    good IH
    all_goals
      refine ⟨?_⟩
      intro s hs
      exact StOk_withMacros hs (AOk_setMacro hs.macros ⟨rfl, rfl⟩)
  | newtheorem =>
    simp only [callHandler]
    good IH
    all_goals
      refine ⟨?_⟩
      intro s hs
      exact StOk_withEnvs hs (AOk_setMacro hs.envs ⟨rfl, rfl⟩)
  | loadModule cls =>
    simp only [callHandler]
    good IH
    all_goals
      refine Good_foldlM _ ?_ _ _
      intro acc p
      good IH
      exact ⟨findModule_ModOk hT cls p⟩
  | _ =>
    simp only [callHandler]
    good IH

end NoOpaque
end Yalafi
