/-
  Proofs/PlainMix2.lean — token level of the ENLARGED union grammar (the seven kinds of
  Proofs/PlainMix.lean plus braces / groups, `\ref` / `\cite`, footnotes, headings; header with the
  end-to-end statement and all side conditions: Proofs/PlainMix2E2E.lean).

  `Piece`, `flat`, `PiecesOk`    a token buffer that is the scan of a mixed document: plain tokens,
                                 special tokens, braces, undeclared control words with the tokens
                                 `skip_space` drops behind them, vanishing calls, comments, `\verb`,
                                 inline formulas, references, citations (with / without note),
                                 footnotes, headings
  `outP`, `flowsOf`, `cost`, `names`, `nMath`
                                 what the loop emits into the main flow, the detached flows, its
                                 iterations, the unknown names, the number of formulas
  `endSt`                        the state behind the loop: `unknowns`, `rots`, `extracted`,
                                 `foreign` change, nothing else
  `seq_mix2`                     ONE loop lemma by induction over the (number of) pieces; it
                                 dispatches to the step lemmas of the single-construct files:
                                 `seq_plain_step`, `seq_special_step`, `seq_brace_step`,
                                 `seq_cw_step`, `PlainVanish.seq_van_step`, `Comment.seq_com_step`,
                                 `seq_verb_step`, `PlainMath.seq_dollar_step` / `inlineMath_simple`,
                                 `PlainRef.seq_ref_step` / `seq_cite_step` / `seq_citeN_step`,
                                 `PlainFootnote.seq_foot_step`, `PlainHeading.seq_head_step`
-/
import YalafiVerif.Proofs.PlainMixRead
import YalafiVerif.Proofs.PlainGroup
import YalafiVerif.Proofs.PlainRef
import YalafiVerif.Proofs.PlainFootnote
import YalafiVerif.Proofs.PlainHeading
namespace Yalafi
namespace PlainMix2

open M
open PlainMacro
open PlainMix (droppable dropWhile_prefix skip_droppable MathSt)
open PlainFootnote (CopyTok FnTok BraceTok FlowSafe)

/-! ### the token buffers -/

/-- the pieces of a token buffer -/
inductive Piece where
  | tok (t : Tok)
  | spc (t : Tok)
  /-- a brace token: an Action token -/
  | br (t : Tok)
  | cw (p : Nat) (name : Str) (skipped : List Tok)
  | van (p q1 q2 : Nat) (name : Str) (key repl : List Tok)
  | com (t : Tok)
  | verb (t : Tok)
  | math (d1 : Tok) (body : List Tok) (d2 : Tok)
  /-- a reference `\name { key }` with placeholder tokens `repl` -/
  | ref (p q1 q2 : Nat) (name : Str) (key repl : List Tok)
  /-- a citation `\name { key }` -/
  | cite (p q1 q2 : Nat) (name : Str) (key : List Tok)
  /-- a citation with a note `\name [ note ] { key }` -/
  | citeN (p b1 b2 q1 q2 : Nat) (name : Str) (note key : List Tok)
  /-- `\footnote { body }` -/
  | foot (fn lb : Tok) (body : List Tok) (rb : Tok)
  /-- a heading `\name { title }` -/
  | head (hd lb : Tok) (body : List Tok) (rb : Tok)

def Piece.toks : Piece → List Tok
  | .tok t => [t]
  | .spc t => [t]
  | .br t => [t]
  | .cw p name sk => cwTok p name :: sk
  | .van p q1 q2 name key _ => cwTok p name :: lbr q1 :: (key ++ [rbr q2])
  | .com t => [t]
  | .verb t => [t]
  | .math d1 b d2 => d1 :: (b ++ [d2])
  | .ref p q1 q2 name key _ => cwTok p name :: lbr q1 :: (key ++ [rbr q2])
  | .cite p q1 q2 name key => cwTok p name :: lbr q1 :: (key ++ [rbr q2])
  | .citeN p b1 b2 q1 q2 name note key =>
    cwTok p name :: PlainRef.chTok b1 '[' ::
      (note ++ PlainRef.chTok b2 ']' :: lbr q1 :: (key ++ [rbr q2]))
  | .foot fn lb b rb => fn :: lb :: (b ++ [rb])
  | .head hd lb b rb => hd :: lb :: (b ++ [rb])

/-- the token buffer -/
def flat : List Piece → List Tok
  | [] => []
  | p :: ps => p.toks ++ flat ps

/-- the pieces without the comments in front: `skip_space` behind a control word also drops
    comment tokens -/
def dropComs : List Piece → List Piece
  | .com _ :: rest => dropComs rest
  | ps => ps

def PiecesOk (T : PTables) (st : PState) : List Piece → Prop
  | [] => True
  | .tok t :: rest => PlainTok t ∧ PassTok T st t (flat rest) ∧ PiecesOk T st rest
  | .spc t :: rest => SpecialTok T.toTables t ∧ PiecesOk T st rest
  | .br t :: rest => PlainGroup.BrTok t ∧ PiecesOk T st rest
  | .cw p name sk :: rest =>
    CwTokOk st (cwTok p name) ∧ (∀ t ∈ sk, droppable t = true ∧ t.kind ≠ .comment) ∧
    (∀ t ts, flat (dropComs rest) = t :: ts → droppable t = false) ∧ PiecesOk T st rest
  | .van _ _ _ name key repl :: rest =>
    PlainVanish.VanName st name ∧ PlainVanish.replOf st name = repl ∧
    (∀ t ∈ key, NoBrace t ∧ t.kind ≠ .comment) ∧ PiecesOk T st rest
  | .com t :: rest => Comment.ComTok T st t ∧ PiecesOk T st rest
  | .verb t :: rest => t.kind = .verb false ∧ PiecesOk T st rest
  | .math d1 b d2 :: rest =>
    PlainMath.DollarTok d1 ∧ PlainMath.mathToks b ≠ [] ∧ (∀ t ∈ b, PlainMath.BodyItem T t) ∧
    PlainMath.DollarTok d2 ∧ PiecesOk T st rest
  | .ref _ _ _ name key repl :: rest =>
    PlainRef.RefName T st name ∧ PlainRef.replOf st name = repl ∧ PlainRef.KeyToks key ∧
    PiecesOk T st rest
  | .cite _ _ _ name key :: rest =>
    PlainRef.CiteName st name ∧ PlainRef.KeyToks key ∧ PlainRef.StateFacts T st ∧ PiecesOk T st rest
  | .citeN _ _ _ _ _ name note key :: rest =>
    PlainRef.CiteName st name ∧ note ≠ [] ∧ (∀ t ∈ note, CopyTok T st t ∧ t.txt ≠ [']']) ∧
    PlainRef.KeyToks key ∧ PlainRef.StateFacts T st ∧ PiecesOk T st rest
  | .foot fn lb b rb :: rest =>
    FnTok fn ∧ BraceTok '{' lb ∧ BraceTok '}' rb ∧ b ≠ [] ∧ (∀ t ∈ b, CopyTok T st t) ∧
    FlowSafe b ∧ PlainFootnote.StateFacts T st ∧ PiecesOk T st rest
  | .head hd lb b rb :: rest =>
    PlainHeading.HdTok st hd ∧ BraceTok '{' lb ∧ BraceTok '}' rb ∧ b ≠ [] ∧
    (∀ t ∈ b, CopyTok T st t) ∧ PlainHeading.StateFacts T st ∧ PiecesOk T st rest

/-- what `expandSequence` emits into the main flow for the pieces before the blank-line removal,
    `l` being the stored collection of inline placeholders -/
def outP (T : PTables) : List Str → List Piece → List Tok
  | _, [] => []
  | l, .tok t :: rest => t :: outP T l rest
  | l, .spc t :: rest => expTok T.toTables t ++ outP T l rest
  | l, .br t :: rest => mkAction t.pos :: outP T l rest
  | l, .cw p _ _ :: rest => mkAction p :: outP T l rest
  | l, .van p _ _ _ _ repl :: rest => mkAction p :: (repl.map (restamp p) ++ outP T l rest)
  | l, .com _ :: rest => outP T l rest
  | l, .verb t :: rest => expTokV t ++ outP T l rest
  | l, .math d1 b _ :: rest =>
    PlainMath.formulaOut T ((rotL l).headD []) d1.pos (PlainMath.firstPos (PlainMath.mathToks b))
        (PlainMath.bodyTxt (PlainMath.mathToks b))
      ++ outP T (rotL l) rest
  | l, .ref p _ _ _ _ repl :: rest => mkAction p :: (repl.map (restamp p) ++ outP T l rest)
  | l, .cite p _ _ _ _ :: rest => mkAction p :: (PlainRef.citeToks p ++ outP T l rest)
  | l, .citeN p _ _ _ _ _ note _ :: rest => mkAction p :: (PlainRef.citeNToks p note ++ outP T l rest)
  | l, .foot fn _ _ _ :: rest => mkAction fn.pos :: outP T l rest
  | l, .head hd _ b _ :: rest => PlainHeading.headOut T hd b ++ outP T l rest

/-- the detached flows (footnote bodies), in order -/
def flowsOf : List Piece → List (List Tok)
  | [] => []
  | .foot _ _ b _ :: rest => b :: flowsOf rest
  | _ :: rest => flowsOf rest

/-- iterations of `expandSequence` -/
def cost : List Piece → Nat
  | [] => 0
  | .tok _ :: rest => 1 + cost rest
  | .spc _ :: rest => 1 + cost rest
  | .br _ :: rest => 1 + cost rest
  | .cw _ _ _ :: rest => 2 + cost rest
  | .van _ _ _ _ _ repl :: rest => 2 + repl.length + cost rest
  | .com _ :: rest => 1 + cost rest
  | .verb _ :: rest => 1 + cost rest
  | .math _ b _ :: rest => b.length + 2 + cost rest
  | .ref _ _ _ _ _ repl :: rest => 2 + repl.length + cost rest
  | .cite _ _ _ _ _ :: rest => 4 + cost rest
  | .citeN _ _ _ _ _ _ note _ :: rest => 6 + note.length + cost rest
  | .foot _ _ b _ :: rest => b.length + 6 + cost rest
  | .head _ _ b _ :: rest => b.length + 3 + cost rest

/-- the number of formulas -/
def nMath : List Piece → Nat
  | [] => 0
  | .math .. :: rest => nMath rest + 1
  | _ :: rest => nMath rest

/-- the names of the undeclared control words, with backslash, in order of occurrence -/
def names : List Piece → List Str
  | [] => []
  | .cw _ name _ :: rest => ('\\' :: name) :: names rest
  | _ :: rest => names rest

theorem dropComs_length : ∀ ps : List Piece, (dropComs ps).length ≤ ps.length
  | [] => Nat.le_refl _
  | .com _ :: rest => by
    have := dropComs_length rest
    simp only [dropComs, List.length_cons]; omega
  | .tok _ :: _ => Nat.le_refl _
  | .spc _ :: _ => Nat.le_refl _
  | .br _ :: _ => Nat.le_refl _
  | .cw .. :: _ => Nat.le_refl _
  | .van .. :: _ => Nat.le_refl _
  | .verb _ :: _ => Nat.le_refl _
  | .math .. :: _ => Nat.le_refl _
  | .ref .. :: _ => Nat.le_refl _
  | .cite .. :: _ => Nat.le_refl _
  | .citeN .. :: _ => Nat.le_refl _
  | .foot .. :: _ => Nat.le_refl _
  | .head .. :: _ => Nat.le_refl _

theorem dropComs_facts (T : PTables) (st : PState) : ∀ ps : List Piece, PiecesOk T st ps →
    PiecesOk T st (dropComs ps) ∧ (∀ l, outP T l (dropComs ps) = outP T l ps) ∧
    names (dropComs ps) = names ps ∧ nMath (dropComs ps) = nMath ps ∧
    flowsOf (dropComs ps) = flowsOf ps ∧ cost (dropComs ps) ≤ cost ps ∧
    skipSpaceStopLangAct (flat ps) = skipSpaceStopLangAct (flat (dropComs ps))
  | [], h => ⟨h, fun _ => rfl, rfl, rfl, rfl, Nat.le_refl _, rfl⟩
  | .com t :: rest, h => by
    obtain ⟨h1, h2, h3, h4, h5, h6, h7⟩ := dropComs_facts T st rest h.2
    refine ⟨h1, fun l => by simp only [dropComs, outP, h2], by simp only [dropComs, names, h3],
      by simp only [dropComs, nMath, h4], by simp only [dropComs, flowsOf, h5],
      by simp only [dropComs, cost]; omega, ?_⟩
    have hd : (isSpaceTok t && !isLangK t && !(t.kind == .action)) = true := by
      simp [isSpaceTok, isLangK, h.1.kind]
    simp only [dropComs, flat, Piece.toks, List.singleton_append]
    unfold skipSpaceStopLangAct at h7 ⊢
    rw [List.dropWhile_cons, if_pos hd]
    exact h7
  | .tok _ :: _, h => ⟨h, fun _ => rfl, rfl, rfl, rfl, Nat.le_refl _, rfl⟩
  | .spc _ :: _, h => ⟨h, fun _ => rfl, rfl, rfl, rfl, Nat.le_refl _, rfl⟩
  | .br _ :: _, h => ⟨h, fun _ => rfl, rfl, rfl, rfl, Nat.le_refl _, rfl⟩
  | .cw .. :: _, h => ⟨h, fun _ => rfl, rfl, rfl, rfl, Nat.le_refl _, rfl⟩
  | .van .. :: _, h => ⟨h, fun _ => rfl, rfl, rfl, rfl, Nat.le_refl _, rfl⟩
  | .verb _ :: _, h => ⟨h, fun _ => rfl, rfl, rfl, rfl, Nat.le_refl _, rfl⟩
  | .math .. :: _, h => ⟨h, fun _ => rfl, rfl, rfl, rfl, Nat.le_refl _, rfl⟩
  | .ref .. :: _, h => ⟨h, fun _ => rfl, rfl, rfl, rfl, Nat.le_refl _, rfl⟩
  | .cite .. :: _, h => ⟨h, fun _ => rfl, rfl, rfl, rfl, Nat.le_refl _, rfl⟩
  | .citeN .. :: _, h => ⟨h, fun _ => rfl, rfl, rfl, rfl, Nat.le_refl _, rfl⟩
  | .foot .. :: _, h => ⟨h, fun _ => rfl, rfl, rfl, rfl, Nat.le_refl _, rfl⟩
  | .head .. :: _, h => ⟨h, fun _ => rfl, rfl, rfl, rfl, Nat.le_refl _, rfl⟩

/-- the conditions depend on the state only through the language stack, the macro table, the
    marker of the skip pre-pass and the multi-language flag -/
theorem PiecesOk.congr {T : PTables} {st st' : PState} (hl : st'.langStack = st.langStack)
    (hm : st'.macros = st.macros) (hs : st'.skipBegin = st.skipBegin)
    (hml : st'.multiLanguage = st.multiLanguage) :
    ∀ {ps : List Piece}, PiecesOk T st ps → PiecesOk T st' ps
  | [], _ => trivial
  | .tok t :: rest, h => ⟨h.1, PassTok_congr hl h.2.1, PiecesOk.congr hl hm hs hml h.2.2⟩
  | .spc t :: rest, h => ⟨h.1, PiecesOk.congr hl hm hs hml h.2⟩
  | .br t :: rest, h => ⟨h.1, PiecesOk.congr hl hm hs hml h.2⟩
  | .cw p name sk :: rest, h => by
    refine ⟨?_, h.2.1, h.2.2.1, PiecesOk.congr hl hm hs hml h.2.2.2⟩
    exact ⟨h.1.kind, h.1.nDef, by have := h.1.undecl; simpa [lookupMacro, hm] using this⟩
  | .van p q1 q2 name key repl :: rest, h => by
    refine ⟨?_, ?_, h.2.2.1, PiecesOk.congr hl hm hs hml h.2.2.2⟩
    · obtain ⟨h1, m, h2, h3⟩ := h.1
      exact ⟨h1, m, by simpa [lookupMacro, hm] using h2, h3⟩
    · rw [PlainVanish.replOf_congr hm]; exact h.2.1
  | .com t :: rest, h => by
    refine ⟨?_, PiecesOk.congr hl hm hs hml h.2⟩
    exact ⟨h.1.kind, h.1.head, by rw [hs]; exact h.1.nskip,
      by rw [activeChars_congr T st st' hl]; exact h.1.nact⟩
  | .verb t :: rest, h => ⟨h.1, PiecesOk.congr hl hm hs hml h.2⟩
  | .math d1 b d2 :: rest, h =>
    ⟨h.1, h.2.1, h.2.2.1, h.2.2.2.1, PiecesOk.congr hl hm hs hml h.2.2.2.2⟩
  | .ref p q1 q2 name key repl :: rest, h =>
    ⟨h.1.congr hl hm, by rw [PlainRef.replOf_congr hm]; exact h.2.1, h.2.2.1,
      PiecesOk.congr hl hm hs hml h.2.2.2⟩
  | .cite p q1 q2 name key :: rest, h =>
    ⟨h.1.congr hm, h.2.1, h.2.2.1.congr hl, PiecesOk.congr hl hm hs hml h.2.2.2⟩
  | .citeN p b1 b2 q1 q2 name note key :: rest, h =>
    ⟨h.1.congr hm, h.2.1, fun t ht => ⟨(h.2.2.1 t ht).1.congr hl, (h.2.2.1 t ht).2⟩, h.2.2.2.1,
      h.2.2.2.2.1.congr hl, PiecesOk.congr hl hm hs hml h.2.2.2.2.2⟩
  | .foot fn lb b rb :: rest, h =>
    ⟨h.1, h.2.1, h.2.2.1, h.2.2.2.1, fun t ht => (h.2.2.2.2.1 t ht).congr hl, h.2.2.2.2.2.1,
      h.2.2.2.2.2.2.1.congr hm hl hml, PiecesOk.congr hl hm hs hml h.2.2.2.2.2.2.2⟩
  | .head hd lb b rb :: rest, h =>
    ⟨h.1.congr hm, h.2.1, h.2.2.1, h.2.2.2.1, fun t ht => (h.2.2.2.2.1 t ht).congr hl,
      ⟨(noEmptyActive_congr T st st' hl).trans h.2.2.2.2.2.1.nea,
        by rw [activeChars_congr T st st' hl]; exact h.2.2.2.2.2.1.dot⟩,
      PiecesOk.congr hl hm hs hml h.2.2.2.2.2.2⟩

/-! ### the state behind the loop -/

/-- the state behind the loop: the unknown names are recorded, the rotation records changed, the
    flows appended; nothing else changes -/
def endSt (st : PState) (nms : List Str) (fl : List (List Tok)) (rots : List Rot) : PState :=
  { st with unknowns := nms.foldl addU st.unknowns, rots := rots,
            extracted := st.extracted ++ fl,
            foreign := st.foreign || (!fl.isEmpty && st.nest != 1) }

theorem endSt_addFlow (st : PState) (b : List Tok) (nms : List Str) (fl : List (List Tok))
    (rots : List Rot) :
    endSt (PlainFootnote.addFlow st b) nms fl rots = endSt st nms (b :: fl) rots := by
  simp only [endSt, PlainFootnote.addFlow, List.append_assoc, List.singleton_append,
    List.isEmpty_cons, Bool.not_false, Bool.true_and]
  congr 1
  cases st.foreign <;> cases (st.nest != 1) <;> cases fl.isEmpty <;> rfl

/-- **the loop on the scan of a mixed document.**  The main output is the blank-line removal
    applied to `outP`; the state behind it is `endSt`.  Fuel: `cost` iterations, the final one,
    and two more (a heading needs them below the loop). -/
theorem seq_mix2 (T : PTables) (envStop : Option Str) (ls : LangSettings) :
    ∀ (n : Nat) (ps : List Piece), ps.length ≤ n →
      ∀ (fuel : Nat) (out : List Tok) (st : PState) (rot : Rot),
      cost ps + 3 ≤ fuel → PiecesOk T st ps → noEmptyActive T st = true →
      (nMath ps ≠ 0 → MathSt T st rot ls) →
      ∃ st', expandSequence T fuel (flat ps) envStop out st
          = (match removeLines (out ++ outP T rot.inl ps) with
             | some r => .ok ((r, []), st')
             | none => .outOfFuel) ∧
        st' = endSt st (names ps) (flowsOf ps) st'.rots := by
  have hnil : ∀ (fuel : Nat) (out : List Tok) (st : PState) (rot : Rot), 0 + 3 ≤ fuel →
      ∃ st', expandSequence T fuel (flat []) envStop out st
          = (match removeLines (out ++ outP T rot.inl []) with
             | some r => .ok ((r, []), st')
             | none => .outOfFuel) ∧
        st' = endSt st (names []) (flowsOf []) st'.rots := by
    intro fuel out st rot hf
    obtain ⟨f, rfl⟩ : ∃ f, fuel = f + 1 := ⟨fuel - 1, by omega⟩
    refine ⟨st, ?_, by simp [endSt, names, flowsOf]⟩
    simp only [flat, outP, List.append_nil]
    rw [expandSequence.eq_2]
    cases removeLines out <;> rfl
  intro n
  induction n with
  | zero =>
    intro ps hn fuel out st rot hf _ _ _
    cases ps with
    | nil => exact hnil fuel out st rot hf
    | cons => simp at hn
  | succ n ih0 =>
    intro ps hlenN fuel out st rot hf hok ha hm
    cases ps with
    | nil => exact hnil fuel out st rot hf
    | cons pc ps =>
    have hlen : ps.length ≤ n := by simpa using hlenN
    have ih := ih0 ps hlen
    cases pc with
    | tok t =>
      simp only [cost] at hf
      obtain ⟨f, rfl⟩ : ∃ f, fuel = f + 1 := ⟨fuel - 1, by omega⟩
      simp only [flat, Piece.toks, List.singleton_append]
      rw [seq_plain_step T f t (flat ps) envStop out st hok.1 hok.2.1]
      obtain ⟨st', h1, h2⟩ := ih f (out ++ [t]) st rot (by omega) hok.2.2 ha hm
      refine ⟨st', ?_, h2⟩
      rw [h1]
      simp only [outP, List.append_assoc, List.singleton_append]
    | spc t =>
      simp only [cost] at hf
      obtain ⟨f, rfl⟩ : ∃ f, fuel = f + 1 := ⟨fuel - 1, by omega⟩
      simp only [flat, Piece.toks, List.singleton_append]
      rw [seq_special_step T f t (flat ps) envStop out st hok.1]
      obtain ⟨st', h1, h2⟩ := ih f (out ++ expTok T.toTables t) st rot (by omega) hok.2 ha hm
      refine ⟨st', ?_, h2⟩
      rw [h1]
      simp only [outP, List.append_assoc]
    | br t =>
      simp only [cost] at hf
      obtain ⟨f, rfl⟩ : ∃ f, fuel = f + 1 := ⟨fuel - 1, by omega⟩
      simp only [flat, Piece.toks, List.singleton_append]
      rw [seq_brace_step T f t (flat ps) envStop out st hok.1.kind hok.1.txt]
      obtain ⟨st', h1, h2⟩ := ih f (out ++ [mkAction t.pos]) st rot (by omega) hok.2 ha hm
      refine ⟨st', ?_, h2⟩
      rw [h1]
      simp only [outP, List.append_assoc, List.singleton_append]
    | cw p name sk =>
      obtain ⟨hcw, hsk, hhead, hrest⟩ := hok
      simp only [cost] at hf
      obtain ⟨f, rfl⟩ : ∃ f, fuel = f + 2 := ⟨fuel - 2, by omega⟩
      have hflat : flat (Piece.cw p name sk :: ps) = cwTok p name :: (sk ++ flat ps) := by
        simp [flat, Piece.toks]
      obtain ⟨d1, d2, d3, d4, d5, d6, d7⟩ := dropComs_facts T st ps hrest
      have hskip : skipSpaceStopLangAct (sk ++ flat ps) = flat (dropComs ps) := by
        rw [skip_droppable (flat ps) sk (fun x hx => (hsk x hx).1), d7]
        unfold skipSpaceStopLangAct
        have := dropWhile_prefix (fun t => isSpaceTok t && !isLangK t && !(t.kind == .action)) []
          (flat (dropComs ps)) (by simp) hhead
        simpa using this
      rw [hflat, seq_cw_step T f (cwTok p name) _ envStop out st hcw ha, hskip]
      obtain ⟨st', h1, h2⟩ := ih0 (dropComs ps) (Nat.le_trans (dropComs_length ps) hlen) f
          (out ++ [mkAction (cwTok p name).pos])
          { st with unknowns := addU st.unknowns (cwTok p name).txt } rot (by omega)
          (PiecesOk.congr (st := st) (st' := { st with unknowns := addU st.unknowns (cwTok p name).txt })
            rfl rfl rfl rfl d1)
          ((noEmptyActive_congr T st _ rfl).trans ha) (by rw [d4]; exact hm)
      refine ⟨st', ?_, by rw [d3, d5] at h2; exact h2.trans rfl⟩
      rw [h1, d2]
      simp only [outP, List.append_assoc, List.singleton_append]
      rfl
    | van p q1 q2 name key repl =>
      obtain ⟨hn, hr, hkey, hrest⟩ := hok
      subst hr
      simp only [cost] at hf
      obtain ⟨f, hf'⟩ : ∃ f, fuel = f + 1 + (2 + (PlainVanish.replOf st name).length) :=
        ⟨fuel - 1 - (2 + (PlainVanish.replOf st name).length), by omega⟩
      have hflat : flat (Piece.van p q1 q2 name key (PlainVanish.replOf st name) :: ps)
          = cwTok p name :: lbr q1 :: (key ++ rbr q2 :: flat ps) := by
        simp [flat, Piece.toks]
      rw [hflat, hf', PlainVanish.seq_van_step T f p q1 q2 name key (flat ps) envStop out st hn
          (fun t ht => (hkey t ht).1) ha]
      obtain ⟨st', h1, h2⟩ := ih (f + 1)
        (out ++ mkAction p :: (PlainVanish.replOf st name).map (restamp p)) st rot (by omega) hrest ha hm
      refine ⟨st', ?_, h2⟩
      rw [h1]
      simp only [outP, List.append_assoc, List.cons_append]
    | com t =>
      simp only [cost] at hf
      obtain ⟨f, rfl⟩ : ∃ f, fuel = f + 1 := ⟨fuel - 1, by omega⟩
      simp only [flat, Piece.toks, List.singleton_append]
      rw [Comment.seq_com_step T f t (flat ps) envStop out st hok.1]
      obtain ⟨st', h1, h2⟩ := ih f out st rot (by omega) hok.2 ha hm
      refine ⟨st', ?_, h2⟩
      rw [h1]
      simp only [outP]
    | verb t =>
      simp only [cost] at hf
      obtain ⟨f, rfl⟩ : ∃ f, fuel = f + 1 := ⟨fuel - 1, by omega⟩
      simp only [flat, Piece.toks, List.singleton_append]
      rw [seq_verb_step T f t (flat ps) envStop out st hok.1]
      obtain ⟨st', h1, h2⟩ := ih f (out ++ expTokV t) st rot (by omega) hok.2 ha hm
      refine ⟨st', ?_, h2⟩
      rw [h1]
      simp only [outP, List.append_assoc]
    | math d1 b d2 =>
      obtain ⟨hd1, hbne, hb, hd2, hrest⟩ := hok
      obtain ⟨hrot, hne, hls⟩ := hm (by simp [nMath])
      have hflat : flat (Piece.math d1 b d2 :: ps) = d1 :: (b ++ d2 :: flat ps) := by
        simp [flat, Piece.toks]
      rw [hflat]
      simp only [cost] at hf
      obtain ⟨f, rfl⟩ : ∃ f, fuel = f + 2 := ⟨fuel - 2, by omega⟩
      have hr := PlainMath.headD_of_ne_nil _ (rotL_ne_nil _ hne)
      have him := PlainMath.inlineMath_simple T st f d1 d2 b (flat ps) rot ls _ hd2 hbne hb (by omega)
        hrot hls hr
      rw [PlainMath.seq_dollar_step T (f + 1) d1 _ envStop out st hd1]
      rw [M.bind_ok _ (fun r => expandSequence T (f + 1) r.2 envStop (out ++ r.1)) _ _ _ him]
      simp only []
      have hrot2 := PlainMath.rotOf_setRot st (curSettings st) rot (rotL rot.inl) hrot
      obtain ⟨st', h1, h2⟩ := ih (f + 1)
        (out ++ PlainMath.formulaOut T ((rotL rot.inl).headD []) d1.pos
          (PlainMath.firstPos (PlainMath.mathToks b)) (PlainMath.bodyTxt (PlainMath.mathToks b)))
        (setRot st { rot with inl := rotL rot.inl }) { rot with inl := rotL rot.inl }
        (by omega)
        (PiecesOk.congr (st := st) (st' := setRot st { rot with inl := rotL rot.inl }) rfl rfl rfl rfl
          hrest)
        ((noEmptyActive_congr T st _ rfl).trans ha)
        (fun _ => ⟨hrot2, rotL_ne_nil _ hne, hls⟩)
      refine ⟨st', ?_, h2.trans rfl⟩
      rw [h1]
      simp only [outP, List.append_assoc]
    | ref p q1 q2 name key repl =>
      obtain ⟨hn, hr, hkey, hrest⟩ := hok
      subst hr
      simp only [cost] at hf
      obtain ⟨f, hf'⟩ : ∃ f, fuel = f + 1 + (2 + (PlainRef.replOf st name).length) :=
        ⟨fuel - 1 - (2 + (PlainRef.replOf st name).length), by omega⟩
      have hflat : flat (Piece.ref p q1 q2 name key (PlainRef.replOf st name) :: ps)
          = cwTok p name :: lbr q1 :: (key ++ rbr q2 :: flat ps) := by
        simp [flat, Piece.toks]
      rw [hflat, hf', PlainRef.seq_ref_step T f p q1 q2 name key (flat ps) envStop out st hn
          (fun t ht => (hkey t ht).1) ha]
      obtain ⟨st', h1, h2⟩ := ih (f + 1)
        (out ++ mkAction p :: (PlainRef.replOf st name).map (restamp p)) st rot (by omega) hrest ha hm
      refine ⟨st', ?_, h2⟩
      rw [h1]
      simp only [outP, List.append_assoc, List.cons_append]
    | cite p q1 q2 name key =>
      obtain ⟨hn, hkey, hS, hrest⟩ := hok
      simp only [cost] at hf
      obtain ⟨f, hf'⟩ : ∃ f, fuel = f + 1 + 4 := ⟨fuel - 5, by omega⟩
      have hflat : flat (Piece.cite p q1 q2 name key :: ps)
          = cwTok p name :: lbr q1 :: (key ++ rbr q2 :: flat ps) := by
        simp [flat, Piece.toks]
      rw [hflat, hf', PlainRef.seq_cite_step T f p q1 q2 name key (flat ps) envStop out st hn
          (fun t ht => (hkey t ht).1) hS]
      obtain ⟨st', h1, h2⟩ := ih (f + 1) (out ++ mkAction p :: PlainRef.citeToks p) st rot (by omega)
        hrest ha hm
      refine ⟨st', ?_, h2⟩
      rw [h1]
      simp only [outP, List.append_assoc, List.cons_append]
    | citeN p b1 b2 q1 q2 name note key =>
      obtain ⟨hn, hne, hnote, hkey, hS, hrest⟩ := hok
      simp only [cost] at hf
      obtain ⟨f, hf'⟩ : ∃ f, fuel = f + 1 + (6 + note.length) :=
        ⟨fuel - 1 - (6 + note.length), by omega⟩
      have hflat : flat (Piece.citeN p b1 b2 q1 q2 name note key :: ps)
          = cwTok p name :: PlainRef.chTok b1 '[' ::
              (note ++ PlainRef.chTok b2 ']' :: lbr q1 :: (key ++ rbr q2 :: flat ps)) := by
        simp [flat, Piece.toks]
      rw [hflat, hf', PlainRef.seq_citeN_step T f p b1 b2 q1 q2 name note key (flat ps) envStop out st
          hn hnote hne (fun t ht => (hkey t ht).1) hS]
      obtain ⟨st', h1, h2⟩ := ih (f + 1) (out ++ mkAction p :: PlainRef.citeNToks p note) st rot
        (by omega) hrest ha hm
      refine ⟨st', ?_, h2⟩
      rw [h1]
      simp only [outP, List.append_assoc, List.cons_append]
    | foot fn lb b rb =>
      obtain ⟨hfn, hlb, hrb, hne, hb, hsafe, hS, hrest⟩ := hok
      simp only [cost] at hf
      obtain ⟨f, rfl⟩ : ∃ f, fuel = f + 3 := ⟨fuel - 3, by omega⟩
      have hflat : flat (Piece.foot fn lb b rb :: ps) = fn :: lb :: (b ++ rb :: flat ps) := by
        simp [flat, Piece.toks]
      rw [hflat, PlainFootnote.seq_foot_step T f fn lb rb b (flat ps) envStop out st hfn hS hlb hrb hb
        hne hsafe (by omega)]
      obtain ⟨st', h1, h2⟩ := ih (f + 1) (out ++ [mkAction fn.pos]) (PlainFootnote.addFlow st b) rot
        (by omega)
        (PiecesOk.congr (st := st) (st' := PlainFootnote.addFlow st b) rfl rfl rfl rfl hrest)
        ((noEmptyActive_congr T st _ rfl).trans ha)
        (fun h0 => by
          obtain ⟨a1, a2, a3⟩ := hm (by simpa [nMath] using h0)
          exact ⟨a1, a2, a3⟩)
      refine ⟨st', ?_, ?_⟩
      · rw [h1]
        simp only [outP, List.append_assoc, List.singleton_append]
      · rw [h2, endSt_addFlow]
        rfl
    | head hd lb b rb =>
      obtain ⟨hhd, hlb, hrb, hne, hb, hS, hrest⟩ := hok
      simp only [cost] at hf
      obtain ⟨l, hl⟩ : ∃ l, b.getLast? = some l := by
        cases hx : b.getLast? with
        | none => rw [List.getLast?_eq_none_iff] at hx; exact absurd hx hne
        | some a => exact ⟨a, rfl⟩
      obtain ⟨f, rfl⟩ : ∃ f, fuel = f + b.length + 6 := ⟨fuel - b.length - 6, by omega⟩
      have hflat : flat (Piece.head hd lb b rb :: ps) = hd :: lb :: (b ++ rb :: flat ps) := by
        simp [flat, Piece.toks]
      have hdl := PlainHeading.dotToks_length T (getTxtPos b).1 l.pos
      rw [hflat, PlainHeading.seq_head_step T f hd lb rb b l (flat ps) envStop out st hhd hS hlb hrb hb hl]
      obtain ⟨st', h1, h2⟩ := ih (f + 4 - (PlainHeading.dotToks T (getTxtPos b).1 l.pos).length)
        (out ++ mkAction hd.pos :: (b ++ PlainHeading.dotToks T (getTxtPos b).1 l.pos)) st rot
        (by omega) hrest ha hm
      refine ⟨st', ?_, h2⟩
      rw [h1]
      have hlp : PlainHeading.lastPos b = l.pos := by simp [PlainHeading.lastPos, hl]
      simp only [outP, PlainHeading.headOut, hlp, List.append_assoc, List.cons_append]

/-- the skip pre-pass of `parser_work` sees no begin marker -/
theorem PiecesOk.nobegin {T : PTables} {st : PState} : ∀ {ps : List Piece}, PiecesOk T st ps →
    ∀ t ∈ flat ps, (t.kind == .comment && startsWith t.txt st.skipBegin) = false
  | [], _, _, h => by simp [flat] at h
  | .tok t :: rest, hok, x, hx => by
    simp only [flat, Piece.toks, List.singleton_append, List.mem_cons] at hx
    rcases hx with rfl | hx
    · have := hok.1.notComment
      simp [this]
    · exact PiecesOk.nobegin hok.2.2 x hx
  | .spc t :: rest, hok, x, hx => by
    simp only [flat, Piece.toks, List.singleton_append, List.mem_cons] at hx
    rcases hx with rfl | hx
    · simp [hok.1.1]
    · exact PiecesOk.nobegin hok.2 x hx
  | .br t :: rest, hok, x, hx => by
    simp only [flat, Piece.toks, List.singleton_append, List.mem_cons] at hx
    rcases hx with rfl | hx
    · simp [hok.1.kind]
    · exact PiecesOk.nobegin hok.2 x hx
  | .cw p name sk :: rest, hok, x, hx => by
    simp only [flat, Piece.toks, List.cons_append, List.mem_cons, List.mem_append] at hx
    rcases hx with rfl | hx | hx
    · simp [cwTok]
    · have := (hok.2.1 x hx).2
      simp [this]
    · exact PiecesOk.nobegin hok.2.2.2 x hx
  | .van p q1 q2 name key repl :: rest, hok, x, hx => by
    obtain ⟨_, _, hkey, hrest⟩ := hok
    simp only [flat, Piece.toks, List.cons_append, List.append_assoc, List.mem_cons,
      List.mem_append, List.nil_append] at hx
    rcases hx with rfl | rfl | hx | rfl | hx
    · simp [cwTok]
    · simp [lbr]
    · have := (hkey x hx).2
      simp [this]
    · simp [rbr]
    · exact PiecesOk.nobegin hrest x hx
  | .com t :: rest, hok, x, hx => by
    simp only [flat, Piece.toks, List.singleton_append, List.mem_cons] at hx
    rcases hx with rfl | hx
    · simp [hok.1.nskip]
    · exact PiecesOk.nobegin hok.2 x hx
  | .verb t :: rest, hok, x, hx => by
    simp only [flat, Piece.toks, List.singleton_append, List.mem_cons] at hx
    rcases hx with rfl | hx
    · simp [hok.1]
    · exact PiecesOk.nobegin hok.2 x hx
  | .math d1 b d2 :: rest, hok, x, hx => by
    obtain ⟨h1, _, hb, h2, hrest⟩ := hok
    simp only [flat, Piece.toks, List.cons_append, List.append_assoc, List.mem_cons,
      List.mem_append, List.nil_append] at hx
    rcases hx with rfl | hx | rfl | hx
    · rcases h1.kind with h | h <;> simp [h]
    · rcases hb x hx with h | h
      · simp [h.kind]
      · simp [h]
    · rcases h2.kind with h | h <;> simp [h]
    · exact PiecesOk.nobegin hrest x hx
  | .ref p q1 q2 name key repl :: rest, hok, x, hx => by
    obtain ⟨_, _, hkey, hrest⟩ := hok
    simp only [flat, Piece.toks, List.cons_append, List.append_assoc, List.mem_cons,
      List.mem_append, List.nil_append] at hx
    rcases hx with rfl | rfl | hx | rfl | hx
    · simp [cwTok]
    · simp [lbr]
    · have := (hkey x hx).2
      simp [this]
    · simp [rbr]
    · exact PiecesOk.nobegin hrest x hx
  | .cite p q1 q2 name key :: rest, hok, x, hx => by
    obtain ⟨_, hkey, _, hrest⟩ := hok
    simp only [flat, Piece.toks, List.cons_append, List.append_assoc, List.mem_cons,
      List.mem_append, List.nil_append] at hx
    rcases hx with rfl | rfl | hx | rfl | hx
    · simp [cwTok]
    · simp [lbr]
    · have := (hkey x hx).2
      simp [this]
    · simp [rbr]
    · exact PiecesOk.nobegin hrest x hx
  | .citeN p b1 b2 q1 q2 name note key :: rest, hok, x, hx => by
    obtain ⟨_, _, hnote, hkey, _, hrest⟩ := hok
    simp only [flat, Piece.toks, List.cons_append, List.append_assoc, List.mem_cons,
      List.mem_append, List.nil_append] at hx
    rcases hx with rfl | rfl | hx | rfl | rfl | hx | rfl | hx
    · simp [cwTok]
    · simp [PlainRef.chTok]
    · have := (hnote x hx).1.plain.notComment
      simp [this]
    · simp [PlainRef.chTok]
    · simp [lbr]
    · have := (hkey x hx).2
      simp [this]
    · simp [rbr]
    · exact PiecesOk.nobegin hrest x hx
  | .foot fn lb b rb :: rest, hok, x, hx => by
    obtain ⟨hfn, hlb, hrb, _, hb, _, _, hrest⟩ := hok
    simp only [flat, Piece.toks, List.cons_append, List.append_assoc, List.mem_cons,
      List.mem_append, List.nil_append] at hx
    rcases hx with rfl | rfl | hx | rfl | hx
    · simp [hfn.kind]
    · rcases hlb.kind with h | h <;> simp [h]
    · have := (hb x hx).plain.notComment
      simp [this]
    · rcases hrb.kind with h | h <;> simp [h]
    · exact PiecesOk.nobegin hrest x hx
  | .head hd lb b rb :: rest, hok, x, hx => by
    obtain ⟨hhd, hlb, hrb, _, hb, _, hrest⟩ := hok
    simp only [flat, Piece.toks, List.cons_append, List.append_assoc, List.mem_cons,
      List.mem_append, List.nil_append] at hx
    rcases hx with rfl | rfl | hx | rfl | hx
    · simp [hhd.kind]
    · rcases hlb.kind with h | h <;> simp [h]
    · have := (hb x hx).plain.notComment
      simp [this]
    · rcases hrb.kind with h | h <;> simp [h]
    · exact PiecesOk.nobegin hrest x hx

end PlainMix2
end Yalafi
