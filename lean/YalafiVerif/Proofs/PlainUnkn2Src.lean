/-
  Proofs/PlainUnkn2Src.lean — C19 "the unknowns list", END TO END on the model, for documents that
  mix inert text, undeclared control words, undeclared environments, calls of declared macros,
  inline formulas with control words, and comments.

  Documents (`Seg`, `render`)
    `.txt s`            inert text
    `.cw name`          `\name`, an undeclared control word                     — LISTED as `\name`
    `.env name body`    `\begin{name}` body `\end{name}`, `name` undeclared, the body inert text
                                                                                — LISTED as `name`
    `.beg name`, `.en name`   `\begin{name}` / `\end{name}` alone, `name` undeclared: what stands
                        between them is given by the segments between them (any segments, any nesting,
                        not necessarily balanced)               — `.beg` LISTED as `name`, `.en` not
    `.decl name key`    `\name{key}`, a call of a declared vanishing macro (`\label{x}`, …;
                        Proofs/PlainVanish.lean)                                — never listed
    `.math parts`       `$ … $`, the body a sequence of `.chars s` (letters, digits, operators,
                        punctuation, white space), `.cw name` (undeclared control words such as
                        `\alpha`, `\xi`) and `.spec t` (special sequences of the tables: `^`, `_`,
                        `{`, `}`, `&`, …)                                       — not listed
    `.com text`         `% text` up to the end of the line; `text` is arbitrary (it may contain
                        `\foo`)                                                 — not listed
  `usedNames segs`      the names used in text mode, in order of occurrence
  `refUnknowns segs`    the reference: `(usedNames segs).eraseDups` — each name once, in order of
                        first use

  What the model lists for an undeclared environment (found with `#eval`, then proved): the NAME
  WITHOUT BACKSLASH (`myenv`), recorded at `\begin{myenv}`; `\end{myenv}` records nothing.

  The end-to-end statement `tex2txt_unknowns_e2e` (both settings of `--unkn`): `tex2txt` succeeds,
  `r.unknowns = refUnknowns segs`, `r.diags = st1.diags`; with `--unkn` the output text is the list,
  one name per line, every line (also the last) ended by a line break, positions all 1.  Without
  `--unkn` NO reference for the output text is given (text and positions are those of the result
  tokens): the text of such mixed documents needs the white-space skipping behind control words,
  the placeholders of the formulas and the blank-line removal at once; the single constructs are
  covered by Proofs/PlainUnknown, PlainVanish, PlainMath, PlainComment, PlainItem.
  Readings: `refUnknowns_nodup`, `mem_refUnknowns`, `refUnknowns_order`, `refUnknowns_undeclared`,
  `refUnknowns_decl`, `refUnknowns_maths`.

  Side conditions (all in `SegsOk T st1 segs`, decidable; `st1` = state after `Parser.__init__`)
    `readyOk T st1`     the empty string is no active character (else the text-less Action tokens
                        would go to `expand_short_macro`); the settings of the current language and a
                        non-empty collection of inline placeholders exist (Python: `KeyError` /
                        `IndexError` at the first formula otherwise).  Real tables: yes.  (Asked for
                        also when the document has no formula.)
    `.txt s`            `textOkU`: every character, with the whole rest of the source behind it, is
                        white space or none of `% # \ $ { }` with no special sequence of the tables
                        matching there; and it is no active character of the language, or forms no
                        short macro with the token behind it (`okAt` of Proofs/PlainUnknown.lean,
                        the token behind may also be a comment)
    `.cw name`          `cwOk` of Proofs/PlainUnknown.lean: `name` non-empty, ASCII letters / `@`, no
                        letter behind it, no special sequence at the backslash, none of `\begin \end
                        \item \verb \def`, no accent macro, NOT DECLARED in `st1`
    `.env` / `.beg` / `.en`   `ubegOk`, `uendOk`: no special sequence at the backslash, `{` directly
                        behind `\begin` / `\end`, both braces scanned as braces, the name a non-empty
                        string of `inertChar`s, not `\begin{verbatim}`, `name` NOT DECLARED as an
                        environment in `st1`; the body of `.env` is `textOkU`
    `.decl name key`    `vanOk` of Proofs/PlainVanish.lean: declared with one mandatory argument,
                        no handler, no extraction, a replacement of at most two void tokens;
                        `{key}` directly behind the name, the key without `% # \ { }`
    `.math parts`       `mathOkU`: both `$` scanned as `$` (no `$$`); the body not only white space
                        and ignored tokens; `.chars`: `bodyOk` of Proofs/PlainMath.lean (white space
                        with at most one line break per run — two make a paragraph token, "missing end
                        of maths" —, or a character that is none of `% # \ $ { }`, neither ignored nor
                        taken as space by the maths parser, no special sequence matching);
                        `.cw name`: `mcwOk` = `cwOk` (one macro token, NOT DECLARED — a declared macro
                        would be expanded), no `\text`-like macro (`math_text_macros`: its argument is
                        expanded in text mode), neither maths space (`\,` `\quad`) nor ignored;
                        `.spec t`: `mspecOk` — the scanner makes the special token `t` here, it is not
                        `$` / `\)`, no maths space (`~`, `\,`), and it is ignored (`{`, `}`) or has a
                        table entry (Python: `KeyError` otherwise)
    `.com text`         `comOk`: `text` without line break; what follows is the end of the source or
                        the line break; the comment token (which also takes the line break and the
                        white space at the start of the next line unless that line is blank) does not
                        start with the marker `%%% LT-SKIP-BEGIN` and is no active character
    options             no `--defs`, `--extr`, `--repl`; single-language mode; `--unkn` free
    fuel                `(render segs).length + 2 ≤ fuel`

  NOT covered: definitions in the document (`\newcommand`, `\def`, `\newtheorem`, `\usepackage`:
  "declared by a definition that precedes the use"), skipped regions, displayed formulas and
  equation environments, `\(`…`\)`, maths-space tokens and declared macros inside formulas,
  unknown macros with arguments in braces behind them (`\foo{x}`: braces are not allowed in
  `.txt`), `\verb`, accents, `\item`, white space between `\begin` / `\end` and `{`.

  Structure
    `okAtU`, `textOkU`, `ubegOk`, `uendOk`, `mcwOk`, `mspecOk`, `mpartsOk`, `mathOkU`, `comOk`,
    `segsOk`, `readyOk`, `SegsOk`       the side conditions (computable)
    `MOk`, `OkSrc`               the same on the source text (what the proofs use)
    `scanSteps_mbody`            the scanner on a formula body
    `scanSteps_u2`, `scan_u2`    the scanner on a document: the token buffer is `flat ps` with
                                 `PiecesOk`, `names ps` = the names of the source, cost ≤ length
    `parserWork_u2`, `parse_u2`, `tex2txt_u2_src`, `tex2txt_unknowns_e2e`   the lifts
-/
import YalafiVerif.Proofs.PlainUnkn2
namespace Yalafi
namespace PlainUnkn2

open M
open PlainMacro (braceAt lbr rbr nextToken_brace scanSteps_step scanSteps_body BodyRun bodyTxt)
open PlainItem (nBegin nEnd nextToken_begin nextToken_end begTok endTok nameToks_of_bodyRun
  sBegin_eq sEnd_eq)
open PlainVanish (vanOk vanFacts VanFacts scanSteps_key KeyRun vanLen)
open PlainMath (dollarAt mathAt nextToken_dollar mathAtFacts nextToken_body bodyTok_bodyTokAt
  bodyTokAt DollarTok BodyTok)
open Comment (comTxt commentSpan comTokOk nextToken_percent noNl)

/-! ### the documents -/

/-- a part of a formula body: a run of characters, or a control word -/
inductive MPart where
  | chars (s : Str)
  | cw (name : Str)
  | spec (t : Str)
deriving Repr, DecidableEq

def MPart.render : MPart → Str
  | .chars s => s
  | .cw name => '\\' :: name
  | .spec t => t

def renderM : List MPart → Str
  | [] => []
  | p :: ps => p.render ++ renderM ps

/-- a segment of the source -/
inductive Seg where
  | txt (s : Str)
  | cw (name : Str)
  | env (name body : Str)
  | beg (name : Str)
  | en (name : Str)
  | decl (name key : Str)
  | math (body : List MPart)
  | com (text : Str)
deriving Repr, DecidableEq

/-- `\begin{name}` -/
def begStr (name : Str) : Str := '\\' :: (nBegin ++ '{' :: (name ++ ['}']))
/-- `\end{name}` -/
def endStr (name : Str) : Str := '\\' :: (nEnd ++ '{' :: (name ++ ['}']))

def Seg.render : Seg → Str
  | .txt s => s
  | .cw name => '\\' :: name
  | .env name body => begStr name ++ (body ++ endStr name)
  | .beg name => begStr name
  | .en name => endStr name
  | .decl name key => '\\' :: (name ++ '{' :: (key ++ ['}']))
  | .math body => '$' :: (renderM body ++ ['$'])
  | .com text => '%' :: text

/-- the source text -/
def render : List Seg → Str
  | [] => []
  | s :: rest => s.render ++ render rest

/-- the names that are used in text mode and not declared, in order of occurrence: control words
    with backslash, environment names without -/
def usedNames : List Seg → List Str
  | [] => []
  | .cw name :: rest => ('\\' :: name) :: usedNames rest
  | .env name _ :: rest => name :: usedNames rest
  | .beg name :: rest => name :: usedNames rest
  | _ :: rest => usedNames rest

/-- **the reference**: each name once, in order of first use -/
def refUnknowns (segs : List Seg) : List Str := (usedNames segs).eraseDups

/-! ### the side conditions -/

/-- the text of the first scanner token of a well-formed source: a run of white space, a comment,
    a control word, or one character -/
def firstTokTxtU : Str → Str
  | [] => []
  | d :: ds =>
    if isSpace d then (d :: ds).takeWhile isSpace
    else if d == '%' then comTxt (d :: ds)
    else if d == '\\' then d :: ds.takeWhile macroChar
    else [d]

/-- the text character `c`, followed by `cs` (the whole rest of the source), is inert (`okAt` of
    Proofs/PlainUnknown.lean, the token behind `c` may also be a comment):
    * `c` is not an active character of the current language settings, or it is no white space
      and does not form a short macro with the token behind it (or nothing is behind it), and
    * it is white space, or an ordinary character (none of `% # \ $ { }`) at which no special
      sequence matches -/
def okAtU (T : PTables) (st : PState) (c : Char) (cs : Str) : Bool :=
  (!(activeChars T st).contains [c] ||
    (!isSpace c && (cs.isEmpty || !(shortKeys T st).contains (c :: firstTokTxtU cs)))) &&
  (isSpace c || (!structuralChar c && (matchSpecial T.toTables (c :: cs)).isNone))

/-- the text `s`, followed by `R`, is inert -/
def textOkU (T : PTables) (st : PState) : Str → Str → Bool
  | [], _ => true
  | c :: cs, R => okAtU T st c (cs ++ R) && textOkU T st cs R

/-- `\begin{name}`, followed by `R`: no special sequence matches at the backslash; it does not
    open `\begin{verbatim}`; both braces are scanned as such; the name is a non-empty string of
    inert characters; `name` is NOT declared as an environment -/
def ubegOk (T : PTables) (st : PState) (name R : Str) : Bool :=
  (matchSpecial T.toTables ('\\' :: (nBegin ++ '{' :: (name ++ '}' :: R)))).isNone &&
  !startsWith ('{' :: (name ++ '}' :: R)) sVerbatimArg &&
  braceAt T '{' (name ++ '}' :: R) &&
  !name.isEmpty && name.all (inertChar T st) &&
  braceAt T '}' R && (lookupEnv st name).isNone

/-- `\end{name}`, followed by `R` -/
def uendOk (T : PTables) (st : PState) (name R : Str) : Bool :=
  (matchSpecial T.toTables ('\\' :: (nEnd ++ '{' :: (name ++ '}' :: R)))).isNone &&
  braceAt T '{' (name ++ '}' :: R) &&
  !name.isEmpty && name.all (inertChar T st) &&
  braceAt T '}' R && (lookupEnv st name).isNone

/-- a control word inside a formula, followed by `X`: one macro token of the scanner and not
    declared (`cwOk` of Proofs/PlainUnknown.lean), no `\text`-like macro (`math_text_macros`),
    neither maths space (`\,`, `\quad`, …) nor ignored (`\left`, `\right`, …) -/
def mcwOk (T : PTables) (st : PState) (name X : Str) : Bool :=
  cwOk T st name X && !st.mathTextMacros.contains ('\\' :: name) &&
  !T.mathSpace.contains ('\\' :: name) && !T.mathIgnore.contains ('\\' :: name)

/-- a special sequence `t` of the tables inside a formula (`^`, `_`, `{`, `}`, `&`, `--`, …), followed
    by `X`: the scanner makes the special token `t` of it here (`t` is the first entry of the sorted
    table that matches); it neither ends the formula (`$`, `\\)`) nor is maths space; it is
    ignored by the maths parser (`math_ignore`: `{`, `}`) or has a replacement text -/
def mspecOk (T : PTables) (t X : Str) : Bool :=
  (match t with
   | [] => false
   | c :: _ => !isSpace c && c != '%' && c != '#') &&
  matchSpecial T.toTables (t ++ X) == some t &&
  !["$".toList, "\\)".toList].contains t && !T.mathSpace.contains t &&
  (T.mathIgnore.contains t || (T.toTables.specialVal t).isSome)

/-- the parts of a formula body, followed by `R` (which starts with the closing `$`): characters
    as in Proofs/PlainMath.lean (`bodyOk`: white space with at most one line break per run, or a
    character that is none of `% # \ $ { }`, neither ignored nor taken as space by the maths
    parser, and at which no special sequence matches), and control words -/
def mpartsOk (T : PTables) (st : PState) : List MPart → Str → Bool
  | [], _ => true
  | .chars s :: rest, R => PlainMath.bodyOk T s (renderM rest ++ R) && mpartsOk T st rest R
  | .cw name :: rest, R => mcwOk T st name (renderM rest ++ R) && mpartsOk T st rest R
  | .spec t :: rest, R => mspecOk T t (renderM rest ++ R) && mpartsOk T st rest R

/-- the body is not only white space and ignored tokens -/
def visible (T : PTables) : List MPart → Bool
  | [] => false
  | .chars s :: rest => s.any (fun c => !isSpace c) || visible T rest
  | .cw _ :: _ => true
  | .spec t :: rest => !T.mathIgnore.contains t || visible T rest

/-- the formula `$body$`, followed by `R`: both `$` are scanned as `$` (not `$$`), the body is
    admissible and not only white space -/
def mathOkU (T : PTables) (st : PState) (body : List MPart) (R : Str) : Bool :=
  dollarAt T (renderM body ++ '$' :: R) && mpartsOk T st body ('$' :: R) && visible T body &&
  dollarAt T R

/-- the comment `%text`, followed by `R`: the text has no line break, `R` is empty or starts with
    the line break that ends the comment, and the comment token the scanner makes (the comment
    and — unless a blank line follows — the line break and the white space behind it) is an
    ordinary comment (`comTokOk` of Proofs/PlainComment.lean: it does not start with the marker
    `%%% LT-SKIP-BEGIN` and is no active character) -/
def comOk (T : PTables) (st : PState) (text R : Str) : Bool :=
  noNl text && R.head?.all (· == nl) && comTokOk T st (comTxt ('%' :: (text ++ R)))

/-- well-formed documents: every segment is fine in front of the rendering of the following ones -/
def segsOk (T : PTables) (st : PState) : List Seg → Bool
  | [] => true
  | .txt s :: rest => textOkU T st s (render rest) && segsOk T st rest
  | .cw name :: rest => cwOk T st name (render rest) && segsOk T st rest
  | .env name body :: rest =>
    ubegOk T st name (body ++ (endStr name ++ render rest)) &&
    textOkU T st body (endStr name ++ render rest) &&
    uendOk T st name (render rest) && segsOk T st rest
  | .beg name :: rest => ubegOk T st name (render rest) && segsOk T st rest
  | .en name :: rest => uendOk T st name (render rest) && segsOk T st rest
  | .decl name key :: rest => vanOk T st name key (render rest) && segsOk T st rest
  | .math body :: rest => mathOkU T st body (render rest) && segsOk T st rest
  | .com text :: rest => comOk T st text (render rest) && segsOk T st rest

/-- the state is ready for formulas (Python: `KeyError` in `lang_context` / `IndexError` on an empty
    placeholder collection otherwise), and the empty string is no active character -/
def readyOk (T : PTables) (st : PState) : Bool :=
  noEmptyActive T st && (settingsOf T (curSettings st)).isSome &&
  (match rotOf st (curSettings st) with
   | some rot => !rot.inl.isEmpty
   | none => false)

/-- all side conditions on the tables, the initialised parser state and the document -/
def SegsOk (T : PTables) (st : PState) (segs : List Seg) : Prop :=
  readyOk T st = true ∧ segsOk T st segs = true

instance (T : PTables) (st : PState) (segs : List Seg) : Decidable (SegsOk T st segs) := by
  unfold SegsOk; infer_instance

theorem ready_of_readyOk {T : PTables} {st : PState} (h : readyOk T st = true) :
    ∃ ls, Ready T st ls := by
  simp only [readyOk, Bool.and_eq_true] at h
  obtain ⟨⟨h1, h2⟩, h3⟩ := h
  obtain ⟨ls, hls⟩ := Option.isSome_iff_exists.mp h2
  refine ⟨ls, h1, hls, ?_⟩
  split at h3
  · rename_i rot hrot
    exact ⟨rot, hrot, by simpa using h3⟩
  · cases h3

/-! ### the same on the source text -/

/-- a formula body in front of its closing `$`: `MOk k b s R` — `s` consists of `k - 1` body
    characters, the closing `$`, and `R`; `b` tells whether the body holds a character that is no
    white space -/
inductive MOk (T : PTables) (st : PState) : Nat → Bool → Str → Str → Prop
  | fin (R : Str) : dollarAt T R = true → MOk T st 1 false ('$' :: R) R
  | sp (k : Nat) (b : Bool) (c : Char) (cs R : Str) : isSpace c = true →
      countNl ((c :: cs).takeWhile isSpace) < 2 → MOk T st k b cs R → MOk T st (k + 1) b (c :: cs) R
  | ch (k : Nat) (b : Bool) (c : Char) (cs R : Str) : mathAt T c cs = true →
      MOk T st k b cs R → MOk T st (k + 1) true (c :: cs) R
  | cw (k : Nat) (b : Bool) (name X R : Str) : mcwOk T st name X = true →
      MOk T st k b X R → MOk T st (k + (name.length + 1)) true ('\\' :: (name ++ X)) R
  | spec (k : Nat) (b : Bool) (c : Char) (tl X R : Str) : mspecOk T (c :: tl) X = true →
      MOk T st k b X R →
      MOk T st (k + (tl.length + 1)) (!T.mathIgnore.contains (c :: tl) || b) (c :: (tl ++ X)) R

/-- the source text with the list of the names used in text mode -/
inductive OkSrc (T : PTables) (st : PState) : Str → List Str → Prop
  | nil : OkSrc T st [] []
  | chr (c : Char) (cs : Str) (names : List Str) :
      okAtU T st c cs = true → OkSrc T st cs names → OkSrc T st (c :: cs) names
  | cw (name R : Str) (names : List Str) :
      cwOk T st name R = true → OkSrc T st R names →
      OkSrc T st ('\\' :: (name ++ R)) (('\\' :: name) :: names)
  | beg (name R : Str) (names : List Str) :
      ubegOk T st name R = true → OkSrc T st R names →
      OkSrc T st ('\\' :: (nBegin ++ '{' :: (name ++ '}' :: R))) (name :: names)
  | en (name R : Str) (names : List Str) :
      uendOk T st name R = true → OkSrc T st R names →
      OkSrc T st ('\\' :: (nEnd ++ '{' :: (name ++ '}' :: R))) names
  | van (name key R : Str) (names : List Str) :
      vanOk T st name key R = true → OkSrc T st R names →
      OkSrc T st ('\\' :: (name ++ '{' :: (key ++ '}' :: R))) names
  | math (k : Nat) (X R : Str) (names : List Str) :
      dollarAt T X = true → MOk T st k true X R → OkSrc T st R names →
      OkSrc T st ('$' :: X) names
  | com (cs : Str) (names : List Str) :
      comTokOk T st (comTxt ('%' :: cs)) = true →
      OkSrc T st (('%' :: cs).drop (commentSpan ('%' :: cs))) names →
      OkSrc T st ('%' :: cs) names

theorem OkSrc_text (T : PTables) (st : PState) (R : Str) (names : List Str) :
    ∀ (s : Str), OkSrc T st R names → textOkU T st s R = true → OkSrc T st (s ++ R) names
  | [], hR, _ => hR
  | c :: cs, hR, h => by
    simp only [textOkU, Bool.and_eq_true] at h
    exact OkSrc.chr c (cs ++ R) names h.1 (OkSrc_text T st R names cs hR h.2)

/-- white space in front can be dropped -/
theorem OkSrc_drop_space (T : PTables) (st : PState) (names : List Str) :
    ∀ (k : Nat) (s : Str), k ≤ s.length → OkSrc T st s names →
      (∀ x ∈ s.take k, isSpace x = true) → OkSrc T st (s.drop k) names
  | 0, _, _, h, _ => h
  | k + 1, [], hk, _, _ => by simp at hk
  | k + 1, c :: cs, hk, h, hsp => by
    have hc : isSpace c = true := hsp c (by simp)
    cases h with
    | chr _ _ _ _ h2 =>
      exact OkSrc_drop_space T st names k cs (by simpa using hk) h2
        (fun x hx => hsp x (by simp [hx]))
    | cw name R names' _ _ => exact absurd hc (by decide)
    | beg name R names' _ _ => exact absurd hc (by decide)
    | en name R _ _ _ => exact absurd hc (by decide)
    | van name key R _ _ _ => exact absurd hc (by decide)
    | math k' X R _ _ _ _ => exact absurd hc (by decide)
    | com cs _ _ _ => exact absurd hc (by decide)

theorem MOk_parts (T : PTables) (st : PState) (R : Str) (hR : dollarAt T R = true) :
    ∀ (parts : List MPart), mpartsOk T st parts ('$' :: R) = true →
      ∃ k, MOk T st k (visible T parts) (renderM parts ++ '$' :: R) R
  | [], _ => ⟨1, .fin R hR⟩
  | .spec t :: rest, h => by
    simp only [mpartsOk, Bool.and_eq_true] at h
    obtain ⟨k, hk⟩ := MOk_parts T st R hR rest h.2
    cases t with
    | nil => simp [mspecOk] at h
    | cons c tl =>
      exact ⟨_, by simpa [renderM, MPart.render, visible] using MOk.spec k _ c tl _ R h.1 hk⟩
  | .cw name :: rest, h => by
    simp only [mpartsOk, Bool.and_eq_true] at h
    obtain ⟨k, hk⟩ := MOk_parts T st R hR rest h.2
    exact ⟨_, by simpa [renderM, MPart.render, visible] using MOk.cw k _ name _ R h.1 hk⟩
  | .chars s :: rest, h => by
    simp only [mpartsOk, Bool.and_eq_true] at h
    obtain ⟨k, hk⟩ := MOk_parts T st R hR rest h.2
    have hs := h.1
    clear h
    simp only [renderM, MPart.render, visible]
    generalize visible T rest = b at hk
    induction s with
    | nil => exact ⟨k, by simpa using hk⟩
    | cons c cs ih =>
      simp only [PlainMath.bodyOk, Bool.and_eq_true] at hs
      obtain ⟨k', hk'⟩ := ih hs.2
      by_cases hsp : isSpace c = true
      · have h1 := hs.1
        simp only [hsp, if_true, decide_eq_true_eq] at h1
        refine ⟨k' + 1, ?_⟩
        have := MOk.sp k' _ c (cs ++ (renderM rest ++ '$' :: R)) R hsp
          (by simpa [List.append_assoc] using h1) (by simpa [List.append_assoc] using hk')
        simpa [hsp, List.append_assoc] using this
      · have hsp' : isSpace c = false := by simpa using hsp
        have h1 := hs.1
        simp only [hsp', Bool.false_eq_true, if_false] at h1
        refine ⟨k' + 1, ?_⟩
        have := MOk.ch k' _ c (cs ++ (renderM rest ++ '$' :: R)) R
          (by simpa [List.append_assoc] using h1) (by simpa [List.append_assoc] using hk')
        simpa [hsp', List.append_assoc] using this

/-- behind a comment `%text` in front of `R` (empty, or starting with the line break): `R`, or `R`
    without its leading white space -/
theorem OkSrc_after_com (T : PTables) (st : PState) (text R : Str) (names : List Str)
    (ht : noNl text = true) (hR : R.head?.all (· == nl) = true) (h : OkSrc T st R names) :
    OkSrc T st (('%' :: (text ++ R)).drop (commentSpan ('%' :: (text ++ R)))) names := by
  cases R with
  | nil =>
    rw [List.append_nil, Comment.span_eof text ht]
    simpa using h
  | cons d R' =>
    have hd : d = nl := by simpa using hR
    subst hd
    rw [Comment.span_com text R' ht]
    split
    · have : ('%' :: (text ++ nl :: R')).drop (text.length + 1) = nl :: R' := by simp
      rw [this]; exact h
    · have e : ('%' :: (text ++ nl :: R')).drop (text.length + 2 + (R'.takeWhile isSpace).length)
          = (nl :: R').drop (1 + (R'.takeWhile isSpace).length) := by
        rw [show text.length + 2 + (R'.takeWhile isSpace).length
          = (text.length + (1 + (R'.takeWhile isSpace).length)) + 1 by omega, List.drop_succ_cons,
          ← List.drop_drop]
        simp
      rw [e]
      refine OkSrc_drop_space T st names _ _ ?_ h ?_
      · have := ScannerAux.length_takeWhile_le' isSpace R'
        simp only [List.length_cons]; omega
      · intro x hx
        rw [Nat.add_comm, List.take_succ_cons, List.mem_cons] at hx
        rcases hx with rfl | hx
        · decide
        · rw [ScannerAux.take_length_takeWhile] at hx
          exact mem_takeWhile_imp _ _ _ hx

theorem OkSrc_of_segsOk (T : PTables) (st : PState) :
    ∀ (segs : List Seg), segsOk T st segs = true → OkSrc T st (render segs) (usedNames segs)
  | [], _ => .nil
  | .txt s :: rest, h => by
    simp only [segsOk, Bool.and_eq_true] at h
    exact OkSrc_text T st _ _ s (OkSrc_of_segsOk T st rest h.2) h.1
  | .cw name :: rest, h => by
    simp only [segsOk, Bool.and_eq_true] at h
    exact .cw name (render rest) _ h.1 (OkSrc_of_segsOk T st rest h.2)
  | .env name body :: rest, h => by
    simp only [segsOk, Bool.and_eq_true] at h
    obtain ⟨⟨⟨h1, h2⟩, h3⟩, h4⟩ := h
    have e1 := OkSrc.en name (render rest) _ h3 (OkSrc_of_segsOk T st rest h4)
    have e2 := OkSrc_text T st _ _ body e1 (by simpa [endStr] using h2)
    have e3 := OkSrc.beg name _ _ (by simpa [endStr] using h1) e2
    simpa [render, Seg.render, begStr, endStr, usedNames] using e3
  | .beg name :: rest, h => by
    simp only [segsOk, Bool.and_eq_true] at h
    have := OkSrc.beg name (render rest) _ h.1 (OkSrc_of_segsOk T st rest h.2)
    simpa [render, Seg.render, begStr, usedNames] using this
  | .en name :: rest, h => by
    simp only [segsOk, Bool.and_eq_true] at h
    have := OkSrc.en name (render rest) _ h.1 (OkSrc_of_segsOk T st rest h.2)
    simpa [render, Seg.render, endStr, usedNames] using this
  | .decl name key :: rest, h => by
    simp only [segsOk, Bool.and_eq_true] at h
    have := OkSrc.van name key (render rest) _ h.1 (OkSrc_of_segsOk T st rest h.2)
    simpa [render, Seg.render, usedNames] using this
  | .math body :: rest, h => by
    simp only [segsOk, mathOkU, Bool.and_eq_true] at h
    obtain ⟨⟨⟨⟨h1, h2⟩, h3⟩, h4⟩, h5⟩ := h
    obtain ⟨k, hk⟩ := MOk_parts T st (render rest) h4 body h2
    rw [h3] at hk
    have := OkSrc.math k _ (render rest) _ h1 hk (OkSrc_of_segsOk T st rest h5)
    simpa [render, Seg.render, usedNames] using this
  | .com text :: rest, h => by
    simp only [segsOk, comOk, Bool.and_eq_true] at h
    obtain ⟨⟨⟨h1, h2⟩, h3⟩, h4⟩ := h
    have := OkSrc.com (text ++ render rest) _ h3
      (OkSrc_after_com T st text (render rest) _ h1 h2 (OkSrc_of_segsOk T st rest h4))
    simpa [render, Seg.render, usedNames] using this

/-- the conditions depend on the state only through the fields of `Same` -/
theorem MOk.congr {T : PTables} {st st' : PState} (hs : Same st st') {k : Nat} {b : Bool} {s R : Str}
    (h : MOk T st k b s R) : MOk T st' k b s R := by
  induction h with
  | fin R h => exact .fin R h
  | sp k b c cs R h1 h2 _ ih => exact .sp k b c cs R h1 h2 ih
  | ch k b c cs R h1 _ ih => exact .ch k b c cs R h1 ih
  | cw k b name X R h1 _ ih =>
    refine .cw k b name X R ?_ ih
    rw [← h1]
    simp only [mcwOk, cwOk, lookupMacro, hs.macros, hs.mtm]
  | spec k b c tl X R h1 _ ih => exact .spec k b c tl X R h1 ih

theorem OkSrc.congr {T : PTables} {st st' : PState} (hs : Same st st') {s : Str} {names : List Str}
    (h : OkSrc T st s names) : OkSrc T st' s names := by
  induction h with
  | nil => exact .nil
  | chr c cs names hat _ ih =>
    refine .chr c cs names ?_ ih
    rw [← hat]
    simp only [okAtU, activeChars_congr T st st' hs.lang, shortKeys_congr T st st' hs.lang]
  | cw name R names hcw _ ih =>
    refine .cw name R names ?_ ih
    rw [← hcw]
    simp only [cwOk, lookupMacro, hs.macros]
  | beg name R names hb _ ih =>
    refine .beg name R names ?_ ih
    rw [← hb]
    have hi : inertChar T st' = inertChar T st := by
      funext c; simp only [inertChar, activeChars_congr T st st' hs.lang]
    simp only [ubegOk, lookupEnv, hs.envs, hi]
  | en name R names hb _ ih =>
    refine .en name R names ?_ ih
    rw [← hb]
    have hi : inertChar T st' = inertChar T st := by
      funext c; simp only [inertChar, activeChars_congr T st st' hs.lang]
    simp only [uendOk, lookupEnv, hs.envs, hi]
  | van name key R names hd _ ih =>
    refine .van name key R names ?_ ih
    rw [← hd]
    simp only [vanOk, lookupMacro, hs.macros]
  | math k X R names hd hm _ ih => exact .math k X R names hd (hm.congr hs) ih
  | com cs names hc _ ih =>
    refine .com cs names ?_ ih
    rw [← hc]
    simp only [comTokOk, hs.skipB, activeChars_congr T st st' hs.lang]

/-! ### the scanner on a formula body -/

structure MspecFacts (T : PTables) (c : Char) (tl X : Str) : Prop where
  nsp : isSpace c = false
  npc : c ≠ '%'
  nhs : c ≠ '#'
  special : matchSpecial T.toTables (c :: (tl ++ X)) = some (c :: tl)
  nStop : ["$".toList, "\\)".toList].contains (c :: tl) = false
  nSpace : T.mathSpace.contains (c :: tl) = false
  val : T.mathIgnore.contains (c :: tl) = true ∨ ∃ v, T.toTables.specialVal (c :: tl) = some v

theorem mspecFacts {T : PTables} {c : Char} {tl X : Str} (h : mspecOk T (c :: tl) X = true) :
    MspecFacts T c tl X := by
  simp only [mspecOk, Bool.and_eq_true, Bool.not_eq_true', bne_iff_ne, ne_eq, beq_iff_eq,
    Bool.or_eq_true, List.cons_append] at h
  obtain ⟨⟨⟨⟨⟨⟨h1, h2⟩, h3⟩, h4⟩, h5⟩, h6⟩, h7⟩ := h
  exact ⟨h1, h2, h3, h4, h5, h6, h7.imp id Option.isSome_iff_exists.mp⟩

/-- the scanner on a special sequence -/
theorem nextToken_special (T : PTables) (src : Str) (pos : Nat) (c : Char) (tl X : Str)
    (h : MspecFacts T c tl X) :
    nextToken T.toTables src pos (c :: (tl ++ X))
      = { tok := { kind := .special, pos := pos, txt := c :: tl }, len := tl.length + 1 } := by
  have h2 : (c == '%') = false := by simpa using h.npc
  have h3 : (c == '#') = false := by simpa using h.nhs
  simp [nextToken, h.nsp, h2, h3, h.special]

theorem MOk_drop_space (T : PTables) (st : PState) (R : Str) (b : Bool) :
    ∀ (k : Nat) (n : Nat) (s : Str), k ≤ s.length → MOk T st n b s R →
      (∀ x ∈ s.take k, isSpace x = true) → ∃ n', MOk T st n' b (s.drop k) R ∧ n = n' + k
  | 0, n, _, _, h, _ => ⟨n, h, rfl⟩
  | k + 1, _, [], hk, _, _ => by simp at hk
  | k + 1, _, c :: cs, hk, h, hsp => by
    have hc : isSpace c = true := hsp c (by simp)
    cases h with
    | fin _ _ => exact absurd hc (by decide)
    | sp n0 _ _ _ _ _ _ h2 =>
      obtain ⟨n', h3, e⟩ := MOk_drop_space T st R b k n0 cs (by simpa using hk) h2
        (fun x hx => hsp x (by simp [hx]))
      exact ⟨n', h3, by omega⟩
    | ch n0 b0 _ _ _ hm _ =>
      have := (mathAtFacts hm).nsp
      rw [hc] at this; cases this
    | cw n0 b0 name X _ _ _ => exact absurd hc (by decide)
    | spec n0 b0 _ tl X _ hm _ =>
      have := (mspecFacts hm).nsp
      rw [hc] at this; cases this

structure McwFacts (T : PTables) (st : PState) (name X : Str) : Prop where
  cw : CwFacts T st name X
  nText : st.mathTextMacros.contains ('\\' :: name) = false
  nSpace : T.mathSpace.contains ('\\' :: name) = false
  nIgnore : T.mathIgnore.contains ('\\' :: name) = false

theorem mcwFacts {T : PTables} {st : PState} {name X : Str} (h : mcwOk T st name X = true) :
    McwFacts T st name X := by
  simp only [mcwOk, Bool.and_eq_true, Bool.not_eq_true'] at h
  obtain ⟨⟨⟨h1, h2⟩, h3⟩, h4⟩ := h
  exact ⟨cwFacts h1, h2, h3, h4⟩

theorem mcwTok_cwTok {T : PTables} {st : PState} {name X : Str} (h : McwFacts T st name X) (pos : Nat) :
    McwTok T st (cwTok pos name) := by
  refine ⟨rfl, ?_, h.nText, h.cw.undecl, h.nSpace, h.nIgnore⟩
  have hne := h.cw.ne
  have htw := h.cw.tw
  cases name with
  | nil => exact absurd rfl hne
  | cons a as =>
    have ha : macroChar a = true := by
      by_cases hm : macroChar a = true
      · exact hm
      · simp [hm] at htw
    have : a ≠ ')' := by intro e; subst e; exact absurd ha (by decide)
    simp [cwTok, this]

/-- what the scanner loop yields on a formula body of `k - 1` characters and the closing `$` -/
structure MRun (T : PTables) (st : PState) (k : Nat) (b : Bool) (steps : List ScanStep) (d2 : Tok) :
    Prop where
  ok : ∀ x ∈ steps, x.diag = none ∧ x.extra = [] ∧ MItem T st x.tok
  dollar : DollarTok d2
  cost : mcost (steps.map (·.tok)) + 1 ≤ k
  len : steps.length + 1 ≤ k
  vis : b = true → (steps.map (·.tok)).any (mvis T) = true

/-- the scanner loop runs through a formula body and its closing `$` -/
theorem scanSteps_mbody (T : PTables) (st : PState) (src : Str) :
    ∀ (n k : Nat) (b : Bool) (s R : Str) (pos fuel : Nat), k ≤ n → k ≤ fuel → MOk T st k b s R →
      ∃ steps d2, MRun T st k b steps d2 ∧
        scanSteps T.toTables src fuel pos s
          = (steps ++ { tok := d2, len := 1 } ::
               (scanSteps T.toTables src (fuel - steps.length - 1) (pos + k) R).1,
             (scanSteps T.toTables src (fuel - steps.length - 1) (pos + k) R).2) := by
  intro n
  induction n with
  | zero =>
    intro k b s R pos fuel hn _ h
    cases h <;> simp at hn
  | succ n ih =>
    intro k b s R pos fuel hn hf h
    cases h with
    | fin _ hd =>
      obtain ⟨f, rfl⟩ : ∃ f, fuel = f + 1 := ⟨fuel - 1, by omega⟩
      obtain ⟨kd, hkd, hnt⟩ := nextToken_dollar T src pos R hd
      refine ⟨[], { kind := kd, pos := pos, txt := ['$'] }, ⟨by simp, ⟨hkd, rfl⟩, by simp [mcost],
        by simp, by simp⟩, ?_⟩
      rw [scanSteps_step T.toTables src f pos _ _ _ hnt (by simp)]
      simp
    | sp k0 _ c cs _ hsp hnl hsub =>
      obtain ⟨f, rfl⟩ : ∃ f, fuel = f + 1 := ⟨fuel - 1, by omega⟩
      generalize hw : (c :: cs).takeWhile isSpace = w at hnl
      have hw' : w = c :: cs.takeWhile isSpace := by rw [← hw]; simp [hsp]
      have hwpos : 1 ≤ w.length := by rw [hw']; simp
      have hwle : w.length ≤ (c :: cs).length := by
        rw [← hw]; exact ScannerAux.length_takeWhile_le' _ _
      have hnt : nextToken T.toTables src pos (c :: cs)
          = { tok := { kind := .space, pos := pos, txt := w }, len := w.length } := by
        have h1 : nextToken T.toTables src pos (c :: cs) = scanSpace pos (c :: cs) := by
          simp [nextToken, hsp]
        rw [h1]
        simp only [scanSpace, hw]
        simp [hnl]
      obtain ⟨n', hsub', e⟩ := MOk_drop_space T st _ _ w.length (k0 + 1) (c :: cs) hwle
        (MOk.sp k0 _ c cs _ hsp (by rw [hw]; exact hnl) hsub) (by
          intro x hx
          rw [← hw, ScannerAux.take_length_takeWhile] at hx
          exact mem_takeWhile_imp _ _ _ hx)
      obtain ⟨steps', d2, B, hsc⟩ := ih n' _ _ _ (pos + w.length) f (by omega) (by omega) hsub'
      refine ⟨{ tok := { kind := .space, pos := pos, txt := w }, len := w.length } :: steps', d2,
        ⟨?_, B.dollar, ?_, ?_, ?_⟩, ?_⟩
      · intro x hx
        rcases List.mem_cons.mp hx with rfl | hx
        · exact ⟨rfl, rfl, Or.inr (Or.inl rfl)⟩
        · exact B.ok x hx
      · have := B.cost
        simp only [List.map_cons, mcost, reduceCtorEq, beq_iff_eq, if_false, beq_self_eq_true,
          if_true]
        omega
      · have := B.len
        simp only [List.length_cons]; omega
      · intro hb
        have := B.vis hb
        simpa [mvis] using this
      · rw [scanSteps_step T.toTables src f pos _ _ _ hnt (by show w.length ≠ 0; omega)]
        simp only []
        rw [hsc]
        simp only [List.cons_append, List.length_cons]
        have e1 : pos + w.length + n' = pos + (k0 + 1) := by omega
        have e2 : f + 1 - (steps'.length + 1) - 1 = f - steps'.length - 1 := by omega
        rw [e1, e2]
    | ch k0 b0 c cs _ hm hsub =>
      obtain ⟨f, rfl⟩ : ∃ f, fuel = f + 1 := ⟨fuel - 1, by omega⟩
      have facts := mathAtFacts hm
      have hnt := nextToken_body T src pos c cs facts
      have hbt := bodyTok_bodyTokAt T pos c cs facts
      obtain ⟨steps', d2, B, hsc⟩ := ih k0 _ _ _ (pos + 1) f (by omega) (by omega) hsub
      refine ⟨{ tok := bodyTokAt pos c, len := 1 } :: steps', d2, ⟨?_, B.dollar, ?_, ?_, ?_⟩, ?_⟩
      · intro x hx
        rcases List.mem_cons.mp hx with rfl | hx
        · exact ⟨rfl, rfl, Or.inl hbt⟩
        · exact B.ok x hx
      · have := B.cost
        simp only [List.map_cons, mcost, bodyTokAt, reduceCtorEq, beq_iff_eq, if_false]
        omega
      · have := B.len
        simp only [List.length_cons]; omega
      · intro _
        simp [mvis, bodyTokAt]
      · rw [scanSteps_step T.toTables src f pos _ _ _ hnt (by simp)]
        simp only [List.drop_succ_cons, List.drop_zero]
        rw [hsc]
        simp only [List.cons_append, List.length_cons]
        have e1 : pos + 1 + k0 = pos + (k0 + 1) := by omega
        have e2 : f + 1 - (steps'.length + 1) - 1 = f - steps'.length - 1 := by omega
        rw [e1, e2]
    | cw k0 b0 name X _ hc hsub =>
      obtain ⟨f, rfl⟩ : ∃ f, fuel = f + 1 := ⟨fuel - 1, by omega⟩
      have facts := mcwFacts hc
      have hname := List.length_pos_iff.mpr facts.cw.ne
      have hnt := nextToken_cw T st src pos name X facts.cw
      have hdrop : ('\\' :: (name ++ X)).drop (name.length + 1) = X := by simp
      obtain ⟨steps', d2, B, hsc⟩ := ih k0 _ _ _ (pos + (name.length + 1)) f (by omega) (by omega) hsub
      refine ⟨{ tok := cwTok pos name, len := name.length + 1 } :: steps', d2,
        ⟨?_, B.dollar, ?_, ?_, ?_⟩, ?_⟩
      · intro x hx
        rcases List.mem_cons.mp hx with rfl | hx
        · exact ⟨rfl, rfl, Or.inr (Or.inr (Or.inl (mcwTok_cwTok facts pos)))⟩
        · exact B.ok x hx
      · have := B.cost
        simp only [List.map_cons, mcost, cwTok, beq_self_eq_true, if_true]
        omega
      · have := B.len
        simp only [List.length_cons]; omega
      · intro _
        simp [mvis, cwTok]
      · rw [scanSteps_step T.toTables src f pos _ _ _ hnt (by simp)]
        simp only [hdrop]
        rw [hsc]
        simp only [List.cons_append, List.length_cons]
        have e1 : pos + (name.length + 1) + k0 = pos + (k0 + (name.length + 1)) := by omega
        have e2 : f + 1 - (steps'.length + 1) - 1 = f - steps'.length - 1 := by omega
        rw [e1, e2]
    | spec k0 b0 c tl X _ hc hsub =>
      obtain ⟨f, rfl⟩ : ∃ f, fuel = f + 1 := ⟨fuel - 1, by omega⟩
      have facts := mspecFacts hc
      have hnt := nextToken_special T src pos c tl X facts
      have hdrop : (c :: (tl ++ X)).drop (tl.length + 1) = X := by simp
      obtain ⟨steps', d2, B, hsc⟩ := ih k0 _ _ _ (pos + (tl.length + 1)) f (by omega) (by omega) hsub
      have hitem : MItem T st { kind := .special, pos := pos, txt := c :: tl } := by
        rcases facts.val with hv | hv
        · exact Or.inr (Or.inr (Or.inr (Or.inr ⟨rfl, facts.nStop, hv⟩)))
        · cases hi : T.mathIgnore.contains (c :: tl) with
          | true => exact Or.inr (Or.inr (Or.inr (Or.inr ⟨rfl, facts.nStop, hi⟩)))
          | false => exact Or.inr (Or.inr (Or.inr (Or.inl ⟨rfl, facts.nStop, hi, facts.nSpace, hv⟩)))
      refine ⟨{ tok := { kind := .special, pos := pos, txt := c :: tl }, len := tl.length + 1 } :: steps',
        d2, ⟨?_, B.dollar, ?_, ?_, ?_⟩, ?_⟩
      · intro x hx
        rcases List.mem_cons.mp hx with rfl | hx
        · exact ⟨rfl, rfl, hitem⟩
        · exact B.ok x hx
      · have := B.cost
        simp only [List.map_cons, mcost, reduceCtorEq, beq_iff_eq, if_false]
        omega
      · have := B.len
        simp only [List.length_cons]; omega
      · intro hb
        simp only [Bool.or_eq_true, Bool.not_eq_true'] at hb
        simp only [List.map_cons, List.any_cons, Bool.or_eq_true, mvis]
        rcases hb with hb | hb
        · left; rw [hb]; rfl
        · right; exact B.vis hb
      · rw [scanSteps_step T.toTables src f pos _ _ _ hnt (by simp)]
        simp only [hdrop]
        rw [hsc]
        simp only [List.cons_append, List.length_cons]
        have e1 : pos + (tl.length + 1) + k0 = pos + (k0 + (tl.length + 1)) := by omega
        have e2 : f + 1 - (steps'.length + 1) - 1 = f - steps'.length - 1 := by omega
        rw [e1, e2]

/-! ### the scanner on a document -/

theorem MOk_len {T : PTables} {st : PState} {k : Nat} {b : Bool} {s R : Str} (h : MOk T st k b s R) :
    s.length = k + R.length := by
  induction h with
  | fin R _ => simp; omega
  | sp k b c cs R _ _ _ ih => simp [ih]; omega
  | ch k b c cs R _ _ ih => simp [ih]; omega
  | cw k b name X R _ _ ih => simp [ih]; omega
  | spec k b c tl X R _ _ ih => simp [ih]; omega

theorem okAtU_snd {T : PTables} {st : PState} {c : Char} {cs : Str} (h : okAtU T st c cs = true) :
    isSpace c = true ∨ (structuralChar c = false ∧ matchSpecial T.toTables (c :: cs) = none) := by
  simp only [okAtU, Bool.and_eq_true, Bool.or_eq_true] at h
  rcases h.2 with h | ⟨h1, h2⟩
  · exact Or.inl h
  · refine Or.inr ⟨by simpa using h1, ?_⟩
    cases hx : matchSpecial T.toTables (c :: cs) with
    | none => rfl
    | some _ => rw [hx] at h2; simp at h2

theorem firstTokTxtU_of_text (c : Char) (cs : Str) (h : isSpace c = true ∨ structuralChar c = false) :
    firstTokTxtU (c :: cs) = firstTokTxt (c :: cs) := by
  unfold firstTokTxtU firstTokTxt
  by_cases hsp : isSpace c = true
  · simp [hsp]
  · rcases h with h | h
    · exact absurd h hsp
    · have h1 : c ≠ '\\' := by intro e; subst e; exact absurd h (by decide)
      have h2 : c ≠ '%' := by intro e; subst e; exact absurd h (by decide)
      simp [hsp, h1, h2]

/-- what the scanner loop yields on a well-formed source, and what the token buffer means -/
structure ScanFacts (T : PTables) (st : PState) (rest : Str) (nms : List Str)
    (steps : List ScanStep) : Prop where
  ok : ∀ s ∈ steps, s.diag = none ∧ s.extra = []
  pieces : ∃ ps, steps.map (·.tok) = flat ps ∧ PiecesOk T st ps ∧ names ps = nms ∧
    cost ps ≤ rest.length
  first : ∀ s ss, steps = s :: ss → s.tok.txt = firstTokTxtU rest

theorem ScanFacts_nil (T : PTables) (st : PState) : ScanFacts T st [] [] [] :=
  ⟨by simp, ⟨[], rfl, trivial, rfl, by simp [cost]⟩, by simp⟩

structure UEnvFacts (T : PTables) (st : PState) (name R : Str) : Prop where
  b1 : braceAt T '{' (name ++ '}' :: R) = true
  ne : name ≠ []
  inert : ∀ c ∈ name, inertChar T st c = true
  b2 : braceAt T '}' R = true
  env : lookupEnv st name = none

theorem ubegFacts {T : PTables} {st : PState} {name R : Str} (h : ubegOk T st name R = true) :
    matchSpecial T.toTables ('\\' :: (nBegin ++ '{' :: (name ++ '}' :: R))) = none ∧
    startsWith ('{' :: (name ++ '}' :: R)) sVerbatimArg = false ∧ UEnvFacts T st name R := by
  simp only [ubegOk, Bool.and_eq_true, Bool.not_eq_true', Option.isNone_iff_eq_none,
    List.all_eq_true] at h
  obtain ⟨⟨⟨⟨⟨⟨h1, h2⟩, h3⟩, h4⟩, h5⟩, h6⟩, h7⟩ := h
  exact ⟨h1, h2, h3, by simpa using h4, h5, h6, h7⟩

theorem uendFacts {T : PTables} {st : PState} {name R : Str} (h : uendOk T st name R = true) :
    matchSpecial T.toTables ('\\' :: (nEnd ++ '{' :: (name ++ '}' :: R))) = none ∧
    UEnvFacts T st name R := by
  simp only [uendOk, Bool.and_eq_true, Bool.not_eq_true', Option.isNone_iff_eq_none,
    List.all_eq_true] at h
  obtain ⟨⟨⟨⟨⟨h1, h3⟩, h4⟩, h5⟩, h6⟩, h7⟩ := h
  exact ⟨h1, h3, by simpa using h4, h5, h6, h7⟩

/-- the scanner loop on a well-formed source -/
theorem scanSteps_u2 (T : PTables) (st : PState) (src : Str) :
    ∀ (n fuel pos : Nat) (rest : Str) (nms : List Str),
    rest.length ≤ n → rest.length ≤ fuel → OkSrc T st rest nms →
    (scanSteps T.toTables src fuel pos rest).2 = true ∧
    ScanFacts T st rest nms (scanSteps T.toTables src fuel pos rest).1 := by
  intro n
  induction n with
  | zero =>
    intro fuel pos rest nms hn _ hok
    cases rest with
    | nil => cases hok; exact ⟨by simp [scanSteps], by simpa [scanSteps] using ScanFacts_nil T st⟩
    | cons c cs => simp at hn
  | succ n ih =>
    intro fuel pos rest nms hn hf hok
    cases rest with
    | nil => cases hok; exact ⟨by simp [scanSteps], by simpa [scanSteps] using ScanFacts_nil T st⟩
    | cons c cs =>
      obtain ⟨fuel, rfl⟩ : ∃ f, fuel = f + 1 := ⟨fuel - 1, by simp at hf; omega⟩
      have hok0 := hok
      cases hok with
      | chr _ _ _ hat hsub0 =>
        have hsnd := okAtU_snd hat
        obtain ⟨hp, hone⟩ := nextToken_text T src pos c cs hsnd
        generalize hs : nextToken T.toTables src pos (c :: cs) = s at hp hone
        have h1 := hp.len_pos
        have h2 := hp.len_le
        have hsub : OkSrc T st ((c :: cs).drop s.len) nms := by
          by_cases hsp : isSpace c = true
          · refine OkSrc_drop_space T st nms s.len (c :: cs) h2 hok0 ?_
            intro x hx
            rw [← hp.txt, hp.first] at hx
            simp only [firstTokTxt, hsp, if_true] at hx
            exact mem_takeWhile_imp _ _ _ hx
          · have := (hone (by simpa using hsp)).1
            rw [this]
            exact hsub0
        rw [scanSteps_step T.toTables src fuel pos c cs s hs (by omega)]
        have hl : ((c :: cs).drop s.len).length ≤ fuel := by
          simp only [List.length_drop]; simp only [List.length_cons] at hf h2 ⊢; omega
        have hl' : ((c :: cs).drop s.len).length ≤ n := by
          simp only [List.length_drop]; simp only [List.length_cons] at hn h2 ⊢; omega
        obtain ⟨i1, I⟩ := ih fuel (pos + s.len) ((c :: cs).drop s.len) nms hl' hl hsub
        obtain ⟨ps', hflat, hpok, hnames, hcost⟩ := I.pieces
        refine ⟨i1, ?_, ?_, ?_⟩
        · intro x hx
          rcases List.mem_cons.mp hx with rfl | hx
          · exact ⟨hp.diag, hp.extra⟩
          · exact I.ok x hx
        · refine ⟨.tok s.tok :: ps', by simp [flat, Piece.toks, hflat], ⟨hp.tok, ?_, hpok⟩, ?_, ?_⟩
          · -- the short-macro branch
            rw [← hflat]
            have hact := hat
            simp only [okAtU, Bool.and_eq_true, Bool.or_eq_true, Bool.not_eq_true'] at hact
            rcases hact.1 with hna | ⟨hns, hk⟩
            · left
              have : s.tok.txt = c :: (cs.take (s.len - 1)) := by
                rw [hp.txt]
                obtain ⟨k, hk⟩ : ∃ k, s.len = k + 1 := ⟨s.len - 1, by omega⟩
                rw [hk]; simp
              rw [this]
              exact not_active_cons T st c _ hna
            · right
              have hlen := (hone hns).1
              have htxt : s.tok.txt = [c] := by rw [hp.txt, hlen]; rfl
              have i4 := I.first
              rw [hlen] at i4 ⊢
              simp only [List.drop_succ_cons, List.drop_zero] at i4 ⊢
              cases hr : (scanSteps T.toTables src fuel (pos + 1) cs).1 with
              | nil => rfl
              | cons s2 ss =>
                simp only [List.map_cons]
                apply expandShortMacro_none
                rw [htxt, i4 s2 ss hr]
                rcases hk with hk | hk
                · cases cs with
                  | nil => cases fuel <;> simp [scanSteps] at hr
                  | cons => simp at hk
                · simpa using hk
          · simpa [names] using hnames
          · simp only [cost, List.length_cons, List.length_drop] at hcost h2 ⊢
            omega
        · intro s' ss' he
          simp only [List.cons.injEq] at he
          rw [← he.1, hp.first]
          refine (firstTokTxtU_of_text c cs ?_).symm
          rcases hsnd with h | h
          · exact Or.inl h
          · exact Or.inr h.1
      | cw name R names' hcw hsub =>
        have facts := cwFacts hcw
        have hname := List.length_pos_iff.mpr facts.ne
        have hdrop : ('\\' :: (name ++ R)).drop (name.length + 1) = R := by simp
        simp only [List.length_cons, List.length_append] at hf hn
        rw [scanSteps_step T.toTables src fuel pos _ _ _ (nextToken_cw T st src pos name R facts)
          (by simp), hdrop]
        obtain ⟨i1, I⟩ := ih fuel (pos + (name.length + 1)) R names' (by omega) (by omega) hsub
        obtain ⟨ps', hflat, hpok, hnames, hcost⟩ := I.pieces
        refine ⟨i1, ?_, ?_, ?_⟩
        · intro x hx
          rcases List.mem_cons.mp hx with rfl | hx
          · exact ⟨rfl, rfl⟩
          · exact I.ok x hx
        · refine ⟨.cw (cwTok pos name) :: ps', by simp [flat, Piece.toks, hflat],
            ⟨cwTokOk_cwTok facts pos, hpok⟩, by simp [names, cwTok, hnames], ?_⟩
          simp only [cost, List.length_cons, List.length_append]
          omega
        · intro s' ss' he
          simp only [List.cons.injEq] at he
          rw [← he.1]
          simp [firstTokTxtU, cwTok, facts.tw, show isSpace '\\' = false by decide]
      | beg name R names' hd hsub =>
        obtain ⟨hsp, hnv, D⟩ := ubegFacts hd
        have hname := List.length_pos_iff.mpr D.ne
        simp only [List.length_cons, List.length_append, nBegin] at hf hn
        obtain ⟨g, hg⟩ : ∃ g, fuel = g + 1 := ⟨fuel - 1, by omega⟩
        have hn1 := nextToken_begin T src pos _ hsp hnv
        have hn2 := nextToken_brace T src (pos + 6) '{' _ (Or.inl rfl) D.b1
        have hn3 := nextToken_brace T src (pos + 6 + 1 + name.length) '}' R (Or.inr rfl) D.b2
        obtain ⟨bsteps, B, hrun⟩ := scanSteps_body T st src R name.length name (pos + 6 + 1) g
          (Nat.le_refl _) (by omega) D.inert
        have hBl := B.len
        obtain ⟨g', hg'⟩ : ∃ g', g - bsteps.length = g' + 1 := ⟨g - bsteps.length - 1, by omega⟩
        have hpos : pos + 6 + 1 + name.length + 1 = pos + (name.length + 8) := by omega
        obtain ⟨i1, I⟩ := ih g' (pos + (name.length + 8)) R names' (by omega) (by omega) hsub
        obtain ⟨ps', hflat, hpok, hnames, hcost⟩ := I.pieces
        have hsteps : scanSteps T.toTables src (fuel + 1) pos ('\\' :: (nBegin ++ '{' :: (name ++ '}' :: R)))
            = ({ tok := begTok pos, len := 6 } ::
               { tok := { kind := .special, pos := pos + 6, txt := ['{'] }, len := 1 } ::
               (bsteps ++
                 { tok := { kind := .special, pos := pos + 6 + 1 + name.length, txt := ['}'] }, len := 1 } ::
                 (scanSteps T.toTables src g' (pos + (name.length + 8)) R).1),
               (scanSteps T.toTables src g' (pos + (name.length + 8)) R).2) := by
          rw [scanSteps_step T.toTables src fuel pos _ _ _ hn1 (by simp),
            show ('\\' :: (nBegin ++ '{' :: (name ++ '}' :: R))).drop 6 = '{' :: (name ++ '}' :: R) from rfl]
          simp only []
          rw [hg, scanSteps_step T.toTables src g (pos + 6) _ _ _ hn2 (by simp)]
          simp only [List.drop_succ_cons, List.drop_zero]
          rw [hrun, hg', scanSteps_step T.toTables src g' _ _ _ _ hn3 (by simp)]
          simp only [List.drop_succ_cons, List.drop_zero, hpos]
        rw [hsteps]
        have hbt : bodyTxt (bsteps.map (·.tok)) = name := B.txt
        refine ⟨i1, ?_, ?_, ?_⟩
        · intro x hx
          simp only [List.mem_cons, List.mem_append] at hx
          rcases hx with rfl | rfl | hx | rfl | hx
          · exact ⟨rfl, rfl⟩
          · exact ⟨rfl, rfl⟩
          · exact ⟨(B.ok x hx).1, (B.ok x hx).2.1⟩
          · exact ⟨rfl, rfl⟩
          · exact I.ok x hx
        · refine ⟨.beg pos (pos + 6) (pos + 6 + 1 + name.length) (bsteps.map (·.tok)) :: ps',
            ?_, ⟨nameToks_of_bodyRun B D.ne, ?_, hpok⟩, ?_, ?_⟩
          · simp [flat, Piece.toks, hflat, lbr, rbr]
          · rw [hbt]; exact D.env
          · simp [names, hbt, hnames]
          · simp only [cost, List.length_cons, List.length_append, List.length_map, nBegin]
            omega
        · intro s' ss' he
          simp only [List.cons.injEq] at he
          rw [← he.1]
          have htw : (nBegin ++ '{' :: (name ++ '}' :: R)).takeWhile macroChar = nBegin :=
            takeWhile_append_stop _ _ _ (by decide) rfl
          simp [firstTokTxtU, begTok, sBegin_eq, show isSpace '\\' = false by decide, htw]
      | en name R _ hd hsub =>
        obtain ⟨hsp, D⟩ := uendFacts hd
        have hname := List.length_pos_iff.mpr D.ne
        simp only [List.length_cons, List.length_append, nEnd] at hf hn
        obtain ⟨g, hg⟩ : ∃ g, fuel = g + 1 := ⟨fuel - 1, by omega⟩
        have hn1 := nextToken_end T src pos _ hsp
        have hn2 := nextToken_brace T src (pos + 4) '{' _ (Or.inl rfl) D.b1
        have hn3 := nextToken_brace T src (pos + 4 + 1 + name.length) '}' R (Or.inr rfl) D.b2
        obtain ⟨bsteps, B, hrun⟩ := scanSteps_body T st src R name.length name (pos + 4 + 1) g
          (Nat.le_refl _) (by omega) D.inert
        have hBl := B.len
        obtain ⟨g', hg'⟩ : ∃ g', g - bsteps.length = g' + 1 := ⟨g - bsteps.length - 1, by omega⟩
        have hpos : pos + 4 + 1 + name.length + 1 = pos + (name.length + 6) := by omega
        obtain ⟨i1, I⟩ := ih g' (pos + (name.length + 6)) R nms (by omega) (by omega) hsub
        obtain ⟨ps', hflat, hpok, hnames, hcost⟩ := I.pieces
        have hsteps : scanSteps T.toTables src (fuel + 1) pos ('\\' :: (nEnd ++ '{' :: (name ++ '}' :: R)))
            = ({ tok := endTok pos, len := 4 } ::
               { tok := { kind := .special, pos := pos + 4, txt := ['{'] }, len := 1 } ::
               (bsteps ++
                 { tok := { kind := .special, pos := pos + 4 + 1 + name.length, txt := ['}'] }, len := 1 } ::
                 (scanSteps T.toTables src g' (pos + (name.length + 6)) R).1),
               (scanSteps T.toTables src g' (pos + (name.length + 6)) R).2) := by
          rw [scanSteps_step T.toTables src fuel pos _ _ _ hn1 (by simp),
            show ('\\' :: (nEnd ++ '{' :: (name ++ '}' :: R))).drop 4 = '{' :: (name ++ '}' :: R) from rfl]
          simp only []
          rw [hg, scanSteps_step T.toTables src g (pos + 4) _ _ _ hn2 (by simp)]
          simp only [List.drop_succ_cons, List.drop_zero]
          rw [hrun, hg', scanSteps_step T.toTables src g' _ _ _ _ hn3 (by simp)]
          simp only [List.drop_succ_cons, List.drop_zero, hpos]
        rw [hsteps]
        have hbt : bodyTxt (bsteps.map (·.tok)) = name := B.txt
        refine ⟨i1, ?_, ?_, ?_⟩
        · intro x hx
          simp only [List.mem_cons, List.mem_append] at hx
          rcases hx with rfl | rfl | hx | rfl | hx
          · exact ⟨rfl, rfl⟩
          · exact ⟨rfl, rfl⟩
          · exact ⟨(B.ok x hx).1, (B.ok x hx).2.1⟩
          · exact ⟨rfl, rfl⟩
          · exact I.ok x hx
        · refine ⟨.en pos (pos + 4) (pos + 4 + 1 + name.length) (bsteps.map (·.tok)) :: ps',
            ?_, ⟨nameToks_of_bodyRun B D.ne, ?_, hpok⟩, ?_, ?_⟩
          · simp [flat, Piece.toks, hflat, lbr, rbr]
          · rw [hbt]; exact D.env
          · simp [names, hnames]
          · simp only [cost, List.length_cons, List.length_append, List.length_map, nEnd]
            omega
        · intro s' ss' he
          simp only [List.cons.injEq] at he
          rw [← he.1]
          have htw : (nEnd ++ '{' :: (name ++ '}' :: R)).takeWhile macroChar = nEnd :=
            takeWhile_append_stop _ _ _ (by decide) rfl
          simp [firstTokTxtU, endTok, sEnd_eq, show isSpace '\\' = false by decide, htw]
      | van name key R _ hd hsub =>
        have V := vanFacts hd
        have hname := List.length_pos_iff.mpr V.cw.ne
        simp only [List.length_cons, List.length_append] at hf hn
        obtain ⟨g, hg⟩ : ∃ g, fuel = g + 1 := ⟨fuel - 1, by omega⟩
        have hn1 := nextToken_cw T _ src pos name _ V.cw
        have hn2 := nextToken_brace T src (pos + (name.length + 1)) '{' _ (Or.inl rfl) V.b1
        have hn3 := nextToken_brace T src (pos + (name.length + 1) + 1 + key.length) '}' R
          (Or.inr rfl) V.b2
        obtain ⟨bsteps, B, hrun⟩ := scanSteps_key T src R key.length key
          (pos + (name.length + 1) + 1) g (Nat.le_refl _) (by omega) V.key
        have hBl := B.len
        obtain ⟨g', hg'⟩ : ∃ g', g - bsteps.length = g' + 1 := ⟨g - bsteps.length - 1, by omega⟩
        have hpos : pos + (name.length + 1) + 1 + key.length + 1 = pos + vanLen name key := by
          simp only [vanLen]; omega
        obtain ⟨i1, I⟩ := ih g' (pos + vanLen name key) R nms (by omega) (by omega) hsub
        obtain ⟨ps', hflat, hpok, hnames, hcost⟩ := I.pieces
        have hd1 : ('\\' :: (name ++ '{' :: (key ++ '}' :: R))).drop (name.length + 1)
            = '{' :: (key ++ '}' :: R) := by simp
        have hsteps : scanSteps T.toTables src (fuel + 1) pos
              ('\\' :: (name ++ '{' :: (key ++ '}' :: R)))
            = ({ tok := cwTok pos name, len := name.length + 1 } ::
               { tok := { kind := .special, pos := pos + (name.length + 1), txt := ['{'] }, len := 1 } ::
               (bsteps ++
                 { tok := { kind := .special, pos := pos + (name.length + 1) + 1 + key.length,
                            txt := ['}'] }, len := 1 } ::
                 (scanSteps T.toTables src g' (pos + vanLen name key) R).1),
               (scanSteps T.toTables src g' (pos + vanLen name key) R).2) := by
          rw [hg, scanSteps_step T.toTables src (g + 1) pos _ _ _ hn1 (by simp), hd1]
          simp only []
          rw [scanSteps_step T.toTables src g _ _ _ _ hn2 (by simp)]
          simp only [List.drop_succ_cons, List.drop_zero]
          rw [hrun, hg', scanSteps_step T.toTables src g' _ _ _ _ hn3 (by simp)]
          simp only [List.drop_succ_cons, List.drop_zero, hpos]
        rw [hsteps]
        refine ⟨i1, ?_, ?_, ?_⟩
        · intro x hx
          simp only [List.mem_cons, List.mem_append] at hx
          rcases hx with rfl | rfl | hx | rfl | hx
          · exact ⟨rfl, rfl⟩
          · exact ⟨rfl, rfl⟩
          · exact ⟨(B.ok x hx).1, (B.ok x hx).2.1⟩
          · exact ⟨rfl, rfl⟩
          · exact I.ok x hx
        · refine ⟨.van pos (pos + (name.length + 1)) (pos + (name.length + 1) + 1 + key.length) name
              (bsteps.map (·.tok)) :: ps', ?_, ⟨V.vn, ?_, hpok⟩, ?_, ?_⟩
          · simp [flat, Piece.toks, hflat, lbr, rbr]
          · intro t ht
            obtain ⟨x, hx, rfl⟩ := List.mem_map.mp ht
            exact (B.ok x hx).2.2
          · simp [names, hnames]
          · simp only [cost, List.length_cons, List.length_append]
            omega
        · intro s' ss' he
          simp only [List.cons.injEq] at he
          rw [← he.1]
          simp [firstTokTxtU, cwTok, V.cw.tw, show isSpace '\\' = false by decide]
      | math k X R _ hd hm hsub =>
        have hlen := MOk_len hm
        simp only [List.length_cons] at hf hn
        obtain ⟨kd, hkd, hnt⟩ := nextToken_dollar T src pos cs hd
        obtain ⟨bsteps, d2, B, hrun⟩ := scanSteps_mbody T st src k k true cs R (pos + 1) fuel
          (Nat.le_refl _) (by omega) hm
        have hBl := B.len
        obtain ⟨i1, I⟩ := ih (fuel - bsteps.length - 1) (pos + 1 + k) R nms (by omega) (by omega) hsub
        obtain ⟨ps', hflat, hpok, hnames, hcost⟩ := I.pieces
        rw [scanSteps_step T.toTables src fuel pos _ _ _ hnt (by simp)]
        simp only [List.drop_succ_cons, List.drop_zero]
        rw [hrun]
        refine ⟨i1, ?_, ?_, ?_⟩
        · intro x hx
          simp only [List.mem_cons, List.mem_append] at hx
          rcases hx with rfl | hx | rfl | hx
          · exact ⟨rfl, rfl⟩
          · exact ⟨(B.ok x hx).1, (B.ok x hx).2.1⟩
          · exact ⟨rfl, rfl⟩
          · exact I.ok x hx
        · refine ⟨.math { kind := kd, pos := pos, txt := ['$'] } (bsteps.map (·.tok)) d2 :: ps', ?_,
            ⟨⟨hkd, rfl⟩, B.vis rfl, ?_, B.dollar, hpok⟩, ?_, ?_⟩
          · simp [flat, Piece.toks, hflat]
          · intro t ht
            obtain ⟨x, hx, rfl⟩ := List.mem_map.mp ht
            exact (B.ok x hx).2.2
          · simp [names, hnames]
          · have := B.cost
            simp only [cost, List.length_cons]
            omega
        · intro s' ss' he
          simp only [List.cons.injEq] at he
          rw [← he.1]
          simp [firstTokTxtU, show isSpace '$' = false by decide]
      | com _ _ hck hsub =>
        obtain ⟨b1, b2⟩ := Comment.commentSpan_bounds '%' cs
        have hl : (('%' :: cs).drop (commentSpan ('%' :: cs))).length ≤ fuel := by
          simp only [List.length_drop]; simp only [List.length_cons] at hf b2 ⊢; omega
        have hl' : (('%' :: cs).drop (commentSpan ('%' :: cs))).length ≤ n := by
          simp only [List.length_drop]; simp only [List.length_cons] at hn b2 ⊢; omega
        rw [scanSteps_step T.toTables src fuel pos _ _ _ (nextToken_percent T src pos cs)
          (by simp; omega)]
        obtain ⟨i1, I⟩ := ih fuel (pos + commentSpan ('%' :: cs)) _ nms hl' hl hsub
        obtain ⟨ps', hflat, hpok, hnames, hcost⟩ := I.pieces
        have hhead : ∃ tl, comTxt ('%' :: cs) = '%' :: tl := by
          obtain ⟨k, hk⟩ : ∃ k, commentSpan ('%' :: cs) = k + 1 :=
            ⟨commentSpan ('%' :: cs) - 1, by omega⟩
          exact ⟨cs.take k, by simp [comTxt, hk]⟩
        simp only [comTokOk, Bool.and_eq_true, Bool.not_eq_true'] at hck
        have hct : Comment.ComTok T st { kind := .comment, pos := pos, txt := comTxt ('%' :: cs) } :=
          ⟨rfl, hhead, hck.1, hck.2⟩
        refine ⟨i1, ?_, ?_, ?_⟩
        · intro x hx
          rcases List.mem_cons.mp hx with rfl | hx
          · exact ⟨rfl, rfl⟩
          · exact I.ok x hx
        · refine ⟨.com { kind := .comment, pos := pos, txt := comTxt ('%' :: cs) } :: ps',
            by simp [flat, Piece.toks, hflat], ⟨hct, hpok⟩, by simp [names, hnames], ?_⟩
          simp only [cost, List.length_cons, List.length_drop] at hcost b2 ⊢
          omega
        · intro s' ss' he
          simp only [List.cons.injEq] at he
          rw [← he.1]
          simp [firstTokTxtU, show isSpace '%' = false by decide]

/-- `scan` on a well-formed source: no diagnostics; the token buffer consists of pieces the loop
    lemma `seq_u2` handles, and their names are the names of the source -/
theorem scan_u2 (T : PTables) (st : PState) (src : Str) (nms : List Str) (h : OkSrc T st src nms) :
    (scan T.toTables src).diags = [] ∧
    ∃ ps, (scan T.toTables src).toks = flat ps ∧ PiecesOk T st ps ∧ names ps = nms ∧
      cost ps ≤ src.length := by
  obtain ⟨_, F⟩ := scanSteps_u2 T st src src.length src.length 0 src nms (Nat.le_refl _)
    (Nat.le_refl _) h
  have he := flatten_tok_extra (scanSteps T.toTables src src.length 0 src).1 (fun s hs => (F.ok s hs).2)
  have hd := flatten_diag_nil (scanSteps T.toTables src src.length 0 src).1 (fun s hs => (F.ok s hs).1)
  obtain ⟨ps, h1, h2, h3, h4⟩ := F.pieces
  simp only [scan]
  rw [he, hd]
  exact ⟨rfl, ps, h1, h2, h3, h4⟩

/-! ### `parserWork`, `parse`, `tex2txt` -/

/-- no comment token of the buffer starts the skip region of the pre-pass of `parser_work` -/
theorem PiecesOk.nobegin {T : PTables} {st : PState} : ∀ {ps : List Piece}, PiecesOk T st ps →
    ∀ t ∈ flat ps, (t.kind == .comment && startsWith t.txt st.skipBegin) = false
  | [], _, _, h => by simp [flat] at h
  | .tok t :: rest, hok, x, hx => by
    simp only [flat, Piece.toks, List.singleton_append, List.mem_cons] at hx
    rcases hx with rfl | hx
    · have := hok.1.notComment; simp [this]
    · exact PiecesOk.nobegin hok.2.2 x hx
  | .cw t :: rest, hok, x, hx => by
    simp only [flat, Piece.toks, List.singleton_append, List.mem_cons] at hx
    rcases hx with rfl | hx
    · simp [hok.1.kind]
    · exact PiecesOk.nobegin hok.2 x hx
  | .com t :: rest, hok, x, hx => by
    simp only [flat, Piece.toks, List.singleton_append, List.mem_cons] at hx
    rcases hx with rfl | hx
    · simp [hok.1.nskip]
    · exact PiecesOk.nobegin hok.2 x hx
  | .beg p q1 q2 nt :: rest, hok, x, hx => by
    simp only [flat, Piece.toks, List.cons_append, List.append_assoc, List.mem_cons,
      List.mem_append, List.nil_append] at hx
    rcases hx with rfl | rfl | hx | rfl | hx
    · simp [begTok]
    · simp [lbr]
    · have := (hok.1.2 x hx).1.notComment; simp [this]
    · simp [rbr]
    · exact PiecesOk.nobegin hok.2.2 x hx
  | .en p q1 q2 nt :: rest, hok, x, hx => by
    simp only [flat, Piece.toks, List.cons_append, List.append_assoc, List.mem_cons,
      List.mem_append, List.nil_append] at hx
    rcases hx with rfl | rfl | hx | rfl | hx
    · simp [endTok]
    · simp [lbr]
    · have := (hok.1.2 x hx).1.notComment; simp [this]
    · simp [rbr]
    · exact PiecesOk.nobegin hok.2.2 x hx
  | .van p q1 q2 name key :: rest, hok, x, hx => by
    simp only [flat, Piece.toks, List.cons_append, List.append_assoc, List.mem_cons,
      List.mem_append, List.nil_append] at hx
    rcases hx with rfl | rfl | hx | rfl | hx
    · simp [cwTok]
    · simp [lbr]
    · have := (hok.2.1 x hx).2; simp [this]
    · simp [rbr]
    · exact PiecesOk.nobegin hok.2.2 x hx
  | .math d1 b d2 :: rest, hok, x, hx => by
    simp only [flat, Piece.toks, List.cons_append, List.append_assoc, List.mem_cons,
      List.mem_append, List.nil_append] at hx
    rcases hx with rfl | hx | rfl | hx
    · rcases hok.1.kind with hk | hk <;> simp [hk]
    · have := (hok.2.2.1 x hx).notComment; simp [this]
    · rcases hok.2.2.2.1.kind with hk | hk <;> simp [hk]
    · exact PiecesOk.nobegin hok.2.2.2.2 x hx

/-- **C19 on `parserWork`.**  On a well-formed source `parserWork` succeeds; the names used in text
    mode are recorded in `unknowns` in order of first use, each once; besides `unknowns` only the
    rotation records of the placeholders change (in particular no diagnostic is added). -/
theorem parserWork_u2 (T : PTables) (st : PState) (src : Str) (fuel : Nat) (nms : List Str)
    (ls : LangSettings) (hf : src.length + 2 ≤ fuel) (hr : Ready T st ls) (h : OkSrc T st src nms) :
    ∃ r st', parserWork T fuel src st = .ok (r, st') ∧
      st' = { st with unknowns := nms.foldl addU st.unknowns, rots := st'.rots } := by
  obtain ⟨f, rfl⟩ : ∃ f, fuel = f + 1 := ⟨fuel - 1, by omega⟩
  obtain ⟨hd, ps, hflat, hpok, hnames, hcost⟩ := scan_u2 T st src nms h
  let st1 : PState := { st with latex := src, nest := st.nest + 1 }
  have hS : Same st st1 := ⟨rfl, rfl, rfl, rfl, rfl⟩
  have hpok' : PiecesOk T st1 ps := PiecesOk.congr hS hpok
  have hr' : Ready T st1 ls := ⟨(noEmptyActive_congr T st st1 rfl).trans hr.active, hr.settings, hr.rot⟩
  obtain ⟨o, st2, hs, hst2⟩ := seq_u2 T ls ps.length ps (Nat.le_refl _) f [] st1 (by omega) hpok' hr'
  obtain ⟨r, hrm⟩ := Option.isSome_iff_exists.mp (removeLines_progress ([] ++ o))
  rw [hrm] at hs
  simp only [] at hs
  refine ⟨r, { st2 with latex := st.latex, nest := st2.nest - 1 }, ?_, ?_⟩
  · rw [parserWork.eq_2]
    refine (M.bind_ok _ _ _ _ _ (rfl : M.get st = _)).trans ?_
    refine (M.bind_ok _ _ _ _ _ (rfl : M.modify _ _ = _)).trans ?_
    refine (M.bind_ok _ _ _ _ _ (rfl : M.modify _ _ = _)).trans ?_
    refine (M.bind_ok _ _ _ _ _ (rfl : M.get _ = _)).trans ?_
    simp only [hd, List.append_nil]
    rw [Comment.skipPass_nobegin { st with latex := src, nest := st.nest + 1 } _ _
      (fun t ht' => hpok'.nobegin t (by rw [← hflat]; exact ht'))]
    simp only []
    refine (M.bind_ok _ _ _ _ _ (rfl : (pure _ : M (List Tok)) _ = _)).trans ?_
    rw [hflat]
    refine (M.bind_ok _ _ _ _ _ hs).trans ?_
    refine (M.bind_ok _ _ _ _ _ (rfl : M.modify _ _ = _)).trans ?_
    rfl
  · rw [hst2, hnames]
    simp only [st1, Nat.add_sub_cancel]

theorem Ready.congr {T : PTables} {st st' : PState} {ls : LangSettings}
    (hl : st'.langStack = st.langStack) (hrt : st'.rots = st.rots) (h : Ready T st ls) :
    Ready T st' ls := by
  have hc : curSettings st' = curSettings st := by simp [curSettings, hl]
  refine ⟨(noEmptyActive_congr T st st' hl).trans h.active, by rw [hc]; exact h.settings, ?_⟩
  obtain ⟨rot, h1, h2⟩ := h.rot
  exact ⟨rot, by rw [hc]; simpa [rotOf, hrt] using h1, h2⟩

theorem parse_u2 (T : PTables) (st : PState) (src : Str) (fuel : Nat) (nms : List Str)
    (ls : LangSettings) (hf : src.length + 2 ≤ fuel) (hr : Ready T st ls) (h : OkSrc T st src nms) :
    ∃ r st', parse T fuel src [] [] st = .ok (r, st') ∧
      st' = { st with extracted := [], unknowns := nms.eraseDups, foreign := false, nest := 0,
                      rots := st'.rots } := by
  let st0 : PState := { st with extracted := [], unknowns := [], foreign := false, nest := 0 }
  have hS : Same st st0 := ⟨rfl, rfl, rfl, rfl, rfl⟩
  obtain ⟨r, st', hw, hst'⟩ := parserWork_u2 T st0 src fuel nms ls hf
    (Ready.congr (st := st) (st' := st0) rfl rfl hr) (h.congr hS)
  refine ⟨r, st', ?_, ?_⟩
  · unfold parse
    simp only [List.isEmpty_nil, Bool.not_true, Bool.false_eq_true, if_false, if_true]
    refine (M.bind_ok _ _ _ _ _ (rfl : M.modify _ _ = _)).trans ?_
    refine (M.bind_ok _ _ _ _ _ (rfl : (pure _ : M (List Tok)) _ = _)).trans ?_
    refine (M.bind_ok _ _ _ _ _ (rfl : M.modify _ _ = _)).trans ?_
    refine (M.bind_ok _ _ _ _ _ hw).trans ?_
    refine (M.bind_ok _ _ _ _ _ (rfl : M.get _ = _)).trans ?_
    show Outcome.ok _ = _
    have he : st'.extracted = [] := by rw [hst']
    simp [he]
  · rw [hst']
    simp [st0, foldl_addU_nil]

/-- the result record of `tex2txt` on a well-formed source (no `--defs`, `--extr`, `--repl`;
    single-language mode; with or without `--unkn`) -/
theorem tex2txt_u2_src (T : PTables) (o : Options) (fs : FS) (thresh : Nat) (src : Str) (fuel : Nat)
    (st1 : PState) (nms : List Str) (ls : LangSettings)
    (hdefs : o.defs = []) (hextr : o.extr = []) (hrepl : o.hasRepl = false)
    (hinit : initParser T fuel o (initialState T o false fs) = .ok ((), st1))
    (hr : Ready T st1 ls) (h : OkSrc T st1 src nms) (hf : src.length + 2 ≤ fuel) :
    ∃ toks, tex2txt T fuel src o false thresh fs
        = .ok { toks := toks,
                txt := if o.unkn then strJoin [nl] nms.eraseDups ++ [nl] else (getTxtPos toks).1,
                pos := if o.unkn then List.replicate (strJoin [nl] nms.eraseDups ++ [nl]).length 1
                       else (getTxtPos toks).2.map (· + 1),
                parts := [], unknowns := nms.eraseDups, diags := st1.diags, foreign := false } := by
  obtain ⟨r, st', hp, hst'⟩ := parse_u2 T st1 src fuel nms ls hf hr h
  refine ⟨r, ?_⟩
  have hrun : (initParser T fuel o >>= fun _ => parse T fuel src o.defs
        (if o.extr.isEmpty then [] else (splitOn ',' o.extr []).map (fun s => '\\' :: s)))
        (initialState T o false fs) = .ok (r, st') := by
    refine (M.bind_ok _ _ _ _ _ hinit).trans ?_
    rw [hdefs, hextr]
    exact hp
  have h1 : st'.unknowns = nms.eraseDups := by rw [hst']
  have h2 : st'.diags = st1.diags := by rw [hst']
  have h3 : st'.foreign = false := by rw [hst']
  unfold tex2txt
  simp only []
  rw [hrun]
  cases hu : o.unkn <;>
    simp [hrepl, List.map_replicate, h1, h2, h3]

/-- **C19 end to end.**  The document is a sequence of inert text, undeclared control words,
    undeclared environments with inert body, calls of declared vanishing macros, inline formulas
    with control words, and comments (`SegsOk`: all side conditions); `st1` is the state after
    `Parser.__init__`; no `--defs`, `--extr`, `--repl`; single-language mode; `--unkn` given or
    not.  With one unit of fuel per source character plus two, `tex2txt` succeeds and

    * the unknowns list is `refUnknowns segs`: the control words (with backslash) and the
      environment names (without) that are used in text mode, each once, in order of first use —
      nothing from the formulas, the declared macros and the comments;
    * no diagnostic is added;
    * with `--unkn` the output text is the list, one name per line (every line ends with a line
      break; the empty list gives one line break), every position is 1;
    * without `--unkn` text and positions are those of the result tokens. -/
theorem tex2txt_unknowns_e2e (T : PTables) (o : Options) (fs : FS) (thresh : Nat)
    (segs : List Seg) (fuel : Nat) (st1 : PState)
    (hdefs : o.defs = []) (hextr : o.extr = []) (hrepl : o.hasRepl = false)
    (hinit : initParser T fuel o (initialState T o false fs) = .ok ((), st1))
    (hok : SegsOk T st1 segs) (hf : (render segs).length + 2 ≤ fuel) :
    ∃ r, tex2txt T fuel (render segs) o false thresh fs = .ok r ∧
      r.unknowns = refUnknowns segs ∧
      r.diags = st1.diags ∧ r.parts = [] ∧
      (o.unkn = true → r.txt = strJoin [nl] (refUnknowns segs) ++ [nl] ∧
        r.pos = List.replicate r.txt.length 1) ∧
      (o.unkn = false → r.txt = (getTxtPos r.toks).1 ∧ r.pos = (getTxtPos r.toks).2.map (· + 1)) := by
  obtain ⟨ls, hr⟩ := ready_of_readyOk hok.1
  have hsrc := OkSrc_of_segsOk T st1 segs hok.2
  obtain ⟨toks, ht⟩ := tex2txt_u2_src T o fs thresh (render segs) fuel st1 _ ls hdefs hextr hrepl
    hinit hr hsrc hf
  refine ⟨_, ht, rfl, rfl, rfl, fun hu => ?_, fun hu => ?_⟩
  · simp [hu, refUnknowns]
  · simp [hu]

/-! ### readings of the reference -/

theorem nodup_eraseDups : ∀ (n : Nat) (l : List Str), l.length ≤ n → l.eraseDups.Nodup
  | 0, l, h => by
    have : l = [] := by cases l <;> simp_all
    subst this; simp
  | n + 1, [], _ => by simp
  | n + 1, a :: as, h => by
    rw [List.eraseDups_cons, List.nodup_cons]
    refine ⟨?_, nodup_eraseDups n _ ?_⟩
    · rw [List.mem_eraseDups, List.mem_filter]
      simp
    · have := List.length_filter_le (fun b => !b == a) as
      simp only [List.length_cons] at h; omega

/-- each name once -/
theorem refUnknowns_nodup (segs : List Seg) : (refUnknowns segs).Nodup :=
  nodup_eraseDups _ _ (Nat.le_refl _)

/-- exactly the names used in text mode -/
theorem mem_refUnknowns (segs : List Seg) (n : Str) : n ∈ refUnknowns segs ↔ n ∈ usedNames segs := by
  simp [refUnknowns]

theorem eraseDups_first (pre post : List Str) (n : Str) (h : n ∉ pre) :
    ∃ X, (pre ++ n :: post).eraseDups = pre.eraseDups ++ n :: X := by
  rw [List.eraseDups_append]
  have : (n :: post).removeAll pre = n :: post.removeAll pre := by
    simp [List.removeAll, h]
  rw [this, List.eraseDups_cons]
  exact ⟨_, rfl⟩

/-- order of first use: a name stands directly behind the (distinct) names used before its
    first use -/
theorem refUnknowns_order (segs : List Seg) (pre post : List Str) (n : Str)
    (h : usedNames segs = pre ++ n :: post) (hn : n ∉ pre) :
    ∃ X, refUnknowns segs = pre.eraseDups ++ n :: X := by
  unfold refUnknowns
  rw [h]
  exact eraseDups_first pre post n hn

theorem mem_usedNames : ∀ (segs : List Seg) (n : Str), n ∈ usedNames segs ↔
    (∃ name, n = '\\' :: name ∧ Seg.cw name ∈ segs) ∨ (∃ body, Seg.env n body ∈ segs) ∨
      Seg.beg n ∈ segs
  | [], n => by simp [usedNames]
  | .txt s :: rest, n => by simp [usedNames, mem_usedNames rest n]
  | .decl a b :: rest, n => by simp [usedNames, mem_usedNames rest n]
  | .math b :: rest, n => by simp [usedNames, mem_usedNames rest n]
  | .com t :: rest, n => by simp [usedNames, mem_usedNames rest n]
  | .en a :: rest, n => by simp [usedNames, mem_usedNames rest n]
  | .cw name :: rest, n => by
    simp only [usedNames, List.mem_cons, mem_usedNames rest n, Seg.cw.injEq, reduceCtorEq, false_or]
    constructor
    · rintro (h | h | h)
      · exact Or.inl ⟨name, h, Or.inl rfl⟩
      · obtain ⟨m, h1, h2⟩ := h; exact Or.inl ⟨m, h1, Or.inr h2⟩
      · exact Or.inr h
    · rintro (⟨m, h1, h2 | h2⟩ | h)
      · subst h2; exact Or.inl h1
      · exact Or.inr (Or.inl ⟨m, h1, h2⟩)
      · exact Or.inr (Or.inr h)
  | .env name b :: rest, n => by
    simp only [usedNames, List.mem_cons, mem_usedNames rest n, Seg.env.injEq, reduceCtorEq, false_or]
    constructor
    · rintro (h | h | h | h)
      · exact Or.inr (Or.inl ⟨b, Or.inl ⟨h, rfl⟩⟩)
      · exact Or.inl h
      · obtain ⟨b', h⟩ := h; exact Or.inr (Or.inl ⟨b', Or.inr h⟩)
      · exact Or.inr (Or.inr h)
    · rintro (h | ⟨b', h | h⟩ | h)
      · exact Or.inr (Or.inl h)
      · exact Or.inl h.1
      · exact Or.inr (Or.inr (Or.inl ⟨b', h⟩))
      · exact Or.inr (Or.inr (Or.inr h))
  | .beg name :: rest, n => by
    simp only [usedNames, List.mem_cons, mem_usedNames rest n, Seg.beg.injEq, reduceCtorEq, false_or]
    constructor
    · rintro (h | h | h | h)
      · exact Or.inr (Or.inr (Or.inl h))
      · exact Or.inl h
      · exact Or.inr (Or.inl h)
      · exact Or.inr (Or.inr (Or.inr h))
    · rintro (h | h | h | h)
      · exact Or.inr (Or.inl h)
      · exact Or.inr (Or.inr (Or.inl h))
      · exact Or.inl h
      · exact Or.inr (Or.inr (Or.inr h))

/-- what the side conditions say about the single segments -/
theorem segsOk_mem (T : PTables) (st : PState) : ∀ (segs : List Seg), segsOk T st segs = true →
    (∀ name, Seg.cw name ∈ segs → lookupMacro st ('\\' :: name) = none) ∧
    (∀ name, (Seg.beg name ∈ segs ∨ ∃ body, Seg.env name body ∈ segs) →
      lookupEnv st name = none ∧ ∀ c ∈ name, inertChar T st c = true) ∧
    (∀ name key, Seg.decl name key ∈ segs → (lookupMacro st ('\\' :: name)).isSome = true)
  | [], _ => by simp
  | s :: rest, h => by
    have hrest : segsOk T st rest = true := by
      cases s <;> simp only [segsOk, Bool.and_eq_true] at h <;> exact h.2
    obtain ⟨i1, i2, i3⟩ := segsOk_mem T st rest hrest
    refine ⟨?_, ?_, ?_⟩
    · intro name hm
      rcases List.mem_cons.mp hm with rfl | hm
      · simp only [segsOk, Bool.and_eq_true] at h
        exact (cwFacts h.1).undecl
      · exact i1 name hm
    · rintro name (hm | ⟨body, hm⟩)
      · rcases List.mem_cons.mp hm with rfl | hm
        · simp only [segsOk, Bool.and_eq_true] at h
          obtain ⟨_, _, D⟩ := ubegFacts h.1
          exact ⟨D.env, D.inert⟩
        · exact i2 name (Or.inl hm)
      · rcases List.mem_cons.mp hm with rfl | hm
        · simp only [segsOk, Bool.and_eq_true] at h
          obtain ⟨_, D⟩ := uendFacts h.1.2
          exact ⟨D.env, D.inert⟩
        · exact i2 name (Or.inr ⟨body, hm⟩)
    · intro name key hm
      rcases List.mem_cons.mp hm with rfl | hm
      · simp only [segsOk, Bool.and_eq_true] at h
        obtain ⟨_, m, hm', _⟩ := (vanFacts h.1).vn
        simp [hm']
      · exact i3 name key hm

theorem inertChar_backslash (T : PTables) (st : PState) : inertChar T st '\\' = false := by
  simp [inertChar, structuralChar, show isSpace '\\' = false by decide]

/-- **declared names are never listed**: every listed name is a control word that is not declared
    as a macro, or the name of an environment that is not declared -/
theorem refUnknowns_undeclared (T : PTables) (st : PState) (segs : List Seg)
    (h : segsOk T st segs = true) (n : Str) (hn : n ∈ refUnknowns segs) :
    (∃ name, n = '\\' :: name ∧ lookupMacro st n = none) ∨ lookupEnv st n = none := by
  obtain ⟨i1, i2, _⟩ := segsOk_mem T st segs h
  rcases (mem_usedNames segs n).mp ((mem_refUnknowns segs n).mp hn) with
    ⟨name, rfl, hm⟩ | ⟨body, hm⟩ | hm
  · exact Or.inl ⟨name, rfl, i1 name hm⟩
  · exact Or.inr (i2 n (Or.inr ⟨body, hm⟩)).1
  · exact Or.inr (i2 n (Or.inl hm)).1

/-- a macro that is called as a declared macro somewhere in the document is not listed -/
theorem refUnknowns_decl (T : PTables) (st : PState) (segs : List Seg)
    (h : segsOk T st segs = true) (name key : Str) (hd : Seg.decl name key ∈ segs) :
    '\\' :: name ∉ refUnknowns segs := by
  obtain ⟨i1, i2, i3⟩ := segsOk_mem T st segs h
  intro hn
  rcases (mem_usedNames segs _).mp ((mem_refUnknowns segs _).mp hn) with
    ⟨name', e, hm⟩ | ⟨body, hm⟩ | hm
  · have := i1 name' hm
    rw [← e] at this
    have h3 := i3 name key hd
    rw [this] at h3; cases h3
  · have := (i2 _ (Or.inr ⟨body, hm⟩)).2 '\\' (by simp)
    rw [inertChar_backslash] at this; cases this
  · have := (i2 _ (Or.inl hm)).2 '\\' (by simp)
    rw [inertChar_backslash] at this; cases this

/-- a control word that is used only inside formulas (or comments) is not listed -/
theorem refUnknowns_maths (T : PTables) (st : PState) (segs : List Seg)
    (h : segsOk T st segs = true) (name : Str) (hd : Seg.cw name ∉ segs) :
    '\\' :: name ∉ refUnknowns segs := by
  obtain ⟨_, i2, _⟩ := segsOk_mem T st segs h
  intro hn
  rcases (mem_usedNames segs _).mp ((mem_refUnknowns segs _).mp hn) with
    ⟨name', e, hm⟩ | ⟨body, hm⟩ | hm
  · have : name' = name := by simpa using e.symm
    subst this; exact hd hm
  · have := (i2 _ (Or.inr ⟨body, hm⟩)).2 '\\' (by simp)
    rw [inertChar_backslash] at this; cases this
  · have := (i2 _ (Or.inl hm)).2 '\\' (by simp)
    rw [inertChar_backslash] at this; cases this

end PlainUnkn2
end Yalafi
