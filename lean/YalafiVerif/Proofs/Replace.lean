/-
  Proofs/Replace.lean — helper lemmas for Properties/C13.lean.
-/
import YalafiVerif.Spec.Replace
namespace Yalafi

/-! ### `substitute` -/

theorem replPositions_sub (ps : List Nat) (r : Nat) : ∀ p ∈ replPositions ps r, p ∈ ps := by
  intro p hp
  unfold replPositions at hp
  split at hp
  · exact List.mem_of_mem_take hp
  · split at hp
    · rename_i l hl
      simp only [List.mem_append, List.mem_replicate] at hp
      rcases hp with hp | ⟨_, hp⟩
      · exact hp
      · subst hp; exact List.mem_of_getLast? hl
    · exact hp

theorem substituteFrom_positions (repl : Str) (last : Nat) (txt : Str) (pos : List Nat) (ms : List Span) :
    ∀ p ∈ (substituteFrom repl last txt pos ms).2, p ∈ pos := by
  induction ms generalizing last txt pos with
  | nil => simp [substituteFrom]
  | cons m ms ih =>
    intro p hp
    simp only [substituteFrom, List.mem_append] at hp
    rcases hp with (hp | hp) | hp
    · exact List.mem_of_mem_take hp
    · exact List.mem_of_mem_drop (List.mem_of_mem_take (replPositions_sub _ _ p hp))
    · exact List.mem_of_mem_drop (ih _ _ _ p hp)

theorem getD_range' (l : List α) (d : α) (a k : Nat) (h : a + k ≤ l.length) :
    (List.range' a k).map (fun i => l.getD i d) = (l.drop a).take k := by
  apply List.ext_getElem
  · simp; omega
  · intro i h1 h2
    simp at h1 h2 ⊢
    rw [List.getElem?_eq_getElem (by omega)]; simp

theorem replPositions_eq (pos : List Nat) (s len r : Nat) (h : s + len ≤ pos.length) (hl : 1 ≤ len) :
    replPositions ((pos.drop s).take len) r
      = (List.range r).map (fun j => pos.getD (s + min j (len - 1)) 0) := by
  have hlen : ((pos.drop s).take len).length = len := by simp; omega
  unfold replPositions
  rw [hlen]
  split
  · apply List.ext_getElem
    · simp; omega
    · intro i h1 h2
      simp at h1 h2 ⊢
      have : min i (len - 1) = i := by omega
      rw [this, List.getElem?_eq_getElem (by omega)]; simp
  · have hne : (pos.drop s).take len ≠ [] := by
      intro h0; rw [h0] at hlen; simp at hlen; omega
    rw [List.getLast?_eq_some_getLast hne]
    simp only
    apply List.ext_getElem
    · simp; omega
    · intro i h1 h2
      simp at h1 h2 ⊢
      rw [List.getElem_append]
      split
      · rename_i hi
        simp at hi
        have : min i (len - 1) = i := by omega
        rw [this, List.getElem?_eq_getElem (by omega)]; simp
      · rename_i hi
        simp at hi
        have : min i (len - 1) = len - 1 := by omega
        rw [this, List.getElem?_eq_getElem (by omega)]
        simp [List.getLast_eq_getElem]
        congr 1; omega


theorem zip_drop_take (txt : Str) (pos : List Nat) (a k : Nat)
    (h1 : a + k ≤ txt.length) (h2 : a + k ≤ pos.length) :
    ((txt.drop a).take k).zip ((pos.drop a).take k)
      = (List.range' a k).map (fun i => (txt.getD i ' ', pos.getD i 0)) := by
  rw [← getD_range' txt ' ' a k h1, ← getD_range' pos 0 a k h2, List.zip_map']

theorem flatMap_congr' {α β} (l : List α) (f g : α → List β) (h : ∀ i ∈ l, f i = g i) :
    l.flatMap f = l.flatMap g := by
  induction l with
  | nil => rfl
  | cons a l ih =>
    simp only [List.flatMap_cons]
    rw [h a (by simp), ih (fun i hi => h i (by simp [hi]))]

theorem find_none_of_lt (last n : Nat) (ms : List Span) (i : Nat)
    (h : SpansOk last n ms) (hi : i < last) :
    ms.find? (fun m => decide (m.start ≤ i ∧ i < m.start + m.len)) = none := by
  induction ms generalizing last with
  | nil => rfl
  | cons m ms ih =>
    simp only [SpansOk] at h
    rw [List.find?_cons_of_neg (by simp; omega)]
    exact ih (m.start + m.len) h.2.2.2 (by omega)

theorem substSpecAt_before (txt : Str) (pos : List Nat) (ms : List Span) (repl : Str)
    (last n i : Nat) (h : SpansOk last n ms) (hi : i < last) :
    substSpecAt txt pos ms repl i = [(txt.getD i ' ', pos.getD i 0)] := by
  simp only [substSpecAt, find_none_of_lt last n ms i h hi]

theorem substSpecAt_start (txt : Str) (pos : List Nat) (m : Span) (ms : List Span) (repl : Str)
    (hl : 1 ≤ m.len) :
    substSpecAt txt pos (m :: ms) repl m.start =
      (List.range repl.length).map
        (fun j => (repl.getD j ' ', pos.getD (m.start + min j (m.len - 1)) 0)) := by
  simp only [substSpecAt]
  rw [List.find?_cons_of_pos (by simp; omega)]
  simp

theorem substSpecAt_inside (txt : Str) (pos : List Nat) (m : Span) (ms : List Span) (repl : Str)
    (i : Nat) (h1 : m.start < i) (h2 : i < m.start + m.len) :
    substSpecAt txt pos (m :: ms) repl i = [] := by
  simp only [substSpecAt]
  rw [List.find?_cons_of_pos (by simp; omega)]
  simp; omega

theorem substSpecAt_after (txt : Str) (pos : List Nat) (m : Span) (ms : List Span) (repl : Str)
    (i : Nat) (h : m.start + m.len ≤ i) :
    substSpecAt txt pos (m :: ms) repl i = substSpecAt txt pos ms repl i := by
  simp only [substSpecAt]
  rw [List.find?_cons_of_neg (by simp; omega)]

theorem range'_split (a b c : Nat) : List.range' a (b + c) = List.range' a b ++ List.range' (a + b) c := by
  simp [List.range'_append_1]


theorem zip_repl (repl : Str) (f : Nat → Nat) :
    repl.zip ((List.range repl.length).map f)
      = (List.range repl.length).map (fun j => (repl.getD j ' ', f j)) := by
  have : repl = (List.range repl.length).map (fun j => repl.getD j ' ') := by
    apply List.ext_getElem
    · simp
    · intro i h _; simp [List.getElem?_eq_getElem h]
  conv => lhs; lhs; rw [this]
  rw [List.zip_map']

theorem substituteFrom_spec (repl txt : Str) (pos : List Nat) (ms : List Span) (last : Nat)
    (hlen : txt.length = pos.length) (hl : last ≤ txt.length)
    (hok : SpansOk last txt.length ms) :
    (substituteFrom repl last (txt.drop last) (pos.drop last) ms).1.length
      = (substituteFrom repl last (txt.drop last) (pos.drop last) ms).2.length ∧
    (substituteFrom repl last (txt.drop last) (pos.drop last) ms).1.zip
        (substituteFrom repl last (txt.drop last) (pos.drop last) ms).2
      = (List.range' last (txt.length - last)).flatMap (substSpecAt txt pos ms repl) := by
  induction ms generalizing last with
  | nil =>
    simp only [substituteFrom]
    refine ⟨by simp; omega, ?_⟩
    rw [flatMap_congr' _ _ (fun i => [(txt.getD i ' ', pos.getD i 0)])
      (fun i _ => by simp [substSpecAt])]
    rw [← List.map_eq_flatMap]
    rw [← zip_drop_take txt pos last (txt.length - last) (by omega) (by omega)]
    rw [List.take_of_length_le (by simp), List.take_of_length_le (by simp; omega)]
  | cons m ms ih =>
    simp only [SpansOk] at hok
    obtain ⟨h1, h2, h3, h4⟩ := hok
    obtain ⟨ihl, ihz⟩ := ih (m.start + m.len) h3 h4
    have e1 : (txt.drop last).drop (m.start - last + m.len) = txt.drop (m.start + m.len) := by
      rw [List.drop_drop]; congr 1; omega
    have e2 : (pos.drop last).drop (m.start - last + m.len) = pos.drop (m.start + m.len) := by
      rw [List.drop_drop]; congr 1; omega
    have e3 : ((pos.drop last).drop (m.start - last)).take m.len = (pos.drop m.start).take m.len := by
      rw [List.drop_drop]; congr 2; omega
    simp only [substituteFrom]
    rw [e1, e2, e3, replPositions_eq pos m.start m.len repl.length (by omega) h2]
    have la : ((txt.drop last).take (m.start - last)).length
        = ((pos.drop last).take (m.start - last)).length := by simp; omega
    have lb : repl.length = ((List.range repl.length).map
        (fun j => pos.getD (m.start + min j (m.len - 1)) 0)).length := by simp
    refine ⟨by simp only [List.length_append]; omega, ?_⟩
    rw [List.zip_append (by simp only [List.length_append]; omega), List.zip_append la, ihz]
    have es : txt.length - last = (m.start - last) + (m.len + (txt.length - (m.start + m.len))) := by
      omega
    rw [es, range'_split, range'_split, List.flatMap_append, List.flatMap_append]
    have e4 : last + (m.start - last) = m.start := by omega
    rw [e4, List.append_assoc]
    congr 1
    · rw [zip_drop_take txt pos last (m.start - last) (by omega) (by omega)]
      rw [flatMap_congr' _ _ (fun i => [(txt.getD i ' ', pos.getD i 0)])]
      · rw [← List.map_eq_flatMap]
      · intro i hi
        simp at hi
        exact substSpecAt_before txt pos (m :: ms) repl (i + 1) txt.length i
          (by simp only [SpansOk]; exact ⟨by omega, h2, h3, h4⟩) (by omega)
    · congr 1
      · rw [zip_repl]
        obtain ⟨k, hk⟩ : ∃ k, m.len = k + 1 := ⟨m.len - 1, by omega⟩
        rw [hk, List.range'_succ, List.flatMap_cons, ← hk, substSpecAt_start txt pos m ms repl h2]
        rw [flatMap_congr' _ _ (fun _ => [])]
        · simp
        · intro i hi
          simp at hi
          exact substSpecAt_inside txt pos m ms repl i (by omega) (by omega)
      · apply flatMap_congr'
        intro i hi
        simp at hi
        exact (substSpecAt_after txt pos m ms repl i (by omega)).symm

/-! ### matcher: `startsWith`, `sepLen`, `matchWords`, `matchAt`, `findSpans` -/

theorem startsWith_eq (s w : Str) (h : startsWith s w = true) : w ++ s.drop w.length = s := by
  fun_induction startsWith s w <;> simp_all

theorem startsWith_len (s w : Str) (h : startsWith s w = true) : w.length ≤ s.length := by
  have := congrArg List.length (startsWith_eq s w h)
  simp at this; omega

theorem startsWith_take (s w : Str) (h : startsWith s w = true) : s.take w.length = w := by
  have := startsWith_eq s w h
  conv => lhs; rw [← this]
  simp

theorem takeWhile_append_drop (p : Char → Bool) (s : Str) :
    s.takeWhile p ++ s.drop (s.takeWhile p).length = s := by
  induction s with
  | nil => simp
  | cons a s ih => by_cases h : p a <;> simp [h]; exact ih

theorem countNl_blank (s : Str) : countNl (s.takeWhile isBlankTab) = 0 := by
  induction s with
  | nil => simp [countNl]
  | cons a s ih =>
    by_cases h : isBlankTab a
    · simp [h]
      simp [countNl] at ih ⊢
      rw [List.count_cons, ih]
      simp [isBlankTab] at h
      rcases h with h | h <;> subst h <;> decide
    · simp [h, countNl]

theorem sepLen_le (s : Str) (k : Nat) (h : sepLen s = some k) : k ≤ s.length := by
  simp only [sepLen] at h
  have h1 := congrArg List.length (takeWhile_append_drop isBlankTab s)
  simp only [List.length_append] at h1
  split at h
  · rename_i c more heq
    have h2 : (more.takeWhile isBlankTab).length ≤ more.length := (List.takeWhile_sublist _).length_le
    rw [heq] at h1
    simp at h1
    split at h
    · simp at h; omega
    · split at h <;> simp at h; omega
  · split at h <;> simp at h; omega

theorem countNl_append (a b : Str) : countNl (a ++ b) = countNl a + countNl b := by
  simp [countNl]

theorem countNl_take_le (a : Str) (k : Nat) : countNl (a.take k) ≤ countNl a := by
  simp only [countNl]
  exact List.Sublist.count_le _ (List.take_sublist k a)

theorem sepLen_nl (s : Str) (k : Nat) (h : sepLen s = some k) : countNl (s.take k) ≤ 1 := by
  simp only [sepLen] at h
  have h0 := takeWhile_append_drop isBlankTab s
  have hb := countNl_blank s
  generalize s.takeWhile isBlankTab = b1 at *
  split at h
  · rename_i c more heq
    rw [heq] at h0
    split at h
    · simp at h
      have hm := countNl_blank more
      have : s.take k = b1 ++ c :: more.takeWhile isBlankTab := by
        rw [← h0, ← h, List.take_append]
        have : b1.length + 1 + (more.takeWhile isBlankTab).length - b1.length = (more.takeWhile isBlankTab).length + 1 := by omega
        rw [this, List.take_of_length_le (by omega)]
        simp
        exact (List.prefix_iff_eq_take.mp (List.takeWhile_prefix _)).symm
      rw [this, countNl_append, hb]
      simp only [countNl, List.count_cons] at hm ⊢
      rw [hm]; split <;> omega
    · split at h <;> simp at h
      subst h
      rw [← h0]; simp [hb]
  · split at h <;> simp at h
    subst h
    rw [← h0]; simp [hb]


theorem matchWords_le (ws : List Str) (s : Str) (m : Nat)
    (h : matchWords ws s = some m) : m ≤ s.length := by
  fun_induction matchWords ws s generalizing m
  case case1 => simp at h; omega
  case case2 w s hs => simp at h; subst h; exact startsWith_len _ _ hs
  case case6 w ws s hne hs k hk m' hm' ih =>
    simp at h; subst h
    have hw := startsWith_len _ _ hs
    have hk' := sepLen_le _ _ hk
    have := ih m' hm'
    simp at hk' this
    omega
  all_goals simp at h

theorem take3 (s : Str) (a k m : Nat) :
    s.take (a + k + m) = s.take a ++ (s.drop a).take k ++ (s.drop (a + k)).take m := by
  rw [List.take_add, List.take_add]

theorem matchWords_nl (ws : List Str) (s : Str) (m : Nat)
    (hws : ∀ w ∈ ws, ∀ c ∈ w, c ≠ nl)
    (h : matchWords ws s = some m) : countNl (s.take m) + 1 ≤ ws.length ∨ ws = [] := by
  fun_induction matchWords ws s generalizing m
  case case1 => simp
  case case2 w s hs =>
    simp at h; subst h
    rw [startsWith_take _ _ hs]
    left
    have : countNl w = 0 := List.count_eq_zero.mpr (fun hc => hws w (by simp) nl hc rfl)
    simp [this]
  case case6 w ws s hne hs k hk m' hm' ih =>
    simp at h; subst h
    have ih' := ih m' (fun w' hw' => hws w' (List.mem_cons_of_mem _ hw')) hm'
    have hk' := sepLen_nl _ _ hk
    have hw0 : countNl w = 0 := List.count_eq_zero.mpr (fun hc => hws w (by simp) nl hc rfl)
    left
    rw [take3, startsWith_take _ _ hs, countNl_append, countNl_append, hw0]
    rcases ih' with ih' | ih'
    · simp; omega
    · exact absurd ih' hne
  all_goals simp at h


theorem matchAt_bounds (T : Tables) (ph : Phrase) (prev : Option Char) (s : Str) (m : Nat)
    (h : matchAt T ph prev s = some m) : 1 ≤ m ∧ m ≤ s.length := by
  unfold matchAt at h
  split at h
  · simp at h
  · split at h
    · simp at h
    · simp at h
    · rename_i m' hne hm
      have := matchWords_le _ _ _ hm
      split at h
      · simp at h
      · simp at h; subst h
        exact ⟨Nat.pos_of_ne_zero (fun h0 => hne h0), this⟩

theorem SpansOk_mono (a b n : Nat) (ms : List Span) (hab : a ≤ b) (h : SpansOk b n ms) :
    SpansOk a n ms := by
  cases ms with
  | nil => trivial
  | cons m ms => simp only [SpansOk] at h ⊢; exact ⟨by omega, h.2⟩

theorem findSpans_ok_gen (T : Tables) (ph : Phrase) (fuel i : Nat) (prev : Option Char) (s : Str)
    (hf : s.length ≤ fuel) : SpansOk i (i + s.length) (findSpans T ph fuel i prev s) := by
  induction fuel generalizing i prev s with
  | zero => simp [findSpans, SpansOk]
  | succ fuel ih =>
    cases s with
    | nil => simp [findSpans, SpansOk]
    | cons c cs =>
      simp only [findSpans]
      split
      · rename_i m hm
        have hb := matchAt_bounds _ _ _ _ _ hm
        simp only [SpansOk]
        refine ⟨Nat.le_refl _, hb.1, by omega, ?_⟩
        have := ih (i + m) ((c :: cs).take m).getLast? ((c :: cs).drop m) (by simp at hf ⊢; omega)
        have e : i + m + ((c :: cs).drop m).length = i + (c :: cs).length := by
          simp at hb ⊢; omega
        rw [e] at this
        exact this
      · have := ih (i + 1) (some c) cs (by simp at hf; omega)
        apply SpansOk_mono i (i + 1) _ _ (by omega)
        have e : i + 1 + cs.length = i + (c :: cs).length := by simp; omega
        rw [← e]; exact this

theorem findSpans_ok (T : Tables) (ph : Phrase) (txt : Str) :
    SpansOk 0 txt.length (findSpans T ph txt.length 0 none txt) := by
  simpa using findSpans_ok_gen T ph txt.length 0 none txt (Nat.le_refl _)

theorem matchAt_boundaries (T : Tables) (ph : Phrase) (prev : Option Char) (s : Str) (m : Nat)
    (h : matchAt T ph prev s = some m) :
    (ph.bLeft = true → wordBoundary T prev s.head? = true) ∧
    (ph.bRight = true → wordBoundary T ((s.take m).getLast?) (s.drop m).head? = true) ∧ 1 ≤ m := by
  unfold matchAt at h
  split at h
  · simp at h
  · split at h
    · simp at h
    · simp at h
    · split at h
      · simp at h
      · simp at h; subst h
        simp_all
        omega

theorem takeWhile_hash (l r : Str) (h : ∀ c ∈ l, c ≠ '#') :
    (l ++ '#' :: r).takeWhile (· != '#') = l := by
  induction l with
  | nil => simp
  | cons a l ih => simp_all

theorem takeWhile_hash' (l : Str) (h : ∀ c ∈ l, c ≠ '#') :
    l.takeWhile (· != '#') = l := by
  induction l with
  | nil => simp
  | cons a l ih => simp_all

theorem parseRule_comment (T : Tables) (l r : Str) (h : ∀ c ∈ l, c ≠ '#') :
    parseRule T (l ++ '#' :: r) = parseRule T l := by
  unfold parseRule
  rw [takeWhile_hash l r h, takeWhile_hash' l h]

theorem parseRule_no_lhs (T : Tables) (line : Str)
    (h : (splitWs (line.takeWhile (· != '#'))).head? = some ['&'] ∨ splitWs (line.takeWhile (· != '#')) = []) :
    parseRule T line = none := by
  have hl : (splitWs (line.takeWhile (· != '#'))).takeWhile (· != ['&']) = [] := by
    rcases h with h | h
    · cases hw : splitWs (line.takeWhile (· != '#')) with
      | nil => simp
      | cons a ws => rw [hw] at h; simp at h; subst h; simp
    · rw [h]; simp
  unfold parseRule
  simp only [hl]
  simp

theorem substitute_spec (txt : Str) (pos : List Nat) (ms : List Span) (repl : Str)
    (hlen : txt.length = pos.length) (hok : SpansOk 0 txt.length ms) :
    (substitute txt pos ms repl).1.length = (substitute txt pos ms repl).2.length ∧
    (substitute txt pos ms repl).1.zip (substitute txt pos ms repl).2 =
      (List.range txt.length).flatMap (substSpecAt txt pos ms repl) := by
  have h := substituteFrom_spec repl txt pos ms 0 hlen (Nat.zero_le _) hok
  simp only [List.drop_zero, Nat.sub_zero] at h
  rw [List.range_eq_range']
  exact h

theorem substitute_positions (txt : Str) (pos : List Nat) (ms : List Span) (repl : Str)
    (hlen : txt.length = pos.length) (hok : SpansOk 0 txt.length ms) :
    ∀ p ∈ (substitute txt pos ms repl).2, p ∈ pos := by
  -- holds without the two hypotheses; they are part of the given statement
  have _ := hlen
  have _ := hok
  exact substituteFrom_positions repl 0 txt pos ms

theorem applyRule_ok (T : Tables) (tp : Str × List Nat) (r : Rule)
    (hlen : tp.1.length = tp.2.length) :
    (applyRule T tp r).1.length = (applyRule T tp r).2.length ∧
    ∀ p ∈ (applyRule T tp r).2, p ∈ tp.2 := by
  unfold applyRule
  exact ⟨(substitute_spec tp.1 tp.2 _ r.repl hlen (findSpans_ok T r.phrase tp.1)).1,
    substitute_positions tp.1 tp.2 _ r.repl hlen (findSpans_ok T r.phrase tp.1)⟩

theorem foldl_applyRule_ok (T : Tables) (rs : List Rule) (tp : Str × List Nat) (pos : List Nat)
    (hlen : tp.1.length = tp.2.length) (hsub : ∀ p ∈ tp.2, p ∈ pos) :
    (rs.foldl (applyRule T) tp).1.length = (rs.foldl (applyRule T) tp).2.length ∧
    ∀ p ∈ (rs.foldl (applyRule T) tp).2, p ∈ pos := by
  induction rs generalizing tp with
  | nil => exact ⟨hlen, hsub⟩
  | cons r rs ih =>
    simp only [List.foldl_cons]
    have h := applyRule_ok T tp r hlen
    exact ih (applyRule T tp r) h.1 (fun p hp => hsub p (h.2 p hp))

theorem replacePhrases_ok (T : Tables) (txt : Str) (pos : List Nat) (lines : List Str)
    (hlen : txt.length = pos.length) :
    (replacePhrases T txt pos lines).1.length = (replacePhrases T txt pos lines).2.length ∧
    ∀ p ∈ (replacePhrases T txt pos lines).2, p ∈ pos := by
  unfold replacePhrases
  exact foldl_applyRule_ok T _ (txt, pos) pos hlen (fun p hp => hp)

end Yalafi
