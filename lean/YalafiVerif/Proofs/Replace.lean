/-
  Proofs/Replace.lean — helper lemmas for Properties/C13.lean.
-/
import YalafiVerif.Spec.Replace
namespace Yalafi

theorem substitute_spec (txt : Str) (pos : List Nat) (ms : List Span) (repl : Str)
    (hlen : txt.length = pos.length) (hok : SpansOk 0 txt.length ms) :
    (substitute txt pos ms repl).1.length = (substitute txt pos ms repl).2.length ∧
    (substitute txt pos ms repl).1.zip (substitute txt pos ms repl).2 =
      (List.range txt.length).flatMap (substSpecAt txt pos ms repl) := by
  sorry

theorem substitute_positions (txt : Str) (pos : List Nat) (ms : List Span) (repl : Str)
    (hlen : txt.length = pos.length) (hok : SpansOk 0 txt.length ms) :
    ∀ p ∈ (substitute txt pos ms repl).2, p ∈ pos := by
  sorry

theorem findSpans_ok (T : Tables) (ph : Phrase) (txt : Str) :
    SpansOk 0 txt.length (findSpans T ph txt.length 0 none txt) := by
  sorry

theorem matchWords_nl (ws : List Str) (s : Str) (m : Nat)
    (hws : ∀ w ∈ ws, ∀ c ∈ w, c ≠ nl)
    (h : matchWords ws s = some m) : countNl (s.take m) + 1 ≤ ws.length ∨ ws = [] := by
  sorry

theorem matchAt_boundaries (T : Tables) (ph : Phrase) (prev : Option Char) (s : Str) (m : Nat)
    (h : matchAt T ph prev s = some m) :
    (ph.bLeft = true → wordBoundary T prev s.head? = true) ∧
    (ph.bRight = true → wordBoundary T ((s.take m).getLast?) (s.drop m).head? = true) ∧ 1 ≤ m := by
  sorry

theorem parseRule_comment (T : Tables) (l r : Str) (h : ∀ c ∈ l, c ≠ '#') :
    parseRule T (l ++ '#' :: r) = parseRule T l := by
  sorry

theorem parseRule_no_lhs (T : Tables) (line : Str)
    (h : (splitWs (line.takeWhile (· != '#'))).head? = some ['&'] ∨ splitWs (line.takeWhile (· != '#')) = []) :
    parseRule T line = none := by
  sorry

theorem replacePhrases_ok (T : Tables) (txt : Str) (pos : List Nat) (lines : List Str)
    (hlen : txt.length = pos.length) :
    (replacePhrases T txt pos lines).1.length = (replacePhrases T txt pos lines).2.length ∧
    ∀ p ∈ (replacePhrases T txt pos lines).2, p ∈ pos := by
  sorry

end Yalafi
