/-
  Proofs/PlainMixSrc.lean — source level of the UNION grammar (header with the end-to-end statement
  and all side conditions: Proofs/PlainMixE2E.lean).

  `Seg`, `render`, `cwNames`, `nFormulas`   the documents
  `marks`, `mathMarks`            the reference: the document as a list of `PlainMacro.Mark`s (closed
                                  form: the `k`-th formula takes `PlainMath.placeholder repls k`);
                                  `marksL` = the same with the rotating collection as the model keeps
                                  it; `marksL_eq`, `marksL_nomath`
  `firstTokTxtU`, `okAtU`, `textOkU`, `spcOk`, `cwOkU`, `comOk`, `verbOkU`, `segsOk`
                                  the side conditions (computable); `PlainVanish.vanOk` and
                                  `PlainMath.mathOk` are reused as they are
  `OkSrc`                         the same on the source text (what the proofs use): position, source,
                                  marks (as a function of the stored collection), unknown names, number
                                  of formulas
  `nextToken_spc/_com/_sp/_verbU`, `firstTokTxtU_*`   single scanner steps (the others come from
                                  PlainUnknown, PlainMacro, PlainVanish, PlainVerb, PlainMath)
  `commentLen_rest`               behind a comment token there is no white space that `skip_space`
                                  would drop (so comments may follow a control word)
  `ScanFacts`                     the common invariant "the token buffer is the scan of the rest of
                                  the document": `flat ps`, `PiecesOk`, marks of `outP`, `Simple`,
                                  cost, names, formulas; text and droppability of the first token
  `scanSteps_mix`                 ONE scanner lemma by induction over the source
-/
import YalafiVerif.Proofs.PlainMix
namespace Yalafi
namespace PlainMix

open M
open PlainMacro

/-! ### the documents -/

/-- a segment of the source -/
inductive Seg where
  /-- a run of inert text -/
  | txt (s : Str)
  /-- a special sequence `k` of the table (`--`, `~`, `\%`, `\&`, `` `` ``, …) -/
  | spc (k : Str)
  /-- an undeclared control word `\name` and the white space `sp` that `skip_space` drops behind it -/
  | cw (name sp : Str)
  /-- a call `\name{key}` of a vanishing macro -/
  | van (name key : Str)
  /-- a comment `%body` — `body` is everything the scanner takes: the text up to the line break and,
      unless a blank line follows, the line break and the indentation of the next line -/
  | com (body : Str)
  /-- a complete `\verb d s d` -/
  | verb (d : Char) (s : Str)
  /-- a simple inline formula `$body$` -/
  | math (body : Str)
deriving Repr, DecidableEq

def Seg.render : Seg → Str
  | .txt s => s
  | .spc k => k
  | .cw name sp => '\\' :: (name ++ sp)
  | .van name key => '\\' :: (name ++ '{' :: (key ++ ['}']))
  | .com body => '%' :: body
  | .verb d s => '\\' :: 'v' :: 'e' :: 'r' :: 'b' :: d :: (s ++ [d])
  | .math body => '$' :: (body ++ ['$'])

/-- the source text -/
def render : List Seg → Str
  | [] => []
  | s :: rest => s.render ++ render rest

/-- the undeclared control words of the document, with backslash, in order of occurrence -/
def cwNames : List Seg → List Str
  | [] => []
  | .cw name _ :: rest => ('\\' :: name) :: cwNames rest
  | _ :: rest => cwNames rest

/-- the number of formulas of the document -/
def nFormulas : List Seg → Nat
  | [] => 0
  | .math _ :: rest => nFormulas rest + 1
  | _ :: rest => nFormulas rest

/-- the marks of a formula `$body$` that starts at position `p` and is replaced by the placeholder
    `ph`: an Action mark (for the opening `$`), the placeholder and the closing punctuation mark
    of the body (`PlainMath.punctOf`), every character pinned to the position of the first
    character of the body that is no white space, and another Action mark -/
def mathMarks (T : PTables) (ph : Str) (p : Nat) (body : Str) : List Mark :=
  none :: ((ph ++ PlainMath.punctOf T body).map
      (fun c => some (c, p + 1 + PlainMath.leadBlanks body)) ++ [none])

/-- **the reference**: the document, which starts at position `p`, as a list of marks —
    `some (c, pos)` for an output character with its position, `none` where the model leaves an
    Action token; `repls` is the collection of inline placeholders of the language, `k` the number
    of formulas in front:
    * a text character: itself, at its own position;
    * a special sequence: a mark, then its table value at the positions `p, p+1, …` from the first
      character of the sequence on (all keys of the real table have values of length ≤ 1);
    * an undeclared control word (with the white space dropped behind it): a mark;
    * a call of a vanishing macro: a mark;
    * a comment: nothing (no Action token: its line break is simply gone);
    * `\verb d s d`: a mark, then the content `s`, every character at its own position;
    * the `k+1`-st formula: `mathMarks` with the placeholder `PlainMath.placeholder repls (k+1)`
      (entry `(k+1) mod length` of the collection). -/
def marks (T : PTables) (repls : List Str) : Nat → Nat → List Seg → List Mark
  | _, _, [] => []
  | k, p, .txt s :: rest => (posText p s).map some ++ marks T repls k (p + s.length) rest
  | k, p, .spc key :: rest =>
    none :: ((posText p (specialValD T.toTables key)).map some ++ marks T repls k (p + key.length) rest)
  | k, p, .cw name sp :: rest => none :: marks T repls k (p + (name.length + 1 + sp.length)) rest
  | k, p, .van name key :: rest => none :: marks T repls k (p + PlainVanish.vanLen name key) rest
  | k, p, .com body :: rest => marks T repls k (p + (body.length + 1)) rest
  | k, p, .verb _ s :: rest =>
    none :: ((posText (p + 6) s).map some ++ marks T repls k (p + (s.length + 7)) rest)
  | k, p, .math body :: rest =>
    mathMarks T (PlainMath.placeholder repls (k + 1)) p body
      ++ marks T repls (k + 1) (p + (body.length + 2)) rest

/-- the same with the rotating collection `l` as the model keeps it (the next formula takes the
    head of `rotL l`) -/
def marksL (T : PTables) : List Str → Nat → List Seg → List Mark
  | _, _, [] => []
  | l, p, .txt s :: rest => (posText p s).map some ++ marksL T l (p + s.length) rest
  | l, p, .spc key :: rest =>
    none :: ((posText p (specialValD T.toTables key)).map some ++ marksL T l (p + key.length) rest)
  | l, p, .cw name sp :: rest => none :: marksL T l (p + (name.length + 1 + sp.length)) rest
  | l, p, .van name key :: rest => none :: marksL T l (p + PlainVanish.vanLen name key) rest
  | l, p, .com body :: rest => marksL T l (p + (body.length + 1)) rest
  | l, p, .verb _ s :: rest =>
    none :: ((posText (p + 6) s).map some ++ marksL T l (p + (s.length + 7)) rest)
  | l, p, .math body :: rest =>
    mathMarks T ((rotL l).headD []) p body ++ marksL T (rotL l) (p + (body.length + 2)) rest

theorem marksL_eq (T : PTables) (repls : List Str) (hne : repls ≠ []) :
    ∀ (segs : List Seg) (k p : Nat),
      marksL T (PlainMath.rotN k repls) p segs = marks T repls k p segs
  | [], _, _ => rfl
  | .txt s :: rest, k, p => by simp only [marksL, marks, marksL_eq T repls hne rest k]
  | .spc key :: rest, k, p => by simp only [marksL, marks, marksL_eq T repls hne rest k]
  | .cw name sp :: rest, k, p => by simp only [marksL, marks, marksL_eq T repls hne rest k]
  | .van name key :: rest, k, p => by simp only [marksL, marks, marksL_eq T repls hne rest k]
  | .com body :: rest, k, p => by simp only [marksL, marks, marksL_eq T repls hne rest k]
  | .verb d s :: rest, k, p => by simp only [marksL, marks, marksL_eq T repls hne rest k]
  | .math body :: rest, k, p => by
    simp only [marksL, marks, ← PlainMath.rotN_succ, PlainMath.rotN_headD repls hne,
      marksL_eq T repls hne rest (k + 1)]

/-- without formulas the collection does not matter -/
theorem marksL_nomath (T : PTables) (l repls : List Str) :
    ∀ (segs : List Seg) (k p : Nat), nFormulas segs = 0 →
      marksL T l p segs = marks T repls k p segs
  | [], _, _, _ => rfl
  | .txt s :: rest, k, p, h => by simp only [marksL, marks, marksL_nomath T l repls rest k _ h]
  | .spc key :: rest, k, p, h => by simp only [marksL, marks, marksL_nomath T l repls rest k _ h]
  | .cw name sp :: rest, k, p, h => by simp only [marksL, marks, marksL_nomath T l repls rest k _ h]
  | .van name key :: rest, k, p, h => by simp only [marksL, marks, marksL_nomath T l repls rest k _ h]
  | .com body :: rest, k, p, h => by simp only [marksL, marks, marksL_nomath T l repls rest k _ h]
  | .verb d s :: rest, k, p, h => by simp only [marksL, marks, marksL_nomath T l repls rest k _ h]
  | .math body :: rest, k, p, h => by simp [nFormulas] at h

/-! ### the side conditions -/

/-- the text of the first scanner token of a well-formed source: a run of white space, a comment,
    a special sequence, a control word, the content of a `\verb`, or one character -/
def firstTokTxtU (T : Tables) : Str → Str
  | [] => []
  | d :: ds =>
    if isSpace d then (d :: ds).takeWhile isSpace
    else if d == '%' then (d :: ds).take (commentLen (d :: ds))
    else match matchSpecial T (d :: ds) with
      | some t => t
      | none =>
        if d == '\\' then
          (if d :: ds.takeWhile macroChar == sVerb then (scanVerb T [] 0 (d :: ds)).tok.txt
           else d :: ds.takeWhile macroChar)
        else [d]

/-- the text character `c`, followed by `cs` (the *whole* rest of the source), is inert; this is
    `inertAt` of Proofs/Plain.lean, except that the token behind `c` may be any token of the
    union grammar:
    * `c` is not an active character of the current language settings, or it is no white space
      and does not form a short macro with the token behind it (or nothing is behind it), and
    * it is white space, or an ordinary character at which no special sequence matches -/
def okAtU (T : PTables) (st : PState) (c : Char) (cs : Str) : Bool :=
  (!(activeChars T st).contains [c] ||
    (!isSpace c && (cs.isEmpty || !(shortKeys T st).contains (c :: firstTokTxtU T.toTables cs)))) &&
  (isSpace c || (!structuralChar c && (matchSpecial T.toTables (c :: cs)).isNone))

/-- the text `s`, followed by `R`, is inert -/
def textOkU (T : PTables) (st : PState) : Str → Str → Bool
  | [], _ => true
  | c :: cs, R => okAtU T st c (cs ++ R) && textOkU T st cs R

/-- the special sequence `k`, followed by `R`:
    * the scanner matches exactly `k` here (the first = longest entry of the sorted table);
    * `k` reaches the `.special` branch of `expand_sequence` (`plainSpecialKey` of
      Proofs/PlainSpecial.lean: it does not start with white space, `%` or `#`, it is none of
      `$ \( $$ \[ \\ { }`, and it has a value);
    * its value contains no line break or is blank (real table: no value has a line break) -/
def spcOk (T : PTables) (k R : Str) : Bool :=
  matchSpecial T.toTables (k ++ R) == some k && plainSpecialKey T.toTables k &&
  (!hasNl (specialValD T.toTables k) || isBlank (specialValD T.toTables k))

/-- the control word `\name`, followed by the white space `sp` and `R`:
    * `cwOk` of Proofs/PlainUnknown.lean (one macro token of the scanner, undeclared);
    * `sp` is white space with at most one line break (one SpaceToken: dropped by `skip_space`;
      white space with two line breaks is a paragraph token, which is NOT dropped);
    * `R` does not start with white space (`sp` is ALL the white space behind the name), unless
      `sp` is empty and the white space in front of `R` holds two line breaks (`\name⏎⏎`: the
      paragraph break stays).  `R` may start with comments: `skip_space` drops them too, which
      changes nothing, because a comment never leaves droppable white space behind it. -/
def cwOkU (T : PTables) (st : PState) (name sp R : Str) : Bool :=
  cwOk T st name (sp ++ R) && sp.all isSpace && decide (countNl sp < 2) &&
  R.head?.all (fun d => !isSpace d || (sp.isEmpty && decide (2 ≤ countNl (R.takeWhile isSpace))))

/-- the comment `%body`, followed by `R`: the scanner takes exactly `%body` as the comment token
    (`scan_comment`), and the token is an ordinary comment (`comTokOk` of Proofs/PlainComment.lean:
    not the marker `%%% LT-SKIP-BEGIN`, no active character) -/
def comOk (T : PTables) (st : PState) (body R : Str) : Bool :=
  commentLen ('%' :: (body ++ R)) == body.length + 1 && Comment.comTokOk T st ('%' :: body)

/-- `\verb d s d`, followed by `R` (`verbOk` of Proofs/PlainVerb.lean): the delimiter is no letter
    or `@` (else the scanner reads the control word `\verbd…`) and no line break; the content
    contains neither the delimiter nor a line break; no special sequence matches at the backslash -/
def verbOkU (T : PTables) (d : Char) (s R : Str) : Bool :=
  !macroChar d && d != nl && s.all (fun c => c != d && c != nl) &&
  (matchSpecial T.toTables ('\\' :: 'v' :: 'e' :: 'r' :: 'b' :: d :: (s ++ d :: R))).isNone

/-- well-formed documents: every segment is fine in front of the rendering of the following ones -/
def segsOk (T : PTables) (st : PState) : List Seg → Bool
  | [] => true
  | .txt s :: rest => textOkU T st s (render rest) && segsOk T st rest
  | .spc k :: rest => spcOk T k (render rest) && segsOk T st rest
  | .cw name sp :: rest => cwOkU T st name sp (render rest) && segsOk T st rest
  | .van name key :: rest => PlainVanish.vanOk T st name key (render rest) && segsOk T st rest
  | .com body :: rest => comOk T st body (render rest) && segsOk T st rest
  | .verb d s :: rest => verbOkU T d s (render rest) && segsOk T st rest
  | .math body :: rest => PlainMath.mathOk T body (render rest) && segsOk T st rest

/-! ### the same on the source text -/

/-- the source text, which starts at position `p`, with its marks (as a function of the stored
    placeholder collection) and its unknown names -/
inductive OkSrc (T : PTables) (st : PState) : Nat → Str → (List Str → List Mark) → List Str → Nat → Prop
  | nil (p : Nat) : OkSrc T st p [] (fun _ => []) [] 0
  | chr (p : Nat) (c : Char) (cs : Str) (ms : List Str → List Mark) (nms : List Str) (nf : Nat) :
      okAtU T st c cs = true → OkSrc T st (p + 1) cs ms nms nf →
      OkSrc T st p (c :: cs) (fun l => some (c, p) :: ms l) nms nf
  | spc (p : Nat) (c : Char) (tl R : Str) (ms : List Str → List Mark) (nms : List Str) (nf : Nat) :
      spcOk T (c :: tl) R = true → OkSrc T st (p + (tl.length + 1)) R ms nms nf →
      OkSrc T st p (c :: (tl ++ R))
        (fun l => none :: ((posText p (specialValD T.toTables (c :: tl))).map some ++ ms l)) nms nf
  | cw (p : Nat) (name sp R : Str) (ms : List Str → List Mark) (nms : List Str) (nf : Nat) :
      cwOkU T st name sp R = true → OkSrc T st (p + (name.length + 1 + sp.length)) R ms nms nf →
      OkSrc T st p ('\\' :: (name ++ (sp ++ R))) (fun l => none :: ms l) (('\\' :: name) :: nms) nf
  | van (p : Nat) (name key R : Str) (ms : List Str → List Mark) (nms : List Str) (nf : Nat) :
      PlainVanish.vanOk T st name key R = true →
      OkSrc T st (p + PlainVanish.vanLen name key) R ms nms nf →
      OkSrc T st p ('\\' :: (name ++ '{' :: (key ++ '}' :: R))) (fun l => none :: ms l) nms nf
  | com (p : Nat) (body R : Str) (ms : List Str → List Mark) (nms : List Str) (nf : Nat) :
      comOk T st body R = true → OkSrc T st (p + (body.length + 1)) R ms nms nf →
      OkSrc T st p ('%' :: (body ++ R)) ms nms nf
  | verb (p : Nat) (d : Char) (s R : Str) (ms : List Str → List Mark) (nms : List Str) (nf : Nat) :
      verbOkU T d s R = true → OkSrc T st (p + (s.length + 7)) R ms nms nf →
      OkSrc T st p ('\\' :: 'v' :: 'e' :: 'r' :: 'b' :: d :: (s ++ d :: R))
        (fun l => none :: ((posText (p + 6) s).map some ++ ms l)) nms nf
  | math (p : Nat) (body R : Str) (ms : List Str → List Mark) (nms : List Str) (nf : Nat) :
      PlainMath.mathOk T body R = true → OkSrc T st (p + (body.length + 2)) R ms nms nf →
      OkSrc T st p ('$' :: (body ++ '$' :: R))
        (fun l => mathMarks T ((rotL l).headD []) p body ++ ms (rotL l)) nms (nf + 1)

theorem OkSrc_text (T : PTables) (st : PState) (R : Str) (ms : List Str → List Mark) (nms : List Str) (nf : Nat) :
    ∀ (s : Str) (p : Nat), OkSrc T st (p + s.length) R ms nms nf → textOkU T st s R = true →
      OkSrc T st p (s ++ R) (fun l => (posText p s).map some ++ ms l) nms nf
  | [], _, hR, _ => hR
  | c :: cs, p, hR, h => by
    simp only [textOkU, Bool.and_eq_true] at h
    have hR' : OkSrc T st (p + 1 + cs.length) R ms nms nf := by
      have e : p + 1 + cs.length = p + (c :: cs).length := by simp; omega
      rw [e]; exact hR
    exact OkSrc.chr p c (cs ++ R) _ _ _ h.1 (OkSrc_text T st R ms nms nf cs (p + 1) hR' h.2)

theorem spcOk_ne {T : PTables} {k R : Str} (h : spcOk T k R = true) : k ≠ [] := by
  rintro rfl
  simp [spcOk, plainSpecialKey] at h

theorem OkSrc_of_segsOk (T : PTables) (st : PState) :
    ∀ (segs : List Seg) (p : Nat), segsOk T st segs = true →
      OkSrc T st p (render segs) (fun l => marksL T l p segs) (cwNames segs) (nFormulas segs)
  | [], p, _ => .nil p
  | .txt s :: rest, p, h => by
    simp only [segsOk, Bool.and_eq_true] at h
    exact OkSrc_text T st _ _ _ _ s p (OkSrc_of_segsOk T st rest _ h.2) h.1
  | .spc k :: rest, p, h => by
    simp only [segsOk, Bool.and_eq_true] at h
    cases k with
    | nil => exact absurd rfl (spcOk_ne h.1)
    | cons c tl =>
      have := OkSrc.spc p c tl (render rest) _ _ _ h.1 (OkSrc_of_segsOk T st rest _ h.2)
      simpa [render, Seg.render, marksL, cwNames, nFormulas] using this
  | .cw name sp :: rest, p, h => by
    simp only [segsOk, Bool.and_eq_true] at h
    have := OkSrc.cw p name sp (render rest) _ _ _ h.1 (OkSrc_of_segsOk T st rest _ h.2)
    simpa [render, Seg.render, marksL, cwNames, nFormulas] using this
  | .van name key :: rest, p, h => by
    simp only [segsOk, Bool.and_eq_true] at h
    have := OkSrc.van p name key (render rest) _ _ _ h.1 (OkSrc_of_segsOk T st rest _ h.2)
    simpa [render, Seg.render, marksL, cwNames, nFormulas] using this
  | .com body :: rest, p, h => by
    simp only [segsOk, Bool.and_eq_true] at h
    have := OkSrc.com p body (render rest) _ _ _ h.1 (OkSrc_of_segsOk T st rest _ h.2)
    simpa [render, Seg.render, marksL, cwNames, nFormulas] using this
  | .verb d s :: rest, p, h => by
    simp only [segsOk, Bool.and_eq_true] at h
    have := OkSrc.verb p d s (render rest) _ _ _ h.1 (OkSrc_of_segsOk T st rest _ h.2)
    simpa [render, Seg.render, marksL, cwNames, nFormulas] using this
  | .math body :: rest, p, h => by
    simp only [segsOk, Bool.and_eq_true] at h
    have := OkSrc.math p body (render rest) _ _ _ h.1 (OkSrc_of_segsOk T st rest _ h.2)
    simpa [render, Seg.render, marksL, cwNames, nFormulas] using this

theorem spcOk_head {T : PTables} {c : Char} {tl R : Str} (h : spcOk T (c :: tl) R = true) :
    isSpace c = false ∧ c ≠ '%' ∧ c ≠ '#' := by
  simp only [spcOk, plainSpecialKey, Bool.and_eq_true, Bool.not_eq_true', bne_iff_ne, ne_eq] at h
  exact ⟨h.1.2.1.1.1.1, h.1.2.1.1.1.2, h.1.2.1.1.2⟩

/-- white space in front can be dropped -/
theorem OkSrc_drop_space (T : PTables) (st : PState) (nms : List Str) (nf : Nat) :
    ∀ (k : Nat) (p : Nat) (s : Str) (ms : List Str → List Mark), k ≤ s.length →
      OkSrc T st p s ms nms nf → (∀ x ∈ s.take k, isSpace x = true) →
      ∃ ms', (∀ l, ms l = (posText p (s.take k)).map some ++ ms' l) ∧
        OkSrc T st (p + k) (s.drop k) ms' nms nf
  | 0, _, _, ms, _, h, _ => ⟨ms, fun _ => rfl, h⟩
  | k + 1, _, [], _, hk, _, _ => by simp at hk
  | k + 1, p, c :: cs, _, hk, h, hsp => by
    have hc : isSpace c = true := hsp c (by simp)
    cases h with
    | chr _ _ _ ms0 _ _ _ h2 =>
      obtain ⟨ms', e, h3⟩ := OkSrc_drop_space T st nms nf k (p + 1) cs ms0 (by simpa using hk) h2
        (fun x hx => hsp x (by simp [hx]))
      refine ⟨ms', fun l => by simp [posText, e l], ?_⟩
      have e : p + (k + 1) = p + 1 + k := by omega
      rw [e]; exact h3
    | spc _ _ tl R _ _ _ hd _ => exact absurd hc (by rw [(spcOk_head hd).1]; simp)
    | cw _ name sp R _ _ _ _ _ => exact absurd hc (by decide)
    | van _ name key R _ _ _ _ _ => exact absurd hc (by decide)
    | com _ body R _ _ _ _ _ => exact absurd hc (by decide)
    | verb _ d s R _ _ _ _ _ => exact absurd hc (by decide)
    | math _ body R _ _ _ _ _ => exact absurd hc (by decide)

/-- the conditions depend on the state only through the language stack, the macro table and the
    marker of the skip pre-pass -/
theorem OkSrc.congr {T : PTables} {st st' : PState} (hl : st'.langStack = st.langStack)
    (hm : st'.macros = st.macros) (hs : st'.skipBegin = st.skipBegin)
    {p : Nat} {s : Str} {ms : List Str → List Mark} {nms : List Str} {nf : Nat} (h : OkSrc T st p s ms nms nf) :
    OkSrc T st' p s ms nms nf := by
  induction h with
  | nil p => exact .nil p
  | chr p c cs ms nms nf hat _ ih =>
    refine .chr p c cs ms nms nf ?_ ih
    rw [← hat]
    simp only [okAtU, activeChars_congr T st st' hl, shortKeys_congr T st st' hl]
  | spc p c tl R ms nms nf hd _ ih => exact .spc p c tl R ms nms nf hd ih
  | cw p name sp R ms nms nf hd _ ih =>
    refine .cw p name sp R ms nms nf ?_ ih
    rw [← hd]
    simp only [cwOkU, cwOk, lookupMacro, hm]
  | van p name key R ms nms nf hd _ ih =>
    refine .van p name key R ms nms nf ?_ ih
    rw [← hd]
    simp only [PlainVanish.vanOk, lookupMacro, hm]
  | com p body R ms nms nf hd _ ih =>
    refine .com p body R ms nms nf ?_ ih
    rw [← hd]
    simp only [comOk, Comment.comTokOk, hs, activeChars_congr T st st' hl]
  | verb p d s R ms nms nf hd _ ih => exact .verb p d s R ms nms nf hd ih
  | math p body R ms nms nf hd _ ih => exact .math p body R ms nms nf hd ih

/-! ### single scanner steps -/

theorem nextToken_space (T : Tables) (src : Str) (pos : Nat) (c : Char) (cs : Str)
    (h : isSpace c = true) : nextToken T src pos (c :: cs) = scanSpace pos (c :: cs) := by
  simp [nextToken, h]

structure SpcFacts (T : PTables) (c : Char) (tl R : Str) : Prop where
  ms : matchSpecial T.toTables (c :: (tl ++ R)) = some (c :: tl)
  key : plainSpecialKey T.toTables (c :: tl) = true
  val : hasNl (specialValD T.toTables (c :: tl)) = true → isBlank (specialValD T.toTables (c :: tl)) = true
  nsp : isSpace c = false
  npc : c ≠ '%'
  nha : c ≠ '#'

theorem spcFacts {T : PTables} {c : Char} {tl R : Str} (h : spcOk T (c :: tl) R = true) :
    SpcFacts T c tl R := by
  obtain ⟨h1, h2, h3⟩ := spcOk_head h
  simp only [spcOk, Bool.and_eq_true, Bool.or_eq_true, Bool.not_eq_true', beq_iff_eq] at h
  refine ⟨by simpa using h.1.1, h.1.2, ?_, h1, h2, h3⟩
  intro hn
  rcases h.2 with h | h
  · rw [h] at hn; cases hn
  · exact h

theorem nextToken_spc (T : PTables) (src : Str) (pos : Nat) (c : Char) (tl R : Str)
    (h : SpcFacts T c tl R) :
    nextToken T.toTables src pos (c :: (tl ++ R))
      = { tok := { kind := .special, pos := pos, txt := c :: tl }, len := tl.length + 1 } := by
  simp [nextToken, h.nsp, h.npc, h.nha, h.ms]

structure ComFacts (T : PTables) (st : PState) (body R : Str) : Prop where
  len : commentLen ('%' :: (body ++ R)) = body.length + 1
  nskip : startsWith ('%' :: body) st.skipBegin = false
  nact : (activeChars T st).contains ('%' :: body) = false

theorem comFacts {T : PTables} {st : PState} {body R : Str} (h : comOk T st body R = true) :
    ComFacts T st body R := by
  simp only [comOk, Comment.comTokOk, Bool.and_eq_true, Bool.not_eq_true', beq_iff_eq] at h
  exact ⟨h.1, h.2.1, h.2.2⟩

theorem nextToken_com (T : PTables) (st : PState) (src : Str) (pos : Nat) (body R : Str)
    (h : ComFacts T st body R) :
    nextToken T.toTables src pos ('%' :: (body ++ R))
      = { tok := { kind := .comment, pos := pos, txt := '%' :: body }, len := body.length + 1 } := by
  simp [nextToken, show isSpace '%' = false by decide, scanComment, h.len]

structure CwUFacts (T : PTables) (st : PState) (name sp R : Str) : Prop where
  cw : CwFacts T st name (sp ++ R)
  white : ∀ x ∈ sp, isSpace x = true
  nls : countNl sp < 2
  head : ∀ d ds, R = d :: ds → isSpace d = true → sp = [] ∧ 2 ≤ countNl (R.takeWhile isSpace)

theorem cwUFacts {T : PTables} {st : PState} {name sp R : Str} (h : cwOkU T st name sp R = true) :
    CwUFacts T st name sp R := by
  simp only [cwOkU, Bool.and_eq_true, List.all_eq_true, decide_eq_true_eq] at h
  obtain ⟨⟨⟨h1, h2⟩, h3⟩, h4⟩ := h
  refine ⟨cwFacts h1, h2, h3, ?_⟩
  intro d ds hR
  subst hR
  simp only [List.head?_cons, Option.all_some, Bool.and_eq_true, Bool.or_eq_true,
    Bool.not_eq_true', List.isEmpty_iff, decide_eq_true_eq] at h4
  intro hd
  rcases h4 with h | h
  · rw [h] at hd; cases hd
  · exact h

theorem takeWhile_space_prefix (sp R : Str) (h1 : ∀ x ∈ sp, isSpace x = true)
    (h2 : ∀ d ds, R = d :: ds → isSpace d = false) : (sp ++ R).takeWhile isSpace = sp := by
  induction sp with
  | nil =>
    cases R with
    | nil => rfl
    | cons d ds => simp [h2 d ds rfl]
  | cons x xs ih =>
    simp [h1 x (List.mem_cons_self ..), ih (fun y hy => h1 y (List.mem_cons_of_mem _ hy))]

/-- the SpaceToken of the white space `sp ≠ []` behind a control word -/
theorem nextToken_sp (T : Tables) (src : Str) (pos : Nat) (x : Char) (xs R : Str)
    (h1 : ∀ y ∈ x :: xs, isSpace y = true) (hnl : countNl (x :: xs) < 2)
    (h2 : ∀ d ds, R = d :: ds → isSpace d = false) :
    nextToken T src pos (x :: (xs ++ R))
      = { tok := { kind := .space, pos := pos, txt := x :: xs }, len := xs.length + 1 } := by
  rw [nextToken_space T src pos x _ (h1 x (List.mem_cons_self ..))]
  have := takeWhile_space_prefix (x :: xs) R h1 h2
  simp only [List.cons_append] at this
  simp [scanSpace, this, hnl]

structure VerbFacts (T : PTables) (d : Char) (s R : Str) : Prop where
  nmc : macroChar d = false
  nnl : d ≠ nl
  body : ∀ c ∈ s, c ≠ d ∧ c ≠ nl
  noNl : hasNl s = false
  ms : matchSpecial T.toTables ('\\' :: 'v' :: 'e' :: 'r' :: 'b' :: d :: (s ++ d :: R)) = none

theorem verbFacts {T : PTables} {d : Char} {s R : Str} (h : verbOkU T d s R = true) :
    VerbFacts T d s R := by
  simp only [verbOkU, Bool.and_eq_true, Bool.not_eq_true', bne_iff_ne, ne_eq,
    Option.isNone_iff_eq_none] at h
  obtain ⟨⟨⟨h1, h2⟩, h3⟩, h4⟩ := h
  obtain ⟨h5, h6⟩ := verb_all_facts h3
  exact ⟨h1, h2, h5, h6, h4⟩

theorem nextToken_verbU (T : PTables) (src : Str) (pos : Nat) (d : Char) (s R : Str)
    (h : VerbFacts T d s R) :
    nextToken T.toTables src pos ('\\' :: 'v' :: 'e' :: 'r' :: 'b' :: d :: (s ++ d :: R))
      = { tok := { kind := .verb false, pos := pos + 6, txt := s }, len := s.length + 7 } :=
  nextToken_verb T.toTables src pos d s R h.nmc h.nnl h.body h.ms

theorem firstTokTxtU_verb (T : PTables) (d : Char) (s R : Str) (h : VerbFacts T d s R) :
    firstTokTxtU T.toTables ('\\' :: 'v' :: 'e' :: 'r' :: 'b' :: d :: (s ++ d :: R)) = s := by
  have h1 := nextToken_sVerb T.toTables [] 0 d (s ++ d :: R) h.nmc h.ms
  have h2 := nextToken_verbU T [] 0 d s R h
  have h3 : scanVerb T.toTables [] 0 ('\\' :: 'v' :: 'e' :: 'r' :: 'b' :: d :: (s ++ d :: R))
      = { tok := { kind := .verb false, pos := 0 + 6, txt := s }, len := s.length + 7 } :=
    h1.symm.trans h2
  have htw : ('v' :: 'e' :: 'r' :: 'b' :: d :: (s ++ d :: R)).takeWhile macroChar
      = ['v', 'e', 'r', 'b'] := by
    simp [h.nmc, show macroChar 'v' = true by decide, show macroChar 'e' = true by decide,
      show macroChar 'r' = true by decide, show macroChar 'b' = true by decide]
  have hv : (['\\', 'v', 'e', 'r', 'b'] == sVerb) = true := by decide
  simp only [firstTokTxtU, show isSpace '\\' = false by decide, Bool.false_eq_true, if_false,
    show ('\\' == '%') = false by decide, h.ms, beq_self_eq_true, if_true, htw, hv, h3]

theorem firstTokTxtU_cw (T : Tables) (name X : Str) (htw : (name ++ X).takeWhile macroChar = name)
    (hm : matchSpecial T ('\\' :: (name ++ X)) = none) (hv : ('\\' :: name) ≠ sVerb) :
    firstTokTxtU T ('\\' :: (name ++ X)) = '\\' :: name := by
  have hv' : (('\\' :: name) == sVerb) = false := beq_eq_false_iff_ne.mpr hv
  simp only [firstTokTxtU, show isSpace '\\' = false by decide, Bool.false_eq_true, if_false,
    show ('\\' == '%') = false by decide, hm, beq_self_eq_true, if_true, htw, hv']

theorem firstTokTxtU_of_text (T : Tables) (c : Char) (cs : Str)
    (h : isSpace c = true ∨ (structuralChar c = false ∧ matchSpecial T (c :: cs) = none)) :
    firstTokTxtU T (c :: cs) = firstTokTxt (c :: cs) := by
  unfold firstTokTxtU firstTokTxt
  by_cases hsp : isSpace c = true
  · simp [hsp]
  · rcases h with h | ⟨h, hm⟩
    · exact absurd h hsp
    · have h1 : c ≠ '\\' := by
        intro e; subst e; exact absurd h (by decide)
      have h2 : c ≠ '%' := by
        intro e; subst e; exact absurd h (by decide)
      simp [hsp, h1, h2, hm]

/-! ### the scanner loop -/

/-- the tokens without the comment tokens in front -/
def dropComToks (toks : List Tok) : List Tok := toks.dropWhile (fun t => t.kind == .comment)

theorem dropComToks_cons (t : Tok) (ts : List Tok) (h : t.kind ≠ .comment) :
    dropComToks (t :: ts) = t :: ts := by
  simp [dropComToks, h]

theorem dropComToks_com (t : Tok) (ts : List Tok) (h : t.kind = .comment) :
    dropComToks (t :: ts) = dropComToks ts := by
  simp [dropComToks, h]

theorem flat_dropComs (T : PTables) (st : PState) : ∀ ps : List Piece, PiecesOk T st ps →
    flat (dropComs ps) = dropComToks (flat ps)
  | [], _ => rfl
  | .com t :: rest, h => by
    simp only [dropComs, flat, Piece.toks, List.singleton_append]
    rw [dropComToks_com _ _ h.1.kind]
    exact flat_dropComs T st rest h.2
  | .tok t :: rest, h => by
    simp only [dropComs, flat, Piece.toks, List.singleton_append]
    rw [dropComToks_cons _ _ h.1.notComment]
  | .spc t :: rest, h => by
    simp only [dropComs, flat, Piece.toks, List.singleton_append]
    rw [dropComToks_cons _ _ (by rw [h.1.1]; simp)]
  | .cw p name sk :: rest, h => by
    simp only [dropComs, flat, Piece.toks, List.cons_append]
    rw [dropComToks_cons _ _ (by simp [cwTok])]
  | .van p q1 q2 name key repl :: rest, h => by
    simp only [dropComs, flat, Piece.toks, List.cons_append]
    rw [dropComToks_cons _ _ (by simp [cwTok])]
  | .verb t :: rest, h => by
    simp only [dropComs, flat, Piece.toks, List.singleton_append]
    rw [dropComToks_cons _ _ (by rw [h.1]; simp)]
  | .math d1 b d2 :: rest, h => by
    simp only [dropComs, flat, Piece.toks, List.cons_append]
    rw [dropComToks_cons _ _ (by rcases h.1.kind with e | e <;> simp [e])]

/-- behind a comment token there is no white space that `skip_space` would drop: the comment has
    swallowed it, or it holds two line breaks (a paragraph token) -/
theorem commentLen_rest (body R : Str) (h : commentLen ('%' :: (body ++ R)) = body.length + 1) :
    ∀ c cs, R = c :: cs → isSpace c = true → 2 ≤ countNl (R.takeWhile isSpace) := by
  intro c cs hR hc
  subst hR
  rw [← Comment.commentSpan_eq_commentLen] at h
  simp only [Comment.commentSpan, List.tail_cons] at h
  have hsplit := List.takeWhile_append_dropWhile (p := (· != nl)) (l := body ++ c :: cs)
  have hlen := congrArg List.length hsplit
  simp only [List.length_append, List.length_cons] at hlen
  cases hdw : (body ++ c :: cs).dropWhile (· != nl) with
  | nil =>
    rw [hdw] at h hlen
    simp only [List.length_nil] at hlen
    simp only [] at h
    omega
  | cons x more =>
    rw [hdw] at h hlen hsplit
    simp only [List.length_cons] at hlen
    have hx : x = nl := by
      have := @List.head_dropWhile_not _ (· != nl) (body ++ c :: cs) (by rw [hdw]; simp)
      simp only [hdw, List.head_cons] at this
      simpa using this
    simp only [] at h
    by_cases hnl : hasNl (more.takeWhile isSpace) = true
    · simp only [hnl, if_true] at h
      -- the comment is `%body`: `c` is the line break, a blank line follows
      have hl : ((body ++ c :: cs).takeWhile (· != nl)).length = body.length := by omega
      have := List.append_inj hsplit hl
      obtain ⟨_, h2⟩ := this
      simp only [List.cons.injEq] at h2
      obtain ⟨rfl, rfl⟩ := h2
      rw [hx]
      have h1 : isSpace nl = true := by decide
      have h2 : (nl :: more).takeWhile isSpace = nl :: more.takeWhile isSpace := by simp [h1]
      have h3 : 0 < List.count nl (List.takeWhile isSpace more) := by
        rw [List.count_pos_iff]
        simpa [hasNl] using hnl
      rw [h2]
      simp only [countNl, List.count_cons_self]
      omega
    · exfalso
      simp only [hnl, Bool.false_eq_true, if_false] at h
      -- the comment has swallowed the white space: `c` is no white space
      have hsp := List.takeWhile_append_dropWhile (p := isSpace) (l := more)
      have hl : ((body ++ c :: cs).takeWhile (· != nl) ++ x :: more.takeWhile isSpace).length
          = body.length := by
        simp only [List.length_append, List.length_cons]; omega
      have hsplit' : ((body ++ c :: cs).takeWhile (· != nl) ++ x :: more.takeWhile isSpace)
          ++ more.dropWhile isSpace = body ++ c :: cs := by
        rw [List.append_assoc, List.cons_append, hsp]; exact hsplit
      obtain ⟨_, h2⟩ := List.append_inj hsplit' hl
      have : isSpace c = false := by
        have := @List.head_dropWhile_not _ isSpace more (by rw [h2]; simp)
        simp only [h2, List.head_cons] at this
        simpa using this
      rw [this] at hc; cases hc

/-- a placeholder that the blank-line removal can handle character by character: no line break,
    or blank -/
def ReplOk (r : Str) : Prop := hasNl r = true → isBlank r = true

/-- what the scanner loop yields on a well-formed source, and what the token buffer means -/
structure ScanFacts (T : PTables) (st : PState) (rest : Str) (ms : List Str → List Mark)
    (nms : List Str) (nf : Nat) (steps : List ScanStep) : Prop where
  ok : ∀ s ∈ steps, s.diag = none ∧ s.extra = []
  pieces : ∃ ps, steps.map (·.tok) = flat ps ∧ PiecesOk T st ps ∧
    (∀ l, marksOf (outP T l ps) = ms l) ∧
    (∀ l, (∀ r ∈ l, ReplOk r) → ∀ t ∈ outP T l ps, Simple t) ∧
    cost ps ≤ rest.length ∧ names ps = nms ∧ nMath ps = nf
  first : ∀ s ss, steps = s :: ss → s.tok.txt = firstTokTxtU T.toTables rest
  firstK : ∀ t ts, dropComToks (steps.map (·.tok)) = t :: ts → droppable t = true →
    ∃ c cs, rest = c :: cs ∧ isSpace c = true ∧ countNl (rest.takeWhile isSpace) < 2

theorem ScanFacts_nil (T : PTables) (st : PState) : ScanFacts T st [] (fun _ => []) [] 0 [] :=
  ⟨by simp, ⟨[], rfl, trivial, fun _ => rfl, by simp [outP], by simp [cost], rfl, rfl⟩, by simp,
    by simp [dropComToks]⟩

theorem mkFix_restamp (k : Kind) (q : Nat) (txt : Str) :
    mkFix k q txt = restamp q { kind := k, pos := 0, txt := txt } := rfl

theorem marksOf_formulaOut (T : PTables) (ph : Str) (p q : Nat) (s : Str) (rest : List Tok) :
    marksOf (PlainMath.formulaOut T ph p q s ++ rest)
      = none :: ((ph ++ (PlainMath.punctChar T s).toList).map (fun c => some (c, q))
          ++ none :: marksOf rest) := by
  have hfix : ∀ v : Str, tokMarks (mkFix .text q v) = v.map (fun c => some (c, q)) := by
    intro v
    rw [tokMarks_nonaction _ rfl, mkFix_restamp, tokChars_restamp]
    simp
  unfold PlainMath.formulaOut
  cases PlainMath.punctChar T s <;>
    simp [marksOf_cons, tokMarks_mkAction, hfix]

theorem simple_formulaOut (T : PTables) (ph : Str) (p q : Nat) (s : Str) (h : ReplOk ph) :
    ∀ t ∈ PlainMath.formulaOut T ph p q s, Simple t := by
  intro t ht
  unfold PlainMath.formulaOut at ht
  have hpunct : ∀ c : Char, Simple (mkFix .text q [c]) := by
    intro c
    refine ⟨by simp [isAction, mkFix], by simp [isLang, mkFix], ?_⟩
    intro hn
    have : nl = c := by simpa [hasNl, mkFix] using hn
    subst this
    rfl
  have hph : Simple (mkFix .text q ph) := ⟨by simp [isAction, mkFix], by simp [isLang, mkFix], h⟩
  cases hpc : PlainMath.punctChar T s with
  | none =>
    simp only [hpc, List.append_nil, List.cons_append, List.nil_append, List.mem_cons,
      List.not_mem_nil, or_false] at ht
    rcases ht with rfl | rfl | rfl
    · exact simple_mkAction p
    · exact hph
    · exact simple_mkAction q
  | some c =>
    simp only [hpc, List.cons_append, List.nil_append, List.mem_cons,
      List.not_mem_nil, or_false] at ht
    rcases ht with rfl | rfl | rfl | rfl
    · exact simple_mkAction p
    · exact hph
    · exact hpunct c
    · exact simple_mkAction q

theorem firstTokTxtU_dollar (T : PTables) (rest : Str) (h : PlainMath.dollarAt T rest = true) :
    firstTokTxtU T.toTables ('$' :: rest) = ['$'] := by
  unfold PlainMath.dollarAt at h
  simp only [firstTokTxtU, show isSpace '$' = false by decide, Bool.false_eq_true, if_false,
    show ('$' == '%') = false by decide, show ('$' == '\\') = false by decide]
  cases hm : matchSpecial T.toTables ('$' :: rest) with
  | none => rfl
  | some t =>
    rw [hm] at h
    simpa using h

theorem simple_special_val (p : Nat) (v : Str) (f : Bool) (h : hasNl v = true → isBlank v = true) :
    Simple { kind := .text, pos := p, txt := v, fix := f } :=
  ⟨by simp [isAction], by simp [isLang], h⟩

theorem okAtU_snd {T : PTables} {st : PState} {c : Char} {cs : Str} (h : okAtU T st c cs = true) :
    isSpace c = true ∨ (structuralChar c = false ∧ matchSpecial T.toTables (c :: cs) = none) := by
  simp only [okAtU, Bool.and_eq_true, Bool.or_eq_true] at h
  rcases h.2 with h | ⟨h1, h2⟩
  · exact Or.inl h
  · refine Or.inr ⟨by simpa using h1, ?_⟩
    cases hx : matchSpecial T.toTables (c :: cs) with
    | none => rfl
    | some _ => rw [hx] at h2; simp at h2

/-- the first token that is no comment behind a control word (and the white space `sp` behind it)
    is not dropped by `skip_space` -/
theorem head_not_droppable {T : PTables} {st : PState} {R : Str} {ms : List Str → List Mark}
    {nms : List Str} {nf : Nat}
    {steps : List ScanStep} (I : ScanFacts T st R ms nms nf steps) {ps : List Piece}
    (hflat : steps.map (·.tok) = flat ps) (hpok : PiecesOk T st ps)
    (hR : ∀ d ds, R = d :: ds → isSpace d = true → 2 ≤ countNl (R.takeWhile isSpace)) :
    ∀ t ts, flat (dropComs ps) = t :: ts → droppable t = false := by
  intro t ts hft
  cases hb : droppable t with
  | false => rfl
  | true =>
    exfalso
    rw [flat_dropComs T st ps hpok, ← hflat] at hft
    obtain ⟨d, ds, hRd, h1, h2⟩ := I.firstK t ts hft hb
    have := hR d ds hRd h1
    omega

/-- **the scanner loop on a well-formed source** (one lemma for all kinds of segments) -/
theorem scanSteps_mix (T : PTables) (st : PState) (src : Str) :
    ∀ (n fuel pos : Nat) (rest : Str) (ms : List Str → List Mark) (nms : List Str) (nf : Nat),
    rest.length ≤ n → rest.length ≤ fuel → OkSrc T st pos rest ms nms nf →
    (scanSteps T.toTables src fuel pos rest).2 = true ∧
    ScanFacts T st rest ms nms nf (scanSteps T.toTables src fuel pos rest).1 := by
  intro n
  induction n with
  | zero =>
    intro fuel pos rest ms nms nf hn _ hok
    cases rest with
    | nil => cases hok; exact ⟨by simp [scanSteps], by simpa [scanSteps] using ScanFacts_nil T st⟩
    | cons c cs => simp at hn
  | succ n ih =>
    intro fuel pos rest ms nms nf hn hf hok
    cases rest with
    | nil => cases hok; exact ⟨by simp [scanSteps], by simpa [scanSteps] using ScanFacts_nil T st⟩
    | cons c cs =>
      obtain ⟨fuel, rfl⟩ : ∃ f, fuel = f + 1 := ⟨fuel - 1, by simp at hf; omega⟩
      have hok0 := hok
      cases hok with
      | chr _ _ _ ms' _ _ hat hsub0 =>
        have hsnd := okAtU_snd hat
        obtain ⟨hp, hone⟩ := nextToken_text T src pos c cs hsnd
        have hspace := nextToken_space T.toTables src pos c cs
        generalize hs : nextToken T.toTables src pos (c :: cs) = s at hp hone hspace
        have h1 := hp.len_pos
        have h2 := hp.len_le
        have hsub : ∃ ms1, (∀ l, some (c, pos) :: ms' l
              = (posText pos ((c :: cs).take s.len)).map some ++ ms1 l) ∧
            OkSrc T st (pos + s.len) ((c :: cs).drop s.len) ms1 nms nf := by
          by_cases hsp : isSpace c = true
          · refine OkSrc_drop_space T st nms nf s.len pos (c :: cs) _ h2 hok0 ?_
            intro x hx
            rw [← hp.txt, hp.first] at hx
            simp only [firstTokTxt, hsp, if_true] at hx
            exact mem_takeWhile_imp _ _ _ hx
          · have := (hone (by simpa using hsp)).1
            rw [this]
            exact ⟨ms', fun _ => rfl, hsub0⟩
        obtain ⟨ms1, hms1, hsub⟩ := hsub
        rw [scanSteps_step T.toTables src fuel pos c cs s hs (by omega)]
        have hl : ((c :: cs).drop s.len).length ≤ fuel := by
          simp only [List.length_drop]; simp only [List.length_cons] at hf h2 ⊢; omega
        have hl' : ((c :: cs).drop s.len).length ≤ n := by
          simp only [List.length_drop]; simp only [List.length_cons] at hn h2 ⊢; omega
        obtain ⟨i1, I⟩ := ih fuel (pos + s.len) ((c :: cs).drop s.len) ms1 nms nf hl' hl hsub
        obtain ⟨ps', hflat, hpok, hmarks, hsimple, hcost, hnames, hnf⟩ := I.pieces
        have hne : s.tok.txt ≠ [] := by
          rw [hp.txt]
          intro h0
          have := congrArg List.length h0
          simp only [List.length_take, List.length_nil] at this
          omega
        have hshape : Shape s.tok := by
          refine ⟨hne, ?_⟩
          intro hnl
          by_cases hsp : isSpace c = true
          · rw [hp.first]
            simp only [firstTokTxt, hsp, if_true, isBlank, List.all_eq_true]
            exact fun x hx => mem_takeWhile_imp _ _ _ hx
          · have hsp' : isSpace c = false := by simpa using hsp
            have := (hone hsp').1
            rw [hp.txt, this] at hnl
            simp only [List.take_succ_cons, List.take_zero] at hnl
            rw [hasNl_single c hsp'] at hnl; cases hnl
        refine ⟨i1, ?_, ?_, ?_, ?_⟩
        · intro x hx
          rcases List.mem_cons.mp hx with rfl | hx
          · exact ⟨hp.diag, hp.extra⟩
          · exact I.ok x hx
        · refine ⟨.tok s.tok :: ps', by simp [flat, Piece.toks, hflat], ⟨hp.tok, ?_, hpok⟩, ?_, ?_, ?_,
            by simp [names, hnames], by simp [nMath, hnf]⟩
          · -- the short-macro branch
            rw [← hflat]
            have hact := hat
            simp only [okAtU, Bool.and_eq_true, Bool.or_eq_true, Bool.not_eq_true'] at hact
            rcases hact.1 with hna | ⟨hns, hk⟩
            · left
              have : s.tok.txt = c :: (cs.take (s.len - 1)) := by
                rw [hp.txt]
                obtain ⟨k, hk⟩ : ∃ k, s.len = k + 1 := ⟨s.len - 1, by omega⟩
                rw [hk]; simp
              rw [this]
              exact not_active_cons T st c _ hna
            · right
              have hlen := (hone hns).1
              have htxt : s.tok.txt = [c] := by rw [hp.txt, hlen]; rfl
              have i4 := I.first
              rw [hlen] at i4 ⊢
              simp only [List.drop_succ_cons, List.drop_zero] at i4 ⊢
              cases hr : (scanSteps T.toTables src fuel (pos + 1) cs).1 with
              | nil => rfl
              | cons s2 ss =>
                simp only [List.map_cons]
                apply expandShortMacro_none
                rw [htxt, i4 s2 ss hr]
                rcases hk with hk | hk
                · cases cs with
                  | nil => cases fuel <;> simp [scanSteps] at hr
                  | cons => simp at hk
                · simpa using hk
          · intro l
            simp only [outP]
            rw [marksOf_cons, tokMarks_nonaction _ hp.tok.notAction, tokChars_nofix _ hp.fix, hmarks,
              hp.txt, hp.pos, hms1]
          · intro l hl x hx
            simp only [outP, List.mem_cons] at hx
            rcases hx with rfl | hx
            · exact simple_of_plain hp.tok hshape
            · exact hsimple l hl x hx
          · simp only [cost, List.length_cons, List.length_drop] at hcost h2 ⊢
            omega
        · intro s' ss' he
          simp only [List.cons.injEq] at he
          rw [← he.1, hp.first]
          exact (firstTokTxtU_of_text T.toTables c cs hsnd).symm
        · intro t ts he hdr
          rw [List.map_cons, dropComToks_cons _ _ hp.tok.notComment] at he
          simp only [List.cons.injEq] at he
          rw [← he.1] at hdr
          refine ⟨c, cs, rfl, ?_⟩
          by_cases hsp : isSpace c = true
          · refine ⟨hsp, ?_⟩
            rw [hspace hsp] at hdr
            simp only [scanSpace] at hdr
            cases hlt : decide (countNl ((c :: cs).takeWhile isSpace) < 2) with
            | true => simpa using hlt
            | false =>
              have : ¬ countNl ((c :: cs).takeWhile isSpace) < 2 := by simpa using hlt
              simp [droppable, isSpaceTok, this] at hdr
          · have hk := (hone (by simpa using hsp)).2
            simp [droppable, isSpaceTok, hk] at hdr
      | spc _ _ tl R ms' _ _ hd hsub =>
        have S := spcFacts hd
        have hnt := nextToken_spc T src pos c tl R S
        simp only [List.length_cons, List.length_append] at hn hf
        obtain ⟨i1, I⟩ := ih fuel (pos + (tl.length + 1)) R ms' nms nf (by omega) (by omega) hsub
        obtain ⟨ps', hflat, hpok, hmarks, hsimple, hcost, hnames, hnf⟩ := I.pieces
        have hsteps : scanSteps T.toTables src (fuel + 1) pos (c :: (tl ++ R))
            = ({ tok := { kind := .special, pos := pos, txt := c :: tl }, len := tl.length + 1 } ::
                (scanSteps T.toTables src fuel (pos + (tl.length + 1)) R).1,
               (scanSteps T.toTables src fuel (pos + (tl.length + 1)) R).2) := by
          rw [scanSteps_step T.toTables src fuel pos c _ _ hnt (by simp)]
          simp
        rw [hsteps]
        refine ⟨i1, ?_, ?_, ?_, ?_⟩
        · intro x hx
          rcases List.mem_cons.mp hx with rfl | hx
          · exact ⟨rfl, rfl⟩
          · exact I.ok x hx
        · refine ⟨.spc { kind := .special, pos := pos, txt := c :: tl } :: ps',
            by simp [flat, Piece.toks, hflat], ⟨⟨rfl, S.key⟩, hpok⟩, ?_, ?_, ?_, by simp [names, hnames], by simp [nMath, hnf]⟩
          · intro l
            simp only [outP, expTok, beq_self_eq_true, if_true, List.cons_append, List.nil_append]
            rw [marksOf_cons, tokMarks_mkAction, marksOf_cons, tokMarks_nonaction _ rfl,
              tokChars_nofix _ rfl, hmarks]
            rfl
          · intro l hl x hx
            simp only [outP, expTok, beq_self_eq_true, if_true, List.cons_append, List.nil_append,
              List.mem_cons] at hx
            rcases hx with rfl | rfl | hx
            · exact simple_mkAction pos
            · exact simple_special_val _ _ _ S.val
            · exact hsimple l hl x hx
          · simp only [cost, List.length_cons, List.length_append]
            omega
        · intro s' ss' he
          simp only [List.cons.injEq] at he
          rw [← he.1]
          simp [firstTokTxtU, S.nsp, S.npc, S.ms]
        · intro t ts he hdr
          rw [List.map_cons, dropComToks_cons _ _ (by simp)] at he
          simp only [List.cons.injEq] at he
          rw [← he.1] at hdr
          simp [droppable, isSpaceTok] at hdr
      | cw _ name sp R ms' nms' _ hd hsub =>
        have C := cwUFacts hd
        have hname := List.length_pos_iff.mpr C.cw.ne
        have hn1 := nextToken_cw T st src pos name (sp ++ R) C.cw
        simp only [List.length_cons, List.length_append] at hf hn
        have hR : ∀ d ds, R = d :: ds → isSpace d = true → 2 ≤ countNl (R.takeWhile isSpace) :=
          fun d ds e h => (C.head d ds e h).2
        have hfirst : (cwTok pos name).txt = firstTokTxtU T.toTables ('\\' :: (name ++ (sp ++ R))) :=
          (firstTokTxtU_cw T.toTables name (sp ++ R) C.cw.tw C.cw.special C.cw.nVerb).symm
        cases sp with
        | nil =>
          simp only [List.length_nil, Nat.add_zero, List.nil_append] at hsub hf hn hn1 ⊢
          obtain ⟨i1, I⟩ := ih fuel (pos + (name.length + 1)) R ms' nms' nf (by omega) (by omega) hsub
          obtain ⟨ps', hflat, hpok, hmarks, hsimple, hcost, hnames, hnf⟩ := I.pieces
          have hsteps : scanSteps T.toTables src (fuel + 1) pos ('\\' :: (name ++ R))
              = ({ tok := cwTok pos name, len := name.length + 1 } ::
                  (scanSteps T.toTables src fuel (pos + (name.length + 1)) R).1,
                 (scanSteps T.toTables src fuel (pos + (name.length + 1)) R).2) := by
            rw [scanSteps_step T.toTables src fuel pos _ _ _ hn1 (by simp)]
            simp
          rw [hsteps]
          refine ⟨i1, ?_, ?_, ?_, ?_⟩
          · intro x hx
            rcases List.mem_cons.mp hx with rfl | hx
            · exact ⟨rfl, rfl⟩
            · exact I.ok x hx
          · refine ⟨.cw pos name [] :: ps', by simp [flat, Piece.toks, hflat],
              ⟨cwTokOk_cwTok C.cw pos, by simp, head_not_droppable I hflat hpok hR, hpok⟩, ?_, ?_, ?_,
              by simp [names, hnames], by simp [nMath, hnf]⟩
            · intro l
              simp only [outP]
              rw [marksOf_cons, tokMarks_mkAction, hmarks]
              rfl
            · intro l hl x hx
              simp only [outP, List.mem_cons] at hx
              rcases hx with rfl | hx
              · exact simple_mkAction pos
              · exact hsimple l hl x hx
            · simp only [cost, List.length_cons, List.length_append]
              omega
          · intro s' ss' he
            simp only [List.cons.injEq] at he
            rw [← he.1]
            simpa using hfirst
          · intro t ts he hdr
            rw [List.map_cons, dropComToks_cons _ _ (by simp [cwTok])] at he
            simp only [List.cons.injEq] at he
            rw [← he.1] at hdr
            simp [droppable, isSpaceTok, cwTok] at hdr
        | cons x xs =>
          simp only [List.length_cons] at hsub hf hn
          obtain ⟨g, rfl⟩ : ∃ g, fuel = g + 1 := ⟨fuel - 1, by omega⟩
          have hnsp : ∀ d ds, R = d :: ds → isSpace d = false := by
            intro d ds e
            cases hd' : isSpace d with
            | false => rfl
            | true => exact absurd (C.head d ds e hd').1 (by simp)
          have hn2 := nextToken_sp T.toTables src (pos + (name.length + 1)) x xs R C.white C.nls hnsp
          have hpos : pos + (name.length + 1) + (xs.length + 1) = pos + (name.length + 1 + (xs.length + 1)) := by
            omega
          obtain ⟨i1, I⟩ := ih g (pos + (name.length + 1 + (xs.length + 1))) R ms' nms' nf
            (by omega) (by omega) hsub
          obtain ⟨ps', hflat, hpok, hmarks, hsimple, hcost, hnames, hnf⟩ := I.pieces
          have hsteps : scanSteps T.toTables src (g + 1 + 1) pos ('\\' :: (name ++ (x :: xs ++ R)))
              = ({ tok := cwTok pos name, len := name.length + 1 } ::
                 { tok := { kind := .space, pos := pos + (name.length + 1), txt := x :: xs },
                   len := xs.length + 1 } ::
                  (scanSteps T.toTables src g (pos + (name.length + 1 + (xs.length + 1))) R).1,
                 (scanSteps T.toTables src g (pos + (name.length + 1 + (xs.length + 1))) R).2) := by
            rw [scanSteps_step T.toTables src (g + 1) pos _ _ _ hn1 (by simp)]
            have hd1 : ('\\' :: (name ++ (x :: xs ++ R))).drop (name.length + 1) = x :: (xs ++ R) := by
              simp
            simp only [hd1]
            rw [scanSteps_step T.toTables src g _ _ _ _ hn2 (by simp)]
            simp [hpos]
          rw [hsteps]
          refine ⟨i1, ?_, ?_, ?_, ?_⟩
          · intro y hy
            simp only [List.mem_cons] at hy
            rcases hy with rfl | rfl | hy
            · exact ⟨rfl, rfl⟩
            · exact ⟨rfl, rfl⟩
            · exact I.ok y hy
          · refine ⟨.cw pos name [{ kind := .space, pos := pos + (name.length + 1), txt := x :: xs }] :: ps',
              by simp [flat, Piece.toks, hflat],
              ⟨cwTokOk_cwTok C.cw pos, by simp [droppable, isSpaceTok, isLangK],
                head_not_droppable I hflat hpok hR, hpok⟩, ?_, ?_, ?_, by simp [names, hnames], by simp [nMath, hnf]⟩
            · intro l
              simp only [outP]
              rw [marksOf_cons, tokMarks_mkAction, hmarks]
              rfl
            · intro l hl y hy
              simp only [outP, List.mem_cons] at hy
              rcases hy with rfl | hy
              · exact simple_mkAction pos
              · exact hsimple l hl y hy
            · simp only [cost, List.length_cons, List.length_append]
              omega
          · intro s' ss' he
            simp only [List.cons.injEq] at he
            rw [← he.1]
            simpa using hfirst
          · intro t ts he hdr
            rw [List.map_cons, dropComToks_cons _ _ (by simp [cwTok])] at he
            simp only [List.cons.injEq] at he
            rw [← he.1] at hdr
            simp [droppable, isSpaceTok, cwTok] at hdr
      | van _ name key R ms' _ _ hd hsub =>
        have V := PlainVanish.vanFacts hd
        have hname := List.length_pos_iff.mpr V.cw.ne
        simp only [List.length_cons, List.length_append] at hf hn
        obtain ⟨g, hg⟩ : ∃ g, fuel = g + 1 := ⟨fuel - 1, by omega⟩
        have hn1 := nextToken_cw T _ src pos name _ V.cw
        have hn2 := nextToken_brace T src (pos + (name.length + 1)) '{' _ (Or.inl rfl) V.b1
        have hn3 := nextToken_brace T src (pos + (name.length + 1) + 1 + key.length) '}' R
          (Or.inr rfl) V.b2
        obtain ⟨bsteps, B, hrun⟩ := PlainVanish.scanSteps_key T src R key.length key
          (pos + (name.length + 1) + 1) g (Nat.le_refl _) (by omega) V.key
        have hBl := B.len
        obtain ⟨g', hg'⟩ : ∃ g', g - bsteps.length = g' + 1 := ⟨g - bsteps.length - 1, by omega⟩
        have hpos : pos + (name.length + 1) + 1 + key.length + 1 = pos + PlainVanish.vanLen name key := by
          simp only [PlainVanish.vanLen]; omega
        obtain ⟨i1, I⟩ := ih g' (pos + PlainVanish.vanLen name key) R ms' nms nf (by omega) (by omega) hsub
        obtain ⟨ps', hflat, hpok, hmarks, hsimple, hcost, hnames, hnf⟩ := I.pieces
        have hd1 : ('\\' :: (name ++ '{' :: (key ++ '}' :: R))).drop (name.length + 1)
            = '{' :: (key ++ '}' :: R) := by simp
        have hsteps : scanSteps T.toTables src (fuel + 1) pos
              ('\\' :: (name ++ '{' :: (key ++ '}' :: R)))
            = ({ tok := cwTok pos name, len := name.length + 1 } ::
               { tok := { kind := .special, pos := pos + (name.length + 1), txt := ['{'] }, len := 1 } ::
               (bsteps ++
                 { tok := { kind := .special, pos := pos + (name.length + 1) + 1 + key.length,
                            txt := ['}'] }, len := 1 } ::
                 (scanSteps T.toTables src g' (pos + PlainVanish.vanLen name key) R).1),
               (scanSteps T.toTables src g' (pos + PlainVanish.vanLen name key) R).2) := by
          rw [hg, scanSteps_step T.toTables src (g + 1) pos _ _ _ hn1 (by simp), hd1]
          simp only []
          rw [scanSteps_step T.toTables src g _ _ _ _ hn2 (by simp)]
          simp only [List.drop_succ_cons, List.drop_zero]
          rw [hrun, hg', scanSteps_step T.toTables src g' _ _ _ _ hn3 (by simp)]
          simp only [List.drop_succ_cons, List.drop_zero, hpos]
        rw [hsteps]
        obtain ⟨hvoid, hvlen⟩ := V.vn.repl
        refine ⟨i1, ?_, ?_, ?_, ?_⟩
        · intro x hx
          simp only [List.mem_cons, List.mem_append] at hx
          rcases hx with rfl | rfl | hx | rfl | hx
          · exact ⟨rfl, rfl⟩
          · exact ⟨rfl, rfl⟩
          · exact ⟨(B.ok x hx).1, (B.ok x hx).2.1⟩
          · exact ⟨rfl, rfl⟩
          · exact I.ok x hx
        · refine ⟨.van pos (pos + (name.length + 1)) (pos + (name.length + 1) + 1 + key.length) name
              (bsteps.map (·.tok)) (PlainVanish.replOf st name) :: ps', ?_, ⟨V.vn, rfl, ?_, hpok⟩, ?_, ?_, ?_,
              by simp [names, hnames], by simp [nMath, hnf]⟩
          · simp [flat, Piece.toks, hflat, lbr, rbr]
          · intro t ht
            obtain ⟨x, hx, rfl⟩ := List.mem_map.mp ht
            exact (B.ok x hx).2.2
          · intro l
            simp only [outP]
            rw [marksOf_cons, tokMarks_mkAction, marksOf_append, PlainVanish.marksOf_voids _ _ hvoid, hmarks]
            rfl
          · intro l hl x hx
            simp only [outP, List.mem_cons, List.mem_append] at hx
            rcases hx with rfl | hx | hx
            · exact simple_mkAction pos
            · obtain ⟨u, hu, rfl⟩ := List.mem_map.mp hx
              exact PlainVanish.simple_void pos u (hvoid u hu)
            · exact hsimple l hl x hx
          · simp only [cost, List.length_cons, List.length_append]
            omega
        · intro s' ss' he
          simp only [List.cons.injEq] at he
          rw [← he.1]
          exact (firstTokTxtU_cw T.toTables name _ V.cw.tw V.cw.special V.cw.nVerb).symm
        · intro t ts he hdr
          rw [List.map_cons, dropComToks_cons _ _ (by simp [cwTok])] at he
          simp only [List.cons.injEq] at he
          rw [← he.1] at hdr
          simp [droppable, isSpaceTok, cwTok] at hdr
      | com _ body R _ _ _ hd hsub =>
        have C := comFacts hd
        have hnt := nextToken_com T st src pos body R C
        simp only [List.length_cons, List.length_append] at hn hf
        obtain ⟨i1, I⟩ := ih fuel (pos + (body.length + 1)) R ms nms nf (by omega) (by omega) hsub
        obtain ⟨ps', hflat, hpok, hmarks, hsimple, hcost, hnames, hnf⟩ := I.pieces
        have hsteps : scanSteps T.toTables src (fuel + 1) pos ('%' :: (body ++ R))
            = ({ tok := { kind := .comment, pos := pos, txt := '%' :: body }, len := body.length + 1 } ::
                (scanSteps T.toTables src fuel (pos + (body.length + 1)) R).1,
               (scanSteps T.toTables src fuel (pos + (body.length + 1)) R).2) := by
          rw [scanSteps_step T.toTables src fuel pos _ _ _ hnt (by simp)]
          simp
        rw [hsteps]
        refine ⟨i1, ?_, ?_, ?_, ?_⟩
        · intro x hx
          rcases List.mem_cons.mp hx with rfl | hx
          · exact ⟨rfl, rfl⟩
          · exact I.ok x hx
        · refine ⟨.com { kind := .comment, pos := pos, txt := '%' :: body } :: ps',
            by simp [flat, Piece.toks, hflat], ⟨⟨rfl, ⟨body, rfl⟩, C.nskip, C.nact⟩, hpok⟩, ?_, ?_, ?_,
            by simp [names, hnames], by simp [nMath, hnf]⟩
          · intro l
            simpa only [outP] using hmarks l
          · intro l hl
            simpa only [outP] using hsimple l hl
          · simp only [cost, List.length_cons, List.length_append]
            omega
        · intro s' ss' he
          simp only [List.cons.injEq] at he
          rw [← he.1]
          simp [firstTokTxtU, C.len, show isSpace '%' = false by decide]
        · intro t ts he hdr
          rw [List.map_cons, dropComToks_com _ _ rfl] at he
          obtain ⟨d, ds, hRd, h1, h2⟩ := I.firstK t ts he hdr
          have := commentLen_rest body R C.len d ds hRd h1
          omega
      | verb _ d s R ms' _ _ hd hsub =>
        have V := verbFacts hd
        have hnt := nextToken_verbU T src pos d s R V
        simp only [List.length_cons, List.length_append] at hn hf
        obtain ⟨i1, I⟩ := ih fuel (pos + (s.length + 7)) R ms' nms nf (by omega) (by omega) hsub
        obtain ⟨ps', hflat, hpok, hmarks, hsimple, hcost, hnames, hnf⟩ := I.pieces
        have hsteps : scanSteps T.toTables src (fuel + 1) pos
              ('\\' :: 'v' :: 'e' :: 'r' :: 'b' :: d :: (s ++ d :: R))
            = ({ tok := { kind := .verb false, pos := pos + 6, txt := s }, len := s.length + 7 } ::
                (scanSteps T.toTables src fuel (pos + (s.length + 7)) R).1,
               (scanSteps T.toTables src fuel (pos + (s.length + 7)) R).2) := by
          rw [scanSteps_step T.toTables src fuel pos _ _ _ hnt (by simp)]
          have := drop_verb d s R
          simp only [] 
          rw [show ('\\' :: 'v' :: 'e' :: 'r' :: 'b' :: d :: (s ++ d :: R)) = sVerb ++ d :: (s ++ d :: R) from rfl,
            this]
        rw [hsteps]
        refine ⟨i1, ?_, ?_, ?_, ?_⟩
        · intro x hx
          rcases List.mem_cons.mp hx with rfl | hx
          · exact ⟨rfl, rfl⟩
          · exact I.ok x hx
        · refine ⟨.verb { kind := .verb false, pos := pos + 6, txt := s } :: ps',
            by simp [flat, Piece.toks, hflat], ⟨rfl, hpok⟩, ?_, ?_, ?_, by simp [names, hnames], by simp [nMath, hnf]⟩
          · intro l
            simp only [outP, expTokV, beq_self_eq_true, if_true, List.cons_append, List.nil_append]
            rw [marksOf_cons, tokMarks_mkAction, marksOf_cons, tokMarks_nonaction _ rfl,
              tokChars_nofix _ rfl, hmarks]
            rfl
          · intro l hl x hx
            simp only [outP, expTokV, beq_self_eq_true, if_true, List.cons_append, List.nil_append,
              List.mem_cons] at hx
            rcases hx with rfl | rfl | hx
            · exact simple_mkAction _
            · exact simple_special_val _ _ _ (fun h => by rw [V.noNl] at h; cases h)
            · exact hsimple l hl x hx
          · simp only [cost, List.length_cons, List.length_append]
            omega
        · intro s' ss' he
          simp only [List.cons.injEq] at he
          rw [← he.1]
          exact (firstTokTxtU_verb T d s R V).symm
        · intro t ts he hdr
          rw [List.map_cons, dropComToks_cons _ _ (by simp)] at he
          simp only [List.cons.injEq] at he
          rw [← he.1] at hdr
          simp [droppable, isSpaceTok] at hdr

      | math _ body R ms' _ nf' hm hsub =>
        simp only [PlainMath.mathOk, Bool.and_eq_true] at hm
        obtain ⟨⟨⟨hbne, hd1⟩, hbody⟩, hd2⟩ := hm
        obtain ⟨k1, hk1, hn1⟩ := PlainMath.nextToken_dollar T src pos (body ++ '$' :: R) hd1
        obtain ⟨k2, hk2, hn2⟩ := PlainMath.nextToken_dollar T src (pos + 1 + body.length) R hd2
        simp only [List.length_cons, List.length_append] at hf hn
        obtain ⟨bsteps, B, hrun⟩ := PlainMath.scanSteps_bodyrun T src R body.length body (pos + 1) fuel
          (Nat.le_refl _) (by omega) hbody
        have hBl := B.len
        obtain ⟨g, hg⟩ : ∃ g, fuel - bsteps.length = g + 1 := ⟨fuel - bsteps.length - 1, by omega⟩
        obtain ⟨i1, I⟩ := ih g (pos + (body.length + 2)) R ms' nms nf' (by omega) (by omega) hsub
        obtain ⟨ps', hflat, hpok, hmarks, hsimple, hcost, hnames, hnf⟩ := I.pieces
        have hpos2 : pos + 1 + body.length + 1 = pos + (body.length + 2) := by omega
        have hsteps : scanSteps T.toTables src (fuel + 1) pos ('$' :: (body ++ '$' :: R))
            = ({ tok := { kind := k1, pos := pos, txt := ['$'] }, len := 1 } ::
                (bsteps ++
                  { tok := { kind := k2, pos := pos + 1 + body.length, txt := ['$'] }, len := 1 } ::
                  (scanSteps T.toTables src g (pos + (body.length + 2)) R).1),
               (scanSteps T.toTables src g (pos + (body.length + 2)) R).2) := by
          simp only [scanSteps, hn1]
          rw [if_neg (by simp)]
          simp only [List.drop_succ_cons, List.drop_zero]
          rw [hrun, hg]
          simp only [scanSteps, hn2]
          rw [if_neg (by simp)]
          simp only [List.drop_succ_cons, List.drop_zero, hpos2]
        rw [hsteps]
        refine ⟨i1, ?_, ?_, ?_, ?_⟩
        · intro x hx
          simp only [List.mem_cons, List.mem_append] at hx
          rcases hx with rfl | hx | rfl | hx
          · exact ⟨rfl, rfl⟩
          · exact ⟨(B.ok x hx).1, (B.ok x hx).2.1⟩
          · exact ⟨rfl, rfl⟩
          · exact I.ok x hx
        · refine ⟨.math { kind := k1, pos := pos, txt := ['$'] } (bsteps.map (·.tok))
              { kind := k2, pos := pos + 1 + body.length, txt := ['$'] } :: ps', ?_, ?_, ?_, ?_, ?_,
              by simp [names, hnames], by simp [nMath, hnf]⟩
          · simp [flat, Piece.toks, hflat]
          · refine ⟨⟨hk1, rfl⟩, B.ne hbne, ?_, ⟨hk2, rfl⟩, hpok⟩
            intro t ht
            obtain ⟨x, hx, rfl⟩ := List.mem_map.mp ht
            exact (B.ok x hx).2.2
          · intro l
            simp only [outP]
            rw [marksOf_formulaOut, hmarks (rotL l), B.txt, B.first hbne]
            simp [mathMarks, PlainMath.punctOf, PlainMath.leadBlanks]
          · intro l hl x hx
            simp only [outP, List.mem_append] at hx
            rcases hx with hx | hx
            · refine simple_formulaOut T _ _ _ _ ?_ x hx
              cases hr : rotL l with
              | nil => intro h; simp [hasNl] at h
              | cons a t =>
                exact hl a (PlainMath.mem_rotL l a (by rw [hr]; exact List.mem_cons_self ..))
            · exact hsimple (rotL l) (fun r hr => hl r (PlainMath.mem_rotL l r hr)) x hx
          · simp only [cost, List.length_cons, List.length_append, List.length_map]
            omega
        · intro s' ss' he
          simp only [List.cons.injEq] at he
          rw [← he.1]
          exact (firstTokTxtU_dollar T _ hd1).symm
        · intro t ts he hdr
          rw [List.map_cons, dropComToks_cons _ _ (by rcases hk1 with rfl | rfl <;> simp)] at he
          simp only [List.cons.injEq] at he
          rw [← he.1] at hdr
          rcases hk1 with rfl | rfl <;> simp [droppable, isSpaceTok] at hdr

end PlainMix
end Yalafi
