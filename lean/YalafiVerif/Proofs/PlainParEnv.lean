/-
  Proofs/PlainParEnv.lean (with Proofs/PlainParEnvBase.lean) — C05 "two words separated by `\par` or a
  paragraph-forming environment are separated by a blank line in the output", end to end on the
  model, for documents that consist of inert text (as in Proofs/PlainUnknown.lean), `\par` and
  PARAGRAPH-FORMING ENVIRONMENTS `\begin{name}{arg}` … `\end{name}`: environments declared with
  `add_pars`, ONE MANDATORY ARGUMENT, no replacement, no handlers — in the tables of /repo:
  `minipage` (`\begin{minipage}{5cm}`) and `thebibliography` (`\begin{thebibliography}{99}`) — in any
  order and nesting (the body is whatever segments stand in between).

  What the model does (found with `#eval`, then proved)
    `\par`            a declared macro without arguments whose replacement is ONE PARAGRAPH TOKEN
        `\n\n`: `expand_macro` skips the white space behind the name (`skip_space`: space tokens —
        at most one line break —, not paragraph tokens) and returns an Action token and the
        paragraph token, re-stamped at the position of the backslash; the loop copies both.
    `\begin{name}{arg}`   `begin_environment` reads the name, finds the environment, emits the
        paragraph token `\n\n` of `add_pars`, pinned at `\begin`, collects `{arg}` and throws it
        away (no replacement): `expand_arguments` adds an Action token.  Nothing behind the closing
        brace of the argument is skipped.
    `\end{name}`      the paragraph token `\n\n` pinned at `\end`.
    At the end `remove_pure_action_lines` deletes every line that is blank and holds an Action
    token (`delLines` of Proofs/PlainMacro.lean).
    NOT paragraph-forming for the filter, although they are for LaTeX: `quote`, `center`, `abstract`,
    `flushleft`, … — they are not declared in the tables; `\begin{quote}` is an unknown environment
    (name in the unknowns list), it leaves one Action token and no line break (see
    `C05_par_quote_eval` in Properties/PlainParEnvStmt.lean).

  The end-to-end statement `tex2txt_parenv`.  `tex2txt` succeeds; text and (1-based) positions are
  `delLines (marks 0 segs)`:
    text                 every character with its own position
    `\par ws`            a text-less mark and `\n\n` at the position of the backslash; `ws` (the white
                         space behind the name, at most one line break) is dropped
    `\begin{name}{arg}`  `\n\n` at the position of `\begin` and a text-less mark
    `\end{name}`         `\n\n` at the position of `\end`
  and then every line deleted, with its line break, that is blank and holds a mark;
  `unknowns = []`, no diagnostic.

  Paragraph level (`para_break`, with Proofs/PlainPara.lean): for two visible text characters `a`,
  `b` with `\par`, `\begin{…}{…}` or `\end{…}` anywhere between them the output between `a` and `b`
  holds a blank line; every generated line break carries the position of the backslash of its
  construct (`marks`).

  Side conditions (all in `SegsOk T st1 segs`, decidable; `st1` = state after `Parser.__init__`)
    `stateOk T st1`   the empty string is no "active character"; `\par` is declared with `parDeclOk`
                      (no arguments, no handler, replacement = one paragraph token `\n\n`); real
                      tables: yes
    text segments     `textOk` of Proofs/PlainUnknown.lean
    `parOkS ws R`     `\par` is one macro token (no letter follows); `ws` is the white space that
                      `skip_space` eats: white space with at most one line break, the WHOLE run, and
                      what follows does not start with skippable white space (a paragraph break
                      behind `\par` is fine: `ws = []`)
    `begOk`           no special sequence matches at the backslash, `{name}` does not open
                      `{verbatim}`; name and argument: `{` `}` scanned as braces, the text not empty
                      and inert in front of `}` (`PlainFootnote.textOk`); the name is declared with
                      `parEnvOk`
    `endOk`           the same for the name
    options           no --defs, --extr, --repl, --unkn; single-language mode
    fuel              `(render segs).length + 2 ≤ fuel`
  NOT covered: arguments with macros or braces; white space between `\begin{name}` and `{arg}`;
  environments with other signatures (`figure`, `table`: optional argument, no `add_pars`);
  `verbatim`; `proof` / theorem environments (Proofs/PlainThm.lean); `\par` followed by a letter
  (another macro); comments; multi-language mode.
-/
import YalafiVerif.Proofs.PlainParEnvBase
import YalafiVerif.Proofs.PlainThm
import YalafiVerif.Proofs.PlainPara
namespace Yalafi
namespace PlainParEnv

open M
open PlainMacro
open PlainFootnote (CopyTok TextRun)
open PlainRef (fixMarks tokMarks_mkFix)
open PlainItem (begTok endTok nBegin nEnd nextToken_begin nextToken_end nextToken_ws)
open PlainThm (NameToks SpToks txtOf parTok headSp bracedTextOk BracedText bracedText
  scanSteps_bracedText wsSteps wsSteps_len wsSteps_ok nameToks_of_run firstTok_cw tokMarks_parTok
  simple_parTok cwTok_notSpace)

/-! ### the documents -/

/-- a segment of the source: a run of text; `\par` and the white space behind it;
    `\begin{name}{arg}`; `\end{name}` -/
inductive Seg where
  | txt (s : Str)
  | par (ws : Str)
  | beg (name arg : Str)
  | en (name : Str)
deriving Repr, DecidableEq

def Seg.render : Seg → Str
  | .txt s => s
  | .par ws => '\\' :: (parName ++ ws)
  | .beg name arg => '\\' :: (nBegin ++ '{' :: (name ++ '}' :: '{' :: (arg ++ ['}'])))
  | .en name => '\\' :: (nEnd ++ '{' :: (name ++ ['}']))

/-- the source text -/
def render : List Seg → Str
  | [] => []
  | s :: rest => s.render ++ render rest

/-- the number of source characters of a segment -/
def Seg.len : Seg → Nat
  | .txt s => s.length
  | .par ws => ws.length + 4
  | .beg name arg => name.length + arg.length + 10
  | .en name => name.length + 6

/-- **the reference on the level of marks**: the document, which starts at position `p` — a text
    character with its position; for `\par` a text-less mark and a paragraph break at the position
    of the backslash (the white space behind the name is skipped); for `\begin{name}{arg}` a
    paragraph break at the position of `\begin` and a text-less mark; for `\end{name}` a paragraph
    break at the position of `\end` -/
def marks : Nat → List Seg → List Mark
  | _, [] => []
  | p, .txt s :: rest => (posText p s).map some ++ marks (p + s.length) rest
  | p, .par ws :: rest => none :: (fixMarks p [nl, nl] ++ marks (p + (ws.length + 4)) rest)
  | p, .beg name arg :: rest =>
    fixMarks p [nl, nl] ++ none :: marks (p + (name.length + arg.length + 10)) rest
  | p, .en name :: rest => fixMarks p [nl, nl] ++ marks (p + (name.length + 6)) rest

/-! ### the side conditions -/

/-- the conditions on the initialised parser state -/
def stateOk (T : PTables) (st : PState) : Bool := noEmptyActive T st && parOk st

/-- `\par ws`, followed by `R`: one macro token; `ws` is the white space `skip_space` eats — at
    most one line break, the whole run —, and `R` does not start with skippable white space -/
def parOkS (T : PTables) (ws R : Str) : Bool :=
  PlainRef.nameOk T parName (ws ++ R) &&
  ws.all isSpace && decide (countNl ws < 2) && (ws.isEmpty || R.head?.all (fun d => !isSpace d)) &&
  !headSp R

/-- `\begin{name}{arg}`, followed by `R` -/
def begOk (T : PTables) (st : PState) (name arg R : Str) : Bool :=
  (matchSpecial T.toTables ('\\' :: (nBegin ++ '{' :: (name ++ '}' :: '{' :: (arg ++ '}' :: R))))).isNone &&
  !startsWith ('{' :: (name ++ '}' :: '{' :: (arg ++ '}' :: R))) sVerbatimArg &&
  bracedTextOk T st name ('{' :: (arg ++ '}' :: R)) && parEnvAt st name &&
  bracedTextOk T st arg R

/-- `\end{name}`, followed by `R` -/
def endOk (T : PTables) (st : PState) (name R : Str) : Bool :=
  (matchSpecial T.toTables ('\\' :: (nEnd ++ '{' :: (name ++ '}' :: R)))).isNone &&
  bracedTextOk T st name R && parEnvAt st name

/-- well-formed documents: every segment is fine in front of the rendering of the following ones
    (`textOk` of Proofs/PlainUnknown.lean for the text) -/
def segsOk (T : PTables) (st : PState) : List Seg → Bool
  | [] => true
  | .txt s :: rest => textOk T st s (render rest) && segsOk T st rest
  | .par ws :: rest => parOkS T ws (render rest) && segsOk T st rest
  | .beg name arg :: rest => begOk T st name arg (render rest) && segsOk T st rest
  | .en name :: rest => endOk T st name (render rest) && segsOk T st rest

/-- all side conditions on the tables, the initialised parser state and the document -/
def SegsOk (T : PTables) (st : PState) (segs : List Seg) : Prop :=
  stateOk T st = true ∧ segsOk T st segs = true

instance (T : PTables) (st : PState) (segs : List Seg) : Decidable (SegsOk T st segs) := by
  unfold SegsOk; infer_instance

/-! ### the conditions as propositions -/

structure ParFacts (T : PTables) (ws R : Str) : Prop where
  cw : CwFacts T ({ macros := [] } : PState) parName (ws ++ R)
  blank : ws.all isSpace = true
  nls : countNl ws < 2
  whole : ws = [] ∨ R.head?.all (fun d => !isSpace d) = true
  head : headSp R = false

theorem parFacts {T : PTables} {ws R : Str} (h : parOkS T ws R = true) : ParFacts T ws R := by
  simp only [parOkS, PlainRef.nameOk, Bool.and_eq_true, decide_eq_true_eq, Bool.or_eq_true,
    List.isEmpty_iff, Bool.not_eq_true'] at h
  exact ⟨cwFacts h.1.1.1.1, h.1.1.1.2, h.1.1.2, h.1.2, h.2⟩

structure BegFacts (T : PTables) (st : PState) (name arg R : Str) : Prop where
  special : matchSpecial T.toTables
    ('\\' :: (nBegin ++ '{' :: (name ++ '}' :: '{' :: (arg ++ '}' :: R)))) = none
  noverb : startsWith ('{' :: (name ++ '}' :: '{' :: (arg ++ '}' :: R))) sVerbatimArg = false
  nm : BracedText T st name ('{' :: (arg ++ '}' :: R))
  env : ParEnvAt st name
  ag : BracedText T st arg R

theorem begFacts {T : PTables} {st : PState} {name arg R : Str} (h : begOk T st name arg R = true) :
    BegFacts T st name arg R := by
  simp only [begOk, Bool.and_eq_true, Bool.not_eq_true', Option.isNone_iff_eq_none] at h
  exact ⟨h.1.1.1.1, h.1.1.1.2, bracedText h.1.1.2, ParEnvAt_of h.1.2, bracedText h.2⟩

structure EndFacts (T : PTables) (st : PState) (name R : Str) : Prop where
  special : matchSpecial T.toTables ('\\' :: (nEnd ++ '{' :: (name ++ '}' :: R))) = none
  nm : BracedText T st name R
  env : ParEnvAt st name

theorem endFacts {T : PTables} {st : PState} {name R : Str} (h : endOk T st name R = true) :
    EndFacts T st name R := by
  simp only [endOk, Bool.and_eq_true, Option.isNone_iff_eq_none] at h
  exact ⟨h.1.1, bracedText h.1.2, ParEnvAt_of h.2⟩

/-- the source text, which starts at position `p`, with its marks -/
inductive OkSrc (T : PTables) (st : PState) : Nat → Str → List Mark → Prop
  | nil (p : Nat) : OkSrc T st p [] []
  | chr (p : Nat) (c : Char) (cs : Str) (ms : List Mark) :
      okAt T st c cs = true → OkSrc T st (p + 1) cs ms →
      OkSrc T st p (c :: cs) (some (c, p) :: ms)
  | par (p : Nat) (ws R : Str) (ms : List Mark) :
      parOkS T ws R = true → OkSrc T st (p + (ws.length + 4)) R ms →
      OkSrc T st p ('\\' :: (parName ++ (ws ++ R))) (none :: (fixMarks p [nl, nl] ++ ms))
  | beg (p : Nat) (name arg R : Str) (ms : List Mark) :
      begOk T st name arg R = true → OkSrc T st (p + (name.length + arg.length + 10)) R ms →
      OkSrc T st p ('\\' :: (nBegin ++ '{' :: (name ++ '}' :: '{' :: (arg ++ '}' :: R))))
        (fixMarks p [nl, nl] ++ none :: ms)
  | en (p : Nat) (name R : Str) (ms : List Mark) :
      endOk T st name R = true → OkSrc T st (p + (name.length + 6)) R ms →
      OkSrc T st p ('\\' :: (nEnd ++ '{' :: (name ++ '}' :: R))) (fixMarks p [nl, nl] ++ ms)

theorem OkSrc_text (T : PTables) (st : PState) (R : Str) (ms : List Mark) :
    ∀ (s : Str) (p : Nat), OkSrc T st (p + s.length) R ms → textOk T st s R = true →
      OkSrc T st p (s ++ R) ((posText p s).map some ++ ms)
  | [], _, hR, _ => hR
  | c :: cs, p, hR, h => by
    simp only [textOk, Bool.and_eq_true] at h
    have hR' : OkSrc T st (p + 1 + cs.length) R ms := by
      have e : p + 1 + cs.length = p + (c :: cs).length := by simp; omega
      rw [e]; exact hR
    exact OkSrc.chr p c (cs ++ R) _ h.1 (OkSrc_text T st R ms cs (p + 1) hR' h.2)

theorem OkSrc_of_segsOk (T : PTables) (st : PState) :
    ∀ (segs : List Seg) (p : Nat), segsOk T st segs = true → OkSrc T st p (render segs) (marks p segs)
  | [], p, _ => .nil p
  | .txt s :: rest, p, h => by
    simp only [segsOk, Bool.and_eq_true] at h
    exact OkSrc_text T st _ _ s p (OkSrc_of_segsOk T st rest _ h.2) h.1
  | .par ws :: rest, p, h => by
    simp only [segsOk, Bool.and_eq_true] at h
    have := OkSrc.par p ws (render rest) _ h.1 (OkSrc_of_segsOk T st rest _ h.2)
    simpa [render, Seg.render, marks] using this
  | .beg name arg :: rest, p, h => by
    simp only [segsOk, Bool.and_eq_true] at h
    have := OkSrc.beg p name arg (render rest) _ h.1 (OkSrc_of_segsOk T st rest _ h.2)
    simpa [render, Seg.render, marks] using this
  | .en name :: rest, p, h => by
    simp only [segsOk, Bool.and_eq_true] at h
    have := OkSrc.en p name (render rest) _ h.1 (OkSrc_of_segsOk T st rest _ h.2)
    simpa [render, Seg.render, marks] using this

/-- white space in front can be dropped -/
theorem OkSrc_drop_space (T : PTables) (st : PState) :
    ∀ (k : Nat) (p : Nat) (s : Str) (ms : List Mark), k ≤ s.length → OkSrc T st p s ms →
      (∀ x ∈ s.take k, isSpace x = true) →
      ∃ ms', ms = (posText p (s.take k)).map some ++ ms' ∧ OkSrc T st (p + k) (s.drop k) ms'
  | 0, _, _, ms, _, h, _ => ⟨ms, rfl, h⟩
  | k + 1, _, [], _, hk, _, _ => by simp at hk
  | k + 1, p, c :: cs, _, hk, h, hsp => by
    have hc : isSpace c = true := hsp c (by simp)
    cases h with
    | chr _ _ _ ms0 _ h2 =>
      obtain ⟨ms', e, h3⟩ := OkSrc_drop_space T st k (p + 1) cs ms0 (by simpa using hk) h2
        (fun x hx => hsp x (by simp [hx]))
      refine ⟨ms', by simp [posText, e], ?_⟩
      have e : p + (k + 1) = p + 1 + k := by omega
      rw [e]; exact h3
    | par _ ws R _ _ _ => exact absurd hc (by decide)
    | beg _ name arg R _ _ _ => exact absurd hc (by decide)
    | en _ name R _ _ _ => exact absurd hc (by decide)

/-- the conditions depend on the state only through the language stack and the environments -/
theorem OkSrc.congr {T : PTables} {st st' : PState} (hl : st'.langStack = st.langStack)
    (he : st'.envs = st.envs)
    {p : Nat} {s : Str} {ms : List Mark} (h : OkSrc T st p s ms) : OkSrc T st' p s ms := by
  have hb : ∀ s X, bracedTextOk T st' s X = bracedTextOk T st s X := by
    intro s X
    simp only [bracedTextOk, PlainFootnote.textOk_congr T st st' hl]
  have hp : ∀ n, parEnvAt st' n = parEnvAt st n := by
    intro n
    simp only [parEnvAt, lookupEnv, he]
  induction h with
  | nil p => exact .nil p
  | chr p c cs ms hat _ ih =>
    refine .chr p c cs ms ?_ ih
    rw [← hat]
    simp only [okAt, activeChars_congr T st st' hl, shortKeys_congr T st st' hl]
  | par p ws R ms hd _ ih => exact .par p ws R ms hd ih
  | beg p name arg R ms hd _ ih =>
    refine .beg p name arg R ms ?_ ih
    rw [← hd]
    simp only [begOk, hb, hp]
  | en p name R ms hd _ ih =>
    refine .en p name R ms ?_ ih
    rw [← hd]
    simp only [endOk, hb, hp]

/-! ### the scanner -/

theorem scanSteps_wsP (T : PTables) (src : Str) (pos fuel : Nat) (ws R : Str)
    (hblank : ws.all isSpace = true) (hnls : countNl ws < 2)
    (hwhole : ws = [] ∨ R.head?.all (fun d => !isSpace d) = true) (hf : ws.length ≤ fuel) :
    scanSteps T.toTables src fuel pos (ws ++ R)
      = (wsSteps pos ws ++
          (scanSteps T.toTables src (fuel - (wsSteps pos ws).length) (pos + ws.length) R).1,
         (scanSteps T.toTables src (fuel - (wsSteps pos ws).length) (pos + ws.length) R).2) := by
  cases ws with
  | nil => simp [wsSteps]
  | cons c w =>
    obtain ⟨g, rfl⟩ : ∃ g, fuel = g + 1 := ⟨fuel - 1, by simp at hf; omega⟩
    have hb := hblank
    simp only [List.all_cons, Bool.and_eq_true] at hb
    have hR : R.head?.all (fun d => !isSpace d) = true := by
      rcases hwhole with h | h
      · cases h
      · exact h
    have hn := nextToken_ws T src pos c w R hb.1 hb.2 hnls hR
    rw [show (c :: w) ++ R = c :: (w ++ R) from rfl,
      scanSteps_step T.toTables src g pos c _ _ hn (by simp)]
    have hd : (c :: (w ++ R)).drop (w.length + 1) = R := by simp
    simp only [hd, wsSteps, List.isEmpty_cons, Bool.false_eq_true, if_false, List.length_cons,
      List.length_nil, List.cons_append, List.nil_append]
    simp

/-- what the scanner loop yields on a well-formed source, and what the token buffer means -/
structure ScanFacts (T : PTables) (st : PState) (rest : Str) (ms : List Mark)
    (steps : List ScanStep) : Prop where
  ok : ∀ s ∈ steps, s.diag = none ∧ s.extra = []
  pieces : ∃ ps, steps.map (·.tok) = flat ps ∧ PiecesOk T st ps ∧ marksOf (outP ps) = ms ∧
    (∀ t ∈ outP ps, Simple t) ∧ cost ps ≤ rest.length
  first : ∀ s ss, steps = s :: ss → s.tok.txt = firstTokTxtM rest
  firstSp : ∀ s ss, steps = s :: ss → isSpaceTok s.tok = true → headSp rest = true

theorem ScanFacts_nil (T : PTables) (st : PState) : ScanFacts T st [] [] [] :=
  ⟨by simp, ⟨[], rfl, trivial, rfl, by simp [outP], by simp [cost]⟩, by simp, by simp⟩

/-- the head of the token buffer of a source that does not start with skippable white space -/
theorem headVis_steps (steps : List ScanStep) (R : Str) (hR : headSp R = false)
    (hsp : ∀ s ss, steps = s :: ss → isSpaceTok s.tok = true → headSp R = true) :
    HeadVis (steps.map (·.tok)) := by
  intro t ht
  cases steps with
  | nil => simp at ht
  | cons s ss =>
    simp only [List.map_cons, List.head?_cons, Option.some.injEq] at ht
    subst ht
    have hns : isSpaceTok s.tok = false := by
      cases hx : isSpaceTok s.tok with
      | false => rfl
      | true => rw [hsp s ss rfl hx] at hR; cases hR
    cases hk : s.tok.kind <;> simp_all [isSpaceTok, isLangK]

theorem parName_len : parName.length = 3 := rfl

/-- the scanner loop on a well-formed source -/
theorem scanSteps_parenv (T : PTables) (st : PState) (src : Str) :
    ∀ (n fuel pos : Nat) (rest : Str) (ms : List Mark),
    rest.length ≤ n → rest.length ≤ fuel → OkSrc T st pos rest ms →
    (scanSteps T.toTables src fuel pos rest).2 = true ∧
    ScanFacts T st rest ms (scanSteps T.toTables src fuel pos rest).1 := by
  intro n
  induction n with
  | zero =>
    intro fuel pos rest ms hn _ hok
    cases rest with
    | nil => cases hok; exact ⟨by simp [scanSteps], by simpa [scanSteps] using ScanFacts_nil T st⟩
    | cons c cs => simp at hn
  | succ n ih =>
    intro fuel pos rest ms hn hf hok
    cases rest with
    | nil => cases hok; exact ⟨by simp [scanSteps], by simpa [scanSteps] using ScanFacts_nil T st⟩
    | cons c cs =>
      obtain ⟨fuel, rfl⟩ : ∃ f, fuel = f + 1 := ⟨fuel - 1, by simp at hf; omega⟩
      have hok0 := hok
      cases hok with
      | chr _ _ _ ms' hat hsub0 =>
        have hsnd := okAt_snd hat
        obtain ⟨hp, hone⟩ := nextToken_text T src pos c cs hsnd
        generalize hs : nextToken T.toTables src pos (c :: cs) = s at hp hone
        have h1 := hp.len_pos
        have h2 := hp.len_le
        have hsub : ∃ ms1, some (c, pos) :: ms' = (posText pos ((c :: cs).take s.len)).map some ++ ms1 ∧
            OkSrc T st (pos + s.len) ((c :: cs).drop s.len) ms1 := by
          by_cases hsp : isSpace c = true
          · refine OkSrc_drop_space T st s.len pos (c :: cs) _ h2 hok0 ?_
            intro x hx
            rw [← hp.txt, hp.first] at hx
            simp only [firstTokTxt, hsp, if_true] at hx
            exact mem_takeWhile_imp _ _ _ hx
          · have := (hone (by simpa using hsp)).1
            rw [this]
            exact ⟨ms', rfl, hsub0⟩
        obtain ⟨ms1, hms1, hsub⟩ := hsub
        rw [scanSteps_step T.toTables src fuel pos c cs s hs (by omega)]
        have hl : ((c :: cs).drop s.len).length ≤ fuel := by
          simp only [List.length_drop]; simp only [List.length_cons] at hf h2 ⊢; omega
        have hl' : ((c :: cs).drop s.len).length ≤ n := by
          simp only [List.length_drop]; simp only [List.length_cons] at hn h2 ⊢; omega
        obtain ⟨i1, I⟩ := ih fuel (pos + s.len) ((c :: cs).drop s.len) ms1 hl' hl hsub
        obtain ⟨ps', hflat, hpok, hmarks, hsimple, hcost⟩ := I.pieces
        have hne : s.tok.txt ≠ [] := by
          rw [hp.txt]
          intro h0
          have := congrArg List.length h0
          simp only [List.length_take, List.length_nil] at this
          omega
        have hshape : Shape s.tok := by
          refine ⟨hne, ?_⟩
          intro hnl
          by_cases hsp : isSpace c = true
          · rw [hp.first]
            simp only [firstTokTxt, hsp, if_true, isBlank, List.all_eq_true]
            exact fun x hx => mem_takeWhile_imp _ _ _ hx
          · have hsp' : isSpace c = false := by simpa using hsp
            have := (hone hsp').1
            rw [hp.txt, this] at hnl
            simp only [List.take_succ_cons, List.take_zero] at hnl
            rw [hasNl_single c hsp'] at hnl; cases hnl
        refine ⟨i1, ?_, ?_, ?_, ?_⟩
        · intro x hx
          rcases List.mem_cons.mp hx with rfl | hx
          · exact ⟨hp.diag, hp.extra⟩
          · exact I.ok x hx
        · refine ⟨.tok s.tok :: ps', by simp [flat, Piece.toks, hflat], ⟨hp.tok, ?_, hpok⟩, ?_, ?_, ?_⟩
          · -- the short-macro branch
            rw [← hflat]
            have hact := hat
            simp only [okAt, Bool.and_eq_true, Bool.or_eq_true, Bool.not_eq_true'] at hact
            rcases hact.1 with hna | ⟨hns, hk⟩
            · left
              have : s.tok.txt = c :: (cs.take (s.len - 1)) := by
                rw [hp.txt]
                obtain ⟨k, hk⟩ : ∃ k, s.len = k + 1 := ⟨s.len - 1, by omega⟩
                rw [hk]; simp
              rw [this]
              exact not_active_cons T st c _ hna
            · right
              have hlen := (hone hns).1
              have htxt : s.tok.txt = [c] := by rw [hp.txt, hlen]; rfl
              have i4 := I.first
              rw [hlen] at i4 ⊢
              simp only [List.drop_succ_cons, List.drop_zero] at i4 ⊢
              cases hr : (scanSteps T.toTables src fuel (pos + 1) cs).1 with
              | nil => rfl
              | cons s2 ss =>
                simp only [List.map_cons]
                apply expandShortMacro_none
                rw [htxt, i4 s2 ss hr]
                rcases hk with hk | hk
                · cases cs with
                  | nil => cases fuel <;> simp [scanSteps] at hr
                  | cons => simp at hk
                · simpa using hk
          · simp only [outP]
            rw [marksOf_cons, tokMarks_nonaction _ hp.tok.notAction, tokChars_nofix _ hp.fix, hmarks,
              hp.txt, hp.pos, hms1]
          · intro x hx
            simp only [outP, List.mem_cons] at hx
            rcases hx with rfl | hx
            · exact simple_of_plain hp.tok hshape
            · exact hsimple x hx
          · simp only [cost, List.length_cons, List.length_drop] at hcost h2 ⊢
            omega
        · intro s' ss' he
          simp only [List.cons.injEq] at he
          rw [← he.1, hp.first]
          refine (firstTokTxtM_of_text c cs ?_).symm
          rcases hsnd with h | h
          · exact Or.inl h
          · exact Or.inr h.1
        · intro s' ss' he hsp'
          simp only [List.cons.injEq] at he
          rw [← he.1] at hsp'
          by_cases hc : isSpace c = true
          · have hk : s.tok.kind
                = if countNl ((c :: cs).takeWhile isSpace) < 2 then Kind.space else Kind.par := by
              rw [← hs]; simp [nextToken, hc, scanSpace]
            simp only [headSp, List.head?_cons, Option.any_some, hc, Bool.true_and, decide_eq_true_eq]
            by_cases hlt : countNl ((c :: cs).takeWhile isSpace) < 2
            · exact hlt
            · rw [if_neg hlt] at hk; simp [isSpaceTok, hk] at hsp'
          · have := (hone (by simpa using hc)).2
            simp [isSpaceTok, this] at hsp'
      | par _ ws R ms' hd hsub =>
        have V := parFacts hd
        simp only [List.length_cons, List.length_append, parName_len] at hf hn
        have hn1 := nextToken_cw T _ src pos parName _ V.cw
        rw [parName_len] at hn1
        have hwl := wsSteps_len (pos + 4) ws
        have hrun3 := scanSteps_wsP T src (pos + 4) fuel ws R V.blank V.nls V.whole (by omega)
        have hpos : pos + 4 + ws.length = pos + (ws.length + 4) := by omega
        rw [hpos] at hrun3
        obtain ⟨i1, I⟩ := ih (fuel - (wsSteps (pos + 4) ws).length) (pos + (ws.length + 4)) R ms'
          (by omega) (by omega) hsub
        obtain ⟨ps', hflat, hpok, hmarks, hsimple, hcost⟩ := I.pieces
        have hd1 : ('\\' :: (parName ++ (ws ++ R))).drop 4 = ws ++ R := rfl
        rw [scanSteps_step T.toTables src fuel pos _ _ _ hn1 (by simp), hd1]
        simp only []
        rw [hrun3]
        have hsp : SpToks ((wsSteps (pos + 4) ws).map (·.tok)) := by
          intro t ht
          obtain ⟨x, hx, rfl⟩ := List.mem_map.mp ht
          exact (wsSteps_ok _ _ x hx).2.2
        have hhead : HeadVis (flat ps') := by
          rw [← hflat]; exact headVis_steps _ R V.head I.firstSp
        refine ⟨i1, ?_, ?_, ?_, ?_⟩
        · intro x hx
          simp only [List.mem_cons, List.mem_append] at hx
          rcases hx with rfl | hx | hx
          · exact ⟨rfl, rfl⟩
          · exact ⟨(wsSteps_ok _ _ x hx).1, (wsSteps_ok _ _ x hx).2.1⟩
          · exact I.ok x hx
        · refine ⟨.par pos ((wsSteps (pos + 4) ws).map (·.tok)) :: ps', ?_, ⟨hsp, hhead, hpok⟩,
            ?_, ?_, ?_⟩
          · simp [flat, Piece.toks, hflat]
          · simp only [outP]
            rw [marksOf_cons, tokMarks_mkAction, marksOf_cons, tokMarks_parTok, hmarks]
            rfl
          · intro x hx
            simp only [outP, List.mem_cons] at hx
            rcases hx with rfl | rfl | hx
            · exact simple_mkAction pos
            · exact simple_parTok pos
            · exact hsimple x hx
          · simp only [cost, List.length_cons, List.length_append, parName_len]
            omega
        · intro s' ss' he
          simp only [List.cons.injEq] at he
          rw [← he.1]
          exact (firstTok_cw parName _ V.cw.tw).symm
        · intro s' ss' he hsp'
          simp only [List.cons.injEq] at he
          rw [← he.1] at hsp'
          exact absurd hsp' (by simp [cwTok_notSpace])
      | beg _ name arg R ms' hd hsub =>
        have V := begFacts hd
        have hbl : nBegin.length = 5 := rfl
        simp only [List.length_cons, List.length_append, hbl] at hf hn
        have hn1 := nextToken_begin T src pos _ V.special V.noverb
        obtain ⟨nst, N, hrun1⟩ := scanSteps_bracedText T st src (pos + 6) fuel name _ (by omega) V.nm
        have hNl := N.len
        obtain ⟨ast, B, hrun2⟩ := scanSteps_bracedText T st src (pos + 6 + (name.length + 2))
          (fuel - nst.length - 2) arg _ (by omega) V.ag
        have hBl := B.len
        have hpos : pos + 6 + (name.length + 2) + (arg.length + 2)
            = pos + (name.length + arg.length + 10) := by omega
        rw [hpos] at hrun2
        obtain ⟨i1, I⟩ := ih (fuel - nst.length - 2 - ast.length - 2)
          (pos + (name.length + arg.length + 10)) R ms' (by omega) (by omega) hsub
        obtain ⟨ps', hflat, hpok, hmarks, hsimple, hcost⟩ := I.pieces
        have hd1 : ('\\' :: (nBegin ++ '{' :: (name ++ '}' :: '{' :: (arg ++ '}' :: R)))).drop 6
            = '{' :: (name ++ '}' :: '{' :: (arg ++ '}' :: R)) := rfl
        rw [scanSteps_step T.toTables src fuel pos _ _ _ hn1 (by simp), hd1]
        simp only []
        rw [hrun1, hrun2]
        obtain ⟨hN, eN⟩ := nameToks_of_run N V.nm.ne
        have hag : ∀ t ∈ ast.map (·.tok), NoBrace t ∧ t.kind ≠ .comment := by
          intro t ht
          obtain ⟨x, hx, rfl⟩ := List.mem_map.mp ht
          have hc : CopyTok T st x.tok := (B.ok x hx).2.2
          exact ⟨plainTok_noBrace hc.plain, hc.plain.notComment⟩
        refine ⟨i1, ?_, ?_, ?_, ?_⟩
        · intro x hx
          simp only [List.mem_cons, List.mem_append] at hx
          rcases hx with rfl | rfl | hx | rfl | rfl | hx | rfl | hx
          · exact ⟨rfl, rfl⟩
          · exact ⟨rfl, rfl⟩
          · exact ⟨(N.ok x hx).1, (N.ok x hx).2.1⟩
          · exact ⟨rfl, rfl⟩
          · exact ⟨rfl, rfl⟩
          · exact ⟨(B.ok x hx).1, (B.ok x hx).2.1⟩
          · exact ⟨rfl, rfl⟩
          · exact I.ok x hx
        · refine ⟨.beg pos (pos + 6) (pos + 6 + 1 + name.length) (pos + 6 + (name.length + 2))
              (pos + 6 + (name.length + 2) + 1 + arg.length) (nst.map (·.tok)) (ast.map (·.tok)) :: ps',
              ?_, ⟨hN, by rw [eN]; exact V.env, hag, hpok⟩, ?_, ?_, ?_⟩
          · simp [flat, Piece.toks, hflat]
          · simp only [outP]
            rw [marksOf_cons, tokMarks_parTok, marksOf_cons, tokMarks_mkAction, hmarks]
            rfl
          · intro x hx
            simp only [outP, List.mem_cons] at hx
            rcases hx with rfl | rfl | hx
            · exact simple_parTok pos
            · exact simple_mkAction pos
            · exact hsimple x hx
          · simp only [cost, List.length_cons, List.length_append, List.length_map]
            omega
        · intro s' ss' he
          simp only [List.cons.injEq] at he
          rw [← he.1]
          exact (firstTok_cw nBegin _ (takeWhile_append_stop _ _ _ (by decide) rfl)).symm
        · intro s' ss' he hsp'
          simp only [List.cons.injEq] at he
          rw [← he.1] at hsp'
          exact absurd hsp' (by simp [isSpaceTok, begTok])
      | en _ name R ms' hd hsub =>
        have V := endFacts hd
        have hel : nEnd.length = 3 := rfl
        simp only [List.length_cons, List.length_append, hel] at hf hn
        have hn1 := nextToken_end T src pos _ V.special
        obtain ⟨nst, N, hrun1⟩ := scanSteps_bracedText T st src (pos + 4) fuel name _ (by omega) V.nm
        have hNl := N.len
        have hpos : pos + 4 + (name.length + 2) = pos + (name.length + 6) := by omega
        rw [hpos] at hrun1
        obtain ⟨i1, I⟩ := ih (fuel - nst.length - 2) (pos + (name.length + 6)) R ms' (by omega)
          (by omega) hsub
        obtain ⟨ps', hflat, hpok, hmarks, hsimple, hcost⟩ := I.pieces
        have hd1 : ('\\' :: (nEnd ++ '{' :: (name ++ '}' :: R))).drop 4 = '{' :: (name ++ '}' :: R) := rfl
        rw [scanSteps_step T.toTables src fuel pos _ _ _ hn1 (by simp), hd1]
        simp only []
        rw [hrun1]
        obtain ⟨hN, eN⟩ := nameToks_of_run N V.nm.ne
        refine ⟨i1, ?_, ?_, ?_, ?_⟩
        · intro x hx
          simp only [List.mem_cons, List.mem_append] at hx
          rcases hx with rfl | rfl | hx | rfl | hx
          · exact ⟨rfl, rfl⟩
          · exact ⟨rfl, rfl⟩
          · exact ⟨(N.ok x hx).1, (N.ok x hx).2.1⟩
          · exact ⟨rfl, rfl⟩
          · exact I.ok x hx
        · refine ⟨.en pos (pos + 4) (pos + 4 + 1 + name.length) (nst.map (·.tok)) :: ps',
              ?_, ⟨hN, by rw [eN]; exact V.env, hpok⟩, ?_, ?_, ?_⟩
          · simp [flat, Piece.toks, hflat]
          · simp only [outP]
            rw [marksOf_cons, tokMarks_parTok, hmarks]
          · intro x hx
            simp only [outP, List.mem_cons] at hx
            rcases hx with rfl | hx
            · exact simple_parTok pos
            · exact hsimple x hx
          · simp only [cost, List.length_cons, List.length_append, List.length_map]
            omega
        · intro s' ss' he
          simp only [List.cons.injEq] at he
          rw [← he.1]
          exact (firstTok_cw nEnd _ (takeWhile_append_stop _ _ _ (by decide) rfl)).symm
        · intro s' ss' he hsp'
          simp only [List.cons.injEq] at he
          rw [← he.1] at hsp'
          exact absurd hsp' (by simp [isSpaceTok, endTok])

/-- `scan` on a well-formed source: no diagnostics; the token buffer consists of plain tokens,
    `\par`s and environment commands, and its output tokens spell the marks of the source -/
theorem scan_parenv (T : PTables) (st : PState) (src : Str) (ms : List Mark)
    (h : OkSrc T st 0 src ms) :
    (scan T.toTables src).diags = [] ∧
    ∃ ps, (scan T.toTables src).toks = flat ps ∧ PiecesOk T st ps ∧ marksOf (outP ps) = ms ∧
      (∀ t ∈ outP ps, Simple t) ∧ cost ps ≤ src.length := by
  obtain ⟨_, F⟩ := scanSteps_parenv T st src src.length src.length 0 src ms (Nat.le_refl _)
    (Nat.le_refl _) h
  have he := flatten_tok_extra (scanSteps T.toTables src src.length 0 src).1 (fun s hs => (F.ok s hs).2)
  have hd := flatten_diag_nil (scanSteps T.toTables src src.length 0 src).1 (fun s hs => (F.ok s hs).1)
  obtain ⟨ps, h1, h2, h3, h4, h5⟩ := F.pieces
  simp only [scan]
  rw [he, hd]
  exact ⟨rfl, ps, h1, h2, h3, h4, h5⟩

/-! ### `parserWork`, `parse`, `tex2txt` -/

/-- **`parserWork` on a well-formed source.**  The characters of the result tokens, with their
    positions, are the marks of the document with the pure Action lines deleted.  Of the state
    nothing changes. -/
theorem parserWork_parenv (T : PTables) (st : PState) (src : Str) (fuel : Nat) (ms : List Mark)
    (hf : src.length + 2 ≤ fuel) (ha : noEmptyActive T st = true) (hp : ParOk st)
    (h : OkSrc T st 0 src ms) :
    ∃ r, parserWork T fuel src st = .ok (r, { st with nest := st.nest + 1 - 1 }) ∧
      charsOf r = delLines ms := by
  obtain ⟨f, rfl⟩ : ∃ f, fuel = f + 1 := ⟨fuel - 1, by omega⟩
  obtain ⟨hd, ps, hflat, hpok, hmarks, hsimple, hcost⟩ := scan_parenv T st src ms h
  let st' : PState := { st with latex := src, nest := st.nest + 1 }
  have hpok' : PiecesOk T st' ps := PiecesOk.congr (st := st) (st' := st') rfl rfl hpok
  have hs := seq_parenv T st' ((noEmptyActive_congr T st st' rfl).trans ha)
    (ParOk.congr (st := st) (st' := st') rfl hp) ps f [] (by omega) hpok'
  rw [List.nil_append] at hs
  obtain ⟨r, hr, hchars⟩ := removeLines_simple _ hsimple
  rw [hr] at hs
  simp only [] at hs
  rw [hmarks] at hchars
  refine ⟨r, ?_, hchars⟩
  rw [parserWork.eq_2]
  refine (M.bind_ok _ _ _ _ _ (rfl : M.get st = _)).trans ?_
  refine (M.bind_ok _ _ _ _ _ (rfl : M.modify _ _ = _)).trans ?_
  refine (M.bind_ok _ _ _ _ _ (rfl : M.modify _ _ = _)).trans ?_
  refine (M.bind_ok _ _ _ _ _ (rfl : M.get _ = _)).trans ?_
  simp only [hd, List.append_nil]
  rw [skipPass_nocomment _ _ _ (fun t ht' => hpok.notComment t (by rw [← hflat]; exact ht'))]
  simp only []
  refine (M.bind_ok _ _ _ _ _ (rfl : (pure _ : M (List Tok)) _ = _)).trans ?_
  rw [hflat]
  refine (M.bind_ok _ _ _ _ _ hs).trans ?_
  refine (M.bind_ok _ _ _ _ _ (rfl : M.modify _ _ = _)).trans ?_
  rfl

theorem parse_parenv (T : PTables) (st : PState) (src : Str) (fuel : Nat) (ms : List Mark)
    (hf : src.length + 2 ≤ fuel) (ha : noEmptyActive T st = true) (hp : ParOk st)
    (h : OkSrc T st 0 src ms) :
    ∃ r stF, parse T fuel src [] [] st = .ok (r, stF) ∧ charsOf r = delLines ms ∧
      stF.unknowns = [] ∧ stF.diags = st.diags := by
  have h' : OkSrc T { st with extracted := [], unknowns := [], foreign := false, nest := 0 } 0 src ms :=
    OkSrc.congr (st := st)
      (st' := { st with extracted := [], unknowns := [], foreign := false, nest := 0 }) rfl rfl h
  obtain ⟨r, hw, hc⟩ := parserWork_parenv T
    { st with extracted := [], unknowns := [], foreign := false, nest := 0 } src fuel ms hf
    ((noEmptyActive_congr T st _ rfl).trans ha) (ParOk.congr (st := st) rfl hp) h'
  refine ⟨r, ({ st with extracted := [], unknowns := [], foreign := false, nest := 0 + 1 - 1 } : PState),
    ?_, hc, rfl, rfl⟩
  unfold parse
  simp only [List.isEmpty_nil, Bool.not_true, Bool.false_eq_true, if_false, if_true]
  refine (M.bind_ok _ _ _ _ _ (rfl : M.modify _ _ = _)).trans ?_
  refine (M.bind_ok _ _ _ _ _ (rfl : (pure _ : M (List Tok)) _ = _)).trans ?_
  refine (M.bind_ok _ _ _ _ _ (rfl : M.modify _ _ = _)).trans ?_
  refine (M.bind_ok _ _ _ _ _ hw).trans ?_
  refine (M.bind_ok _ _ _ _ _ (rfl : M.get _ = _)).trans ?_
  show Outcome.ok _ = _
  simp

/-- the result of `tex2txt` on a well-formed source (no `--defs`, `--extr`, `--repl`, `--unkn`;
    single-language mode) -/
theorem tex2txt_parenv_src (T : PTables) (o : Options) (fs : FS) (thresh : Nat) (src : Str)
    (fuel : Nat) (st1 : PState) (ms : List Mark)
    (hdefs : o.defs = []) (hextr : o.extr = []) (hrepl : o.hasRepl = false) (hunkn : o.unkn = false)
    (hinit : initParser T fuel o (initialState T o false fs) = .ok ((), st1))
    (ha : noEmptyActive T st1 = true) (hp : ParOk st1) (h : OkSrc T st1 0 src ms)
    (hf : src.length + 2 ≤ fuel) :
    ∃ r, tex2txt T fuel src o false thresh fs = .ok r ∧
      r.txt = (delLines ms).map (·.1) ∧ r.pos = (delLines ms).map (·.2 + 1) ∧
      r.unknowns = [] ∧ r.diags = st1.diags ∧ r.parts = [] := by
  obtain ⟨r, stF, hp, hc, hu, hdg⟩ := parse_parenv T st1 src fuel ms hf ha hp h
  have hrun : (initParser T fuel o >>= fun _ => parse T fuel src o.defs
        (if o.extr.isEmpty then [] else (splitOn ',' o.extr []).map (fun s => '\\' :: s)))
        (initialState T o false fs)
      = .ok (r, stF) := by
    refine (M.bind_ok _ _ _ _ _ hinit).trans ?_
    rw [hdefs, hextr]
    exact hp
  unfold tex2txt
  simp only []
  rw [hrun]
  simp only [hrepl, hunkn, Bool.not_false, if_true, Bool.false_eq_true, if_false,
    getTxtPos_charsOf, hc, List.map_map, hu, hdg]
  exact ⟨_, rfl, rfl, rfl, rfl, rfl, rfl⟩

/-- **C05 end to end, `\par` and paragraph-forming environments.**  The document consists of inert
    text, `\par` and environments `\begin{name}{arg}` … `\end{name}` declared with `add_pars` and one
    mandatory argument (`SegsOk`: all side conditions); `st1` is the state after `Parser.__init__`;
    no `--defs`, `--extr`, `--repl`, `--unkn`; single-language mode.  With one unit of fuel per source
    character and two more, `tex2txt` succeeds and the output text with its (1-based) positions is
    `delLines (marks 0 segs)`: see `marks`, and then every line deleted (with its line break)
    that consists of white space only and holds at least one text-less mark
    (`remove_pure_action_lines`); there are no unknowns and no diagnostic is added. -/
theorem tex2txt_parenv (T : PTables) (o : Options) (fs : FS) (thresh : Nat) (segs : List Seg)
    (fuel : Nat) (st1 : PState)
    (hdefs : o.defs = []) (hextr : o.extr = []) (hrepl : o.hasRepl = false) (hunkn : o.unkn = false)
    (hinit : initParser T fuel o (initialState T o false fs) = .ok ((), st1))
    (hok : SegsOk T st1 segs) (hf : (render segs).length + 2 ≤ fuel) :
    ∃ r, tex2txt T fuel (render segs) o false thresh fs = .ok r ∧
      r.txt = (delLines (marks 0 segs)).map (·.1) ∧
      r.pos = (delLines (marks 0 segs)).map (·.2 + 1) ∧
      r.unknowns = [] ∧ r.diags = st1.diags ∧ r.parts = [] := by
  obtain ⟨hst, hsegs⟩ := hok
  simp only [stateOk, Bool.and_eq_true] at hst
  have hsrc := OkSrc_of_segsOk T st1 segs 0 hsegs
  exact tex2txt_parenv_src T o fs thresh (render segs) fuel st1 _ hdefs hextr hrepl hunkn
    hinit hst.1 (ParOk_of_parOk hst.2) hsrc hf

end PlainParEnv
end Yalafi
