/-
  Proofs/PlainMath.lean — C10 "every inline formula is replaced by one rotating placeholder plus its
  closing punctuation mark", end to end on the model, for documents that consist of inert text (as
  in Proofs/Plain.lean / Proofs/PlainUnknown.lean) and *simple* inline formulas `$body$`.

  Documents
    `Seg`, `render`            text segment | formula body;  `.math b ↦ '$' :: b ++ ['$']`
    `mathPlainChar T c`        admissible body character (per character): no white space, none of
                               `% # \ $ { }`, `[c]` neither in `math_ignore` nor in `math_space`
    `mathAt T c cs`            … in its right context: no special sequence matches at `c`
    `bodyOk`, `dollarAt`, `mathOk`, `segsOk`, `SegsOk`   well-formedness (computable)
  What the maths parser does with the admitted characters (model: `expandMathSection`)
    * a character that is no white space becomes a one-character text token in the scanner and one
      maths token in the section parser: an *operator* token if its text is listed in
      `math_operators` (`+ - / = < >` in the real tables), an *element* token otherwise; in inline
      mode `replace_section` treats both alike (one part, one placeholder);
    * white space inside a formula becomes a space token (a run with two line breaks would be a
      paragraph token: "missing end of maths" — excluded by `bodyOk`); the section parser skips it
      (`skip_space`): it leaves no trace, it does not count as "maths space", the closing punctuation
      mark is the last character that is no white space, and the replacement carries the position of
      the first character that is no white space;
    * punctuation characters are ordinary element tokens; only the last one is looked at.
  Token level
    `DollarTok`, `BodyTok`, `mathSection_body`   the section parser on the body
    `inlineMath_simple`        `expandInlineMath` returns exactly `formulaOut`, rotated state, rest
    `Piece`, `PiecesOk`, `outP`, `seq_math`      `expandSequence` on plain tokens and formulas
    `removeLines_outP`         the blank-line removal only drops the Action tokens
  Source level
    `OkSrc`, `scanSteps_bodyrun`, `scanSteps_math`, `scan_math`   the scanner
    `parserWork_math`, `parse_math`, `tex2txt_math_src`            the lifts
    `refMath`, `placeholder`, `punctOf`, `leadBlanks`              the reference output
    `tex2txt_inline_math`      the end-to-end statement

  Side conditions of `tex2txt_inline_math`
    options / initialisation   as in `tex2txt_plain_text`: no --defs, --extr, --repl, --unkn,
                               single-language mode, `st1` = state after `Parser.__init__`
    `SegsOk T st1 segs`        text: `textOk` of PlainUnknown (inert in its full right context, the token
                               behind an active character may be `$`); formula: body admissible and
                               not only white space; both `$` are scanned as the token `$` — in
                               particular two formulas must not touch (`$$` is another key)
    `rotOf st1 (curSettings st1) = some rot`, `rot.inl = repls`, `repls ≠ []`
                               the inline collection of the current language (bundle invariant;
                               Python: `IndexError` on an empty collection)
    `VisibleRepls repls`       no placeholder is blank or contains a line break: then every formula
                               leaves visible text on its line and `remove_pure_action_lines` deletes
                               nothing (with a blank placeholder the line of a formula that stands
                               alone on its line would be deleted)
    `(settingsOf T (curSettings st1)).isSome`   the language settings exist (Python: `KeyError`
                               in `lang_context` otherwise)
    fuel                       `(render segs).length + 2 ≤ fuel` (tight: `$ab$` needs 6)
  Positions: the model (and Python: `MathPartToken.pos` is the position of its first token) pins
  the replacement to the position of the first maths token, i.e. the first character of the body
  that is no white space — *not* to the opening `$`.
-/
import YalafiVerif.Proofs.Plain
import YalafiVerif.Proofs.PlainUnknown
import YalafiVerif.Proofs.PlainSpecial
import YalafiVerif.Proofs.InlineShape
namespace Yalafi
namespace PlainMath

open M

/-! ### the rotation record of the current language -/

theorem rotOf_code (st : PState) (code : Str) (rot : Rot) (h : rotOf st code = some rot) :
    rot.code = code := by
  unfold rotOf at h
  have := List.find?_some h
  simpa using this

theorem rotOf_setRot (st : PState) (code : Str) (rot : Rot) (l : List Str)
    (h : rotOf st code = some rot) :
    rotOf (setRot st { rot with inl := l }) code = some { rot with inl := l } := by
  have hc := rotOf_code st code rot h
  unfold rotOf setRot at *
  simp only []
  generalize st.rots = rs at h
  induction rs with
  | nil => simp at h
  | cons x xs ih =>
    rw [List.find?_cons] at h
    rw [List.map_cons, List.find?_cons]
    by_cases hx : (x.code == code) = true
    · simp only [hx] at h
      have hxr : x = rot := by simpa using h
      subst hxr
      simp [hc]
    · have hx' : (x.code == code) = false := by simpa using hx
      simp only [hx'] at h
      have hne : (x.code == rot.code) = false := by rw [hc]; exact hx'
      simp only [hne, Bool.false_eq_true, if_false, hx']
      exact ih h

theorem curSettings_setRot (st : PState) (r : Rot) : curSettings (setRot st r) = curSettings st := rfl


/-! ### the maths section of a simple formula -/

/-- the scanner token of a `$`: a SpecialToken if `$` is a key of `special_tokens` (it is, in the
    real tables), an ordinary text token otherwise -/
structure DollarTok (t : Tok) : Prop where
  kind : t.kind = .special ∨ t.kind = .text
  txt : t.txt = ['$']

/-- the scanner token of an admissible body character: a one-character text token that is no
    white space, not `$`, and neither ignored nor taken as space by the maths parser -/
structure BodyTok (T : PTables) (t : Tok) : Prop where
  kind : t.kind = .text
  one : ∃ c, t.txt = [c] ∧ c ≠ '$' ∧ isSpace c = false
  nIgnore : T.mathIgnore.contains t.txt = false
  nSpace : T.mathSpace.contains t.txt = false

/-- the maths token the section parser makes of a body token: an operator token for the
    characters listed in `math_operators` (`+ - / = < >` …), an element token otherwise -/
def mathTokOf (st : PState) (t : Tok) : Tok :=
  mkTok (if st.mathOperators.contains t.txt then .mathOper else .mathElem) t.pos t.txt

theorem isMathTok_mathTokOf (st : PState) (t : Tok) : isMathTok (mathTokOf st t) = true := by
  unfold mathTokOf mkTok isMathTok
  cases st.mathOperators.contains t.txt <;> rfl

theorem mathTokOf_notSpace (st : PState) (t : Tok) : (mathTokOf st t).kind ≠ .mathSpace := by
  unfold mathTokOf mkTok
  split <;> simp

theorem finFilter_math (l : List Tok) (h : ∀ t ∈ l, isMathTok t = true) :
    l.filter (fun t => !(t.kind == Kind.void || t.kind == Kind.action)) = l := by
  rw [List.filter_eq_self]
  intro t ht
  have := h t ht
  unfold isMathTok at this
  cases hk : t.kind <;> simp_all

theorem mathSection_step (T : PTables) (fuel : Nat) (t : Tok) (rest : Buf) (start : Nat)
    (out : List Tok) (st : PState) (h : BodyTok T t) :
    expandMathSection T (fuel + 1) (t :: rest) start ["$".toList, "\\)".toList] none out st
      = expandMathSection T fuel rest start ["$".toList, "\\)".toList] none
          (out ++ [mathTokOf st t]) st := by
  obtain ⟨hk, ⟨c, hc, hd, _⟩, hi, hs⟩ := h
  have hsk : skipSpace (t :: rest) = t :: rest := by
    simp [skipSpace, isSpaceTok, hk]
  have hstop : ["$".toList, "\\)".toList].contains t.txt = false := by
    rw [hc]
    simp [hd]
  have hv : isVerb t = false := by simp [isVerb, hk]
  rw [expandMathSection.eq_2, hsk]
  simp only [hk, hv, hstop, hi, hs, reduceCtorEq, beq_iff_eq, Bool.false_eq_true, if_false]
  show M.bind' M.get _ st = _
  simp only [M.bind', M.get]
  have hm : isMathTok t = false := by simp [isMathTok, hk]
  have hl : isLang t = false := by simp [isLang, hk]
  have hsp : mathSpecialTxt T t = some t.txt := by simp [mathSpecialTxt, hk]
  simp only [hm, hl, hsp, Bool.false_eq_true, if_false, mathTokOf]
  split <;> rfl

/-- the tokens of a formula body the maths parser looks at: white-space tokens are skipped -/
def mathToks (body : List Tok) : List Tok := body.filter (fun t => !(t.kind == Kind.space))

/-- a body token or a white-space token (a run of white space with at most one line break) -/
def BodyItem (T : PTables) (t : Tok) : Prop := BodyTok T t ∨ t.kind = .space

theorem mathToks_cons_space (t : Tok) (ts : List Tok) (h : t.kind = .space) :
    mathToks (t :: ts) = mathToks ts := by
  simp [mathToks, h]

theorem mathToks_cons_body (T : PTables) (t : Tok) (ts : List Tok) (h : BodyTok T t) :
    mathToks (t :: ts) = t :: mathToks ts := by
  simp [mathToks, h.kind]

theorem mathToks_body (T : PTables) (body : List Tok) (hb : ∀ t ∈ body, BodyItem T t) :
    ∀ t ∈ mathToks body, BodyTok T t := by
  intro t ht
  simp only [mathToks, List.mem_filter, Bool.not_eq_true', beq_eq_false_iff_ne] at ht
  rcases hb t ht.1 with h | h
  · exact h
  · exact absurd h ht.2

/-- white space in a formula is skipped by the section parser (`skip_space`), at no cost -/
theorem mathSection_space_step (T : PTables) (fuel : Nat) (t : Tok) (rest : Buf) (start : Nat)
    (stop : List Str) (envStop : Option Str) (out : List Tok) (h : t.kind = .space) :
    expandMathSection T fuel (t :: rest) start stop envStop out
      = expandMathSection T fuel rest start stop envStop out := by
  cases fuel with
  | zero => rw [expandMathSection.eq_1, expandMathSection.eq_1]
  | succ f =>
    have hsk : skipSpace (t :: rest) = skipSpace rest := by
      simp [skipSpace, isSpaceTok, h]
    rw [expandMathSection.eq_2, expandMathSection.eq_2, hsk]

/-- the section parser on the body of a simple formula: one maths token per character that is no
    white space, the closing `$` ends the section; at most one unit of fuel per token -/
theorem mathSection_body (T : PTables) (st : PState) (start : Nat) (d2 : Tok) (rest : Buf)
    (hd : DollarTok d2) :
    ∀ (body : List Tok) (fuel : Nat) (out : List Tok), body.length + 1 ≤ fuel →
      (∀ t ∈ body, BodyItem T t) → (∀ t ∈ out, isMathTok t = true) →
      expandMathSection T fuel (body ++ d2 :: rest) start ["$".toList, "\\)".toList] none out st
        = .ok ({ out := out ++ (mathToks body).map (mathTokOf st), term := some d2, buf := rest }, st) := by
  intro body
  induction body with
  | nil =>
    intro fuel out hf _ ho
    obtain ⟨f, rfl⟩ : ∃ f, fuel = f + 1 := ⟨fuel - 1, by simp at hf; omega⟩
    have hsk : skipSpace (d2 :: rest) = d2 :: rest := by
      rcases hd.kind with hk | hk <;> simp [skipSpace, isSpaceTok, hk]
    have hstop : ["$".toList, "\\)".toList].contains d2.txt = true := by
      rw [hd.txt]; decide
    have hp : (d2.kind == Kind.par) = false := by
      rcases hd.kind with hk | hk <;> simp [hk]
    have hv : isVerb d2 = false := by
      rcases hd.kind with hk | hk <;> simp [isVerb, hk]
    rw [List.nil_append, expandMathSection.eq_2, hsk]
    simp only [hp, hv, hstop, Bool.false_eq_true, if_false, if_true, mathToks, List.filter_nil,
      List.map_nil, List.append_nil]
    rw [finFilter_math out ho]
    rfl
  | cons t ts ih =>
    intro fuel out hf hb ho
    obtain ⟨f, rfl⟩ : ∃ f, fuel = f + 1 := ⟨fuel - 1, by simp at hf; omega⟩
    rcases hb t (by simp) with hbt | hsp
    · rw [List.cons_append, mathSection_step T f t _ start out st hbt]
      rw [ih f _ (by simp at hf ⊢; omega) (fun x hx => hb x (by simp [hx]))
        (by
          intro x hx
          rcases List.mem_append.mp hx with hx | hx
          · exact ho x hx
          · simp only [List.mem_singleton] at hx; subst hx; exact isMathTok_mathTokOf st t)]
      rw [mathToks_cons_body T t ts hbt]
      simp
    · rw [List.cons_append, mathSection_space_step T (f + 1) t _ start _ none out hsp]
      rw [ih (f + 1) out (by simp at hf ⊢; omega) (fun x hx => hb x (by simp [hx])) ho]
      rw [mathToks_cons_space t ts hsp]

/-! ### `expandInlineMath` on a simple formula -/

def firstPos : List Tok → Nat
  | [] => 0
  | t :: _ => t.pos

/-- the characters of a list of body tokens -/
def bodyTxt (body : List Tok) : Str := body.flatMap (·.txt)

/-- the closing punctuation mark of a formula body: its last character, if that is one of the
    `math_punctuation` characters -/
def punctChar (T : PTables) (s : Str) : Option Char :=
  match s.getLast? with
  | some c => if T.mathPunctuation.contains [c] then some c else none
  | none => none

/-- what `expand_inline_math` returns for a simple formula: an Action token at the position `p` of
    the opening `$`, the placeholder `ph` and the closing punctuation mark as position-fixed text
    tokens at the position `q` of the first token of the body, an Action token at `q` -/
def formulaOut (T : PTables) (ph : Str) (p q : Nat) (s : Str) : List Tok :=
  [mkAction p, mkFix .text q ph]
    ++ (match punctChar T s with | some c => [mkFix .text q [c]] | none => [])
    ++ [mkAction q]

theorem lastNonBlank_of_nonspace (s : Str) (h : ∀ c ∈ s, isSpace c = false) :
    lastNonBlank s = s.getLast? := by
  unfold lastNonBlank
  rw [← List.head?_reverse]
  cases hr : s.reverse with
  | nil => rfl
  | cons a l =>
    have : isSpace a = false := h a (by rw [← List.mem_reverse, hr]; simp)
    simp [this]

theorem getTextDirect_mathToks (st : PState) (body : List Tok) :
    getTextDirect (body.map (mathTokOf st)) = bodyTxt body := by
  unfold getTextDirect bodyTxt
  induction body with
  | nil => rfl
  | cons t ts ih =>
    have hk : ((mathTokOf st t).kind != Kind.comment) = true := by
      unfold mathTokOf mkTok
      cases st.mathOperators.contains t.txt <;> rfl
    simp only [List.map_cons, List.filter_cons, hk, if_true, List.flatMap_cons, ih]
    rfl

theorem bodyTxt_nonspace (T : PTables) (body : List Tok) (hb : ∀ t ∈ body, BodyTok T t) :
    ∀ c ∈ bodyTxt body, isSpace c = false := by
  intro c hc
  unfold bodyTxt at hc
  obtain ⟨t, ht, hct⟩ := List.mem_flatMap.mp hc
  obtain ⟨d, hd, _, hs⟩ := (hb t ht).one
  rw [hd] at hct
  simp only [List.mem_singleton] at hct
  rw [hct]; exact hs

theorem partPunct_mathToks (T : PTables) (st : PState) (body : List Tok)
    (hb : ∀ t ∈ body, BodyTok T t) :
    partPunct T (body.map (mathTokOf st)) = punctChar T (bodyTxt body) := by
  unfold partPunct punctChar
  rw [getTextDirect_mathToks, lastNonBlank_of_nonspace _ (bodyTxt_nonspace T body hb)]
  cases (bodyTxt body).getLast? <;> rfl

/-- **C10 on `expandInlineMath`.**  For a simple formula (buffer = body tokens, closing `$`,
    rest) the call returns exactly `formulaOut` with the head of the once-rotated collection as
    the placeholder, the remaining buffer, and the state in which the rotated collection is
    stored; nothing else in the state changes.  Fuel: one unit for the call, at most one per body
    token and one for the closing `$`. -/
theorem inlineMath_simple (T : PTables) (st : PState) (fuel : Nat) (d1 d2 : Tok) (body : List Tok)
    (rest : Buf) (rot : Rot) (ls : LangSettings) (r0 : Str)
    (hd2 : DollarTok d2) (hne : mathToks body ≠ []) (hb : ∀ t ∈ body, BodyItem T t)
    (hf : body.length + 1 ≤ fuel)
    (hrot : rotOf st (curSettings st) = some rot) (hls : settingsOf T (curSettings st) = some ls)
    (hr : (rotL rot.inl).head? = some r0) :
    expandInlineMath T (fuel + 1) (body ++ d2 :: rest) d1 st
      = .ok ((formulaOut T r0 d1.pos (firstPos (mathToks body)) (bodyTxt (mathToks body)), rest),
             setRot st { rot with inl := rotL rot.inl }) := by
  have hsec := mathSection_body T st d1.pos d2 rest hd2 body fuel [] hf hb (by simp)
  rw [List.nil_append] at hsec
  have hbm := mathToks_body T body hb
  generalize mathToks body = mb at hsec hne hbm
  have hmne : mb.map (mathTokOf st) ≠ [] := by simpa using hne
  have hmath : ∀ t ∈ mb.map (mathTokOf st), isMathTok t = true := by
    intro t ht
    obtain ⟨u, _, rfl⟩ := List.mem_map.mp ht
    exact isMathTok_mathTokOf st u
  have hns : (mb.map (mathTokOf st)).all (·.kind == .mathSpace) = false := by
    cases mb with
    | nil => exact absurd rfl hne
    | cons t ts =>
      have := mathTokOf_notSpace st t
      simp [this]
  obtain ⟨rs, hrs, hrepls, _, hout⟩ := replaceSection_inline_single T ls.opText ls.opDefault
    (mb.map (mathTokOf st)) true true rot.inl ((mb.map (mathTokOf st)).head hmne)
    ((mb.map (mathTokOf st)).getLast hmne) r0 (List.head?_eq_some_head hmne)
    (List.getLast?_eq_some_getLast hmne) hns hr
  rw [← detectMathParts_single _ hmath hmne] at hrs
  rw [expandInlineMath.eq_2]
  refine (M.bind_ok _ _ _ _ _ hsec).trans ?_
  refine (M.bind_ok _ _ _ _ _ (rfl : M.get st = _)).trans ?_
  simp only [hrot, hls, hrs]
  refine (M.bind_ok _ _ _ _ _ (rfl : M.modify _ _ = _)).trans ?_
  show Outcome.ok _ = _
  have h0k : ¬ ((mb.map (mathTokOf st)).head hmne).kind = .mathSpace := by
    cases mb with
    | nil => exact absurd rfl hne
    | cons t ts => exact mathTokOf_notSpace st t
  have hlk : ¬ ((mb.map (mathTokOf st)).getLast hmne).kind = .mathSpace := by
    obtain ⟨u, _, hu⟩ := List.mem_map.mp (List.getLast_mem hmne)
    rw [← hu]; exact mathTokOf_notSpace st u
  have hpos : ((mb.map (mathTokOf st)).head hmne).pos = firstPos mb := by
    cases mb with
    | nil => exact absurd rfl hne
    | cons t ts => rfl
  rw [hrepls, hout]
  unfold inlineShape formulaOut
  rw [partPunct_mathToks T st mb hbm, if_neg h0k, if_neg hlk, hpos]
  cases punctChar T (bodyTxt mb) <;> simp [mkFix, mkAction]

/-! ### `expandSequence` on plain tokens and simple formulas -/

theorem seq_dollar_step (T : PTables) (fuel : Nat) (d1 : Tok) (rest : Buf) (envStop : Option Str)
    (out : List Tok) (st : PState) (hd1 : DollarTok d1) :
    expandSequence T (fuel + 1) (d1 :: rest) envStop out st
      = (expandInlineMath T fuel rest d1 >>= fun r =>
          expandSequence T fuel r.2 envStop (out ++ r.1)) st := by
  rw [expandSequence.eq_3]
  show M.bind' M.get _ st = _
  simp only [M.bind', M.get]
  have h1 : txtIs d1 "$" = true := by simp [txtIs, hd1.txt]
  rcases hd1.kind with hk | hk <;>
    simp only [hk, h1, Bool.true_or, if_true, Bool.false_eq_true, if_false, reduceCtorEq, beq_iff_eq] <;>
    rfl

/-- the pieces of a token buffer: a token that is copied, or a simple formula -/
inductive Piece where
  | tok (t : Tok)
  | math (d1 : Tok) (body : List Tok) (d2 : Tok)

def Piece.toks : Piece → List Tok
  | .tok t => [t]
  | .math d1 b d2 => d1 :: (b ++ [d2])

/-- the token buffer -/
def flat : List Piece → List Tok
  | [] => []
  | p :: ps => p.toks ++ flat ps

/-- the shape of a token the loop copies: a one-line text token or a white-space token -/
def TokShape (t : Tok) : Prop :=
  t.txt ≠ [] ∧
  ((t.kind = .text ∧ hasNl t.txt = false) ∨ ((t.kind = .space ∨ t.kind = .par) ∧ isBlank t.txt = true))

/-- a buffer of plain tokens (copied by `expandSequence`) and simple formulas -/
def PiecesOk (T : PTables) (st : PState) : List Piece → Prop
  | [] => True
  | .tok t :: rest => PlainTok t ∧ PassTok T st t (flat rest) ∧ TokShape t ∧ PiecesOk T st rest
  | .math d1 b d2 :: rest =>
    DollarTok d1 ∧ mathToks b ≠ [] ∧ (∀ t ∈ b, BodyItem T t) ∧ DollarTok d2 ∧ PiecesOk T st rest

/-- what `expandSequence` emits for the pieces before the blank-line removal, `l` being the stored
    placeholder collection: the formulas take the heads of `rotL l`, `rotL (rotL l)`, … -/
def outP (T : PTables) : List Str → List Piece → List Tok
  | _, [] => []
  | l, .tok t :: rest => t :: outP T l rest
  | l, .math d1 b _ :: rest =>
    formulaOut T ((rotL l).headD []) d1.pos (firstPos (mathToks b)) (bodyTxt (mathToks b))
      ++ outP T (rotL l) rest

/-- `n` rotations by one -/
def rotN : Nat → List Str → List Str
  | 0, l => l
  | n + 1, l => rotN n (rotL l)

/-- number of formulas -/
def nMath : List Piece → Nat
  | [] => 0
  | .tok _ :: rest => nMath rest
  | .math .. :: rest => nMath rest + 1

theorem PiecesOk.congr {T : PTables} {st st' : PState} (hl : st'.langStack = st.langStack) :
    ∀ {ps : List Piece}, PiecesOk T st ps → PiecesOk T st' ps
  | [], _ => trivial
  | .tok t :: rest, h => by
    refine ⟨h.1, ?_, h.2.2.1, PiecesOk.congr hl h.2.2.2⟩
    unfold PassTok
    rw [activeChars_congr T st st' hl, expandShortMacro_congr T st st' hl]
    exact h.2.1
  | .math d1 b d2 :: rest, h => ⟨h.1, h.2.1, h.2.2.1, h.2.2.2.1, PiecesOk.congr hl h.2.2.2.2⟩

theorem headD_of_ne_nil (l : List Str) (h : l ≠ []) : l.head? = some (l.headD []) := by
  cases l with
  | nil => exact absurd rfl h
  | cons a t => rfl

/-- the loop on a buffer of plain tokens and simple formulas: the output is the blank-line
    removal applied to `outP`; the state changes only in the rotation records, and the record of
    the current language holds the collection rotated once per formula.  Fuel: one unit per
    token and one for the final call. -/
theorem seq_math (T : PTables) (envStop : Option Str) (ls : LangSettings) :
    ∀ (ps : List Piece) (fuel : Nat) (out : List Tok) (st : PState) (rot : Rot),
      (flat ps).length + 1 ≤ fuel → PiecesOk T st ps →
      rotOf st (curSettings st) = some rot → rot.inl ≠ [] →
      settingsOf T (curSettings st) = some ls →
      ∃ st', expandSequence T fuel (flat ps) envStop out st
          = (match removeLines (out ++ outP T rot.inl ps) with
             | some r => .ok ((r, []), st')
             | none => .outOfFuel) ∧
        st' = { st with rots := st'.rots } ∧
        rotOf st' (curSettings st) = some { rot with inl := rotN (nMath ps) rot.inl } := by
  intro ps
  induction ps with
  | nil =>
    intro fuel out st rot hf _ hrot _ _
    obtain ⟨f, rfl⟩ : ∃ f, fuel = f + 1 := ⟨fuel - 1, by omega⟩
    refine ⟨st, ?_, rfl, hrot⟩
    simp only [flat, outP, List.append_nil]
    rw [expandSequence.eq_2]
    cases removeLines out <;> rfl
  | cons p ps ih =>
    intro fuel out st rot hf hok hrot hne hls
    cases p with
    | tok t =>
      simp only [flat, Piece.toks, List.singleton_append, List.length_cons] at hf ⊢
      obtain ⟨f, rfl⟩ : ∃ f, fuel = f + 1 := ⟨fuel - 1, by omega⟩
      rw [seq_plain_step T f t (flat ps) envStop out st hok.1 hok.2.1]
      obtain ⟨st', h1, h2, h3⟩ := ih f (out ++ [t]) st rot (by omega) hok.2.2.2 hrot hne hls
      refine ⟨st', ?_, h2, h3⟩
      rw [h1]
      simp only [outP, List.append_assoc, List.singleton_append]
    | math d1 b d2 =>
      obtain ⟨hd1, hbne, hb, hd2, hrest⟩ := hok
      have hflat : flat (Piece.math d1 b d2 :: ps) = d1 :: (b ++ d2 :: flat ps) := by
        simp [flat, Piece.toks]
      rw [hflat] at hf ⊢
      simp only [List.length_cons, List.length_append] at hf
      obtain ⟨f, rfl⟩ : ∃ f, fuel = f + 2 := ⟨fuel - 2, by omega⟩
      have hr := headD_of_ne_nil _ (rotL_ne_nil _ hne)
      have him := inlineMath_simple T st f d1 d2 b (flat ps) rot ls _ hd2 hbne hb (by omega) hrot hls hr
      rw [seq_dollar_step T (f + 1) d1 _ envStop out st hd1]
      rw [M.bind_ok _ (fun r => expandSequence T (f + 1) r.2 envStop (out ++ r.1)) _ _ _ him]
      simp only []
      have hrot2 := rotOf_setRot st (curSettings st) rot (rotL rot.inl) hrot
      obtain ⟨st', h1, h2, h3⟩ := ih (f + 1)
        (out ++ formulaOut T ((rotL rot.inl).headD []) d1.pos (firstPos (mathToks b))
          (bodyTxt (mathToks b)))
        (setRot st { rot with inl := rotL rot.inl }) { rot with inl := rotL rot.inl }
        (by omega) (PiecesOk.congr (st := st) (st' := setRot st { rot with inl := rotL rot.inl }) rfl hrest) hrot2 (rotL_ne_nil _ hne) hls
      refine ⟨st', ?_, h2.trans rfl, ?_⟩
      · rw [h1]
        simp only [outP, List.append_assoc]
      · rw [show curSettings st = curSettings (setRot st { rot with inl := rotL rot.inl }) from rfl, h3]
        simp only [nMath, rotN]


/-! ### the blank-line removal deletes nothing: every formula leaves visible text -/

/-- the placeholders are visible one-line texts -/
def VisibleRepls (l : List Str) : Prop := ∀ r ∈ l, hasNl r = false ∧ isBlank r = false

theorem mem_rotL (l : List Str) (x : Str) (h : x ∈ rotL l) : x ∈ l := by
  simp only [rotL, List.mem_append] at h
  rcases h with h | h
  · exact List.mem_of_mem_drop h
  · exact List.mem_of_mem_take h

theorem VisibleRepls.rotL {l : List Str} (h : VisibleRepls l) : VisibleRepls (rotL l) :=
  fun r hr => h r (mem_rotL l r hr)

theorem punctChar_mem (T : PTables) (s : Str) (c : Char) (h : punctChar T s = some c) : c ∈ s := by
  unfold punctChar at h
  cases hl : s.getLast? with
  | none => simp [hl] at h
  | some d =>
    simp only [hl] at h
    split at h
    · have : d = c := by simpa using h
      subst this
      exact List.mem_of_getLast? hl
    · cases h

theorem hasNl_single (c : Char) (h : isSpace c = false) : hasNl [c] = false := by
  have : c ≠ nl := by intro e; rw [e] at h; exact absurd h (by decide)
  simpa [hasNl] using fun e : nl = c => this e.symm

/-- the line automaton passes a formula and is behind visible text afterwards -/
theorem lineRun_formula (T : PTables) (ph : Str) (p q : Nat) (s : Str)
    (hph : hasNl ph = false ∧ isBlank ph = false) (hs : ∀ c ∈ s, isSpace c = false)
    (σ : Option Bool) (tail : List LItem) (ht : tail ≠ []) :
    lineRun σ (((formulaOut T ph p q s).filter keepIn).map evalTok ++ tail) = lineRun none tail := by
  have hphne : ph ≠ [] := by
    intro e; rw [e] at hph; simp [isBlank] at hph
  have hk1 : keepIn (mkAction p) = true := rfl
  have hk2 : keepIn (mkFix .text q ph) = true := by
    cases ph with
    | nil => exact absurd rfl hphne
    | cons => rfl
  have hk3 : ∀ c, keepIn (mkFix .text q [c]) = true := fun _ => rfl
  have hk4 : keepIn (mkAction q) = true := rfl
  have hA2 : lineRun none (evalTok (mkAction q) :: tail) = lineRun none tail := by
    rw [lineRun_action (mkAction q) rfl none tail ht]; rfl
  unfold formulaOut
  cases hp : punctChar T s with
  | none =>
    simp only [List.append_nil, List.cons_append, List.nil_append, List.filter_cons, hk1, hk2, hk4,
      if_true, List.filter_nil, List.map_cons, List.map_nil]
    rw [lineRun_action (mkAction p) rfl σ _ (by simp),
      lineRun_txt (mkFix .text q ph) rfl hph.1 _ _ (by simp)]
    simp only [mkFix, hph.2, Bool.false_eq_true, if_false]
    exact hA2
  | some c =>
    have hc : hasNl [c] = false := hasNl_single c (hs c (punctChar_mem T s c hp))
    simp only [List.cons_append, List.nil_append, List.filter_cons, hk1, hk2, hk3, hk4,
      if_true, List.filter_nil, List.map_cons, List.map_nil]
    rw [lineRun_action (mkAction p) rfl σ _ (by simp),
      lineRun_txt (mkFix .text q ph) rfl hph.1 _ _ (by simp)]
    simp only [mkFix, hph.2, Bool.false_eq_true, if_false]
    rw [lineRun_txt { kind := .text, pos := q, txt := [c], fix := true } rfl hc _ _ (by simp)]
    simp only [ite_self]
    exact hA2

theorem lineRun_outP (T : PTables) (st : PState) :
    ∀ (ps : List Piece) (l : List Str) (σ : Option Bool) (tail : List LItem),
      PiecesOk T st ps → VisibleRepls l → l ≠ [] → tail ≠ [] → σ ≠ some true →
      ∃ σ', σ' ≠ some true ∧
        lineRun σ (((outP T l ps).filter keepIn).map evalTok ++ tail) = lineRun σ' tail := by
  intro ps
  induction ps with
  | nil =>
    intro l σ tail _ _ _ _ hσ
    exact ⟨σ, hσ, by simp [outP]⟩
  | cons p ps ih =>
    intro l σ tail hok hl hne ht hσ
    cases p with
    | tok t =>
      obtain ⟨hp, _, ⟨htne, hshape⟩, hrest⟩ := hok
      have hk : keepIn t = true := by
        cases hx : t.txt with
        | nil => exact absurd hx htne
        | cons => simp [keepIn, hx]
      simp only [outP, List.filter_cons, hk, if_true, List.map_cons, List.cons_append]
      have hne2 : ((outP T l ps).filter keepIn).map evalTok ++ tail ≠ [] := by simp [ht]
      rcases hshape with ⟨hkind, hnl⟩ | ⟨hkind, hbl⟩
      · rw [lineRun_txt t hkind hnl σ _ hne2]
        refine ih l _ tail hrest hl hne ht ?_
        split
        · exact hσ
        · simp
      · rw [lineRun_ws t hkind hbl σ _ hne2]
        have hσ' : (σ == some true) = false := by
          cases σ with
          | none => rfl
          | some a => cases a <;> simp at hσ ⊢
        simp only [hσ', Bool.false_eq_true, if_false]
        split
        · exact ih l _ tail hrest hl hne ht (by simp)
        · exact ih l _ tail hrest hl hne ht hσ
    | math d1 b d2 =>
      obtain ⟨_, _, hb, _, hrest⟩ := hok
      simp only [outP, List.filter_append, List.map_append, List.append_assoc]
      have hne2 : ((outP T (rotL l) ps).filter keepIn).map evalTok ++ tail ≠ [] := by simp [ht]
      have hmem : (rotL l).headD [] ∈ rotL l := by
        have := headD_of_ne_nil _ (rotL_ne_nil l hne)
        exact List.mem_of_mem_head? (by rw [this]; rfl)
      rw [lineRun_formula T _ d1.pos (firstPos (mathToks b)) (bodyTxt (mathToks b)) (hl.rotL _ hmem)
        (bodyTxt_nonspace T _ (mathToks_body T b hb)) σ _ hne2]
      exact ih (rotL l) none tail hrest hl.rotL (rotL_ne_nil l hne) ht (by simp)

/-- the blank-line removal only drops the (empty) Action tokens -/
theorem removeLines_outP (T : PTables) (st : PState) (ps : List Piece) (l : List Str)
    (hok : PiecesOk T st ps) (hl : VisibleRepls l) (hne : l ≠ []) :
    removeLines (outP T l ps) = some ((outP T l ps).filter keepOut) := by
  apply removeLines_safe_id
  apply lineRun_linesInit
  intro p
  obtain ⟨σ', h1, h2⟩ := lineRun_outP T st ps l (some false) [lastItem p] hok hl hne (by simp) (by simp)
  rw [h2, lineRun_lastItem]
  cases σ' with
  | none => rfl
  | some a => cases a <;> simp at h1 ⊢


/-! ### the documents -/

/-- a segment of the source: a run of text, or a simple inline formula `$body$` -/
inductive Seg where
  | txt (s : Str)
  | math (body : Str)
deriving Repr, DecidableEq

def Seg.render : Seg → Str
  | .txt s => s
  | .math body => '$' :: (body ++ ['$'])

/-- the source text -/
def render : List Seg → Str
  | [] => []
  | s :: rest => s.render ++ render rest

/-- admissible body character (the part that depends on the character alone): no white space, none
    of `% # \ $ { }`, and a one-character token with this text is neither ignored
    (`math_ignore`) nor taken as maths space (`math_space`, e.g. `~`) by the maths parser -/
def mathPlainChar (T : PTables) (c : Char) : Bool :=
  !isSpace c && !structuralChar c && !T.mathIgnore.contains [c] && !T.mathSpace.contains [c]

/-- the body character `c`, followed by `cs` (the whole rest of the source), is admissible: in
    addition no special sequence of the tables matches at `c` (e.g. `--`, `_`, `^`, `&`, `~`) -/
def mathAt (T : PTables) (c : Char) (cs : Str) : Bool :=
  mathPlainChar T c && (matchSpecial T.toTables (c :: cs)).isNone

/-- the body `s`, followed by `R`: every character is admissible in front of the rest of the source,
    or it is white space and the run of white space that starts there has at most one line break
    (two line breaks make a paragraph token, which ends the formula with an error) -/
def bodyOk (T : PTables) : Str → Str → Bool
  | [], _ => true
  | c :: cs, R =>
    (if isSpace c then decide (countNl ((c :: (cs ++ R)).takeWhile isSpace) < 2)
     else mathAt T c (cs ++ R)) && bodyOk T cs R

/-- a `$` followed by `rest` is scanned as the one-character token `$`: the special sequence
    that matches here, if any, is `$` itself (not `$$`) -/
def dollarAt (T : PTables) (rest : Str) : Bool :=
  match matchSpecial T.toTables ('$' :: rest) with
  | none => true
  | some t => t == ['$']

/-- the formula `$body$`, followed by `R`: the body is admissible and not only white space, both
    `$` are scanned as `$` -/
def mathOk (T : PTables) (body R : Str) : Bool :=
  body.any (fun c => !isSpace c) && dollarAt T (body ++ '$' :: R) && bodyOk T body ('$' :: R) &&
  dollarAt T R

/-- well-formed documents: every segment is fine in front of the rendering of the following ones
    (`textOk` of Proofs/PlainUnknown.lean for the text) -/
def segsOk (T : PTables) (st : PState) : List Seg → Bool
  | [] => true
  | .txt s :: rest => textOk T st s (render rest) && segsOk T st rest
  | .math body :: rest => mathOk T body (render rest) && segsOk T st rest

/-- the source as a list of text characters (with their positions) and formulas (with the position
    of the opening `$`) -/
inductive Item where
  | chr (c : Char) (p : Nat)
  | math (p : Nat) (body : Str)

def chrItems : Nat → Str → List Item
  | _, [] => []
  | p, c :: cs => .chr c p :: chrItems (p + 1) cs

def itemsOf : Nat → List Seg → List Item
  | _, [] => []
  | p, .txt s :: rest => chrItems p s ++ itemsOf (p + s.length) rest
  | p, .math body :: rest => .math p body :: itemsOf (p + (body.length + 2)) rest

/-- the reference output (text, 0-based positions) for a list of items, `l` being the stored
    placeholder collection: a text character is copied with its position; a formula is replaced by
    the head of the once more rotated collection and its closing punctuation mark, every character
    of which carries the position of the first character of the body that is no white space -/
def refItems (T : PTables) : List Str → List Item → Str × List Nat
  | _, [] => ([], [])
  | l, .chr c p :: rest => (c :: (refItems T l rest).1, p :: (refItems T l rest).2)
  | l, .math p body :: rest =>
    let t := (rotL l).headD [] ++ (punctChar T (body.filter (fun c => !isSpace c))).toList
    (t ++ (refItems T (rotL l) rest).1,
     List.replicate t.length (p + 1 + (body.takeWhile isSpace).length) ++ (refItems T (rotL l) rest).2)

/-- number of formulas -/
def nFormulas : List Item → Nat
  | [] => 0
  | .chr .. :: rest => nFormulas rest
  | .math .. :: rest => nFormulas rest + 1

theorem nFormulas_chrItems (items : List Item) : ∀ (s : Str) (p : Nat),
    nFormulas (chrItems p s ++ items) = nFormulas items
  | [], _ => rfl
  | c :: cs, p => by simp only [chrItems, List.cons_append, nFormulas, nFormulas_chrItems items cs (p + 1)]

theorem refItems_chrItems (T : PTables) (l : List Str) (items : List Item) :
    ∀ (s : Str) (p : Nat), refItems T l (chrItems p s ++ items)
      = (s ++ (refItems T l items).1, List.range' p s.length ++ (refItems T l items).2)
  | [], _ => rfl
  | c :: cs, p => by
    simp only [chrItems, List.cons_append, refItems, refItems_chrItems T l items cs (p + 1),
      List.length_cons, List.range'_succ]

theorem chrItems_append : ∀ (p : Nat) (a b : Str),
    chrItems p (a ++ b) = chrItems p a ++ chrItems (p + a.length) b
  | _, [], _ => rfl
  | p, c :: cs, b => by
    simp only [List.cons_append, chrItems, chrItems_append (p + 1) cs b, List.length_cons]
    rw [show p + 1 + cs.length = p + (cs.length + 1) by omega]

/-- the same on the source text (which starts at position `p`) -/
inductive OkSrc (T : PTables) (st : PState) : Nat → Str → List Item → Prop
  | nil (p : Nat) : OkSrc T st p [] []
  | chr (p : Nat) (c : Char) (cs : Str) (items : List Item) :
      okAt T st c cs = true → OkSrc T st (p + 1) cs items →
      OkSrc T st p (c :: cs) (.chr c p :: items)
  | math (p : Nat) (body R : Str) (items : List Item) :
      mathOk T body R = true → OkSrc T st (p + (body.length + 2)) R items →
      OkSrc T st p ('$' :: (body ++ '$' :: R)) (.math p body :: items)

theorem OkSrc_text (T : PTables) (st : PState) (R : Str) (items : List Item) :
    ∀ (s : Str) (p : Nat), OkSrc T st (p + s.length) R items → textOk T st s R = true →
      OkSrc T st p (s ++ R) (chrItems p s ++ items)
  | [], _, hR, _ => hR
  | c :: cs, p, hR, h => by
    simp only [textOk, Bool.and_eq_true] at h
    have hR' : OkSrc T st (p + 1 + cs.length) R items := by
      have e : p + 1 + cs.length = p + (c :: cs).length := by simp; omega
      rw [e]; exact hR
    exact OkSrc.chr p c (cs ++ R) _ h.1 (OkSrc_text T st R items cs (p + 1) hR' h.2)

theorem OkSrc_of_segsOk (T : PTables) (st : PState) :
    ∀ (segs : List Seg) (p : Nat), segsOk T st segs = true →
      OkSrc T st p (render segs) (itemsOf p segs)
  | [], p, _ => .nil p
  | .txt s :: rest, p, h => by
    simp only [segsOk, Bool.and_eq_true] at h
    exact OkSrc_text T st _ _ s p (OkSrc_of_segsOk T st rest _ h.2) h.1
  | .math body :: rest, p, h => by
    simp only [segsOk, Bool.and_eq_true] at h
    have := OkSrc.math p body (render rest) _ h.1 (OkSrc_of_segsOk T st rest _ h.2)
    simpa [render, Seg.render, itemsOf] using this

/-- the conditions depend on the state only through the language stack -/
theorem OkSrc.congr {T : PTables} {st st' : PState} (hl : st'.langStack = st.langStack)
    {p : Nat} {s : Str} {items : List Item}
    (h : OkSrc T st p s items) : OkSrc T st' p s items := by
  induction h with
  | nil p => exact .nil p
  | chr p c cs items hat _ ih =>
    refine .chr p c cs items ?_ ih
    rw [← hat]
    simp only [okAt, activeChars_congr T st st' hl, shortKeys_congr T st st' hl]
  | math p body R items hm _ ih => exact .math p body R items hm ih

/-- white space in front can be dropped -/
theorem OkSrc_drop_space (T : PTables) (st : PState) :
    ∀ (k : Nat) (p : Nat) (s : Str) (items : List Item), k ≤ s.length → OkSrc T st p s items →
      (∀ x ∈ s.take k, isSpace x = true) →
      ∃ items', items = chrItems p (s.take k) ++ items' ∧ OkSrc T st (p + k) (s.drop k) items'
  | 0, _, _, items, _, h, _ => ⟨items, rfl, h⟩
  | k + 1, _, [], _, hk, _, _ => by simp at hk
  | k + 1, p, c :: cs, _, hk, h, hsp => by
    have hc : isSpace c = true := hsp c (by simp)
    cases h with
    | chr _ _ _ items0 _ h2 =>
      obtain ⟨items', e, h3⟩ := OkSrc_drop_space T st k (p + 1) cs items0 (by simpa using hk) h2
        (fun x hx => hsp x (by simp [hx]))
      refine ⟨items', by simp [chrItems, e], ?_⟩
      have e : p + (k + 1) = p + 1 + k := by omega
      rw [e]; exact h3
    | math _ body R _ _ _ => exact absurd hc (by decide)


/-! ### the scanner -/

theorem nextToken_dollar (T : PTables) (src : Str) (pos : Nat) (rest : Str)
    (h : dollarAt T rest = true) :
    ∃ k, (k = Kind.special ∨ k = Kind.text) ∧
      nextToken T.toTables src pos ('$' :: rest)
        = { tok := { kind := k, pos := pos, txt := ['$'] }, len := 1 } := by
  unfold dollarAt at h
  unfold nextToken
  simp only [show isSpace '$' = false by decide, show ('$' == '%') = false by decide,
    show ('$' == '#') = false by decide, show ('$' == '\\') = false by decide,
    Bool.false_eq_true, if_false]
  cases hm : matchSpecial T.toTables ('$' :: rest) with
  | none => exact ⟨.text, Or.inr rfl, rfl⟩
  | some t =>
    rw [hm] at h
    have : t = ['$'] := by simpa using h
    subst this
    exact ⟨.special, Or.inl rfl, rfl⟩

structure MathAtFacts (T : PTables) (c : Char) (cs : Str) : Prop where
  nsp : isSpace c = false
  nst : structuralChar c = false
  nig : T.mathIgnore.contains [c] = false
  nms : T.mathSpace.contains [c] = false
  nsq : matchSpecial T.toTables (c :: cs) = none

theorem mathAtFacts {T : PTables} {c : Char} {cs : Str} (h : mathAt T c cs = true) :
    MathAtFacts T c cs := by
  simp only [mathAt, mathPlainChar, Bool.and_eq_true, Bool.not_eq_true',
    Option.isNone_iff_eq_none] at h
  obtain ⟨⟨⟨⟨h1, h2⟩, h3⟩, h4⟩, h5⟩ := h
  exact ⟨h1, h2, h3, h4, h5⟩

/-- the text token of a body character -/
def bodyTokAt (pos : Nat) (c : Char) : Tok := { kind := .text, pos := pos, txt := [c] }

theorem nextToken_body (T : PTables) (src : Str) (pos : Nat) (c : Char) (cs : Str)
    (h : MathAtFacts T c cs) :
    nextToken T.toTables src pos (c :: cs) = { tok := bodyTokAt pos c, len := 1 } := by
  have hst := h.nst
  simp only [structuralChar, Bool.or_eq_false_iff, beq_eq_false_iff_ne] at hst
  obtain ⟨⟨⟨⟨⟨h1, h2⟩, h3⟩, _⟩, _⟩, _⟩ := hst
  simp [nextToken, h.nsp, h1, h2, h3, h.nsq, bodyTokAt]

theorem bodyTok_bodyTokAt (T : PTables) (pos : Nat) (c : Char) (cs : Str) (h : MathAtFacts T c cs) :
    BodyTok T (bodyTokAt pos c) := by
  have hst := h.nst
  simp only [structuralChar, Bool.or_eq_false_iff, beq_eq_false_iff_ne] at hst
  obtain ⟨⟨⟨_, h4⟩, _⟩, _⟩ := hst
  exact ⟨rfl, ⟨c, rfl, h4, h.nsp⟩, h.nig, h.nms⟩

theorem bodyOk_drop (T : PTables) (R : Str) : ∀ (k : Nat) (s : Str), bodyOk T s R = true →
    bodyOk T (s.drop k) R = true
  | 0, _, h => by simpa using h
  | _ + 1, [], h => by simpa using h
  | k + 1, c :: cs, h => by
    simp only [bodyOk, Bool.and_eq_true] at h
    simpa using bodyOk_drop T R k cs h.2

theorem takeWhile_dropWhile_nil {α} (p : α → Bool) : ∀ l : List α, (l.dropWhile p).takeWhile p = []
  | [] => rfl
  | a :: l => by
    by_cases h : p a = true
    · simp [h, takeWhile_dropWhile_nil p l]
    · simp [h]

theorem takeWhile_append_stop' {α} (p : α → Bool) (x : α) (hx : p x = false) :
    ∀ (a b : List α), (a ++ x :: b).takeWhile p = a.takeWhile p
  | [], b => by simp [hx]
  | y :: a, b => by
    by_cases h : p y = true
    · simp [h, takeWhile_append_stop' p x hx a b]
    · simp [h]

theorem filter_nonspace_of_space (w s : Str) (hw : ∀ c ∈ w, isSpace c = true) :
    (w ++ s).filter (fun c => !isSpace c) = s.filter (fun c => !isSpace c) := by
  rw [List.filter_append]
  have : w.filter (fun c => !isSpace c) = [] := by
    rw [List.filter_eq_nil_iff]
    intro a ha
    simp [hw a ha]
  rw [this, List.nil_append]

/-- what the scanner loop yields on a formula body that starts at `pos` -/
structure BodyRun (T : PTables) (pos : Nat) (s : Str) (steps : List ScanStep) : Prop where
  ok : ∀ x ∈ steps, x.diag = none ∧ x.extra = [] ∧ BodyItem T x.tok
  len : steps.length ≤ s.length
  txt : bodyTxt (mathToks (steps.map (·.tok))) = s.filter (fun c => !isSpace c)
  first : s.any (fun c => !isSpace c) = true →
    firstPos (mathToks (steps.map (·.tok))) = pos + (s.takeWhile isSpace).length

theorem BodyRun.ne {T : PTables} {pos : Nat} {s : Str} {steps : List ScanStep}
    (h : BodyRun T pos s steps) (hs : s.any (fun c => !isSpace c) = true) :
    mathToks (steps.map (·.tok)) ≠ [] := by
  intro e
  have := h.txt
  rw [e] at this
  obtain ⟨c, hc, hcs⟩ := List.any_eq_true.mp hs
  have hm : c ∈ s.filter (fun c => !isSpace c) := List.mem_filter.mpr ⟨hc, hcs⟩
  rw [← this] at hm
  simp [bodyTxt] at hm

/-- the scanner loop runs through a formula body: one text token per character that is no white
    space, one space token per run of white space; every token costs one unit of fuel -/
theorem scanSteps_bodyrun (T : PTables) (src : Str) (R : Str) :
    ∀ (n : Nat) (s : Str) (pos fuel : Nat), s.length ≤ n → s.length ≤ fuel →
      bodyOk T s ('$' :: R) = true →
      ∃ steps, BodyRun T pos s steps ∧
        scanSteps T.toTables src fuel pos (s ++ '$' :: R)
          = (steps ++ (scanSteps T.toTables src (fuel - steps.length) (pos + s.length) ('$' :: R)).1,
             (scanSteps T.toTables src (fuel - steps.length) (pos + s.length) ('$' :: R)).2) := by
  intro n
  induction n with
  | zero =>
    intro s pos fuel hn _ _
    have : s = [] := by cases s <;> simp_all
    subst this
    exact ⟨[], ⟨by simp, by simp, rfl, by simp⟩, by simp⟩
  | succ n ih =>
    intro s pos fuel hn hf hok
    cases s with
    | nil => exact ⟨[], ⟨by simp, by simp, rfl, by simp⟩, by simp⟩
    | cons c cs =>
      obtain ⟨f, rfl⟩ : ∃ f, fuel = f + 1 := ⟨fuel - 1, by simp at hf; omega⟩
      have hok0 := hok
      simp only [bodyOk, Bool.and_eq_true] at hok
      by_cases hsp : isSpace c = true
      · -- a run of white space
        simp only [hsp, if_true, decide_eq_true_eq] at hok
        have hdn : isSpace '$' = false := by decide
        have hwe : (c :: (cs ++ '$' :: R)).takeWhile isSpace = (c :: cs).takeWhile isSpace :=
          takeWhile_append_stop' isSpace '$' hdn (c :: cs) R
        generalize hw : (c :: cs).takeWhile isSpace = w at hwe
        have hw' : w = c :: cs.takeWhile isSpace := by rw [← hw]; simp [hsp]
        have hall : ∀ d ∈ w, isSpace d = true := by
          intro d hd; rw [← hw] at hd; exact mem_takeWhile_imp _ _ _ hd
        have hsplit : w ++ (c :: cs).dropWhile isSpace = c :: cs := by
          rw [← hw]; exact List.takeWhile_append_dropWhile
        generalize hs' : (c :: cs).dropWhile isSpace = s' at hsplit
        have hlen : w.length + s'.length = cs.length + 1 := by
          rw [← List.length_append, hsplit]; rfl
        simp only [List.length_cons] at hn hf
        have hwpos : 1 ≤ w.length := by rw [hw']; simp
        have hnt : nextToken T.toTables src pos (c :: (cs ++ '$' :: R))
            = { tok := { kind := .space, pos := pos, txt := w }, len := w.length } := by
          have h1 : nextToken T.toTables src pos (c :: (cs ++ '$' :: R))
              = scanSpace pos (c :: (cs ++ '$' :: R)) := by simp [nextToken, hsp]
          rw [h1]
          simp only [scanSpace, hwe]
          rw [hwe] at hok
          simp [hok.1]
        have hdrop : (c :: (cs ++ '$' :: R)).drop w.length = s' ++ '$' :: R := by
          have : c :: (cs ++ '$' :: R) = w ++ (s' ++ '$' :: R) := by
            rw [← List.append_assoc, hsplit]; rfl
          rw [this, List.drop_left]
        have hoks' : bodyOk T s' ('$' :: R) = true := by
          have := bodyOk_drop T ('$' :: R) w.length (c :: cs) hok0
          rw [← hsplit, List.drop_left] at this
          exact this
        obtain ⟨steps', B, hsc⟩ := ih s' (pos + w.length) f (by omega) (by omega) hoks'
        refine ⟨{ tok := { kind := .space, pos := pos, txt := w }, len := w.length } :: steps', ?_, ?_⟩
        · refine ⟨?_, ?_, ?_, ?_⟩
          · intro x hx
            rcases List.mem_cons.mp hx with rfl | hx
            · exact ⟨rfl, rfl, Or.inr rfl⟩
            · exact B.ok x hx
          · have := B.len
            simp only [List.length_cons] at ⊢
            omega
          · rw [List.map_cons, mathToks_cons_space _ _ rfl, B.txt, ← hsplit,
              filter_nonspace_of_space w s' hall]
          · intro hany
            have hany' : s'.any (fun c => !isSpace c) = true := by
              rw [← hsplit, List.any_append] at hany
              have : w.any (fun c => !isSpace c) = false := by
                rw [List.any_eq_false]
                intro d hd
                simp [hall d hd]
              simpa [this] using hany
            rw [List.map_cons, mathToks_cons_space _ _ rfl, B.first hany', hw, ← hs',
              takeWhile_dropWhile_nil]
            simp
        · show scanSteps T.toTables src (f + 1) pos (c :: (cs ++ '$' :: R)) = _
          simp only [scanSteps, hnt]
          rw [if_neg (by rw [hw']; simp), hdrop, hsc]
          simp only [List.cons_append, List.length_cons]
          have e1 : pos + w.length + s'.length = pos + (cs.length + 1) := by omega
          have e2 : f + 1 - (steps'.length + 1) = f - steps'.length := by omega
          rw [e1, e2]
      · -- a body character
        have hsp' : isSpace c = false := by simpa using hsp
        simp only [hsp', Bool.false_eq_true, if_false] at hok
        have facts := mathAtFacts hok.1
        have hnt := nextToken_body T src pos c (cs ++ '$' :: R) facts
        obtain ⟨steps', B, hsc⟩ := ih cs (pos + 1) f (by simp at hn; omega) (by simp at hf; omega) hok.2
        have hbt := bodyTok_bodyTokAt T pos c _ facts
        refine ⟨{ tok := bodyTokAt pos c, len := 1 } :: steps', ?_, ?_⟩
        · refine ⟨?_, ?_, ?_, ?_⟩
          · intro x hx
            rcases List.mem_cons.mp hx with rfl | hx
            · exact ⟨rfl, rfl, Or.inl hbt⟩
            · exact B.ok x hx
          · have := B.len
            simp only [List.length_cons]
            omega
          · rw [List.map_cons, mathToks_cons_body T _ _ hbt]
            have := B.txt
            simp only [bodyTxt] at this ⊢
            simp [bodyTokAt, this, hsp']
          · intro _
            rw [List.map_cons, mathToks_cons_body T _ _ hbt]
            simp [firstPos, bodyTokAt, hsp']
        · show scanSteps T.toTables src (f + 1) pos (c :: (cs ++ '$' :: R)) = _
          simp only [scanSteps, hnt]
          rw [if_neg (by simp)]
          simp only [List.drop_succ_cons, List.drop_zero]
          rw [hsc]
          simp only [List.cons_append, List.length_cons]
          have e1 : pos + 1 + cs.length = pos + (cs.length + 1) := by omega
          have e2 : f + 1 - (steps'.length + 1) = f - steps'.length := by omega
          rw [e1, e2]

theorem getTxtPos_formulaOut (T : PTables) (ph : Str) (p q : Nat) (s : Str) (rest : List Tok) :
    getTxtPos (formulaOut T ph p q s ++ rest)
      = ((ph ++ (punctChar T s).toList) ++ (getTxtPos rest).1,
         List.replicate (ph ++ (punctChar T s).toList).length q ++ (getTxtPos rest).2) := by
  unfold formulaOut
  cases punctChar T s <;>
    simp [getTxtPos, tokPositions, mkAction, mkFix, List.replicate_succ', List.append_assoc]

/-- what the scanner loop yields on a well-formed source -/
structure ScanFacts (T : PTables) (st : PState) (rest : Str) (items : List Item)
    (steps : List ScanStep) : Prop where
  ok : ∀ s ∈ steps, s.diag = none ∧ s.extra = []
  pieces : ∃ ps, steps.map (·.tok) = flat ps ∧ PiecesOk T st ps ∧
    (∀ l, getTxtPos (outP T l ps) = refItems T l items) ∧ nMath ps = nFormulas items
  first : ∀ s ss, steps = s :: ss → s.tok.txt = firstTokTxtM rest
  len : steps.length ≤ rest.length

theorem scanSteps_math (T : PTables) (st : PState) (src : Str) :
    ∀ (n fuel pos : Nat) (rest : Str) (items : List Item),
    rest.length ≤ n → rest.length ≤ fuel → OkSrc T st pos rest items →
    (scanSteps T.toTables src fuel pos rest).2 = true ∧
    ScanFacts T st rest items (scanSteps T.toTables src fuel pos rest).1 := by
  intro n
  induction n with
  | zero =>
    intro fuel pos rest items hn _ hok
    cases rest with
    | nil =>
      cases hok
      exact ⟨by simp [scanSteps], by simp [scanSteps], ⟨[], by simp [scanSteps, flat], trivial,
        fun l => rfl, rfl⟩, by simp [scanSteps], by simp [scanSteps]⟩
    | cons c cs => simp at hn
  | succ n ih =>
    intro fuel pos rest items hn hf hok
    cases rest with
    | nil =>
      cases hok
      exact ⟨by simp [scanSteps], by simp [scanSteps], ⟨[], by simp [scanSteps, flat], trivial,
        fun l => rfl, rfl⟩, by simp [scanSteps], by simp [scanSteps]⟩
    | cons c cs =>
      obtain ⟨fuel, rfl⟩ : ∃ f, fuel = f + 1 := ⟨fuel - 1, by simp at hf; omega⟩
      have hok0 := hok
      cases hok with
      | chr _ _ _ items' hat hsub0 =>
        have hsnd := okAt_snd hat
        obtain ⟨hp, hone⟩ := nextToken_text T src pos c cs hsnd
        generalize hs : nextToken T.toTables src pos (c :: cs) = s at hp hone
        have h1 := hp.len_pos
        have h2 := hp.len_le
        have hsub : ∃ items1, Item.chr c pos :: items' = chrItems pos ((c :: cs).take s.len) ++ items1 ∧
            OkSrc T st (pos + s.len) ((c :: cs).drop s.len) items1 := by
          by_cases hsp : isSpace c = true
          · refine OkSrc_drop_space T st s.len pos (c :: cs) _ h2 hok0 ?_
            intro x hx
            rw [← hp.txt, hp.first] at hx
            simp only [firstTokTxt, hsp, if_true] at hx
            exact mem_takeWhile_imp _ _ _ hx
          · have := (hone (by simpa using hsp)).1
            rw [this]
            exact ⟨items', rfl, hsub0⟩
        obtain ⟨items1, hitems1, hsub⟩ := hsub
        simp only [scanSteps, hs]
        rw [if_neg (by simp; omega)]
        have hl : ((c :: cs).drop s.len).length ≤ fuel := by
          simp only [List.length_drop]; simp only [List.length_cons] at hf h2 ⊢; omega
        have hl' : ((c :: cs).drop s.len).length ≤ n := by
          simp only [List.length_drop]; simp only [List.length_cons] at hn h2 ⊢; omega
        obtain ⟨i1, I⟩ := ih fuel (pos + s.len) ((c :: cs).drop s.len) items1 hl' hl hsub
        obtain ⟨ps', hflat, hpok, hout, hnm⟩ := I.pieces
        refine ⟨i1, ?_, ?_, ?_, ?_⟩
        · intro x hx
          rcases List.mem_cons.mp hx with rfl | hx
          · exact ⟨hp.diag, hp.extra⟩
          · exact I.ok x hx
        · refine ⟨.tok s.tok :: ps', by simp [flat, Piece.toks, hflat], ⟨hp.tok, ?_, ?_, hpok⟩, ?_,
            by rw [hitems1, nFormulas_chrItems]; exact hnm⟩
          · -- the short-macro branch
            rw [← hflat]
            have hact := hat
            simp only [okAt, Bool.and_eq_true, Bool.or_eq_true, Bool.not_eq_true'] at hact
            rcases hact.1 with hna | ⟨hns, hk⟩
            · left
              have : s.tok.txt = c :: (cs.take (s.len - 1)) := by
                rw [hp.txt]
                obtain ⟨k, hk⟩ : ∃ k, s.len = k + 1 := ⟨s.len - 1, by omega⟩
                rw [hk]; simp
              rw [this]
              exact not_active_cons T st c _ hna
            · right
              have hlen := (hone hns).1
              have htxt : s.tok.txt = [c] := by rw [hp.txt, hlen]; rfl
              have i4 := I.first
              rw [hlen] at i4 ⊢
              simp only [List.drop_succ_cons, List.drop_zero] at i4 ⊢
              cases hr : (scanSteps T.toTables src fuel (pos + 1) cs).1 with
              | nil => rfl
              | cons s2 ss =>
                simp only [List.map_cons]
                apply expandShortMacro_none
                rw [htxt, i4 s2 ss hr]
                rcases hk with hk | hk
                · cases cs with
                  | nil => cases fuel <;> simp [scanSteps] at hr
                  | cons => simp at hk
                · simpa using hk
          · -- the shape of the token
            refine ⟨?_, ?_⟩
            · rw [hp.txt]
              intro h0
              have := congrArg List.length h0
              simp only [List.length_take, List.length_nil] at this
              omega
            · by_cases hsp : isSpace c = true
              · right
                refine ⟨?_, ?_⟩
                · have hk := hp.tok.kind
                  have hs' : s = scanSpace pos (c :: cs) := by
                    rw [← hs]; simp [nextToken, hsp]
                  rw [hs']
                  simp only [scanSpace]; split
                  · exact Or.inl rfl
                  · exact Or.inr rfl
                · rw [hp.first]
                  simp only [firstTokTxt, hsp, if_true, isBlank, List.all_eq_true]
                  exact fun x hx => mem_takeWhile_imp _ _ _ hx
              · left
                have hsp' : isSpace c = false := by simpa using hsp
                have := hone hsp'
                refine ⟨this.2, ?_⟩
                rw [hp.txt, this.1]
                exact hasNl_single c hsp'
          · intro l
            rw [hitems1, refItems_chrItems]
            simp only [outP]
            rw [getTxtPos_cons_plain _ _ hp.fix, hout l, hp.pos, hp.txt]
        · intro s' ss' he
          simp only [List.cons.injEq] at he
          rw [← he.1, hp.first]
          refine (firstTokTxtM_of_text c cs ?_).symm
          rcases hsnd with h | h
          · exact Or.inl h
          · exact Or.inr h.1
        · have := I.len
          simp only [List.length_cons, List.length_drop] at this h2 ⊢
          omega
      | math _ body R items' hm hsub =>
        simp only [mathOk, Bool.and_eq_true] at hm
        obtain ⟨⟨⟨hbne, hd1⟩, hbody⟩, hd2⟩ := hm
        obtain ⟨k1, hk1, hn1⟩ := nextToken_dollar T src pos (body ++ '$' :: R) hd1
        obtain ⟨k2, hk2, hn2⟩ := nextToken_dollar T src (pos + 1 + body.length) R hd2
        simp only [List.length_cons, List.length_append] at hf hn
        obtain ⟨bsteps, B, hrun⟩ := scanSteps_bodyrun T src R body.length body (pos + 1) fuel
          (Nat.le_refl _) (by omega) hbody
        have hBl := B.len
        obtain ⟨g, hg⟩ : ∃ g, fuel - bsteps.length = g + 1 := ⟨fuel - bsteps.length - 1, by omega⟩
        have hRn : R.length ≤ n := by omega
        have hRg : R.length ≤ g := by omega
        obtain ⟨i1, I⟩ := ih g (pos + (body.length + 2)) R items' hRn hRg hsub
        obtain ⟨ps', hflat, hpok, hout, hnm⟩ := I.pieces
        have hpos2 : pos + 1 + body.length + 1 = pos + (body.length + 2) := by omega
        have hsteps : scanSteps T.toTables src (fuel + 1) pos ('$' :: (body ++ '$' :: R))
            = ({ tok := { kind := k1, pos := pos, txt := ['$'] }, len := 1 } ::
                (bsteps ++
                  { tok := { kind := k2, pos := pos + 1 + body.length, txt := ['$'] }, len := 1 } ::
                  (scanSteps T.toTables src g (pos + (body.length + 2)) R).1),
               (scanSteps T.toTables src g (pos + (body.length + 2)) R).2) := by
          simp only [scanSteps, hn1]
          rw [if_neg (by simp)]
          simp only [List.drop_succ_cons, List.drop_zero]
          rw [hrun, hg]
          simp only [scanSteps, hn2]
          rw [if_neg (by simp)]
          simp only [List.drop_succ_cons, List.drop_zero, hpos2]
        rw [hsteps]
        refine ⟨i1, ?_, ?_, ?_, ?_⟩
        · intro x hx
          simp only [List.mem_cons, List.mem_append] at hx
          rcases hx with rfl | hx | rfl | hx
          · exact ⟨rfl, rfl⟩
          · exact ⟨(B.ok x hx).1, (B.ok x hx).2.1⟩
          · exact ⟨rfl, rfl⟩
          · exact I.ok x hx
        · refine ⟨.math { kind := k1, pos := pos, txt := ['$'] } (bsteps.map (·.tok))
              { kind := k2, pos := pos + 1 + body.length, txt := ['$'] } :: ps', ?_, ?_, ?_,
              by simp only [nMath, nFormulas, hnm]⟩
          · simp [flat, Piece.toks, hflat]
          · refine ⟨⟨hk1, rfl⟩, B.ne hbne, ?_, ⟨hk2, rfl⟩, hpok⟩
            intro t ht
            obtain ⟨x, hx, rfl⟩ := List.mem_map.mp ht
            exact (B.ok x hx).2.2
          · intro l
            simp only [outP, refItems]
            rw [getTxtPos_formulaOut, hout (rotL l), B.txt, B.first hbne]
        · intro s' ss' he
          simp only [List.cons.injEq] at he
          rw [← he.1]
          rfl
        · have := I.len
          simp only [List.length_cons, List.length_append] at this ⊢
          omega

theorem PiecesOk.notComment {T : PTables} {st : PState} : ∀ {ps : List Piece}, PiecesOk T st ps →
    ∀ t ∈ flat ps, t.kind ≠ .comment
  | [], _, _, h => by simp [flat] at h
  | .tok t :: rest, hok, x, hx => by
    simp only [flat, Piece.toks, List.singleton_append, List.mem_cons] at hx
    rcases hx with rfl | hx
    · exact hok.1.notComment
    · exact PiecesOk.notComment hok.2.2.2 x hx
  | .math d1 b d2 :: rest, hok, x, hx => by
    obtain ⟨h1, _, hb, h2, hrest⟩ := hok
    simp only [flat, Piece.toks, List.cons_append, List.append_assoc, List.mem_cons,
      List.mem_append, List.nil_append] at hx
    rcases hx with rfl | hx | rfl | hx
    · rcases h1.kind with k | k <;> simp [k]
    · rcases hb x hx with k | k
      · rw [k.kind]; simp
      · rw [k]; simp
    · rcases h2.kind with k | k <;> simp [k]
    · exact PiecesOk.notComment hrest x hx

/-- `scan` on a well-formed source: no diagnostics; the token buffer consists of plain tokens and
    simple formulas; what the expander loop emits for it spells the reference output; at most one
    token per character -/
theorem scan_math (T : PTables) (st : PState) (src : Str) (items : List Item)
    (h : OkSrc T st 0 src items) :
    (scan T.toTables src).diags = [] ∧
    ∃ ps, (scan T.toTables src).toks = flat ps ∧ PiecesOk T st ps ∧
      (∀ l, getTxtPos (outP T l ps) = refItems T l items) ∧ nMath ps = nFormulas items ∧
      (flat ps).length ≤ src.length := by
  obtain ⟨_, F⟩ := scanSteps_math T st src src.length src.length 0 src items (Nat.le_refl _)
    (Nat.le_refl _) h
  have he := flatten_tok_extra (scanSteps T.toTables src src.length 0 src).1 (fun s hs => (F.ok s hs).2)
  have hd := flatten_diag_nil (scanSteps T.toTables src src.length 0 src).1 (fun s hs => (F.ok s hs).1)
  obtain ⟨ps, h1, h2, h3, h4⟩ := F.pieces
  simp only [scan]
  rw [he, hd]
  refine ⟨rfl, ps, h1, h2, h3, h4, ?_⟩
  rw [← h1]
  simpa using F.len

/-! ### `parserWork`, `parse`, `tex2txt` -/

/-- **C10 on `parserWork`.**  On a well-formed source `parserWork` succeeds; text and positions of
    the result tokens are the reference output for the stored placeholder collection; the state
    changes only in the rotation records, and afterwards the record of the current language holds
    the collection rotated once per formula. -/
theorem parserWork_math (T : PTables) (st : PState) (src : Str) (fuel : Nat) (items : List Item)
    (rot : Rot) (ls : LangSettings)
    (hf : src.length + 2 ≤ fuel) (h : OkSrc T st 0 src items)
    (hrot : rotOf st (curSettings st) = some rot) (hne : rot.inl ≠ []) (hvis : VisibleRepls rot.inl)
    (hls : settingsOf T (curSettings st) = some ls) :
    ∃ toks rots', parserWork T fuel src st = .ok (toks, { st with rots := rots' }) ∧
      getTxtPos toks = refItems T rot.inl items ∧
      rotOf { st with rots := rots' } (curSettings st)
        = some { rot with inl := rotN (nFormulas items) rot.inl } := by
  obtain ⟨f, rfl⟩ : ∃ f, fuel = f + 1 := ⟨fuel - 1, by omega⟩
  obtain ⟨hd, ps, hflat, hpok, hout, hnm, hlen⟩ := scan_math T st src items h
  have hpok' : PiecesOk T { st with latex := src, nest := st.nest + 1 } ps :=
    PiecesOk.congr (st := st) (st' := { st with latex := src, nest := st.nest + 1 }) rfl hpok
  obtain ⟨st', h1, h2, h3⟩ := seq_math T none ls ps f [] { st with latex := src, nest := st.nest + 1 }
    rot (by omega) hpok' hrot hne hls
  rw [List.nil_append, removeLines_outP T _ ps rot.inl hpok' hvis hne] at h1
  simp only [] at h1
  refine ⟨(outP T rot.inl ps).filter keepOut, st'.rots, ?_, ?_, ?_⟩
  · rw [parserWork.eq_2]
    refine (M.bind_ok _ _ _ _ _ (rfl : M.get st = _)).trans ?_
    refine (M.bind_ok _ _ _ _ _ (rfl : M.modify _ _ = _)).trans ?_
    refine (M.bind_ok _ _ _ _ _ (rfl : M.modify _ _ = _)).trans ?_
    refine (M.bind_ok _ _ _ _ _ (rfl : M.get _ = _)).trans ?_
    simp only [hd, List.append_nil]
    rw [skipPass_nocomment _ _ _ (fun t ht' => hpok.notComment t (by rw [← hflat]; exact ht'))]
    simp only []
    refine (M.bind_ok _ _ _ _ _ (rfl : (pure _ : M (List Tok)) _ = _)).trans ?_
    rw [hflat]
    refine (M.bind_ok _ _ _ _ _ h1).trans ?_
    refine (M.bind_ok _ _ _ _ _ (rfl : M.modify _ _ = _)).trans ?_
    show Outcome.ok _ = _
    rw [h2]
    simp only [Nat.add_sub_cancel]
  · rw [getTxtPos_filter_keepOut, hout]
  · rw [← hnm, ← h3, h2]
    rfl

theorem parse_math (T : PTables) (st : PState) (src : Str) (fuel : Nat) (items : List Item)
    (rot : Rot) (ls : LangSettings)
    (hf : src.length + 2 ≤ fuel) (h : OkSrc T st 0 src items)
    (hrot : rotOf st (curSettings st) = some rot) (hne : rot.inl ≠ []) (hvis : VisibleRepls rot.inl)
    (hls : settingsOf T (curSettings st) = some ls) :
    ∃ toks rots', parse T fuel src [] [] st
        = .ok (toks, { st with extracted := [], unknowns := [], foreign := false, nest := 0,
                               rots := rots' }) ∧
      getTxtPos toks = refItems T rot.inl items := by
  have h' : OkSrc T { st with extracted := [], unknowns := [], foreign := false, nest := 0 } 0 src items :=
    OkSrc.congr (st := st)
      (st' := { st with extracted := [], unknowns := [], foreign := false, nest := 0 }) rfl h
  obtain ⟨toks, rots', hw, ht, _⟩ := parserWork_math T
    { st with extracted := [], unknowns := [], foreign := false, nest := 0 } src fuel items rot ls hf h'
    hrot hne hvis hls
  refine ⟨toks, rots', ?_, ht⟩
  unfold parse
  simp only [List.isEmpty_nil, Bool.not_true, Bool.false_eq_true, if_false, if_true]
  refine (M.bind_ok _ _ _ _ _ (rfl : M.modify _ _ = _)).trans ?_
  refine (M.bind_ok _ _ _ _ _ (rfl : (pure _ : M (List Tok)) _ = _)).trans ?_
  refine (M.bind_ok _ _ _ _ _ (rfl : M.modify _ _ = _)).trans ?_
  refine (M.bind_ok _ _ _ _ _ hw).trans ?_
  refine (M.bind_ok _ _ _ _ _ (rfl : M.get _ = _)).trans ?_
  show Outcome.ok _ = _
  simp

/-- the result record of `tex2txt` on a well-formed source (no `--defs`, `--extr`, `--repl`,
    `--unkn`; single-language mode) -/
theorem tex2txt_math_src (T : PTables) (o : Options) (fs : FS) (thresh : Nat) (src : Str) (fuel : Nat)
    (st1 : PState) (items : List Item) (rot : Rot)
    (hdefs : o.defs = []) (hextr : o.extr = []) (hrepl : o.hasRepl = false) (hunkn : o.unkn = false)
    (hinit : initParser T fuel o (initialState T o false fs) = .ok ((), st1))
    (h : OkSrc T st1 0 src items)
    (hrot : rotOf st1 (curSettings st1) = some rot) (hne : rot.inl ≠ []) (hvis : VisibleRepls rot.inl)
    (hls : (settingsOf T (curSettings st1)).isSome = true)
    (hf : src.length + 2 ≤ fuel) :
    ∃ toks, tex2txt T fuel src o false thresh fs
        = .ok { toks := toks, txt := (refItems T rot.inl items).1,
                pos := (refItems T rot.inl items).2.map (· + 1), parts := [], unknowns := [],
                diags := st1.diags, foreign := false } := by
  obtain ⟨ls, hls⟩ := Option.isSome_iff_exists.mp hls
  obtain ⟨toks, rots', hp, ht⟩ := parse_math T st1 src fuel items rot ls hf h hrot hne hvis hls
  refine ⟨toks, ?_⟩
  have hrun : (initParser T fuel o >>= fun _ => parse T fuel src o.defs
        (if o.extr.isEmpty then [] else (splitOn ',' o.extr []).map (fun s => '\\' :: s)))
        (initialState T o false fs)
      = .ok (toks, { st1 with extracted := [], unknowns := [], foreign := false, nest := 0,
                              rots := rots' }) := by
    refine (M.bind_ok _ _ _ _ _ hinit).trans ?_
    rw [hdefs, hextr]
    exact hp
  unfold tex2txt
  simp only []
  rw [hrun]
  simp only [hrepl, hunkn, Bool.not_false, if_true, Bool.false_eq_true, if_false, ht]


/-! ### the rotation in closed form: the k-th formula takes entry `k mod length` -/

theorem rotL_shift (l : List Str) (m : Nat) (hm : m < l.length) :
    rotL (l.drop m ++ l.take m)
      = l.drop ((m + 1) % l.length) ++ l.take ((m + 1) % l.length) := by
  have hd : l.drop m = l[m] :: l.drop (m + 1) := List.drop_eq_getElem_cons hm
  have hrot : rotL (l.drop m ++ l.take m) = l.drop (m + 1) ++ l.take (m + 1) := by
    rw [hd]
    simp only [rotL, List.cons_append, List.drop_succ_cons, List.drop_zero, List.take_succ_cons,
      List.take_zero, List.append_assoc]
    rw [List.take_succ_eq_append_getElem hm]
  rw [hrot]
  by_cases h : m + 1 < l.length
  · rw [Nat.mod_eq_of_lt h]
  · have : m + 1 = l.length := by omega
    rw [this, Nat.mod_self]
    simp

theorem rotN_succ : ∀ (k : Nat) (l : List Str), rotN (k + 1) l = rotL (rotN k l)
  | 0, _ => rfl
  | k + 1, l => by
    show rotN (k + 1) (rotL l) = rotL (rotN k (rotL l))
    exact rotN_succ k (rotL l)

theorem rotN_eq (l : List Str) (hne : l ≠ []) : ∀ k : Nat,
    rotN k l = l.drop (k % l.length) ++ l.take (k % l.length)
  | 0 => by simp [rotN]
  | k + 1 => by
    have hpos : 0 < l.length := List.length_pos_iff.mpr hne
    rw [rotN_succ, rotN_eq l hne k, rotL_shift l _ (Nat.mod_lt _ hpos)]
    congr 2 <;> exact Nat.mod_add_mod k l.length 1

/-- the placeholder of the `k`-th formula (`k` = 1, 2, …): entry `k mod length` of the stored
    collection -/
def placeholder (repls : List Str) (k : Nat) : Str := repls.getD (k % repls.length) []

theorem rotN_headD (l : List Str) (hne : l ≠ []) (k : Nat) : (rotN k l).headD [] = placeholder l k := by
  have hpos : 0 < l.length := List.length_pos_iff.mpr hne
  have hm : k % l.length < l.length := Nat.mod_lt _ hpos
  rw [rotN_eq l hne k, List.drop_eq_getElem_cons hm]
  simp [placeholder, List.getD_eq_getElem?_getD, hm]

/-! ### the reference output of a document -/

/-- closing punctuation of a formula: the last character of the body that is no white space, if
    it is one of the `math_punctuation` characters, else nothing -/
def punctOf (T : PTables) (body : Str) : Str :=
  (punctChar T (body.filter (fun c => !isSpace c))).toList

/-- offset of the first character of a formula body that is no white space -/
def leadBlanks (body : Str) : Nat := (body.takeWhile isSpace).length

/-- the reference output (text, 0-based positions) of the segments that start at offset `p`, `k`
    formulas having been replaced before: text is copied with its positions; the next formula is
    replaced by `placeholder repls (k + 1) ++ punctOf T body`, every character of which carries the
    position of the first character of the body that is no white space (`p` is the offset of the
    opening `$`, so this is `p + 1` for a body without leading white space) -/
def refMath (T : PTables) (repls : List Str) : Nat → Nat → List Seg → Str × List Nat
  | _, _, [] => ([], [])
  | k, p, .txt s :: rest =>
    (s ++ (refMath T repls k (p + s.length) rest).1,
     List.range' p s.length ++ (refMath T repls k (p + s.length) rest).2)
  | k, p, .math body :: rest =>
    ((placeholder repls (k + 1) ++ punctOf T body)
        ++ (refMath T repls (k + 1) (p + (body.length + 2)) rest).1,
     List.replicate (placeholder repls (k + 1) ++ punctOf T body).length (p + 1 + leadBlanks body)
        ++ (refMath T repls (k + 1) (p + (body.length + 2)) rest).2)

theorem refItems_itemsOf (T : PTables) (repls : List Str) (hne : repls ≠ []) :
    ∀ (segs : List Seg) (k p : Nat),
      refItems T (rotN k repls) (itemsOf p segs) = refMath T repls k p segs
  | [], _, _ => rfl
  | .txt s :: rest, k, p => by
    simp only [itemsOf, refItems_chrItems, refMath, refItems_itemsOf T repls hne rest k]
  | .math body :: rest, k, p => by
    simp only [itemsOf, refItems, refMath, ← rotN_succ, rotN_headD repls hne,
      refItems_itemsOf T repls hne rest (k + 1), punctOf, leadBlanks]

/-- well-formedness of a document as a proposition -/
def SegsOk (T : PTables) (st : PState) (segs : List Seg) : Prop := segsOk T st segs = true

instance (T : PTables) (st : PState) (segs : List Seg) : Decidable (SegsOk T st segs) := by
  unfold SegsOk; infer_instance

/-- **C10 end to end.**  The document is a sequence of inert text segments and simple inline
    formulas `$body$` (`SegsOk`); `st1` is the state after `Parser.__init__`; no `--defs`,
    `--extr`, `--repl`, `--unkn`; single-language mode; `repls` is the inline placeholder
    collection stored for the current language, not empty, every entry a visible one-line text; the
    language settings exist.  With one unit of fuel per source character plus two, `tex2txt` succeeds
    and

    * the output text is the text segments with the `k`-th formula (k = 1, 2, …) replaced by
      `placeholder repls k ++ punctOf T body` — entry `k mod length` of the collection, followed by
      the last character of the body that is no white space if that is a punctuation mark; nothing
      else of the formula survives;
    * every text character maps to its own source position, every character of a replacement to the
      position of the first character of the formula's body that is no white space (`refMath`:
      0-based `p + 1 + leadBlanks body`, `p` the offset of the opening `$`; reported 1-based);
    * nothing is reported as unknown and no diagnostic is added. -/
theorem tex2txt_inline_math (T : PTables) (o : Options) (fs : FS) (thresh : Nat)
    (segs : List Seg) (fuel : Nat) (st1 : PState) (rot : Rot) (repls : List Str)
    (hdefs : o.defs = []) (hextr : o.extr = []) (hrepl : o.hasRepl = false) (hunkn : o.unkn = false)
    (hinit : initParser T fuel o (initialState T o false fs) = .ok ((), st1))
    (hok : SegsOk T st1 segs)
    (hrot : rotOf st1 (curSettings st1) = some rot) (hrepls : rot.inl = repls)
    (hne : repls ≠ []) (hvis : VisibleRepls repls)
    (hls : (settingsOf T (curSettings st1)).isSome = true)
    (hf : (render segs).length + 2 ≤ fuel) :
    ∃ r, tex2txt T fuel (render segs) o false thresh fs = .ok r ∧
      r.txt = (refMath T repls 0 0 segs).1 ∧
      r.pos = (refMath T repls 0 0 segs).2.map (· + 1) ∧
      r.unknowns = [] ∧ r.diags = st1.diags := by
  subst hrepls
  obtain ⟨toks, ht⟩ := tex2txt_math_src T o fs thresh (render segs) fuel st1 (itemsOf 0 segs) rot
    hdefs hextr hrepl hunkn hinit (OkSrc_of_segsOk T st1 segs 0 hok) hrot hne hvis hls hf
  have href := refItems_itemsOf T rot.inl hne segs 0 0
  simp only [rotN] at href
  exact ⟨_, ht, by rw [href], by rw [href], rfl, rfl⟩


/-! ### a simpler sufficient condition for formula bodies -/

/-- per-character condition: admissible and no special sequence of the tables starts with it
    (real tables: ASCII letters, digits, `" ( ) * + , . / : ; < = > @ [ ] |`; not `-`, which starts
    `--` and is admitted by `mathAt` where no second `-` follows) -/
def mathSimpleChar (T : PTables) (c : Char) : Bool :=
  mathPlainChar T c && startsNoSpecial T.toTables c

theorem bodyOk_of_simple (T : PTables) (R : Str) : ∀ s : Str, s.all (mathSimpleChar T) = true →
    bodyOk T s R = true
  | [], _ => rfl
  | c :: cs, h => by
    simp only [List.all_cons, Bool.and_eq_true, mathSimpleChar] at h
    obtain ⟨⟨h1, h2⟩, h3⟩ := h
    have hsp : isSpace c = false := by
      simp only [mathPlainChar, Bool.and_eq_true, Bool.not_eq_true'] at h1
      exact h1.1.1.1
    simp only [bodyOk, hsp, Bool.false_eq_true, if_false, Bool.and_eq_true, mathAt, h1,
      matchSpecial_none_of_startsNoSpecial _ _ _ h2, Option.isNone_none, true_and]
    exact bodyOk_of_simple T R cs (by simpa [mathSimpleChar] using h3)

/-! ### the hypotheses can be met -/

namespace MathExample
open PlainExample

def enM : LangSettings :=
  { enSettings with inlineRepl := ["B-B-B".toList, "C-C-C".toList, "D-D-D".toList] }

/-- `PlainExample.tinyT` with an inline placeholder collection for 'en', maths punctuation,
    operators, maths space and ignored tokens -/
def tinyM : PTables :=
  { tinyT with
    langs := [enM, deSettings]
    mathPunctuation := [".".toList, ",".toList, ";".toList, ":".toList]
    mathOperators := ["+".toList, "-".toList, "=".toList]
    mathSpace := ["~".toList]
    mathIgnore := ["{".toList, "}".toList] }

def stM : PState := initialState tinyM oEn false []

/-- `"Let $x + 1$ and $ y, $ be $z$."` -/
def segs : List Seg :=
  [.txt "Let ".toList, .math "x + 1".toList, .txt " and ".toList, .math " y, ".toList,
   .txt " be ".toList, .math "z".toList, .txt ".".toList]

def repls : List Str := ["B-B-B".toList, "C-C-C".toList, "D-D-D".toList]

example : render segs = "Let $x + 1$ and $ y, $ be $z$.".toList := by decide

theorem initParser_tinyM : initParser tinyM 40 oEn (initialState tinyM oEn false []) = .ok ((), stM) := by
  with_unfolding_all rfl

theorem segs_ok : SegsOk tinyM stM segs := by decide

theorem repls_visible : VisibleRepls repls := by
  intro r hr
  simp only [repls, List.mem_cons, List.not_mem_nil, or_false] at hr
  rcases hr with rfl | rfl | rfl <;> decide

theorem stM_rot : rotOf stM (curSettings stM)
    = some { code := "en".toList, inl := repls, disp := [], chg := [] } := by
  with_unfolding_all rfl

/-- the reference output: the first formula takes the *second* entry (the collection is rotated
    before the placeholder is taken), the second one the third entry followed by its comma (the last
    character that is no white space), the third one the first entry again; the replacements carry
    the position of the first body character that is no white space (`x`, `y`, `z`) -/
theorem segs_ref : refMath tinyM repls 0 0 segs
    = ("Let C-C-C and D-D-D, be B-B-B.".toList,
       [0, 1, 2, 3, 5, 5, 5, 5, 5, 11, 12, 13, 14, 15, 18, 18, 18, 18, 18, 18, 22, 23, 24, 25,
        27, 27, 27, 27, 27, 29]) := by decide

/-- the end-to-end statement applies (30 characters, fuel 40) -/
example : ∃ r, tex2txt tinyM 40 (render segs) oEn false 0 [] = .ok r ∧
    r.txt = "Let C-C-C and D-D-D, be B-B-B.".toList ∧
    r.pos = [1, 2, 3, 4, 6, 6, 6, 6, 6, 12, 13, 14, 15, 16, 19, 19, 19, 19, 19, 19, 23, 24, 25, 26,
             28, 28, 28, 28, 28, 30] ∧
    r.unknowns = [] ∧ r.diags = [] := by
  obtain ⟨r, h1, h2, h3, h4, h5⟩ := tex2txt_inline_math tinyM oEn [] 0 segs 40 stM _ repls
    rfl rfl rfl rfl initParser_tinyM segs_ok stM_rot rfl (by decide) repls_visible (by decide)
    (by decide)
  refine ⟨r, h1, ?_, ?_, h4, h5⟩
  · rw [h2, segs_ref]
  · rw [h3, segs_ref]; rfl

/-- the side conditions reject what they should: `--` (a special sequence), `_` (a special
    sequence), touching formulas would need the key `$$` (not in the tiny table: they are two
    formulas there), a paragraph break in a formula, a formula of white space only, an empty
    formula; they admit a single `-`, operators, punctuation, a line break in a formula -/
example : segsOk tinyM stM [.math "a--b".toList] = false := by decide
example : segsOk tinyM stM [.math "a_1".toList] = false := by decide
example : segsOk tinyM stM [.math "a\n\nb".toList] = false := by decide
example : segsOk tinyM stM [.math " ".toList] = false := by decide
example : segsOk tinyM stM [.math [] ] = false := by decide
example : segsOk tinyM stM [.math "a~b".toList] = false := by decide
example : segsOk tinyM stM [.math "a{b}".toList] = false := by decide
example : segsOk tinyM stM [.math "\\alpha".toList] = false := by decide
example : segsOk tinyM stM [.math "a-b=c/2*(d+e);".toList, .txt "\n".toList, .math "x\n y".toList] = true := by
  decide

/-
  Recorded `#eval`s.

  * tiny tables: `tex2txt tinyM 40 (render segs) oEn false 0 []` gives the text and positions of the
    example above.  With the blank placeholder collection `[" "]` the source `"x\n $a$ \ny"` yields
    `"x\ny"` (the line of the formula is deleted by `remove_pure_action_lines`), with `tinyM` it yields
    `"x\n C-C-C \ny"`: `VisibleRepls` is needed.  With the empty collection `"$a$"` crashes
    (`mathparser.py:replace_section`, Python `IndexError`): `repls ≠ []` is needed.
  * real tables (`import YalafiVerif.Generated.Tables`, `T := Generated.theTables`,
    `o := { lang := "en".toList }`, `initParser T 2000 o (initialState T o false []) = .ok ((), st1)`):
    - printable ASCII characters with `mathPlainChar T c`:
        ! " & ' ( ) * + , - . / 0-9 : ; < = > ? @ A-Z [ ] ^ _ ` a-z |
      (all ASCII letters, digits and `+ - = < > ( ) / * , . ; :` are among them); not admitted:
      `# $ % \ { }` (structural) and `~` (in `math_space`: it is maths space).  Of the admitted ones
      `& ^ _` always fail the context condition `mathAt` (they are special sequences themselves),
      `- ' ` ! ?` fail it only where `--`, `''`, ` `` `, `` !` ``, `` ?` `` match;
      `mathSimpleChar T c` holds for  " ( ) * + , . / 0-9 : ; < = > @ A-Z [ ] a-z |.
    - `rotOf st1 (curSettings st1)` has `inl = [B-B-B, C-C-C, D-D-D, E-E-E, F-F-F, G-G-G]`
      (`VisibleRepls`), `settingsOf T (curSettings st1)` exists.
    - `"Let $x + 1$ and $ y, $ be $z$."`: `segsOk`; `tex2txt T 2000 … o false 3 []` returns
      `"Let C-C-C and D-D-D, be E-E-E."` with the positions
      [1,2,3,4, 6×5, 12,…,16, 19×6, 23,…,26, 28×5, 30], no unknowns, no diagnostics = `refMath`.
    - `"If $a<b-c/2*(d+e)=f;$\n\nthen $x:$ $0.5$and$A\n B$"`: `segsOk`, output
      `"If C-C-C;\n\nthen D-D-D: E-E-EandF-F-F"` = `refMath`.
    - eight formulas `$a$ $b$ … $h$`: placeholders C D E F G B C D (entry `k mod 6`) = `refMath`.
    - `"x\n $a$ \ny"` ↦ `"x\n C-C-C \ny"`, `"\n$a$\n"` ↦ `"\nC-C-C\n"` (= `refMath`): no line condition.
    - rejected by `segsOk` (and the output differs from the naive reference): `$a!$$b$` (touching
      formulas: `$$` opens a displayed formula), `$a\n\nb$` (paragraph break: two "missing end of
      maths" errors), `$ $` (no placeholder at all, no rotation), `$a--b$`, `$a_1$`, `$a b$` is accepted
      since white space is skipped.
    - the fuel bound is tight: `parserWork T 5 "$ab$" st1 = outOfFuel`, `parserWork T 6 "$ab$" st1` is `ok`.
-/

end MathExample

end PlainMath
end Yalafi
