/-
  Proofs/NoEmptyStepArgs.lean — step lemmas of the NoEmpty bundle for `expandArguments`, `expandItem`,
  `expandAccent`.
-/
import YalafiVerif.Proofs.NoEmptyBase1
import YalafiVerif.Proofs.NoEmptyBase2
namespace Yalafi
namespace NoEmpty
open M
set_option linter.unusedVariables false

variable {T : PTables}

private theorem Post'_get_bind {β} (f : PState → M β) (st : PState) (R : β → PState → Prop)
    (h : Post' (f st st) R) : Post' ((M.get >>= f) st) R := by
  apply Post'_bind _ _ _ (fun a s => st = a ∧ st = s)
  · exact Post'_get _ _ ⟨rfl, rfl⟩
  · rintro _ _ ⟨rfl, rfl⟩
    exact h

/-! ### token constructors -/

private theorem NE_mkAction (n p : Nat) (hp : p < n) : NE T n (mkAction p) := by
  simp [NE, W, NE0, MB, ctlEmpty, mkAction, hp]

private theorem Skip_mkAction (p : Nat) : Skip (mkAction p) := by
  simp [Skip, mkAction, isSpaceTok]

private theorem NE_mkLang (n p : Nat) (l : Str) (a b c : Bool) (hp : p < n) : NE T n (mkLang p l a b c) := by
  simp [NE, W, NE0, MB, ctlEmpty, mkLang, hp]

private theorem NE_space (n p : Nat) (hp : p < n) : NE T n (mkFix Kind.space p [' ']) := by
  simp [NE, W, NE0, MB, ctlEmpty, mkFix, hp]

private theorem Skip_space (p : Nat) : Skip (mkFix Kind.space p [' ']) := by
  simp [Skip, mkFix, isSpaceTok]

private theorem W_text (n p : Nat) (txt : Str) (hp : p < n) : W T n (mkFix Kind.text p txt) := by
  simp [W, MB, ctlEmpty, mkFix, hp]

private theorem NE_text (n p : Nat) (txt : Str) (hp : p < n) (ht : txt ≠ []) : NE T n (mkFix Kind.text p txt) := by
  simp [NE, W, NE0, MB, ctlEmpty, mkFix, hp, ht]

private theorem isLangK_noCall (t : Tok) (h : isLangK t = true) (hc : ctlEmpty t = true) : noCall t = true := by
  unfold isLangK at h; unfold noCall; rw [hc]; split at h <;> simp_all

private theorem noCall_shorten (k : Kind) (p : Nat) (c : Char) (cs : Str) (f : Bool)
    (h : noCall { kind := k, pos := p, txt := c :: cs, fix := f } = true) :
    noCall { kind := k, pos := p, txt := cs, fix := f } = true := by
  cases k <;> simp_all [noCall, ctlEmpty]

/-! ### `expand_arguments` -/

private def argsTail (T : PTables) (fuel : Nat) (mac : MacroDef) (r : Args × Buf) (start : Nat) : M (List Tok × Buf) :=
  if mac.handler != .none then do
    let h ← callHandler T fuel mac.handler r.2 mac r.1.args start
    pure (mkAction start :: h ++ r.1.langs, r.2)
  else
    match generateReplacements r.1.args mac.repl start with
    | none => M.crash "parser.py:generate_replacements:arguments[tok.arg-1]"
    | some g => pure (mkAction start :: g ++ r.1.langs, r.2)

private theorem argsTail_spec (fuel : Nat) (IH : AllSpecs T fuel) (st s : PState) (mac : MacroDef)
    (r : Args × Buf) (start : Nat) (hs : Fr T st s) (hmac : MacOk T mac)
    (ha : ∀ a ∈ r.1.args, ANE T st.latex.length a) (hr : ANE T st.latex.length r.2)
    (hst : start < st.latex.length) (hlg : ANE T st.latex.length r.1.langs)
    (hlk : ∀ t ∈ r.1.langs, isLangK t = true) :
    Post' (argsTail T fuel mac r start s) (fun r' st' =>
      Fr T st st' ∧ Pre T st.latex.length r'.1 ∧ ANE T st.latex.length r'.2 ∧
      (isFront mac.handler = false → ANE T st.latex.length r'.1) ∧
      (mac.handler = .none → mac.repl = [] → ANC r'.1)) := by
  have hl : s.latex.length = st.latex.length := hs.len
  have hact := NE_mkAction (T := T) _ _ hst
  simp only [argsTail]
  by_cases hc : (mac.handler != Handler.none) = true
  · rw [if_pos hc]
    refine Post'_bind _ _ _ (fun a s' => Fr T s s' ∧ HRes T st.latex.length mac.handler a) _ ?_ ?_
    · have := IH.handler mac.handler r.2 mac r.1.args start s hs.1 (by rw [hl]; exact ha) (by rw [hl]; exact hst)
      rw [hl] at this
      exact this
    · intro a s' h'
      apply Post'_pure
      refine ⟨hs.trans h'.1, ?_, hr, ?_, ?_⟩
      · refine Pre_cons_skip hact.1 (Skip_mkAction _) ?_
        cases a with
        | nil => exact Pre_of_ANE hlg
        | cons t ts =>
          have h2 := h'.2.2
          exact Pre_cons_any h2.1 ((ANE_append _ _ _).2 ⟨h2.2, hlg⟩)
      · intro hf
        exact (ANE_cons _ _ _).2 ⟨hact, (ANE_append _ _ _).2 ⟨h'.2.1 hf, hlg⟩⟩
      · intro hn
        rw [hn] at hc
        simp at hc
  · rw [if_neg hc]
    cases hg : generateReplacements r.1.args mac.repl start with
    | none => exact Post'_crash _ _ _ (by decide)
    | some g =>
      apply Post'_pure
      have hgb : ANE T st.latex.length g := generateReplacements_ANE _ _ _ _ _ ha hmac.repl hst hg
      have hall : ANE T st.latex.length (mkAction start :: g ++ r.1.langs) :=
        (ANE_cons _ _ _).2 ⟨hact, (ANE_append _ _ _).2 ⟨hgb, hlg⟩⟩
      refine ⟨hs, Pre_of_ANE hall, hr, fun _ => hall, ?_⟩
      intro _ hrep
      rw [hrep, generateReplacements_nil] at hg
      cases hg
      refine (ANC_cons _ _).2 ⟨by simp [noCall, ctlEmpty, mkAction], ?_⟩
      intro t ht
      have htm : t ∈ r.1.langs := by simpa using ht
      exact isLangK_noCall t (hlk t htm) (W_ctl (hlg t htm).1)

theorem args_step (hne : tblOkB T = true) (hw : T.WFInv) (fuel : Nat) (IH : AllSpecs T fuel) :
    SpecArgs T (fuel + 1) := by
  intro buf mac start st hg hb hmac hst
  simp only [expandArguments]
  refine Post'_bind _ _ _ (fun r s => Fr T st s ∧ ArgsOk T st.latex.length r.1 ∧ ANE T st.latex.length r.2) _
    (collectArgs_spec mac hmac.defaults mac.args 0 buf start {} st hg hb hst (ArgsOk_empty _)) ?_
  intro r s ⟨hfr, hao, hr2⟩
  obtain ⟨hargs, hextr, hlg, hlk⟩ := hao
  have hl : s.latex.length = st.latex.length := hfr.len
  by_cases hc : (!mac.extract.isEmpty) = true
  · rw [if_pos hc]
    apply Post'_get_bind
    cases hgen : generateReplacements r.1.extr mac.extract start with
    | none =>
      dsimp only
      exact Post'_bind _ _ _ (fun _ _ => False) _ (Post'_crash _ _ _ (by decide)) (fun _ _ h => h.elim)
    | some g =>
      dsimp only
      have hgb : ANE T st.latex.length g := generateReplacements_ANE _ _ _ _ _ hextr hmac.extract hst hgen
      refine Post'_bind _ _ _ (fun (_ : List Tok × Buf) s' => Fr T s s') _ ?_ ?_
      · refine Post'_mono _ _ _ (IH.seq (mkLang start (curLang s) false true true :: g) none [] s hfr.1
          (Buf3_of_ANE ((ANE_cons _ _ _).2 ⟨NE_mkLang _ _ _ _ _ _ (by rw [hl]; exact hst), by rw [hl]; exact hgb⟩))
          ANC_nil) ?_
        intro e s' he
        exact he.1
      · intro e s' he
        refine Post'_bind _ _ _ (fun _ s'' => Fr T st s'') _ ?_ ?_
        · apply Post'_modify
          exact hfr.trans (he.trans ⟨StOk_congr he.1 rfl rfl rfl, rfl⟩)
        · intro _ s'' hs''
          exact argsTail_spec fuel IH st s'' mac r start hs'' hmac hargs hr2 hst hlg hlk
  · rw [if_neg hc]
    exact argsTail_spec fuel IH st s mac r start hfr hmac hargs hr2 hst hlg hlk

/-! ### `expand_item` -/

private theorem lastPos_lt (n start : Nat) (l : List Tok) (hl : ANE T n l) (hs : start < n) :
    (Option.map (fun x => x.pos) l.getLast?).getD start < n := by
  cases h : l.getLast? with
  | none => simpa using hs
  | some x =>
    have hx : x ∈ l := List.mem_of_getLast? h
    simpa using (hl x hx).1.1

private theorem item_wrap (n start : Nat) (X : List Tok) (hX : ANE T n X) (hs : start < n) :
    ANE T n (mkFix Kind.space start [' '] ::
      (X ++ [mkFix Kind.space ((Option.map (fun x => x.pos) X.getLast?).getD start) [' ']])) := by
  rw [ANE_cons, ANE_append, ANE_cons]
  exact ⟨NE_space _ _ hs, hX, NE_space _ _ (lastPos_lt n start X hX hs), ANE_nil _⟩

theorem item_step (hne : tblOkB T = true) (hw : T.WFInv) (fuel : Nat) (IH : AllSpecs T fuel) :
    SpecItem T (fuel + 1) := by
  intro buf tok outSoFar st hg hb ht
  simp only [expandItem]
  refine Post'_bind _ _ _ (fun r s => Fr T st s ∧ ANE T st.latex.length r.1 ∧ ANE T st.latex.length r.2) _ ?_ ?_
  · refine Post'_mono _ _ _ (IH.args buf _ tok.pos st hg hb
      ⟨by simp [NE0, MB, ctlEmpty], by simp, by simp⟩ ht) ?_
    intro r s h
    exact ⟨h.1, h.2.2.2.1 rfl, h.2.2.1⟩
  · intro r s h
    by_cases hc : (r.1.all (fun t => t.kind == .action || isLangK t)) = true
    · rw [if_pos hc]
      apply Post'_get_bind
      cases his : s.itemStack with
      | nil => exact Post'_crash _ _ _ (by decide)
      | cons g gs =>
        dsimp only
        cases hlab : itemLabel T.itemDefaultLabel g with
        | none => exact Post'_crash _ _ _ (by decide)
        | some lab =>
          dsimp only
          refine Post'_bind _ _ _ (fun _ s' => Fr T st s') _ ?_ ?_
          · apply Post'_modify
            exact h.1.trans ⟨StOk_congr h.1.1 rfl rfl rfl, rfl⟩
          · intro _ s' hs'
            apply Post'_pure
            refine ⟨hs', ?_, h.2.2⟩
            refine Pre_skips_append ?_ ?_
            · intro t htm
              have hk := List.all_eq_true.1 hc t htm
              have hwt := (h.2.1 t htm).1
              refine ⟨W_skip_ctl hwt ?_, hwt⟩
              simpa using hk
            · exact Pre_cons_skip (NE_space _ _ ht).1 (Skip_space _)
                (Pre_cons_any (W_text _ _ _ ht) ((ANE_cons _ _ _).2 ⟨NE_space _ _ ht, ANE_nil _⟩))
    · rw [if_neg hc]
      apply Post'_pure
      refine ⟨h.1, Pre_of_ANE ?_, h.2.2⟩
      apply item_wrap _ _ _ ?_ ht
      split
      · split
        · split
          · rw [ANE_append, ANE_cons]
            exact ⟨h.2.1, NE_text _ _ _ (lastPos_lt _ _ _ h.2.1 ht) (by simp), ANE_nil _⟩
          · exact h.2.1
        · exact h.2.1
      · exact h.2.1

/-! ### `expand_accent` -/

private theorem accent_err (st s : PState) (err : Str) (pos : Nat) (a2 : Buf)
    (hs : Fr T st s) (ha2 : ANE T st.latex.length a2) :
    Post' ((latexError T.toTables err pos >>= fun er => (pure (er, a2) : M (List Tok × Buf))) s) (fun r st' =>
      Fr T st st' ∧ ANC r.1 ∧ ANE T st.latex.length r.2) := by
  refine Post'_bind _ _ _ (fun er s' => Fr T st s' ∧ ANC er) _ ?_ ?_
  · refine Post'_mono _ _ _ (latexError_spec err pos s hs.1) ?_
    intro er s' h
    exact ⟨hs.trans h.1, h.2.1⟩
  · intro er s' h
    exact Post'_pure _ _ _ ⟨h.1, h.2, ha2⟩

private def accentEmit (T : PTables) (tok : Tok) (a2 : Buf) (rest : List Tok) (nm : Str) : M (List Tok × Buf) :=
  match T.unicodeNames.find? (·.1 == nm) with
  | some u => pure ({ kind := .text, pos := tok.pos, txt := u.2, fix := tok.fix || decide (1 < u.2.length) } :: rest, a2)
  | none => do
    let er ← latexError T.toTables ("could not find UTF-8 character \"".toList ++ nm ++ ['"']) tok.pos
    pure (er, a2)

private def accentTail (T : PTables) (tok : Tok) (a2 : Buf) (names : List Str) (c : Option Char) (rest : List Tok) :
    M (List Tok × Buf) :=
  let blank := match c with | none => true | some ch => isSpace ch
  if blank then accentEmit T tok a2 rest (strJoin [' '] names)
  else
    match c with
    | none => M.crash "unreachable"
    | some ch =>
      if !isAsciiLetter ch then do
        let er ← latexError T.toTables "text-mode accent for non-letter".toList tok.pos
        pure (er, a2)
      else
        match names.head? with
        | none => M.crash "parser.py:expand_accent:accent_macros[tok.txt][0]"
        | some n0 =>
          let lower := 'a' ≤ ch && ch ≤ 'z'
          let up : Char := if lower then Char.ofNat (ch.toNat - 32) else ch
          accentEmit T tok a2 rest ("LATIN ".toList ++ (if lower then "SMALL".toList else "CAPITAL".toList)
                      ++ " LETTER ".toList ++ [up] ++ " WITH ".toList ++ n0)

private theorem accentEmit_spec (st s : PState) (tok : Tok) (a2 : Buf)
    (rest : List Tok) (nm : Str) (hs : Fr T st s) (ha2 : ANE T st.latex.length a2) (hrest : ANC rest) :
    Post' (accentEmit T tok a2 rest nm s) (fun r st' =>
      Fr T st st' ∧ ANC r.1 ∧ ANE T st.latex.length r.2) := by
  simp only [accentEmit]
  cases hu : List.find? (fun x => x.1 == nm) T.unicodeNames with
  | some u =>
    refine Post'_pure _ _ _ ⟨hs, ?_, ha2⟩
    exact (ANC_cons _ _).2 ⟨by simp [noCall, ctlEmpty], hrest⟩
  | none => exact accent_err st s _ _ a2 hs ha2

private theorem accentTail_spec (st s : PState) (tok : Tok) (a2 : Buf) (names : List Str)
    (c : Option Char) (rest : List Tok) (hs : Fr T st s) (ha2 : ANE T st.latex.length a2) (hrest : ANC rest) :
    Post' (accentTail T tok a2 names c rest s) (fun r st' =>
      Fr T st st' ∧ ANC r.1 ∧ ANE T st.latex.length r.2) := by
  have hE := fun nm => accentEmit_spec st s tok a2 rest nm hs ha2 hrest
  cases c with
  | none =>
    simp only [accentTail]
    exact hE _
  | some ch =>
    simp only [accentTail]
    by_cases hb : isSpace ch = true
    · rw [if_pos hb]; exact hE _
    · rw [if_neg hb]
      by_cases hl : (!isAsciiLetter ch) = true
      · rw [if_pos hl]
        exact accent_err st s _ _ a2 hs ha2
      · rw [if_neg hl]
        cases hn : names.head? with
        | none => exact Post'_crash _ _ _ (by decide)
        | some n0 => exact hE _

theorem accent_step (hne : tblOkB T = true) (hw : T.WFInv) (fuel : Nat) (IH : AllSpecs T fuel) :
    SpecAccent T (fuel + 1) := by
  intro buf tok st hg hb ht
  simp only [expandAccent]
  refine Post'_bind _ _ _ (fun a s => Fr T st s ∧ ANE T st.latex.length a.1 ∧ ANE T st.latex.length a.2) _ ?_ ?_
  · refine Post'_mono _ _ _ (argBuffer_spec buf tok.pos true st hg) ?_
    intro a s h
    exact ⟨h.1, h.2.1 hb ht⟩
  · intro a s ha
    have hl : s.latex.length = st.latex.length := ha.1.len
    refine Post'_bind _ _ _ (fun e s' => Fr T st s' ∧ ANC e.1) _ ?_ ?_
    · refine Post'_mono _ _ _ (IH.seq a.1 none [] s ha.1.1 (Buf3_of_ANE (by rw [hl]; exact ha.2.1)) ANC_nil) ?_
      intro e s' he
      exact ⟨ha.1.trans he.1, he.2.2.1 rfl⟩
    · intro e s' he
      cases hacc : T.accents.find? (·.1 == tok.txt) with
      | none =>
        simp only [Option.map_none]
        exact Post'_crash _ _ _ (by decide)
      | some ac =>
        simp only [Option.map_some]
        cases he1 : e.1 with
        | nil =>
          exact accentTail_spec st s' tok a.2 ac.2 none [] he.1 ha.2.2 ANC_nil
        | cons t ts =>
          have hts : ANC (t :: ts) := he1 ▸ he.2
          have hts' := (ANC_cons _ _).1 hts
          obtain ⟨k, p, x, f⟩ := t
          dsimp only
          cases x with
          | nil =>
            exact accentTail_spec st s' tok a.2 ac.2 none _ he.1 ha.2.2 hts
          | cons c cs =>
            cases cs with
            | nil =>
              exact accentTail_spec st s' tok a.2 ac.2 (some c) ts he.1 ha.2.2 hts'.2
            | cons c' cs' =>
              exact accentTail_spec st s' tok a.2 ac.2 (some c) _ he.1 ha.2.2
                ((ANC_cons _ _).2 ⟨noCall_shorten _ _ _ _ _ hts'.1, hts'.2⟩)

end NoEmpty
end Yalafi
