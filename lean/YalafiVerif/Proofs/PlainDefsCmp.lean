/-
  Proofs/PlainDefsCmp.lean — C09, last sentence: the definitions in the document versus the
  definitions in the file given with `--defs`: SAME TEXT, POSITIONS SHIFTED BY THE LENGTH OF THE
  DEFINITIONS TEXT.  Document class: Proofs/PlainMacroArgs.lean; the `--defs` run: Proofs/PlainDefs.lean.

    `defLines ds`               the definitions text: `\newcommand{\name}[n]{body}⏎` for every entry of
                                `ds`, each definition on a line of its own
    `sh`, `shM`, `delGo_shift`, `delLines_shift`   the blank-line removal commutes with a shift of
                                the positions
    `bodyIn`, `inRange`, `segMarks_shift`           the reference output of a document that starts at
                                position `p + k` is that of the document that starts at `p`, shifted by
                                `k` — provided every `#j` of a body that is expanded has an argument
                                (otherwise the model pins the following literal text to position 0)
    `inRange_of_ok`             … which follows from `segsOk` and `arityOk`
    `delLines_defLines`         the lines of the definitions text are deleted by `delLines`
    `tex2txt_defs_vs_document`  both runs succeed; `r0` (source `D ++ X`, no `--defs`) and `r1` (source
                                `X`, `--defs D`) have the same text, unknowns and diagnostics, and
                                `r0.pos = r1.pos.map (· + |D|)`

  Side conditions (`CmpOk T st1 ds X`, decidable): `noEmptyActive`, `ncOk`;
  `segsOk T st1 (defLines ds)` (the definitions text alone: nothing follows the last line break) AND
  `segsOk T st1 (defLines ds ++ X)` (the definitions in front of the document) — the conditions on a
  text segment depend on what follows it, so neither implies the other;
  `arityOk [] (defLines ds ++ X)`; fuel as for the in-document run.
-/
import YalafiVerif.Proofs.PlainDefs
namespace Yalafi
namespace PlainMacroArgs

open M
open PlainMacro (Mark delLines delGo)

/-! ### shifting positions -/

/-- shift the position of a character / of a mark by `k` -/
def sh (k : Nat) (cp : Char × Nat) : Char × Nat := (cp.1, cp.2 + k)
def shM (k : Nat) (m : Mark) : Mark := m.map (sh k)

theorem delGo_shift (k : Nat) : ∀ (ms : List Mark) (cur : List (Char × Nat)) (b a : Bool),
    delGo (cur.map (sh k)) b a (ms.map (shM k)) = (delGo cur b a ms).map (sh k)
  | [], cur, b, a => by
    simp only [List.map_nil, delGo]
    split <;> simp
  | none :: xs, cur, b, a => by
    simp only [List.map_cons, shM, Option.map_none, delGo]
    exact delGo_shift k xs cur b true
  | some cp :: xs, cur, b, a => by
    have h1 := delGo_shift k xs [] true false
    have h2 := delGo_shift k xs (cur ++ [cp]) (b && isSpace cp.1) a
    simp only [List.map_nil, List.map_append, List.map_cons] at h1 h2
    simp only [List.map_cons, shM, Option.map_some, delGo, sh] at h1 h2 ⊢
    split
    · rw [h1]
      split <;> simp [sh]
    · rw [h2]

/-- **the blank-line removal commutes with a shift of the positions** -/
theorem delLines_shift (k : Nat) (ms : List Mark) :
    delLines (ms.map (shM k)) = (delLines ms).map (sh k) := by
  have := delGo_shift k ms [] true false
  simpa [delLines] using this

theorem posText_shift (k : Nat) : ∀ (s : Str) (p : Nat), posText (p + k) s = (posText p s).map (sh k)
  | [], _ => rfl
  | c :: cs, p => by
    have := posText_shift k cs (p + 1)
    rw [show p + 1 + k = p + k + 1 by omega] at this
    simp only [posText, List.map_cons, this, sh]

def shSpan (k : Nat) (sp : Nat × Str) : Nat × Str := (sp.1 + k, sp.2)

theorem argSpans_shift (k : Nat) : ∀ (args : List Str) (q : Nat),
    argSpans (q + k) args = (argSpans q args).map (shSpan k)
  | [], _ => rfl
  | a :: as, q => by
    have := argSpans_shift k as (q + a.length + 2)
    rw [show q + a.length + 2 + k = q + k + a.length + 2 by omega] at this
    simp only [argSpans, List.map_cons, this, shSpan]
    rw [show q + k + 1 = q + 1 + k by omega]

theorem argSpans_length : ∀ (args : List Str) (q : Nat), (argSpans q args).length = args.length
  | [], _ => rfl
  | a :: as, q => by simp [argSpans, argSpans_length as]

theorem spanAt_shift (k : Nat) (spans : List (Nat × Str)) (j : Nat) (h1 : 1 ≤ j) (h2 : j ≤ spans.length) :
    spanAt (spans.map (shSpan k)) j = shSpan k (spanAt spans j) := by
  have hlt : j - 1 < spans.length := by omega
  simp only [spanAt, List.getElem?_map, List.getElem?_eq_getElem hlt, Option.map_some, Option.getD_some]

theorem spanAt_shift_snd (k : Nat) (spans : List (Nat × Str)) (j : Nat) :
    (spanAt (spans.map (shSpan k)) j).2 = (spanAt spans j).2 := by
  simp only [spanAt, List.getElem?_map]
  cases spans[j - 1]? <;> rfl

theorem spanEnd_shift (k : Nat) (sp : Nat × Str) : spanEnd (shSpan k sp) = spanEnd sp + k := by
  simp only [spanEnd, shSpan]; omega

theorem argMarks_shift (k : Nat) (sp : Nat × Str) : argMarks (shSpan k sp) = (argMarks sp).map (shM k) := by
  simp only [argMarks, shSpan, posText_shift, List.map_cons, List.map_append, List.map_map, List.map_nil, shM,
    Option.map_none]
  congr 1

/-- every reference `#j` of the body has `1 ≤ j ≤ m` -/
def bodyIn (m : Nat) : List BP → Bool
  | [] => true
  | .lit _ :: rest => bodyIn m rest
  | .par j :: rest => decide (1 ≤ j) && decide (j ≤ m) && bodyIn m rest

theorem startCur_shift (k : Nat) (spans : List (Nat × Str)) : ∀ (body : List BP) (cur : Nat),
    bodyIn spans.length body = true →
    startCur (spans.map (shSpan k)) (cur + k) body = startCur spans cur body + k
  | [], _, _ => rfl
  | .lit _ :: rest, cur, h => by
    simp only [startCur]
    exact startCur_shift k spans rest cur h
  | .par j :: rest, cur, h => by
    simp only [bodyIn, Bool.and_eq_true, decide_eq_true_eq] at h
    simp only [startCur]
    rw [spanAt_shift k spans j h.1.1 h.1.2]
    exact startCur_shift k spans rest (spanAt spans j).1 h.2

theorem bodyMarks_shift (k : Nat) (spans : List (Nat × Str)) : ∀ (body : List BP) (cur : Nat),
    bodyIn spans.length body = true →
    bodyMarks (spans.map (shSpan k)) (cur + k) body = (bodyMarks spans cur body).map (shM k)
  | [], _, _ => rfl
  | .lit s :: rest, cur, h => by
    simp only [bodyMarks, List.map_append, List.map_map]
    rw [bodyMarks_shift k spans rest cur h]
    rfl
  | .par j :: rest, cur, h => by
    simp only [bodyIn, Bool.and_eq_true, decide_eq_true_eq] at h
    simp only [bodyMarks, List.map_append]
    rw [spanAt_shift k spans j h.1.1 h.1.2, argMarks_shift, spanEnd_shift,
      bodyMarks_shift k spans rest _ h.2]

theorem groupMarks_shift (k : Nat) : ∀ spans : List (Nat × Str),
    groupMarks (spans.map (shSpan k)) = (groupMarks spans).map (shM k)
  | [] => rfl
  | sp :: rest => by
    simp only [List.map_cons, groupMarks, List.map_append, argMarks_shift, groupMarks_shift k rest]

/-- every body that is expanded finds all its arguments: for every use, the references of the body
    in force lie within the number of groups of the use -/
def inRange : Env → List Seg → Bool
  | _, [] => true
  | env, .txt _ :: rest => inRange env rest
  | env, .defn name n body :: rest => inRange ((name, n, body) :: env) rest
  | env, .use name args :: rest => bodyIn args.length (defOf env name).2 && inRange env rest

/-- **the reference output of a document that starts `k` characters later** -/
theorem segMarks_shift (k : Nat) : ∀ (segs : List Seg) (env : Env) (p : Nat), inRange env segs = true →
    segMarks env (p + k) segs = (segMarks env p segs).map (shM k)
  | [], _, _, _ => rfl
  | .txt s :: rest, env, p, h => by
    simp only [inRange] at h
    have := segMarks_shift k rest env (p + s.length) h
    rw [show p + s.length + k = p + k + s.length by omega] at this
    simp only [segMarks, List.map_append, List.map_map, posText_shift, this]
    rfl
  | .defn name n body :: rest, env, p, h => by
    simp only [inRange] at h
    have := segMarks_shift k rest ((name, n, body) :: env) (p + (name.length + (bodyStr body).length + 19)) h
    rw [show p + (name.length + (bodyStr body).length + 19) + k
      = p + k + (name.length + (bodyStr body).length + 19) by omega] at this
    simp only [segMarks, List.map_cons, this]
    rfl
  | .use name args :: rest, env, p, h => by
    simp only [inRange, Bool.and_eq_true] at h
    have := segMarks_shift k rest env (p + (name.length + 1 + argsLen args)) h.2
    rw [show p + (name.length + 1 + argsLen args) + k = p + k + (name.length + 1 + argsLen args) by omega]
      at this
    have hb : bodyIn (argSpans (p + name.length + 1) args).length (defOf env name).2 = true := by
      rw [argSpans_length]; exact h.1
    simp only [segMarks, List.map_cons, List.map_append, this]
    rw [show p + k + name.length + 1 = p + name.length + 1 + k by omega, argSpans_shift,
      startCur_shift k _ _ p hb, bodyMarks_shift k _ _ _ hb, ← List.map_drop, groupMarks_shift]
    rfl

theorem bodyInserted_shift (k : Nat) (spans : List (Nat × Str)) : ∀ body : List BP,
    bodyInserted (spans.map (shSpan k)) body = bodyInserted spans body
  | [] => rfl
  | .lit s :: rest => by simp only [bodyInserted, bodyInserted_shift k spans rest]
  | .par j :: rest => by simp only [bodyInserted, bodyInserted_shift k spans rest, spanAt_shift_snd]

/-- the fuel bound does not depend on where the document starts -/
theorem segInserted_shift (k : Nat) : ∀ (segs : List Seg) (env : Env) (p : Nat),
    segInserted env (p + k) segs = segInserted env p segs
  | [], _, _ => rfl
  | .txt s :: rest, env, p => by
    have := segInserted_shift k rest env (p + s.length)
    rw [show p + s.length + k = p + k + s.length by omega] at this
    simp only [segInserted, this]
  | .defn name n body :: rest, env, p => by
    have := segInserted_shift k rest ((name, n, body) :: env) (p + (name.length + (bodyStr body).length + 19))
    rw [show p + (name.length + (bodyStr body).length + 19) + k
      = p + k + (name.length + (bodyStr body).length + 19) by omega] at this
    simp only [segInserted, this]
  | .use name args :: rest, env, p => by
    have := segInserted_shift k rest env (p + (name.length + 1 + argsLen args))
    rw [show p + (name.length + 1 + argsLen args) + k = p + k + (name.length + 1 + argsLen args) by omega]
      at this
    simp only [segInserted, this]
    rw [show p + k + name.length + 1 = p + name.length + 1 + k by omega, argSpans_shift, bodyInserted_shift]

/-! ### `inRange` follows from the side conditions -/

theorem bodyIn_mono {m m' : Nat} (hm : m ≤ m') : ∀ body : List BP, bodyIn m body = true → bodyIn m' body = true
  | [], _ => rfl
  | .lit _ :: rest, h => bodyIn_mono hm rest h
  | .par j :: rest, h => by
    simp only [bodyIn, Bool.and_eq_true, decide_eq_true_eq] at h ⊢
    exact ⟨⟨h.1.1, Nat.le_trans h.1.2 hm⟩, bodyIn_mono hm rest h.2⟩

theorem bodyIn_of_bpOk (T : PTables) (st : PState) (n : Nat) : ∀ body : List BP,
    body.all (bpOk T st n) = true → bodyIn n body = true
  | [], _ => rfl
  | .lit _ :: rest, h => by
    simp only [List.all_cons, Bool.and_eq_true] at h
    exact bodyIn_of_bpOk T st n rest h.2
  | .par j :: rest, h => by
    simp only [List.all_cons, Bool.and_eq_true, bpOk, decide_eq_true_eq] at h
    simp only [bodyIn, Bool.and_eq_true, decide_eq_true_eq]
    exact ⟨⟨h.1.1.1, h.1.1.2⟩, bodyIn_of_bpOk T st n rest h.2⟩

/-- the bodies of the environment refer to their own parameters only -/
def EnvIn (env : Env) : Prop := ∀ e ∈ env, bodyIn e.2.1 e.2.2 = true

theorem EnvIn.cons {env : Env} (h : EnvIn env) (name : Str) (n : Nat) (body : List BP)
    (hb : bodyIn n body = true) : EnvIn ((name, n, body) :: env) := by
  intro e he
  rcases List.mem_cons.mp he with rfl | he
  · exact hb
  · exact h e he

theorem EnvIn.defOf {env : Env} (h : EnvIn env) (name : Str) :
    bodyIn (defOf env name).1 (defOf env name).2 = true := by
  unfold PlainMacroArgs.defOf lookupDef
  cases hf : env.find? (·.1 == name) with
  | none => rfl
  | some e => exact h e (List.mem_of_find?_eq_some hf)

theorem defBody_ok {T : PTables} {st : PState} {name : Str} {n : Nat} {body : List BP} {R : Str}
    (h : defOk T st name n body R = true) : bodyIn n body = true :=
  bodyIn_of_bpOk T st n body (defFacts h).bok

theorem inRange_of_ok (T : PTables) (st : PState) : ∀ (segs : List Seg) (env : Env), EnvIn env →
    segsOk T st segs = true → arityOk env segs = true → inRange env segs = true
  | [], _, _, _, _ => rfl
  | .txt s :: rest, env, he, h, ha => by
    simp only [segsOk, Bool.and_eq_true] at h
    exact inRange_of_ok T st rest env he h.2 ha
  | .defn name n body :: rest, env, he, h, ha => by
    simp only [segsOk, Bool.and_eq_true] at h
    exact inRange_of_ok T st rest _ (he.cons name n body (defBody_ok h.1)) h.2 ha
  | .use name args :: rest, env, he, h, ha => by
    simp only [segsOk, Bool.and_eq_true] at h
    simp only [arityOk, Bool.and_eq_true, decide_eq_true_eq] at ha
    simp only [inRange, Bool.and_eq_true]
    exact ⟨bodyIn_mono ha.1 _ (he.defOf name), inRange_of_ok T st rest env he h.2 ha.2⟩

theorem EnvIn_envAfter (T : PTables) (st : PState) : ∀ (segs : List Seg) (env : Env), EnvIn env →
    segsOk T st segs = true → EnvIn (envAfter env segs)
  | [], _, he, _ => he
  | .txt s :: rest, env, he, h => by
    simp only [segsOk, Bool.and_eq_true] at h
    exact EnvIn_envAfter T st rest env he h.2
  | .defn name n body :: rest, env, he, h => by
    simp only [segsOk, Bool.and_eq_true] at h
    exact EnvIn_envAfter T st rest _ (he.cons name n body (defBody_ok h.1)) h.2
  | .use name args :: rest, env, he, h => by
    simp only [segsOk, Bool.and_eq_true] at h
    exact EnvIn_envAfter T st rest env he h.2

theorem segsOk_append_right (T : PTables) (st : PState) : ∀ (A B : List Seg),
    segsOk T st (A ++ B) = true → segsOk T st B = true
  | [], _, h => h
  | .txt s :: A, B, h => by
    simp only [List.cons_append, segsOk, Bool.and_eq_true] at h
    exact segsOk_append_right T st A B h.2
  | .defn name n body :: A, B, h => by
    simp only [List.cons_append, segsOk, Bool.and_eq_true] at h
    exact segsOk_append_right T st A B h.2
  | .use name args :: A, B, h => by
    simp only [List.cons_append, segsOk, Bool.and_eq_true] at h
    exact segsOk_append_right T st A B h.2

/-! ### the definitions text -/

/-- the definitions text: every definition followed by a line break -/
def defLines : List (Str × Nat × List BP) → List Seg
  | [] => []
  | d :: ds => .defn d.1 d.2.1 d.2.2 :: .txt [nl] :: defLines ds

/-- the definitions of `ds` in force, the latest first -/
theorem envAfter_defLines : ∀ (ds : List (Str × Nat × List BP)) (env : Env),
    envAfter env (defLines ds) = ds.reverse ++ env
  | [], _ => rfl
  | d :: ds, env => by
    simp only [defLines, envAfter, envAfter_defLines ds, List.reverse_cons, List.append_assoc,
      List.singleton_append]

theorem delLines_defline (q : Nat) (B : List Mark) : delLines (none :: some (nl, q) :: B) = delLines B := by
  simp [delLines, delGo]

/-- **the lines of the definitions text disappear** -/
theorem delLines_defLines (X : List Seg) : ∀ (ds : List (Str × Nat × List BP)) (env : Env) (p : Nat),
    delLines (segMarks env p (defLines ds ++ X))
      = delLines (segMarks (envAfter env (defLines ds)) (p + (render (defLines ds)).length) X)
  | [], _, _ => by simp [defLines, envAfter, render]
  | d :: ds, env, p => by
    have hl := render_defn_length d.1 d.2.1 d.2.2
    have ih := delLines_defLines X ds ((d.1, d.2.1, d.2.2) :: env)
      (p + (d.1.length + (bodyStr d.2.2).length + 19) + 1)
    have hr : (Seg.txt [nl]).render = [nl] := rfl
    simp only [defLines, List.cons_append, segMarks, posText, List.map_cons, List.map_nil,
      List.nil_append, List.length_cons, List.length_nil, Nat.zero_add, envAfter, render,
      List.length_append, hl, hr]
    rw [delLines_defline, ih]
    congr 2
    omega

/-! ### the comparison -/

/-- all side conditions of the comparison -/
def CmpOk (T : PTables) (st : PState) (ds : List (Str × Nat × List BP)) (X : List Seg) : Prop :=
  noEmptyActive T st = true ∧ PlainMacro.ncOk st = true ∧ segsOk T st (defLines ds) = true ∧
  segsOk T st (defLines ds ++ X) = true ∧ arityOk [] (defLines ds ++ X) = true

instance (T : PTables) (st : PState) (ds : List (Str × Nat × List BP)) (X : List Seg) :
    Decidable (CmpOk T st ds X) := by
  unfold CmpOk; infer_instance

/-- **C09: definitions in the document versus `--defs`.**  `r0`: the definitions text `D = defLines ds`
    in front of the document `X`; `r1`: `X` alone, `D` given as `--defs`.  Same text, unknowns and
    diagnostics; every position of `r0` is the corresponding position of `r1` plus `|D|`. -/
theorem tex2txt_defs_vs_document (T : PTables) (o : Options) (fs : FS) (thresh : Nat)
    (ds : List (Str × Nat × List BP)) (X : List Seg) (fuel : Nat) (st1 : PState)
    (hdefs : o.defs = []) (hextr : o.extr = []) (hrepl : o.hasRepl = false) (hunkn : o.unkn = false)
    (hinit : initParser T fuel o (initialState T o false fs) = .ok ((), st1))
    (hok : CmpOk T st1 ds X)
    (hf : (render (defLines ds ++ X)).length + segInserted [] 0 (defLines ds ++ X) + 6 ≤ fuel) :
    ∃ r0 r1,
      tex2txt T fuel (render (defLines ds ++ X)) o false thresh fs = .ok r0 ∧
      tex2txt T fuel (render X) { o with defs := render (defLines ds) } false thresh fs = .ok r1 ∧
      r0.txt = r1.txt ∧ r0.pos = r1.pos.map (· + (render (defLines ds)).length) ∧
      r0.unknowns = r1.unknowns ∧ r0.diags = r1.diags ∧
      r1.txt = (delLines (segMarks (ds.reverse) 0 X)).map (·.1) ∧
      r1.pos = (delLines (segMarks (ds.reverse) 0 X)).map (·.2 + 1) := by
  obtain ⟨ha, hnc, hsD, hsDX, harDX⟩ := hok
  have hsX := segsOk_append_right T st1 _ _ hsDX
  have har := harDX
  rw [arityOk_append, Bool.and_eq_true] at har
  have hfs := hf
  rw [render_append, List.length_append, segInserted_append] at hfs
  have hshift := segInserted_shift (render (defLines ds)).length X (envAfter [] (defLines ds)) 0
  rw [Nat.zero_add] at hshift hfs
  rw [hshift] at hfs
  obtain ⟨r0, h0, t0, p0, u0, d0, _⟩ := tex2txt_newcommand_args T o fs thresh (defLines ds ++ X) fuel st1
    hdefs hextr hrepl hunkn hinit ⟨ha, hnc, hsDX, harDX⟩ hf
  obtain ⟨r1, h1, t1, p1, u1, d1, _⟩ := tex2txt_defs_route T { o with defs := render (defLines ds) } fs thresh
    (defLines ds) X fuel st1 rfl hextr hrepl hunkn hinit ⟨ha, hnc, hsD, hsX, har.1, har.2⟩
    (by omega) (by omega)
  have henv : EnvIn (envAfter [] (defLines ds)) :=
    EnvIn_envAfter T st1 _ [] (fun e he => by simp at he) hsD
  have hin := inRange_of_ok T st1 X _ henv hsX har.2
  have hkey : delLines (segMarks [] 0 (defLines ds ++ X))
      = (delLines (segMarks (envAfter [] (defLines ds)) 0 X)).map (sh (render (defLines ds)).length) := by
    rw [delLines_defLines, ← delLines_shift, ← segMarks_shift _ X _ 0 hin]
  refine ⟨r0, r1, h0, h1, ?_, ?_, u0.trans u1.symm, d0.trans d1.symm, ?_, ?_⟩
  · rw [t0, t1, hkey, List.map_map]; rfl
  · rw [p0, p1, hkey, List.map_map, List.map_map]
    apply List.map_congr_left
    intro cp _
    simp only [Function.comp, sh]; omega
  · rw [t1, envAfter_defLines, List.append_nil]
  · rw [p1, envAfter_defLines, List.append_nil]

end PlainMacroArgs
end Yalafi
