/-
  Proofs/PlainMix2Read.lean — readings of the reference `delLines (marks …) ++ flows …` of the enlarged
  union grammar (Proofs/PlainMix2E2E.lean).  The general facts about `PlainMacro.delLines`
  (`delLines_sublist`, `delLines_words`, `delLines_mid`, `delLines_end`, `pureLine`) are those of
  Proofs/PlainMixRead.lean.

  `plain`, `marks_chars`    the characters of the marks of a document: text, special values, `\verb`
                            contents, placeholders of formulas / references / citations, notes,
                            titles with their full stops — nothing of keys, labels, comments,
                            control-word names, formula bodies, footnote bodies
  `flows_vis`               the visible characters of the flows are those of the footnote bodies
-/
import YalafiVerif.Proofs.PlainMix2E2E
namespace Yalafi
namespace PlainMix2

open M
open PlainMacro
open PlainMix (filterMap_map_some')
open PlainFootnote (lastTokOff flowOut)

/-- the output characters of the main flow before the blank-line removal, with their positions -/
def plain (T : PTables) (st : PState) (repls : List Str) : Nat → Nat → List Seg → List (Char × Nat)
  | _, _, [] => []
  | k, p, .txt s :: rest => posText p s ++ plain T st repls k (p + s.length) rest
  | k, p, .spc key :: rest =>
    posText p (specialValD T.toTables key) ++ plain T st repls k (p + key.length) rest
  | k, p, .opn :: rest => plain T st repls k (p + 1) rest
  | k, p, .cls :: rest => plain T st repls k (p + 1) rest
  | k, p, .cw name sp :: rest => plain T st repls k (p + (name.length + 1 + sp.length)) rest
  | k, p, .van name key :: rest => plain T st repls k (p + PlainVanish.vanLen name key) rest
  | k, p, .com body :: rest => plain T st repls k (p + (body.length + 1)) rest
  | k, p, .verb _ s :: rest => posText (p + 6) s ++ plain T st repls k (p + (s.length + 7)) rest
  | k, p, .math body :: rest =>
    (PlainMath.placeholder repls (k + 1) ++ PlainMath.punctOf T body).map
        (fun c => (c, p + 1 + PlainMath.leadBlanks body))
      ++ plain T st repls (k + 1) (p + (body.length + 2)) rest
  | k, p, .ref name key :: rest =>
    PlainRef.fixChars p (PlainRef.phOf st name) ++ plain T st repls k (p + PlainRef.callLen name key) rest
  | k, p, .cite name key :: rest =>
    PlainRef.fixChars p "[0]".toList ++ plain T st repls k (p + PlainRef.callLen name key) rest
  | k, p, .citeN name note key :: rest =>
    PlainRef.fixChars p "[0, ".toList ++ (posText (p + name.length + 2) note ++
      (']', p + name.length + 2 + lastTokOff note) ::
        plain T st repls k (p + PlainRef.callNLen name note key) rest)
  | k, p, .foot body :: rest => plain T st repls k (p + (body.length + 11)) rest
  | k, p, .head name title :: rest =>
    posText (p + name.length + 2) title ++
      ((if PlainHeading.needsDot T title then [('.', p + name.length + 2 + lastTokOff title)] else [])
        ++ plain T st repls k (p + (name.length + title.length + 3)) rest)

theorem filterMap_dotMarks (T : PTables) (q : Nat) (title : Str) :
    (dotMarks T q title).filterMap id
      = if PlainHeading.needsDot T title then [('.', q + lastTokOff title)] else [] := by
  unfold dotMarks
  split <;> rfl

theorem marks_chars (T : PTables) (st : PState) (repls : List Str) : ∀ (segs : List Seg) (k p : Nat),
    (marks T st repls k p segs).filterMap id = plain T st repls k p segs
  | [], _, _ => rfl
  | .txt s :: rest, k, p => by
    simp only [marks, plain, List.filterMap_append, filterMap_map_some, marks_chars T st repls rest]
  | .spc key :: rest, k, p => by
    simp only [marks, plain, List.filterMap_cons, id, List.filterMap_append, filterMap_map_some,
      marks_chars T st repls rest]
  | .opn :: rest, k, p => by
    simp only [marks, plain, List.filterMap_cons, id, marks_chars T st repls rest]
  | .cls :: rest, k, p => by
    simp only [marks, plain, List.filterMap_cons, id, marks_chars T st repls rest]
  | .cw name sp :: rest, k, p => by
    simp only [marks, plain, List.filterMap_cons, id, marks_chars T st repls rest]
  | .van name key :: rest, k, p => by
    simp only [marks, plain, List.filterMap_cons, id, marks_chars T st repls rest]
  | .com body :: rest, k, p => by
    simp only [marks, plain, marks_chars T st repls rest]
  | .verb d s :: rest, k, p => by
    simp only [marks, plain, List.filterMap_cons, id, List.filterMap_append, filterMap_map_some,
      marks_chars T st repls rest]
  | .math body :: rest, k, p => by
    simp only [marks, plain, PlainMix.mathMarks, List.cons_append, List.filterMap_cons, id,
      List.filterMap_append, List.append_assoc, List.nil_append,
      marks_chars T st repls rest, filterMap_map_some']
  | .ref name key :: rest, k, p => by
    simp only [marks, plain, List.filterMap_cons, id, List.filterMap_append,
      PlainRef.filterMap_fixMarks, marks_chars T st repls rest]
  | .cite name key :: rest, k, p => by
    simp only [marks, plain, List.filterMap_cons, id, List.filterMap_append,
      PlainRef.filterMap_fixMarks, marks_chars T st repls rest]
  | .citeN name note key :: rest, k, p => by
    simp only [marks, plain, List.filterMap_cons, id, List.filterMap_append,
      PlainRef.filterMap_fixMarks, filterMap_map_some, marks_chars T st repls rest]
  | .foot body :: rest, k, p => by
    simp only [marks, plain, List.filterMap_cons, id, marks_chars T st repls rest]
  | .head name title :: rest, k, p => by
    simp only [marks, plain, List.filterMap_cons, id, List.filterMap_append, filterMap_map_some,
      filterMap_dotMarks, marks_chars T st repls rest]

/-- the footnote bodies with their positions, in order -/
def footBodies : Nat → List Seg → List (Char × Nat)
  | _, [] => []
  | p, .foot body :: rest => posText (p + 10) body ++ footBodies (p + (body.length + 11)) rest
  | p, s :: rest => footBodies (p + s.len) rest

/-- the characters of the flows that are no white space are those of the footnote bodies: the
    separators are line breaks -/
theorem flows_vis : ∀ (segs : List Seg) (p : Nat),
    (flows p segs).filter PlainMix.vis = (footBodies p segs).filter PlainMix.vis
  | [], _ => rfl
  | .foot body :: rest, p => by
    have hnl : ∀ q, PlainMix.vis (nl, q) = false := by
      intro q; simp [PlainMix.vis, show isSpace nl = true by decide]
    simp only [flows, footBodies, flowOut, List.filter_append, List.cons_append, List.nil_append,
      List.filter_cons, hnl, Bool.false_eq_true, if_false, List.filter_nil, List.append_nil,
      flows_vis rest]
  | .txt _ :: rest, p => by simp only [flows, footBodies, flows_vis rest]
  | .spc _ :: rest, p => by simp only [flows, footBodies, flows_vis rest]
  | .opn :: rest, p => by simp only [flows, footBodies, flows_vis rest]
  | .cls :: rest, p => by simp only [flows, footBodies, flows_vis rest]
  | .cw _ _ :: rest, p => by simp only [flows, footBodies, flows_vis rest]
  | .van _ _ :: rest, p => by simp only [flows, footBodies, flows_vis rest]
  | .com _ :: rest, p => by simp only [flows, footBodies, flows_vis rest]
  | .verb _ _ :: rest, p => by simp only [flows, footBodies, flows_vis rest]
  | .math _ :: rest, p => by simp only [flows, footBodies, flows_vis rest]
  | .ref _ _ :: rest, p => by simp only [flows, footBodies, flows_vis rest]
  | .cite _ _ :: rest, p => by simp only [flows, footBodies, flows_vis rest]
  | .citeN _ _ _ :: rest, p => by simp only [flows, footBodies, flows_vis rest]
  | .head _ _ :: rest, p => by simp only [flows, footBodies, flows_vis rest]

end PlainMix2
end Yalafi
