/-
  Proofs/PlainMix2Scan.lean — the scanner on the ENLARGED union grammar: ONE lemma `scanSteps_mix2` by
  induction over the source (`OkSrc`), which yields the common invariant `ScanFacts` ("the token
  buffer is `flat ps`, `PiecesOk ps`, its output tokens spell the marks of the source and are
  `Simple`, its flows spell `flows`").  Header with the end-to-end statement and all side
  conditions: Proofs/PlainMix2E2E.lean.
-/
import YalafiVerif.Proofs.PlainMix2Src
namespace Yalafi
namespace PlainMix2

open M
open PlainMacro
open PlainMix (firstTokTxtU okAtU textOkU spcOk cwOkU comOk verbOkU mathMarks spcOk_ne spcOk_head
  droppable dropComToks dropComToks_cons dropComToks_com commentLen_rest ReplOk mkFix_restamp
  marksOf_formulaOut simple_formulaOut firstTokTxtU_dollar simple_special_val okAtU_snd
  nextToken_space SpcFacts spcFacts nextToken_spc ComFacts comFacts nextToken_com CwUFacts cwUFacts
  nextToken_sp VerbFacts verbFacts nextToken_verbU firstTokTxtU_verb firstTokTxtU_cw
  firstTokTxtU_of_text)
open PlainFootnote (lastTokOff flowOut CopyTok flowToks)

theorem flat_dropComs (T : PTables) (st : PState) : ∀ ps : List Piece, PiecesOk T st ps →
    flat (dropComs ps) = dropComToks (flat ps)
  | [], _ => rfl
  | .com t :: rest, h => by
    simp only [dropComs, flat, Piece.toks, List.singleton_append]
    rw [dropComToks_com _ _ h.1.kind]
    exact flat_dropComs T st rest h.2
  | .tok t :: rest, h => by
    simp only [dropComs, flat, Piece.toks, List.singleton_append]
    rw [dropComToks_cons _ _ h.1.notComment]
  | .spc t :: rest, h => by
    simp only [dropComs, flat, Piece.toks, List.singleton_append]
    rw [dropComToks_cons _ _ (by rw [h.1.1]; simp)]
  | .br t :: rest, h => by
    simp only [dropComs, flat, Piece.toks, List.singleton_append]
    rw [dropComToks_cons _ _ (by rw [h.1.kind]; simp)]
  | .cw p name sk :: rest, h => by
    simp only [dropComs, flat, Piece.toks, List.cons_append]
    rw [dropComToks_cons _ _ (by simp [cwTok])]
  | .van p q1 q2 name key repl :: rest, h => by
    simp only [dropComs, flat, Piece.toks, List.cons_append]
    rw [dropComToks_cons _ _ (by simp [cwTok])]
  | .verb t :: rest, h => by
    simp only [dropComs, flat, Piece.toks, List.singleton_append]
    rw [dropComToks_cons _ _ (by rw [h.1]; simp)]
  | .math d1 b d2 :: rest, h => by
    simp only [dropComs, flat, Piece.toks, List.cons_append]
    rw [dropComToks_cons _ _ (by rcases h.1.kind with e | e <;> simp [e])]
  | .ref p q1 q2 name key repl :: rest, h => by
    simp only [dropComs, flat, Piece.toks, List.cons_append]
    rw [dropComToks_cons _ _ (by simp [cwTok])]
  | .cite p q1 q2 name key :: rest, h => by
    simp only [dropComs, flat, Piece.toks, List.cons_append]
    rw [dropComToks_cons _ _ (by simp [cwTok])]
  | .citeN p b1 b2 q1 q2 name note key :: rest, h => by
    simp only [dropComs, flat, Piece.toks, List.cons_append]
    rw [dropComToks_cons _ _ (by simp [cwTok])]
  | .foot fn lb b rb :: rest, h => by
    simp only [dropComs, flat, Piece.toks, List.cons_append]
    rw [dropComToks_cons _ _ (by rw [h.1.kind]; simp)]
  | .head hd lb b rb :: rest, h => by
    simp only [dropComs, flat, Piece.toks, List.cons_append]
    rw [dropComToks_cons _ _ (by rw [h.1.kind]; simp)]

/-! ### the characters of a flow -/

theorem charsOf_eq_zip (ts : List Tok) : charsOf ts = (getTxtPos ts).1.zip (getTxtPos ts).2 := by
  rw [getTxtPos_charsOf]
  exact (PlainRef.zip_fst_snd (charsOf ts)).symm

/-- what `parse` appends for the body tokens `b` of a footnote whose body text `body` starts at `p` -/
theorem charsOf_flowToks (b : List Tok) (h l : Tok) (body : Str) (p : Nat)
    (hh : b.head? = some h) (hl : b.getLast? = some l)
    (hb : getTxtPos b = (body, List.range' p body.length))
    (hhp : h.pos = p) (hlp : l.pos = p + lastTokOff body) :
    charsOf (flowToks b) = flowOut p body := by
  rw [charsOf_eq_zip, PlainFootnote.getTxtPos_flowToks b h l body p hh hl hb, hhp, hlp]
  simp only [flowOut]
  rw [List.zip_append (by simp), List.zip_append (by simp), PlainRef.zip_range'_posText]
  rfl

/-! ### the scanner loop -/

/-- what the scanner loop yields on a well-formed source, and what the token buffer means -/
structure ScanFacts (T : PTables) (st : PState) (rest : Str) (ms : List Str → List Mark)
    (nms : List Str) (nf : Nat) (fl : List (Char × Nat)) (steps : List ScanStep) : Prop where
  ok : ∀ s ∈ steps, s.diag = none ∧ s.extra = []
  pieces : ∃ ps, steps.map (·.tok) = flat ps ∧ PiecesOk T st ps ∧
    (∀ l, marksOf (outP T l ps) = ms l) ∧
    (∀ l, (∀ r ∈ l, ReplOk r) → ∀ t ∈ outP T l ps, Simple t) ∧
    cost ps ≤ rest.length ∧ names ps = nms ∧ nMath ps = nf ∧
    charsOf ((flowsOf ps).map flowToks).flatten = fl
  first : ∀ s ss, steps = s :: ss → s.tok.txt = firstTokTxtU T.toTables rest
  firstK : ∀ t ts, dropComToks (steps.map (·.tok)) = t :: ts → droppable t = true →
    ∃ c cs, rest = c :: cs ∧ isSpace c = true ∧ countNl (rest.takeWhile isSpace) < 2

theorem ScanFacts_nil (T : PTables) (st : PState) : ScanFacts T st [] (fun _ => []) [] 0 [] [] :=
  ⟨by simp, ⟨[], rfl, trivial, fun _ => rfl, by simp [outP], by simp [cost], rfl, rfl, rfl⟩, by simp,
    by simp [dropComToks]⟩

/-- the first token that is no comment behind a control word (and the white space `sp` behind it)
    is not dropped by `skip_space` -/
theorem head_not_droppable {T : PTables} {st : PState} {R : Str} {ms : List Str → List Mark}
    {nms : List Str} {nf : Nat} {fl : List (Char × Nat)}
    {steps : List ScanStep} (I : ScanFacts T st R ms nms nf fl steps) {ps : List Piece}
    (hflat : steps.map (·.tok) = flat ps) (hpok : PiecesOk T st ps)
    (hR : ∀ d ds, R = d :: ds → isSpace d = true → 2 ≤ countNl (R.takeWhile isSpace)) :
    ∀ t ts, flat (dropComs ps) = t :: ts → droppable t = false := by
  intro t ts hft
  cases hb : droppable t with
  | false => rfl
  | true =>
    exfalso
    rw [flat_dropComs T st ps hpok, ← hflat] at hft
    obtain ⟨d, ds, hRd, h1, h2⟩ := I.firstK t ts hft hb
    have := hR d ds hRd h1
    omega

theorem firstTokTxtU_brace (T : PTables) (c : Char) (R : Str) (hc : c = '{' ∨ c = '}')
    (h : braceAt T c R = true) : firstTokTxtU T.toTables (c :: R) = [c] := by
  have hm : matchSpecial T.toTables (c :: R) = some [c] := by simpa [braceAt] using h
  rcases hc with rfl | rfl <;>
    simp [firstTokTxtU, hm, show isSpace '{' = false by decide, show isSpace '}' = false by decide]

theorem marksOf_dotToks (T : PTables) (title : Str) (q : Nat) :
    marksOf (PlainHeading.dotToks T title (q + lastTokOff title)) = dotMarks T q title := by
  unfold PlainHeading.dotToks dotMarks
  split
  · rw [marksOf_cons, tokMarks_nonaction _ (by simp [isAction, PlainHeading.dotTok, mkTok]),
      tokChars_nofix _ rfl]
    simp [PlainHeading.dotTok, mkTok, posText, marksOf]
  · rfl

/-- **the scanner loop on a well-formed source** (one lemma for all kinds of segments) -/
theorem scanSteps_mix2 (T : PTables) (st : PState) (src : Str) :
    ∀ (n fuel pos : Nat) (rest : Str) (ms : List Str → List Mark) (nms : List Str) (nf : Nat)
      (fl : List (Char × Nat)),
    rest.length ≤ n → rest.length ≤ fuel → OkSrc T st pos rest ms nms nf fl →
    (scanSteps T.toTables src fuel pos rest).2 = true ∧
    ScanFacts T st rest ms nms nf fl (scanSteps T.toTables src fuel pos rest).1 := by
  intro n
  induction n with
  | zero =>
    intro fuel pos rest ms nms nf fl hn _ hok
    cases rest with
    | nil => cases hok; exact ⟨by simp [scanSteps], by simpa [scanSteps] using ScanFacts_nil T st⟩
    | cons c cs => simp at hn
  | succ n ih =>
    intro fuel pos rest ms nms nf fl hn hf hok
    cases rest with
    | nil => cases hok; exact ⟨by simp [scanSteps], by simpa [scanSteps] using ScanFacts_nil T st⟩
    | cons c cs =>
      obtain ⟨fuel, rfl⟩ : ∃ f, fuel = f + 1 := ⟨fuel - 1, by simp at hf; omega⟩
      have hok0 := hok
      cases hok with
      | chr _ _ _ ms' _ _ _ hat hsub0 =>
        have hsnd := okAtU_snd hat
        obtain ⟨hp, hone⟩ := nextToken_text T src pos c cs hsnd
        have hspace := nextToken_space T.toTables src pos c cs
        generalize hs : nextToken T.toTables src pos (c :: cs) = s at hp hone hspace
        have h1 := hp.len_pos
        have h2 := hp.len_le
        have hsub : ∃ ms1, (∀ l, some (c, pos) :: ms' l
              = (posText pos ((c :: cs).take s.len)).map some ++ ms1 l) ∧
            OkSrc T st (pos + s.len) ((c :: cs).drop s.len) ms1 nms nf fl := by
          by_cases hsp : isSpace c = true
          · refine OkSrc_drop_space T st nms nf fl s.len pos (c :: cs) _ h2 hok0 ?_
            intro x hx
            rw [← hp.txt, hp.first] at hx
            simp only [firstTokTxt, hsp, if_true] at hx
            exact mem_takeWhile_imp _ _ _ hx
          · have := (hone (by simpa using hsp)).1
            rw [this]
            exact ⟨ms', fun _ => rfl, hsub0⟩
        obtain ⟨ms1, hms1, hsub⟩ := hsub
        rw [scanSteps_step T.toTables src fuel pos c cs s hs (by omega)]
        have hl : ((c :: cs).drop s.len).length ≤ fuel := by
          simp only [List.length_drop]; simp only [List.length_cons] at hf h2 ⊢; omega
        have hl' : ((c :: cs).drop s.len).length ≤ n := by
          simp only [List.length_drop]; simp only [List.length_cons] at hn h2 ⊢; omega
        obtain ⟨i1, I⟩ := ih fuel (pos + s.len) ((c :: cs).drop s.len) ms1 nms nf fl hl' hl hsub
        obtain ⟨ps', hflat, hpok, hmarks, hsimple, hcost, hnames, hnf, hfl⟩ := I.pieces
        have hne : s.tok.txt ≠ [] := by
          rw [hp.txt]
          intro h0
          have := congrArg List.length h0
          simp only [List.length_take, List.length_nil] at this
          omega
        have hshape : Shape s.tok := by
          refine ⟨hne, ?_⟩
          intro hnl
          by_cases hsp : isSpace c = true
          · rw [hp.first]
            simp only [firstTokTxt, hsp, if_true, isBlank, List.all_eq_true]
            exact fun x hx => mem_takeWhile_imp _ _ _ hx
          · have hsp' : isSpace c = false := by simpa using hsp
            have := (hone hsp').1
            rw [hp.txt, this] at hnl
            simp only [List.take_succ_cons, List.take_zero] at hnl
            rw [hasNl_single c hsp'] at hnl; cases hnl
        refine ⟨i1, ?_, ?_, ?_, ?_⟩
        · intro x hx
          rcases List.mem_cons.mp hx with rfl | hx
          · exact ⟨hp.diag, hp.extra⟩
          · exact I.ok x hx
        · refine ⟨.tok s.tok :: ps', by simp [flat, Piece.toks, hflat], ⟨hp.tok, ?_, hpok⟩, ?_, ?_, ?_,
            by simp [names, hnames], by simp [nMath, hnf], by simpa [flowsOf] using hfl⟩
          · -- the short-macro branch
            rw [← hflat]
            have hact := hat
            simp only [okAtU, Bool.and_eq_true, Bool.or_eq_true, Bool.not_eq_true'] at hact
            rcases hact.1 with hna | ⟨hns, hk⟩
            · left
              have : s.tok.txt = c :: (cs.take (s.len - 1)) := by
                rw [hp.txt]
                obtain ⟨k, hk⟩ : ∃ k, s.len = k + 1 := ⟨s.len - 1, by omega⟩
                rw [hk]; simp
              rw [this]
              exact not_active_cons T st c _ hna
            · right
              have hlen := (hone hns).1
              have htxt : s.tok.txt = [c] := by rw [hp.txt, hlen]; rfl
              have i4 := I.first
              rw [hlen] at i4 ⊢
              simp only [List.drop_succ_cons, List.drop_zero] at i4 ⊢
              cases hr : (scanSteps T.toTables src fuel (pos + 1) cs).1 with
              | nil => rfl
              | cons s2 ss =>
                simp only [List.map_cons]
                apply expandShortMacro_none
                rw [htxt, i4 s2 ss hr]
                rcases hk with hk | hk
                · cases cs with
                  | nil => cases fuel <;> simp [scanSteps] at hr
                  | cons => simp at hk
                · simpa using hk
          · intro l
            simp only [outP]
            rw [marksOf_cons, tokMarks_nonaction _ hp.tok.notAction, tokChars_nofix _ hp.fix, hmarks,
              hp.txt, hp.pos, hms1]
          · intro l hl x hx
            simp only [outP, List.mem_cons] at hx
            rcases hx with rfl | hx
            · exact simple_of_plain hp.tok hshape
            · exact hsimple l hl x hx
          · simp only [cost, List.length_cons, List.length_drop] at hcost h2 ⊢
            omega
        · intro s' ss' he
          simp only [List.cons.injEq] at he
          rw [← he.1, hp.first]
          exact (firstTokTxtU_of_text T.toTables c cs hsnd).symm
        · intro t ts he hdr
          rw [List.map_cons, dropComToks_cons _ _ hp.tok.notComment] at he
          simp only [List.cons.injEq] at he
          rw [← he.1] at hdr
          refine ⟨c, cs, rfl, ?_⟩
          by_cases hsp : isSpace c = true
          · refine ⟨hsp, ?_⟩
            rw [hspace hsp] at hdr
            simp only [scanSpace] at hdr
            cases hlt : decide (countNl ((c :: cs).takeWhile isSpace) < 2) with
            | true => simpa using hlt
            | false =>
              have : ¬ countNl ((c :: cs).takeWhile isSpace) < 2 := by simpa using hlt
              simp [droppable, isSpaceTok, this] at hdr
          · have hk := (hone (by simpa using hsp)).2
            simp [droppable, isSpaceTok, hk] at hdr
      | spc _ _ tl R ms' _ _ _ hd hsub =>
        have S := spcFacts hd
        have hnt := nextToken_spc T src pos c tl R S
        simp only [List.length_cons, List.length_append] at hn hf
        obtain ⟨i1, I⟩ := ih fuel (pos + (tl.length + 1)) R ms' nms nf fl (by omega) (by omega) hsub
        obtain ⟨ps', hflat, hpok, hmarks, hsimple, hcost, hnames, hnf, hfl⟩ := I.pieces
        have hsteps : scanSteps T.toTables src (fuel + 1) pos (c :: (tl ++ R))
            = ({ tok := { kind := .special, pos := pos, txt := c :: tl }, len := tl.length + 1 } ::
                (scanSteps T.toTables src fuel (pos + (tl.length + 1)) R).1,
               (scanSteps T.toTables src fuel (pos + (tl.length + 1)) R).2) := by
          rw [scanSteps_step T.toTables src fuel pos c _ _ hnt (by simp)]
          simp
        rw [hsteps]
        refine ⟨i1, ?_, ?_, ?_, ?_⟩
        · intro x hx
          rcases List.mem_cons.mp hx with rfl | hx
          · exact ⟨rfl, rfl⟩
          · exact I.ok x hx
        · refine ⟨.spc { kind := .special, pos := pos, txt := c :: tl } :: ps',
            by simp [flat, Piece.toks, hflat], ⟨⟨rfl, S.key⟩, hpok⟩, ?_, ?_, ?_, by simp [names, hnames], by simp [nMath, hnf], by simpa [flowsOf] using hfl⟩
          · intro l
            simp only [outP, expTok, beq_self_eq_true, if_true, List.cons_append, List.nil_append]
            rw [marksOf_cons, tokMarks_mkAction, marksOf_cons, tokMarks_nonaction _ rfl,
              tokChars_nofix _ rfl, hmarks]
            rfl
          · intro l hl x hx
            simp only [outP, expTok, beq_self_eq_true, if_true, List.cons_append, List.nil_append,
              List.mem_cons] at hx
            rcases hx with rfl | rfl | hx
            · exact simple_mkAction pos
            · exact simple_special_val _ _ _ S.val
            · exact hsimple l hl x hx
          · simp only [cost, List.length_cons, List.length_append]
            omega
        · intro s' ss' he
          simp only [List.cons.injEq] at he
          rw [← he.1]
          simp [firstTokTxtU, S.nsp, S.npc, S.ms]
        · intro t ts he hdr
          rw [List.map_cons, dropComToks_cons _ _ (by simp)] at he
          simp only [List.cons.injEq] at he
          rw [← he.1] at hdr
          simp [droppable, isSpaceTok] at hdr
      | cw _ name sp R ms' nms' _ _ hd hsub =>
        have C := cwUFacts hd
        have hname := List.length_pos_iff.mpr C.cw.ne
        have hn1 := nextToken_cw T st src pos name (sp ++ R) C.cw
        simp only [List.length_cons, List.length_append] at hf hn
        have hR : ∀ d ds, R = d :: ds → isSpace d = true → 2 ≤ countNl (R.takeWhile isSpace) :=
          fun d ds e h => (C.head d ds e h).2
        have hfirst : (cwTok pos name).txt = firstTokTxtU T.toTables ('\\' :: (name ++ (sp ++ R))) :=
          (firstTokTxtU_cw T.toTables name (sp ++ R) C.cw.tw C.cw.special C.cw.nVerb).symm
        cases sp with
        | nil =>
          simp only [List.length_nil, Nat.add_zero, List.nil_append] at hsub hf hn hn1 ⊢
          obtain ⟨i1, I⟩ := ih fuel (pos + (name.length + 1)) R ms' nms' nf fl (by omega) (by omega) hsub
          obtain ⟨ps', hflat, hpok, hmarks, hsimple, hcost, hnames, hnf, hfl⟩ := I.pieces
          have hsteps : scanSteps T.toTables src (fuel + 1) pos ('\\' :: (name ++ R))
              = ({ tok := cwTok pos name, len := name.length + 1 } ::
                  (scanSteps T.toTables src fuel (pos + (name.length + 1)) R).1,
                 (scanSteps T.toTables src fuel (pos + (name.length + 1)) R).2) := by
            rw [scanSteps_step T.toTables src fuel pos _ _ _ hn1 (by simp)]
            simp
          rw [hsteps]
          refine ⟨i1, ?_, ?_, ?_, ?_⟩
          · intro x hx
            rcases List.mem_cons.mp hx with rfl | hx
            · exact ⟨rfl, rfl⟩
            · exact I.ok x hx
          · refine ⟨.cw pos name [] :: ps', by simp [flat, Piece.toks, hflat],
              ⟨cwTokOk_cwTok C.cw pos, by simp, head_not_droppable I hflat hpok hR, hpok⟩, ?_, ?_, ?_,
              by simp [names, hnames], by simp [nMath, hnf], by simpa [flowsOf] using hfl⟩
            · intro l
              simp only [outP]
              rw [marksOf_cons, tokMarks_mkAction, hmarks]
              rfl
            · intro l hl x hx
              simp only [outP, List.mem_cons] at hx
              rcases hx with rfl | hx
              · exact simple_mkAction pos
              · exact hsimple l hl x hx
            · simp only [cost, List.length_cons, List.length_append]
              omega
          · intro s' ss' he
            simp only [List.cons.injEq] at he
            rw [← he.1]
            simpa using hfirst
          · intro t ts he hdr
            rw [List.map_cons, dropComToks_cons _ _ (by simp [cwTok])] at he
            simp only [List.cons.injEq] at he
            rw [← he.1] at hdr
            simp [droppable, isSpaceTok, cwTok] at hdr
        | cons x xs =>
          simp only [List.length_cons] at hsub hf hn
          obtain ⟨g, rfl⟩ : ∃ g, fuel = g + 1 := ⟨fuel - 1, by omega⟩
          have hnsp : ∀ d ds, R = d :: ds → isSpace d = false := by
            intro d ds e
            cases hd' : isSpace d with
            | false => rfl
            | true => exact absurd (C.head d ds e hd').1 (by simp)
          have hn2 := nextToken_sp T.toTables src (pos + (name.length + 1)) x xs R C.white C.nls hnsp
          have hpos : pos + (name.length + 1) + (xs.length + 1) = pos + (name.length + 1 + (xs.length + 1)) := by
            omega
          obtain ⟨i1, I⟩ := ih g (pos + (name.length + 1 + (xs.length + 1))) R ms' nms' nf fl
            (by omega) (by omega) hsub
          obtain ⟨ps', hflat, hpok, hmarks, hsimple, hcost, hnames, hnf, hfl⟩ := I.pieces
          have hsteps : scanSteps T.toTables src (g + 1 + 1) pos ('\\' :: (name ++ (x :: xs ++ R)))
              = ({ tok := cwTok pos name, len := name.length + 1 } ::
                 { tok := { kind := .space, pos := pos + (name.length + 1), txt := x :: xs },
                   len := xs.length + 1 } ::
                  (scanSteps T.toTables src g (pos + (name.length + 1 + (xs.length + 1))) R).1,
                 (scanSteps T.toTables src g (pos + (name.length + 1 + (xs.length + 1))) R).2) := by
            rw [scanSteps_step T.toTables src (g + 1) pos _ _ _ hn1 (by simp)]
            have hd1 : ('\\' :: (name ++ (x :: xs ++ R))).drop (name.length + 1) = x :: (xs ++ R) := by
              simp
            simp only [hd1]
            rw [scanSteps_step T.toTables src g _ _ _ _ hn2 (by simp)]
            simp [hpos]
          rw [hsteps]
          refine ⟨i1, ?_, ?_, ?_, ?_⟩
          · intro y hy
            simp only [List.mem_cons] at hy
            rcases hy with rfl | rfl | hy
            · exact ⟨rfl, rfl⟩
            · exact ⟨rfl, rfl⟩
            · exact I.ok y hy
          · refine ⟨.cw pos name [{ kind := .space, pos := pos + (name.length + 1), txt := x :: xs }] :: ps',
              by simp [flat, Piece.toks, hflat],
              ⟨cwTokOk_cwTok C.cw pos, by simp [droppable, isSpaceTok, isLangK],
                head_not_droppable I hflat hpok hR, hpok⟩, ?_, ?_, ?_, by simp [names, hnames], by simp [nMath, hnf], by simpa [flowsOf] using hfl⟩
            · intro l
              simp only [outP]
              rw [marksOf_cons, tokMarks_mkAction, hmarks]
              rfl
            · intro l hl y hy
              simp only [outP, List.mem_cons] at hy
              rcases hy with rfl | hy
              · exact simple_mkAction pos
              · exact hsimple l hl y hy
            · simp only [cost, List.length_cons, List.length_append]
              omega
          · intro s' ss' he
            simp only [List.cons.injEq] at he
            rw [← he.1]
            simpa using hfirst
          · intro t ts he hdr
            rw [List.map_cons, dropComToks_cons _ _ (by simp [cwTok])] at he
            simp only [List.cons.injEq] at he
            rw [← he.1] at hdr
            simp [droppable, isSpaceTok, cwTok] at hdr
      | van _ name key R ms' _ _ _ hd hsub =>
        have V := PlainVanish.vanFacts hd
        have hname := List.length_pos_iff.mpr V.cw.ne
        simp only [List.length_cons, List.length_append] at hf hn
        obtain ⟨g, hg⟩ : ∃ g, fuel = g + 1 := ⟨fuel - 1, by omega⟩
        have hn1 := nextToken_cw T _ src pos name _ V.cw
        have hn2 := nextToken_brace T src (pos + (name.length + 1)) '{' _ (Or.inl rfl) V.b1
        have hn3 := nextToken_brace T src (pos + (name.length + 1) + 1 + key.length) '}' R
          (Or.inr rfl) V.b2
        obtain ⟨bsteps, B, hrun⟩ := PlainVanish.scanSteps_key T src R key.length key
          (pos + (name.length + 1) + 1) g (Nat.le_refl _) (by omega) V.key
        have hBl := B.len
        obtain ⟨g', hg'⟩ : ∃ g', g - bsteps.length = g' + 1 := ⟨g - bsteps.length - 1, by omega⟩
        have hpos : pos + (name.length + 1) + 1 + key.length + 1 = pos + PlainVanish.vanLen name key := by
          simp only [PlainVanish.vanLen]; omega
        obtain ⟨i1, I⟩ := ih g' (pos + PlainVanish.vanLen name key) R ms' nms nf fl (by omega) (by omega) hsub
        obtain ⟨ps', hflat, hpok, hmarks, hsimple, hcost, hnames, hnf, hfl⟩ := I.pieces
        have hd1 : ('\\' :: (name ++ '{' :: (key ++ '}' :: R))).drop (name.length + 1)
            = '{' :: (key ++ '}' :: R) := by simp
        have hsteps : scanSteps T.toTables src (fuel + 1) pos
              ('\\' :: (name ++ '{' :: (key ++ '}' :: R)))
            = ({ tok := cwTok pos name, len := name.length + 1 } ::
               { tok := { kind := .special, pos := pos + (name.length + 1), txt := ['{'] }, len := 1 } ::
               (bsteps ++
                 { tok := { kind := .special, pos := pos + (name.length + 1) + 1 + key.length,
                            txt := ['}'] }, len := 1 } ::
                 (scanSteps T.toTables src g' (pos + PlainVanish.vanLen name key) R).1),
               (scanSteps T.toTables src g' (pos + PlainVanish.vanLen name key) R).2) := by
          rw [hg, scanSteps_step T.toTables src (g + 1) pos _ _ _ hn1 (by simp), hd1]
          simp only []
          rw [scanSteps_step T.toTables src g _ _ _ _ hn2 (by simp)]
          simp only [List.drop_succ_cons, List.drop_zero]
          rw [hrun, hg', scanSteps_step T.toTables src g' _ _ _ _ hn3 (by simp)]
          simp only [List.drop_succ_cons, List.drop_zero, hpos]
        rw [hsteps]
        obtain ⟨hvoid, hvlen⟩ := V.vn.repl
        refine ⟨i1, ?_, ?_, ?_, ?_⟩
        · intro x hx
          simp only [List.mem_cons, List.mem_append] at hx
          rcases hx with rfl | rfl | hx | rfl | hx
          · exact ⟨rfl, rfl⟩
          · exact ⟨rfl, rfl⟩
          · exact ⟨(B.ok x hx).1, (B.ok x hx).2.1⟩
          · exact ⟨rfl, rfl⟩
          · exact I.ok x hx
        · refine ⟨.van pos (pos + (name.length + 1)) (pos + (name.length + 1) + 1 + key.length) name
              (bsteps.map (·.tok)) (PlainVanish.replOf st name) :: ps', ?_, ⟨V.vn, rfl, ?_, hpok⟩, ?_, ?_, ?_,
              by simp [names, hnames], by simp [nMath, hnf], by simpa [flowsOf] using hfl⟩
          · simp [flat, Piece.toks, hflat, lbr, rbr]
          · intro t ht
            obtain ⟨x, hx, rfl⟩ := List.mem_map.mp ht
            exact (B.ok x hx).2.2
          · intro l
            simp only [outP]
            rw [marksOf_cons, tokMarks_mkAction, marksOf_append, PlainVanish.marksOf_voids _ _ hvoid, hmarks]
            rfl
          · intro l hl x hx
            simp only [outP, List.mem_cons, List.mem_append] at hx
            rcases hx with rfl | hx | hx
            · exact simple_mkAction pos
            · obtain ⟨u, hu, rfl⟩ := List.mem_map.mp hx
              exact PlainVanish.simple_void pos u (hvoid u hu)
            · exact hsimple l hl x hx
          · simp only [cost, List.length_cons, List.length_append]
            omega
        · intro s' ss' he
          simp only [List.cons.injEq] at he
          rw [← he.1]
          exact (firstTokTxtU_cw T.toTables name _ V.cw.tw V.cw.special V.cw.nVerb).symm
        · intro t ts he hdr
          rw [List.map_cons, dropComToks_cons _ _ (by simp [cwTok])] at he
          simp only [List.cons.injEq] at he
          rw [← he.1] at hdr
          simp [droppable, isSpaceTok, cwTok] at hdr
      | com _ body R _ _ _ _ hd hsub =>
        have C := comFacts hd
        have hnt := nextToken_com T st src pos body R C
        simp only [List.length_cons, List.length_append] at hn hf
        obtain ⟨i1, I⟩ := ih fuel (pos + (body.length + 1)) R ms nms nf fl (by omega) (by omega) hsub
        obtain ⟨ps', hflat, hpok, hmarks, hsimple, hcost, hnames, hnf, hfl⟩ := I.pieces
        have hsteps : scanSteps T.toTables src (fuel + 1) pos ('%' :: (body ++ R))
            = ({ tok := { kind := .comment, pos := pos, txt := '%' :: body }, len := body.length + 1 } ::
                (scanSteps T.toTables src fuel (pos + (body.length + 1)) R).1,
               (scanSteps T.toTables src fuel (pos + (body.length + 1)) R).2) := by
          rw [scanSteps_step T.toTables src fuel pos _ _ _ hnt (by simp)]
          simp
        rw [hsteps]
        refine ⟨i1, ?_, ?_, ?_, ?_⟩
        · intro x hx
          rcases List.mem_cons.mp hx with rfl | hx
          · exact ⟨rfl, rfl⟩
          · exact I.ok x hx
        · refine ⟨.com { kind := .comment, pos := pos, txt := '%' :: body } :: ps',
            by simp [flat, Piece.toks, hflat], ⟨⟨rfl, ⟨body, rfl⟩, C.nskip, C.nact⟩, hpok⟩, ?_, ?_, ?_,
            by simp [names, hnames], by simp [nMath, hnf], by simpa [flowsOf] using hfl⟩
          · intro l
            simpa only [outP] using hmarks l
          · intro l hl
            simpa only [outP] using hsimple l hl
          · simp only [cost, List.length_cons, List.length_append]
            omega
        · intro s' ss' he
          simp only [List.cons.injEq] at he
          rw [← he.1]
          simp [firstTokTxtU, C.len, show isSpace '%' = false by decide]
        · intro t ts he hdr
          rw [List.map_cons, dropComToks_com _ _ rfl] at he
          obtain ⟨d, ds, hRd, h1, h2⟩ := I.firstK t ts he hdr
          have := commentLen_rest body R C.len d ds hRd h1
          omega
      | verb _ d s R ms' _ _ _ hd hsub =>
        have V := verbFacts hd
        have hnt := nextToken_verbU T src pos d s R V
        simp only [List.length_cons, List.length_append] at hn hf
        obtain ⟨i1, I⟩ := ih fuel (pos + (s.length + 7)) R ms' nms nf fl (by omega) (by omega) hsub
        obtain ⟨ps', hflat, hpok, hmarks, hsimple, hcost, hnames, hnf, hfl⟩ := I.pieces
        have hsteps : scanSteps T.toTables src (fuel + 1) pos
              ('\\' :: 'v' :: 'e' :: 'r' :: 'b' :: d :: (s ++ d :: R))
            = ({ tok := { kind := .verb false, pos := pos + 6, txt := s }, len := s.length + 7 } ::
                (scanSteps T.toTables src fuel (pos + (s.length + 7)) R).1,
               (scanSteps T.toTables src fuel (pos + (s.length + 7)) R).2) := by
          rw [scanSteps_step T.toTables src fuel pos _ _ _ hnt (by simp)]
          have := drop_verb d s R
          simp only [] 
          rw [show ('\\' :: 'v' :: 'e' :: 'r' :: 'b' :: d :: (s ++ d :: R)) = sVerb ++ d :: (s ++ d :: R) from rfl,
            this]
        rw [hsteps]
        refine ⟨i1, ?_, ?_, ?_, ?_⟩
        · intro x hx
          rcases List.mem_cons.mp hx with rfl | hx
          · exact ⟨rfl, rfl⟩
          · exact I.ok x hx
        · refine ⟨.verb { kind := .verb false, pos := pos + 6, txt := s } :: ps',
            by simp [flat, Piece.toks, hflat], ⟨rfl, hpok⟩, ?_, ?_, ?_, by simp [names, hnames], by simp [nMath, hnf], by simpa [flowsOf] using hfl⟩
          · intro l
            simp only [outP, expTokV, beq_self_eq_true, if_true, List.cons_append, List.nil_append]
            rw [marksOf_cons, tokMarks_mkAction, marksOf_cons, tokMarks_nonaction _ rfl,
              tokChars_nofix _ rfl, hmarks]
            rfl
          · intro l hl x hx
            simp only [outP, expTokV, beq_self_eq_true, if_true, List.cons_append, List.nil_append,
              List.mem_cons] at hx
            rcases hx with rfl | rfl | hx
            · exact simple_mkAction _
            · exact simple_special_val _ _ _ (fun h => by rw [V.noNl] at h; cases h)
            · exact hsimple l hl x hx
          · simp only [cost, List.length_cons, List.length_append]
            omega
        · intro s' ss' he
          simp only [List.cons.injEq] at he
          rw [← he.1]
          exact (firstTokTxtU_verb T d s R V).symm
        · intro t ts he hdr
          rw [List.map_cons, dropComToks_cons _ _ (by simp)] at he
          simp only [List.cons.injEq] at he
          rw [← he.1] at hdr
          simp [droppable, isSpaceTok] at hdr

      | math _ body R ms' _ nf' _ hm hsub =>
        simp only [PlainMath.mathOk, Bool.and_eq_true] at hm
        obtain ⟨⟨⟨hbne, hd1⟩, hbody⟩, hd2⟩ := hm
        obtain ⟨k1, hk1, hn1⟩ := PlainMath.nextToken_dollar T src pos (body ++ '$' :: R) hd1
        obtain ⟨k2, hk2, hn2⟩ := PlainMath.nextToken_dollar T src (pos + 1 + body.length) R hd2
        simp only [List.length_cons, List.length_append] at hf hn
        obtain ⟨bsteps, B, hrun⟩ := PlainMath.scanSteps_bodyrun T src R body.length body (pos + 1) fuel
          (Nat.le_refl _) (by omega) hbody
        have hBl := B.len
        obtain ⟨g, hg⟩ : ∃ g, fuel - bsteps.length = g + 1 := ⟨fuel - bsteps.length - 1, by omega⟩
        obtain ⟨i1, I⟩ := ih g (pos + (body.length + 2)) R ms' nms nf' fl (by omega) (by omega) hsub
        obtain ⟨ps', hflat, hpok, hmarks, hsimple, hcost, hnames, hnf, hfl⟩ := I.pieces
        have hpos2 : pos + 1 + body.length + 1 = pos + (body.length + 2) := by omega
        have hsteps : scanSteps T.toTables src (fuel + 1) pos ('$' :: (body ++ '$' :: R))
            = ({ tok := { kind := k1, pos := pos, txt := ['$'] }, len := 1 } ::
                (bsteps ++
                  { tok := { kind := k2, pos := pos + 1 + body.length, txt := ['$'] }, len := 1 } ::
                  (scanSteps T.toTables src g (pos + (body.length + 2)) R).1),
               (scanSteps T.toTables src g (pos + (body.length + 2)) R).2) := by
          simp only [scanSteps, hn1]
          rw [if_neg (by simp)]
          simp only [List.drop_succ_cons, List.drop_zero]
          rw [hrun, hg]
          simp only [scanSteps, hn2]
          rw [if_neg (by simp)]
          simp only [List.drop_succ_cons, List.drop_zero, hpos2]
        rw [hsteps]
        refine ⟨i1, ?_, ?_, ?_, ?_⟩
        · intro x hx
          simp only [List.mem_cons, List.mem_append] at hx
          rcases hx with rfl | hx | rfl | hx
          · exact ⟨rfl, rfl⟩
          · exact ⟨(B.ok x hx).1, (B.ok x hx).2.1⟩
          · exact ⟨rfl, rfl⟩
          · exact I.ok x hx
        · refine ⟨.math { kind := k1, pos := pos, txt := ['$'] } (bsteps.map (·.tok))
              { kind := k2, pos := pos + 1 + body.length, txt := ['$'] } :: ps', ?_, ?_, ?_, ?_, ?_,
              by simp [names, hnames], by simp [nMath, hnf], by simpa [flowsOf] using hfl⟩
          · simp [flat, Piece.toks, hflat]
          · refine ⟨⟨hk1, rfl⟩, B.ne hbne, ?_, ⟨hk2, rfl⟩, hpok⟩
            intro t ht
            obtain ⟨x, hx, rfl⟩ := List.mem_map.mp ht
            exact (B.ok x hx).2.2
          · intro l
            simp only [outP]
            rw [marksOf_formulaOut, hmarks (rotL l), B.txt, B.first hbne]
            simp [mathMarks, PlainMath.punctOf, PlainMath.leadBlanks]
          · intro l hl x hx
            simp only [outP, List.mem_append] at hx
            rcases hx with hx | hx
            · refine simple_formulaOut T _ _ _ _ ?_ x hx
              cases hr : rotL l with
              | nil => intro h; simp [hasNl] at h
              | cons a t =>
                exact hl a (PlainMath.mem_rotL l a (by rw [hr]; exact List.mem_cons_self ..))
            · exact hsimple (rotL l) (fun r hr => hl r (PlainMath.mem_rotL l r hr)) x hx
          · simp only [cost, List.length_cons, List.length_append, List.length_map]
            omega
        · intro s' ss' he
          simp only [List.cons.injEq] at he
          rw [← he.1]
          exact (firstTokTxtU_dollar T _ hd1).symm
        · intro t ts he hdr
          rw [List.map_cons, dropComToks_cons _ _ (by rcases hk1 with rfl | rfl <;> simp)] at he
          simp only [List.cons.injEq] at he
          rw [← he.1] at hdr
          rcases hk1 with rfl | rfl <;> simp [droppable, isSpaceTok] at hdr

      | br _ _ _ ms' _ _ _ hc hd hsub =>
        have hnt := nextToken_brace T src pos c cs hc hd
        simp only [List.length_cons] at hn hf
        obtain ⟨i1, I⟩ := ih fuel (pos + 1) cs ms' nms nf fl (by omega) (by omega) hsub
        obtain ⟨ps', hflat, hpok, hmarks, hsimple, hcost, hnames, hnf, hfl⟩ := I.pieces
        have hsteps : scanSteps T.toTables src (fuel + 1) pos (c :: cs)
            = ({ tok := { kind := .special, pos := pos, txt := [c] }, len := 1 } ::
                (scanSteps T.toTables src fuel (pos + 1) cs).1,
               (scanSteps T.toTables src fuel (pos + 1) cs).2) := by
          rw [scanSteps_step T.toTables src fuel pos c _ _ hnt (by simp)]
          simp
        rw [hsteps]
        refine ⟨i1, ?_, ?_, ?_, ?_⟩
        · intro x hx
          rcases List.mem_cons.mp hx with rfl | hx
          · exact ⟨rfl, rfl⟩
          · exact I.ok x hx
        · refine ⟨.br { kind := .special, pos := pos, txt := [c] } :: ps',
            by simp [flat, Piece.toks, hflat],
            ⟨⟨rfl, by rcases hc with rfl | rfl <;> simp⟩, hpok⟩, ?_, ?_, ?_, by simp [names, hnames],
            by simp [nMath, hnf], by simpa [flowsOf] using hfl⟩
          · intro l
            simp only [outP]
            rw [marksOf_cons, tokMarks_mkAction, hmarks]
            rfl
          · intro l hl x hx
            simp only [outP, List.mem_cons] at hx
            rcases hx with rfl | hx
            · exact simple_mkAction pos
            · exact hsimple l hl x hx
          · simp only [cost, List.length_cons]
            omega
        · intro s' ss' he
          simp only [List.cons.injEq] at he
          rw [← he.1]
          exact (firstTokTxtU_brace T c cs hc hd).symm
        · intro t ts he hdr
          rw [List.map_cons, dropComToks_cons _ _ (by simp)] at he
          simp only [List.cons.injEq] at he
          rw [← he.1] at hdr
          simp [droppable, isSpaceTok] at hdr
      | ref _ name key R ms' _ _ _ hd hsub =>
        have V := PlainRef.refFacts hd
        have hname := List.length_pos_iff.mpr V.cw.ne
        simp only [List.length_cons, List.length_append] at hf hn
        have hn1 := nextToken_cw T _ src pos name _ V.cw
        obtain ⟨ksteps, B, hrun⟩ := PlainRef.scanSteps_braced T src (pos + (name.length + 1)) fuel key R
          (by omega) V.br
        have hBl := B.len
        have hpos : pos + (name.length + 1) + (key.length + 2) = pos + PlainRef.callLen name key := by
          simp only [PlainRef.callLen]; omega
        obtain ⟨i1, I⟩ := ih (fuel - ksteps.length - 2) (pos + PlainRef.callLen name key) R ms' nms nf fl
          (by omega) (by omega) hsub
        obtain ⟨ps', hflat, hpok, hmarks, hsimple, hcost, hnames, hnf, hfl⟩ := I.pieces
        have hd1 : ('\\' :: (name ++ '{' :: (key ++ '}' :: R))).drop (name.length + 1)
            = '{' :: (key ++ '}' :: R) := by simp
        rw [scanSteps_step T.toTables src fuel pos _ _ _ hn1 (by simp), hd1]
        simp only []
        rw [hrun, hpos]
        obtain ⟨hph, hrne, hrlen⟩ := V.rn.repl
        refine ⟨i1, ?_, ?_, ?_, ?_⟩
        · intro x hx
          simp only [List.mem_cons, List.mem_append] at hx
          rcases hx with rfl | rfl | hx | rfl | hx
          · exact ⟨rfl, rfl⟩
          · exact ⟨rfl, rfl⟩
          · exact ⟨(B.ok x hx).1, (B.ok x hx).2.1⟩
          · exact ⟨rfl, rfl⟩
          · exact I.ok x hx
        · refine ⟨.ref pos (pos + (name.length + 1)) (pos + (name.length + 1) + 1 + key.length) name
              (ksteps.map (·.tok)) (PlainRef.replOf st name) :: ps', ?_,
              ⟨V.rn, rfl, PlainRef.KeyRun.toks B, hpok⟩, ?_, ?_, ?_, by simp [names, hnames],
              by simp [nMath, hnf], by simpa [flowsOf] using hfl⟩
          · simp [flat, Piece.toks, hflat]
          · intro l
            simp only [outP]
            rw [marksOf_cons, tokMarks_mkAction, marksOf_append,
              marksOf_restamp _ _ (fun t ht => (hph t ht).plain), hmarks]
            rfl
          · intro l hl x hx
            simp only [outP, List.mem_cons, List.mem_append] at hx
            rcases hx with rfl | hx | hx
            · exact simple_mkAction pos
            · obtain ⟨u, hu, rfl⟩ := List.mem_map.mp hx
              exact PlainRef.simple_restamp pos (hph u hu)
            · exact hsimple l hl x hx
          · simp only [cost, List.length_cons, List.length_append]
            omega
        · intro s' ss' he
          simp only [List.cons.injEq] at he
          rw [← he.1]
          exact (firstTokTxtU_cw T.toTables name _ V.cw.tw V.cw.special V.cw.nVerb).symm
        · intro t ts he hdr
          rw [List.map_cons, dropComToks_cons _ _ (by simp [cwTok])] at he
          simp only [List.cons.injEq] at he
          rw [← he.1] at hdr
          simp [droppable, isSpaceTok, cwTok] at hdr
      | cite _ name key R ms' _ _ _ hd hS hsub =>
        have V := PlainRef.citeFacts hd
        have S := PlainRef.stateFacts hS
        have hname := List.length_pos_iff.mpr V.cw.ne
        simp only [List.length_cons, List.length_append] at hf hn
        have hn1 := nextToken_cw T _ src pos name _ V.cw
        obtain ⟨ksteps, B, hrun⟩ := PlainRef.scanSteps_braced T src (pos + (name.length + 1)) fuel key R
          (by omega) V.br
        have hBl := B.len
        have hpos : pos + (name.length + 1) + (key.length + 2) = pos + PlainRef.callLen name key := by
          simp only [PlainRef.callLen]; omega
        obtain ⟨i1, I⟩ := ih (fuel - ksteps.length - 2) (pos + PlainRef.callLen name key) R ms' nms nf fl
          (by omega) (by omega) hsub
        obtain ⟨ps', hflat, hpok, hmarks, hsimple, hcost, hnames, hnf, hfl⟩ := I.pieces
        have hd1 : ('\\' :: (name ++ '{' :: (key ++ '}' :: R))).drop (name.length + 1)
            = '{' :: (key ++ '}' :: R) := by simp
        rw [scanSteps_step T.toTables src fuel pos _ _ _ hn1 (by simp), hd1]
        simp only []
        rw [hrun, hpos]
        refine ⟨i1, ?_, ?_, ?_, ?_⟩
        · intro x hx
          simp only [List.mem_cons, List.mem_append] at hx
          rcases hx with rfl | rfl | hx | rfl | hx
          · exact ⟨rfl, rfl⟩
          · exact ⟨rfl, rfl⟩
          · exact ⟨(B.ok x hx).1, (B.ok x hx).2.1⟩
          · exact ⟨rfl, rfl⟩
          · exact I.ok x hx
        · refine ⟨.cite pos (pos + (name.length + 1)) (pos + (name.length + 1) + 1 + key.length) name
              (ksteps.map (·.tok)) :: ps', ?_, ⟨V.cn, PlainRef.KeyRun.toks B, S, hpok⟩, ?_, ?_, ?_,
              by simp [names, hnames], by simp [nMath, hnf], by simpa [flowsOf] using hfl⟩
          · simp [flat, Piece.toks, hflat]
          · intro l
            simp only [outP]
            rw [marksOf_cons, tokMarks_mkAction, marksOf_append, PlainRef.marksOf_citeToks, hmarks]
            simp
          · intro l hl x hx
            simp only [outP, PlainRef.citeToks, List.mem_cons, List.cons_append, List.nil_append] at hx
            rcases hx with rfl | rfl | rfl | hx
            · exact simple_mkAction pos
            · exact PlainRef.simple_vis _ rfl (by simp [mkFix]; decide)
            · exact simple_mkAction pos
            · exact hsimple l hl x hx
          · simp only [cost, List.length_cons, List.length_append]
            omega
        · intro s' ss' he
          simp only [List.cons.injEq] at he
          rw [← he.1]
          exact (firstTokTxtU_cw T.toTables name _ V.cw.tw V.cw.special V.cw.nVerb).symm
        · intro t ts he hdr
          rw [List.map_cons, dropComToks_cons _ _ (by simp [cwTok])] at he
          simp only [List.cons.injEq] at he
          rw [← he.1] at hdr
          simp [droppable, isSpaceTok, cwTok] at hdr
      | citeN _ name note key R ms' _ _ _ hd hS hsub =>
        have V := PlainRef.citeNFacts hd
        have S := PlainRef.stateFacts hS
        have hname := List.length_pos_iff.mpr V.cw.ne
        simp only [List.length_cons, List.length_append] at hf hn
        have hn1 := nextToken_cw T _ src pos name _ V.cw
        obtain ⟨nsteps, N, hnrun⟩ := PlainRef.scanSteps_note T st src (pos + (name.length + 1)) fuel note
          ('{' :: (key ++ '}' :: R)) (by omega) V.lb V.txt V.rb
        have hNl := N.len
        obtain ⟨ksteps, B, hrun⟩ := PlainRef.scanSteps_braced T src
          (pos + (name.length + 1) + (note.length + 2)) (fuel - nsteps.length - 2) key R
          (by omega) V.br
        have hBl := B.len
        have hpos : pos + (name.length + 1) + (note.length + 2) + (key.length + 2)
            = pos + PlainRef.callNLen name note key := by
          simp only [PlainRef.callNLen]; omega
        obtain ⟨i1, I⟩ := ih (fuel - nsteps.length - 2 - ksteps.length - 2)
          (pos + PlainRef.callNLen name note key) R ms' nms nf fl (by omega) (by omega) hsub
        obtain ⟨ps', hflat, hpok, hmarks, hsimple, hcost, hnames, hnf, hfl⟩ := I.pieces
        have hd1 : ('\\' :: (name ++ '[' :: (note ++ ']' :: '{' :: (key ++ '}' :: R)))).drop
            (name.length + 1) = '[' :: (note ++ ']' :: '{' :: (key ++ '}' :: R)) := by simp
        rw [scanSteps_step T.toTables src fuel pos _ _ _ hn1 (by simp), hd1]
        simp only []
        rw [hnrun, hrun, hpos]
        have hnne : nsteps.map (·.tok) ≠ [] := by
          intro e
          exact V.ne (N.nil_iff (by simpa using e))
        have hnote : ∀ t ∈ nsteps.map (·.tok), CopyTok T st t ∧ t.txt ≠ [']'] := by
          intro t ht
          obtain ⟨x, hx, rfl⟩ := List.mem_map.mp ht
          refine ⟨(N.ok x hx).2.2, ?_⟩
          intro e
          have hmem := PlainRef.mem_txt_of_getTxtPos (c := ']') ht (by rw [e]; simp)
          rw [N.txt] at hmem
          exact V.nrb hmem
        have hlast : PlainRef.lastPos (nsteps.map (·.tok))
            = pos + (name.length + 1) + 1 + lastTokOff note := by
          cases hgl : (nsteps.map (·.tok)).getLast? with
          | none => exact absurd (List.getLast?_eq_none_iff.mp hgl) hnne
          | some l => rw [PlainRef.lastPos_of_getLast hgl, N.last l hgl]
        refine ⟨i1, ?_, ?_, ?_, ?_⟩
        · intro x hx
          simp only [List.mem_cons, List.mem_append] at hx
          rcases hx with rfl | rfl | hx | rfl | rfl | hx | rfl | hx
          · exact ⟨rfl, rfl⟩
          · exact ⟨rfl, rfl⟩
          · exact ⟨(N.ok x hx).1, (N.ok x hx).2.1⟩
          · exact ⟨rfl, rfl⟩
          · exact ⟨rfl, rfl⟩
          · exact ⟨(B.ok x hx).1, (B.ok x hx).2.1⟩
          · exact ⟨rfl, rfl⟩
          · exact I.ok x hx
        · refine ⟨.citeN pos (pos + (name.length + 1)) (pos + (name.length + 1) + 1 + note.length)
              (pos + (name.length + 1) + (note.length + 2))
              (pos + (name.length + 1) + (note.length + 2) + 1 + key.length) name
              (nsteps.map (·.tok)) (ksteps.map (·.tok)) :: ps', ?_,
              ⟨V.cn, hnne, hnote, PlainRef.KeyRun.toks B, S, hpok⟩, ?_, ?_, ?_,
              by simp [names, hnames], by simp [nMath, hnf], by simpa [flowsOf] using hfl⟩
          · simp [flat, Piece.toks, hflat]
          · intro l
            simp only [outP]
            rw [marksOf_cons, tokMarks_mkAction, marksOf_append,
              PlainRef.marksOf_citeNToks pos _ _ note _ (PlainRef.marksOf_textrun N) hlast, hmarks]
            have e : pos + (name.length + 1) + 1 = pos + name.length + 2 := by omega
            simp [e]
          · intro l hl x hx
            simp only [outP, PlainRef.citeNToks, List.mem_cons, List.cons_append, List.mem_append,
              List.append_assoc, List.nil_append] at hx
            rcases hx with rfl | rfl | rfl | hx | rfl | rfl | hx
            · exact simple_mkAction pos
            · exact PlainRef.simple_vis _ rfl (by simp [mkFix]; decide)
            · exact ⟨fun ha => by simp [isAction, mkFix] at ha, rfl, fun _ => by simp [mkFix]; decide⟩
            · exact PlainRef.simple_of_copy (hnote x hx).1
            · exact PlainRef.simple_vis _ rfl (by simp [mkTok]; decide)
            · exact simple_mkAction _
            · exact hsimple l hl x hx
          · simp only [cost, List.length_cons, List.length_append, List.length_map]
            omega
        · intro s' ss' he
          simp only [List.cons.injEq] at he
          rw [← he.1]
          exact (firstTokTxtU_cw T.toTables name _ V.cw.tw V.cw.special V.cw.nVerb).symm
        · intro t ts he hdr
          rw [List.map_cons, dropComToks_cons _ _ (by simp [cwTok])] at he
          simp only [List.cons.injEq] at he
          rw [← he.1] at hdr
          simp [droppable, isSpaceTok, cwTok] at hdr
      | foot _ body R ms' _ _ fl' hd hS hsub =>
        have F := PlainFootnote.footFacts hd
        have S := PlainFootnote.stateFacts hS
        simp only [List.length_cons, List.length_append] at hf hn
        have hn1 : nextToken T.toTables src pos
            ('\\' :: 'f' :: 'o' :: 'o' :: 't' :: 'n' :: 'o' :: 't' :: 'e' :: '{' :: (body ++ '}' :: R))
            = { tok := { kind := .xmacro, pos := pos, txt := PlainFootnote.sFootnote }, len := 9 } :=
          PlainFootnote.nextToken_footnote T.toTables src pos (body ++ '}' :: R) F.special F.nAccent
        obtain ⟨k1, hk1, hn2⟩ := PlainFootnote.nextToken_brace T src (pos + 9) '{' (body ++ '}' :: R)
          (Or.inl rfl) F.lb
        obtain ⟨k2, hk2, hn3⟩ := PlainFootnote.nextToken_brace T src (pos + 10 + body.length) '}' R
          (Or.inr rfl) F.rb
        obtain ⟨f, rfl⟩ : ∃ f, fuel = f + 1 := ⟨fuel - 1, by omega⟩
        obtain ⟨bsteps, B, hrun⟩ := PlainFootnote.scanSteps_textrun T st src ('}' :: R) (by simp; decide)
          body.length body (pos + 10) f (Nat.le_refl _) (by omega) F.text
        have hBl := B.len
        obtain ⟨g, hg⟩ : ∃ g, f - bsteps.length = g + 1 := ⟨f - bsteps.length - 1, by omega⟩
        obtain ⟨i1, I⟩ := ih g (pos + (body.length + 11)) R ms' nms nf fl' (by omega) (by omega) hsub
        obtain ⟨ps', hflat, hpok, hmarks, hsimple, hcost, hnames, hnf, hfl⟩ := I.pieces
        have hpos2 : pos + 10 + body.length + 1 = pos + (body.length + 11) := by omega
        have hsteps : scanSteps T.toTables src (f + 1 + 1) pos
              ('\\' :: 'f' :: 'o' :: 'o' :: 't' :: 'n' :: 'o' :: 't' :: 'e' :: '{' :: (body ++ '}' :: R))
            = ({ tok := { kind := .xmacro, pos := pos, txt := PlainFootnote.sFootnote }, len := 9 } ::
                { tok := { kind := k1, pos := pos + 9, txt := ['{'] }, len := 1 } ::
                (bsteps ++
                  { tok := { kind := k2, pos := pos + 10 + body.length, txt := ['}'] }, len := 1 } ::
                  (scanSteps T.toTables src g (pos + (body.length + 11)) R).1),
               (scanSteps T.toTables src g (pos + (body.length + 11)) R).2) := by
          rw [scanSteps_step T.toTables src (f + 1) pos _ _ _ hn1 (by simp)]
          simp only [List.drop_succ_cons, List.drop_zero]
          rw [scanSteps_step T.toTables src f _ _ _ _ hn2 (by simp)]
          simp only [List.drop_succ_cons, List.drop_zero]
          rw [show pos + 9 + 1 = pos + 10 by omega, hrun, hg,
            scanSteps_step T.toTables src g _ _ _ _ hn3 (by simp)]
          simp only [List.drop_succ_cons, List.drop_zero, hpos2]
        rw [hsteps]
        have hc : ∀ t ∈ bsteps.map (·.tok), CopyTok T st t := by
          intro t ht
          obtain ⟨x, hx, rfl⟩ := List.mem_map.mp ht
          exact (B.ok x hx).2.2
        have hbne : bsteps.map (·.tok) ≠ [] := by
          intro e
          exact F.ne (B.nil_iff (by simpa using e))
        obtain ⟨h, hh⟩ : ∃ h, (bsteps.map (·.tok)).head? = some h := by
          cases hx : bsteps.map (·.tok) with
          | nil => exact absurd hx hbne
          | cons a _ => exact ⟨a, rfl⟩
        obtain ⟨l, hl⟩ : ∃ l, (bsteps.map (·.tok)).getLast? = some l := by
          cases hx : (bsteps.map (·.tok)).getLast? with
          | none => rw [List.getLast?_eq_none_iff] at hx; exact absurd hx hbne
          | some a => exact ⟨a, rfl⟩
        have hhp : h.pos = pos + 10 := by
          cases hx : bsteps.map (·.tok) with
          | nil => exact absurd hx hbne
          | cons a as =>
            rw [hx] at hh
            simp only [List.head?_cons, Option.some.injEq] at hh
            rw [← hh]; exact B.first a as hx
        have hlp : l.pos = pos + 10 + lastTokOff body := B.last l hl
        refine ⟨i1, ?_, ?_, ?_, ?_⟩
        · intro x hx
          simp only [List.mem_cons, List.mem_append] at hx
          rcases hx with rfl | rfl | hx | rfl | hx
          · exact ⟨rfl, rfl⟩
          · exact ⟨rfl, rfl⟩
          · exact ⟨(B.ok x hx).1, (B.ok x hx).2.1⟩
          · exact ⟨rfl, rfl⟩
          · exact I.ok x hx
        · refine ⟨.foot { kind := .xmacro, pos := pos, txt := PlainFootnote.sFootnote }
              { kind := k1, pos := pos + 9, txt := ['{'] } (bsteps.map (·.tok))
              { kind := k2, pos := pos + 10 + body.length, txt := ['}'] } :: ps', ?_,
              ⟨⟨rfl, rfl⟩, ⟨hk1, rfl⟩, ⟨hk2, rfl⟩, hbne, hc,
                PlainFootnote.flowSafe_of_lines _ body (fun t ht => (hc t ht).txt_ne) B.lines F.lines,
                S, hpok⟩, ?_, ?_, ?_, by simp [names, hnames], by simp [nMath, hnf], ?_⟩
          · simp [flat, Piece.toks, hflat]
          · intro l'
            simp only [outP]
            rw [marksOf_cons, tokMarks_mkAction, hmarks]
            rfl
          · intro l' hl' x hx
            simp only [outP, List.mem_cons] at hx
            rcases hx with rfl | hx
            · exact simple_mkAction pos
            · exact hsimple l' hl' x hx
          · simp only [cost, List.length_cons, List.length_append, List.length_map]
            omega
          · simp only [flowsOf, List.map_cons, List.flatten_cons]
            rw [charsOf_append, hfl,
              charsOf_flowToks _ h l body (pos + 10) hh hl B.txt hhp hlp]
        · intro s' ss' he
          simp only [List.cons.injEq] at he
          rw [← he.1]
          have htw : (['f', 'o', 'o', 't', 'n', 'o', 't', 'e'] ++ '{' :: (body ++ '}' :: R)).takeWhile
              macroChar = ['f', 'o', 'o', 't', 'n', 'o', 't', 'e'] :=
            takeWhile_append_stop _ _ _ (by decide)
              (by simp only [List.head?_cons, Option.all_some]; decide)
          exact (firstTokTxtU_cw T.toTables ['f', 'o', 'o', 't', 'n', 'o', 't', 'e'] _ htw F.special
            (by decide)).symm
        · intro t ts he hdr
          rw [List.map_cons, dropComToks_cons _ _ (by simp)] at he
          simp only [List.cons.injEq] at he
          rw [← he.1] at hdr
          simp [droppable, isSpaceTok] at hdr
      | head _ name title R ms' _ _ _ hd hS hsub =>
        have F := PlainHeading.headFacts hd
        have S := PlainHeading.stateFacts hS
        have hname := List.length_pos_iff.mpr F.ne
        simp only [List.length_cons, List.length_append] at hf hn
        have hn1 := PlainHeading.nextToken_name T st src pos name title R F
        obtain ⟨k1, hk1, hn2⟩ := PlainFootnote.nextToken_brace T src (pos + (name.length + 1)) '{'
          (title ++ '}' :: R) (Or.inl rfl) F.lb
        obtain ⟨k2, hk2, hn3⟩ := PlainFootnote.nextToken_brace T src
          (pos + name.length + 2 + title.length) '}' R (Or.inr rfl) F.rb
        obtain ⟨f, rfl⟩ : ∃ f, fuel = f + 1 := ⟨fuel - 1, by omega⟩
        obtain ⟨bsteps, B, hrun⟩ := PlainFootnote.scanSteps_textrun T st src ('}' :: R)
          (by simp; decide) title.length title (pos + name.length + 2) f (Nat.le_refl _) (by omega) F.text
        have hBl := B.len
        obtain ⟨g, hg⟩ : ∃ g, f - bsteps.length = g + 1 := ⟨f - bsteps.length - 1, by omega⟩
        obtain ⟨i1, I⟩ := ih g (pos + (name.length + title.length + 3)) R ms' nms nf fl
          (by omega) (by omega) hsub
        obtain ⟨ps', hflat, hpok, hmarks, hsimple, hcost, hnames, hnf, hfl⟩ := I.pieces
        have hpos2 : pos + name.length + 2 + title.length + 1 = pos + (name.length + title.length + 3) := by
          omega
        have hd1 : ('\\' :: (name ++ '{' :: (title ++ '}' :: R))).drop (name.length + 1)
            = '{' :: (title ++ '}' :: R) := by simp
        have hsteps : scanSteps T.toTables src (f + 1 + 1) pos
              ('\\' :: (name ++ '{' :: (title ++ '}' :: R)))
            = ({ tok := cwTok pos name, len := name.length + 1 } ::
                { tok := { kind := k1, pos := pos + (name.length + 1), txt := ['{'] }, len := 1 } ::
                (bsteps ++
                  { tok := { kind := k2, pos := pos + name.length + 2 + title.length, txt := ['}'] },
                    len := 1 } :: (scanSteps T.toTables src g (pos + (name.length + title.length + 3)) R).1),
               (scanSteps T.toTables src g (pos + (name.length + title.length + 3)) R).2) := by
          rw [scanSteps_step T.toTables src (f + 1) pos _ _ _ hn1 (by simp), hd1]
          simp only []
          rw [scanSteps_step T.toTables src f _ _ _ _ hn2 (by simp)]
          simp only [List.drop_succ_cons, List.drop_zero]
          rw [show pos + (name.length + 1) + 1 = pos + name.length + 2 by omega, hrun, hg,
            scanSteps_step T.toTables src g _ _ _ _ hn3 (by simp)]
          simp only [List.drop_succ_cons, List.drop_zero, hpos2]
        rw [hsteps]
        have hc : ∀ t ∈ bsteps.map (·.tok), CopyTok T st t := by
          intro t ht
          obtain ⟨x, hx, rfl⟩ := List.mem_map.mp ht
          exact (B.ok x hx).2.2
        have hne : title ≠ [] := by
          intro e
          have := F.vis
          rw [e] at this
          simp [isBlank] at this
        have hbne : bsteps.map (·.tok) ≠ [] := by
          intro e
          exact hne (B.nil_iff (by simpa using e))
        obtain ⟨l, hl⟩ : ∃ l, (bsteps.map (·.tok)).getLast? = some l := by
          cases hx : (bsteps.map (·.tok)).getLast? with
          | none => rw [List.getLast?_eq_none_iff] at hx; exact absurd hx hbne
          | some a => exact ⟨a, rfl⟩
        have hlp : PlainHeading.lastPos (bsteps.map (·.tok))
            = pos + name.length + 2 + lastTokOff title := by
          simp only [PlainHeading.lastPos, hl, Option.map_some, Option.getD_some]
          exact B.last l hl
        have htxt : (getTxtPos (bsteps.map (·.tok))).1 = title := by rw [B.txt]
        refine ⟨i1, ?_, ?_, ?_, ?_⟩
        · intro x hx
          simp only [List.mem_cons, List.mem_append] at hx
          rcases hx with rfl | rfl | hx | rfl | hx
          · exact ⟨rfl, rfl⟩
          · exact ⟨rfl, rfl⟩
          · exact ⟨(B.ok x hx).1, (B.ok x hx).2.1⟩
          · exact ⟨rfl, rfl⟩
          · exact I.ok x hx
        · refine ⟨.head (cwTok pos name) { kind := k1, pos := pos + (name.length + 1), txt := ['{'] }
              (bsteps.map (·.tok))
              { kind := k2, pos := pos + name.length + 2 + title.length, txt := ['}'] } :: ps', ?_,
              ⟨PlainHeading.hdTok_cwTok F pos, ⟨hk1, rfl⟩, ⟨hk2, rfl⟩, hbne, hc, S, hpok⟩, ?_, ?_, ?_,
              by simp [names, hnames], by simp [nMath, hnf], by simpa [flowsOf] using hfl⟩
          · simp [flat, Piece.toks, hflat]
          · intro l'
            simp only [outP, PlainHeading.headOut, List.cons_append, List.append_assoc]
            rw [marksOf_cons, tokMarks_mkAction, marksOf_append, marksOf_append,
              PlainRef.marksOf_textrun B, htxt, hlp, marksOf_dotToks, hmarks]
            rfl
          · intro l' hl' x hx
            simp only [outP, PlainHeading.headOut, List.cons_append, List.append_assoc, List.mem_cons,
              List.mem_append] at hx
            rcases hx with rfl | hx | hx | hx
            · exact simple_mkAction _
            · exact PlainRef.simple_of_copy (hc x hx)
            · exact PlainRef.simple_of_copy (PlainHeading.copyTok_dotToks S _ _ x hx)
            · exact hsimple l' hl' x hx
          · simp only [cost, List.length_cons, List.length_append, List.length_map]
            omega
        · intro s' ss' he
          simp only [List.cons.injEq] at he
          rw [← he.1]
          exact (firstTokTxtU_cw T.toTables name _ (takeWhile_append_stop _ _ _ F.all rfl) F.special
            F.nVerb).symm
        · intro t ts he hdr
          rw [List.map_cons, dropComToks_cons _ _ (by simp [cwTok])] at he
          simp only [List.cons.injEq] at he
          rw [← he.1] at hdr
          simp [droppable, isSpaceTok, cwTok] at hdr

end PlainMix2
end Yalafi
