/-
  Proofs/InlineShape.lean — C10: the rendering of an inline formula that consists of a single
  maths part by `mathparser.replace_section` (model: `replaceSection` with `inline = true`).
-/
import YalafiVerif.Model.Expander
namespace Yalafi

/-! ### the last non-blank character of a text -/

/-- the last character of `s` that is not white space -/
def lastNonBlank (s : Str) : Option Char := s.reverse.find? (fun c => !isSpace c)

theorem head?_dropWhile_eq_find? {α} (p : α → Bool) (l : List α) :
    (l.dropWhile p).head? = l.find? (fun a => !p a) := by
  induction l with
  | nil => rfl
  | cons a t ih =>
    by_cases h : p a <;> simp [h, ih]

theorem find?_not_dropWhile {α} (p : α → Bool) (l : List α) :
    (l.dropWhile p).reverse.find? (fun a => !p a) = l.reverse.find? (fun a => !p a) := by
  induction l with
  | nil => rfl
  | cons a t ih =>
    by_cases h : p a
    · simp only [List.dropWhile_cons, h, if_true, ih, List.reverse_cons, List.find?_append,
        List.find?_cons, List.find?_nil, Bool.not_true]
      simp
    · simp [h]

theorem strip_getLast? (s : Str) : (strip s).getLast? = lastNonBlank s := by
  unfold strip rstrip lstrip lastNonBlank
  rw [List.getLast?_reverse, head?_dropWhile_eq_find?, find?_not_dropWhile]

/-! ### the shape -/

/-- closing punctuation of a maths part: the last non-blank character of its text, if it is
    one of the `math_punctuation` characters -/
def partPunct (T : PTables) (ts : List Tok) : Option Char :=
  match lastNonBlank (getTextDirect ts) with
  | some c => if T.mathPunctuation.contains [c] then some c else none
  | none => none

/-- what an inline formula `ts` (first token `t0`, last token `tl`) is rendered as, `r0` being the
    placeholder whose turn it is: everything pinned at the position of the first token -/
def inlineShape (T : PTables) (ts : List Tok) (t0 tl : Tok) (r0 : Str) : List Tok :=
  (if t0.kind = .mathSpace then [mathSp t0.pos] else [])
  ++ [mkFix .text t0.pos r0]
  ++ (match partPunct T ts with | some c => [mkFix .text t0.pos [c]] | none => [])
  ++ (if tl.kind = .mathSpace then [mathSp t0.pos] else [])

theorem inlineShape_fix_pos (T : PTables) (ts : List Tok) (t0 tl : Tok) (r0 : Str) :
    ∀ t ∈ inlineShape T ts t0 tl r0, t.fix = true ∧ t.pos = t0.pos := by
  intro t ht
  unfold inlineShape at ht
  simp only [List.mem_append, List.mem_singleton] at ht
  rcases ht with ((ht | ht) | ht) | ht
  · split at ht
    · simp only [List.mem_singleton] at ht; subst ht; simp [mathSp, mkFix]
    · simp at ht
  · subst ht; simp [mkFix]
  · split at ht
    · simp only [List.mem_singleton] at ht; subst ht; simp [mkFix]
    · simp at ht
  · split at ht
    · simp only [List.mem_singleton] at ht; subst ht; simp [mathSp, mkFix]
    · simp at ht

/-- kinds and texts of the rendering: `[blank] placeholder [punctuation] [blank]` -/
theorem inlineShape_kinds (T : PTables) (ts : List Tok) (t0 tl : Tok) (r0 : Str) :
    (inlineShape T ts t0 tl r0).map (fun t => (t.kind, t.txt)) =
      (if t0.kind = .mathSpace then [(Kind.space, [' '])] else [])
      ++ [(Kind.text, r0)]
      ++ (match partPunct T ts with | some c => [(Kind.text, [c])] | none => [])
      ++ (if tl.kind = .mathSpace then [(Kind.space, [' '])] else []) := by
  unfold inlineShape
  cases partPunct T ts <;> by_cases h0 : t0.kind = .mathSpace <;> by_cases hl : tl.kind = .mathSpace <;>
    simp [h0, hl, mathSp, mkFix]

/-! ### `replaceStep` / `replaceSection` in inline mode -/

theorem rotL_ne_nil (l : List Str) (h : l ≠ []) : rotL l ≠ [] := by
  cases l with
  | nil => exact absurd rfl h
  | cons a t => simp [rotL]

local macro "inline_fin" T:ident ts:ident t0:ident tl:ident : tactic => `(tactic| (
  apply Exists.intro
  congr 2
  unfold inlineShape partPunct
  cases hc : lastNonBlank (getTextDirect $ts) with
  | none =>
    by_cases h1 : Tok.kind $t0 = .mathSpace <;> by_cases h2 : Tok.kind $tl = .mathSpace <;>
      simp [h1, h2]
  | some c =>
    by_cases hp : [c] ∈ PTables.mathPunctuation $T <;>
    by_cases h1 : Tok.kind $t0 = .mathSpace <;> by_cases h2 : Tok.kind $tl = .mathSpace <;>
      simp [h1, h2, hp]))

/-- one maths part in inline mode: the placeholder list is rotated once, the rendering is
    appended; first-part flag unchanged -/
theorem replaceStep_inline_part (T : PTables) (opText : List (Str × Str)) (opDefault : Option Str)
    (s : RsState) (ts : List Tok) (t0 tl : Tok) (r0 : Str)
    (h0 : ts.head? = some t0) (hl : ts.getLast? = some tl)
    (hns : ts.all (·.kind == .mathSpace) = false)
    (hr : (rotL s.repls).head? = some r0) :
    ∃ nr, replaceStep T opText opDefault true s (.part ts) =
      some { firstPart := s.firstPart, nextRepl := nr, repls := rotL s.repls,
             out := s.out ++ inlineShape T ts t0 tl r0 } := by
  simp only [replaceStep, h0, hl, hns, Bool.false_eq_true, if_false, Bool.not_true, Bool.false_and,
    Bool.true_or, if_true, hr, strip_getLast?]
  have hsplit : ∀ o : Option Tok, o = none ∨ ∃ t, o = some t := by
    intro o; cases o <;> simp
  rcases hsplit (List.find? (fun x => x.kind != Kind.mathSpace) ts) with hfo | ⟨t, hfo⟩
  · simp only [hfo]
    inline_fin T ts t0 tl
  · by_cases hk : (t.kind == Kind.mathOper) = true
    · simp only [hfo, hk, if_true]
      inline_fin T ts t0 tl
    · simp only [hfo, hk, if_false, Bool.false_eq_true]
      inline_fin T ts t0 tl

/-- C10 (model): an inline formula that is a single maths part (not only maths spaces) is rendered
    as exactly `[blank] placeholder [closing punctuation] [blank]`; the placeholder is the head of
    the once-rotated collection, which is handed on rotated. -/
theorem replaceSection_inline_single (T : PTables) (opText : List (Str × Str)) (opDefault : Option Str)
    (ts : List Tok) (firstSection nextRepl : Bool) (repls : List Str) (t0 tl : Tok) (r0 : Str)
    (h0 : ts.head? = some t0) (hl : ts.getLast? = some tl)
    (hns : ts.all (·.kind == .mathSpace) = false)
    (hr : (rotL repls).head? = some r0) :
    ∃ rs, replaceSection T opText opDefault true [.part ts] firstSection nextRepl repls = some rs ∧
      rs.repls = rotL repls ∧ rs.firstPart = !firstSection ∧
      rs.out = inlineShape T ts t0 tl r0 := by
  obtain ⟨nr, h⟩ := replaceStep_inline_part T opText opDefault
    { firstPart := !firstSection, nextRepl := nextRepl, repls := repls, out := [] } ts t0 tl r0 h0 hl hns hr
  refine ⟨{ firstPart := !firstSection, nextRepl := nr, repls := rotL repls,
            out := [] ++ inlineShape T ts t0 tl r0 }, ?_, rfl, rfl, by simp⟩
  unfold replaceSection
  simp only [List.foldlM_cons, List.foldlM_nil, h]
  rfl

/-- the same with the side conditions as in the property: `ts ≠ []`, not all maths spaces,
    `repls ≠ []` — the call never fails -/
theorem replaceSection_inline_single' (T : PTables) (opText : List (Str × Str)) (opDefault : Option Str)
    (ts : List Tok) (firstSection nextRepl : Bool) (repls : List Str)
    (hts : ts ≠ []) (hns : ¬ ∀ t ∈ ts, t.kind = .mathSpace) (hrepls : repls ≠ []) :
    ∃ rs, replaceSection T opText opDefault true [.part ts] firstSection nextRepl repls = some rs ∧
      rs.repls = rotL repls ∧ rs.firstPart = !firstSection ∧
      rs.out = inlineShape T ts (ts.head hts) (ts.getLast hts) ((rotL repls).head (rotL_ne_nil repls hrepls)) := by
  apply replaceSection_inline_single
  · exact List.head?_eq_some_head hts
  · exact List.getLast?_eq_some_getLast hts
  · cases hall : ts.all (·.kind == .mathSpace) with
    | false => rfl
    | true =>
      exfalso; apply hns
      intro t ht
      have := List.all_eq_true.1 hall t ht
      simpa using this
  · exact List.head?_eq_some_head _

/-! ### `detectMathParts` on a pure maths section -/

theorem detectMathParts_all_math : ∀ (toks cur : List Tok), (∀ t ∈ toks, isMathTok t = true) →
    detectMathParts toks cur = if (cur.reverse ++ toks).isEmpty then [] else [.part (cur.reverse ++ toks)] := by
  intro toks
  induction toks with
  | nil => intro cur _; cases cur <;> simp [detectMathParts]
  | cons t ts ih =>
    intro cur h
    simp only [detectMathParts, h t (by simp), if_true]
    rw [ih (t :: cur) (fun u hu => h u (by simp [hu]))]
    simp

/-- a section of maths tokens only is a single part -/
theorem detectMathParts_single (toks : List Tok) (h : ∀ t ∈ toks, isMathTok t = true) (hne : toks ≠ []) :
    detectMathParts toks [] = [.part toks] := by
  rw [detectMathParts_all_math toks [] h]
  cases toks with
  | nil => exact absurd rfl hne
  | cons a t => simp

/-- C10 for a section given as tokens -/
theorem replaceSection_inline_mathToks (T : PTables) (opText : List (Str × Str)) (opDefault : Option Str)
    (toks : List Tok) (firstSection nextRepl : Bool) (repls : List Str)
    (hm : ∀ t ∈ toks, isMathTok t = true)
    (hts : toks ≠ []) (hns : ¬ ∀ t ∈ toks, t.kind = .mathSpace) (hrepls : repls ≠ []) :
    ∃ rs, replaceSection T opText opDefault true (detectMathParts toks []) firstSection nextRepl repls = some rs ∧
      rs.repls = rotL repls ∧ rs.firstPart = !firstSection ∧
      rs.out = inlineShape T toks (toks.head hts) (toks.getLast hts)
        ((rotL repls).head (rotL_ne_nil repls hrepls)) := by
  rw [detectMathParts_single toks hm hts]
  exact replaceSection_inline_single' T opText opDefault toks firstSection nextRepl repls hts hns hrepls

end Yalafi
