/-
  Proofs/NoEmptyStepMath.lean — step lemmas of the NoEmpty bundle for `expandMathSection`,
  `expandInlineMath`, `displayLoop`, `expandDisplayMath`.
-/
import YalafiVerif.Proofs.NoEmptyBase1
import YalafiVerif.Proofs.NoEmptyBase2
set_option linter.unusedVariables false
namespace Yalafi
namespace NoEmpty
open M

variable {T : PTables}

/-! ### helpers (all `private`) -/

private theorem Post'_ite {α} (c : Prop) [Decidable c] (x y : M α) (st : PState) (Q : α → PState → Prop)
    (h1 : c → Post' (x st) Q) (h2 : ¬ c → Post' (y st) Q) : Post' ((if c then x else y) st) Q := by
  by_cases h : c
  · rw [if_pos h]; exact h1 h
  · rw [if_neg h]; exact h2 h

private theorem Post'_get_bind {β} (f : PState → M β) (st : PState) (R : β → PState → Prop)
    (h : Post' (f st st) R) : Post' ((M.get >>= f) st) R := by
  apply Post'_bind _ _ _ (Q := fun a s => st = a ∧ st = s)
  · exact Post'_get _ _ ⟨rfl, rfl⟩
  · rintro _ _ ⟨rfl, rfl⟩
    exact h

private theorem ANC_snoc (out : List Tok) (t : Tok) (ho : ANC out) (ht : noCall t = true) : ANC (out ++ [t]) := by
  refine (ANC_append out [t]).2 ⟨ho, ?_⟩
  simp [ht]

private theorem ANC_fin (p : Tok → Bool) (o : List Tok) (h : ANC o) : ANC (o.filter p) :=
  ANC_sublist List.filter_sublist h

private theorem call_of_beq (tok : Tok) (k : Kind) (h : (tok.kind == k) = true)
    (hk : ∀ t : Tok, t.kind = k → noCall t = false) : noCall tok = false :=
  hk tok (by simpa using h)

private theorem NE_mkMath (n p : Nat) (k : Kind) (txt : Str) (hp : p < n)
    (hk : k = .mathSpace ∨ k = .mathOper ∨ k = .mathElem) : NE T n (mkTok k p txt) := by
  rcases hk with rfl | rfl | rfl <;> simp [NE, W, NE0, MB, ctlEmpty, mkTok, hp]

private theorem noCall_mkMath (p : Nat) (k : Kind) (txt : Str)
    (hk : k = .mathSpace ∨ k = .mathOper ∨ k = .mathElem) : noCall (mkTok k p txt) = true := by
  rcases hk with rfl | rfl | rfl <;> rfl

private theorem noCall_isMathTok (t : Tok) (h : isMathTok t = true) : noCall t = true := by
  unfold isMathTok at h; unfold noCall ctlEmpty
  cases hk : t.kind <;> simp_all

/-- postcondition of `SpecMathSec` for entry state `st` -/
private def MathQ (T : PTables) (st : PState) (r : MathSec) (st' : PState) : Prop :=
  Fr T st st' ∧ Buf3 T st.latex.length r.buf ∧ ANC r.out

/-- recursive call of `expandMathSection` from a later state of the same frame -/
private theorem mathSec_rec {fuel : Nat} (IH : SpecMathSec T fuel) {st st1 : PState}
    (hg : Fr T st st1) (buf : Buf) (start : Nat) (toksStop : List Str) (envStop : Option Str) (out : List Tok)
    (hb : Buf3 T st.latex.length buf) (ho : ANC out)
    (he : ∀ nm, envStop = some nm → (endFuncNames T).contains nm = false) :
    Post' (expandMathSection T fuel buf start toksStop envStop out st1) (MathQ T st) := by
  have h1 : st1.latex.length = st.latex.length := hg.len
  have h := IH buf start toksStop envStop out st1 hg.1 (h1 ▸ hb) ho he
  refine Post'_mono _ _ _ h ?_
  rintro r s ⟨g, a, b⟩
  rw [h1] at a
  exact ⟨hg.trans g, a, b⟩

/-! ### `expandMathSection` -/

theorem mathSec_step (hne : tblOkB T = true) (hw : T.WFInv) (fuel : Nat) (IH : AllSpecs T fuel) :
    SpecMathSec T (fuel + 1) := by
  intro buf start toksStop envStop out st hg hb ho he
  change Post' _ (MathQ T st)
  have hsb : Buf3 T st.latex.length (skipSpace buf) := Buf3_dropWhile _ hb
  rw [expandMathSection.eq_2]
  cases hsk : skipSpace buf with
  | nil =>
    dsimp only
    refine Post'_bind _ _ _ _ _ (latexError_spec _ start st hg) ?_
    intro e st1 ⟨hfr, hc, _⟩
    apply Post'_pure
    exact ⟨hfr, Buf3_nil _, ANC_fin _ _ ((ANC_append _ _).2 ⟨hc, ho⟩)⟩
  | cons tok rest =>
    dsimp only
    rw [hsk] at hsb
    have hrest : Buf3 T st.latex.length rest := Buf3_tail hsb
    have hcall : noCall tok = false → W T st.latex.length tok ∧ ANE T st.latex.length rest := Buf3_call hsb
    have hrefl : Fr T st st := Fr.refl hg
    refine Post'_ite _ _ _ _ _ (fun hk => ?_) (fun _ => ?_)
    · -- paragraph
      refine Post'_bind _ _ _ _ _ (latexError_spec _ start st hg) ?_
      intro e st1 ⟨hfr, hc, _⟩
      apply Post'_pure
      exact ⟨hfr, hrest, ANC_fin _ _ ((ANC_append _ _).2 ⟨hc, ho⟩)⟩
    refine Post'_ite _ _ _ _ _ (fun hk => ?_) (fun _ => ?_)
    · -- verbatim token
      exact mathSec_rec IH.mathSec hrefl _ start toksStop envStop _ hrest
        (ANC_snoc _ _ ho (noCall_mkMath _ _ _ (by simp))) he
    refine Post'_ite _ _ _ _ _ (fun hk => ?_) (fun _ => ?_)
    · -- stop token
      apply Post'_pure
      exact ⟨hrefl, hrest, ANC_fin _ _ ho⟩
    refine Post'_ite _ _ _ _ _ (fun hk => ?_) (fun _ => ?_)
    · -- \begin
      obtain ⟨htok, hr⟩ := hcall (call_of_beq tok _ hk (fun t e => by simp [noCall, e]))
      refine Post'_bind _ _ _ _ _ (IH.begin_ rest tok true st hg hr htok.1) ?_
      intro r st1 ⟨hfr, h1⟩
      exact mathSec_rec IH.mathSec hfr _ start toksStop envStop out h1 ho he
    refine Post'_ite _ _ _ _ _ (fun hk => ?_) (fun _ => ?_)
    · -- \end
      obtain ⟨htok, hr⟩ := hcall (call_of_beq tok _ hk (fun t e => by simp [noCall, e]))
      refine Post'_bind _ _ _ _ _ (IH.end_ rest tok envStop st hg hr htok.1) ?_
      intro r st1 ⟨hfr, h1, h2, h3, h4⟩
      refine Post'_ite _ _ _ _ _ (fun hstop => ?_) (fun _ => ?_)
      · apply Post'_pure
        have hne' := h3 hstop
        cases hes : envStop with
        | none => exact absurd hes hne'
        | some nm =>
          exact ⟨hfr, Buf3_of_ANE h2, ANC_fin _ _ ((ANC_append _ _).2 ⟨ho, h4 hstop nm hes (he nm hes)⟩)⟩
      · exact mathSec_rec IH.mathSec hfr _ start toksStop envStop out
          (Buf3_of_ANE ((ANE_append _ _ _).2 ⟨h1, h2⟩)) ho he
    refine Post'_ite _ _ _ _ _ (fun hk => ?_) (fun _ => ?_)
    · -- macro
      obtain ⟨htok, hr⟩ := hcall (call_of_beq tok _ hk (fun t e => by simp [noCall, e]))
      apply Post'_get_bind
      refine Post'_ite _ _ _ _ _ (fun _ => ?_) (fun _ => ?_)
      · -- text macro
        refine Post'_bind _ _ _ _ _ (argBuffer_spec rest tok.pos true st hg) ?_
        intro a st1 ⟨hfr1, ha, _⟩
        obtain ⟨ha1, ha2⟩ := ha hr htok.1
        have hl1 : st1.latex.length = st.latex.length := hfr1.len
        have hseq := IH.seq a.1 none [] st1 hfr1.1 (hl1 ▸ Buf3_of_ANE ha1) ANC_nil
        refine Post'_bind _ _ _ _ _ hseq ?_
        intro e st2 ⟨hfr2, _, he3, _⟩
        exact mathSec_rec IH.mathSec (hfr1.trans hfr2) _ start toksStop envStop _ (Buf3_of_ANE ha2)
          ((ANC_append _ _).2 ⟨ho, he3 rfl⟩) he
      · -- other macro
        refine Post'_bind _ _ _ _ _ (IH.macro_ rest tok true st hg hr htok.1) ?_
        intro r st1 ⟨hfr, h1, h2⟩
        apply Post'_get_bind
        refine mathSec_rec IH.mathSec hfr _ start toksStop envStop out (Buf3_of_ANE ?_) ho he
        rw [ANE_append, ANE_append]
        refine ⟨⟨?_, h1⟩, h2⟩
        intro t ht
        split at ht
        · simp only [List.mem_singleton] at ht; subst ht; exact NE_mkMath _ _ _ _ htok.1 (by simp)
        split at ht
        · simp only [List.mem_singleton] at ht; subst ht; exact NE_mkMath _ _ _ _ htok.1 (by simp)
        split at ht
        · simp only [List.mem_singleton] at ht; subst ht; exact NE_mkMath _ _ _ _ htok.1 (by simp)
        · simp at ht
    · -- other tokens
      apply Post'_get_bind
      refine Post'_ite _ _ _ _ _ (fun hk => ?_) (fun _ => ?_)
      · exact mathSec_rec IH.mathSec hrefl _ start toksStop envStop _ hrest
          (ANC_snoc _ _ ho (noCall_isMathTok tok hk)) he
      refine Post'_ite _ _ _ _ _ (fun hk => ?_) (fun _ => ?_)
      · exact mathSec_rec IH.mathSec hrefl _ start toksStop envStop _ hrest ho he
      refine Post'_ite _ _ _ _ _ (fun hk => ?_) (fun _ => ?_)
      · exact mathSec_rec IH.mathSec hrefl _ start toksStop envStop _ hrest ho he
      refine Post'_ite _ _ _ _ _ (fun hk => ?_) (fun _ => ?_)
      · exact mathSec_rec IH.mathSec hrefl _ start toksStop envStop _ hrest
          (ANC_snoc _ _ ho (noCall_mkMath _ _ _ (by simp))) he
      cases htxt : mathSpecialTxt T tok with
      | none => exact Post'_crash _ _ _ (by decide)
      | some txt =>
        dsimp only
        refine Post'_ite _ _ _ _ _ (fun hk => ?_) (fun _ => ?_)
        · exact mathSec_rec IH.mathSec hrefl _ start toksStop envStop _ hrest
            (ANC_snoc _ _ ho (noCall_mkMath _ _ _ (by simp))) he
        · exact mathSec_rec IH.mathSec hrefl _ start toksStop envStop _ hrest
            (ANC_snoc _ _ ho (noCall_mkMath _ _ _ (by simp))) he

/-! ### `expandInlineMath` -/

private theorem noCall_mkAction (p : Nat) : noCall (mkAction p) = true := rfl
private theorem noCall_mkFix_space (p : Nat) (txt : Str) : noCall (mkFix .space p txt) = true := rfl
private theorem noCall_mkFix_text (p : Nat) (txt : Str) : noCall (mkFix .text p txt) = true := rfl

private theorem Fr_setRot {st st1 : PState} (h : Fr T st st1) (r : Rot) : Fr T st (setRot st1 r) :=
  ⟨StOk_congr h.1 rfl rfl rfl, h.2⟩

theorem inline_step (hne : tblOkB T = true) (hw : T.WFInv) (fuel : Nat) (IH : AllSpecs T fuel) :
    SpecInline T (fuel + 1) := by
  intro buf tok st hg hb
  rw [expandInlineMath.eq_2]
  refine Post'_bind _ _ _ _ _ (IH.mathSec buf tok.pos _ none [] st hg hb ANC_nil (by intro nm h; cases h)) ?_
  intro sec st1 ⟨hfr, hbuf, hout⟩
  apply Post'_get_bind
  dsimp only
  rcases hr : rotOf st1 (curSettings st1) with _ | rot <;>
    rcases hs : settingsOf T (curSettings st1) with _ | ls <;> dsimp only
  · exact Post'_crash _ _ _ (by decide)
  · exact Post'_crash _ _ _ (by decide)
  · exact Post'_crash _ _ _ (by decide)
  · rcases hrs : replaceSection T ls.opText ls.opDefault true (detectMathParts sec.out []) true true rot.inl
      with _ | rs <;> dsimp only
    · exact Post'_crash _ _ _ (by decide)
    · have hro := replaceSection_ANC _ _ _ _ _ _ _ rs hout hrs
      refine Post'_bind _ _ _ _ _ (Post'_modify _ st1 (fun _ s => Fr T st s) (Fr_setRot hfr _)) ?_
      intro _ st2 hfr2
      apply Post'_pure
      refine ⟨hfr2, ?_, hbuf⟩
      exact ANC_snoc _ _ ((ANC_cons _ _).2 ⟨noCall_mkAction _, hro⟩) (noCall_mkAction _)

/-! ### `displayLoop` -/

/-- recursive call of `displayLoop` from a later state of the same frame -/
private theorem dispLoop_rec {fuel : Nat} (IH : SpecDispLoop T fuel) {st st1 : PState}
    (hg : Fr T st st1) (buf : Buf) (start : Nat) (envName : Str) (first next : Bool) (out : List Tok)
    (hb : Buf3 T st.latex.length buf) (ho : ANC out) (he : (endFuncNames T).contains envName = false) :
    Post' (displayLoop T fuel buf start envName first next out st1) (fun r st' =>
      Fr T st st' ∧ ANC r.1 ∧ Buf3 T st.latex.length r.2.1 ∧ ANC r.2.2) := by
  have h1 : st1.latex.length = st.latex.length := hg.len
  have h := IH buf start envName first next out st1 hg.1 (h1 ▸ hb) ho he
  refine Post'_mono _ _ _ h ?_
  rintro r s ⟨g, a, b, c⟩
  rw [h1] at b
  exact ⟨hg.trans g, a, b, c⟩

theorem dispLoop_step (hne : tblOkB T = true) (hw : T.WFInv) (fuel : Nat) (IH : AllSpecs T fuel) :
    SpecDispLoop T (fuel + 1) := by
  intro buf start envName first next out st hg hb ho henv
  rw [displayLoop.eq_2]
  refine Post'_bind _ _ _ _ _ (IH.mathSec buf start _ (some envName) [] st hg hb ANC_nil
    (by intro nm h; cases h; exact henv)) ?_
  intro sec st1 ⟨hfr, hbuf, hsout⟩
  apply Post'_get_bind
  dsimp only
  rcases hr : rotOf st1 (curSettings st1) with _ | rot <;>
    rcases hs : settingsOf T (curSettings st1) with _ | ls <;> dsimp only
  · exact Post'_crash _ _ _ (by decide)
  · exact Post'_crash _ _ _ (by decide)
  · exact Post'_crash _ _ _ (by decide)
  · rcases hrs : replaceSection T ls.opText ls.opDefault false (detectMathParts sec.out []) first next rot.disp
      with _ | rs <;> dsimp only
    · exact Post'_crash _ _ _ (by decide)
    · have hro := replaceSection_ANC _ _ _ _ _ _ _ rs hsout hrs
      refine Post'_bind _ _ _ _ _ (Post'_modify _ st1 (fun _ s => Fr T st s) (Fr_setRot hfr _)) ?_
      intro _ st2 hfr2
      have ho1 : ANC (out ++ rs.out) := (ANC_append _ _).2 ⟨ho, hro⟩
      have hl2 : st2.latex.length = st.latex.length := hfr2.len
      rcases hte : sec.term with _ | e <;> dsimp only
      · apply Post'_pure
        exact ⟨hfr2, ho1, hbuf, latexErrorToks_ANC _ _ _ _⟩
      · refine Post'_ite _ _ _ _ _ (fun _ => ?_) (fun _ => ?_)
        · exact dispLoop_rec IH.dispLoop hfr2 _ _ envName _ _ _ hbuf
            (ANC_snoc _ _ ho1 (noCall_mkFix_space _ _)) henv
        refine Post'_ite _ _ _ _ _ (fun _ => ?_) (fun _ => ?_)
        · refine Post'_bind _ _ _ _ _ (parseNewlineOption_spec sec.buf false st2 hfr2.1 (hl2 ▸ hbuf)) ?_
          intro b st3 ⟨hfr3, hb3⟩
          rw [hl2] at hb3
          exact dispLoop_rec IH.dispLoop (hfr2.trans hfr3) _ _ envName _ _ _ hb3
            (ANC_snoc _ _ ho1 (noCall_mkFix_space _ _)) henv
        refine Post'_ite _ _ _ _ _ (fun _ => ?_) (fun _ => ?_)
        · apply Post'_pure
          exact ⟨hfr2, ho1, hbuf, latexErrorToks_ANC _ _ _ _⟩
        · apply Post'_pure
          exact ⟨hfr2, ho1, hbuf, ANC_nil⟩

/-! ### `expandDisplayMath` -/

theorem display_step (hne : tblOkB T = true) (hw : T.WFInv) (fuel : Nat) (IH : AllSpecs T fuel) :
    SpecDisplay T (fuel + 1) := by
  intro buf tok envName remove st hg hb henv
  have h0 : ANC [mkAction tok.pos, mkFix .space tok.pos [' ', ' ']] := by
    simp [noCall_mkAction, noCall_mkFix_space]
  rw [expandDisplayMath.eq_2]
  refine Post'_bind _ _ _ _ _ (IH.dispLoop buf tok.pos envName true true _ st hg hb h0 henv) ?_
  intro r st1 ⟨hfr, hr1, hr2, hr3⟩
  refine Post'_ite _ _ _ _ _ (fun _ => ?_) (fun _ => ?_)
  · have h1 : ∀ (c : Char) (p : Nat), Post' ((pure (r.2.2 ++ [mkFix Kind.text p [c]], r.2.1) : M (List Tok × Buf)) st1)
        (fun r st' => Fr T st st' ∧ ANC r.1 ∧ Buf3 T st.latex.length r.2) := fun c p =>
      Post'_pure _ _ _ ⟨hfr, ANC_snoc _ _ hr3 (noCall_mkFix_text _ _), hr2⟩
    have h2 : ∀ (p : Nat), Post' ((pure (r.2.2 ++ [mkAction p], r.2.1) : M (List Tok × Buf)) st1)
        (fun r st' => Fr T st st' ∧ ANC r.1 ∧ Buf3 T st.latex.length r.2) := fun p =>
      Post'_pure _ _ _ ⟨hfr, ANC_snoc _ _ hr3 (noCall_mkAction _), hr2⟩
    repeat' split
    all_goals first | exact h1 _ _ | exact h2 _
  · apply Post'_get_bind
    refine Post'_ite _ _ _ _ _ (fun _ => ?_) (fun _ => ?_)
    · rcases hd0 : (rotOf st1 (curSettings st1)).bind (fun x => x.disp.head?) with _ | d0 <;> dsimp only
      · exact Post'_crash _ _ _ (by decide)
      · apply Post'_pure
        refine ⟨hfr, ?_, hr2⟩
        refine ANC_snoc _ _ ((ANC_append _ _).2 ⟨?_, ?_⟩) (noCall_mkAction _)
        · exact (ANC_append _ _).2 ⟨(ANC_append _ _).2 ⟨h0, hr3⟩,
            (ANC_cons _ _).2 ⟨noCall_mkFix_text _ _, ANC_nil⟩⟩
        · repeat' split
          all_goals first | exact (ANC_cons _ _).2 ⟨noCall_mkFix_text _ _, ANC_nil⟩ | exact ANC_nil
    · apply Post'_pure
      exact ⟨hfr, ANC_snoc _ _ hr1 (noCall_mkAction _), hr2⟩

end NoEmpty
end Yalafi
