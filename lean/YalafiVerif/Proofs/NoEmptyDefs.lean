/-
  Proofs/NoEmptyDefs.lean — the buffer-ORDER invariant that closes the open obligation of C07
  (`glossaries.cap_first` on an empty `TextToken`): definitions, closure lemmas, the monadic
  postcondition, and one specification per function of the mutual block of `Model/Expander.lean`.

  Ground truth found by reading / running the model (see the header of
  `Properties/NoEmptyStmt.lean` for the list): a text token with EMPTY text is created at
  FIVE places, not one:
    (1) `.theorem title` with `title = []`      (`\newtheorem{thm}{}` … `\begin{thm}`)
    (2) `.proof` when the current settings do not exist (`proofName` falls back to `[]`)
    (3) `expand_item`: the default label `item_default_label = ['']` is EMPTY, so every plain
        `\item` of `itemize`/default environments pushes `mkFix .text start []`
    (4) `latexErrorToks` when `pos ≥ n` (the first half of a split error mark is `mark.take 0`);
        excluded only by the RANGE invariant (`t.pos < n` for buffer tokens) — the order
        argument alone cannot close the obligation, positions have to be carried as well
    (5) output-only tokens (`\verb||`, special tokens replaced by `""`, placeholders …): they
        reach a buffer only through an unclosed `remove` environment (`expand_sequence` hands its
        output back when the buffer ends), as a tail that contains no macro/environment/item token.

  Invariant:
    `W n t`    position in range (and the end of a `verbatim` token in range)
    `NE n t`   `W n t` and a text token has non-empty text
    `Skip t`   space-like / paragraph token (consumed by both loops without collecting arguments)
    `Pre n b`  buffer = Skip* ++ [any W-token]? ++ NE*     (closed under `tail`/`drop`)
    `ANC b`    no token of `b` can start a call (no macro, begin, end, item, accent, verbatim)
    `Buf3 n b` `Pre n b ∨ ANC b`
-/
import YalafiVerif.Model.Tex2txt
import YalafiVerif.Spec.Inv
namespace Yalafi
namespace NoEmpty

def site : String := "glossaries.py:cap_first:txt[0]"

/-! ### token predicates -/

/-- a `MathBeginToken` names an environment without `end_func` (as `mbOk` of the range bundle):
    the output of a maths section then never contains the result of an end handler -/
def MB (T : PTables) (t : Tok) : Prop :=
  (∀ r, t.kind = .mathBegin r → (endFuncNames T).contains t.txt = false) ∧ ctlEmpty t = true

/-- position part -/
def W (T : PTables) (n : Nat) (t : Tok) : Prop :=
  t.pos < n ∧ (t.kind = .verb true → t.fix = false → t.pos + t.txt.length < n) ∧ MB T t

/-- stored tokens (re-stamped on use): a text token is not empty -/
def NE0 (T : PTables) (t : Tok) : Prop := (t.kind = .text → t.txt ≠ []) ∧ MB T t

def NE (T : PTables) (n : Nat) (t : Tok) : Prop := W T n t ∧ NE0 T t

def ANE (T : PTables) (n : Nat) (ts : List Tok) : Prop := ∀ t ∈ ts, NE T n t
def ANE0 (T : PTables) (ts : List Tok) : Prop := ∀ t ∈ ts, NE0 T t

def Skip (t : Tok) : Prop := (isSpaceTok t = true ∨ t.kind = .par) ∧ t.txt ≠ ['[']

def noCall (t : Tok) : Bool :=
  (match t.kind with
   | .xmacro | .xbegin | .xend | .item | .accent | .verb _ | .mathBegin _ => false
   | _ => true) && ctlEmpty t

def ANC (ts : List Tok) : Prop := ∀ t ∈ ts, noCall t = true

def Pre (T : PTables) (n : Nat) : List Tok → Prop
  | [] => True
  | t :: ts => W T n t ∧ ((Skip t ∧ Pre T n ts) ∨ ANE T n ts)

def Buf3 (T : PTables) (n : Nat) (b : List Tok) : Prop := Pre T n b ∨ ANC b

/-! ### closure lemmas -/

variable {T : PTables}

theorem NE.w {n t} (h : NE T n t) : W T n t := h.1

@[simp] theorem ANE_nil (n) : ANE T n [] := fun _ h => by cases h
@[simp] theorem ANE0_nil : ANE0 T [] := fun _ h => by cases h
@[simp] theorem ANC_nil : ANC [] := fun _ h => by cases h
@[simp] theorem ANE_cons (n t ts) : ANE T n (t :: ts) ↔ NE T n t ∧ ANE T n ts := by simp [ANE]
@[simp] theorem ANE0_cons (t ts) : ANE0 T (t :: ts) ↔ NE0 T t ∧ ANE0 T ts := by simp [ANE0]
@[simp] theorem ANC_cons (t ts) : ANC (t :: ts) ↔ noCall t = true ∧ ANC ts := by simp [ANC]
@[simp] theorem ANE_append (n a b) : ANE T n (a ++ b) ↔ ANE T n a ∧ ANE T n b := by
  simp only [ANE, List.mem_append]; constructor
  · intro h; exact ⟨fun t ht => h t (Or.inl ht), fun t ht => h t (Or.inr ht)⟩
  · rintro ⟨h1, h2⟩ t (ht | ht); exact h1 t ht; exact h2 t ht
@[simp] theorem ANE0_append (a b) : ANE0 T (a ++ b) ↔ ANE0 T a ∧ ANE0 T b := by
  simp only [ANE0, List.mem_append]; constructor
  · intro h; exact ⟨fun t ht => h t (Or.inl ht), fun t ht => h t (Or.inr ht)⟩
  · rintro ⟨h1, h2⟩ t (ht | ht); exact h1 t ht; exact h2 t ht
@[simp] theorem ANC_append (a b) : ANC (a ++ b) ↔ ANC a ∧ ANC b := by
  simp only [ANC, List.mem_append]; constructor
  · intro h; exact ⟨fun t ht => h t (Or.inl ht), fun t ht => h t (Or.inr ht)⟩
  · rintro ⟨h1, h2⟩ t (ht | ht); exact h1 t ht; exact h2 t ht

theorem ANE_sublist {n a b} (hs : List.Sublist a b) (h : ANE T n b) : ANE T n a := fun t ht => h t (hs.subset ht)
theorem ANE0_sublist {a b} (hs : List.Sublist a b) (h : ANE0 T b) : ANE0 T a := fun t ht => h t (hs.subset ht)
theorem ANC_sublist {a b} (hs : List.Sublist a b) (h : ANC b) : ANC a := fun t ht => h t (hs.subset ht)
theorem ANE_subset {n} {a b : List Tok} (hs : ∀ t ∈ a, t ∈ b) (h : ANE T n b) : ANE T n a := fun t ht => h t (hs t ht)
theorem ANC_subset {a b : List Tok} (hs : ∀ t ∈ a, t ∈ b) (h : ANC b) : ANC a := fun t ht => h t (hs t ht)
theorem ANE_ANE0 {n ts} (h : ANE T n ts) : ANE0 T ts := fun t ht => (h t ht).2
theorem ANE_reverse {n ts} (h : ANE T n ts) : ANE T n ts.reverse := fun t ht => h t (List.mem_reverse.1 ht)

theorem Skip_noCall {t} (h : Skip t) (hc : ctlEmpty t = true) : noCall t = true := by
  obtain ⟨h | h, _⟩ := h
  · unfold isSpaceTok at h; unfold noCall; split at h <;> simp_all
  · simp [noCall, h, hc]

theorem noCall_ctl {t} (h : noCall t = true) : ctlEmpty t = true := by
  unfold noCall at h; simp only [Bool.and_eq_true] at h; exact h.2

/-- `noCall` from the kind alone, for a token whose control-token text is known to be empty -/
theorem noCall_of_kind {t} (hc : ctlEmpty t = true)
    (hk : (match t.kind with
           | .xmacro | .xbegin | .xend | .item | .accent | .verb _ | .mathBegin _ => false
           | _ => true) = true) : noCall t = true := by
  unfold noCall; rw [hk, hc]; rfl

theorem Pre_nil (n) : Pre T n [] := trivial

theorem Pre_of_ANE {n} : ∀ {b}, ANE T n b → Pre T n b
  | [], _ => trivial
  | t :: ts, h => ⟨(h t (by simp)).1, Or.inr (fun x hx => h x (by simp [hx]))⟩

theorem Pre_tail {n t ts} (h : Pre T n (t :: ts)) : Pre T n ts := by
  rcases h.2 with ⟨_, h⟩ | h
  · exact h
  · exact Pre_of_ANE h

theorem Pre_head {n t ts} (h : Pre T n (t :: ts)) : W T n t := h.1

theorem Pre_W {n} : ∀ {b}, Pre T n b → ∀ t ∈ b, W T n t
  | [], _, t, ht => by cases ht
  | x :: xs, h, t, ht => by
    rcases List.mem_cons.1 ht with rfl | ht
    · exact h.1
    · exact Pre_W (Pre_tail h) t ht

theorem Pre_notSkip {n t ts} (h : Pre T n (t :: ts)) (hs : ¬ Skip t) : ANE T n ts := by
  rcases h.2 with ⟨h1, _⟩ | h
  · exact absurd h1 hs
  · exact h

theorem Pre_cons_skip {n t ts} (hw : W T n t) (hs : Skip t) (h : Pre T n ts) : Pre T n (t :: ts) :=
  ⟨hw, Or.inl ⟨hs, h⟩⟩

theorem Pre_cons_any {n t ts} (hw : W T n t) (h : ANE T n ts) : Pre T n (t :: ts) := ⟨hw, Or.inr h⟩

theorem Pre_append {n} : ∀ {a b}, Pre T n a → ANE T n b → Pre T n (a ++ b)
  | [], _, _, hb => Pre_of_ANE hb
  | t :: ts, b, ha, hb => by
    refine ⟨ha.1, ?_⟩
    rcases ha.2 with ⟨h1, h2⟩ | h
    · exact Or.inl ⟨h1, Pre_append h2 hb⟩
    · exact Or.inr ((ANE_append n ts b).2 ⟨h, hb⟩)

theorem Pre_skips_append {n} : ∀ {a b}, (∀ t ∈ a, Skip t ∧ W T n t) → Pre T n b → Pre T n (a ++ b)
  | [], _, _, hb => hb
  | t :: ts, b, ha, hb =>
    ⟨(ha t (by simp)).2, Or.inl ⟨(ha t (by simp)).1, Pre_skips_append (fun x hx => ha x (by simp [hx])) hb⟩⟩

theorem Pre_drop {n} : ∀ (k : Nat) {b}, Pre T n b → Pre T n (b.drop k)
  | 0, _, h => h
  | _ + 1, [], _ => trivial
  | k + 1, _ :: ts, h => Pre_drop k (Pre_tail h)

theorem Pre_dropWhile {n} (p : Tok → Bool) : ∀ {b}, Pre T n b → Pre T n (b.dropWhile p)
  | [], _ => trivial
  | t :: ts, h => by
    rw [List.dropWhile_cons]; split
    · exact Pre_dropWhile p (Pre_tail h)
    · exact h

theorem ANC_drop (k : Nat) {b} (h : ANC b) : ANC (b.drop k) := ANC_sublist (List.drop_sublist k b) h
theorem ANC_dropWhile (p : Tok → Bool) {b} (h : ANC b) : ANC (b.dropWhile p) :=
  ANC_sublist (List.dropWhile_sublist p) h
theorem ANE_drop {n} (k : Nat) {b} (h : ANE T n b) : ANE T n (b.drop k) := ANE_sublist (List.drop_sublist k b) h
theorem ANE_dropWhile {n} (p : Tok → Bool) {b} (h : ANE T n b) : ANE T n (b.dropWhile p) :=
  ANE_sublist (List.dropWhile_sublist p) h

theorem Buf3_of_ANE {n b} (h : ANE T n b) : Buf3 T n b := Or.inl (Pre_of_ANE h)
theorem Buf3_of_Pre {n b} (h : Pre T n b) : Buf3 T n b := Or.inl h
theorem Buf3_nil (n) : Buf3 T n [] := Or.inl trivial
theorem Buf3_tail {n t ts} (h : Buf3 T n (t :: ts)) : Buf3 T n ts := by
  rcases h with h | h
  · exact Or.inl (Pre_tail h)
  · exact Or.inr (fun x hx => h x (by simp [hx]))
theorem Buf3_drop {n} (k : Nat) {b} (h : Buf3 T n b) : Buf3 T n (b.drop k) :=
  h.elim (fun h => Or.inl (Pre_drop k h)) (fun h => Or.inr (ANC_drop k h))
theorem Buf3_dropWhile {n} (p : Tok → Bool) {b} (h : Buf3 T n b) : Buf3 T n (b.dropWhile p) :=
  h.elim (fun h => Or.inl (Pre_dropWhile p h)) (fun h => Or.inr (ANC_dropWhile p h))

/-- the head of the buffer starts a call: it is in range and everything behind it is `NE` -/
theorem Buf3_call {n t ts} (h : Buf3 T n (t :: ts)) (hc : noCall t = false) : W T n t ∧ ANE T n ts := by
  rcases h with h | h
  · refine ⟨h.1, Pre_notSkip h ?_⟩
    intro hs; rw [Skip_noCall hs h.1.2.2.2] at hc; cases hc
  · have := h t (by simp); rw [hc] at this; cases this

/-- the head of a buffer has the class invariant of control tokens (empty text) -/
theorem Buf3_head_ctl {n t ts} (h : Buf3 T n (t :: ts)) : ctlEmpty t = true := by
  rcases h with h | h
  · exact h.1.2.2.2
  · exact noCall_ctl (h t (by simp))

theorem W_ctl {n t} (h : W T n t) : ctlEmpty t = true := h.2.2.2

/-- a token with text `[` in front: an optional argument can be collected behind it -/
theorem Pre_bracket {n t ts} (h : Pre T n (t :: ts)) (ht : t.txt = ['[']) : ANE T n (t :: ts) := by
  have h2 : ANE T n ts := Pre_notSkip h (fun hs => hs.2 ht)
  refine (ANE_cons n t ts).2 ⟨⟨h.1, fun _ => by rw [ht]; simp, h.1.2.2⟩, h2⟩

/-- an action or language token that is in range has empty text, hence is `Skip` -/
theorem W_skip_ctl {n t} (h : W T n t) (hk : t.kind = .action ∨ isLangK t = true) : Skip t := by
  have hc := h.2.2.2
  unfold ctlEmpty at hc
  unfold Skip isSpaceTok
  unfold isLangK at hk
  rcases hk with hk | hk
  · rw [hk] at hc ⊢; simp_all
  · split at hk <;> simp_all

/-! ### state and tables -/

structure MacOk (T : PTables) (m : MacroDef) : Prop where
  repl : ANE0 T m.repl
  defaults : ∀ d ∈ m.defaults, ANE0 T d
  extract : ANE0 T m.extract

/-- handlers whose result may START with an empty text token -/
def isFront : Handler → Bool
  | .theorem _ => true
  | .proof => true
  | _ => false

def EnvOk (T : PTables) (m : MacroDef) : Prop :=
  MacOk T m ∧ isFront m.endFunc = false ∧ (m.remove = true → m.handler = .none ∧ m.repl = []) ∧ envOk T m = true

def glossOk (T : PTables) (g : List (Str × List (Str × Option (List Tok)))) : Prop :=
  ∀ e ∈ g, ∀ kv ∈ e.2, ∀ ts, kv.2 = some ts → ANE0 T ts

structure StOk (T : PTables) (st : PState) : Prop where
  macros : ∀ m ∈ st.macros, MacOk T m ∧ isFront m.handler = false
  envs : ∀ m ∈ st.envs, EnvOk T m
  gloss : glossOk T st.glossary

theorem StOk_congr {st st' : PState} (h : StOk T st) (h1 : st'.macros = st.macros) (h2 : st'.envs = st.envs)
    (h3 : st'.glossary = st.glossary) : StOk T st' :=
  ⟨by rw [h1]; exact h.macros, by rw [h2]; exact h.envs, by rw [h3]; exact h.gloss⟩

def ModOk (T : PTables) (md : ModuleDef) : Prop :=
  (∀ m ∈ md.macros, MacOk T m ∧ isFront m.handler = false) ∧ (∀ m ∈ md.envs, EnvOk T m)

/-- decidable table condition (Bool), `TblOk` below is its Prop reading -/
def ne0B (t : Tok) : Bool :=
  (!(t.kind == .text) || !t.txt.isEmpty) && (match t.kind with | .mathBegin _ => false | _ => true) && ctlEmpty t
def macOkB (m : MacroDef) : Bool :=
  m.repl.all ne0B && m.defaults.all (·.all ne0B) && m.extract.all ne0B
def macroOkB (m : MacroDef) : Bool := macOkB m && !isFront m.handler
def envOkB (T : PTables) (m : MacroDef) : Bool :=
  macOkB m && !isFront m.endFunc && (!m.remove || (m.handler == .none && m.repl.isEmpty)) && envOk T m

/-- the NEW decidable condition on the tables -/
def tblOkB (T : PTables) : Bool :=
  (T.macroDefsPython ++ T.noSpecialsMacros).all macroOkB
  && T.environmentDefs.all (envOkB T)
  && (T.packageModules ++ T.classModules).all (fun md => md.macros.all macroOkB && md.envs.all (envOkB T))
  && !T.citeText.isEmpty
  && T.upperMap.all (fun e => !e.2.isEmpty)

theorem ne0B_iff (t : Tok) (h : ne0B t = true) : NE0 T t := by
  unfold ne0B at h; unfold NE0 MB
  cases hk : t.kind <;> simp_all [List.isEmpty_iff, ctlEmpty]

theorem macOkB_MacOk (m : MacroDef) (h : macOkB m = true) : MacOk T m := by
  simp only [macOkB, Bool.and_eq_true, List.all_eq_true] at h
  exact ⟨fun t ht => ne0B_iff t (h.1.1 t ht), fun d hd t ht => ne0B_iff t (h.1.2 d hd t ht),
    fun t ht => ne0B_iff t (h.2 t ht)⟩

theorem macroOkB_ok (m : MacroDef) (h : macroOkB m = true) : MacOk T m ∧ isFront m.handler = false := by
  simp only [macroOkB, Bool.and_eq_true, Bool.not_eq_true'] at h
  exact ⟨macOkB_MacOk m h.1, h.2⟩

theorem envOkB_ok (m : MacroDef) (h : envOkB T m = true) : EnvOk T m := by
  simp only [envOkB, Bool.and_eq_true, Bool.not_eq_true', Bool.or_eq_true, beq_iff_eq,
    List.isEmpty_iff] at h
  refine ⟨macOkB_MacOk m h.1.1.1, h.1.1.2, fun hr => ?_, h.2⟩
  rcases h.1.2 with h2 | h2
  · rw [hr] at h2; cases h2
  · exact h2

/-! ### postcondition -/

/-- nothing is claimed for `fatal` / `outOfFuel`; a crash is never the `cap_first` site -/
def Post' {α} (x : Outcome (α × PState)) (Q : α → PState → Prop) : Prop :=
  match x with
  | .ok (a, s) => Q a s
  | .crash c => c ≠ site
  | _ => True

theorem Post'_pure {α} (a : α) (st : PState) (Q : α → PState → Prop) (h : Q a st) :
    Post' ((pure a : M α) st) Q := h

theorem Post'_bind {α β} (x : M α) (f : α → M β) (st : PState) (Q : α → PState → Prop) (R : β → PState → Prop)
    (hx : Post' (x st) Q) (hf : ∀ a s, Q a s → Post' (f a s) R) : Post' ((x >>= f) st) R := by
  show Post' (M.bind' x f st) R
  unfold M.bind'
  cases hxs : x st with
  | ok r => obtain ⟨a, s⟩ := r; rw [hxs] at hx; exact hf a s hx
  | fatal m => trivial
  | crash c => rw [hxs] at hx; exact hx
  | outOfFuel => trivial

theorem Post'_mono {α} (x : Outcome (α × PState)) (Q R : α → PState → Prop)
    (h : Post' x Q) (hi : ∀ a s, Q a s → R a s) : Post' x R := by
  cases x with
  | ok r => obtain ⟨a, s⟩ := r; exact hi a s h
  | fatal m => trivial
  | crash c => exact h
  | outOfFuel => trivial

theorem Post'_get (st : PState) (Q : PState → PState → Prop) (h : Q st st) : Post' (M.get st) Q := h
theorem Post'_modify (f : PState → PState) (st : PState) (Q : Unit → PState → Prop) (h : Q () (f st)) :
    Post' (M.modify f st) Q := h
theorem Post'_crash {α} (s : String) (st : PState) (Q : α → PState → Prop) (h : s ≠ site) :
    Post' ((M.crash s : M α) st) Q := h
theorem Post'_fatal {α} (msg : Str) (st : PState) (Q : α → PState → Prop) : Post' ((M.fatal msg : M α) st) Q :=
  trivial
theorem Post'_outOfFuel {α} (st : PState) (Q : α → PState → Prop) : Post' ((M.outOfFuel : M α) st) Q := trivial
theorem Post'_catchAll {α} (x : M α) (msg : Str) (st : PState) (Q : α → PState → Prop) (h : Post' (x st) Q) :
    Post' (catchAll x msg st) Q := by
  unfold catchAll
  cases hxs : x st with
  | ok r => rw [hxs] at h; exact h
  | fatal m => trivial
  | crash c => trivial
  | outOfFuel => trivial

/-- frame: invariant kept, `latex` (hence `n`) unchanged -/
def Fr (T : PTables) (st st' : PState) : Prop := StOk T st' ∧ st'.latex = st.latex

theorem Fr.refl {st} (h : StOk T st) : Fr T st st := ⟨h, rfl⟩
theorem Fr.trans {a b c} (h1 : Fr T a b) (h2 : Fr T b c) : Fr T a c := ⟨h2.1, h2.2.trans h1.2⟩
theorem Fr.len {a b} (h : Fr T a b) : b.latex.length = a.latex.length := by rw [h.2]

/-! ### specifications (`n` = `st.latex.length`) -/

/-- tokens a package injects on loading: `NE` if the place of the `\usepackage` is inside the text; never
    verbatim tokens (they are re-stamped by `filter_set_toks` WITHOUT pinning) -/
def InjOk (T : PTables) (n position : Nat) (r : List Tok) : Prop :=
  (position < n → ANE T n r) ∧ (∀ t ∈ r, t.kind ≠ .verb true)

theorem InjOk_nil (T : PTables) (n position : Nat) : InjOk T n position [] :=
  ⟨fun _ => ANE_nil n, fun _ h => by cases h⟩

theorem InjOk_append {T : PTables} {n position : Nat} {a b : List Tok} (ha : InjOk T n position a)
    (hb : InjOk T n position b) : InjOk T n position (a ++ b) :=
  ⟨fun hp => (ANE_append n a b).2 ⟨ha.1 hp, hb.1 hp⟩, fun t ht => by
    rcases List.mem_append.1 ht with h | h
    · exact ha.2 t h
    · exact hb.2 t h⟩

def kvOk (T : PTables) (n : Nat) (kvs : List (Str × Option (List Tok))) : Prop :=
  ∀ kv ∈ kvs, ∀ ts, kv.2 = some ts → ANE T n ts

/-- result of a handler: in range, `NE` behind the first token, wholly `NE` unless `isFront` -/
def HRes (T : PTables) (n : Nat) (h : Handler) (r : List Tok) : Prop :=
  (isFront h = false → ANE T n r) ∧
  (match r with | [] => True | t :: ts => W T n t ∧ ANE T n ts)

section
variable (T)

def SpecSeq (fuel : Nat) : Prop :=
  ∀ (buf : Buf) (envStop : Option Str) (out : List Tok) (st : PState),
    StOk T st → Buf3 T st.latex.length buf → ANC out →
    Post' (expandSequence T fuel buf envStop out st) (fun r st' =>
      Fr T st st' ∧ ANE T st.latex.length r.2 ∧ (envStop = none → ANC r.1) ∧
      (ANE T st.latex.length r.1 ∨ (ANC r.1 ∧ r.2 = [])))

def SpecText (fuel : Nat) : Prop :=
  ∀ (toks : List Tok) (st : PState), StOk T st → Buf3 T st.latex.length toks →
    Post' (getTextExpanded T fuel toks st) (fun _ st' => Fr T st st')

def SpecEnvName (fuel : Nat) : Prop :=
  ∀ (buf : Buf) (tok : Tok) (st : PState), StOk T st → ANE T st.latex.length buf → tok.pos < st.latex.length →
    Post' (getEnvironmentName T fuel buf tok st) (fun r st' => Fr T st st' ∧ ANE T st.latex.length r.2)

def SpecBegin (fuel : Nat) : Prop :=
  ∀ (buf : Buf) (tok : Tok) (math : Bool) (st : PState),
    StOk T st → ANE T st.latex.length buf → tok.pos < st.latex.length →
    Post' (beginEnvironment T fuel buf tok math st) (fun r st' =>
      Fr T st st' ∧ Buf3 T st.latex.length (r.1 ++ r.2))

def SpecEnd (fuel : Nat) : Prop :=
  ∀ (buf : Buf) (tok : Tok) (envStop : Option Str) (st : PState),
    StOk T st → ANE T st.latex.length buf → tok.pos < st.latex.length →
    Post' (endEnvironment T fuel buf tok envStop st) (fun r st' =>
      Fr T st st' ∧ ANE T st.latex.length r.1.1 ∧ ANE T st.latex.length r.2 ∧ (r.1.2 = true → envStop ≠ none) ∧
      (r.1.2 = true → ∀ nm, envStop = some nm → (endFuncNames T).contains nm = false → ANC r.1.1))

def SpecMacro (fuel : Nat) : Prop :=
  ∀ (buf : Buf) (tok : Tok) (math : Bool) (st : PState),
    StOk T st → ANE T st.latex.length buf → tok.pos < st.latex.length →
    Post' (expandMacro T fuel buf tok math st) (fun r st' =>
      Fr T st st' ∧ ANE T st.latex.length r.1 ∧ ANE T st.latex.length r.2)

def SpecArgs (fuel : Nat) : Prop :=
  ∀ (buf : Buf) (mac : MacroDef) (start : Nat) (st : PState),
    StOk T st → ANE T st.latex.length buf → MacOk T mac → start < st.latex.length →
    Post' (expandArguments T fuel buf mac start st) (fun r st' =>
      Fr T st st' ∧ Pre T st.latex.length r.1 ∧ ANE T st.latex.length r.2 ∧
      (isFront mac.handler = false → ANE T st.latex.length r.1) ∧
      (mac.handler = .none → mac.repl = [] → ANC r.1))

def SpecItem (fuel : Nat) : Prop :=
  ∀ (buf : Buf) (tok : Tok) (outSoFar : List Tok) (st : PState),
    StOk T st → ANE T st.latex.length buf → tok.pos < st.latex.length →
    Post' (expandItem T fuel buf tok outSoFar st) (fun r st' =>
      Fr T st st' ∧ Pre T st.latex.length r.1 ∧ ANE T st.latex.length r.2)

def SpecAccent (fuel : Nat) : Prop :=
  ∀ (buf : Buf) (tok : Tok) (st : PState),
    StOk T st → ANE T st.latex.length buf → tok.pos < st.latex.length →
    Post' (expandAccent T fuel buf tok st) (fun r st' =>
      Fr T st st' ∧ ANC r.1 ∧ ANE T st.latex.length r.2)

def SpecWork (fuel : Nat) : Prop :=
  ∀ (latex : Str) (st : PState), StOk T st →
    Post' (parserWork T fuel latex st) (fun r st' => Fr T st st' ∧ ANC r)

def langOnly (ts : List Tok) : Prop := ∀ t ∈ ts, isLang t = true ∧ t.txt = []

/- NB (model update "cleveref"): the tokens a package injects on loading (`inject_tokens`) are language
   tokens at position 0 or the halves of an error mark at the place of the `\usepackage`; they are `NE`
   whenever that place is inside the text (`position < n`; at parser initialisation, `n = 0`, they are
   dropped by `initParser`). -/

def SpecInit (fuel : Nat) : Prop :=
  ∀ (name : Str) (md : ModuleDef) (builtin : Bool) (options : List KeyVal) (position : Nat) (st : PState),
    StOk T st → ModOk T md →
    Post' (initPackage T fuel name md builtin options position st) (fun r st' =>
      Fr T st st' ∧ InjOk T st.latex.length position r)

def SpecModParams (fuel : Nat) : Prop :=
  ∀ (md : ModuleDef) (options : List KeyVal) (position : Nat) (st : PState),
    StOk T st → ModOk T md →
    Post' (modifyParameters T fuel md options position st) (fun r st' =>
      Fr T st st' ∧ InjOk T st.latex.length position r)

def SpecKeyvals (fuel : Nat) : Prop :=
  ∀ (buf : Buf) (acc : List (Str × Option (List Tok))) (st : PState),
    StOk T st → ANE T st.latex.length buf → kvOk T st.latex.length acc →
    Post' (parseKeyvals T fuel buf acc st) (fun r st' => Fr T st st' ∧ kvOk T st.latex.length r)

def SpecValue (fuel : Nat) : Prop :=
  ∀ (buf : Buf) (val : List Tok) (st : PState),
    StOk T st → ANE T st.latex.length buf → ANE T st.latex.length val →
    Post' (parseValue T fuel buf val st) (fun r st' =>
      Fr T st st' ∧ ANE T st.latex.length r.1 ∧ ANE T st.latex.length r.2)

def SpecExpandKv (fuel : Nat) : Prop :=
  ∀ (kvs : List (Str × Option (List Tok))) (st : PState), StOk T st → kvOk T st.latex.length kvs →
    Post' (expandKeyvals T fuel kvs st) (fun _ st' => Fr T st st')

def SpecModDesc (fuel : Nat) : Prop :=
  ∀ (toks : List Tok) (st : PState), StOk T st → ANE T st.latex.length toks →
    Post' (modifyDescription T fuel toks st) (fun r st' => Fr T st st' ∧ ANE T st.latex.length r)

def SpecHandler (fuel : Nat) : Prop :=
  ∀ (h : Handler) (buf : Buf) (mac : MacroDef) (args : List (List Tok)) (pos : Nat) (st : PState),
    StOk T st → (∀ a ∈ args, ANE T st.latex.length a) → pos < st.latex.length →
    Post' (callHandler T fuel h buf mac args pos st) (fun r st' => Fr T st st' ∧ HRes T st.latex.length h r)

def SpecMathSec (fuel : Nat) : Prop :=
  ∀ (buf : Buf) (start : Nat) (toksStop : List Str) (envStop : Option Str) (out : List Tok) (st : PState),
    StOk T st → Buf3 T st.latex.length buf → ANC out →
    (∀ nm, envStop = some nm → (endFuncNames T).contains nm = false) →
    Post' (expandMathSection T fuel buf start toksStop envStop out st) (fun r st' =>
      Fr T st st' ∧ Buf3 T st.latex.length r.buf ∧ ANC r.out)

def SpecInline (fuel : Nat) : Prop :=
  ∀ (buf : Buf) (tok : Tok) (st : PState), StOk T st → Buf3 T st.latex.length buf →
    Post' (expandInlineMath T fuel buf tok st) (fun r st' =>
      Fr T st st' ∧ ANC r.1 ∧ Buf3 T st.latex.length r.2)

def SpecDispLoop (fuel : Nat) : Prop :=
  ∀ (buf : Buf) (start : Nat) (envName : Str) (first next : Bool) (out : List Tok) (st : PState),
    StOk T st → Buf3 T st.latex.length buf → ANC out → (endFuncNames T).contains envName = false →
    Post' (displayLoop T fuel buf start envName first next out st) (fun r st' =>
      Fr T st st' ∧ ANC r.1 ∧ Buf3 T st.latex.length r.2.1 ∧ ANC r.2.2)

def SpecDisplay (fuel : Nat) : Prop :=
  ∀ (buf : Buf) (tok : Tok) (envName : Str) (remove : Bool) (st : PState),
    StOk T st → Buf3 T st.latex.length buf → (endFuncNames T).contains envName = false →
    Post' (expandDisplayMath T fuel buf tok envName remove st) (fun r st' =>
      Fr T st st' ∧ ANC r.1 ∧ Buf3 T st.latex.length r.2)

structure AllSpecs (fuel : Nat) : Prop where
  seq : SpecSeq T fuel
  text : SpecText T fuel
  envName : SpecEnvName T fuel
  begin_ : SpecBegin T fuel
  end_ : SpecEnd T fuel
  macro_ : SpecMacro T fuel
  args : SpecArgs T fuel
  item : SpecItem T fuel
  accent : SpecAccent T fuel
  work : SpecWork T fuel
  init : SpecInit T fuel
  modParams : SpecModParams T fuel
  keyvals : SpecKeyvals T fuel
  value : SpecValue T fuel
  expandKv : SpecExpandKv T fuel
  modDesc : SpecModDesc T fuel
  handler : SpecHandler T fuel
  mathSec : SpecMathSec T fuel
  inline : SpecInline T fuel
  dispLoop : SpecDispLoop T fuel
  display : SpecDisplay T fuel

end

end NoEmpty
end Yalafi
