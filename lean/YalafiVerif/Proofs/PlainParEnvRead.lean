/-
  Proofs/PlainParEnvRead.lean — the PARAGRAPH-LEVEL reading of the end-to-end theorem
  `PlainParEnv.tex2txt_parenv` (inert text, `\par`, paragraph-forming environments
  `\begin{name}{arg}` … `\end{name}`), with the mark-level facts of Proofs/PlainPara.lean.

  The document is written as `docAB A u a Mid b v B = A ++ .txt (u ++ [a]) :: (Mid ++ .txt (b :: v) :: B)`
  with two visible text characters `a`, `b`.

    `ref_docAB`      the reference output cut at `a` and `b`:
                     `pre … ++ (a, posA) :: (between … ++ (b, posB) :: post …)`
    `layout`         the layout of the source between `a` and `b` as the filter reads it: text by
                     the class of its characters, `\par ws` = ink and two line breaks (`ws` is
                     swallowed), `\begin{name}{arg}` = two line breaks and ink, `\end{name}` = two
                     line breaks
    `between_blank`  the output between `a` and `b` holds a blank line IFF `layout Mid` does
    `hasBreak`, `between_break`   … in particular whenever a `\par`, a `\begin{…}{…}` or an `\end{…}`
                     stands between `a` and `b`
    `between_text`   … and, if only text stands between them, iff that text holds a blank line
    `starts`, `textChars`, `marks_origin`, `out_origin`, `starts_backslash`
                     every output character is a text character at its own position or a line
                     break that carries the position of the backslash of a `\par`, `\begin` or `\end`
-/
import YalafiVerif.Proofs.PlainParEnv
namespace Yalafi
namespace PlainParEnv

open PlainMacro
open PlainPara
open PlainRef (fixMarks)
open PlainItem (nBegin nEnd)

/-! ### `marks` of a concatenation -/

theorem render_append : ∀ (X Y : List Seg), render (X ++ Y) = render X ++ render Y
  | [], _ => rfl
  | s :: X, Y => by simp [render, render_append X Y]

theorem seg_len (s : Seg) : s.render.length = s.len := by
  cases s <;> simp [Seg.render, Seg.len, parName, nBegin, nEnd] <;> omega

theorem render_cons_len (s : Seg) (X : List Seg) :
    (render (s :: X)).length = s.len + (render X).length := by
  simp only [render, List.length_append, seg_len]

theorem marks_append (Y : List Seg) : ∀ (X : List Seg) (p : Nat),
    marks p (X ++ Y) = marks p X ++ marks (p + (render X).length) Y
  | [], p => by simp [marks, render]
  | .txt s :: X, p => by
    rw [render_cons_len]
    simp only [List.cons_append, marks, marks_append Y X, Seg.len, List.append_assoc, Nat.add_assoc]
  | .par ws :: X, p => by
    rw [render_cons_len]
    simp only [List.cons_append, marks, marks_append Y X, Seg.len, List.append_assoc, Nat.add_assoc]
  | .beg name arg :: X, p => by
    rw [render_cons_len]
    simp only [List.cons_append, marks, marks_append Y X, Seg.len, List.append_assoc, Nat.add_assoc]
  | .en name :: X, p => by
    rw [render_cons_len]
    simp only [List.cons_append, marks, marks_append Y X, Seg.len, List.append_assoc, Nat.add_assoc]

/-! ### the document cut at two visible characters -/

/-- the document with the two marked characters -/
def docAB (A : List Seg) (u : Str) (a : Char) (Mid : List Seg) (b : Char) (v : Str) (B : List Seg) :
    List Seg :=
  A ++ .txt (u ++ [a]) :: (Mid ++ .txt (b :: v) :: B)

/-- the (0-based) source position of `a` -/
def posA (A : List Seg) (u : Str) : Nat := (render A).length + u.length

/-- the (0-based) source position of `b` -/
def posB (A : List Seg) (u : Str) (Mid : List Seg) : Nat := posA A u + 1 + (render Mid).length

/-- the marks of `Mid` in its place -/
def midMarks (A : List Seg) (u : Str) (Mid : List Seg) : List Mark := marks (posA A u + 1) Mid

/-- **the output characters strictly between `a` and `b`**, with 0-based positions -/
def between (A : List Seg) (u : Str) (Mid : List Seg) : List (Char × Nat) := sep (midMarks A u Mid)

/-- the marks in front of `a` -/
def frontMarks (A : List Seg) (u : Str) : List Mark :=
  marks 0 A ++ (posText (render A).length u).map some

/-- the marks behind `b` -/
def backMarks (A : List Seg) (u : Str) (Mid : List Seg) (v : Str) (B : List Seg) : List Mark :=
  (posText (posB A u Mid + 1) v).map some ++ marks (posB A u Mid + 1 + v.length) B

theorem marks_docAB (A : List Seg) (u : Str) (a : Char) (Mid : List Seg) (b : Char) (v : Str)
    (B : List Seg) :
    marks 0 (docAB A u a Mid b v B)
      = frontMarks A u ++ some (a, posA A u)
          :: (midMarks A u Mid ++ some (b, posB A u Mid) :: backMarks A u Mid v B) := by
  unfold docAB frontMarks midMarks backMarks posB posA
  rw [marks_append]
  simp only [Nat.zero_add, marks]
  rw [marks_append]
  simp only [marks, posText_append, List.map_append, posText, List.map_cons, List.map_nil,
    List.append_assoc, List.cons_append, List.length_append,
    List.length_cons, List.length_nil, List.nil_append]
  have e1 : (render A).length + (u.length + (0 + 1)) = (render A).length + u.length + 1 := by omega
  have e2 : (render A).length + u.length + 1 + (render Mid).length + (v.length + 1)
      = (render A).length + u.length + 1 + (render Mid).length + 1 + v.length := by omega
  rw [e1, e2]

/-- **the reference output of the document, cut at `a` and `b`** -/
theorem ref_docAB (A : List Seg) (u : Str) (a : Char) (Mid : List Seg) (b : Char) (v : Str)
    (B : List Seg) (ha : isSpace a = false) (hb : isSpace b = false) :
    delLines (marks 0 (docAB A u a Mid b v B))
      = pre (frontMarks A u) ++ (a, posA A u)
          :: (between A u Mid ++ (b, posB A u Mid) :: post (backMarks A u Mid v B)) := by
  rw [marks_docAB]
  exact delLines_between (frontMarks A u) (midMarks A u Mid) (backMarks A u Mid v B)
    (a, posA A u) (b, posB A u Mid) ha hb

/-! ### blank lines -/

/-- the layout of the source as the filter reads it -/
def layout : List Seg → List Cls
  | [] => []
  | .txt s :: rest => s.map clsC ++ layout rest
  | .par _ :: rest => .ink :: .nl :: .nl :: layout rest
  | .beg _ _ :: rest => .nl :: .nl :: .ink :: layout rest
  | .en _ :: rest => .nl :: .nl :: layout rest

theorem clsM_posText : ∀ (s : Str) (p : Nat), ((posText p s).map some).map clsM = s.map clsC
  | [], _ => rfl
  | c :: cs, p => by simp [posText, clsM, clsM_posText cs]

theorem clsC_nl' : clsC nl = .nl := by decide

theorem marks_layout : ∀ (Mid : List Seg) (p : Nat), (marks p Mid).map clsM = layout Mid
  | [], _ => rfl
  | .txt s :: rest, p => by
    simp only [marks, layout, List.map_append, clsM_posText, marks_layout rest]
  | .par ws :: rest, p => by
    simp [marks, layout, fixMarks, clsM, clsC_nl', marks_layout rest]
  | .beg name arg :: rest, p => by
    simp [marks, layout, fixMarks, clsM, clsC_nl', marks_layout rest]
  | .en name :: rest, p => by
    simp [marks, layout, fixMarks, clsM, clsC_nl', marks_layout rest]

/-- **the output between `a` and `b` holds a blank line iff the layout of the source between
    them does** -/
theorem between_blank (A : List Seg) (u : Str) (Mid : List Seg) :
    hasBlank ((between A u Mid).map clsP) = hasBlank (layout Mid) := by
  unfold between midMarks
  rw [sep_blank, marks_layout]

/-- a `\par`, a `\begin{…}{…}` or an `\end{…}` stands in the list -/
def hasBreak : List Seg → Bool
  | [] => false
  | .txt _ :: rest => hasBreak rest
  | _ :: _ => true

theorem layout_break : ∀ (Mid : List Seg) (s : Bool), hasBreak Mid = true →
    blankGo s (layout Mid) = true
  | [], _, h => by simp [hasBreak] at h
  | .txt t :: rest, s, h => by
    simp only [hasBreak] at h
    simp only [layout]
    exact blankGo_append_right _ _ s (layout_break rest false h)
  | .par _ :: rest, s, _ => by simp [layout, blankGo]
  | .beg _ _ :: rest, s, _ => by simp [layout, blankGo]
  | .en _ :: rest, s, _ => by simp [layout, blankGo]

/-- **words separated by `\par` or by the boundary of a paragraph-forming environment are
    separated by a blank line in the output** -/
theorem between_break (A : List Seg) (u : Str) (Mid : List Seg) (h : hasBreak Mid = true) :
    hasBlank ((between A u Mid).map clsP) = true := by
  rw [between_blank]
  exact layout_break Mid false h

/-- the text of a list of text segments -/
def textOf : List Seg → Str
  | [] => []
  | .txt s :: rest => s ++ textOf rest
  | _ :: rest => textOf rest

theorem layout_text : ∀ (Mid : List Seg), hasBreak Mid = false → layout Mid = (textOf Mid).map clsC
  | [], _ => rfl
  | .txt s :: rest, h => by
    simp only [hasBreak] at h
    simp only [layout, textOf, List.map_append, layout_text rest h]
  | .par _ :: _, h => by simp [hasBreak] at h
  | .beg _ _ :: _, h => by simp [hasBreak] at h
  | .en _ :: _, h => by simp [hasBreak] at h

/-- only text between `a` and `b`: a blank line in the output iff the text holds one -/
theorem between_text (A : List Seg) (u : Str) (Mid : List Seg) (h : hasBreak Mid = false) :
    hasBlank ((between A u Mid).map clsP) = hasBlankLine (textOf Mid) := by
  rw [between_blank, layout_text Mid h]
  rfl

/-! ### where the output characters come from -/

/-- the positions of the backslashes of the `\par`, `\begin`, `\end` of a document that starts at `p` -/
def starts : Nat → List Seg → List Nat
  | _, [] => []
  | p, .txt s :: rest => starts (p + s.length) rest
  | p, .par ws :: rest => p :: starts (p + (ws.length + 4)) rest
  | p, .beg name arg :: rest => p :: starts (p + (name.length + arg.length + 10)) rest
  | p, .en name :: rest => p :: starts (p + (name.length + 6)) rest

/-- the text characters of a document that starts at `p`, with their positions -/
def textChars : Nat → List Seg → List (Char × Nat)
  | _, [] => []
  | p, .txt s :: rest => posText p s ++ textChars (p + s.length) rest
  | p, .par ws :: rest => textChars (p + (ws.length + 4)) rest
  | p, .beg name arg :: rest => textChars (p + (name.length + arg.length + 10)) rest
  | p, .en name :: rest => textChars (p + (name.length + 6)) rest

/-- every mark with text is a text character at its own position, or a line break at the
    backslash of a `\par`, `\begin`, `\end` -/
theorem marks_origin : ∀ (segs : List Seg) (p : Nat) (cp : Char × Nat), some cp ∈ marks p segs →
    cp ∈ textChars p segs ∨ (cp.1 = nl ∧ cp.2 ∈ starts p segs)
  | [], _, _, h => by simp [marks] at h
  | .txt s :: rest, p, cp, h => by
    simp only [marks, List.mem_append, List.mem_map, Option.some.injEq, exists_eq_right] at h
    simp only [textChars, starts, List.mem_append]
    rcases h with h | h
    · exact Or.inl (Or.inl h)
    · rcases marks_origin rest _ cp h with h | h
      · exact Or.inl (Or.inr h)
      · exact Or.inr h
  | .par ws :: rest, p, cp, h => by
    simp only [marks, fixMarks, List.map_cons, List.map_nil, List.cons_append, List.nil_append,
      List.mem_cons, reduceCtorEq, Option.some.injEq, false_or] at h
    simp only [textChars, starts, List.mem_cons]
    rcases h with rfl | rfl | h
    · exact Or.inr ⟨rfl, Or.inl rfl⟩
    · exact Or.inr ⟨rfl, Or.inl rfl⟩
    · rcases marks_origin rest _ cp h with h | h
      · exact Or.inl h
      · exact Or.inr ⟨h.1, Or.inr h.2⟩
  | .beg name arg :: rest, p, cp, h => by
    simp only [marks, fixMarks, List.map_cons, List.map_nil, List.cons_append, List.nil_append,
      List.mem_cons, reduceCtorEq, Option.some.injEq, false_or] at h
    simp only [textChars, starts, List.mem_cons]
    rcases h with rfl | rfl | h
    · exact Or.inr ⟨rfl, Or.inl rfl⟩
    · exact Or.inr ⟨rfl, Or.inl rfl⟩
    · rcases marks_origin rest _ cp h with h | h
      · exact Or.inl h
      · exact Or.inr ⟨h.1, Or.inr h.2⟩
  | .en name :: rest, p, cp, h => by
    simp only [marks, fixMarks, List.map_cons, List.map_nil, List.cons_append, List.nil_append,
      List.mem_cons, Option.some.injEq] at h
    simp only [textChars, starts, List.mem_cons]
    rcases h with rfl | rfl | h
    · exact Or.inr ⟨rfl, Or.inl rfl⟩
    · exact Or.inr ⟨rfl, Or.inl rfl⟩
    · rcases marks_origin rest _ cp h with h | h
      · exact Or.inl h
      · exact Or.inr ⟨h.1, Or.inr h.2⟩

/-- **every output character** is a text character of the document at its own position, or a
    line break at the position of the backslash of a `\par`, a `\begin` or an `\end` -/
theorem out_origin (segs : List Seg) (cp : Char × Nat) (h : cp ∈ delLines (marks 0 segs)) :
    cp ∈ textChars 0 segs ∨ (cp.1 = nl ∧ cp.2 ∈ starts 0 segs) := by
  have hs := (PlainMix.delLines_sublist (marks 0 segs)).subset h
  simp only [List.mem_filterMap, id] at hs
  obtain ⟨m, hm, rfl⟩ := hs
  exact marks_origin segs 0 cp hm

/-- the positions `starts` are positions of backslashes of the source -/
theorem starts_backslash : ∀ (segs : List Seg) (p q : Nat), q ∈ starts p segs →
    p ≤ q ∧ (render segs)[q - p]? = some '\\'
  | [], _, _, h => by simp [starts] at h
  | .txt s :: rest, p, q, h => by
    simp only [starts] at h
    obtain ⟨h1, h2⟩ := starts_backslash rest _ q h
    refine ⟨by omega, ?_⟩
    simp only [render, Seg.render]
    rw [List.getElem?_append_right (by omega)]
    rw [← h2]
    congr 1
    omega
  | .par ws :: rest, p, q, h => by
    simp only [starts, List.mem_cons] at h
    rcases h with rfl | h
    · simp [render, Seg.render]
    · obtain ⟨h1, h2⟩ := starts_backslash rest _ q h
      refine ⟨by omega, ?_⟩
      have e := seg_len (.par ws)
      simp only [Seg.len] at e
      simp only [render]
      rw [List.getElem?_append_right (by omega), ← h2, e]
      congr 1
      omega
  | .beg name arg :: rest, p, q, h => by
    simp only [starts, List.mem_cons] at h
    rcases h with rfl | h
    · simp [render, Seg.render]
    · obtain ⟨h1, h2⟩ := starts_backslash rest _ q h
      refine ⟨by omega, ?_⟩
      have e := seg_len (.beg name arg)
      simp only [Seg.len] at e
      simp only [render]
      rw [List.getElem?_append_right (by omega), ← h2, e]
      congr 1
      omega
  | .en name :: rest, p, q, h => by
    simp only [starts, List.mem_cons] at h
    rcases h with rfl | h
    · simp [render, Seg.render]
    · obtain ⟨h1, h2⟩ := starts_backslash rest _ q h
      refine ⟨by omega, ?_⟩
      have e := seg_len (.en name)
      simp only [Seg.len] at e
      simp only [render]
      rw [List.getElem?_append_right (by omega), ← h2, e]
      congr 1
      omega

end PlainParEnv
end Yalafi
