/-
  Proofs/PlainLangMixE2E.lean — C12 "… the language in force at the word according to the initial
  language, \selectlanguage, \foreignlanguage and the otherlanguage environments, including
  nesting …", END TO END on the model with `multi = true`, for documents that MIX the language
  constructs of package babel.

  The documents (`Proofs/PlainLangMixSrc.lean`): `render segs`, a FLAT list of segments
      txt s           inert text
      sel name        `\selectlanguage{name}`                     hard switch: replaces the top of the stack
      frn name body   `\foreignlanguage{name}{body}`              soft scope: push … pop; `body` inert text
      beg star name   `\begin{otherlanguage}{name}` / `\begin{otherlanguage*}{name}`       push
      fin star sp     `\end{otherlanguage}` / `\end{otherlanguage*}` and the white space `sp` behind it   pop
  An environment is `env star name body sp = beg star name :: body ++ [fin star sp]`; since `body` is any
  list of segments the grammar is FULLY RECURSIVE (environments in environments, switches and
  insertions inside them, to any depth).  The theorem does not even need the `beg`/`fin` to be
  balanced: a `\end{otherlanguage}` without `\begin` pops nothing (`changeParserLang`, `stepStack`: the
  last entry stays), exactly as in the Python code.

  The statement (`tex2txt_mix`).  `tex2txt … multi := true thresh` succeeds, `r.unknowns = []`,
  `r.diags = st1.diags`, and `r.parts = refParts T o.lang thresh lc segs` with `lc` = the
  language-change collections after `Parser.__init__`:
    `segMarks`     what the expander leaves: every text character with its (0-based) source position;
                   `sel` an Action mark and the hard language token; `frn` an Action mark, the soft
                   token, the characters of the body, the token back; `beg` two Action marks and the
                   soft token; `fin` an Action mark and the token back — and, for `\end{otherlanguage}`
                   WITHOUT star, a third Action mark while the white space `sp` (a blank, a line break:
                   at most one line break) is SWALLOWED by `\babel@skip@space`; behind
                   `\end{otherlanguage*}`, and if `sp` is a paragraph break, `sp` stays;
    `delLines`     the blank-line removal (`LinesLang.delLines`): a line that is blank and holds an
                   Action mark is deleted with its line break, its language tokens are kept —
                   `\begin{otherlanguage}{german}` on a line of its own disappears with its line;
    `secsOf`       the section loop (`PlainForeign.secsItems`): the stack discipline — initial language
                   `o.lang`; a hard token replaces the top, a soft token pushes, a token back pops
                   unless one entry is left; a new section starts where the TOP changes; a section
                   without characters is dropped;
    `planOf`       the joining loop as a plan (`Proofs/PlainLangMixML.lean`): a section that was not
                   started by a breaking switch (`\selectlanguage`: `selectlang_break`) nor by a
                   switch back, that has at most `thresh` words, and whose successor (if any) has the
                   language of the current piece, is CUT OUT of the current piece — it becomes a
                   piece of its own —, the current piece gets a placeholder and continues; any
                   other section ends the current piece;
    `renderGroups` the placeholder is the head of the collection of (the settings of) the language
                   of the SURROUNDING piece after one more rotation, mapped to the position of the
                   first visible character of the inclusion (`phChars`);
    `groupSecs`, `shiftParts`   grouped by language code, positions 1-based.
  Proofs/PlainLangMixCor.lean reads this reference: `langAt` (the stack discipline on the document),
  every surviving text character is filed exactly once, under `langAt` of its position, with its own
  position; a closed scope restores the language in force before it.

  Side conditions (reasons)
    options        no `--defs`, `--extr`, `--repl`
    `hinit`, `hml`, `hstk`   `st1` = state after `Parser.__init__` with `multi = true`; its
                   multi-language flag is set, its language stack is not empty
    `lcOk (lcOf st1)`   every settings code has a non-empty `lang_change_repl` and `en` is a settings
                   code (else Python raises in `ml_append_placeholder`)
    `segsOk T st1 segs` (computable; the parser state is threaded through the document, `stepSt`)
      `txt`: `PlainFootnote.textOk` for the language IN FORCE (after `\begin{otherlanguage}{german}` the
        character `"` is excluded); what follows a text segment does not start with white space;
      `sel`: `PlainLang.selOk`;  `frn`: `frnOk` (as in `PlainForeign` but WITHOUT "the code differs
        from the main language", WITHOUT `visFirst` and WITHOUT any condition on what follows; the
        text is not empty: Python raises on `args[2][-1]`);
      `beg`: `begOk` — no special sequence matches at the backslash; the braces of the environment
        name are scanned as special tokens, those of the language name as brace tokens; the
        environment name is inert for the language in force; `otherlanguage[*]` is declared in the
        state as in `packages/babel.py` (`envDeclOk`: babel is loaded); the language name is not
        empty, inert, and `translate_lang` finds a code; the empty string is no active character;
      `fin`: `finOk` — the same for `\end`; `sp` is white space and what follows it is none;
        without star: the empty string is no active character of the language in force BEHIND the
        environment either (third Action token) and `\babel@skip@space` is declared (`skipDeclOk`);
        if `sp` stays it is no active character of the language behind the environment.
    fuel   `(render segs).length + 2 ≤ fuel`.
  NO hypothesis on `foreignlang_break`, `selectlang_break`, `otherlang_break`: the flags are part of
  the language tokens in `segMarks` and `canJoin` looks at them.
  Behaviour of the model (= of the Python code, checked on the examples of
  Properties/PlainLangMixStmt.lean) that one may not expect
    * the blank behind `\end{otherlanguage}` is swallowed even if no blank stands in front of the
      environment; with a SHORT environment the placeholder is then glued to the next word:
      `A \begin{otherlanguage}{german}Hallo\end{otherlanguage} B.` gives `en-GB: "A L-L-LB."`;
    * a short environment is replaced by a placeholder exactly like a short `\foreignlanguage`
      (`otherlang_break = False`), a long one cuts the surrounding text in two pieces;
    * the placeholder is taken from the collection of the SURROUNDING language (the German one inside
      a German environment); a language without settings of its own (French) uses — and rotates —
      the collection of `en`;
    * a `\selectlanguage` inside an environment is undone by `\end{otherlanguage}` (as in LaTeX).
  Not covered: the optional argument of `\foreignlanguage`, white space between `\begin`, `{name}`
  and `{language}`; markup inside the body of `\foreignlanguage`; language options of
  `\usepackage[…]{babel}`; text with macros / maths / comments; `--repl`.
-/
import YalafiVerif.Proofs.PlainLangMixSrc
namespace Yalafi
namespace PlainLangMix

open M
open PlainFootnote (CopyTok BraceTok TextRun)
open PlainLang (setLang codeOfName groupSecs shiftParts)
open PlainForeign (pushLang lcOf pushLang_congr)
open LinesLang (Item Mark ch itemsOf delLines marksOf)

/-! ### `scan` -/

theorem PiecesOk.notComment {T : PTables} : ∀ {ps : List Piece} {st : PState}, PiecesOk T st ps →
    ∀ t ∈ flat ps, t.kind ≠ .comment
  | [], _, _, _, h => by simp [flat] at h
  | .tok t :: rest, _, hok, x, hx => by
    simp only [flat, Piece.toks, List.singleton_append, List.mem_cons] at hx
    rcases hx with rfl | hx
    · exact hok.1.plain.notComment
    · exact PiecesOk.notComment hok.2 x hx
  | .sel hd lb b rb :: rest, _, hok, x, hx => by
    obtain ⟨h1, h2, h3, _, hb, _, _, hrest⟩ := hok
    simp only [flat, Piece.toks, List.cons_append, List.append_assoc, List.mem_cons,
      List.mem_append, List.nil_append] at hx
    rcases hx with rfl | rfl | hx | rfl | hx
    · rw [h1.kind]; simp
    · rcases h2.kind with k | k <;> simp [k]
    · exact (hb x hx).plain.notComment
    · rcases h3.kind with k | k <;> simp [k]
    · exact PiecesOk.notComment hrest x hx
  | .frn hd lb1 n rb1 lb2 b rb2 :: rest, _, hok, x, hx => by
    obtain ⟨h1, h2, h3, h4, h5, _, hn, _, _, _, hb, hrest⟩ := hok
    simp only [flat, Piece.toks, List.cons_append, List.append_assoc, List.mem_cons,
      List.mem_append, List.nil_append] at hx
    rcases hx with rfl | rfl | hx | rfl | rfl | hx | rfl | hx
    · rw [h1.kind]; simp
    · rcases h2.kind with k | k <;> simp [k]
    · exact (hn x hx).plain.notComment
    · rcases h3.kind with k | k <;> simp [k]
    · rcases h4.kind with k | k <;> simp [k]
    · exact (hb x hx).plain.notComment
    · rcases h5.kind with k | k <;> simp [k]
    · exact PiecesOk.notComment hrest x hx
  | .beg p q1 en q2 lb n rb :: rest, _, hok, x, hx => by
    obtain ⟨he, _, h2, h3, _, hn, _, _, hrest⟩ := hok
    simp only [flat, Piece.toks, List.cons_append, List.append_assoc, List.mem_cons,
      List.mem_append, List.nil_append] at hx
    rcases hx with rfl | rfl | hx | rfl | rfl | hx | rfl | hx
    · simp [PlainItem.begTok]
    · simp [PlainMacro.lbr]
    · exact (he.2 x hx).plain.notComment
    · simp [PlainMacro.rbr]
    · rcases h2.kind with k | k <;> simp [k]
    · exact (hn x hx).plain.notComment
    · rcases h3.kind with k | k <;> simp [k]
    · exact PiecesOk.notComment hrest x hx
  | .fin p q1 en q2 star skip :: rest, _, hok, x, hx => by
    obtain ⟨he, _, _, hstar, hnostar, hrest⟩ := hok
    simp only [flat, Piece.toks, List.cons_append, List.append_assoc, List.mem_cons,
      List.mem_append] at hx
    rcases hx with rfl | rfl | hx | rfl | hx | hx
    · simp [PlainItem.endTok]
    · simp [PlainMacro.lbr]
    · exact (he.2 x hx).plain.notComment
    · simp [PlainMacro.rbr]
    · cases star with
      | true => rw [hstar rfl] at hx; cases hx
      | false => rw [(hnostar rfl).2.2.1 x hx]; simp
    · exact PiecesOk.notComment hrest x hx

/-- `scan` on a well-formed document: no diagnostics; the token buffer consists of the pieces -/
theorem scan_segs (T : PTables) (st : PState) (segs : List Seg) (hok : segsOk T st segs = true) :
    (scan T.toTables (render segs)).diags = [] ∧
    ∃ ps, (scan T.toTables (render segs)).toks = flat ps ∧ PieceFacts T st 0 segs ps := by
  obtain ⟨steps, ps, hsc, hok', hflat, F⟩ := scanSteps_segs T (render segs) segs
    (render segs).length 0 st (Nat.le_refl _) hok
  have he := flatten_tok_extra steps (fun s hs => (hok' s hs).2)
  have hd := flatten_diag_nil steps (fun s hs => (hok' s hs).1)
  simp only [scan, hsc]
  rw [he, hd]
  exact ⟨rfl, ps, hflat, F⟩

/-! ### the side conditions only look at the macros, the environments and the language stack -/

theorem frnOk_congr (T : PTables) (st st' : PState) (hm : st'.macros = st.macros)
    (hl : st'.langStack = st.langStack) (name body R : Str) :
    frnOk T st' name body R = frnOk T st name body R := by
  simp only [frnOk, lookupMacro, hm, PlainFootnote.textOk_congr T st st' hl,
    noEmptyActive_congr T st st' hl,
    PlainFootnote.textOk_congr T (pushLang T st (codeOfName T name)) (pushLang T st' (codeOfName T name))
      (pushLang_congr T st st' _ hl)]

theorem begOk_congr (T : PTables) (st st' : PState) (he : st'.envs = st.envs)
    (hl : st'.langStack = st.langStack) (star : Bool) (name R : Str) :
    begOk T st' star name R = begOk T st star name R := by
  simp only [begOk, lookupEnv, he, PlainFootnote.textOk_congr T st st' hl,
    noEmptyActive_congr T st st' hl]

theorem finOk_congr (T : PTables) (st st' : PState) (hm : st'.macros = st.macros)
    (he : st'.envs = st.envs) (hl : st'.langStack = st.langStack) (star : Bool) (sp R : Str) :
    finOk T st' star sp R = finOk T st star sp R := by
  have hp := popLang_langStack_congr T st st' hl
  simp only [finOk, skipOk, lookupEnv, lookupMacro, he, hm, PlainFootnote.textOk_congr T st st' hl,
    noEmptyActive_congr T st st' hl, noEmptyActive_congr T (popLang T st) (popLang T st') hp,
    activeChars_congr T (popLang T st) (popLang T st') hp]

theorem segsOk_congr (T : PTables) : ∀ (segs : List Seg) (st st' : PState),
    st'.macros = st.macros → st'.envs = st.envs → st'.langStack = st.langStack →
    segsOk T st' segs = segsOk T st segs
  | [], _, _, _, _, _ => rfl
  | .txt s :: rest, st, st', hm, he, hl => by
    simp only [segsOk, PlainFootnote.textOk_congr T st st' hl, segsOk_congr T rest st st' hm he hl]
  | .sel n :: rest, st, st', hm, he, hl => by
    simp only [segsOk, PlainLang.selOk_congr T st st' hm hl,
      segsOk_congr T rest (setLang T st (codeOfName T n)) (setLang T st' (codeOfName T n))
        (by simp [hm]) (by simp [he]) (by simp [hl])]
  | .frn n b :: rest, st, st', hm, he, hl => by
    simp only [segsOk, frnOk_congr T st st' hm hl, segsOk_congr T rest st st' hm he hl]
  | .beg star n :: rest, st, st', hm, he, hl => by
    simp only [segsOk, begOk_congr T st st' he hl,
      segsOk_congr T rest (pushLang T st (codeOfName T n)) (pushLang T st' (codeOfName T n))
        (by simp [hm]) (by simp [he]) (by simp [hl])]
  | .fin star sp :: rest, st, st', hm, he, hl => by
    simp only [segsOk, finOk_congr T st st' hm he hl,
      segsOk_congr T rest (popLang T st) (popLang T st') (by simp [hm]) (by simp [he])
        (popLang_langStack_congr T st st' hl)]

/-! ### `parserWork`, `parse` -/

/-- **`parserWork` on a well-formed document** in multi-language mode: the items of the result
    tokens are what the blank-line removal leaves of `segMarks`; only the language stack of the
    state changes. -/
theorem parserWork_mix (T : PTables) (st : PState) (segs : List Seg) (fuel : Nat)
    (hf : (render segs).length + 2 ≤ fuel) (hml : st.multiLanguage = true)
    (hstk : st.langStack ≠ []) (hok : segsOk T st segs = true) :
    ∃ r ls, parserWork T fuel (render segs) st = .ok (r, { st with langStack := ls }) ∧
      itemsOf r = delLines (segMarks T 0 segs) := by
  obtain ⟨f, rfl⟩ : ∃ f, fuel = f + 1 := ⟨fuel - 1, by omega⟩
  have hok' : segsOk T { st with latex := render segs, nest := st.nest + 1 } segs = true :=
    (segsOk_congr T segs st { st with latex := render segs, nest := st.nest + 1 } rfl rfl rfl).trans hok
  obtain ⟨hd, ps, hflat, F⟩ := scan_segs T { st with latex := render segs, nest := st.nest + 1 } segs hok'
  obtain ⟨r, hr, hitems⟩ := LinesLang.removeLines_items (outMain T ps) F.simple
  rw [F.marks] at hitems
  have hcost := F.cost
  obtain ⟨ls, hls⟩ := finalSt_frame T ps { st with latex := render segs, nest := st.nest + 1 }
  refine ⟨r, ls, ?_, hitems⟩
  have hseq := seq_mix T ps f [] { st with latex := render segs, nest := st.nest + 1 }
    (by omega) hml hstk F.ok
  rw [List.nil_append, hr] at hseq
  simp only [] at hseq
  rw [parserWork.eq_2]
  refine (M.bind_ok _ _ _ _ _ (rfl : M.get st = _)).trans ?_
  refine (M.bind_ok _ _ _ _ _ (rfl : M.modify _ _ = _)).trans ?_
  refine (M.bind_ok _ _ _ _ _ (rfl : M.modify _ _ = _)).trans ?_
  refine (M.bind_ok _ _ _ _ _ (rfl : M.get _ = _)).trans ?_
  simp only [hd, List.append_nil]
  rw [skipPass_nocomment _ _ _ (fun t ht' => F.ok.notComment t (by rw [← hflat]; exact ht'))]
  simp only []
  refine (M.bind_ok _ _ _ _ _ (rfl : (pure _ : M (List Tok)) _ = _)).trans ?_
  rw [hflat]
  refine (M.bind_ok _ _ _ _ _ hseq).trans ?_
  refine (M.bind_ok _ _ _ _ _ (rfl : M.modify _ _ = _)).trans ?_
  show Outcome.ok _ = _
  rw [hls]
  simp only [Nat.add_sub_cancel]

/-- **`parse` on a well-formed document** (no `--defs`, no `--extr`), multi-language mode -/
theorem parse_mix (T : PTables) (st : PState) (segs : List Seg) (fuel : Nat)
    (hf : (render segs).length + 2 ≤ fuel) (hml : st.multiLanguage = true)
    (hstk : st.langStack ≠ []) (hok : segsOk T st segs = true) :
    ∃ r ls, parse T fuel (render segs) [] [] st
        = .ok (r, { st with extracted := [], unknowns := [], foreign := false, nest := 0,
                            langStack := ls }) ∧
      itemsOf r = delLines (segMarks T 0 segs) := by
  have hok' : segsOk T { st with extracted := [], unknowns := [], foreign := false, nest := 0 } segs
      = true :=
    (segsOk_congr T segs st { st with extracted := [], unknowns := [], foreign := false, nest := 0 }
      rfl rfl rfl).trans hok
  obtain ⟨r, ls, hw, hitems⟩ := parserWork_mix T
    { st with extracted := [], unknowns := [], foreign := false, nest := 0 } segs fuel hf hml hstk hok'
  refine ⟨r, ls, ?_, hitems⟩
  unfold parse
  simp only [List.isEmpty_nil, Bool.not_true, Bool.false_eq_true, if_false, if_true]
  refine (M.bind_ok _ _ _ _ _ (rfl : M.modify _ _ = _)).trans ?_
  refine (M.bind_ok _ _ _ _ _ (rfl : (pure _ : M (List Tok)) _ = _)).trans ?_
  refine (M.bind_ok _ _ _ _ _ (rfl : M.modify _ _ = _)).trans ?_
  refine (M.bind_ok _ _ _ _ _ hw).trans ?_
  refine (M.bind_ok _ _ _ _ _ (rfl : M.get _ = _)).trans ?_
  show Outcome.ok _ = _
  simp

/-! ### the reference output -/

/-- what is left of the document after the blank-line removal: the text characters with their
    (0-based) source positions and the language tokens -/
def refItems (T : PTables) (segs : List Seg) : List Item := delLines (segMarks T 0 segs)

/-- the sections of the document (the stack discipline; `main` = the initial language) -/
def refSecs (T : PTables) (main : Str) (segs : List Seg) : List Sec := secsOf main (refItems T segs)

/-- the plan of the joining loop -/
def refPlan (T : PTables) (main : Str) (thresh : Nat) (segs : List Seg) : List Group :=
  planOf thresh (refSecs T main segs)

/-- **the expected `parts`** (`lc` = the language-change collections) -/
def refParts (T : PTables) (main : Str) (thresh : Nat) (lc : LangChange) (segs : List Seg) : Parts :=
  shiftParts (groupSecs (renderGroups lc (refPlan T main thresh segs)))

/-- the result record of `tex2txt` on a well-formed document in multi-language mode -/
theorem tex2txt_mix_record (T : PTables) (o : Options) (fs : FS) (thresh : Nat) (segs : List Seg)
    (fuel : Nat) (st1 : PState)
    (hdefs : o.defs = []) (hextr : o.extr = []) (hrepl : o.hasRepl = false)
    (hinit : initParser T fuel o (initialState T o true fs) = .ok ((), st1))
    (hml : st1.multiLanguage = true) (hstk : st1.langStack ≠ [])
    (hlc : lcOk (lcOf st1) = true)
    (hok : segsOk T st1 segs = true)
    (hf : (render segs).length + 2 ≤ fuel) :
    ∃ toks, itemsOf toks = refItems T segs ∧
      tex2txt T fuel (render segs) o true thresh fs
        = .ok { toks := toks, txt := [], pos := [],
                parts := refParts T o.lang thresh (lcOf st1) segs, unknowns := [],
                diags := st1.diags, foreign := false } := by
  obtain ⟨r, ls, hp, hitems⟩ := parse_mix T st1 segs fuel hf hml hstk hok
  refine ⟨r, hitems, ?_⟩
  have hrun : (initParser T fuel o >>= fun _ => parse T fuel (render segs) o.defs
        (if o.extr.isEmpty then [] else (splitOn ',' o.extr []).map (fun s => '\\' :: s)))
        (initialState T o true fs)
      = .ok (r, { st1 with extracted := [], unknowns := [], foreign := false, nest := 0,
                           langStack := ls }) := by
    refine (M.bind_ok _ _ _ _ _ hinit).trans ?_
    rw [hdefs, hextr]
    exact hp
  obtain ⟨lc', hml'⟩ := getTxtPosML_plan r o.lang thresh (lcOf st1) hlc
  unfold tex2txt
  simp only []
  rw [hrun]
  simp only [Bool.not_true, Bool.false_eq_true, if_false]
  rw [show (List.map (fun r => (r.code, r.chg)) st1.rots) = lcOf st1 from rfl, hml']
  simp only [hrepl, Bool.false_and, Bool.false_eq_true, if_false, List.map_id', hitems]
  rfl

/-- **C12 for documents that mix the language constructs, end to end.** -/
theorem tex2txt_mix (T : PTables) (o : Options) (fs : FS) (thresh : Nat) (segs : List Seg)
    (fuel : Nat) (st1 : PState)
    (hdefs : o.defs = []) (hextr : o.extr = []) (hrepl : o.hasRepl = false)
    (hinit : initParser T fuel o (initialState T o true fs) = .ok ((), st1))
    (hml : st1.multiLanguage = true) (hstk : st1.langStack ≠ [])
    (hlc : lcOk (lcOf st1) = true)
    (hok : segsOk T st1 segs = true)
    (hf : (render segs).length + 2 ≤ fuel) :
    ∃ r, tex2txt T fuel (render segs) o true thresh fs = .ok r ∧
      r.parts = refParts T o.lang thresh (lcOf st1) segs ∧ r.unknowns = [] ∧
      r.diags = st1.diags ∧ r.foreign = false := by
  obtain ⟨toks, _, ht⟩ := tex2txt_mix_record T o fs thresh segs fuel st1 hdefs hextr hrepl hinit
    hml hstk hlc hok hf
  exact ⟨_, ht, rfl, rfl, rfl, rfl⟩

end PlainLangMix
end Yalafi
