/-
  Proofs/PlainItemL.lean (with Proofs/PlainItemLBase.lean) — C04 "every output character that is not a
  copy of body text — item labels … — maps to an offset inside the source span of the construct that
  produced it", end to end on the model, for lists with LABELLED items: documents that consist of
  inert text (as in Proofs/PlainUnknown.lean) and, in ANY order and nesting,
    `\begin{name}`, `\end{name}`        of declared list environments (`enumerate`, `itemize`),
    `\item ws`                          an item without label (Proofs/PlainItem.lean),
    `\item ws [label]`                  an item WITH label (`ws`: white space, at most one line break;
                                        the label may be empty: `\item[]`),
    `\begin{name}`, `\end{name}`        of UNDECLARED environments — `description` is NOT declared in
                                        the tables of /repo, so this is what `\begin{description}` is.

  What the model does (found with `#eval`, then proved)
    `\item[label]`   `expand_item` collects the optional argument (`skip_space` eats the white space
        in front of `[`; `arg_buffer` takes the tokens up to the FIRST `]`, a void token for `[]`) and
        expands the replacement `#1`: Action token, Action token, the label tokens, Action token.  As
        this is not "only Action tokens" the label branch does NOT fire: NO default label, the counter
        of the innermost generator does NOT advance (`1.`, `[x]`, `2.`), and `itemStack` is not even
        looked at: `\item[x]` behaves the same in `enumerate`, in `itemize`, in an undeclared
        environment and outside any list.  The result is
            blank @ `\item` | the three marks | label at its OWN positions | PUNCTUATION | blank,
        the last two pinned at the start of the LAST TOKEN of the label (`lastTokOff`; at `[` for
        `\item[]`).
    PUNCTUATION      `expand_item` looks at the output of the running loop so far: if the last token
        whose text is not blank ends with a character of `item_punctuation` (`. : , ; ! ?` in the
        tables), that character is REPEATED behind the label (`x:⏎\item[a] one.⏎\item[b] two` gives
        `x:⏎ a:  one.⏎ b.  two`).  The reference threads this character (`pv`).  An unlabelled item
        does not repeat anything, but its default label counts as output (`1.` ends with `.`).
    `\begin{description}`   an unknown environment: one Action token, `description` (without
        backslash) goes to the unknowns list (`--unkn` reports it); `\end{description}` leaves one
        Action token.  An unlabelled `\item` inside uses the bottom generator (the empty label ``).
    At the end `remove_pure_action_lines` deletes every line that is blank and holds an Action token
    (`delLines` of Proofs/PlainMacro.lean).

  The end-to-end statement `tex2txt_items`.  `tex2txt` succeeds; text and (1-based) positions are
  `delLines (marks T st1 none st1.itemStack 0 segs)` (see `marks`); `unknowns` = the names of the
  undeclared environments, each once, in order of first use; no diagnostic.

  Side conditions (all in `SegsOk T st1 segs`, decidable; `st1` = state after `Parser.__init__`)
    `stateOk T st1`   the empty string and the blank are no "active characters"; the punctuation marks
                      of `item_punctuation` are harmless tokens (`punctOk`: none of `$ \( $$ \[ \\ { }`,
                      no active character, no line break)
    text segments     `textOk` of Proofs/PlainUnknown.lean
    `begOk`, `endOk`, `itemOk`, `labelAt`   of Proofs/PlainItem.lean
    `itemLOk`         no special sequence matches at the backslash; `ws` is white space with at most
                      one line break; `[label]`: `PlainFlows.optOk` — brackets scanned as text tokens,
                      the label inert (`PlainFootnote.textOk`: no active character, no `% # \ $ { }`, no
                      special sequence) and without `]`
    `ubegOk`/`uendOk` as `begOk` / `endOk`, but the name is NOT declared
    options           no --defs, --extr, --repl, --unkn; single-language mode
    fuel              `(render segs).length + 4 ≤ fuel`
  NOT covered: labels with macros, braces, maths, `]` (`\item[{]}]`); a paragraph break between `\item`
  and `[`; `description` as a DECLARED environment (it is not in the tables); environments with
  arguments; multi-language mode.
-/
import YalafiVerif.Proofs.PlainItemLBase
import YalafiVerif.Proofs.PlainFlows
namespace Yalafi
namespace PlainItemL

open M
open PlainMacro (lbr rbr Simple Mark marksOf charsOf delLines tokMarks tokChars braceAt Shape bodyTxt
  scanSteps_step nextToken_brace scanSteps_body BodyRun tokMarks_nonaction tokMarks_mkAction marksOf_cons
  marksOf_append simple_mkAction simple_of_plain tokChars_nofix removeLines_simple getTxtPos_charsOf
  hasNl_single Simple_of_nil)
open PlainFootnote (CopyTok TextRun lastTokOff)
open PlainRef (chTok lastPos lastPos_of_getLast bracketAt scanSteps_note marksOf_textrun simple_of_copy
  tokMarks_mkFix fixMarks)
open PlainFlows (OptToks optOk OptFacts optFacts optToks_of_run)
open PlainItem (begTok endTok itemTok spTok labTok NameToks listEnvAt begStk itemStk endStk labOf labelAt
  envOf envOut labOk nBegin nEnd nItem nextToken_begin nextToken_end nextToken_item nextToken_ws wsToks
  wsToks_space envMarks tokMarks_envOut simple_envOut simple_spTok tokMarks_labTok simple_labTok
  labelAt_hasNl headOk_of_first nameToks_of_bodyRun sBegin_eq sEnd_eq sItem_eq)

/-! ### the documents -/

/-- a segment of the source: a run of text; `\begin{name}` of a list environment; `\item` with the
    white space behind it; `\item`, white space, `[label]`; `\end{name}` of a list environment;
    `\begin{name}` / `\end{name}` of an undeclared environment -/
inductive Seg where
  | txt (s : Str)
  | beg (name : Str)
  | item (ws : Str)
  | itemL (ws label : Str)
  | en (name : Str)
  | ubeg (name : Str)
  | uen (name : Str)
deriving Repr, DecidableEq

def Seg.render : Seg → Str
  | .txt s => s
  | .beg name => '\\' :: (nBegin ++ '{' :: (name ++ ['}']))
  | .item ws => '\\' :: (nItem ++ ws)
  | .itemL ws label => '\\' :: (nItem ++ (ws ++ '[' :: (label ++ [']'])))
  | .en name => '\\' :: (nEnd ++ '{' :: (name ++ ['}']))
  | .ubeg name => '\\' :: (nBegin ++ '{' :: (name ++ ['}']))
  | .uen name => '\\' :: (nEnd ++ '{' :: (name ++ ['}']))

/-- the source text -/
def render : List Seg → Str
  | [] => []
  | s :: rest => s.render ++ render rest

/-! ### the reference -/

/-- the last visible character: one more character -/
def pvChar (pv : Option Char) (c : Char) : Option Char := if isSpace c then pv else some c

/-- the last visible character behind a text -/
def pvText (pv : Option Char) (s : Str) : Option Char := s.foldl pvChar pv

/-- … behind a generated label (one token: it counts if it is not blank) -/
def pvLab (pv : Option Char) (lab : Str) : Option Char := if isBlank lab then pv else lab.getLast?

/-- … behind the repeated punctuation -/
def pvPunct (pv : Option Char) (pc : Option Char) : Option Char :=
  match pc with
  | some c => if isSpace c then pv else some c
  | none => pv

/-- the position of the last token of `[label]`, `q` = position of `[`: the start of the last token
    of the label, or `[` itself for the empty label -/
def labLast (q : Nat) (label : Str) : Nat := if label.isEmpty then q else q + 1 + lastTokOff label

/-- the marks of the repeated punctuation -/
def punctMarks (pc : Option Char) (q : Nat) : List Mark :=
  match pc with
  | some c => [some (c, q)]
  | none => []

/-- **the reference on the level of marks**: the document, which starts at position `p`; `pv` = the
    last visible character of the output so far, `stk` = the label generators —
    * a text character with its position;
    * `\begin{name}` of a list environment at `p`: the marks of `add_pars` (two line breaks at `p`, or
      a text-less mark) and one text-less mark; a generator is pushed;
    * `\item ws` at `p`: a text-less mark, a blank, the next default label, a blank — all at `p`; the
      counter advances;
    * `\item ws [label]` at `p` (`q` = position of `[`): a blank at `p`, two text-less marks, THE LABEL
      AT ITS OWN POSITIONS, a text-less mark, the punctuation `punctOf T pv` (if the last visible
      character so far is one of `item_punctuation`) and a blank, both at `labLast q label`; NO
      default label, the generators are unchanged;
    * `\end{name}`: the marks of `add_pars`; the generator is popped;
    * `\begin{name}` / `\end{name}` of an undeclared environment: one text-less mark -/
def marks (T : PTables) (st1 : PState) : Option Char → List ItemGen → Nat → List Seg → List Mark
  | _, _, _, [] => []
  | pv, stk, p, .txt s :: rest => (posText p s).map some ++ marks T st1 (pvText pv s) stk (p + s.length) rest
  | pv, stk, p, .beg name :: rest =>
    envMarks (envOf st1 name) p ++ none :: marks T st1 pv (begStk st1 stk name) (p + (name.length + 8)) rest
  | pv, stk, p, .item ws :: rest =>
    none :: some (' ', p) :: ((labOf T stk).map (fun c => some (c, p))
      ++ some (' ', p) :: marks T st1 (pvLab pv (labOf T stk)) (itemStk stk) (p + (ws.length + 5)) rest)
  | pv, stk, p, .itemL ws label :: rest =>
    some (' ', p) :: none :: none :: ((posText (p + (ws.length + 5) + 1) label).map some ++
      none :: (punctMarks (punctOf T pv) (labLast (p + (ws.length + 5)) label) ++
        some (' ', labLast (p + (ws.length + 5)) label) ::
          marks T st1 (pvPunct (pvText pv label) (punctOf T pv)) stk
            (p + (ws.length + label.length + 7)) rest))
  | pv, stk, p, .en name :: rest =>
    envMarks (envOf st1 name) p ++ marks T st1 pv (endStk stk) (p + (name.length + 6)) rest
  | pv, stk, p, .ubeg name :: rest => none :: marks T st1 pv stk (p + (name.length + 8)) rest
  | pv, stk, p, .uen name :: rest => none :: marks T st1 pv stk (p + (name.length + 6)) rest

/-- the names of the undeclared environments, in order of occurrence -/
def unames : List Seg → List Str
  | [] => []
  | .ubeg name :: rest => name :: unames rest
  | _ :: rest => unames rest

/-! ### the side conditions -/

/-- the conditions on the initialised parser state -/
def stateOk (T : PTables) (st : PState) : Bool :=
  noEmptyActive T st && !(activeChars T st).contains [' '] && punctOk T st

/-- `\item ws [label]`, followed by `R` -/
def itemLOk (T : PTables) (st : PState) (ws label R : Str) : Bool :=
  (matchSpecial T.toTables ('\\' :: (nItem ++ (ws ++ '[' :: (label ++ ']' :: R))))).isNone &&
  ws.all isSpace && decide (countNl ws < 2) &&
  (ws ++ '[' :: (label ++ ']' :: R)).head?.all (fun d => !macroChar d) &&
  optOk T st label R

/-- `\begin{name}` of an undeclared environment, followed by `R` -/
def ubegOk (T : PTables) (st : PState) (name R : Str) : Bool :=
  (matchSpecial T.toTables ('\\' :: (nBegin ++ '{' :: (name ++ '}' :: R)))).isNone &&
  !startsWith ('{' :: (name ++ '}' :: R)) sVerbatimArg &&
  braceAt T '{' (name ++ '}' :: R) &&
  !name.isEmpty && name.all (inertChar T st) &&
  braceAt T '}' R && (lookupEnv st name).isNone

/-- `\end{name}` of an undeclared environment, followed by `R` -/
def uendOk (T : PTables) (st : PState) (name R : Str) : Bool :=
  (matchSpecial T.toTables ('\\' :: (nEnd ++ '{' :: (name ++ '}' :: R)))).isNone &&
  braceAt T '{' (name ++ '}' :: R) &&
  !name.isEmpty && name.all (inertChar T st) &&
  braceAt T '}' R && (lookupEnv st name).isNone

/-- well-formed documents: every segment is fine in front of the rendering of the following ones,
    and every unlabelled `\item` finds a label -/
def segsOk (T : PTables) (st : PState) : List ItemGen → List Seg → Bool
  | _, [] => true
  | stk, .txt s :: rest => textOk T st s (render rest) && segsOk T st stk rest
  | stk, .beg name :: rest =>
    PlainItem.begOk T st name (render rest) && segsOk T st (begStk st stk name) rest
  | stk, .item ws :: rest =>
    PlainItem.itemOk T ws (render rest) && labelAt T st stk && segsOk T st (itemStk stk) rest
  | stk, .itemL ws label :: rest => itemLOk T st ws label (render rest) && segsOk T st stk rest
  | stk, .en name :: rest => PlainItem.endOk T st name (render rest) && segsOk T st (endStk stk) rest
  | stk, .ubeg name :: rest => ubegOk T st name (render rest) && segsOk T st stk rest
  | stk, .uen name :: rest => uendOk T st name (render rest) && segsOk T st stk rest

/-- all side conditions on the tables, the initialised parser state and the document -/
def SegsOk (T : PTables) (st : PState) (segs : List Seg) : Prop :=
  stateOk T st = true ∧ segsOk T st st.itemStack segs = true

instance (T : PTables) (st : PState) (segs : List Seg) : Decidable (SegsOk T st segs) := by
  unfold SegsOk; infer_instance

/-- the source text, which starts at position `p`, with its marks and the names of its undeclared
    environments -/
inductive OkSrc (T : PTables) (st : PState) :
    Option Char → List ItemGen → Nat → Str → List Mark → List Str → Prop
  | nil (pv : Option Char) (stk : List ItemGen) (p : Nat) : OkSrc T st pv stk p [] [] []
  | chr (pv : Option Char) (stk : List ItemGen) (p : Nat) (c : Char) (cs : Str) (ms : List Mark)
      (nms : List Str) :
      okAt T st c cs = true → OkSrc T st (pvChar pv c) stk (p + 1) cs ms nms →
      OkSrc T st pv stk p (c :: cs) (some (c, p) :: ms) nms
  | beg (pv : Option Char) (stk : List ItemGen) (p : Nat) (name R : Str) (ms : List Mark)
      (nms : List Str) :
      PlainItem.begOk T st name R = true →
      OkSrc T st pv (begStk st stk name) (p + (name.length + 8)) R ms nms →
      OkSrc T st pv stk p ('\\' :: (nBegin ++ '{' :: (name ++ '}' :: R)))
        (envMarks (envOf st name) p ++ none :: ms) nms
  | item (pv : Option Char) (stk : List ItemGen) (p : Nat) (ws R : Str) (ms : List Mark)
      (nms : List Str) :
      PlainItem.itemOk T ws R = true → labelAt T st stk = true →
      OkSrc T st (pvLab pv (labOf T stk)) (itemStk stk) (p + (ws.length + 5)) R ms nms →
      OkSrc T st pv stk p ('\\' :: (nItem ++ (ws ++ R)))
        (none :: some (' ', p) :: ((labOf T stk).map (fun c => some (c, p)) ++ some (' ', p) :: ms)) nms
  | itemL (pv : Option Char) (stk : List ItemGen) (p : Nat) (ws label R : Str) (ms : List Mark)
      (nms : List Str) :
      itemLOk T st ws label R = true →
      OkSrc T st (pvPunct (pvText pv label) (punctOf T pv)) stk (p + (ws.length + label.length + 7)) R ms nms →
      OkSrc T st pv stk p ('\\' :: (nItem ++ (ws ++ '[' :: (label ++ ']' :: R))))
        (some (' ', p) :: none :: none :: ((posText (p + (ws.length + 5) + 1) label).map some ++
          none :: (punctMarks (punctOf T pv) (labLast (p + (ws.length + 5)) label) ++
            some (' ', labLast (p + (ws.length + 5)) label) :: ms))) nms
  | en (pv : Option Char) (stk : List ItemGen) (p : Nat) (name R : Str) (ms : List Mark)
      (nms : List Str) :
      PlainItem.endOk T st name R = true → OkSrc T st pv (endStk stk) (p + (name.length + 6)) R ms nms →
      OkSrc T st pv stk p ('\\' :: (nEnd ++ '{' :: (name ++ '}' :: R))) (envMarks (envOf st name) p ++ ms) nms
  | ubeg (pv : Option Char) (stk : List ItemGen) (p : Nat) (name R : Str) (ms : List Mark)
      (nms : List Str) :
      ubegOk T st name R = true → OkSrc T st pv stk (p + (name.length + 8)) R ms nms →
      OkSrc T st pv stk p ('\\' :: (nBegin ++ '{' :: (name ++ '}' :: R))) (none :: ms) (name :: nms)
  | uen (pv : Option Char) (stk : List ItemGen) (p : Nat) (name R : Str) (ms : List Mark)
      (nms : List Str) :
      uendOk T st name R = true → OkSrc T st pv stk (p + (name.length + 6)) R ms nms →
      OkSrc T st pv stk p ('\\' :: (nEnd ++ '{' :: (name ++ '}' :: R))) (none :: ms) nms

theorem OkSrc_text (T : PTables) (st : PState) (stk : List ItemGen) (R : Str) (ms : List Mark)
    (nms : List Str) :
    ∀ (s : Str) (pv : Option Char) (p : Nat), OkSrc T st (pvText pv s) stk (p + s.length) R ms nms →
      textOk T st s R = true → OkSrc T st pv stk p (s ++ R) ((posText p s).map some ++ ms) nms
  | [], _, _, hR, _ => hR
  | c :: cs, pv, p, hR, h => by
    simp only [textOk, Bool.and_eq_true] at h
    have hR' : OkSrc T st (pvText (pvChar pv c) cs) stk (p + 1 + cs.length) R ms nms := by
      have e : p + 1 + cs.length = p + (c :: cs).length := by simp; omega
      rw [e]; exact hR
    exact OkSrc.chr pv stk p c (cs ++ R) _ _ h.1 (OkSrc_text T st stk R ms nms cs _ (p + 1) hR' h.2)

theorem OkSrc_of_segsOk (T : PTables) (st : PState) :
    ∀ (segs : List Seg) (pv : Option Char) (stk : List ItemGen) (p : Nat), segsOk T st stk segs = true →
      OkSrc T st pv stk p (render segs) (marks T st pv stk p segs) (unames segs)
  | [], pv, stk, p, _ => .nil pv stk p
  | .txt s :: rest, pv, stk, p, h => by
    simp only [segsOk, Bool.and_eq_true] at h
    exact OkSrc_text T st stk _ _ _ s pv p (OkSrc_of_segsOk T st rest _ stk _ h.2) h.1
  | .beg name :: rest, pv, stk, p, h => by
    simp only [segsOk, Bool.and_eq_true] at h
    have := OkSrc.beg pv stk p name (render rest) _ _ h.1 (OkSrc_of_segsOk T st rest pv _ _ h.2)
    simpa [render, Seg.render, marks, unames] using this
  | .item ws :: rest, pv, stk, p, h => by
    simp only [segsOk, Bool.and_eq_true] at h
    have := OkSrc.item pv stk p ws (render rest) _ _ h.1.1 h.1.2 (OkSrc_of_segsOk T st rest _ _ _ h.2)
    simpa [render, Seg.render, marks, unames] using this
  | .itemL ws label :: rest, pv, stk, p, h => by
    simp only [segsOk, Bool.and_eq_true] at h
    have := OkSrc.itemL pv stk p ws label (render rest) _ _ h.1 (OkSrc_of_segsOk T st rest _ _ _ h.2)
    simpa [render, Seg.render, marks, unames] using this
  | .en name :: rest, pv, stk, p, h => by
    simp only [segsOk, Bool.and_eq_true] at h
    have := OkSrc.en pv stk p name (render rest) _ _ h.1 (OkSrc_of_segsOk T st rest pv _ _ h.2)
    simpa [render, Seg.render, marks, unames] using this
  | .ubeg name :: rest, pv, stk, p, h => by
    simp only [segsOk, Bool.and_eq_true] at h
    have := OkSrc.ubeg pv stk p name (render rest) _ _ h.1 (OkSrc_of_segsOk T st rest pv _ _ h.2)
    simpa [render, Seg.render, marks, unames] using this
  | .uen name :: rest, pv, stk, p, h => by
    simp only [segsOk, Bool.and_eq_true] at h
    have := OkSrc.uen pv stk p name (render rest) _ _ h.1 (OkSrc_of_segsOk T st rest pv _ _ h.2)
    simpa [render, Seg.render, marks, unames] using this

/-- white space in front can be dropped -/
theorem OkSrc_drop_space (T : PTables) (st : PState) (pv : Option Char) (stk : List ItemGen)
    (nms : List Str) :
    ∀ (k : Nat) (p : Nat) (s : Str) (ms : List Mark), k ≤ s.length → OkSrc T st pv stk p s ms nms →
      (∀ x ∈ s.take k, isSpace x = true) →
      ∃ ms', ms = (posText p (s.take k)).map some ++ ms' ∧ OkSrc T st pv stk (p + k) (s.drop k) ms' nms
  | 0, _, _, ms, _, h, _ => ⟨ms, rfl, h⟩
  | k + 1, _, [], _, hk, _, _ => by simp at hk
  | k + 1, p, c :: cs, _, hk, h, hsp => by
    have hc : isSpace c = true := hsp c (by simp)
    cases h with
    | chr _ _ _ _ _ ms0 _ _ h2 =>
      have hpv : pvChar pv c = pv := by simp [pvChar, hc]
      rw [hpv] at h2
      obtain ⟨ms', e, h3⟩ := OkSrc_drop_space T st pv stk nms k (p + 1) cs ms0 (by simpa using hk) h2
        (fun x hx => hsp x (by simp [hx]))
      refine ⟨ms', by simp [posText, e], ?_⟩
      have e : p + (k + 1) = p + 1 + k := by omega
      rw [e]; exact h3
    | beg _ _ _ name R _ _ _ _ => exact absurd hc (by decide)
    | item _ _ _ ws R _ _ _ _ _ => exact absurd hc (by decide)
    | itemL _ _ _ ws label R _ _ _ _ => exact absurd hc (by decide)
    | en _ _ _ name R _ _ _ _ => exact absurd hc (by decide)
    | ubeg _ _ _ name R _ _ _ _ => exact absurd hc (by decide)
    | uen _ _ _ name R _ _ _ _ => exact absurd hc (by decide)

/-- the conditions depend on the state only through the language stack and the environment table -/
theorem OkSrc.congr {T : PTables} {st st' : PState} (hl : st'.langStack = st.langStack)
    (he : st'.envs = st.envs) {pv : Option Char} {stk : List ItemGen} {p : Nat} {s : Str}
    {ms : List Mark} {nms : List Str}
    (h : OkSrc T st pv stk p s ms nms) : OkSrc T st' pv stk p s ms nms := by
  have hinert : inertChar T st' = inertChar T st := by
    funext c; simp only [inertChar, activeChars_congr T st st' hl]
  have hlk : ∀ n, lookupEnv st' n = lookupEnv st n := fun n => by simp only [lookupEnv, he]
  have hle : ∀ n, listEnvAt st' n = listEnvAt st n := fun n => by simp only [listEnvAt, hlk]
  have heo : ∀ n, envOf st' n = envOf st n := fun n => by simp only [envOf, hlk]
  have hbs : ∀ stk n, begStk st' stk n = begStk st stk n := fun stk n => by
    simp only [begStk, PlainItem.styleOf, envOf, hlk]
  have hla : ∀ stk, labelAt T st' stk = labelAt T st stk := fun stk => by
    simp only [labelAt, labOk, activeChars_congr T st st' hl]
  have ho : ∀ s X, optOk T st' s X = optOk T st s X := by
    intro s X
    simp only [optOk, PlainFootnote.textOk_congr T st st' hl]
  induction h with
  | nil pv stk p => exact .nil pv stk p
  | chr pv stk p c cs ms nms hat _ ih =>
    refine .chr pv stk p c cs ms nms ?_ ih
    rw [← hat]
    simp only [okAt, activeChars_congr T st st' hl, shortKeys_congr T st st' hl]
  | beg pv stk p name R ms nms hd _ ih =>
    rw [← heo]
    refine .beg pv stk p name R ms nms ?_ (by rw [hbs]; exact ih)
    rw [← hd]
    simp only [PlainItem.begOk, hle, hinert]
  | item pv stk p ws R ms nms hu hlab _ ih =>
    exact .item pv stk p ws R ms nms hu (by rw [hla]; exact hlab) ih
  | itemL pv stk p ws label R ms nms hd _ ih =>
    refine .itemL pv stk p ws label R ms nms ?_ ih
    rw [← hd]
    simp only [itemLOk, ho]
  | en pv stk p name R ms nms hd _ ih =>
    rw [← heo]
    refine .en pv stk p name R ms nms ?_ ih
    rw [← hd]
    simp only [PlainItem.endOk, hle, hinert]
  | ubeg pv stk p name R ms nms hd _ ih =>
    refine .ubeg pv stk p name R ms nms ?_ ih
    rw [← hd]
    simp only [ubegOk, hlk, hinert]
  | uen pv stk p name R ms nms hd _ ih =>
    refine .uen pv stk p name R ms nms ?_ ih
    rw [← hd]
    simp only [uendOk, hlk, hinert]

/-! ### text tokens of the scanner are single visible characters -/

/-- a token is blank, or it is one visible character -/
def BlankOrChar (t : Tok) : Prop := isBlank t.txt = true ∨ ∃ c, t.txt = [c] ∧ isSpace c = false

theorem scanVerb_noText (T : Tables) (src : Str) (pos : Nat) (rest : Str) :
    (scanVerb T src pos rest).diag = none → (scanVerb T src pos rest).tok.kind ≠ .text := by
  unfold scanVerb
  cases h1 : rest.drop 5 with
  | nil => simp
  | cons delim body =>
    simp only []
    cases h2 : body.drop (idxOf (fun c => c == delim || c == nl) body) with
    | nil => simp
    | cons c _ =>
      simp only []
      split <;> simp

theorem scanVerbatim_noText (T : Tables) (src : Str) (pos : Nat) (rest : Str) :
    (scanVerbatim T src pos rest).diag = none → (scanVerbatim T src pos rest).tok.kind ≠ .text := by
  unfold scanVerbatim
  simp only []
  split
  · simp
  · split <;> simp

theorem scanMacro_noText (T : Tables) (src : Str) (pos : Nat) (rest : Str) :
    (scanMacro T src pos rest).diag = none → (scanMacro T src pos rest).tok.kind ≠ .text := by
  unfold scanMacro
  simp only []
  split
  · exact scanVerbatim_noText T src pos rest
  · split
    · simp
    · split
      · simp
      · split
        · exact scanVerb_noText T src pos rest
        · split <;> simp

theorem nextToken_textTok (T : Tables) (src : Str) (pos : Nat) (c : Char) (cs : Str)
    (hd : (nextToken T src pos (c :: cs)).diag = none)
    (hk : (nextToken T src pos (c :: cs)).tok.kind = .text) :
    (nextToken T src pos (c :: cs)).tok.txt = [c] ∧ isSpace c = false := by
  by_cases hsp : isSpace c = true
  · exfalso
    simp only [nextToken, hsp, if_true, scanSpace] at hk
    split at hk <;> cases hk
  · by_cases h1 : (c == '%') = true
    · exfalso
      simp [nextToken, hsp, h1, scanComment] at hk
    · by_cases h2 : (c == '#') = true
      · exfalso
        simp only [nextToken, hsp, h1, h2, if_true, if_false, Bool.false_eq_true] at hk
        unfold scanArgToken at hk
        split at hk
        · cases hk
        · split at hk <;> cases hk
      · cases hm : matchSpecial T (c :: cs) with
        | some t =>
          exfalso
          simp [nextToken, hsp, h1, h2, hm] at hk
        | none =>
          by_cases hb : (c == '\\') = true
          · exfalso
            simp only [nextToken, hsp, h1, h2, hm, hb, if_true, if_false, Bool.false_eq_true] at hk hd
            exact scanMacro_noText T src pos (c :: cs) hd hk
          · simp only [nextToken, hsp, h1, h2, hm, hb, if_false, Bool.false_eq_true]
            exact ⟨trivial, trivial⟩

theorem scanSteps_textTok (T : Tables) (src : Str) : ∀ (fuel pos : Nat) (rest : Str),
    ∀ x ∈ (scanSteps T src fuel pos rest).1, x.diag = none → x.tok.kind = .text →
      ∃ c, x.tok.txt = [c] ∧ isSpace c = false
  | _, _, [], x, hx, _, _ => by simp [scanSteps] at hx
  | 0, _, _ :: _, x, hx, _, _ => by simp [scanSteps] at hx
  | fuel + 1, pos, c :: cs, x, hx, hd, hk => by
    simp only [scanSteps] at hx
    split at hx
    · simp at hx
    · rcases List.mem_cons.mp hx with rfl | hx
      · exact ⟨c, nextToken_textTok T src pos c cs hd hk⟩
      · exact scanSteps_textTok T src fuel _ _ x hx hd hk

/-- the tokens of a text run are blank or single visible characters -/
theorem blankOrChar_of_copy {T : PTables} {st : PState} {t : Tok} (h : CopyTok T st t)
    (hs : t.kind = .text → ∃ c, t.txt = [c] ∧ isSpace c = false) : BlankOrChar t := by
  rcases h.shape.2 with ⟨hk, _⟩ | ⟨_, hb⟩
  · exact Or.inr (hs hk)
  · exact Or.inl hb

theorem pvText_blank : ∀ (w : Str) (pv : Option Char), isBlank w = true → ∀ s, pvText pv (w ++ s) = pvText pv s
  | [], _, _, _ => rfl
  | c :: w, pv, h, s => by
    simp only [isBlank, List.all_cons, Bool.and_eq_true] at h
    have := pvText_blank w pv (by simpa [isBlank] using h.2) s
    simp only [pvText, List.cons_append, List.foldl_cons, pvChar, h.1, if_true] at this ⊢
    exact this

/-- on tokens that are blank or single visible characters, the token-level and the character-level
    "last visible character" agree -/
theorem pvAfter_toks : ∀ (ts : List Tok) (pv : Option Char), (∀ t ∈ ts, BlankOrChar t) →
    pvAfter pv ts = pvText pv (bodyTxt ts)
  | [], _, _ => rfl
  | t :: ts, pv, h => by
    have ih := pvAfter_toks ts
    have ht := h t (List.mem_cons_self ..)
    have hts : ∀ x ∈ ts, BlankOrChar x := fun x hx => h x (List.mem_cons_of_mem _ hx)
    simp only [pvAfter, List.foldl_cons, bodyTxt, List.flatMap_cons] at ih ⊢
    rcases ht with hb | ⟨c, hc, hsp⟩
    · rw [show pstep pv t = pv by simp [pstep, hb], ih pv hts]
      exact (pvText_blank t.txt pv hb _).symm
    · have : pstep pv t = some c := by simp [pstep, hc, isBlank, hsp]
      rw [this, ih _ hts, hc]
      simp [pvText, pvChar, hsp]

theorem bodyTxt_of_getTxtPos (ts : List Tok) : bodyTxt ts = (getTxtPos ts).1 := by
  rw [getTxtPos_charsOf]
  simp only [bodyTxt, charsOf, List.map_flatMap, PlainMacro.tokChars_fst]

/-- the tokens of a text run, seen as a part of the scanner output: the "last visible character"
    behind them is that of the text -/
theorem pvAfter_run {T : PTables} {st : PState} {q : Nat} {s : Str} {steps all : List ScanStep}
    (B : TextRun T st q s steps) (hsub : ∀ x ∈ steps, x ∈ all)
    (hall : ∀ x ∈ all, x.diag = none → x.tok.kind = .text → ∃ c, x.tok.txt = [c] ∧ isSpace c = false)
    (pv : Option Char) : pvAfter pv (steps.map (·.tok)) = pvText pv s := by
  rw [pvAfter_toks _ pv, bodyTxt_of_getTxtPos, B.txt]
  intro t ht
  obtain ⟨x, hx, rfl⟩ := List.mem_map.mp ht
  exact blankOrChar_of_copy (B.ok x hx).2.2 (hall x (hsub x hx) (B.ok x hx).1)

/-! ### what the pieces mean -/

theorem pvAfter_itemOut (pv : Option Char) (p : Nat) (lab : Str) :
    pvAfter pv (itemOut p lab) = pvLab pv lab := by
  have h : isSpace ' ' = true := by decide
  simp [pvAfter, itemOut, pstep, pvLab, spTok, labTok, mkFix, mkAction, isBlank, h]

theorem pvAfter_punct (pv : Option Char) (pc : Option Char) (q : Nat) :
    pvAfter pv (punctToks pc q) = pvPunct pv pc := by
  cases pc with
  | none => rfl
  | some c => simp [pvAfter, punctToks, pstep, pvPunct, mkFix, isBlank]

theorem pvAfter_itemLOut (pv : Option Char) (p : Nat) (a : List Tok) (pc : Option Char) :
    pvAfter pv (itemLOut p a pc) = pvPunct (pvAfter pv a) pc := by
  have e : itemLOut p a pc = [spTok p, mkAction p, mkAction (headPos a)] ++ (a ++
      ([mkAction (lastPos a)] ++ (punctToks pc (lastPos a) ++ [spTok (lastPos a)]))) := by
    simp [itemLOut, itemArgOut]
  have h : isSpace ' ' = true := by decide
  rw [e, pvAfter_append, pvAfter_append, pvAfter_append, pvAfter_append, pvAfter_punct]
  simp [pvAfter, pstep, spTok, mkFix, mkAction, isBlank, h]

theorem tokMarks_spTok (p : Nat) : tokMarks (spTok p) = [some (' ', p)] :=
  tokMarks_mkFix _ _ _ (by simp)

theorem marksOf_punct (pc : Option Char) (q : Nat) : marksOf (punctToks pc q) = punctMarks pc q := by
  cases pc with
  | none => rfl
  | some c =>
    simp only [punctToks, punctMarks, marksOf_cons, tokMarks_mkFix _ _ _ (by simp : Kind.text ≠ .action)]
    rfl

theorem marksOf_itemLOut (p : Nat) (a : List Tok) (pc : Option Char) (X : List Tok) :
    marksOf (itemLOut p a pc ++ X)
      = some (' ', p) :: none :: none :: (marksOf a ++ none :: (punctMarks pc (lastPos a) ++
          some (' ', lastPos a) :: marksOf X)) := by
  simp only [itemLOut, itemArgOut, List.cons_append, List.append_assoc, List.nil_append, marksOf_cons,
    marksOf_append, tokMarks_spTok, tokMarks_mkAction, marksOf_punct]

theorem simple_punct {T : PTables} {st : PState} (hpu : punctOk T st = true) (pv : Option Char) (q : Nat) :
    ∀ t ∈ punctToks (punctOf T pv) q, Simple t := by
  intro t ht
  cases hpc : punctOf T pv with
  | none => rw [hpc] at ht; simp [punctToks] at ht
  | some c =>
    rw [hpc] at ht
    simp only [punctToks, List.mem_singleton] at ht
    subst ht
    exact simple_labTok q [c] (PlainItem.labOk_facts (punctOf_ok hpu hpc) 0).2.2

theorem simple_itemLOut (p : Nat) (a : List Tok) (pc : Option Char) (ha : ∀ t ∈ a, Simple t)
    (hp : ∀ t ∈ punctToks pc (lastPos a), Simple t) : ∀ t ∈ itemLOut p a pc, Simple t := by
  intro t ht
  have e : itemLOut p a pc = [spTok p, mkAction p, mkAction (headPos a)] ++ (a ++
      ([mkAction (lastPos a)] ++ (punctToks pc (lastPos a) ++ [spTok (lastPos a)]))) := by
    simp [itemLOut, itemArgOut]
  rw [e] at ht
  simp only [List.mem_append, List.mem_cons, List.not_mem_nil, or_false] at ht
  rcases ht with (rfl | rfl | rfl) | ht | rfl | ht | rfl
  · exact simple_spTok p
  · exact simple_mkAction p
  · exact simple_mkAction _
  · exact ha t ht
  · exact simple_mkAction _
  · exact hp t ht
  · exact simple_spTok _

/-- the argument of a labelled item: tokens, marks, positions -/
structure ArgFacts (T : PTables) (st : PState) (q : Nat) (label : Str) (a : List Tok) : Prop where
  marks : marksOf a = (posText (q + 1) label).map some
  simple : ∀ t ∈ a, Simple t
  last : lastPos a = labLast q label
  pv : ∀ pv, pvAfter pv a = pvText pv label

theorem argFacts {T : PTables} {st : PState} {q : Nat} {label : Str} {osteps all : List ScanStep}
    (B : TextRun T st (q + 1) label osteps) (hsub : ∀ x ∈ osteps, x ∈ all)
    (hall : ∀ x ∈ all, x.diag = none → x.tok.kind = .text → ∃ c, x.tok.txt = [c] ∧ isSpace c = false) :
    ArgFacts T st q label (labArg q (osteps.map (·.tok))) := by
  by_cases he : osteps = []
  · have hl : label = [] := B.nil_iff he
    subst hl
    subst he
    refine ⟨?_, ?_, ?_, ?_⟩
    · simp [labArg, marksOf, tokMarks, isAction, mkVoid, tokChars, posText]
    · intro t ht
      simp only [labArg, List.map_nil, List.isEmpty_nil, if_true, List.mem_singleton] at ht
      subst ht
      exact Simple_of_nil _ rfl rfl
    · simp [labArg, lastPos, labLast, mkVoid]
    · intro pv; rfl
  · have hne : osteps.map (·.tok) ≠ [] := by simpa using he
    have hlne : label ≠ [] := by
      intro e
      have := B.len
      rw [e] at this
      cases osteps with
      | nil => exact he rfl
      | cons _ _ => simp at this
    have ha : labArg q (osteps.map (·.tok)) = osteps.map (·.tok) := by
      unfold labArg
      rw [if_neg (by simpa using he)]
    rw [ha]
    refine ⟨marksOf_textrun B, ?_, ?_, fun pv => pvAfter_run B hsub hall pv⟩
    · intro t ht
      obtain ⟨x, hx, rfl⟩ := List.mem_map.mp ht
      exact simple_of_copy (B.ok x hx).2.2
    · cases hgl : (osteps.map (·.tok)).getLast? with
      | none => exact absurd (List.getLast?_eq_none_iff.mp hgl) hne
      | some l =>
        rw [lastPos_of_getLast hgl, B.last l hgl]
        unfold labLast
        rw [if_neg (by simpa using hlne)]

/-! ### the scanner -/

open PlainThm (wsSteps wsSteps_len wsSteps_ok)

/-- the scanner on the white space behind `\item`, in front of something visible -/
theorem scanSteps_wsI (T : PTables) (src : Str) (pos fuel : Nat) (ws R : Str)
    (hblank : ws.all isSpace = true) (hnls : countNl ws < 2)
    (hR : R.head?.all (fun d => !isSpace d) = true) (hf : ws.length ≤ fuel) :
    scanSteps T.toTables src fuel pos (ws ++ R)
      = (wsSteps pos ws ++
          (scanSteps T.toTables src (fuel - (wsSteps pos ws).length) (pos + ws.length) R).1,
         (scanSteps T.toTables src (fuel - (wsSteps pos ws).length) (pos + ws.length) R).2) := by
  cases ws with
  | nil => simp [wsSteps]
  | cons c w =>
    obtain ⟨g, rfl⟩ : ∃ g, fuel = g + 1 := ⟨fuel - 1, by simp at hf; omega⟩
    have hb := hblank
    simp only [List.all_cons, Bool.and_eq_true] at hb
    have hn := nextToken_ws T src pos c w R hb.1 hb.2 hnls hR
    rw [show (c :: w) ++ R = c :: (w ++ R) from rfl,
      scanSteps_step T.toTables src g pos c _ _ hn (by simp)]
    have hd : (c :: (w ++ R)).drop (w.length + 1) = R := by simp
    simp only [hd, wsSteps, List.isEmpty_cons, Bool.false_eq_true, if_false, List.length_cons,
      List.length_nil, List.cons_append, List.nil_append]
    simp

theorem wsSteps_space (pos : Nat) (ws : Str) : ∀ t ∈ (wsSteps pos ws).map (·.tok), t.kind = .space := by
  intro t ht
  obtain ⟨x, hx, rfl⟩ := List.mem_map.mp ht
  exact (wsSteps_ok _ _ x hx).2.2

/-- the head of the token buffer of a source that starts with a visible character other than `[` -/
theorem headOk_steps (steps : List ScanStep) (R : Str)
    (hR : R.head?.all (fun d => !isSpace d && d != '[') = true)
    (hfirst : ∀ s ss, steps = s :: ss → s.tok.txt = firstTokTxtM R)
    (hns : ∀ s ss, steps = s :: ss → isSpaceTok s.tok = false) :
    PlainItem.HeadOk (steps.map (·.tok)) := by
  refine headOk_of_first _ R hR ?_ ?_
  · intro t ts he
    cases steps with
    | nil => simp at he
    | cons s2 ss2 =>
      simp only [List.map_cons, List.cons.injEq] at he
      rw [← he.1]; exact hfirst s2 ss2 rfl
  · intro t ts he
    cases steps with
    | nil => simp at he
    | cons s2 ss2 =>
      simp only [List.map_cons, List.cons.injEq] at he
      rw [← he.1]; exact hns s2 ss2 rfl

/-- what the scanner loop yields on a well-formed source, and what the token buffer means -/
structure ScanFacts (T : PTables) (st : PState) (pv : Option Char) (stk : List ItemGen) (rest : Str)
    (ms : List Mark) (nms : List Str) (steps : List ScanStep) : Prop where
  ok : ∀ s ∈ steps, s.diag = none ∧ s.extra = []
  pieces : ∃ ps, steps.map (·.tok) = flat ps ∧ PiecesOk T st stk ps ∧
    marksOf (outP T st pv stk ps) = ms ∧ (∀ t ∈ outP T st pv stk ps, Simple t) ∧
    cost ps ≤ 2 * rest.length ∧ names ps = nms
  first : ∀ s ss, steps = s :: ss → s.tok.txt = firstTokTxtM rest
  firstNS : rest.head?.all (fun d => !isSpace d) = true → ∀ s ss, steps = s :: ss → isSpaceTok s.tok = false

theorem ScanFacts_nil (T : PTables) (st : PState) (pv : Option Char) (stk : List ItemGen) :
    ScanFacts T st pv stk [] [] [] [] :=
  ⟨by simp, ⟨[], rfl, trivial, rfl, by simp [outP], by simp [cost], rfl⟩, by simp, by simp⟩

/-- the statement of the scanner lemma for sources of at most `n` characters -/
def ScanGoal (T : PTables) (st : PState) (src : Str) (n : Nat) : Prop :=
  ∀ (fuel pos : Nat) (rest : Str) (pv : Option Char) (stk : List ItemGen) (ms : List Mark)
    (nms : List Str),
    rest.length ≤ n → rest.length ≤ fuel → OkSrc T st pv stk pos rest ms nms →
    (scanSteps T.toTables src fuel pos rest).2 = true ∧
    ScanFacts T st pv stk rest ms nms (scanSteps T.toTables src fuel pos rest).1

theorem scan_chr (T : PTables) (st : PState) (src : Str) (n : Nat) (ih : ScanGoal T st src n)
    (fuel pos : Nat) (c : Char) (cs : Str) (pv : Option Char) (stk : List ItemGen) (ms' : List Mark)
    (nms : List Str)
    (hn : (c :: cs).length ≤ n + 1) (hf : (c :: cs).length ≤ fuel + 1)
    (hat : okAt T st c cs = true) (hsub0 : OkSrc T st (pvChar pv c) stk (pos + 1) cs ms' nms) :
    (scanSteps T.toTables src (fuel + 1) pos (c :: cs)).2 = true ∧
    ScanFacts T st pv stk (c :: cs) (some (c, pos) :: ms') nms
      (scanSteps T.toTables src (fuel + 1) pos (c :: cs)).1 := by
  have hok0 : OkSrc T st pv stk pos (c :: cs) (some (c, pos) :: ms') nms :=
    .chr pv stk pos c cs ms' nms hat hsub0
  have hsnd := okAt_snd hat
  obtain ⟨hp, hone⟩ := nextToken_text T src pos c cs hsnd
  generalize hs : nextToken T.toTables src pos (c :: cs) = s at hp hone
  have h1 := hp.len_pos
  have h2 := hp.len_le
  have hsub : ∃ ms1, some (c, pos) :: ms' = (posText pos ((c :: cs).take s.len)).map some ++ ms1 ∧
      OkSrc T st (pstep pv s.tok) stk (pos + s.len) ((c :: cs).drop s.len) ms1 nms := by
    by_cases hsp : isSpace c = true
    · have hbl : isBlank s.tok.txt = true := by
        rw [hp.first]
        simp only [firstTokTxt, hsp, if_true, isBlank, List.all_eq_true]
        exact fun x hx => mem_takeWhile_imp _ _ _ hx
      have hpv : pstep pv s.tok = pv := by simp [pstep, hbl]
      rw [hpv]
      refine OkSrc_drop_space T st pv stk nms s.len pos (c :: cs) _ h2 hok0 ?_
      intro x hx
      rw [← hp.txt, hp.first] at hx
      simp only [firstTokTxt, hsp, if_true] at hx
      exact mem_takeWhile_imp _ _ _ hx
    · have hsp' : isSpace c = false := by simpa using hsp
      have hl := (hone hsp').1
      have htxt : s.tok.txt = [c] := by rw [hp.txt, hl]; rfl
      have hpv : pstep pv s.tok = pvChar pv c := by
        simp [pstep, pvChar, htxt, isBlank, hsp']
      rw [hl, hpv]
      exact ⟨ms', rfl, hsub0⟩
  obtain ⟨ms1, hms1, hsub⟩ := hsub
  rw [scanSteps_step T.toTables src fuel pos c cs s hs (by omega)]
  have hl : ((c :: cs).drop s.len).length ≤ fuel := by
    simp only [List.length_drop]; simp only [List.length_cons] at hf h2 ⊢; omega
  have hl' : ((c :: cs).drop s.len).length ≤ n := by
    simp only [List.length_drop]; simp only [List.length_cons] at hn h2 ⊢; omega
  obtain ⟨i1, I⟩ := ih fuel (pos + s.len) ((c :: cs).drop s.len) _ stk ms1 nms hl' hl hsub
  obtain ⟨ps', hflat, hpok, hmarks, hsimple, hcost, hnames⟩ := I.pieces
  have hne : s.tok.txt ≠ [] := by
    rw [hp.txt]
    intro h0
    have := congrArg List.length h0
    simp only [List.length_take, List.length_nil] at this
    omega
  have hshape : Shape s.tok := by
    refine ⟨hne, ?_⟩
    intro hnl
    by_cases hsp : isSpace c = true
    · rw [hp.first]
      simp only [firstTokTxt, hsp, if_true, isBlank, List.all_eq_true]
      exact fun x hx => mem_takeWhile_imp _ _ _ hx
    · have hsp' : isSpace c = false := by simpa using hsp
      have := (hone hsp').1
      rw [hp.txt, this] at hnl
      simp only [List.take_succ_cons, List.take_zero] at hnl
      rw [hasNl_single c hsp'] at hnl; cases hnl
  refine ⟨i1, ?_, ?_, ?_, ?_⟩
  · intro x hx
    rcases List.mem_cons.mp hx with rfl | hx
    · exact ⟨hp.diag, hp.extra⟩
    · exact I.ok x hx
  · refine ⟨.tok s.tok :: ps', by simp [flat, Piece.toks, hflat], ?_, ?_, ?_, ?_, by simpa [names] using hnames⟩
    · refine ⟨hp.tok, ?_, hpok⟩
      -- the short-macro branch
      rw [← hflat]
      have hact := hat
      simp only [okAt, Bool.and_eq_true, Bool.or_eq_true, Bool.not_eq_true'] at hact
      rcases hact.1 with hna | ⟨hns, hk⟩
      · left
        have : s.tok.txt = c :: (cs.take (s.len - 1)) := by
          rw [hp.txt]
          obtain ⟨k, hk⟩ : ∃ k, s.len = k + 1 := ⟨s.len - 1, by omega⟩
          rw [hk]; simp
        rw [this]
        exact not_active_cons T st c _ hna
      · right
        have hlen := (hone hns).1
        have htxt : s.tok.txt = [c] := by rw [hp.txt, hlen]; rfl
        have i4 := I.first
        rw [hlen] at i4 ⊢
        simp only [List.drop_succ_cons, List.drop_zero] at i4 ⊢
        cases hr : (scanSteps T.toTables src fuel (pos + 1) cs).1 with
        | nil => rfl
        | cons s2 ss =>
          simp only [List.map_cons]
          apply expandShortMacro_none
          rw [htxt, i4 s2 ss hr]
          rcases hk with hk | hk
          · cases cs with
            | nil => cases fuel <;> simp [scanSteps] at hr
            | cons => simp at hk
          · simpa using hk
    · simp only [outP]
      rw [marksOf_cons, tokMarks_nonaction _ hp.tok.notAction, tokChars_nofix _ hp.fix, hmarks,
        hp.txt, hp.pos, hms1]
    · intro x hx
      simp only [outP, List.mem_cons] at hx
      rcases hx with rfl | hx
      · exact simple_of_plain hp.tok hshape
      · exact hsimple x hx
    · simp only [cost, List.length_cons, List.length_drop] at hcost h2 ⊢
      omega
  · intro s' ss' he
    simp only [List.cons.injEq] at he
    rw [← he.1, hp.first]
    refine (firstTokTxtM_of_text c cs ?_).symm
    rcases hsnd with h | h
    · exact Or.inl h
    · exact Or.inr h.1
  · intro hh s' ss' he
    simp only [List.cons.injEq] at he
    rw [← he.1]
    have hsp' : isSpace c = false := by simpa using hh
    simp [isSpaceTok, (hone hsp').2]

/-- `\begin{name}` / `\end{name}`: the scanner on the command, for a name of inert characters -/
theorem scanSteps_env (T : PTables) (st : PState) (src : Str) (fuel pos : Nat) (nm : Str) (k : Nat)
    (tok : Tok) (name R : Str) (hk : nm.length + 1 = k)
    (hn1 : nextToken T.toTables src pos ('\\' :: (nm ++ '{' :: (name ++ '}' :: R))) = { tok := tok, len := k })
    (b1 : braceAt T '{' (name ++ '}' :: R) = true) (b2 : braceAt T '}' R = true)
    (hne : name ≠ []) (hin : ∀ c ∈ name, inertChar T st c = true)
    (hf : k + name.length + 2 ≤ fuel + 1) :
    ∃ bsteps g', BodyRun T st name bsteps ∧ g' + bsteps.length + 3 = fuel + 1 ∧
      scanSteps T.toTables src (fuel + 1) pos ('\\' :: (nm ++ '{' :: (name ++ '}' :: R)))
        = ({ tok := tok, len := k } :: { tok := lbr (pos + k), len := 1 } ::
            (bsteps ++ { tok := rbr (pos + k + 1 + name.length), len := 1 } ::
              (scanSteps T.toTables src g' (pos + (name.length + (k + 2))) R).1),
           (scanSteps T.toTables src g' (pos + (name.length + (k + 2))) R).2) := by
  have hname := List.length_pos_iff.mpr hne
  obtain ⟨g, hg⟩ : ∃ g, fuel = g + 1 := ⟨fuel - 1, by omega⟩
  have hn2 := nextToken_brace T src (pos + k) '{' _ (Or.inl rfl) b1
  have hn3 := nextToken_brace T src (pos + k + 1 + name.length) '}' R (Or.inr rfl) b2
  obtain ⟨bsteps, B, hrun⟩ := scanSteps_body T st src R name.length name (pos + k + 1) g
    (Nat.le_refl _) (by omega) hin
  have hBl := B.len
  obtain ⟨g', hg'⟩ : ∃ g', g - bsteps.length = g' + 1 := ⟨g - bsteps.length - 1, by omega⟩
  have hpos : pos + k + 1 + name.length + 1 = pos + (name.length + (k + 2)) := by omega
  refine ⟨bsteps, g', B, by omega, ?_⟩
  have hdrop : ('\\' :: (nm ++ '{' :: (name ++ '}' :: R))).drop k = '{' :: (name ++ '}' :: R) := by
    rw [← hk]; simp
  rw [scanSteps_step T.toTables src fuel pos _ _ _ hn1 (by simp; omega), hdrop]
  simp only []
  rw [hg, scanSteps_step T.toTables src g (pos + k) _ _ _ hn2 (by simp)]
  simp only [List.drop_succ_cons, List.drop_zero]
  rw [hrun, hg', scanSteps_step T.toTables src g' _ _ _ _ hn3 (by simp)]
  simp only [List.drop_succ_cons, List.drop_zero, hpos]
  rfl

theorem firstTok_beg (X : Str) : (begTok 0).txt = firstTokTxtM ('\\' :: (nBegin ++ '{' :: X)) := by
  have htw : (nBegin ++ '{' :: X).takeWhile macroChar = nBegin :=
    takeWhile_append_stop _ _ _ (by decide) rfl
  simp [firstTokTxtM, begTok, sBegin_eq, show isSpace '\\' = false by decide, htw]

theorem firstTok_end (X : Str) : (endTok 0).txt = firstTokTxtM ('\\' :: (nEnd ++ '{' :: X)) := by
  have htw : (nEnd ++ '{' :: X).takeWhile macroChar = nEnd :=
    takeWhile_append_stop _ _ _ (by decide) rfl
  simp [firstTokTxtM, endTok, sEnd_eq, show isSpace '\\' = false by decide, htw]

theorem scan_beg (T : PTables) (st : PState) (src : Str) (n : Nat) (ih : ScanGoal T st src n)
    (fuel pos : Nat) (name R : Str) (pv : Option Char) (stk : List ItemGen) (ms' : List Mark)
    (nms : List Str)
    (hn : ('\\' :: (nBegin ++ '{' :: (name ++ '}' :: R))).length ≤ n + 1)
    (hf : ('\\' :: (nBegin ++ '{' :: (name ++ '}' :: R))).length ≤ fuel + 1)
    (hd : PlainItem.begOk T st name R = true)
    (hsub : OkSrc T st pv (begStk st stk name) (pos + (name.length + 8)) R ms' nms) :
    (scanSteps T.toTables src (fuel + 1) pos ('\\' :: (nBegin ++ '{' :: (name ++ '}' :: R)))).2 = true ∧
    ScanFacts T st pv stk ('\\' :: (nBegin ++ '{' :: (name ++ '}' :: R)))
      (envMarks (envOf st name) pos ++ none :: ms') nms
      (scanSteps T.toTables src (fuel + 1) pos ('\\' :: (nBegin ++ '{' :: (name ++ '}' :: R)))).1 := by
  have D := PlainItem.begFacts hd
  simp only [List.length_cons, List.length_append, nBegin] at hf hn
  have hn1 := nextToken_begin T src pos _ D.special D.noverb
  obtain ⟨bsteps, g', B, hg, hsteps⟩ := scanSteps_env T st src fuel pos nBegin 6 (begTok pos) name R rfl
    hn1 D.b1 D.b2 D.ne D.inert (by simp only [List.length_nil] at hf; omega)
  have hBl := B.len
  obtain ⟨i1, I⟩ := ih g' (pos + (name.length + 8)) R pv _ ms' nms (by simp at hn; omega)
    (by simp at hf; omega) hsub
  obtain ⟨ps', hflat, hpok, hmarks, hsimple, hcost, hnames⟩ := I.pieces
  rw [hsteps]
  have hbt : bodyTxt (bsteps.map (·.tok)) = name := B.txt
  refine ⟨i1, ?_, ?_, ?_, ?_⟩
  · intro x hx
    simp only [List.mem_cons, List.mem_append] at hx
    rcases hx with rfl | rfl | hx | rfl | hx
    · exact ⟨rfl, rfl⟩
    · exact ⟨rfl, rfl⟩
    · exact ⟨(B.ok x hx).1, (B.ok x hx).2.1⟩
    · exact ⟨rfl, rfl⟩
    · exact I.ok x hx
  · refine ⟨.beg pos (pos + 6) (pos + 6 + 1 + name.length) (bsteps.map (·.tok)) :: ps', ?_, ?_, ?_, ?_, ?_,
      by simpa [names] using hnames⟩
    · simp [flat, Piece.toks, hflat]
    · refine ⟨nameToks_of_bodyRun B D.ne, ?_, ?_⟩
      · rw [hbt]; exact D.env
      · rw [hbt]; exact hpok
    · simp only [outP, hbt]
      rw [marksOf_cons, marksOf_cons, tokMarks_envOut, tokMarks_mkAction, hmarks]; rfl
    · intro x hx
      simp only [outP, hbt, List.mem_cons] at hx
      rcases hx with rfl | rfl | hx
      · exact simple_envOut _ _
      · exact simple_mkAction pos
      · exact hsimple x hx
    · simp only [cost, List.length_cons, List.length_append, List.length_map, nBegin, List.length_nil]
      omega
  · intro s' ss' he
    simp only [List.cons.injEq] at he
    rw [← he.1]
    exact firstTok_beg _
  · intro _ s' ss' he
    simp only [List.cons.injEq] at he
    rw [← he.1]; rfl

theorem scan_en (T : PTables) (st : PState) (src : Str) (n : Nat) (ih : ScanGoal T st src n)
    (fuel pos : Nat) (name R : Str) (pv : Option Char) (stk : List ItemGen) (ms' : List Mark)
    (nms : List Str)
    (hn : ('\\' :: (nEnd ++ '{' :: (name ++ '}' :: R))).length ≤ n + 1)
    (hf : ('\\' :: (nEnd ++ '{' :: (name ++ '}' :: R))).length ≤ fuel + 1)
    (hd : PlainItem.endOk T st name R = true)
    (hsub : OkSrc T st pv (endStk stk) (pos + (name.length + 6)) R ms' nms) :
    (scanSteps T.toTables src (fuel + 1) pos ('\\' :: (nEnd ++ '{' :: (name ++ '}' :: R)))).2 = true ∧
    ScanFacts T st pv stk ('\\' :: (nEnd ++ '{' :: (name ++ '}' :: R)))
      (envMarks (envOf st name) pos ++ ms') nms
      (scanSteps T.toTables src (fuel + 1) pos ('\\' :: (nEnd ++ '{' :: (name ++ '}' :: R)))).1 := by
  have D := PlainItem.endFacts hd
  simp only [List.length_cons, List.length_append, nEnd] at hf hn
  have hn1 := nextToken_end T src pos _ D.special
  obtain ⟨bsteps, g', B, hg, hsteps⟩ := scanSteps_env T st src fuel pos nEnd 4 (endTok pos) name R rfl
    hn1 D.b1 D.b2 D.ne D.inert (by simp only [List.length_nil] at hf; omega)
  have hBl := B.len
  obtain ⟨i1, I⟩ := ih g' (pos + (name.length + 6)) R pv _ ms' nms (by simp at hn; omega)
    (by simp at hf; omega) hsub
  obtain ⟨ps', hflat, hpok, hmarks, hsimple, hcost, hnames⟩ := I.pieces
  rw [hsteps]
  have hbt : bodyTxt (bsteps.map (·.tok)) = name := B.txt
  refine ⟨i1, ?_, ?_, ?_, ?_⟩
  · intro x hx
    simp only [List.mem_cons, List.mem_append] at hx
    rcases hx with rfl | rfl | hx | rfl | hx
    · exact ⟨rfl, rfl⟩
    · exact ⟨rfl, rfl⟩
    · exact ⟨(B.ok x hx).1, (B.ok x hx).2.1⟩
    · exact ⟨rfl, rfl⟩
    · exact I.ok x hx
  · refine ⟨.en pos (pos + 4) (pos + 4 + 1 + name.length) (bsteps.map (·.tok)) :: ps', ?_, ?_, ?_, ?_, ?_,
      by simpa [names] using hnames⟩
    · simp [flat, Piece.toks, hflat]
    · refine ⟨nameToks_of_bodyRun B D.ne, ?_, hpok⟩
      rw [hbt]; exact D.env
    · simp only [outP, hbt]
      rw [marksOf_cons, tokMarks_envOut, hmarks]
    · intro x hx
      simp only [outP, hbt, List.mem_cons] at hx
      rcases hx with rfl | hx
      · exact simple_envOut _ _
      · exact hsimple x hx
    · simp only [cost, List.length_cons, List.length_append, List.length_map, nEnd, List.length_nil]
      omega
  · intro s' ss' he
    simp only [List.cons.injEq] at he
    rw [← he.1]
    exact firstTok_end _
  · intro _ s' ss' he
    simp only [List.cons.injEq] at he
    rw [← he.1]; rfl

structure UEnvFacts (T : PTables) (st : PState) (name R : Str) : Prop where
  b1 : braceAt T '{' (name ++ '}' :: R) = true
  ne : name ≠ []
  inert : ∀ c ∈ name, inertChar T st c = true
  b2 : braceAt T '}' R = true
  undecl : lookupEnv st name = none

theorem ubegFacts {T : PTables} {st : PState} {name R : Str} (h : ubegOk T st name R = true) :
    matchSpecial T.toTables ('\\' :: (nBegin ++ '{' :: (name ++ '}' :: R))) = none ∧
    startsWith ('{' :: (name ++ '}' :: R)) sVerbatimArg = false ∧ UEnvFacts T st name R := by
  simp only [ubegOk, Bool.and_eq_true, Bool.not_eq_true', Option.isNone_iff_eq_none,
    List.all_eq_true] at h
  obtain ⟨⟨⟨⟨⟨⟨h1, h2⟩, h3⟩, h4⟩, h5⟩, h6⟩, h7⟩ := h
  exact ⟨h1, h2, h3, by simpa using h4, h5, h6, h7⟩

theorem uendFacts {T : PTables} {st : PState} {name R : Str} (h : uendOk T st name R = true) :
    matchSpecial T.toTables ('\\' :: (nEnd ++ '{' :: (name ++ '}' :: R))) = none ∧
    UEnvFacts T st name R := by
  simp only [uendOk, Bool.and_eq_true, Bool.not_eq_true', Option.isNone_iff_eq_none,
    List.all_eq_true] at h
  obtain ⟨⟨⟨⟨⟨h1, h3⟩, h4⟩, h5⟩, h6⟩, h7⟩ := h
  exact ⟨h1, h3, by simpa using h4, h5, h6, h7⟩

theorem scan_ubeg (T : PTables) (st : PState) (src : Str) (n : Nat) (ih : ScanGoal T st src n)
    (fuel pos : Nat) (name R : Str) (pv : Option Char) (stk : List ItemGen) (ms' : List Mark)
    (nms : List Str)
    (hn : ('\\' :: (nBegin ++ '{' :: (name ++ '}' :: R))).length ≤ n + 1)
    (hf : ('\\' :: (nBegin ++ '{' :: (name ++ '}' :: R))).length ≤ fuel + 1)
    (hd : ubegOk T st name R = true)
    (hsub : OkSrc T st pv stk (pos + (name.length + 8)) R ms' nms) :
    (scanSteps T.toTables src (fuel + 1) pos ('\\' :: (nBegin ++ '{' :: (name ++ '}' :: R)))).2 = true ∧
    ScanFacts T st pv stk ('\\' :: (nBegin ++ '{' :: (name ++ '}' :: R))) (none :: ms') (name :: nms)
      (scanSteps T.toTables src (fuel + 1) pos ('\\' :: (nBegin ++ '{' :: (name ++ '}' :: R)))).1 := by
  obtain ⟨hsp, hnv, D⟩ := ubegFacts hd
  simp only [List.length_cons, List.length_append, nBegin] at hf hn
  have hn1 := nextToken_begin T src pos _ hsp hnv
  obtain ⟨bsteps, g', B, hg, hsteps⟩ := scanSteps_env T st src fuel pos nBegin 6 (begTok pos) name R rfl
    hn1 D.b1 D.b2 D.ne D.inert (by simp only [List.length_nil] at hf; omega)
  have hBl := B.len
  obtain ⟨i1, I⟩ := ih g' (pos + (name.length + 8)) R pv _ ms' nms (by simp at hn; omega)
    (by simp at hf; omega) hsub
  obtain ⟨ps', hflat, hpok, hmarks, hsimple, hcost, hnames⟩ := I.pieces
  rw [hsteps]
  have hbt : bodyTxt (bsteps.map (·.tok)) = name := B.txt
  refine ⟨i1, ?_, ?_, ?_, ?_⟩
  · intro x hx
    simp only [List.mem_cons, List.mem_append] at hx
    rcases hx with rfl | rfl | hx | rfl | hx
    · exact ⟨rfl, rfl⟩
    · exact ⟨rfl, rfl⟩
    · exact ⟨(B.ok x hx).1, (B.ok x hx).2.1⟩
    · exact ⟨rfl, rfl⟩
    · exact I.ok x hx
  · refine ⟨.ubeg pos (pos + 6) (pos + 6 + 1 + name.length) (bsteps.map (·.tok)) :: ps', ?_, ?_, ?_, ?_, ?_,
      by simp [names, hbt, hnames]⟩
    · simp [flat, Piece.toks, hflat]
    · refine ⟨nameToks_of_bodyRun B D.ne, ?_, hpok⟩
      rw [hbt]; exact D.undecl
    · simp only [outP]
      rw [marksOf_cons, tokMarks_mkAction, hmarks]; rfl
    · intro x hx
      simp only [outP, List.mem_cons] at hx
      rcases hx with rfl | hx
      · exact simple_mkAction pos
      · exact hsimple x hx
    · simp only [cost, List.length_cons, List.length_append, List.length_map, nBegin, List.length_nil]
      omega
  · intro s' ss' he
    simp only [List.cons.injEq] at he
    rw [← he.1]
    exact firstTok_beg _
  · intro _ s' ss' he
    simp only [List.cons.injEq] at he
    rw [← he.1]; rfl

theorem scan_uen (T : PTables) (st : PState) (src : Str) (n : Nat) (ih : ScanGoal T st src n)
    (fuel pos : Nat) (name R : Str) (pv : Option Char) (stk : List ItemGen) (ms' : List Mark)
    (nms : List Str)
    (hn : ('\\' :: (nEnd ++ '{' :: (name ++ '}' :: R))).length ≤ n + 1)
    (hf : ('\\' :: (nEnd ++ '{' :: (name ++ '}' :: R))).length ≤ fuel + 1)
    (hd : uendOk T st name R = true)
    (hsub : OkSrc T st pv stk (pos + (name.length + 6)) R ms' nms) :
    (scanSteps T.toTables src (fuel + 1) pos ('\\' :: (nEnd ++ '{' :: (name ++ '}' :: R)))).2 = true ∧
    ScanFacts T st pv stk ('\\' :: (nEnd ++ '{' :: (name ++ '}' :: R))) (none :: ms') nms
      (scanSteps T.toTables src (fuel + 1) pos ('\\' :: (nEnd ++ '{' :: (name ++ '}' :: R)))).1 := by
  obtain ⟨hsp, D⟩ := uendFacts hd
  simp only [List.length_cons, List.length_append, nEnd] at hf hn
  have hn1 := nextToken_end T src pos _ hsp
  obtain ⟨bsteps, g', B, hg, hsteps⟩ := scanSteps_env T st src fuel pos nEnd 4 (endTok pos) name R rfl
    hn1 D.b1 D.b2 D.ne D.inert (by simp only [List.length_nil] at hf; omega)
  have hBl := B.len
  obtain ⟨i1, I⟩ := ih g' (pos + (name.length + 6)) R pv _ ms' nms (by simp at hn; omega)
    (by simp at hf; omega) hsub
  obtain ⟨ps', hflat, hpok, hmarks, hsimple, hcost, hnames⟩ := I.pieces
  rw [hsteps]
  have hbt : bodyTxt (bsteps.map (·.tok)) = name := B.txt
  refine ⟨i1, ?_, ?_, ?_, ?_⟩
  · intro x hx
    simp only [List.mem_cons, List.mem_append] at hx
    rcases hx with rfl | rfl | hx | rfl | hx
    · exact ⟨rfl, rfl⟩
    · exact ⟨rfl, rfl⟩
    · exact ⟨(B.ok x hx).1, (B.ok x hx).2.1⟩
    · exact ⟨rfl, rfl⟩
    · exact I.ok x hx
  · refine ⟨.uen pos (pos + 4) (pos + 4 + 1 + name.length) (bsteps.map (·.tok)) :: ps', ?_, ?_, ?_, ?_, ?_,
      by simpa [names] using hnames⟩
    · simp [flat, Piece.toks, hflat]
    · refine ⟨nameToks_of_bodyRun B D.ne, ?_, hpok⟩
      rw [hbt]; exact D.undecl
    · simp only [outP]
      rw [marksOf_cons, tokMarks_mkAction, hmarks]; rfl
    · intro x hx
      simp only [outP, List.mem_cons] at hx
      rcases hx with rfl | hx
      · exact simple_mkAction pos
      · exact hsimple x hx
    · simp only [cost, List.length_cons, List.length_append, List.length_map, nEnd, List.length_nil]
      omega
  · intro s' ss' he
    simp only [List.cons.injEq] at he
    rw [← he.1]
    exact firstTok_end _
  · intro _ s' ss' he
    simp only [List.cons.injEq] at he
    rw [← he.1]; rfl

theorem firstTok_item (X : Str) (h : X.head?.all (fun d => !macroChar d) = true) :
    (itemTok 0).txt = firstTokTxtM ('\\' :: (nItem ++ X)) := by
  have htw : (nItem ++ X).takeWhile macroChar = nItem :=
    takeWhile_append_stop _ _ _ (by decide) h
  simp [firstTokTxtM, itemTok, sItem_eq, show isSpace '\\' = false by decide, htw]

theorem scan_item (T : PTables) (st : PState) (src : Str) (n : Nat) (ih : ScanGoal T st src n)
    (fuel pos : Nat) (ws R : Str) (pv : Option Char) (stk : List ItemGen) (ms' : List Mark)
    (nms : List Str)
    (hn : ('\\' :: (nItem ++ (ws ++ R))).length ≤ n + 1)
    (hf : ('\\' :: (nItem ++ (ws ++ R))).length ≤ fuel + 1)
    (hd : PlainItem.itemOk T ws R = true) (hlab : labelAt T st stk = true)
    (hsub : OkSrc T st (pvLab pv (labOf T stk)) (itemStk stk) (pos + (ws.length + 5)) R ms' nms) :
    (scanSteps T.toTables src (fuel + 1) pos ('\\' :: (nItem ++ (ws ++ R)))).2 = true ∧
    ScanFacts T st pv stk ('\\' :: (nItem ++ (ws ++ R)))
      (none :: some (' ', pos) :: ((labOf T stk).map (fun c => some (c, pos)) ++ some (' ', pos) :: ms')) nms
      (scanSteps T.toTables src (fuel + 1) pos ('\\' :: (nItem ++ (ws ++ R)))).1 := by
  have D := PlainItem.itemFacts hd
  simp only [List.length_cons, List.length_append, nItem, List.length_nil] at hf hn
  have hn1 := nextToken_item T src pos _ D.special D.adj
  have hd1 : ('\\' :: (nItem ++ (ws ++ R))).drop 5 = ws ++ R := rfl
  have hwl := wsSteps_len (pos + 5) ws
  have hrun := scanSteps_wsI T src (pos + 5) fuel ws R D.blank D.nls D.headNS (by omega)
  have hpos : pos + 5 + ws.length = pos + (ws.length + 5) := by omega
  rw [hpos] at hrun
  obtain ⟨i1, I⟩ := ih (fuel - (wsSteps (pos + 5) ws).length) (pos + (ws.length + 5)) R _ _ ms' nms
    (by omega) (by omega) hsub
  obtain ⟨ps', hflat, hpok, hmarks, hsimple, hcost, hnames⟩ := I.pieces
  rw [scanSteps_step T.toTables src fuel pos _ _ _ hn1 (by simp), hd1]
  simp only []
  rw [hrun]
  have hhead : PlainItem.HeadOk (flat ps') := by
    rw [← hflat]; exact headOk_steps _ R D.head I.first (I.firstNS D.headNS)
  refine ⟨i1, ?_, ?_, ?_, ?_⟩
  · intro x hx
    simp only [List.mem_cons, List.mem_append] at hx
    rcases hx with rfl | hx | hx
    · exact ⟨rfl, rfl⟩
    · exact ⟨(wsSteps_ok _ _ x hx).1, (wsSteps_ok _ _ x hx).2.1⟩
    · exact I.ok x hx
  · refine ⟨.item pos ((wsSteps (pos + 5) ws).map (·.tok)) :: ps', ?_, ?_, ?_, ?_, ?_,
      by simpa [names] using hnames⟩
    · simp [flat, Piece.toks, hflat]
    · refine ⟨wsSteps_space _ _, hhead, hlab, ?_⟩
      exact hpok
    · simp only [outP]
      rw [pvAfter_itemOut, marksOf_append, hmarks]
      simp only [itemOut, marksOf_cons, tokMarks_mkAction, tokMarks_spTok, tokMarks_labTok]
      simp [marksOf]
    · intro x hx
      simp only [outP, itemOut, List.mem_append, List.mem_cons, List.not_mem_nil, or_false] at hx
      rcases hx with (rfl | rfl | rfl | rfl) | hx
      · exact simple_mkAction pos
      · exact simple_spTok pos
      · exact simple_labTok pos _ (labelAt_hasNl hlab)
      · exact simple_spTok pos
      · exact hsimple x hx
    · simp only [cost, List.length_cons, List.length_append, nItem, List.length_nil]
      omega
  · intro s' ss' he
    simp only [List.cons.injEq] at he
    rw [← he.1]
    exact firstTok_item _ D.adj
  · intro _ s' ss' he
    simp only [List.cons.injEq] at he
    rw [← he.1]; rfl

structure ItemLFacts (T : PTables) (st : PState) (ws label R : Str) : Prop where
  special : matchSpecial T.toTables ('\\' :: (nItem ++ (ws ++ '[' :: (label ++ ']' :: R)))) = none
  blank : ws.all isSpace = true
  nls : countNl ws < 2
  adj : (ws ++ '[' :: (label ++ ']' :: R)).head?.all (fun d => !macroChar d) = true
  op : OptFacts T st label R

theorem itemLFacts {T : PTables} {st : PState} {ws label R : Str} (h : itemLOk T st ws label R = true) :
    ItemLFacts T st ws label R := by
  simp only [itemLOk, Bool.and_eq_true, Option.isNone_iff_eq_none, decide_eq_true_eq] at h
  obtain ⟨⟨⟨⟨h1, h2⟩, h3⟩, h4⟩, h5⟩ := h
  exact ⟨h1, h2, h3, h4, optFacts h5⟩

theorem scan_itemL (T : PTables) (st : PState) (src : Str) (n : Nat) (ih : ScanGoal T st src n)
    (hpu : punctOk T st = true)
    (fuel pos : Nat) (ws label R : Str) (pv : Option Char) (stk : List ItemGen) (ms' : List Mark)
    (nms : List Str)
    (hn : ('\\' :: (nItem ++ (ws ++ '[' :: (label ++ ']' :: R)))).length ≤ n + 1)
    (hf : ('\\' :: (nItem ++ (ws ++ '[' :: (label ++ ']' :: R)))).length ≤ fuel + 1)
    (hd : itemLOk T st ws label R = true)
    (hsub : OkSrc T st (pvPunct (pvText pv label) (punctOf T pv)) stk
      (pos + (ws.length + label.length + 7)) R ms' nms) :
    (scanSteps T.toTables src (fuel + 1) pos ('\\' :: (nItem ++ (ws ++ '[' :: (label ++ ']' :: R))))).2 = true ∧
    ScanFacts T st pv stk ('\\' :: (nItem ++ (ws ++ '[' :: (label ++ ']' :: R))))
      (some (' ', pos) :: none :: none :: ((posText (pos + (ws.length + 5) + 1) label).map some ++
        none :: (punctMarks (punctOf T pv) (labLast (pos + (ws.length + 5)) label) ++
          some (' ', labLast (pos + (ws.length + 5)) label) :: ms'))) nms
      (scanSteps T.toTables src (fuel + 1) pos ('\\' :: (nItem ++ (ws ++ '[' :: (label ++ ']' :: R))))).1 := by
  have D := itemLFacts hd
  simp only [List.length_cons, List.length_append, nItem, List.length_nil] at hf hn
  have hn1 := nextToken_item T src pos _ D.special D.adj
  have hd1 : ('\\' :: (nItem ++ (ws ++ '[' :: (label ++ ']' :: R)))).drop 5
      = ws ++ '[' :: (label ++ ']' :: R) := rfl
  have hwl := wsSteps_len (pos + 5) ws
  have hrun := scanSteps_wsI T src (pos + 5) fuel ws ('[' :: (label ++ ']' :: R)) D.blank D.nls
    (by simp; decide) (by omega)
  have hpos : pos + 5 + ws.length = pos + (ws.length + 5) := by omega
  rw [hpos] at hrun
  obtain ⟨ost, O, hrun2⟩ := scanSteps_note T st src (pos + (ws.length + 5))
    (fuel - (wsSteps (pos + 5) ws).length) label R (by omega) D.op.lb D.op.txt D.op.rb
  have hOl := O.len
  have hpos2 : pos + (ws.length + 5) + (label.length + 2) = pos + (ws.length + label.length + 7) := by
    omega
  rw [hpos2] at hrun2
  obtain ⟨i1, I⟩ := ih (fuel - (wsSteps (pos + 5) ws).length - ost.length - 2)
    (pos + (ws.length + label.length + 7)) R _ stk ms' nms (by omega) (by omega) hsub
  obtain ⟨ps', hflat, hpok, hmarks, hsimple, hcost, hnames⟩ := I.pieces
  -- the label tokens are part of the scanner output
  have hall := scanSteps_textTok T.toTables src (fuel - (wsSteps (pos + 5) ws).length)
    (pos + (ws.length + 5)) ('[' :: (label ++ ']' :: R))
  have hsubl : ∀ x ∈ ost, x ∈ (scanSteps T.toTables src (fuel - (wsSteps (pos + 5) ws).length)
      (pos + (ws.length + 5)) ('[' :: (label ++ ']' :: R))).1 := by
    intro x hx
    rw [hrun2]
    simp [hx]
  have A := argFacts O hsubl hall
  have hopt := optToks_of_run O D.op.nrb
  rw [scanSteps_step T.toTables src fuel pos _ _ _ hn1 (by simp), hd1]
  simp only []
  rw [hrun, hrun2]
  have hal : (labArg (pos + (ws.length + 5)) (ost.map (·.tok))).length ≤ label.length + 1 := by
    unfold labArg
    split
    · simp
    · simp only [List.length_map]; omega
  refine ⟨i1, ?_, ?_, ?_, ?_⟩
  · intro x hx
    simp only [List.mem_cons, List.mem_append] at hx
    rcases hx with rfl | hx | rfl | hx | rfl | hx
    · exact ⟨rfl, rfl⟩
    · exact ⟨(wsSteps_ok _ _ x hx).1, (wsSteps_ok _ _ x hx).2.1⟩
    · exact ⟨rfl, rfl⟩
    · exact ⟨(O.ok x hx).1, (O.ok x hx).2.1⟩
    · exact ⟨rfl, rfl⟩
    · exact I.ok x hx
  · refine ⟨.itemL pos ((wsSteps (pos + 5) ws).map (·.tok)) (pos + (ws.length + 5))
        (pos + (ws.length + 5) + 1 + label.length) (ost.map (·.tok)) :: ps', ?_, ?_, ?_, ?_, ?_,
      by simpa [names] using hnames⟩
    · simp [flat, Piece.toks, hflat]
    · exact ⟨wsSteps_space _ _, hopt, hpok⟩
    · simp only [outP]
      rw [pvAfter_itemLOut, A.pv, marksOf_itemLOut, A.marks, A.last, hmarks]
    · intro x hx
      simp only [outP, pvAfter_itemLOut, A.pv, List.mem_append] at hx
      rcases hx with hx | hx
      · exact simple_itemLOut pos _ _ A.simple (simple_punct hpu pv _) x hx
      · exact hsimple x hx
    · simp only [cost, List.length_cons, List.length_append, nItem, List.length_nil]
      omega
  · intro s' ss' he
    simp only [List.cons.injEq] at he
    rw [← he.1]
    exact firstTok_item _ D.adj
  · intro _ s' ss' he
    simp only [List.cons.injEq] at he
    rw [← he.1]; rfl

/-- the scanner loop on a well-formed source -/
theorem scanSteps_items (T : PTables) (st : PState) (src : Str) (hpu : punctOk T st = true) :
    ∀ n, ScanGoal T st src n := by
  intro n
  induction n with
  | zero =>
    intro fuel pos rest pv stk ms nms hn _ hok
    cases rest with
    | nil => cases hok; exact ⟨by simp [scanSteps], by simpa [scanSteps] using ScanFacts_nil T st pv stk⟩
    | cons c cs => simp at hn
  | succ n ih =>
    intro fuel pos rest pv stk ms nms hn hf hok
    cases rest with
    | nil => cases hok; exact ⟨by simp [scanSteps], by simpa [scanSteps] using ScanFacts_nil T st pv stk⟩
    | cons c cs =>
      obtain ⟨fuel, rfl⟩ : ∃ f, fuel = f + 1 := ⟨fuel - 1, by simp at hf; omega⟩
      cases hok with
      | chr _ _ _ _ _ ms' _ hat hsub0 => exact scan_chr T st src n ih fuel pos c cs pv stk ms' nms hn hf hat hsub0
      | beg _ _ _ name R ms' _ hd hsub => exact scan_beg T st src n ih fuel pos name R pv stk ms' nms hn hf hd hsub
      | item _ _ _ ws R ms' _ hd hlab hsub =>
        exact scan_item T st src n ih fuel pos ws R pv stk ms' nms hn hf hd hlab hsub
      | itemL _ _ _ ws label R ms' _ hd hsub =>
        exact scan_itemL T st src n ih hpu fuel pos ws label R pv stk ms' nms hn hf hd hsub
      | en _ _ _ name R ms' _ hd hsub => exact scan_en T st src n ih fuel pos name R pv stk ms' nms hn hf hd hsub
      | ubeg _ _ _ name R ms' nms' hd hsub =>
        exact scan_ubeg T st src n ih fuel pos name R pv stk ms' nms' hn hf hd hsub
      | uen _ _ _ name R ms' _ hd hsub => exact scan_uen T st src n ih fuel pos name R pv stk ms' nms hn hf hd hsub

/-- `scan` on a well-formed source: no diagnostics; the token buffer consists of plain tokens and
    list commands; its output tokens spell the marks of the source -/
theorem scan_items (T : PTables) (st : PState) (src : Str) (hpu : punctOk T st = true)
    (stk : List ItemGen) (ms : List Mark) (nms : List Str) (h : OkSrc T st none stk 0 src ms nms) :
    (scan T.toTables src).diags = [] ∧
    ∃ ps, (scan T.toTables src).toks = flat ps ∧ PiecesOk T st stk ps ∧
      marksOf (outP T st none stk ps) = ms ∧ (∀ t ∈ outP T st none stk ps, Simple t) ∧
      cost ps ≤ 2 * src.length ∧ names ps = nms := by
  obtain ⟨_, F⟩ := scanSteps_items T st src hpu src.length src.length 0 src none stk ms nms (Nat.le_refl _)
    (Nat.le_refl _) h
  have he := flatten_tok_extra (scanSteps T.toTables src src.length 0 src).1 (fun s hs => (F.ok s hs).2)
  have hd := flatten_diag_nil (scanSteps T.toTables src src.length 0 src).1 (fun s hs => (F.ok s hs).1)
  obtain ⟨ps, h1, h2, h3, h4, h5, h6⟩ := F.pieces
  simp only [scan]
  rw [he, hd]
  exact ⟨rfl, ps, h1, h2, h3, h4, h5, h6⟩

/-! ### `parserWork`, `parse`, `tex2txt` -/

structure StFacts (T : PTables) (st : PState) : Prop where
  ne : noEmptyActive T st = true
  sp : (activeChars T st).contains [' '] = false
  pu : punctOk T st = true

theorem stFacts {T : PTables} {st : PState} (h : stateOk T st = true) : StFacts T st := by
  simp only [stateOk, Bool.and_eq_true, Bool.not_eq_true'] at h
  exact ⟨h.1.1, h.1.2, h.2⟩

theorem StFacts.congr {T : PTables} {st st' : PState} (hl : st'.langStack = st.langStack)
    (h : StFacts T st) : StFacts T st' := by
  have hlo : labOk T st' = labOk T st := by
    funext l; simp only [labOk, activeChars_congr T st st' hl]
  exact ⟨(noEmptyActive_congr T st st' hl).trans h.ne,
    by rw [activeChars_congr T st st' hl]; exact h.sp,
    by have := h.pu; simpa only [punctOk, hlo] using this⟩

/-- **`parserWork` on a well-formed source.**  The characters of the result tokens, with their
    positions, are the reference output: the marks of the document with the pure Action lines
    deleted.  The state changes in `itemStack` and `unknowns` only. -/
theorem parserWork_items (T : PTables) (st : PState) (src : Str) (fuel : Nat) (ms : List Mark)
    (nms : List Str) (hf : 2 * src.length + 4 ≤ fuel) (S : StFacts T st)
    (h : OkSrc T st none st.itemStack 0 src ms nms) :
    ∃ r stF, parserWork T fuel src st = .ok (r, stF) ∧ charsOf r = delLines ms ∧
      stF.unknowns = nms.foldl addU st.unknowns ∧ stF.diags = st.diags ∧
      stF.extracted = st.extracted := by
  obtain ⟨f, rfl⟩ : ∃ f, fuel = f + 1 := ⟨fuel - 1, by omega⟩
  obtain ⟨hd, ps, hflat, hpok, hmarks, hsimple, hcost, hnames⟩ := scan_items T st src S.pu st.itemStack ms nms h
  let st' : PState := { st with latex := src, nest := st.nest + 1 }
  have hstok : PlainItem.StOk st st' st.itemStack := ⟨rfl, rfl, rfl⟩
  have hs := seq_listL T st S.ne S.sp S.pu ps f [] st' st.itemStack (by omega) hpok hstok
  rw [List.nil_append] at hs
  have hpv : pvOf ([] : List Tok) = none := rfl
  rw [hpv] at hs
  obtain ⟨r, hr, hchars⟩ := removeLines_simple _ hsimple
  rw [hr] at hs
  simp only [] at hs
  rw [hmarks] at hchars
  let sF : PState := endState st st' st.itemStack ps
  refine ⟨r, ({ sF with latex := st.latex, nest := sF.nest - 1 } : PState), ?_, hchars, ?_, rfl, rfl⟩
  · rw [parserWork.eq_2]
    refine (M.bind_ok _ _ _ _ _ (rfl : M.get st = _)).trans ?_
    refine (M.bind_ok _ _ _ _ _ (rfl : M.modify _ _ = _)).trans ?_
    refine (M.bind_ok _ _ _ _ _ (rfl : M.modify _ _ = _)).trans ?_
    refine (M.bind_ok _ _ _ _ _ (rfl : M.get _ = _)).trans ?_
    simp only [hd, List.append_nil]
    rw [skipPass_nocomment _ _ _ (fun t ht' => hpok.notComment t (by rw [← hflat]; exact ht'))]
    simp only []
    refine (M.bind_ok _ _ _ _ _ (rfl : (pure _ : M (List Tok)) _ = _)).trans ?_
    rw [hflat]
    refine (M.bind_ok _ _ _ _ _ hs).trans ?_
    refine (M.bind_ok _ _ _ _ _ (rfl : M.modify _ _ = _)).trans ?_
    rfl
  · show (names ps).foldl addU st.unknowns = _
    rw [hnames]

theorem parse_items (T : PTables) (st : PState) (src : Str) (fuel : Nat) (ms : List Mark)
    (nms : List Str) (hf : 2 * src.length + 4 ≤ fuel) (S : StFacts T st)
    (h : OkSrc T st none st.itemStack 0 src ms nms) :
    ∃ r stF, parse T fuel src [] [] st = .ok (r, stF) ∧ charsOf r = delLines ms ∧
      stF.unknowns = nms.foldl addU [] ∧ stF.diags = st.diags := by
  have h' : OkSrc T { st with extracted := [], unknowns := [], foreign := false, nest := 0 } none
      st.itemStack 0 src ms nms :=
    OkSrc.congr (st := st)
      (st' := { st with extracted := [], unknowns := [], foreign := false, nest := 0 }) rfl rfl h
  obtain ⟨r, stF, hw, hc, hu, hdg, hex⟩ := parserWork_items T
    { st with extracted := [], unknowns := [], foreign := false, nest := 0 } src fuel ms nms hf
    (StFacts.congr (st := st) rfl S) h'
  refine ⟨r, stF, ?_, hc, hu, hdg⟩
  unfold parse
  simp only [List.isEmpty_nil, Bool.not_true, Bool.false_eq_true, if_false, if_true]
  refine (M.bind_ok _ _ _ _ _ (rfl : M.modify _ _ = _)).trans ?_
  refine (M.bind_ok _ _ _ _ _ (rfl : (pure _ : M (List Tok)) _ = _)).trans ?_
  refine (M.bind_ok _ _ _ _ _ (rfl : M.modify _ _ = _)).trans ?_
  refine (M.bind_ok _ _ _ _ _ hw).trans ?_
  refine (M.bind_ok _ _ _ _ _ (rfl : M.get _ = _)).trans ?_
  show Outcome.ok _ = _
  simp only [] at hex
  simp [hex]

/-- the result of `tex2txt` on a well-formed source (no `--defs`, `--extr`, `--repl`, `--unkn`;
    single-language mode) -/
theorem tex2txt_items_src (T : PTables) (o : Options) (fs : FS) (thresh : Nat) (src : Str) (fuel : Nat)
    (st1 : PState) (ms : List Mark) (nms : List Str)
    (hdefs : o.defs = []) (hextr : o.extr = []) (hrepl : o.hasRepl = false) (hunkn : o.unkn = false)
    (hinit : initParser T fuel o (initialState T o false fs) = .ok ((), st1))
    (S : StFacts T st1) (h : OkSrc T st1 none st1.itemStack 0 src ms nms)
    (hf : 2 * src.length + 4 ≤ fuel) :
    ∃ r, tex2txt T fuel src o false thresh fs = .ok r ∧
      r.txt = (delLines ms).map (·.1) ∧ r.pos = (delLines ms).map (·.2 + 1) ∧
      r.unknowns = nms.foldl addU [] ∧ r.diags = st1.diags ∧ r.parts = [] := by
  obtain ⟨r, stF, hp, hc, hu, hdg⟩ := parse_items T st1 src fuel ms nms hf S h
  have hrun : (initParser T fuel o >>= fun _ => parse T fuel src o.defs
        (if o.extr.isEmpty then [] else (splitOn ',' o.extr []).map (fun s => '\\' :: s)))
        (initialState T o false fs)
      = .ok (r, stF) := by
    refine (M.bind_ok _ _ _ _ _ hinit).trans ?_
    rw [hdefs, hextr]
    exact hp
  unfold tex2txt
  simp only []
  rw [hrun]
  simp only [hrepl, hunkn, Bool.not_false, if_true, Bool.false_eq_true, if_false,
    getTxtPos_charsOf, hc, List.map_map, hu, hdg]
  exact ⟨_, rfl, rfl, rfl, rfl, rfl, rfl⟩

/-- **C04 end to end, lists with labelled items.**  The document consists of inert text, list
    environments with unlabelled items `\item` and LABELLED items `\item[label]`, and undeclared
    environments (`description`) (`SegsOk`: all side conditions); `st1` is the state after
    `Parser.__init__`; no `--defs`, `--extr`, `--repl`, `--unkn`; single-language mode.  With two units
    of fuel per source character and four more, `tex2txt` succeeds and the output text with its
    (1-based) positions is `delLines (marks T st1 none st1.itemStack 0 segs)`: see `marks` — the label
    text replaces the default label, at its own source positions, between a blank pinned at the
    backslash of `\item` and the repeated punctuation / a blank pinned at the last token of the
    label — and then every line deleted (with its line break) that is blank and holds a text-less
    mark; `unknowns` lists the undeclared environments; no diagnostic is added. -/
theorem tex2txt_items (T : PTables) (o : Options) (fs : FS) (thresh : Nat) (segs : List Seg)
    (fuel : Nat) (st1 : PState)
    (hdefs : o.defs = []) (hextr : o.extr = []) (hrepl : o.hasRepl = false) (hunkn : o.unkn = false)
    (hinit : initParser T fuel o (initialState T o false fs) = .ok ((), st1))
    (hok : SegsOk T st1 segs) (hf : 2 * (render segs).length + 4 ≤ fuel) :
    ∃ r, tex2txt T fuel (render segs) o false thresh fs = .ok r ∧
      r.txt = (delLines (marks T st1 none st1.itemStack 0 segs)).map (·.1) ∧
      r.pos = (delLines (marks T st1 none st1.itemStack 0 segs)).map (·.2 + 1) ∧
      r.unknowns = (unames segs).foldl addU [] ∧ r.diags = st1.diags ∧ r.parts = [] := by
  obtain ⟨hst, hsegs⟩ := hok
  have hsrc := OkSrc_of_segsOk T st1 segs none st1.itemStack 0 hsegs
  exact tex2txt_items_src T o fs thresh (render segs) fuel st1 _ _ hdefs hextr hrepl hunkn
    hinit (stFacts hst) hsrc hf

/-
  Recorded `#eval`s (real tables: `Generated.theTables`, `Generated.stDefault`, default options;
  `item_punctuation = . : , ; ! ?`, `item_default_label = ['']`, list environments `enumerate`, `itemize`).

  * `\begin{description}⏎\item[Alpha] one⏎\item[Beta] two⏎\end{description}⏎`
    ↦ `" Alpha  one⏎ Beta  two⏎"`, positions `[21, 27..31, 31, 33.., 38, 44..47, 47, 49..53]`,
    `unknowns = [description]` = the reference (Properties/PlainItemLStmt.lean, `C04_labelled_items_doc1_eval`).
  * `x:⏎\begin{enumerate}⏎\item[Alpha] one.⏎\item two;⏎\item [a b]three⏎\item[] four⏎\item five⏎\end{enumerate}⏎`
    ↦ `"x:⏎ Alpha:  one.⏎ 1. two;⏎ a b; three⏎   four⏎ 2. five⏎"` = the reference: the labels replace the
    default label, `:` and `;` are repeated behind them, the counter counts `1.`, `2.`.
  * `\begin{enumerate}⏎\item⏎\item[x] y⏎\end{enumerate}⏎` ↦ `" 1.  x.  y⏎"` = the reference: the full stop
    of the GENERATED label `1.` counts as "punctuation of the previous text" and is repeated behind `x`.
  * `Wait!⏎\begin{itemize}⏎\item[a] y⏎\end{itemize}⏎` ↦ `"Wait!⏎ a!  y⏎"`.
  * `\item[a]b] y⏎` ↦ `" a b] y⏎"`: the label ends at the first `]` (rejected by `optOk`).
  * `\begin{description}⏎\item one⏎\end{description}⏎` ↦ `"  one⏎"`, `unknowns = [description]`: the
    unlabelled item takes the empty default label of the bottom generator.
-/

end PlainItemL
end Yalafi
