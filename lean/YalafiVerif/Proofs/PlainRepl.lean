/-
  Proofs/PlainRepl.lean — C13 / C01 end to end on plain prose: with a replacement list
  (`--repl`) the result of `tex2txt` on a source of inert characters is exactly
  `replace_phrases` applied to the source and the identity map; hence text and position list
  have equal length and every reported position is a position of the source (1 … len).
-/
import YalafiVerif.Proofs.Plain
import YalafiVerif.Proofs.Replace
namespace Yalafi

/-- `tex2txt` with `--repl` on plain prose: the complete result record -/
theorem tex2txt_plain_repl_text (T : PTables) (o : Options) (fs : FS) (thresh : Nat) (src : Str) (fuel : Nat)
    (st1 : PState) (hdefs : o.defs = []) (hextr : o.extr = []) (hrepl : o.hasRepl = true)
    (hunkn : o.unkn = false)
    (hinit : initParser T fuel o (initialState T o false fs) = .ok ((), st1))
    (h : inertText T st1 src = true) (hf : src.length + 2 ≤ fuel) :
    tex2txt T fuel src o false thresh fs
      = .ok { toks := (scan T.toTables src).toks,
              txt := (replacePhrases T.toTables src (List.range src.length) o.repl).1,
              pos := (replacePhrases T.toTables src (List.range src.length) o.repl).2.map (· + 1),
              parts := [], unknowns := [], diags := st1.diags, foreign := false } := by
  have hrun : (initParser T fuel o >>= fun _ => parse T fuel src o.defs
        (if o.extr.isEmpty then [] else (splitOn ',' o.extr []).map (fun s => '\\' :: s)))
        (initialState T o false fs)
      = .ok ((scan T.toTables src).toks,
             { st1 with extracted := [], unknowns := [], foreign := false, nest := 0 }) := by
    refine (M.bind_ok _ _ _ _ _ hinit).trans ?_
    rw [hdefs, hextr]
    exact parse_plain_text T st1 src fuel hf h
  unfold tex2txt
  simp only []
  rw [hrun]
  simp only [hrepl, hunkn, Bool.not_false, if_true, Bool.false_eq_true, if_false,
    (scan_plain T st1 src h).2.2.2.2.1]

/-- **C13 / C01 on `tex2txt` with a replacement list.**  For plain prose the output is the
    phrase replacement of the source with the identity map; text and map have equal length and
    every reported position lies in `1 … len(source)`. -/
theorem tex2txt_plain_repl (T : PTables) (o : Options) (fs : FS) (thresh : Nat) (src : Str) (fuel : Nat)
    (st1 : PState) (hdefs : o.defs = []) (hextr : o.extr = []) (hrepl : o.hasRepl = true)
    (hunkn : o.unkn = false)
    (hinit : initParser T fuel o (initialState T o false fs) = .ok ((), st1))
    (h : ∀ c ∈ src, inertChar T st1 c = true) (hf : src.length + 2 ≤ fuel) :
    ∃ r, tex2txt T fuel src o false thresh fs = .ok r ∧
      r.txt = (replacePhrases T.toTables src (List.range src.length) o.repl).1 ∧
      r.pos = (replacePhrases T.toTables src (List.range src.length) o.repl).2.map (· + 1) ∧
      r.txt.length = r.pos.length ∧ (∀ p ∈ r.pos, 1 ≤ p ∧ p ≤ src.length) ∧
      r.unknowns = [] ∧ r.diags = st1.diags := by
  refine ⟨_, tex2txt_plain_repl_text T o fs thresh src fuel st1 hdefs hextr hrepl hunkn hinit
    (inertText_of_inertChar T st1 src h) hf, rfl, rfl, ?_, ?_, rfl, rfl⟩
  · have := (replacePhrases_ok T.toTables src (List.range src.length) o.repl (by simp)).1
    simpa using this
  · intro p hp
    simp only [List.mem_map] at hp
    obtain ⟨q, hq, rfl⟩ := hp
    have := (replacePhrases_ok T.toTables src (List.range src.length) o.repl (by simp)).2 q hq
    simp at this
    omega

end Yalafi
