/-
  Proofs/NoEmptyMain.lean — the induction on fuel for the NoEmpty bundle and the end-to-end theorem.
  `handler_step` is ONE `cases` that names one lemma per handler (NoEmptyHandlerA/B/C): a new handler
  constructor of the model needs one new lemma `handler_<name>` and one new line here.
-/
import YalafiVerif.Proofs.NoEmptyStepSeq
import YalafiVerif.Proofs.NoEmptyStepEnv
import YalafiVerif.Proofs.NoEmptyStepArgs
import YalafiVerif.Proofs.NoEmptyStepWork
import YalafiVerif.Proofs.NoEmptyHandlerA
import YalafiVerif.Proofs.NoEmptyHandlerB
import YalafiVerif.Proofs.NoEmptyHandlerC
import YalafiVerif.Proofs.NoEmptyStepMath
import YalafiVerif.Proofs.NoEmptyTop
namespace Yalafi
namespace NoEmpty

variable {T : PTables}

theorem allSpecs_zero : AllSpecs T 0 := by
  refine { seq := ?_, text := ?_, envName := ?_, begin_ := ?_, end_ := ?_, macro_ := ?_, args := ?_, item := ?_, accent := ?_, work := ?_, init := ?_, modParams := ?_, keyvals := ?_, value := ?_, expandKv := ?_, modDesc := ?_, handler := ?_, mathSec := ?_, inline := ?_, dispLoop := ?_, display := ?_ }
  · unfold SpecSeq; intros; rw [expandSequence.eq_1]; exact Post'_outOfFuel _ _
  · unfold SpecText; intros; rw [getTextExpanded.eq_1]; exact Post'_outOfFuel _ _
  · unfold SpecEnvName; intros; rw [getEnvironmentName.eq_1]; exact Post'_outOfFuel _ _
  · unfold SpecBegin; intros; rw [beginEnvironment.eq_1]; exact Post'_outOfFuel _ _
  · unfold SpecEnd; intros; rw [endEnvironment.eq_1]; exact Post'_outOfFuel _ _
  · unfold SpecMacro; intros; rw [expandMacro.eq_1]; exact Post'_outOfFuel _ _
  · unfold SpecArgs; intros; rw [expandArguments.eq_1]; exact Post'_outOfFuel _ _
  · unfold SpecItem; intros; rw [expandItem.eq_1]; exact Post'_outOfFuel _ _
  · unfold SpecAccent; intros; rw [expandAccent.eq_1]; exact Post'_outOfFuel _ _
  · unfold SpecWork; intros; rw [parserWork.eq_1]; exact Post'_outOfFuel _ _
  · unfold SpecInit; intros; rw [initPackage.eq_1]; exact Post'_outOfFuel _ _
  · unfold SpecModParams; intros; rw [modifyParameters.eq_1]; exact Post'_outOfFuel _ _
  · unfold SpecKeyvals; intros; rw [parseKeyvals.eq_1]; exact Post'_outOfFuel _ _
  · unfold SpecValue; intros; rw [parseValue.eq_1]; exact Post'_outOfFuel _ _
  · unfold SpecExpandKv; intros; rw [expandKeyvals.eq_1]; exact Post'_outOfFuel _ _
  · unfold SpecModDesc; intros; rw [modifyDescription.eq_1]; exact Post'_outOfFuel _ _
  · unfold SpecHandler; intros; rw [callHandler.eq_1]; exact Post'_outOfFuel _ _
  · unfold SpecMathSec; intros; rw [expandMathSection.eq_1]; exact Post'_outOfFuel _ _
  · unfold SpecInline; intros; rw [expandInlineMath.eq_1]; exact Post'_outOfFuel _ _
  · unfold SpecDispLoop; intros; rw [displayLoop.eq_1]; exact Post'_outOfFuel _ _
  · unfold SpecDisplay; intros; rw [expandDisplayMath.eq_1]; exact Post'_outOfFuel _ _

theorem handler_step (hne : tblOkB T = true) (hw : T.WFInv) (fuel : Nat) (IH : AllSpecs T fuel) :
    SpecHandler T (fuel + 1) := by
  intro h buf mac args pos st hs ha hp
  cases h with
  | none => exact handler_none hne hw fuel IH buf mac args pos st hs ha hp
  | opaqueH name => exact handler_opaqueH name hne hw fuel IH buf mac args pos st hs ha hp
  | newcommand => exact handler_newcommand hne hw fuel IH buf mac args pos st hs ha hp
  | «theorem» title => exact handler_theorem title hne hw fuel IH buf mac args pos st hs ha hp
  | newtheorem => exact handler_newtheorem hne hw fuel IH buf mac args pos st hs ha hp
  | heading => exact handler_heading hne hw fuel IH buf mac args pos st hs ha hp
  | phantom => exact handler_phantom hne hw fuel IH buf mac args pos st hs ha hp
  | hspace => exact handler_hspace hne hw fuel IH buf mac args pos st hs ha hp
  | cite => exact handler_cite hne hw fuel IH buf mac args pos st hs ha hp
  | loadDefs => exact handler_loadDefs hne hw fuel IH buf mac args pos st hs ha hp
  | loadModule cls => exact handler_loadModule cls hne hw fuel IH buf mac args pos st hs ha hp
  | foreignlanguage => exact handler_foreignlanguage hne hw fuel IH buf mac args pos st hs ha hp
  | selectlanguage => exact handler_selectlanguage hne hw fuel IH buf mac args pos st hs ha hp
  | beginOtherlang => exact handler_beginOtherlang hne hw fuel IH buf mac args pos st hs ha hp
  | endOtherlang => exact handler_endOtherlang hne hw fuel IH buf mac args pos st hs ha hp
  | endOtherlangStar => exact handler_endOtherlangStar hne hw fuel IH buf mac args pos st hs ha hp
  | substack => exact handler_substack hne hw fuel IH buf mac args pos st hs ha hp
  | proof => exact handler_proof hne hw fuel IH buf mac args pos st hs ha hp
  | bibCite => exact handler_bibCite hne hw fuel IH buf mac args pos st hs ha hp
  | footcite => exact handler_footcite hne hw fuel IH buf mac args pos st hs ha hp
  | xspace => exact handler_xspace hne hw fuel IH buf mac args pos st hs ha hp
  | gls key cf ca => exact handler_gls key cf ca hne hw fuel IH buf mac args pos st hs ha hp
  | newacronym => exact handler_newacronym hne hw fuel IH buf mac args pos st hs ha hp
  | newglossaryentry => exact handler_newglossaryentry hne hw fuel IH buf mac args pos st hs ha hp
  | parseGlsdefs => exact handler_parseGlsdefs hne hw fuel IH buf mac args pos st hs ha hp
  | readSed => exact handler_readSed hne hw fuel IH buf mac args pos st hs ha hp
  | crefWarn => exact handler_crefWarn hne hw fuel IH buf mac args pos st hs ha hp
  | cref plain star => exact handler_cref plain star hne hw fuel IH buf mac args pos st hs ha hp
  | crefrange plain star => exact handler_crefrange plain star hne hw fuel IH buf mac args pos st hs ha hp

/-- the bundle, for every fuel -/
theorem allSpecs (hne : tblOkB T = true) (hw : T.WFInv) : ∀ fuel, AllSpecs T fuel := by
  intro fuel
  induction fuel with
  | zero => exact allSpecs_zero
  | succ fuel IH =>
    exact {
      seq := seq_step hne hw fuel IH,
      text := text_step hne hw fuel IH,
      envName := envName_step hne hw fuel IH,
      begin_ := begin_step hne hw fuel IH,
      end_ := end_step hne hw fuel IH,
      macro_ := macro_step hne hw fuel IH,
      args := args_step hne hw fuel IH,
      item := item_step hne hw fuel IH,
      accent := accent_step hne hw fuel IH,
      work := work_step hne hw fuel IH,
      init := init_step hne hw fuel IH,
      modParams := modParams_step hne hw fuel IH,
      keyvals := keyvals_step hne hw fuel IH,
      value := value_step hne hw fuel IH,
      expandKv := expandKv_step hne hw fuel IH,
      modDesc := modDesc_step hne hw fuel IH,
      handler := handler_step hne hw fuel IH,
      mathSec := mathSec_step hne hw fuel IH,
      inline := inline_step hne hw fuel IH,
      dispLoop := dispLoop_step hne hw fuel IH,
      display := display_step hne hw fuel IH }

/-- the filter model never ends in the `cap_first` crash -/
theorem tex2txt_noCapFirst_all (hne : tblOkB T = true) (hw : T.WFInv)
    (fuel : Nat) (latex : Str) (o : Options) (multi : Bool) (thresh : Nat) (fs : FS) :
    tex2txt T fuel latex o multi thresh fs ≠ .crash site :=
  tex2txt_noCapFirst hne hw (allSpecs hne hw) fuel latex o multi thresh fs

end NoEmpty
end Yalafi
